// N lines / nalu search: the entry points that read a written SEI NAL unit back, avc.ParseSEINalu and
// hevc.ParseSEINalu (header check, ExtractSEIData, one decoder per message chosen by codec, type and the
// SPS' VUI/HRD parameters, trailing-bits-missing returned WITH the messages), against
// parse_sei_nalu_avc / parse_sei_nalu_hevc of coq/c17/C17NaluModel.v (theorems C17_nalu_written,
// C17_nalu_roundtrip).
package main

import (
	"bytes"
	"errors"
	"fmt"
	"strings"

	"github.com/Eyevinn/mp4ff/avc"
	"github.com/Eyevinn/mp4ff/hevc"
	"github.com/Eyevinn/mp4ff/sei"
	"verifharness/hx"
)

// what the SPS says, as generated
type avcPar struct {
	mode     int // 0 nil SPS, 1 SPS without VUI, 2 VUI
	vcl, nal *[3]uint
}

func (p avcPar) sps() *avc.SPS {
	switch p.mode {
	case 0:
		return nil
	case 1:
		return &avc.SPS{}
	}
	vui := &avc.VUIParameters{PicStructPresentFlag: true}
	mk := func(h *[3]uint) *avc.HrdParameters {
		return &avc.HrdParameters{CpbRemovalDelayLengthMinus1: h[0], DpbOutputDelayLengthMinus1: h[1], TimeOffsetLength: h[2],
			InitialCpbRemovalDelayLengthMinus1: 7}
	}
	if p.vcl != nil {
		vui.VclHrdParametersPresentFlag, vui.VclHrdParameters = true, mk(p.vcl)
	}
	if p.nal != nil {
		vui.NalHrdParametersPresentFlag, vui.NalHrdParameters = true, mk(p.nal)
	}
	return &avc.SPS{VUI: vui}
}

func hrd3String(h *[3]uint) string {
	if h == nil {
		return "-"
	}
	return hu(uint64(h[0])) + "," + hu(uint64(h[1])) + "," + hu(uint64(h[2]))
}

func (p avcPar) String() string {
	if p.mode < 2 {
		return "none"
	}
	return "vui:" + hrd3String(p.vcl) + ":" + hrd3String(p.nal)
}

// the external parameters the wrapper hands to the picture timing decoder (generator side: which message to build)
func (p avcPar) ext() (*sei.CbpDbpDelay, byte) {
	if p.mode < 2 {
		return nil, 0
	}
	h := p.vcl
	if h == nil {
		h = p.nal
	}
	if h == nil {
		return nil, 0
	}
	return &sei.CbpDbpDelay{CpbRemovalDelayLengthMinus1: byte(h[0]), DpbOutputDelayLengthMinus1: byte(h[1])}, byte(h[2])
}

func genHrd3(r *hx.Rng) *[3]uint {
	h := &[3]uint{uint(pickU(r, 31)), uint(pickU(r, 31)), uint(pickU(r, 31))}
	if r.Intn(6) == 0 { // uint fields wider than the byte the wrapper keeps
		h[r.Intn(3)] += 256 * uint(1+r.Intn(3))
	}
	return h
}

func genAvcPar(r *hx.Rng) avcPar {
	p := avcPar{mode: r.Pick(0, 1, 2, 2, 2, 2)}
	if p.mode == 2 {
		switch r.Intn(5) {
		case 0: // VUI without HRD
		case 1:
			p.vcl = genHrd3(r)
		case 2:
			p.nal = genHrd3(r)
		default:
			p.vcl, p.nal = genHrd3(r), genHrd3(r)
		}
	}
	return p
}

type hevcPar struct {
	mode int // 0 nil SPS, 1 SPS without VUI, 2 VUI
	ffi  bool
	hrd  *hevc.HrdParameters
}

func (p hevcPar) sps() *hevc.SPS {
	switch p.mode {
	case 0:
		return nil
	case 1:
		return &hevc.SPS{}
	}
	return &hevc.SPS{VUI: &hevc.VUIParameters{FrameFieldInfoPresentFlag: p.ffi, HrdParametersPresentFlag: p.hrd != nil, HrdParameters: p.hrd}}
}

func (p hevcPar) String() string {
	if p.mode < 2 {
		return "none"
	}
	s := "vui:" + b01(p.ffi) + ":"
	if p.hrd == nil {
		return s + "-"
	}
	h := p.hrd
	return s + strings.Join([]string{b01(h.NalHrdParametersPresentFlag), b01(h.VclHrdParametersPresentFlag), b01(h.SubPicHrdParamsPresentFlag),
		b01(h.SubPicCpbParamsInPicTimingSeiFlag), hu(uint64(h.AuCpbRemovalDelayLengthMinus1)), hu(uint64(h.DpbOutputDelayLengthMinus1)),
		hu(uint64(h.DpbOutputDelayDuLengthMinus1)), hu(uint64(h.DuCpbRemovalDelayIncrementLengthMinus1))}, ",")
}

// fixedBytes: bytes of a picture timing payload up to the sub-picture part, for sizing generated payloads
func (p hevcPar) fixedBytes() int {
	n := 0
	if p.ffi {
		n += 7
	}
	if h := p.hrd; h != nil && (h.NalHrdParametersPresentFlag || h.VclHrdParametersPresentFlag) {
		n += int(h.AuCpbRemovalDelayLengthMinus1) + int(h.DpbOutputDelayLengthMinus1) + 2
		if h.SubPicHrdParamsPresentFlag {
			n += int(h.DpbOutputDelayDuLengthMinus1) + 1
		}
	}
	if n == 0 {
		return 1
	}
	return (n + 7) / 8
}

func genHevcSps(r *hx.Rng) hevcPar {
	p := hevcPar{mode: r.Pick(0, 1, 2, 2, 2), ffi: r.Bool()}
	if p.mode == 2 && r.Intn(4) != 0 {
		p.hrd = &hevc.HrdParameters{NalHrdParametersPresentFlag: r.Bool(), VclHrdParametersPresentFlag: r.Intn(3) == 0,
			SubPicHrdParamsPresentFlag: r.Intn(3) == 0, SubPicCpbParamsInPicTimingSeiFlag: r.Intn(3) == 0,
			AuCpbRemovalDelayLengthMinus1: uint8(r.Intn(32)), DpbOutputDelayLengthMinus1: uint8(r.Intn(32)),
			DpbOutputDelayDuLengthMinus1: uint8(r.Intn(32)), DuCpbRemovalDelayIncrementLengthMinus1: uint8(r.Intn(32)),
			TickDivisorMinus2: uint8(r.Intn(256)), InitialCpbRemovalDelayLengthMinus1: uint8(r.Intn(32))}
	}
	return p
}

// one message of a generated NAL unit; want = the Go type the wrapper must return it as ("" = whatever)
type naluMsg struct {
	m    sei.SEIMessage
	want string
}

// genNaluMsgs: 1-4 messages: typed values of the codec (AVC picture timing built for the SPS' external
// lengths, 1 in 6 for other lengths), typed values of the OTHER codec (come back as general data),
// pass-through payloads (accepted and refused ones), general data incl. types that have a decoder
func genNaluMsgs(r *hx.Rng, isAvc bool, ap avcPar, hp hevcPar, validOnly bool) []naluMsg {
	k := r.Range(1, 4)
	var ms []naluMsg
	for i := 0; i < k; i++ {
		switch r.Intn(8) {
		case 0, 1: // picture timing (AVC typed; HEVC: pass-through with VUI, general data without)
			if isAvc {
				ext, tolen := ap.ext()
				if !validOnly && r.Intn(6) == 0 {
					ext, tolen = nil, byte(r.Intn(4))
					if r.Bool() {
						ext = &sei.CbpDbpDelay{CpbRemovalDelayLengthMinus1: byte(r.Intn(32)), DpbOutputDelayLengthMinus1: byte(r.Intn(32))}
					}
				}
				pt := genPicTiming(r, true, ext != nil, tolen)
				if ext != nil {
					pt.CbpDbpDelay.InitialCpbRemovalDelayLengthMinus1 = 0
					pt.CbpDbpDelay.CpbRemovalDelayLengthMinus1, pt.CbpDbpDelay.DpbOutputDelayLengthMinus1 = ext.CpbRemovalDelayLengthMinus1, ext.DpbOutputDelayLengthMinus1
					pt.CbpDbpDelay.CpbRemovalDelay = uint(pickU(r, (uint64(1)<<(ext.CpbRemovalDelayLengthMinus1+1))-1))
					pt.CbpDbpDelay.DpbOutputDelay = uint(pickU(r, (uint64(1)<<(ext.DpbOutputDelayLengthMinus1+1))-1))
				}
				ms = append(ms, naluMsg{pt, "*sei.PicTimingAvcSEI"})
			} else {
				pl := r.Bytes(r.Range(1, 14), nil)
				if !validOnly && hp.mode == 2 && r.Bool() {
					// exactly as many bytes as the fixed part needs under these parameters (1 in 4: one less): a wrapper
					// that hands the decoder other flags or lengths accepts / refuses differently
					pl = r.Bytes(hp.fixedBytes()-r.Pick(0, 0, 0, 1), nil)
				}
				if validOnly {
					pl = append(pl, r.Bytes(16, nil)...) // long enough for every parameter set without sub-picture loop
				}
				want := "*sei.SEIData"
				if hp.mode == 2 {
					want = "*sei.PicTimingHevcSEI"
				}
				ms = append(ms, naluMsg{sei.NewSEIData(1, pl), want})
			}
		case 2: // typed messages of HEVC (general data for AVC)
			v := genVal(r, r.Pick(kTC, kMD, kCL), true)
			want := "*sei.SEIData"
			if !isAvc {
				want = fmt.Sprintf("%T", v.msg())
			}
			ms = append(ms, naluMsg{v.msg(), want})
		case 3:
			pl := genRegistered(r)
			if validOnly {
				pl = append(r.Bytes(8, nil), r.Bytes(r.Intn(12), escAlphabet)...)
				pl[7] = 4 // not CEA-608
			}
			ms = append(ms, naluMsg{sei.NewSEIData(4, pl), ""})
		case 4:
			n := r.Pick(15, 16, 17, 20, 40)
			if validOnly {
				n = r.Pick(16, 17, 20, 40)
			}
			ms = append(ms, naluMsg{sei.NewSEIData(5, r.Bytes(n, escAlphabet)), "*sei.UnregisteredSEI"})
		case 5: // general data
			ms = append(ms, naluMsg{sei.NewSEIData(uint(r.Pick(0, 2, 3, 6, 45, 128, 135, 138, 255, 256, 300)), genPayload(r, genSize(r)%300)), "*sei.SEIData"})
		default: // a type that has a decoder, arbitrary payload
			if validOnly {
				ms = append(ms, naluMsg{sei.NewSEIData(uint(r.Pick(0, 6, 255)), genPayload(r, r.Intn(6))), "*sei.SEIData"})
			} else {
				ms = append(ms, naluMsg{sei.NewSEIData(uint(r.Pick(1, 136, 137, 144)), genPayload(r, r.Pick(0, 1, 3, 4, 5, 24))), ""})
			}
		}
	}
	return ms
}

func writeNalu(r *hx.Rng, isAvc bool, ms []naluMsg, validOnly bool) []byte {
	l := make([]sei.SEIMessage, len(ms))
	for i := range ms {
		l[i] = ms[i].m
	}
	var buf bytes.Buffer
	_ = sei.WriteSEIMessages(&buf, l)
	var hdr []byte
	if isAvc {
		hdr = []byte{byte(r.Pick(0x06, 0x06, 0x26, 0x66, 0xe6))}
		if !validOnly && r.Intn(12) == 0 {
			hdr = []byte{byte(r.Pick(0x05, 0x07, 0x16, 0x45, 0x00))}
		}
	} else {
		hdr = []byte{byte(r.Pick(0x4e, 0x4e, 0x50, 0xce, 0x4f, 0x51)), byte(r.Pick(1, 1, 0, 0xff))}
		if !validOnly && r.Intn(12) == 0 {
			hdr = []byte{byte(r.Pick(0x4c, 0x52, 0x0e, 0x40)), 1}
		}
	}
	return append(hdr, buf.Bytes()...)
}

// the messages as the model driver renders them: tag~body~Type()~Size()~Payload(), joined by &
func renderMsg(m sei.SEIMessage) string {
	var tag, body string
	switch v := m.(type) {
	case *sei.TimeCodeSEI:
		tag, body = "T136", clocksString(v.Clocks)
	case *sei.PicTimingAvcSEI:
		tag, body = "T1", ptString(v)
	case *sei.MasteringDisplayColourVolumeSEI:
		tag, body = "T137", mdcvString(v)
	case *sei.ContentLightLevelInformationSEI:
		tag, body = "T144", hu(uint64(v.MaxContentLightLevel))+","+hu(uint64(v.MaxPicAverageLightLevel))
	case *sei.RegisteredSEI:
		tag, body = "P", "reg"
	case *sei.CEA608sei:
		tag, body = "P", "608:"+hx.Hex(v.Field1)+":"+hx.Hex(v.Field2)
	case *sei.UnregisteredSEI:
		tag, body = "P", "unreg:"+hx.Hex(v.UUID)
	case *sei.PicTimingHevcSEI:
		tag, body = "P", "pth"
	case *sei.SEIData:
		tag, body = "R", "-"
	default:
		tag, body = "?", fmt.Sprintf("%T", m)
	}
	return tag + "~" + body + "~" + hu(uint64(m.Type())) + "~" + hu(uint64(m.Size())) + "~" + hx.Hex(m.Payload())
}

func parseNalu(isAvc bool, nalu []byte, ap avcPar, hp hevcPar) (class string, list string, got []sei.SEIMessage) {
	var err error
	list = "-"
	p := hx.Try(func() {
		if isAvc {
			got, err = avc.ParseSEINalu(hx.Exact(nalu), ap.sps())
		} else {
			got, err = hevc.ParseSEINalu(hx.Exact(nalu), hp.sps())
		}
		if err == nil || errors.Is(err, sei.ErrRbspTrailingBitsMissing) {
			ss := make([]string, len(got))
			for i, m := range got {
				ss[i] = renderMsg(m)
			}
			if len(ss) > 0 {
				list = strings.Join(ss, "&")
			}
		}
	})
	switch {
	case p != "":
		return "panic", "-", nil
	case err == nil:
		return "ok", list, got
	case errors.Is(err, sei.ErrRbspTrailingBitsMissing):
		return "missing", list, got
	case errors.Is(err, avc.ErrNotSEINalu) || errors.Is(err, hevc.ErrNotSEINalu):
		return "notsei", "-", nil
	}
	return "err", "-", nil
}

// NA / NH  id  par  nalu  class  messages
func corrNalu(r *hx.Rng, id *int, n int) {
	// small scope first: every unit of up to 3 bytes over header / trailing-bits / run bytes, no SPS
	allStrings([]byte{0x06, 0x4e, 0x50, 0x01, 0x80, 0x00, 0xff}, 3, func(b []byte) {
		for _, isAvc := range []bool{true, false} {
			class, list, _ := parseNalu(isAvc, b, avcPar{}, hevcPar{})
			fmt.Fprintf(out, "%s\tn%d\tnone\t%s\t%s\t%s\n", map[bool]string{true: "NA", false: "NH"}[isAvc], *id, hx.Hex(b), class, list)
			*id++
		}
	})
	for i := 0; i < n; i++ {
		tag := fmt.Sprintf("n%d", *id)
		*id++
		isAvc := i%2 == 0
		ap, hp := genAvcPar(r), genHevcSps(r)
		nalu := writeNalu(r, isAvc, genNaluMsgs(r, isAvc, ap, hp, false), false)
		switch r.Intn(8) {
		case 0: // malformed: the bytes behind the header mutated (truncated, trailing byte dropped, ...)
			hl := 1
			if !isAvc {
				hl = 2
			}
			nalu = append(append([]byte{}, nalu[:hl]...), mutate(r, nalu[hl:])...)
		case 1:
			nalu = nalu[:len(nalu)-1] // trailing bits missing (or a cut message)
		case 2:
			if r.Intn(3) == 0 {
				nalu = r.Bytes(r.Intn(4), []byte{0x06, 0x4e, 0x01, 0x80, 0x00})
			}
		}
		class, list, _ := parseNalu(isAvc, nalu, ap, hp)
		if isAvc {
			fmt.Fprintf(out, "NA\t%s\t%s\t%s\t%s\t%s\n", tag, ap.String(), hx.Hex(nalu), class, list)
		} else {
			fmt.Fprintf(out, "NH\t%s\t%s\t%s\t%s\t%s\n", tag, hp.String(), hx.Hex(nalu), class, list)
		}
	}
}

// search: the property through the wrappers. A list of messages in the domain of C17_nalu_roundtrip (typed
// canonical values of the codec built for the SPS' lengths, accepted pass-through payloads, general data), a
// valid header: ParseSEINalu returns no error, as many messages as written, each of the Go type its
// (codec, type, SPS) calls for, with the written Type() and Payload() bytes and, for typed messages, a value
// whose re-serialisation and exported fields are those of the written value.
func checkNalu(r *hx.Rng) {
	isAvc := r.Bool()
	ap, hp := genAvcPar(r), genHevcSps(r)
	ms := genNaluMsgs(r, isAvc, ap, hp, true)
	nalu := writeNalu(r, isAvc, ms, true)
	site := "hevc.ParseSEINalu"
	par := hp.String()
	if isAvc {
		site, par = "avc.ParseSEINalu", ap.String()
	}
	w := par + " " + hx.Hex(nalu)
	evals++
	class, _, got := parseNalu(isAvc, nalu, ap, hp)
	if class != "ok" {
		// HEVC picture timing payloads are random: the decoder may refuse them (then nothing is demanded)
		if class == "err" && !isAvc && hp.mode == 2 {
			for _, m := range ms {
				if m.want == "*sei.PicTimingHevcSEI" {
					return
				}
			}
		}
		fail(site+" mixed list", "roundtrip-fails", w, "ParseSEINalu(header + WriteSEIMessages(msgs)) = "+class)
		return
	}
	if len(got) != len(ms) {
		fail(site+" mixed list", "roundtrip-differs", w, fmt.Sprintf("%d messages written, %d returned", len(ms), len(got)))
		return
	}
	for i, m := range ms {
		g := got[i]
		if g.Type() != m.m.Type() || !bytes.Equal(g.Payload(), m.m.Payload()) || g.Size() != uint(len(m.m.Payload())) {
			fail(site+" mixed list", "roundtrip-differs", w, fmt.Sprintf("message %d: type/payload/size %d/%s/%d, written %d/%s", i,
				g.Type(), hx.Hex(g.Payload()), g.Size(), m.m.Type(), hx.Hex(m.m.Payload())))
			return
		}
		if m.want != "" && fmt.Sprintf("%T", g) != m.want {
			fail(site+" mixed list", "wrong-decoder", w, fmt.Sprintf("message %d (type %d) returned as %T, not %s", i, g.Type(), g, m.want))
			return
		}
		if hv, hg := wrapMsg(m.m), wrapMsg(g); hv != nil && hg != nil && hv.kind == hg.kind && hv.fields() != hg.fields() {
			fail(site+" mixed list", "typed-roundtrip-differs", w, fmt.Sprintf("message %d: fields %s, written %s", i, hg.fields(), hv.fields()))
			return
		}
	}
}
