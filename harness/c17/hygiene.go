// Cross-cutting hygiene oracles of the C17 search (not used by corr).
//
//	hygRead  every reader of caller-owned bytes (ExtractSEIData over a reader on the caller's buffer, avc/hevc.ParseSEINalu,
//	         the typed and pass-through decoders behind sei.NewSEIData(type, payload)) is run on an exact-capacity copy and on a
//	         sub-slice with 24 guard bytes behind it: guards intact (writes-beyond-len), same class and rendering
//	         (depends-on-capacity); then the caller overwrites its buffer: the messages already returned must not change
//	         (keeps-callers-buffer; NOT demanded of the pass-through messages and SEIData, which hold the payload they were
//	         given by design: sei.NewSEIData / NewUnregisteredSEI are on C20's audited list of byte views); then a malformed
//	         relative of the input is read and the input once more: same answer as the first time (depends-on-earlier-calls), and
//	         what the first call returned still reads the same (result-changed-by-later-calls: storage shared between calls).
//	hygWrite WriteSEIMessages is given messages whose payload slices are sub-slices with guard bytes: payloads and guards
//	         unchanged afterwards (the writer reads its messages), the rendering of every message (Type, Size, Payload,
//	         String) is the same before and after (encode-mutates-message), a second write gives the same bytes
//	         (write-not-repeatable), and a write into a writer that accepts one byte per call gives the same bytes
//	         (write-depends-on-writer).
package main

import (
	"bytes"
	"fmt"
	"strings"

	"github.com/Eyevinn/mp4ff/avc"
	"github.com/Eyevinn/mp4ff/hevc"
	"github.com/Eyevinn/mp4ff/sei"
	"verifharness/hx"
)

const guardLen = 24
const guardByte = 0xA5

func guardedCopy(b []byte) (full []byte, sub []byte) {
	full = make([]byte, len(b)+guardLen)
	copy(full, b)
	for i := len(b); i < len(full); i++ {
		full[i] = guardByte
	}
	return full, full[:len(b)]
}

func guardsIntact(full []byte, n int) bool {
	for i := n; i < len(full); i++ {
		if full[i] != guardByte {
			return false
		}
	}
	return true
}

// a reader under test: class (ok|err|missing|panic) and a rendering of what it returned (evaluated lazily, so that it can be
// evaluated again after the caller has re-used its buffer)
type readFn func(b []byte) (class string, render func() string)

func runRead(f readFn, b []byte) (class string, render func() string) {
	p := hx.Try(func() { class, render = f(b) })
	if p != "" {
		return "panic", nil
	}
	return class, render
}

func renderOf(r func() string) (s string) {
	if r == nil {
		return "-"
	}
	if p := hx.Try(func() { s = r() }); p != "" {
		return "render-panic"
	}
	return s
}

func malformed(b []byte) []byte {
	if len(b) < 2 {
		return []byte{0xff}
	}
	m := hx.Exact(b[:1+len(b)/2])
	m[len(m)-1] ^= 0x41
	return m
}

var hygSeen = map[string]int{}

func hygFail(site, class, witness, desc string) {
	hygSeen[site+"/"+class]++
	if hygSeen[site+"/"+class] <= 3 { // a broken site fails on most inputs: three witnesses are enough
		fail(site, class, witness, desc)
	}
}

// hygRead: see the file comment.  views = the result legitimately holds the bytes it was given.
func hygRead(site string, data []byte, views bool, f readFn) {
	evals++
	w := hx.Hex(data)
	c0, r0 := runRead(f, hx.Exact(data))
	s0 := renderOf(r0)
	if c0 == "panic" {
		return // reported by the property's own oracles (and C16)
	}
	full, sub := guardedCopy(data)
	c1, r1 := runRead(f, sub)
	s1 := renderOf(r1)
	if !guardsIntact(full, len(data)) {
		hygFail(site, "writes-beyond-len", w, "a byte behind the end of the input (inside its capacity) was overwritten")
	}
	if !bytes.Equal(sub, data) {
		hygFail(site, "modifies-input", w, "a reader changed the bytes it was given")
		copy(sub, data)
	}
	if c1 != c0 || s1 != s0 {
		// the same on an exact copy again tells capacity from history
		c2, r2 := runRead(f, hx.Exact(data))
		if c2 != c0 || renderOf(r2) != s0 {
			hygFail(site, "depends-on-earlier-calls", w, "the same input read twice gives "+c0+" "+s0+" then "+c2)
		} else {
			hygFail(site, "depends-on-capacity", w, "on a sub-slice of a larger buffer: "+c1+" "+s1+", on an exact-capacity copy: "+c0+" "+s0)
		}
		return
	}
	if !views && c1 != "err" {
		for i := range sub {
			sub[i] ^= 0x5A
		}
		if s := renderOf(r1); s != s1 {
			hygFail(site, "keeps-callers-buffer", w, "the messages returned changed when the caller overwrote the buffer it had passed: "+s1+" became "+s)
		}
	}
	_, _ = runRead(f, malformed(data))
	// what the FIRST call returned (its buffer was never touched) still reads the same after the later calls
	if s := renderOf(r0); s != s0 {
		hygFail(site, "result-changed-by-later-calls", w, "the messages returned by the first call read "+s+" after later calls, "+s0+" before (shared storage)")
	}
	c3, r3 := runRead(f, hx.Exact(data))
	if s3 := renderOf(r3); c3 != c0 || s3 != s0 {
		hygFail(site, "depends-on-earlier-calls", w, "after a malformed relative of the input was read, the input gives "+c3+" "+s3+" instead of "+c0+" "+s0)
	}
}

func msgString(m sei.SEIMessage) string {
	return fmt.Sprintf("%x:%x:%s:%q", m.Type(), m.Size(), hx.Hex(m.Payload()), m.String())
}

func msgsRender(ms []sei.SEIMessage) string {
	ss := make([]string, len(ms))
	for i, m := range ms {
		ss[i] = msgString(m)
	}
	return strings.Join(ss, ";")
}

func errClassOf(err error) string {
	switch {
	case err == nil:
		return "ok"
	case err == sei.ErrRbspTrailingBitsMissing || strings.Contains(err.Error(), sei.ErrRbspTrailingBitsMissing.Error()):
		return "missing"
	}
	return "err"
}

// the readers
func readExtract(b []byte) (string, func() string) {
	sds, err := sei.ExtractSEIData(bytes.NewReader(b))
	return errClassOf(err), func() string {
		ss := make([]string, len(sds))
		for i := range sds {
			ss[i] = hx.HexU(uint64(sds[i].Type())) + ":" + hx.Hex(sds[i].Payload())
		}
		return strings.Join(ss, ";")
	}
}

func readAvcNalu(sps *avc.SPS) readFn {
	return func(b []byte) (string, func() string) {
		ms, err := avc.ParseSEINalu(b, sps)
		return errClassOf(err), func() string { return msgsRender(ms) }
	}
}

func readHevcNalu(b []byte) (string, func() string) {
	ms, err := hevc.ParseSEINalu(b, nil)
	return errClassOf(err), func() string { return msgsRender(ms) }
}

func readTyped(dec func(sd *sei.SEIData) (sei.SEIMessage, error), typ uint) readFn {
	return func(b []byte) (string, func() string) {
		m, err := dec(sei.NewSEIData(typ, b))
		if err != nil || m == nil {
			return "err", nil
		}
		return "ok", func() string { return msgString(m) }
	}
}

// hygStream: the written NAL unit payload b of a message list through the extractor and the codec wrappers
func hygStream(b []byte) {
	hygRead("sei.ExtractSEIData", b, false, readExtract)
	hygRead("avc.ParseSEINalu", append([]byte{0x06}, b...), false, readAvcNalu(nil))
	hygRead("hevc.ParseSEINalu", append([]byte{0x4e, 0x01}, b...), false, readHevcNalu)
}

// hygPayload: one payload through the decoder of its type.  The field decoders (136, 1 AVC, 137, 144) return a struct of
// values: it must not change with the caller's buffer; the pass-through decoders (4, 5, 1 HEVC) keep the payload.
func hygPayload(which string, pl []byte, hrd *sei.CbpDbpDelay, tolen byte, par sei.HEVCPicTimingParams) {
	switch which {
	case "136":
		hygRead("sei.DecodeTimeCodeSEI", pl, false, readTyped(sei.DecodeTimeCodeSEI, sei.SEITimeCodeType))
	case "1":
		hygRead("sei.DecodePicTimingAvcSEIHRD", pl, false, readTyped(func(sd *sei.SEIData) (sei.SEIMessage, error) {
			var ext *sei.CbpDbpDelay
			if hrd != nil {
				ext = &sei.CbpDbpDelay{InitialCpbRemovalDelayLengthMinus1: hrd.InitialCpbRemovalDelayLengthMinus1,
					CpbRemovalDelayLengthMinus1: hrd.CpbRemovalDelayLengthMinus1, DpbOutputDelayLengthMinus1: hrd.DpbOutputDelayLengthMinus1}
			}
			return sei.DecodePicTimingAvcSEIHRD(sd, ext, tolen)
		}, sei.SEIPicTimingType))
	case "137":
		hygRead("sei.DecodeMasteringDisplayColourVolumeSEI", pl, false, readTyped(sei.DecodeMasteringDisplayColourVolumeSEI, sei.SEIMasteringDisplayColourVolumeType))
	case "144":
		hygRead("sei.DecodeContentLightLevelInformationSEI", pl, false, readTyped(sei.DecodeContentLightLevelInformationSEI, sei.SEIContentLightLevelInformationType))
	case "P4":
		hygRead("sei.DecodeUserDataRegisteredSEI", pl, true, readTyped(sei.DecodeUserDataRegisteredSEI, 4))
	case "P5":
		hygRead("sei.DecodeUserDataUnregisteredSEI", pl, true, readTyped(sei.DecodeUserDataUnregisteredSEI, 5))
	case "P1H":
		hygRead("sei.DecodePicTimingHevcSEI", pl, true, readTyped(func(sd *sei.SEIData) (sei.SEIMessage, error) {
			return sei.DecodePicTimingHevcSEI(sd, par)
		}, 1))
	}
}

// hygWrite: ms are typed messages and/or (type, payload) pairs; raw[i] != nil marks message i as a pair whose payload is
// handed over as a guarded sub-slice.
func hygWrite(w string, typed []sei.SEIMessage, raw []*rawMsg) {
	evals++
	var l []sei.SEIMessage
	var fulls [][]byte
	var subs [][]byte
	var origs [][]byte
	for _, m := range raw {
		full, sub := guardedCopy(m.pl)
		fulls, subs, origs = append(fulls, full), append(subs, sub), append(origs, m.pl)
		l = append(l, sei.NewSEIData(m.t, sub))
	}
	l = append(l, typed...)
	before := msgsRender(l)
	var b1, b2 bytes.Buffer
	var e1, e2 error
	if p := hx.Try(func() { e1 = sei.WriteSEIMessages(&b1, l) }); p != "" || e1 != nil {
		return // reported by the property's own oracles
	}
	for i := range fulls {
		if !guardsIntact(fulls[i], len(origs[i])) {
			hygFail("sei.WriteSEIMessages", "writes-beyond-len", w, "a byte behind the end of a message's payload slice was overwritten")
		}
		if !bytes.Equal(subs[i], origs[i]) {
			hygFail("sei.WriteSEIMessages", "modifies-input", w, "writing changed the payload bytes of a message")
		}
	}
	if after := msgsRender(l); after != before {
		hygFail("sei.WriteSEIMessages", "encode-mutates-message", w, "the messages read "+after+" after writing, "+before+" before")
	}
	if p := hx.Try(func() { e2 = sei.WriteSEIMessages(&b2, l) }); p != "" || e2 != nil || !bytes.Equal(b1.Bytes(), b2.Bytes()) {
		hygFail("sei.WriteSEIMessages", "write-not-repeatable", w, "a second write of the same messages gives "+hx.Hex(b2.Bytes())+", the first "+hx.Hex(b1.Bytes()))
	}
	// the writer's contract is io.Writer: bytes arrive in order whatever the chunking; a writer taking one byte per call
	// that never fails must receive the same bytes
	var ob oneByteAll
	if p := hx.Try(func() { e2 = sei.WriteSEIMessages(&ob, l) }); p != "" || e2 != nil || !bytes.Equal(ob.b, b1.Bytes()) {
		hygFail("sei.WriteSEIMessages", "write-depends-on-writer", w, "into another io.Writer: "+hx.Hex(ob.b)+", into a bytes.Buffer "+hx.Hex(b1.Bytes()))
	}
}

// oneByteAll is a plain io.Writer with its own storage (no bytes.Buffer fast paths), taking the bytes one at a time.
type oneByteAll struct{ b []byte }

func (o *oneByteAll) Write(p []byte) (int, error) {
	for _, x := range p {
		o.b = append(o.b, x)
	}
	return len(p), nil
}
