package bx

import (
	"verifharness/hx"
)

// hand-written generators of well-formed boxes of the modelled kinds (independent of mp4ff's encoders)

var unity = Cat(U32(0x10000), make([]byte, 12), U32(0x10000), make([]byte, 12), U32(0x40000000))

func vf(version byte, flags uint32) []byte { return U32(uint32(version)<<24 | flags&0xffffff) }

func r32(r *hx.Rng) uint32 {
	switch r.Intn(5) {
	case 0:
		return 0
	case 1:
		return 0xffffffff
	case 2:
		return uint32(r.Intn(256))
	}
	return uint32(r.U64())
}

func r64(r *hx.Rng) uint64 {
	switch r.Intn(5) {
	case 0:
		return 0
	case 1:
		return 0xffffffffffffffff
	case 2:
		return uint64(r.Intn(70000))
	}
	return r.U64()
}

func subset(r *hx.Rng, bits ...uint32) uint32 {
	var f uint32
	for _, b := range bits {
		if r.Bool() {
			f |= b
		}
	}
	return f
}

// GenLeaf returns a random well-formed box of the given modelled kind.
func GenLeaf(r *hx.Rng, kind string) []byte {
	switch kind {
	case "ftyp", "styp":
		return Box(kind, r.Bytes(8+4*r.Intn(5), nil))
	case "free", "skip":
		return Box(kind, r.Bytes(r.Intn(40), nil))
	case "mdat":
		return Box(kind, r.Bytes(r.Intn(64), nil))
	case "mfhd":
		return Box(kind, Cat(vf(0, 0), U32(r32(r))))
	case "tfhd":
		fl := subset(r, 1, 2, 8, 16, 32, 0x10000, 0x20000)
		body := Cat(vf(0, fl), U32(r32(r)))
		if fl&1 != 0 {
			body = append(body, U64(r64(r))...)
		}
		for _, b := range []uint32{2, 8, 16, 32} {
			if fl&b != 0 {
				body = append(body, U32(r32(r))...)
			}
		}
		return Box(kind, body)
	case "tfdt":
		if r.Bool() {
			return Box(kind, Cat(vf(0, 0), U32(r32(r))))
		}
		return Box(kind, Cat(vf(1, 0), U64(r64(r))))
	case "trun":
		fl := subset(r, 1, 4, 0x100, 0x200, 0x400, 0x800)
		n := r.Intn(6)
		body := Cat(vf(byte(r.Intn(2)), fl), U32(uint32(n)))
		if fl&1 != 0 {
			v := r32(r)
			if v == 0 && r.Intn(4) != 0 {
				v = 100
			}
			body = append(body, U32(v)...)
		}
		if fl&4 != 0 {
			body = append(body, U32(r32(r))...)
		}
		for i := 0; i < n; i++ {
			for _, b := range []uint32{0x100, 0x200, 0x400, 0x800} {
				if fl&b != 0 {
					body = append(body, U32(r32(r))...)
				}
			}
		}
		return Box(kind, body)
	case "mvhd":
		var body []byte
		if r.Bool() {
			body = Cat(vf(0, 0), U32(r32(r)), U32(r32(r)), U32(r32(r)), U32(r32(r)))
		} else {
			body = Cat(vf(1, 0), U64(r64(r)), U64(r64(r)), U32(r32(r)), U64(r64(r)))
		}
		body = Cat(body, U32(0x10000), U16(0x100), make([]byte, 10), unity, make([]byte, 24), U32(r32(r)))
		return Box(kind, body)
	case "tkhd":
		var body []byte
		fl := uint32(r.Intn(16))
		if r.Bool() {
			body = Cat(vf(0, fl), U32(r32(r)), U32(r32(r)), U32(r32(r)), make([]byte, 4), U32(r32(r)))
		} else {
			body = Cat(vf(1, fl), U64(r64(r)), U64(r64(r)), U32(r32(r)), make([]byte, 4), U64(r64(r)))
		}
		body = Cat(body, make([]byte, 8), U16(uint16(r.U64())), U16(uint16(r.U64())), U16(uint16(r.U64())), make([]byte, 2), unity,
			U32(r32(r)), U32(r32(r)))
		return Box(kind, body)
	case "sidx":
		n := r.Intn(5)
		var body []byte
		if r.Bool() {
			body = Cat(vf(0, 0), U32(r32(r)), U32(r32(r)), U32(r32(r)), U32(r32(r)))
		} else {
			body = Cat(vf(1, 0), U32(r32(r)), U32(r32(r)), U64(r64(r)), U64(r64(r)))
		}
		body = Cat(body, U16(0), U16(uint16(n)))
		for i := 0; i < n; i++ {
			body = Cat(body, U32(r32(r)), U32(r32(r)), U32(r32(r)))
		}
		return Box(kind, body)
	case "trex":
		return Box(kind, Cat(vf(0, 0), U32(r32(r)), U32(r32(r)), U32(r32(r)), U32(r32(r)), U32(r32(r))))
	case "mdhd":
		var body []byte
		if r.Bool() {
			body = Cat(vf(0, 0), U32(r32(r)), U32(r32(r)), U32(r32(r)), U32(r32(r)))
		} else {
			body = Cat(vf(1, 0), U64(r64(r)), U64(r64(r)), U32(r32(r)), U64(r64(r)))
		}
		return Box(kind, Cat(body, U16(uint16(r.U64())&0x7fff), U16(0)))
	case "hdlr":
		name := r.Bytes(r.Intn(12), []byte("abcXYZ \x00"))
		body := Cat(vf(0, 0), U32(0), []byte([]string{"vide", "soun", "subt", "text"}[r.Intn(4)]), make([]byte, 12), name)
		if r.Intn(4) != 0 {
			body = append(body, 0)
		}
		return Box(kind, body)
	case "stts":
		n := r.Intn(6)
		body := Cat(vf(0, 0), U32(uint32(n)))
		for i := 0; i < n; i++ {
			body = Cat(body, U32(r32(r)), U32(r32(r)))
		}
		return Box(kind, body)
	case "stsc":
		n := r.Intn(6)
		body := Cat(vf(0, 0), U32(uint32(n)))
		fc := uint32(1)
		for i := 0; i < n; i++ {
			sdi := uint32(r.Pick(1, 1, 1, 2, 3))
			if r.Intn(12) == 0 {
				sdi = 0
			}
			body = Cat(body, U32(fc), U32(uint32(r.Range(1, 9))), U32(sdi))
			fc += uint32(r.Range(1, 4))
		}
		return Box(kind, body)
	case "stsz":
		if r.Bool() {
			return Box(kind, Cat(vf(0, 0), U32(uint32(r.Range(1, 900))), U32(r32(r))))
		}
		n := r.Intn(6)
		body := Cat(vf(0, 0), U32(0), U32(uint32(n)))
		for i := 0; i < n; i++ {
			body = Cat(body, U32(r32(r)))
		}
		return Box(kind, body)
	case "stco", "stss":
		n := r.Intn(6)
		body := Cat(vf(0, 0), U32(uint32(n)))
		for i := 0; i < n; i++ {
			body = Cat(body, U32(r32(r)))
		}
		return Box(kind, body)
	case "co64":
		n := r.Intn(5)
		body := Cat(vf(0, 0), U32(uint32(n)))
		for i := 0; i < n; i++ {
			body = Cat(body, U64(r64(r)))
		}
		return Box(kind, body)
	case "sdtp":
		return Box(kind, Cat(vf(0, 0), r.Bytes(r.Intn(9), nil)))
	case "ctts":
		n := r.Intn(6)
		body := Cat(vf(byte(r.Intn(2)), 0), U32(uint32(n)))
		for i := 0; i < n; i++ {
			body = Cat(body, U32(r32(r)), U32(r32(r)))
		}
		return Box(kind, body)
	case "elst":
		n := r.Intn(4)
		v := byte(r.Intn(2))
		body := Cat(vf(v, 0), U32(uint32(n)))
		for i := 0; i < n; i++ {
			if v == 1 {
				body = Cat(body, U64(r64(r)), U64(r64(r)), U16(uint16(r.U64())), U16(uint16(r.U64())))
			} else {
				body = Cat(body, U32(r32(r)), U32(r32(r)), U16(uint16(r.U64())), U16(uint16(r.U64())))
			}
		}
		return Box(kind, body)
	case "saiz":
		fl := uint32(r.Intn(2))
		body := vf(0, fl)
		if fl&1 != 0 {
			body = Cat(body, []byte("cenc"), U32(r32(r)))
		}
		n := r.Intn(6)
		if r.Bool() {
			body = Cat(body, []byte{byte(r.Range(1, 255))}, U32(uint32(n)))
		} else {
			body = Cat(body, []byte{0}, U32(uint32(n)), r.Bytes(n, nil))
		}
		return Box(kind, body)
	case "saio":
		fl := uint32(r.Intn(2))
		v := byte(r.Intn(2))
		body := vf(v, fl)
		if fl&1 != 0 {
			body = Cat(body, []byte("cenc"), U32(r32(r)))
		}
		n := r.Intn(4)
		body = Cat(body, U32(uint32(n)))
		for i := 0; i < n; i++ {
			if v == 0 {
				body = Cat(body, U32(r32(r)))
			} else {
				body = Cat(body, U64(r64(r)))
			}
		}
		return Box(kind, body)
	case "sbgp":
		v := byte(r.Intn(2))
		body := Cat(vf(v, 0), []byte("roll"))
		if v == 1 {
			body = Cat(body, U32(r32(r)))
		}
		n := r.Intn(4)
		body = Cat(body, U32(uint32(n)))
		for i := 0; i < n; i++ {
			body = Cat(body, U32(r32(r)), U32(r32(r)))
		}
		return Box(kind, body)
	case "prft":
		if r.Bool() {
			return Box(kind, Cat(vf(0, 24), U32(1), U64(r64(r)), U32(r32(r))))
		}
		return Box(kind, Cat(vf(1, 24), U32(1), U64(r64(r)), U64(r64(r))))
	case "tenc":
		v := byte(r.Intn(2))
		isp, ivs := byte(r.Intn(2)), byte(r.Pick(0, 8, 16))
		body := Cat(vf(v, 0), []byte{0})
		if v == 0 {
			body = append(body, 0)
		} else {
			body = append(body, byte(r.U64()))
		}
		body = Cat(body, []byte{isp, ivs}, r.Bytes(16, nil))
		if isp == 1 && ivs == 0 {
			n := r.Pick(0, 8, 16)
			body = Cat(body, []byte{byte(n)}, r.Bytes(n, nil))
		}
		return Box(kind, body)
	case "frma":
		return Box(kind, []byte([]string{"avc1", "mp4a", "hvc1"}[r.Intn(3)]))
	case "vmhd":
		return Box(kind, Cat(vf(0, 1), U16(uint16(r.U64())), U16(uint16(r.U64())), U16(uint16(r.U64())), U16(uint16(r.U64()))))
	case "smhd":
		return Box(kind, Cat(vf(0, 0), U16(uint16(r.U64())), U16(0)))
	case "nmhd", "sthd":
		return Box(kind, vf(0, uint32(r.Intn(2))))
	case "mfro":
		return Box(kind, Cat(vf(0, 0), U32(r32(r))))
	case "mehd":
		if r.Bool() {
			return Box(kind, Cat(vf(0, 0), U32(r32(r))))
		}
		return Box(kind, Cat(vf(1, 0), U64(r64(r))))
	case "tfra":
		v := byte(r.Intn(2))
		lt, lr, ls := r.Intn(4), r.Intn(4), r.Intn(4)
		n := r.Intn(4)
		body := Cat(vf(v, 0), U32(1), U32(uint32(lt<<4|lr<<2|ls)), U32(uint32(n)))
		for i := 0; i < n; i++ {
			if v == 1 {
				body = Cat(body, U64(r64(r)), U64(r64(r)))
			} else {
				body = Cat(body, U32(r32(r)), U32(r32(r)))
			}
			body = Cat(body, r.Bytes(lt+1, nil), r.Bytes(lr+1, nil), r.Bytes(ls+1, nil))
		}
		return Box(kind, body)
	case "pssh":
		v := byte(r.Intn(2))
		body := Cat(vf(v, 0), r.Bytes(16, nil))
		if v > 0 {
			n := r.Intn(3)
			body = Cat(body, U32(uint32(n)), r.Bytes(16*n, nil))
		}
		n := r.Intn(12)
		return Box(kind, Cat(body, U32(uint32(n)), r.Bytes(n, nil)))
	case "url ":
		if r.Intn(3) == 0 {
			return Box(kind, vf(0, 1))
		}
		loc := r.Bytes(r.Intn(10), []byte("abc/:.x"))
		if r.Intn(4) != 0 {
			loc = append(loc, 0)
		}
		return Box(kind, Cat(vf(byte(r.Intn(2)), uint32(r.Intn(2))), loc))
	case "avcC":
		prof := byte(r.Pick(66, 77, 88, 100, 110, 122, 244))
		nalus := func(n int) []byte {
			var o []byte
			for i := 0; i < n; i++ {
				k := r.Intn(12)
				o = Cat(o, U16(uint16(k)), r.Bytes(k, nil))
			}
			return o
		}
		ns, np := r.Intn(3), r.Intn(3)
		body := Cat([]byte{1, prof, byte(r.U64()), byte(r.U64()), 0xff, 0xe0 | byte(ns)}, nalus(ns), []byte{byte(np)}, nalus(np))
		if prof != 66 && prof != 77 && prof != 88 && r.Intn(5) != 0 {
			body = Cat(body, []byte{0xfc | byte(r.Intn(4)), 0xf8 | byte(r.Intn(8)), 0xf8 | byte(r.Intn(8)), 0})
		}
		return Box(kind, body)
	case "hvcC":
		// HEVCDecoderConfigurationRecord with the reserved bits set as the standard asks (the mutants vary them)
		rsv := func(ones, mask byte) byte { return ones }
		body := Cat([]byte{1, byte(r.U64())}, U32(r32(r)), U16(uint16(r.U64())), U32(r32(r)), []byte{byte(r.U64())},
			U16(uint16(rsv(0xf0, 0x0f))<<8|uint16(r.Intn(4096))), []byte{rsv(0xfc, 3) | byte(r.Intn(4)), rsv(0xfc, 3) | byte(r.Intn(4)),
				rsv(0xf8, 7) | byte(r.Intn(8)), rsv(0xf8, 7) | byte(r.Intn(8))}, U16(uint16(r.U64())), []byte{byte(r.Intn(64))<<2 | 3})
		na := r.Intn(4)
		body = append(body, byte(na))
		for a := 0; a < na; a++ {
			nn := r.Intn(3)
			body = Cat(body, []byte{byte(r.Pick(0x20, 0x21, 0x22, 0xa0, 0xa1, 0xa2, 0x27))}, U16(uint16(nn)))
			for i := 0; i < nn; i++ {
				k := r.Intn(14)
				body = Cat(body, U16(uint16(k)), r.Bytes(k, nil))
			}
		}
		return Box(kind, body)
	case "uuid":
		tfxd := []byte{0x6d, 0x1d, 0x9b, 0x05, 0x42, 0xd5, 0x44, 0xe6, 0x80, 0xe2, 0x14, 0x1d, 0xaf, 0xf7, 0x57, 0xb2}
		tfrf := []byte{0xd4, 0x80, 0x7e, 0xf2, 0xca, 0x39, 0x46, 0x95, 0x8e, 0x54, 0x26, 0xcb, 0x9e, 0x46, 0xa7, 0x9f}
		piff := []byte{0xa2, 0x39, 0x4f, 0x52, 0x5a, 0x9b, 0x4f, 0x14, 0xa2, 0x44, 0x6c, 0x42, 0x7c, 0x64, 0x8d, 0xf4}
		ver := byte(r.Pick(0, 1, 1, 2))
		w := func(v uint64) []byte {
			if ver == 0 {
				return U32(uint32(v))
			}
			return U64(v)
		}
		switch r.Intn(4) {
		case 0:
			return Box(kind, Cat(tfxd, vf(ver, uint32(r.Pick(0, 0, 1))), w(r64(r)), w(r64(r))))
		case 1:
			n := r.Intn(4)
			body := Cat(tfrf, vf(ver, 0), []byte{byte(n)})
			for i := 0; i < n; i++ {
				body = Cat(body, w(r64(r)), w(r64(r)))
			}
			return Box(kind, body)
		case 2:
			cnt := 1 + r.Intn(3)
			fl := uint32(r.Pick(0, 0, 2))
			var raw []byte
			for i := 0; i < cnt; i++ {
				raw = append(raw, r.Bytes(8, nil)...)
				if fl&2 != 0 {
					k := r.Intn(3)
					raw = append(raw, U16(uint16(k))...)
					for j := 0; j < k; j++ {
						raw = Cat(raw, U16(uint16(r.U64())), U32(r32(r)))
					}
				}
			}
			return Box(kind, Cat(piff, vf(0, fl), U32(uint32(cnt)), raw))
		}
		return Box(kind, Cat(r.Bytes(16, nil), r.Bytes(r.Intn(24), nil)))
	case "sgpd":
		ver := byte(r.Pick(1, 1, 2))
		gt := []string{"seig", "roll", "rap ", "alst", "prol", "tele"}[r.Intn(6)]
		n := r.Intn(4)
		var entries [][]byte
		for i := 0; i < n; i++ {
			var e []byte
			switch gt {
			case "seig":
				e = Cat([]byte{0, byte(r.U64()), 1, byte(r.Pick(0, 8, 16))}, r.Bytes(16, nil))
				if e[3] == 0 {
					k := r.Pick(8, 16)
					e = Cat(e, []byte{byte(k)}, r.Bytes(k, nil))
				}
			case "roll":
				e = U16(uint16(r.U64()))
			case "rap ":
				e = []byte{byte(r.U64())}
			case "alst":
				rc := r.Intn(3)
				e = Cat(U16(uint16(rc)), U16(uint16(r.U64())))
				for j := 0; j < rc; j++ {
					e = append(e, U32(r32(r))...)
				}
				for j := r.Intn(3); j > 0; j-- {
					e = Cat(e, U16(uint16(r.U64())), U16(uint16(r.U64())))
				}
			default:
				e = r.Bytes(1+r.Intn(6), nil)
			}
			entries = append(entries, e)
		}
		// a default length only when all entries have the same size
		dl := uint32(0)
		if n > 0 && r.Intn(2) == 0 {
			same := true
			for _, e := range entries {
				if len(e) != len(entries[0]) {
					same = false
				}
			}
			if same {
				dl = uint32(len(entries[0]))
			}
		}
		body := Cat(vf(ver, 0), []byte(gt), U32(dl))
		if ver >= 2 {
			body = append(body, U32(uint32(r.Intn(3)))...)
		}
		body = append(body, U32(uint32(n))...)
		for _, e := range entries {
			if dl == 0 {
				body = append(body, U32(uint32(len(e)))...)
			}
			body = append(body, e...)
		}
		return Box(kind, body)
	case "subs":
		ver := byte(r.Pick(0, 1, 1, 2))
		n := r.Intn(4)
		body := Cat(vf(ver, uint32(r.Pick(0, 0, 2))), U32(uint32(n)))
		for i := 0; i < n; i++ {
			k := r.Intn(4)
			body = Cat(body, U32(r32(r)), U16(uint16(k)))
			for j := 0; j < k; j++ {
				if ver == 1 {
					body = append(body, U32(r32(r))...)
				} else {
					body = append(body, U16(uint16(r.U64()))...)
				}
				body = Cat(body, []byte{byte(r.U64()), byte(r.U64())}, U32(r32(r)))
			}
		}
		return Box(kind, body)
	case "btrt":
		return Box(kind, Cat(U32(r32(r)), U32(r32(r)), U32(r32(r))))
	case "pasp":
		return Box(kind, Cat(U32(r32(r)), U32(r32(r))))
	case "clap":
		var body []byte
		for i := 0; i < 8; i++ {
			body = append(body, U32(r32(r))...)
		}
		return Box(kind, body)
	case "cslg":
		if r.Bool() {
			return Box(kind, Cat(vf(0, 0), U32(r32(r)), U32(r32(r)), U32(r32(r)), U32(r32(r)), U32(r32(r))))
		}
		return Box(kind, Cat(vf(1, 0), U64(r64(r)), U64(r64(r)), U64(r64(r)), U64(r64(r)), U64(r64(r))))
	case "colr":
		switch r.Intn(4) {
		case 0:
			return Box(kind, Cat([]byte("nclx"), U16(uint16(r.Intn(20))), U16(uint16(r.Intn(20))), U16(uint16(r.Intn(20))), []byte{byte(r.Pick(0, 0x80))}))
		case 1:
			return Box(kind, Cat([]byte("nclc"), U16(uint16(r.Intn(20))), U16(uint16(r.Intn(20))), U16(uint16(r.Intn(20)))))
		case 2:
			return Box(kind, Cat([]byte([]string{"rICC", "prof"}[r.Intn(2)]), r.Bytes(r.Intn(20), nil)))
		}
		return Box(kind, Cat([]byte("abcd"), r.Bytes(r.Intn(9), nil)))
	case "schm":
		if r.Bool() {
			return Box(kind, Cat(vf(0, 0), []byte([]string{"cenc", "cbcs"}[r.Intn(2)]), U32(0x10000)))
		}
		return Box(kind, Cat(vf(0, 1), []byte("cenc"), U32(r32(r)), r.Bytes(r.Intn(9), []byte("urn:x")), []byte{0}))
	case "stsd":
		n := r.Intn(3)
		body := Cat(vf(0, 0), U32(uint32(n)))
		for i := 0; i < n; i++ {
			body = append(body, GenLeaf(r, []string{"avc1", "avc3", "hvc1", "hev1", "encv", "mp4a", "enca",
	"senc", "emsg", "elng", "kind"}[r.Intn(7)])...)
		}
		return Box(kind, body)
	case "dref":
		n := r.Intn(3)
		body := Cat(vf(0, 0), U32(uint32(n)))
		for i := 0; i < n; i++ {
			body = append(body, GenLeaf(r, "url ")...)
		}
		return Box(kind, body)
	case "avc1", "avc3", "hvc1", "hev1", "encv":
		name := r.Bytes(r.Intn(32), []byte("mp4ff video"))
		body := Cat(make([]byte, 6), U16(1), make([]byte, 16), U16(uint16(r.U64())), U16(uint16(r.U64())), U32(0x480000), U32(0x480000),
			make([]byte, 4), U16(1), []byte{byte(len(name))}, name, make([]byte, 31-len(name)), U16(0x18), U16(0xffff))
		if kind == "avc1" || kind == "avc3" || kind == "encv" {
			body = append(body, GenLeaf(r, "avcC")...)
		} else {
			body = append(body, GenLeaf(r, "hvcC")...)
		}
		for _, k := range []string{"btrt", "pasp", "colr", "clap", "zzzz"} {
			if r.Intn(3) == 0 {
				body = append(body, GenLeaf(r, k)...)
			}
		}
		return Box(kind, body)
	case "mp4a", "enca":
		body := Cat(make([]byte, 6), U16(1), make([]byte, 8), U16(2), U16(16), make([]byte, 4), U32(uint32(r.Pick(44100, 48000, 22050))<<16))
		if r.Intn(2) == 0 {
			body = append(body, GenLeaf(r, "btrt")...)
		}
		return Box(kind, body)
	case "senc":
		cnt := r.Intn(4)
		fl := uint32(r.Pick(0, 0, 2))
		var raw []byte
		for i := 0; i < cnt; i++ {
			raw = append(raw, r.Bytes(8, nil)...)
			if fl&2 != 0 {
				k := r.Intn(3)
				raw = append(raw, U16(uint16(k))...)
				for j := 0; j < k; j++ {
					raw = Cat(raw, U16(uint16(r.U64())), U32(r32(r)))
				}
			}
		}
		if cnt > 0 && r.Intn(8) == 0 { // with sample_count 0 trailing data is the known defect C01-K71, not a well-formed box
			raw = append(raw, r.Bytes(r.Intn(5), nil)...)
		}
		return Box(kind, Cat(vf(0, fl), U32(uint32(cnt)), raw))
	case "emsg":
		sc := append(r.Bytes(r.Intn(9), []byte("urn:mpeg")), 0)
		va := append(r.Bytes(r.Intn(4), []byte("123")), 0)
		data := r.Bytes(r.Intn(10), nil)
		if r.Bool() {
			return Box(kind, Cat(vf(0, 0), sc, va, U32(r32(r)), U32(r32(r)), U32(r32(r)), U32(r32(r)), data))
		}
		return Box(kind, Cat(vf(1, 0), U32(r32(r)), U64(r64(r)), U32(r32(r)), U32(r32(r)), sc, va, data))
	case "elng":
		lang := append(r.Bytes(r.Range(2, 8), []byte("en-USsv")), 0)
		if r.Intn(5) == 0 {
			return Box(kind, lang[len(lang)-r.Range(1, 3):]) // no full box header (short payload)
		}
		return Box(kind, Cat(vf(0, 0), lang))
	case "kind":
		return Box(kind, Cat(vf(0, 0), append(r.Bytes(r.Intn(9), []byte("urn:dash")), 0), append(r.Bytes(r.Intn(5), []byte("main")), 0)))
	case "vttC", "vlab", "ctim", "iden", "sttg", "payl", "vtta":
		return Box(kind, r.Bytes(r.Intn(12), []byte("WEBVTT line:0\x00")))
	case "vtte":
		return Box(kind, nil)
	case "vsid":
		return Box(kind, U32(r32(r)))
	case "data":
		return Box(kind, Cat(U32(uint32(r.Pick(1, 1, 1, 0, 13, 21, int(r32(r)&0xffff)))), U32(uint32(r.Pick(0, 0, 0, 0x656e))), r.Bytes(r.Intn(16), nil)))
	case "mime":
		ct := r.Bytes(r.Range(1, 12), []byte("text/plain\x00"))
		if r.Bool() {
			ct = append(ct, 0)
		}
		return Box(kind, Cat(vf(byte(r.Intn(2)), r32(r)&0xffffff), ct))
	case "wvtt":
		body := Cat(make([]byte, 6), U16(uint16(r.Intn(3))))
		if r.Intn(4) == 0 {
			body = Cat(r.Bytes(6, nil), U16(uint16(r32(r))))
		}
		for _, k := range []string{"vttC", "vlab", "btrt", "free"} {
			if r.Intn(3) > 0 {
				body = append(body, GenLeaf(r, k)...)
			}
		}
		return Box(kind, body)
	case "meta":
		hd := Box("hdlr", Cat(vf(0, 0), U32(0), []byte("mdir"), make([]byte, 12), r.Bytes(r.Intn(4), []byte("ab")), []byte{0}))
		kids := Cat(hd, Box("ilst", Box("\xa9too", GenLeaf(r, "data"))))
		if r.Intn(3) == 0 {
			kids = append(kids, GenLeaf(r, "free")...)
		}
		if r.Bool() {
			return Box(kind, kids) // QuickTime form
		}
		return Box(kind, Cat(vf(byte(r.Intn(2)), r32(r)&0xffffff), kids))
	case "dac3":
		body := r.Bytes(3, nil)
		if r.Intn(4) == 0 {
			body = Cat(make([]byte, r.Range(1, 3)), body)
		}
		return Box(kind, body)
	case "dec3":
		ns := r.Range(1, 3)
		body := U16(uint16(r32(r)&0x1fff)<<3 | uint16(ns-1))
		for i := 0; i < ns; i++ {
			nds := 0
			if r.Bool() {
				nds = r.Range(1, 15)
			}
			b0 := byte(r.Intn(4))<<6 | byte(r.Intn(32))<<1
			b1 := byte(r32(r))
			b2 := byte(nds) << 1
			body = append(body, b0, b1)
			if nds > 0 {
				body = append(body, b2|byte(r.Intn(2)), byte(r32(r)))
			} else {
				body = append(body, b2)
			}
		}
		if r.Intn(3) == 0 {
			body = append(body, r.Bytes(r.Range(1, 3), nil)...)
		}
		return Box(kind, body)
	case "vttc":
		var body []byte
		for _, k := range []string{"vsid", "iden", "ctim", "sttg", "payl"} {
			if r.Intn(3) > 0 {
				body = append(body, GenLeaf(r, k)...)
			}
		}
		return Box(kind, body)
	}
	return Box("zzzz", r.Bytes(r.Intn(12), nil))
}

// GenTree returns a random tree of modelled boxes (moof or moov shaped, with free/unknown boxes thrown in).
func GenTree(r *hx.Rng) []byte {
	extra := func() []byte {
		switch r.Intn(6) {
		case 0:
			return GenLeaf(r, "free")
		case 1:
			return GenLeaf(r, "zzzz")
		}
		return nil
	}
	if r.Bool() {
		body := GenLeaf(r, "mfhd")
		for t := 0; t < r.Range(1, 2); t++ {
			traf := Cat(GenLeaf(r, "tfhd"), extra(), GenLeaf(r, "tfdt"))
			for k := 0; k < r.Range(1, 2); k++ {
				traf = append(traf, GenLeaf(r, "trun")...)
			}
			body = Cat(body, Box("traf", traf), extra())
		}
		return Box("moof", body)
	}
	trak := func() []byte {
		return Box("trak", Cat(GenLeaf(r, "tkhd"), extra(),
			Box("mdia", Cat(GenLeaf(r, "mdhd"), GenLeaf(r, "hdlr"), Box("minf", Cat(GenLeaf(r, []string{"vmhd", "smhd", "nmhd", "sthd"}[r.Intn(4)]), Box("dinf", GenLeaf(r, "dref")),
				Box("stbl", Cat(GenLeaf(r, "stsd"), GenLeaf(r, "stts"), GenLeaf(r, "ctts"), GenLeaf(r, "stsc"), GenLeaf(r, "stsz"),
					GenLeaf(r, []string{"stco", "co64"}[r.Intn(2)]), GenLeaf(r, "stss"), GenLeaf(r, "sdtp")))))))))
	}
	mvex := Box("mvex", Cat(GenLeaf(r, "trex"), GenLeaf(r, "trex")))
	switch r.Intn(4) {
	case 0: // trak after mvex: AddChild re-orders
		return Box("moov", Cat(GenLeaf(r, "mvhd"), trak(), mvex, trak()))
	case 1:
		return Box("moov", Cat(GenLeaf(r, "mvhd"), extra(), trak(), trak(), mvex, Box("udta", GenLeaf(r, "zzzz"))))
	case 2:
		return Box("moov", Cat(trak(), GenLeaf(r, "mvhd"), mvex, trak()))
	}
	return Box("moov", Cat(GenLeaf(r, "mvhd"), trak(), mvex))
}

// ModelledLeaves lists the leaf kinds GenLeaf knows.
var GenKinds = []string{"ftyp", "styp", "free", "skip", "mdat", "mfhd", "tfhd", "tfdt", "trun", "mvhd", "tkhd", "sidx",
	"trex", "mdhd", "hdlr", "stts",
	"stsc", "stsz", "stco", "stss", "co64", "sdtp", "ctts", "elst", "saiz", "saio", "sbgp", "prft", "tenc", "frma", "vmhd",
	"smhd", "nmhd", "sthd", "mfro", "mehd", "tfra", "pssh",
	"url ", "avcC", "btrt", "pasp", "colr", "clap", "schm", "cslg", "stsd", "dref", "avc1", "avc3", "hvc1", "hev1", "encv", "mp4a", "enca",
	"senc", "emsg", "elng", "kind", "hvcC", "subs", "uuid", "sgpd",
	"vttC", "vlab", "ctim", "iden", "sttg", "payl", "vtta", "vtte", "vsid", "data", "mime", "wvtt", "meta", "vttc", "dac3", "dec3"}

// Exhaustive returns well-formed boxes covering EVERY combination of the optional-field flag bits of the
// boxes that have them (trun: 6 bits x version 0/1 x 0,1,3 samples; tfhd: 7 bits; tfdt, sidx, mvhd, tkhd,
// mdhd: both versions; sidx 0..2 references), with non-zero field values.
func Exhaustive() [][]byte {
	var out [][]byte
	trunBits := []uint32{1, 4, 0x100, 0x200, 0x400, 0x800}
	for m := 0; m < 64; m++ {
		var fl uint32
		for i, b := range trunBits {
			if m&(1<<uint(i)) != 0 {
				fl |= b
			}
		}
		for _, ver := range []byte{0, 1} {
			for _, n := range []int{0, 1, 3} {
				body := Cat(vf(ver, fl), U32(uint32(n)))
				if fl&1 != 0 {
					body = append(body, U32(0x70+uint32(n))...)
				}
				if fl&4 != 0 {
					body = append(body, U32(0x02000000)...)
				}
				for i := 0; i < n; i++ {
					for k, b := range []uint32{0x100, 0x200, 0x400, 0x800} {
						if fl&b != 0 {
							body = append(body, U32(uint32(1000*(k+1)+i))...)
						}
					}
				}
				out = append(out, Box("trun", body))
			}
		}
	}
	tfhdBits := []uint32{1, 2, 8, 16, 32, 0x10000, 0x20000}
	for m := 0; m < 128; m++ {
		var fl uint32
		for i, b := range tfhdBits {
			if m&(1<<uint(i)) != 0 {
				fl |= b
			}
		}
		body := Cat(vf(0, fl), U32(7))
		if fl&1 != 0 {
			body = append(body, U64(0x100000001)...)
		}
		for k, b := range []uint32{2, 8, 16, 32} {
			if fl&b != 0 {
				body = append(body, U32(uint32(11+k))...)
			}
		}
		out = append(out, Box("tfhd", body))
	}
	out = append(out, Box("tfdt", Cat(vf(0, 0), U32(77))), Box("tfdt", Cat(vf(1, 0), U64(1<<40))))
	for n := 0; n < 3; n++ {
		refs := []byte{}
		for i := 0; i < n; i++ {
			refs = Cat(refs, U32(0x80000000|uint32(100+i)), U32(9000), U32(0x90000005))
		}
		out = append(out, Box("sidx", Cat(vf(0, 0), U32(1), U32(90000), U32(5), U32(6), U16(0), U16(uint16(n)), refs)))
		out = append(out, Box("sidx", Cat(vf(1, 0), U32(1), U32(90000), U64(1<<33), U64(6), U16(0), U16(uint16(n)), refs)))
	}
	tail := Cat(U32(0x10000), U16(0x100), make([]byte, 10), unity, make([]byte, 24), U32(3))
	out = append(out, Box("mvhd", Cat(vf(0, 0), U32(1), U32(2), U32(1000), U32(5000), tail)))
	out = append(out, Box("mvhd", Cat(vf(1, 0), U64(1<<33), U64(2), U32(1000), U64(1<<34), tail)))
	ttail := Cat(make([]byte, 8), U16(0), U16(1), U16(0x100), make([]byte, 2), unity, U32(640<<16), U32(360<<16))
	out = append(out, Box("tkhd", Cat(vf(0, 7), U32(1), U32(2), U32(1), make([]byte, 4), U32(5000), ttail)))
	out = append(out, Box("tkhd", Cat(vf(1, 7), U64(1<<33), U64(2), U32(1), make([]byte, 4), U64(1<<34), ttail)))
	out = append(out, Box("mdhd", Cat(vf(0, 0), U32(1), U32(2), U32(48000), U32(5000), U16(0x55c4), U16(0))))
	out = append(out, Box("mdhd", Cat(vf(1, 0), U64(1<<33), U64(2), U32(48000), U64(1<<34), U16(0x55c4), U16(0))))
	return out
}
