package bx

// Whole files: DecodeFileSR / DecodeFile + File.Encode / File.EncodeSW in box-tree mode (which is also what a
// progressive file gets), generators of whole-file cases, and the file-level oracle of the search.

import (
	"bytes"
	"encoding/binary"
	"fmt"
	"os"
	"path/filepath"
	"sort"
	"strings"

	"github.com/Eyevinn/mp4ff/bits"
	"github.com/Eyevinn/mp4ff/mp4"
	"verifharness/hx"
)

// DecodeFileSR runs mp4.DecodeFileSR (default options) on exactly the bytes of in.
func DecodeFileSR(in []byte) (f *mp4.File, outcome string, pmsg string) {
	data := hx.Exact(in)
	pmsg = hx.Try(func() {
		sr := bits.NewFixedSliceReader(data)
		var err error
		f, err = mp4.DecodeFileSR(sr)
		if err != nil {
			outcome, f = "err", nil
			return
		}
		outcome = "ok"
	})
	if pmsg != "" {
		return nil, "panic", pmsg
	}
	return
}

// DecodeFileR runs mp4.DecodeFile (default options) on a reader over in.
func DecodeFileR(in []byte) (f *mp4.File, outcome string, pmsg string) {
	data := hx.Exact(in)
	pmsg = hx.Try(func() {
		var err error
		f, err = mp4.DecodeFile(bytes.NewReader(data))
		if err != nil {
			outcome, f = "err", nil
			return
		}
		outcome = "ok"
	})
	if pmsg != "" {
		return nil, "panic", pmsg
	}
	return
}

// EncodeFileW: File.Encode with FragEncMode = EncModeBoxTree (a progressive file ignores the mode).
func EncodeFileW(f *mp4.File) (out []byte, outcome string, pmsg string) {
	var buf bytes.Buffer
	pmsg = hx.Try(func() {
		f.FragEncMode = mp4.EncModeBoxTree
		if err := f.Encode(&buf); err != nil {
			outcome = "err"
			return
		}
		outcome = "ok"
	})
	if pmsg != "" {
		return nil, "panic", pmsg
	}
	if outcome != "ok" {
		return nil, outcome, ""
	}
	return buf.Bytes(), outcome, ""
}

// EncodeFileSW: File.EncodeSW into a FixedSliceWriter of File.Size() bytes, box-tree mode.
func EncodeFileSW(f *mp4.File) (out []byte, outcome string, pmsg string) {
	pmsg = hx.Try(func() {
		f.FragEncMode = mp4.EncModeBoxTree
		sz := f.Size()
		if sz > 1<<28 {
			outcome = "err"
			return
		}
		sw := DirtyWriter(int(sz))
		if err := f.EncodeSW(sw); err != nil {
			outcome = "err"
			return
		}
		outcome = "ok"
		out = append([]byte{}, sw.Bytes()...)
	})
	if pmsg != "" {
		return nil, "panic", pmsg
	}
	if outcome != "ok" {
		return nil, outcome, ""
	}
	return
}

func fileShape(f *mp4.File) string {
	var ts []string
	for _, c := range f.Children {
		ts = append(ts, hx.Hex([]byte(c.Type())))
	}
	fr := 0
	if f.IsFragmented() {
		fr = 1
	}
	return fmt.Sprintf("names=%s;frag=%d", strings.Join(ts, ","), fr)
}

// ObserveFile: what the model has to reproduce for a whole file.
func ObserveFile(in []byte) string {
	s, _ := ObserveFileEnc(in)
	return s
}

// ObserveFileEnc: the observables of one file and, when File.Encode succeeded, the bytes it wrote (the second generation's input)
func ObserveFileEnc(in []byte) (string, []byte) {
	f, oc, _ := DecodeFileSR(in)
	if oc != "ok" {
		return "dec=" + oc, nil
	}
	shape := fileShape(f)
	ew, ewo, _ := EncodeFileW(f)
	es, eso, _ := EncodeFileSW(f)
	g := func(o string, bs []byte) string {
		if o == "ok" {
			return "ok:" + hx.Hex(bs)
		}
		return o
	}
	if ewo != "ok" {
		ew = nil
	}
	return fmt.Sprintf("dec=ok;%s;encw=%s;encsw=%s", shape, g(ewo, ew), g(eso, es)), ew
}

// ---------------------------------------------------------------- whole-file cases

func mdatBox(payload []byte) []byte { return Box("mdat", payload) }

// ChainMoov is a small moov with the complete trak/mdia/minf/stbl/stts chain; nstts = number of stts entries
// (0: a fragmented init), extra = bytes appended inside moov (mvex ...).
func ChainMoov(nstts int, trackID uint32, entry []byte, extra []byte) []byte {
	unity := Cat(U32(0x10000), make([]byte, 12), U32(0x10000), make([]byte, 12), U32(0x40000000))
	mvhd := Box("mvhd", Cat(vf(0, 0), U32(1), U32(2), U32(1000), U32(5000), U32(0x10000), U16(0x100), make([]byte, 10), unity, make([]byte, 24), U32(2)))
	tkhd := Box("tkhd", Cat(vf(0, 7), U32(1), U32(2), U32(trackID), U32(0), U32(5000), make([]byte, 8), U16(0), U16(0), U16(0x100), U16(0), unity, U32(0), U32(0)))
	mdhd := Box("mdhd", Cat(vf(0, 0), U32(1), U32(2), U32(48000), U32(240000), U16(0x55c4), U16(0)))
	hdlr := Box("hdlr", Cat(vf(0, 0), U32(0), []byte("soun"), make([]byte, 12), []byte("snd\x00")))
	smhd := Box("smhd", Cat(vf(0, 0), U16(0), U16(0)))
	dinf := Box("dinf", Box("dref", Cat(vf(0, 0), U32(1), Box("url ", vf(0, 1)))))
	n := uint32(0)
	if len(entry) > 0 {
		n = 1
	}
	stsd := Box("stsd", Cat(vf(0, 0), U32(n), entry))
	var es []byte
	for i := 0; i < nstts; i++ {
		es = Cat(es, U32(5), U32(1024))
	}
	stts := Box("stts", Cat(vf(0, 0), U32(uint32(nstts)), es))
	stsc := Box("stsc", Cat(vf(0, 0), U32(1), U32(1), U32(5), U32(1)))
	stsz := Box("stsz", Cat(vf(0, 0), U32(4), U32(5)))
	stco := Box("stco", Cat(vf(0, 0), U32(1), U32(40)))
	stbl := Box("stbl", Cat(stsd, stts, stsc, stsz, stco))
	return Box("moov", Cat(mvhd, Box("trak", Cat(tkhd, Box("mdia", Cat(mdhd, hdlr, Box("minf", Cat(smhd, dinf, stbl)))))), extra))
}

func simpleMoof(seq, trackID uint32, extraTraf []byte) []byte {
	return Box("moof", Cat(Box("mfhd", Cat(vf(0, 0), U32(seq))),
		Box("traf", Cat(Box("tfhd", Cat(vf(0, 0x20000), U32(trackID))), Box("tfdt", Cat(vf(1, 0), U64(0))),
			Box("trun", Cat(vf(0, 0x201), U32(1), U32(100), U32(20))), extraTraf))))
}

// FixedFiles are the hand-built whole files (the same shapes as coq/c01/C01FileExamples.v and more).
func FixedFiles() [][]byte {
	ftyp := Box("ftyp", Cat([]byte("isom"), U32(512), []byte("isommp41")))
	styp := Box("styp", Cat([]byte("msdh"), U32(0), []byte("msdhmsix")))
	mvex := Box("mvex", Box("trex", Cat(vf(0, 0), U32(1), U32(1), U32(1024), U32(0), U32(0))))
	var pl []byte
	for i := 1; i <= 20; i++ {
		pl = append(pl, byte(i))
	}
	mdat, mdat0 := mdatBox(pl), mdatBox(nil)
	free := Box("free", []byte("xy"))
	moof := simpleMoof(1, 1, nil)
	nochain := Box("moov", Box("trak", Box("mdia", Box("minf", Box("stbl", Box("stsd", Cat(vf(0, 0), U32(0))))))))
	trunc := Cat(U32(100), []byte("mdat"), []byte{1, 2, 3, 4})
	senc := Box("senc", Cat(vf(0, 0), U32(1), []byte{1, 2, 3, 4, 5, 6, 7, 8}))
	enca := Cat(U32(36+8+12), []byte("enca"), make([]byte, 6), U16(1), make([]byte, 8), U16(2), U16(16), make([]byte, 4), U16(48000), U16(0),
		Box("sinf", Box("frma", []byte("mp4a"))))
	mp4a := Cat(U32(36), []byte("mp4a"), make([]byte, 6), U16(1), make([]byte, 8), U16(2), U16(16), make([]byte, 4), U16(48000), U16(0))
	emsg := Box("emsg", Cat(vf(1, 0), U32(1000), U64(5), U32(10), U32(7), []byte("urn:x\x00"), []byte("v\x00"), []byte("data")))
	sidx := Box("sidx", Cat(vf(0, 0), U32(1), U32(1000), U32(0), U32(0), U16(0), U16(1), U32(200), U32(1000), U32(0x90000000)))
	return [][]byte{
		Cat(ftyp, mdat, ChainMoov(1, 1, nil, nil)),                          // progressive, mdat BEFORE moov
		Cat(ftyp, ChainMoov(1, 1, nil, nil), free, mdat),                    // progressive, moov before mdat
		Cat(ftyp, mdat0, mdat, mdat0, ChainMoov(2, 1, nil, nil)),            // empty mdats around the one with a payload
		Cat(ftyp, ChainMoov(0, 1, nil, mvex), styp, moof, mdat, moof, mdat), // fragmented
		Cat(ftyp, mdat, mdat, ChainMoov(1, 1, nil, nil)),                    // refused: two mdats with a payload
		Cat(ftyp, ChainMoov(0, 1, nil, mvex), mdat, moof),                   // refused: mdat without moof, fragmented
		Cat(ftyp, nochain), // refused: no stts chain
		Cat(ftyp, ChainMoov(1, 1, nil, nil), []byte{0, 0, 0}),                      // refused: trailing bytes
		Cat(ftyp, ChainMoov(1, 1, nil, nil), U32(0), []byte("mdat"), []byte{1, 2}), // refused: size 0
		Cat(ftyp, ChainMoov(1, 1, nil, nil), trunc),                                // accepted, the cut-short mdat is kept empty
		Cat(moof, mdat),       // no ftyp, no moov: fragmented by the moof
		Cat(mdat, moof, mdat), // progressive mdat, then fragmented
		Cat(styp, mdat),       // refused: styp makes it fragmented
		Cat(emsg, mdat),       // refused likewise (emsg)
		Cat(emsg, moof, mdat, sidx, free),
		Cat(sidx, moof, mdat, moof, mdat),
		Cat(ftyp, ChainMoov(0, 1, mp4a, mvex), simpleMoof(1, 1, senc), mdat),         // senc pending, track not encrypted: not parsed
		Cat(ftyp, ChainMoov(0, 1, enca, mvex), simpleMoof(1, 1, senc), mdat),         // senc pending, encrypted: ParseReadSenc (outside the model)
		Cat(ftyp, ChainMoov(0, 2, enca, mvex), simpleMoof(1, 1, senc), mdat),         // other track id: not encrypted
		Cat(simpleMoof(1, 1, senc), mdat),                                            // no moov: ParseReadSenc
		Cat(ftyp, ChainMoov(0, 1, enca, mvex), Box("moof", Box("traf", senc)), mdat), // refused: traf without tfhd
		Cat(ftyp, ChainMoov(1, 1, nil, nil), ChainMoov(0, 1, nil, mvex), mdat),       // second moov makes it fragmented: mdat refused
		Cat(ftyp, Box("zzzz", []byte{1, 2, 3}), ChainMoov(1, 1, nil, nil), Box("trak", nil), Box("stts", Cat(vf(0, 0), U32(0))), mdat),
	}
}

// TestdataFiles returns every testdata media file of repo: as it is when at most maxLen bytes, else (shrink) with
// every top-level mdat payload cut to 16 bytes and its header adjusted (a synthesized file: offsets into the mdat
// are not checked by the decoder).
func TestdataFiles(repo string, maxLen int, shrink bool) (files [][]byte, names []string) {
	var paths []string
	_ = filepath.Walk(repo, func(p string, info os.FileInfo, err error) error {
		if err != nil || info.IsDir() {
			return nil
		}
		if strings.Contains(p, "/testdata/") && !strings.Contains(p, "/fuzz/") {
			switch strings.ToLower(filepath.Ext(p)) {
			case ".mp4", ".m4s", ".cmfv", ".cmfa", ".cmft", ".ismt", ".isma", ".ismv", ".m4a", ".m4v", ".mov":
				paths = append(paths, p)
			}
		}
		return nil
	})
	sort.Strings(paths)
	seen := map[string]bool{}
	for _, p := range paths {
		buf, err := os.ReadFile(p)
		if err != nil || len(buf) < 8 {
			continue
		}
		if len(buf) > maxLen && shrink {
			nodes, ok := Scan(buf, 0, len(buf), 0)
			if !ok {
				continue
			}
			var o []byte
			for _, n := range nodes {
				if n.Type == "mdat" && n.Size-n.HdrLen > 16 {
					o = append(o, mdatBox(buf[n.Off+n.HdrLen:n.Off+n.HdrLen+16])...)
				} else {
					o = append(o, buf[n.Off:n.Off+n.Size]...)
				}
			}
			buf = o
		}
		if len(buf) > maxLen || seen[string(buf)] {
			continue
		}
		seen[string(buf)] = true
		files = append(files, hx.Exact(buf))
		names = append(names, strings.TrimPrefix(p, repo+"/"))
	}
	return
}

// TopLevel splits b into its top-level boxes (scanner view; nil when b does not tile).
func TopLevel(b []byte) [][]byte {
	nodes, ok := Scan(b, 0, len(b), 0)
	if !ok {
		return nil
	}
	var out [][]byte
	for _, n := range nodes {
		out = append(out, b[n.Off:n.Off+n.Size])
	}
	return out
}

// MutateFile returns mutants of the top-level SEQUENCE of a file: a box dropped, doubled, two swapped, an mdat
// (empty / with payload) or a moof or a styp inserted, trailing bytes, a cut-short mdat or a size-0 header appended,
// a moov replaced by one with / without stts entries.
func MutateFile(r *hx.Rng, file []byte, n int) [][]byte {
	tops := TopLevel(file)
	if len(tops) == 0 {
		return nil
	}
	join := func(bs [][]byte) []byte { return Cat(bs...) }
	cp := func() [][]byte { return append([][]byte{}, tops...) }
	ins := func(bs [][]byte, i int, x []byte) [][]byte {
		o := append([][]byte{}, bs[:i]...)
		o = append(o, x)
		return append(o, bs[i:]...)
	}
	var out [][]byte
	for k := 0; k < n; k++ {
		bs := cp()
		i := r.Intn(len(bs))
		switch r.Intn(12) {
		case 0:
			bs = append(bs[:i], bs[i+1:]...)
		case 1:
			bs = ins(bs, i, bs[i])
		case 2:
			j := r.Intn(len(bs))
			bs[i], bs[j] = bs[j], bs[i]
		case 3:
			bs = ins(bs, r.Intn(len(bs)+1), mdatBox(r.Bytes(r.Intn(6), nil)))
		case 4:
			bs = ins(bs, r.Intn(len(bs)+1), mdatBox(nil))
		case 5:
			bs = ins(bs, r.Intn(len(bs)+1), simpleMoof(r32(r), uint32(r.Range(1, 2)), nil))
		case 6:
			bs = ins(bs, r.Intn(len(bs)+1), Box("styp", Cat([]byte("msdh"), U32(0))))
		case 7:
			bs = append(bs, r.Bytes(r.Range(1, 7), nil))
		case 8:
			have := r.Intn(12)
			bs = append(bs, Cat(U32(uint32(8+have+r.Range(1, 40))), []byte("mdat"), r.Bytes(have, nil)))
		case 9:
			bs = append(bs, Cat(U32(0), []byte("free"), r.Bytes(r.Intn(6), nil)))
		case 10:
			bs = ins(bs, r.Intn(len(bs)+1), ChainMoov(r.Intn(3), uint32(r.Range(1, 2)), nil, nil))
		case 11:
			bs = ins(bs, r.Intn(len(bs)+1), GenLeaf(r, []string{"emsg", "sidx", "free", "zzzz", "ftyp", "styp", "prft"}[r.Intn(7)]))
		}
		out = append(out, join(bs))
	}
	return out
}

// GenFile builds a random top-level sequence out of generated / pooled boxes.
func GenFile(r *hx.Rng, pool map[string][][]byte) []byte {
	pick := func(t string) []byte {
		if p := pool[t]; len(p) > 0 && r.Intn(3) > 0 {
			return p[r.Intn(len(p))]
		}
		switch t {
		case "moov":
			if r.Bool() {
				return ChainMoov(r.Intn(3), uint32(r.Range(1, 3)), nil, nil)
			}
			for i := 0; i < 8; i++ {
				if b := GenTree(r); string(b[4:8]) == "moov" {
					return b
				}
			}
			return ChainMoov(0, 1, nil, nil)
		case "moof":
			for i := 0; i < 8; i++ {
				if b := GenTree(r); string(b[4:8]) == "moof" {
					return b
				}
			}
			return simpleMoof(1, 1, nil)
		case "mdat":
			return mdatBox(r.Bytes(r.Intn(10), nil))
		}
		return GenLeaf(r, t)
	}
	var parts [][]byte
	if r.Intn(4) > 0 {
		parts = append(parts, pick("ftyp"))
	}
	switch r.Intn(3) {
	case 0: // progressive
		if r.Bool() {
			parts = append(parts, pick("mdat"), pick("moov"))
		} else {
			parts = append(parts, pick("moov"), pick("mdat"))
		}
		if r.Intn(3) == 0 {
			parts = append(parts, pick("free"))
		}
	case 1: // init + fragments
		parts = append(parts, pick("moov"))
		fallthrough
	default:
		for k := 0; k < r.Range(1, 3); k++ {
			if r.Intn(3) == 0 {
				parts = append(parts, pick("styp"))
			}
			if r.Intn(4) == 0 {
				parts = append(parts, pick("sidx"))
			}
			if r.Intn(5) == 0 {
				parts = append(parts, pick("emsg"))
			}
			parts = append(parts, pick("moof"), pick("mdat"))
		}
	}
	return Cat(parts...)
}

// FilePool collects harvested top-level-capable boxes by type (at most maxLen bytes each).
func FilePool(hv []Harvested, maxLen int, accept func([]byte) bool) map[string][][]byte {
	pool := map[string][][]byte{}
	for _, h := range hv {
		switch h.Type {
		case "ftyp", "styp", "moov", "moof", "sidx", "emsg", "free", "mdat":
			if h.Depth == 0 && len(h.Data) <= maxLen && len(pool[h.Type]) < 24 && (accept == nil || accept(h.Data)) {
				if h.Type == "mdat" && len(h.Data) > 64 {
					continue
				}
				pool[h.Type] = append(pool[h.Type], h.Data)
			}
		}
	}
	return pool
}

// ---------------------------------------------------------------- the property on a whole file

// boxReproduced: the top-level box alone goes through DecodeBoxSR + Encode unchanged (masked).
func boxReproduced(b []byte, dc *DontCareFile) bool {
	bx, used, oc, _ := DecodeSR(b)
	if oc != "ok" || used != len(b) {
		return false
	}
	out, eo, _ := EncodeW(bx)
	if eo != "ok" {
		return false
	}
	cmp := NormaliseMoov(CompactLarge(b))
	return MaskedDiff(cmp, out, dc.Mask(cmp)) < 0
}

// LosslessFile checks C01 on one accepted whole file: File.Encode (box-tree mode) reproduces the input outside the
// don't-care list, the output is accepted again with the same shape, and encodes to itself.  Failures that belong to
// ONE top-level box (it is not reproduced when decoded alone either) are the box-level search's subject and are only
// counted here; what is reported is what the FILE level adds.
func LosslessFile(in []byte, dc *DontCareFile, pathName string, fails *[]Fail, evals *int, boxLevel *int) {
	dec := DecodeFileSR
	if pathName == "reader" {
		dec = DecodeFileR
	}
	f, oc, _ := dec(in)
	if oc != "ok" {
		return
	}
	*evals++
	w := hx.Hex(in)
	if len(w) > 4000 {
		w = w[:4000] + "..."
	}
	shape := fileShape(f)
	tops := TopLevel(in)
	allOK := tops != nil
	var cmp []byte
	for _, t := range tops {
		if !boxReproduced(t, dc) {
			allOK = false
			break
		}
		cmp = append(cmp, NormaliseMoov(CompactLarge(t))...)
	}
	out, eo, pm := EncodeFileW(f)
	if !allOK {
		*boxLevel++
		if tops == nil && eo == "ok" && len(out) < len(in) {
			// the input does not tile: an accepted file whose last box is a cut-short mdat (the decoder keeps it empty and
			// stops); everything else that does not tile is refused
			*fails = append(*fails, Fail{"leaf-decoders", "header-size-ignored", w,
				fmt.Sprintf("%s: whole file of %d bytes accepted although its top-level boxes do not tile, re-encoded %d bytes", pathName, len(in), len(out))})
		}
		return
	}
	if eo != "ok" {
		*fails = append(*fails, Fail{"File", "accepted-but-encode-" + eo, w, pathName + ": every top-level box re-encodes alone, File.Encode does not " + pm})
		return
	}
	if pos := MaskedDiff(cmp, out, dc.Mask(cmp)); pos >= 0 {
		*fails = append(*fails, Fail{"File", "file-not-reproduced", w,
			fmt.Sprintf("%s: every top-level box is reproduced alone, File.Encode differs: input %d bytes, output %d, first difference at %d", pathName, len(cmp), len(out), pos)})
		return
	}
	if sw, so, _ := EncodeFileSW(f); so != "ok" || !bytes.Equal(sw, out) {
		*fails = append(*fails, Fail{"File", "encodesw-differs-from-encode", w, pathName + ": File.EncodeSW " + so})
		return
	}
	f2, oc2, _ := dec(out)
	if oc2 != "ok" {
		*fails = append(*fails, Fail{"File", "reencoded-file-not-accepted", w, pathName + ": output of File.Encode is refused by the file decoder"})
		return
	}
	if s2 := fileShape(f2); s2 != shape {
		*fails = append(*fails, Fail{"File", "second-decode-differs", w, pathName + ": " + shape + " then " + s2})
		return
	}
	out3, eo3, _ := EncodeFileW(f2)
	if eo3 != "ok" || !bytes.Equal(out3, out) {
		*fails = append(*fails, Fail{"File", "not-a-fixed-point", w, pathName + ": decode(encode(file)) re-encodes differently"})
	}
}

var _ = binary.BigEndian
