package bx

// Seeds returns hand-written minimal encodings for registered box types that are rare or absent in the
// repository's testdata (so that the search reaches them).
func Seeds() [][]byte {
	fb := func(typ string, version byte, flags uint32, rest ...[]byte) []byte {
		return Box(typ, Cat(append([][]byte{vf(version, flags)}, rest...)...))
	}
	// esds whose ES descriptor (ES_ID 1, a DecoderConfigDescriptor of 13 bytes) ends with `tail`
	esdsTail := func(tail ...byte) []byte {
		body := Cat([]byte{0, 1, 0, 4, 13, 0x40, 0x15, 0, 0, 0, 0, 0, 0, 1, 0, 0, 0, 2}, tail)
		return fb("esds", 0, 0, []byte{3, byte(len(body))}, body)
	}
	mp4a := func(children ...[]byte) []byte {
		pre := make([]byte, 28)
		pre[7], pre[17], pre[19], pre[24], pre[25] = 1, 2, 16, 0xbb, 0x80
		return Box("mp4a", Cat(append([][]byte{pre}, children...)...))
	}
	btrt := Box("btrt", Cat(U32(1), U32(2), U32(3)))
	return [][]byte{
		fb("mehd", 0, 0, U32(1000)), fb("mehd", 1, 0, U64(1<<40)),
		fb("elst", 0, 0, U32(1), U32(100), U32(0), U16(1), U16(0)),
		fb("elst", 1, 0, U32(1), U64(100), U64(0), U16(1), U16(0)),
		fb("ctts", 0, 0, U32(2), U32(1), U32(5), U32(2), U32(7)),
		fb("ctts", 1, 0, U32(1), U32(1), U32(0xfffffffb)),
		fb("stsc", 0, 0, U32(2), U32(1), U32(3), U32(1), U32(5), U32(1), U32(1)),
		fb("stsc", 0, 0, U32(3), U32(1), U32(3), U32(1), U32(5), U32(1), U32(2), U32(9), U32(2), U32(1)),
		fb("stsc", 0, 0, U32(4), U32(1), U32(3), U32(1), U32(2), U32(3), U32(1), U32(5), U32(1), U32(2), U32(9), U32(2), U32(1)),
		fb("stsz", 0, 0, U32(0), U32(2), U32(10), U32(20)), fb("stsz", 0, 0, U32(7), U32(2)),
		fb("stco", 0, 0, U32(2), U32(100), U32(200)), fb("co64", 0, 0, U32(1), U64(1<<33)),
		fb("stss", 0, 0, U32(2), U32(1), U32(9)), fb("sdtp", 0, 0, []byte{0x10, 0x20, 0x24}),
		fb("saiz", 0, 0, []byte{0}, U32(2), []byte{8, 16}), fb("saiz", 0, 1, U32(0x63656e63), U32(0), []byte{8}, U32(3)),
		fb("saio", 0, 0, U32(1), U32(100)), fb("saio", 1, 1, U32(0x63656e63), U32(0), U32(1), U64(100)),
		fb("sbgp", 0, 0, U32(0x726f6c6c), U32(1), U32(5), U32(1)),
		fb("sbgp", 1, 0, U32(0x726f6c6c), U32(7), U32(1), U32(5), U32(1)),
		fb("prft", 0, 0, U32(1), U64(123456789), U32(1000)), fb("prft", 1, 24, U32(1), U64(123456789), U64(1000)),
		fb("tenc", 0, 0, []byte{0, 0, 1, 8}, make([]byte, 16)),
		fb("tenc", 1, 0, []byte{0, 0x19, 1, 0}, make([]byte, 16), []byte{16}, make([]byte, 16)),
		fb("schm", 0, 0, []byte("cenc"), U32(0x10000)), fb("schm", 0, 1, []byte("cbcs"), U32(0x10000), []byte("http://x\x00")),
		Box("frma", []byte("avc1")),
		fb("vmhd", 0, 1, make([]byte, 8)), fb("smhd", 0, 0, make([]byte, 4)), fb("nmhd", 0, 0), fb("sthd", 0, 0),
		fb("url ", 0, 1), fb("url ", 0, 0, []byte("http://a/b\x00")),
		fb("dref", 0, 0, U32(1), fb("url ", 0, 1)),
		fb("tfra", 1, 0, U32(1), U32(0), U32(1), U64(0), U64(100), []byte{1, 1, 1}),
		fb("tfra", 0, 0, U32(1), U32(0x3f), U32(1), U32(0), U32(100), U32(1), U32(1), U32(1)),
		fb("mfro", 0, 0, U32(64)),
		fb("pssh", 0, 0, make([]byte, 16), U32(4), []byte{1, 2, 3, 4}),
		fb("pssh", 1, 0, make([]byte, 16), U32(1), make([]byte, 16), U32(0)),
		fb("emsg", 0, 0, []byte("urn:x\x00"), []byte("v\x00"), U32(90000), U32(0), U32(100), U32(7), []byte("payload")),
		fb("emsg", 1, 0, U32(90000), U64(1000), U32(100), U32(7), []byte("urn:x\x00"), []byte("v\x00"), []byte("payload")),
		fb("senc", 0, 0, U32(2), make([]byte, 16)),
		fb("senc", 0, 2, U32(1), make([]byte, 8), U16(1), U16(5), U32(100)),
		fb("sgpd", 1, 0, []byte("seig"), U32(20), U32(1), []byte{0, 0, 1, 8}, make([]byte, 16)),
		fb("sgpd", 1, 0, []byte("roll"), U32(2), U32(1), U16(0xffff)),
		// description lengths that disagree with the known syntax of the grouping type (longer / shorter, as default
		// length and per entry): whatever the decoder does with them, Size() and the bytes written must agree
		fb("sgpd", 1, 0, []byte("roll"), U32(4), U32(1), U16(0xfffe), U16(0x1234)),
		fb("sgpd", 1, 0, []byte("roll"), U32(4), U32(2), U16(1), U16(0), U16(2), U16(0)),
		fb("sgpd", 1, 0, []byte("roll"), U32(0), U32(2), U32(2), U16(1), U32(4), U16(2), U16(0x5555)),
		fb("sgpd", 1, 0, []byte("roll"), U32(1), U32(1), []byte{7}),
		fb("sgpd", 1, 0, []byte("rap "), U32(2), U32(1), []byte{0x80, 0x11}),
		fb("sgpd", 1, 0, []byte("prol"), U32(6), U32(1), U16(3), U32(0x01020304)),
		fb("sgpd", 1, 0, []byte("seig"), U32(24), U32(1), []byte{0, 0, 1, 8}, make([]byte, 16), U32(0x0a0b0c0d)),
		fb("sgpd", 2, 0, []byte("roll"), U32(1), U32(1), U16(9)),
		fb("subs", 0, 0, U32(1), U32(1), U16(1), U16(10), []byte{0, 0}, U32(0)),
		fb("subs", 1, 0, U32(1), U32(1), U16(1), U32(10), []byte{0, 0}, U32(0)),
		fb("elng", 0, 0, []byte("en-US\x00")), fb("kind", 0, 0, []byte("urn:a\x00"), []byte("b\x00")),
		fb("cslg", 0, 0, U32(1), U32(2), U32(3), U32(4), U32(5)), fb("cslg", 1, 0, U64(1), U64(2), U64(3), U64(4), U64(5)),
		Box("btrt", Cat(U32(1), U32(2), U32(3))), Box("pasp", Cat(U32(1), U32(1))),
		Box("colr", Cat([]byte("nclx"), U16(1), U16(1), U16(1), []byte{0x80})), Box("colr", Cat([]byte("prof"), []byte{1, 2, 3})),
		Box("clap", make([]byte, 32)),
		Box("avcC", []byte{1, 100, 0, 31, 0xff, 0xe1, 0, 4, 0x67, 100, 0, 31, 1, 0, 2, 0x68, 0xee, 0xfc, 0xf8, 0xf8, 0}),
		Box("avcC", []byte{1, 66, 0, 31, 0xff, 0xe1, 0, 4, 0x67, 66, 0, 31, 1, 0, 2, 0x68, 0xee}),
		Box("avcC", []byte{1, 244, 0, 31, 0xff, 0xe1, 0, 4, 0x67, 244, 0, 31, 1, 0, 2, 0x68, 0xee}),
		Box("avcC", []byte{1, 244, 0, 31, 0xff, 0xe1, 0, 4, 0x67, 244, 0, 31, 1, 0, 2, 0x68, 0xee, 0xfc, 0xf8, 0xf8, 0}),
		Box("tref", Box("hint", Cat(U32(1), U32(2)))),
		fb("trep", 0, 0, U32(1)), fb("leva", 0, 0, []byte{1}, U32(1), []byte{0x80}, U32(0x726f6c6c)),
		fb("ssix", 0, 0, U32(1), U32(1), []byte{1, 0, 0, 10}),
		fb("mime", 0, 0, []byte("text/plain\x00")),
		Box("sttg", []byte("line:1")), Box("payl", []byte("hello")), Box("iden", []byte("id")), Box("ctim", []byte("00:00")),
		Box("vttc", Cat(Box("iden", []byte("1")), Box("payl", []byte("x")))), Box("vtte", nil), Box("vttC", []byte("WEBVTT")),
		Box("vlab", []byte("lab")), Box("vsid", U32(3)), Box("vtta", []byte("n")),
		fb("SmDm", 0, 0, make([]byte, 24)), fb("CoLL", 0, 0, U16(1000), U16(400)),
		fb("vpcC", 1, 0, []byte{0, 10, 0x82, 2, 2, 2}, U16(0)),
		Box("dac3", []byte{0x10, 0x3d, 0x40}), Box("dec3", []byte{0x07, 0xc0, 0x20, 0x0f, 0x00}),
		Box("av1C", []byte{0x81, 0x04, 0x0c, 0x00}),
		fb("meta", 0, 0, fb("hdlr", 0, 0, U32(0), []byte("mdir"), make([]byte, 12), []byte{0})),
		// QuickTime style meta atom: no version/flags, the hdlr box comes first; with and without further children
		Box("meta", fb("hdlr", 0, 0, U32(0), []byte("mdir"), make([]byte, 12), []byte{0})),
		Box("meta", Cat(fb("hdlr", 0, 0, U32(0), []byte("mdta"), make([]byte, 12), []byte("n\x00")), Box("free", make([]byte, 5)))),
		Box("udta", Box("meta", fb("hdlr", 0, 0, U32(0), []byte("mdir"), make([]byte, 12), []byte{0}))),
		Box("ilst", Box("\xa9too", Box("data", Cat(U32(1), U32(0), []byte("Lavf"))))),
		Box("data", Cat(U32(1), U32(0), []byte("x"))),
		fb("esds", 0, 0, []byte{3, 25, 0, 1, 0, 4, 17, 0x40, 0x15, 0, 0, 0, 0, 0, 0, 0, 0, 0, 0, 0, 5, 2, 0x11, 0x90, 6, 1, 2}),
		// an ES descriptor that ends inside a descriptor header or inside a descriptor's fixed fields (size field `80` /
		// `80 80` with nothing behind it, a lone tag, a DecoderConfigDescriptor announcing 5 of its 13 bytes), alone and
		// with a sibling box BEHIND the esds box: the sibling's bytes must not complete the descriptor (finding C03-F7,
		// repo commit 27ea537: DecodeBoxSR accepted and reproduced what DecodeBox refuses)
		esdsTail(6, 0x80), esdsTail(6, 0x80, 0x80), esdsTail(6), esdsTail(6, 1, 2, 4, 5, 1, 2, 3, 4, 5),
		mp4a(esdsTail(6, 0x80), btrt), mp4a(esdsTail(6, 1, 2, 7, 0x81), btrt), mp4a(esdsTail(6, 1, 2, 6, 0x80, 0x80), btrt),
		mp4a(esdsTail(6, 1, 2, 4, 5, 1, 2, 3, 4, 5), btrt), mp4a(esdsTail(6), btrt), mp4a(esdsTail(6, 1, 2), btrt),
		fb("stsd", 0, 0, U32(1), mp4a(esdsTail(6, 0x80, 0x80), btrt)),
		Box("uuid", Cat([]byte{0x6d, 0x1d, 0x9b, 0x05, 0x42, 0xd5, 0x44, 0xe6, 0x80, 0xe2, 0x14, 0x1d, 0xaf, 0xf7, 0x57, 0xb2}, vf(1, 0), U64(10), U64(20))),
		Box("uuid", Cat(make([]byte, 16), []byte("unknown uuid payload"))),
		fb("emib", 0, 0, U32(0), U32(10), U32(100), U32(1), []byte("urn:x\x00"), []byte("v\x00"), []byte("m")),
		Box("emeb", nil),
		fb("silb", 0, 0, U32(1), []byte("urn:x\x00"), []byte("v\x00"), []byte{0}, []byte{0}),
		fb("evte", 0, 0), Box("edts", fb("elst", 0, 0, U32(0))),
		fb("ludt", 0, 0), Box("udta", nil), Box("sinf", Cat(Box("frma", []byte("avc1")), fb("schm", 0, 0, []byte("cenc"), U32(0x10000)), Box("schi", fb("tenc", 0, 0, []byte{0, 0, 1, 8}, make([]byte, 16))))),
		Box("mfra", Cat(fb("tfra", 0, 0, U32(1), U32(0), U32(0)), fb("mfro", 0, 0, U32(43)))),
		Box("mvex", Cat(fb("mehd", 0, 0, U32(5)), fb("trex", 0, 0, U32(1), U32(1), U32(0), U32(0), U32(0)))),
	}
}
