// Package bx holds what the C01 and C02 harnesses share: an independent box scanner (not mp4ff's),
// the harvest of boxes from the repository's testdata, box generators and mutators, the don't-care
// mask and the property oracles evaluated on the real implementation.
package bx

import (
	"bytes"
	"encoding/binary"
	"encoding/json"
	"fmt"
	"os"
	"path/filepath"
	"sort"
	"strings"

	"github.com/Eyevinn/mp4ff/bits"
	"github.com/Eyevinn/mp4ff/mp4"
	"verifharness/hx"
)

// ---------------------------------------------------------------- independent scanner

// Node is one box found by the scanner.
type Node struct {
	Type     string
	Off      int // offset of the box start in the scanned buffer
	Size     int
	HdrLen   int
	Children []*Node
}

// where the children of a box start, relative to the end of its header; -1 = leaf
var childOffset = map[string]int{
	"moov": 0, "trak": 0, "mdia": 0, "minf": 0, "stbl": 0, "moof": 0, "traf": 0, "mvex": 0, "dinf": 0,
	"edts": 0, "udta": 0, "sinf": 0, "schi": 0, "mfra": 0, "tref": 0,
	"stsd": 8, "dref": 8, "meta": 4,
	"avc1": 78, "avc3": 78, "hev1": 78, "hvc1": 78, "encv": 78, "av01": 78, "vp08": 78, "vp09": 78,
	"mp4a": 28, "enca": 28, "ac-3": 28, "ec-3": 28,
	"stpp": -2, "wvtt": 8, "evte": 8,
}

// Scan parses buf[off:end] as a sequence of boxes. ok=false if the structure does not tile exactly.
func Scan(buf []byte, off, end int, depth int) (nodes []*Node, ok bool) {
	for off < end {
		if end-off < 8 {
			return nodes, false
		}
		size := int(binary.BigEndian.Uint32(buf[off:]))
		hl := 8
		if size == 1 {
			if end-off < 16 {
				return nodes, false
			}
			s64 := binary.BigEndian.Uint64(buf[off+8:])
			if s64 > uint64(end-off) {
				return nodes, false
			}
			size = int(s64)
			hl = 16
		}
		if size < hl || size > end-off {
			return nodes, false
		}
		n := &Node{Type: string(buf[off+4 : off+8]), Off: off, Size: size, HdrLen: hl}
		co, isCont := childOffset[n.Type]
		if n.Type == "meta" && size >= hl+8 && string(buf[off+hl+4:off+hl+8]) == "hdlr" {
			co = 0 // QuickTime meta atom: no version/flags, the hdlr box comes first (the rule of DecodeMetaSR)
		}
		if isCont && co >= 0 && depth < 16 && size >= hl+co {
			ch, _ := Scan(buf, off+hl+co, off+size, depth+1)
			n.Children = ch // kept even when the children do not tile (the prefix that parsed)
		}
		nodes = append(nodes, n)
		off += size
	}
	return nodes, off == end
}

// Walk calls f on n and all descendants.
func (n *Node) Walk(f func(*Node)) {
	f(n)
	for _, c := range n.Children {
		c.Walk(f)
	}
}

// Innermost returns the innermost scanned box containing offset pos.
func Innermost(nodes []*Node, pos int) *Node {
	for _, n := range nodes {
		if pos >= n.Off && pos < n.Off+n.Size {
			if in := Innermost(n.Children, pos); in != nil {
				return in
			}
			return n
		}
	}
	return nil
}

// ---------------------------------------------------------------- harvest

// Harvested is a box cut out of a testdata file.
type Harvested struct {
	Type  string
	Data  []byte
	File  string
	Depth int
}

// Harvest returns every box (at every nesting level the scanner understands) of every testdata file
// under repo, deduplicated by content, at most maxLen bytes each, sorted deterministically.
func Harvest(repo string, maxLen int) []Harvested {
	var files []string
	_ = filepath.Walk(repo, func(p string, info os.FileInfo, err error) error {
		if err != nil || info.IsDir() {
			return nil
		}
		if strings.Contains(p, "/testdata/") && !strings.Contains(p, "/fuzz/") {
			switch strings.ToLower(filepath.Ext(p)) {
			case ".mp4", ".m4s", ".cmfv", ".cmfa", ".cmft", ".ismt", ".isma", ".ismv", ".m4a", ".m4v", ".mov":
				files = append(files, p)
			}
		}
		return nil
	})
	sort.Strings(files)
	seen := map[string]bool{}
	var out []Harvested
	for _, f := range files {
		buf, err := os.ReadFile(f)
		if err != nil {
			continue
		}
		nodes, _ := Scan(buf, 0, len(buf), 0)
		var rec func(n *Node, d int)
		rec = func(n *Node, d int) {
			if n.Size <= maxLen {
				b := buf[n.Off : n.Off+n.Size]
				k := string(b)
				if !seen[k] {
					seen[k] = true
					out = append(out, Harvested{n.Type, hx.Exact(b), strings.TrimPrefix(f, repo+"/"), d})
				}
			}
			for _, c := range n.Children {
				rec(c, d+1)
			}
		}
		for _, n := range nodes {
			rec(n, 0)
		}
	}
	return out
}

// AllTypes lists every type in the subtree of the first box of b (scanner view).
func AllTypes(b []byte) []string {
	nodes, _ := Scan(b, 0, len(b), 0)
	var ts []string
	for _, n := range nodes {
		n.Walk(func(m *Node) { ts = append(ts, m.Type) })
	}
	return ts
}

// ---------------------------------------------------------------- running the implementation

// Outcome of one decode + encode experiment on one path.
type Run struct {
	Dec      string // ok | err | panic
	Used     int    // bytes consumed by the decoder (SR path: slice position; reader path: bytes read)
	Box      mp4.Box
	Size     uint64
	EncW     string // ok | err | panic
	EncWB    []byte
	EncSW    string
	EncSWB   []byte
	SizeAft  uint64
	PanicMsg string
}

type countReader struct {
	r *bytes.Reader
	n int
}

func (c *countReader) Read(p []byte) (int, error) {
	n, err := c.r.Read(p)
	c.n += n
	return n, err
}

// DecodeSR runs DecodeBoxSR on exactly the bytes of in.
func DecodeSR(in []byte) (b mp4.Box, used int, outcome string, pmsg string) {
	data := hx.Exact(in)
	pmsg = hx.Try(func() {
		sr := bits.NewFixedSliceReader(data)
		var err error
		b, err = mp4.DecodeBoxSR(0, sr)
		if err != nil {
			outcome = "err"
			b = nil
			return
		}
		outcome = "ok"
		used = sr.GetPos()
	})
	if pmsg != "" {
		return nil, 0, "panic", pmsg
	}
	return
}

// DecodeR runs DecodeBox on a reader over in.
func DecodeR(in []byte) (b mp4.Box, used int, outcome string, pmsg string) {
	data := hx.Exact(in)
	pmsg = hx.Try(func() {
		cr := &countReader{r: bytes.NewReader(data)}
		var err error
		b, err = mp4.DecodeBox(0, cr)
		if err != nil {
			outcome = "err"
			b = nil
			return
		}
		outcome = "ok"
		used = cr.n
	})
	if pmsg != "" {
		return nil, 0, "panic", pmsg
	}
	return
}

// EncodeW runs b.Encode into a buffer.
func EncodeW(b mp4.Box) (out []byte, outcome string, pmsg string) {
	var buf bytes.Buffer
	pmsg = hx.Try(func() {
		err := b.Encode(&buf)
		if err != nil {
			outcome = "err"
			return
		}
		outcome = "ok"
	})
	if pmsg != "" {
		return nil, "panic", pmsg
	}
	if outcome != "ok" {
		return nil, outcome, ""
	}
	return buf.Bytes(), outcome, ""
}

// EncodeSW runs b.EncodeSW on a FixedSliceWriter of capacity b.Size().
func EncodeSW(b mp4.Box) (out []byte, outcome string, pmsg string) {
	pmsg = hx.Try(func() {
		sz := b.Size()
		if sz > 1<<28 {
			outcome = "err"
			return
		}
		sw := DirtyWriter(int(sz))
		err := b.EncodeSW(sw)
		if err != nil {
			outcome = "err"
			return
		}
		outcome = "ok"
		out = append([]byte{}, sw.Bytes()...)
	})
	if pmsg != "" {
		return nil, "panic", pmsg
	}
	if outcome != "ok" {
		return nil, outcome, ""
	}
	return
}

// DirtyWriter is a FixedSliceWriter over a re-used output buffer of n bytes that is NOT zero-initialised (every byte
// 0xa5): what EncodeSW writes must not depend on what the buffer held (an encoder that skips over reserved fields
// instead of writing them differs from Encode here).
func DirtyWriter(n int) *bits.FixedSliceWriter {
	dirty := make([]byte, n)
	for i := range dirty {
		dirty[i] = 0xa5
	}
	return bits.NewFixedSliceWriterFromSlice(dirty)
}

// EncodeSWRoomy runs b.EncodeSW on a FixedSliceWriter of capacity b.Size()+extra; n = bytes written.
func EncodeSWRoomy(b mp4.Box, extra int) (out []byte, outcome string, n int) {
	pmsg := hx.Try(func() {
		sz := b.Size()
		if sz > 1<<28 {
			outcome = "err"
			return
		}
		// a re-used output buffer: not zero-initialised (an encoder that skips over reserved fields instead of writing
		// them shows here)
		dirty := make([]byte, int(sz)+extra)
		for i := range dirty {
			dirty[i] = 0xa5
		}
		sw := bits.NewFixedSliceWriterFromSlice(dirty)
		if err := b.EncodeSW(sw); err != nil {
			outcome = "err"
			return
		}
		outcome = "ok"
		n = sw.Offset()
		out = append([]byte{}, sw.Bytes()...)
	})
	if pmsg != "" {
		return nil, "panic", 0
	}
	return
}

// SafeSize calls b.Size() catching panics.
func SafeSize(b mp4.Box) (sz uint64, pmsg string) {
	pmsg = hx.Try(func() { sz = b.Size() })
	return
}

// ---------------------------------------------------------------- don't-care mask

// DontCare is one entry of c01_dontcare.json.
type DontCare struct {
	Box     string `json:"box"`
	Version *int   `json:"version,omitempty"` // entry applies only to this version (byte 0 of the body)
	Offset  int    `json:"offset"`            // from the start of the body (after the 8/16 byte header)
	Length  int    `json:"length"`
	What    string `json:"what"`
	Source  string `json:"source"` // model | hand
}

type DontCareFile struct {
	Comment        string     `json:"comment"`
	Normalisations []string   `json:"normalisations"`
	Fields         []DontCare `json:"fields"`
}

func LoadDontCare(path string) (*DontCareFile, error) {
	raw, err := os.ReadFile(path)
	if err != nil {
		return nil, err
	}
	var f DontCareFile
	if err := json.Unmarshal(raw, &f); err != nil {
		return nil, err
	}
	return &f, nil
}

// Mask returns a byte mask for in (1 = compare, 0 = don't care), built from the scanner's view of in.
func (d *DontCareFile) Mask(in []byte) []bool {
	m := make([]bool, len(in))
	for i := range m {
		m[i] = true
	}
	nodes, _ := Scan(in, 0, len(in), 0)
	for _, top := range nodes {
		top.Walk(func(n *Node) {
			for _, e := range d.Fields {
				if e.Box != n.Type {
					continue
				}
				body := n.Off + n.HdrLen
				if e.Version != nil {
					if body >= len(in) || int(in[body]) != *e.Version {
						continue
					}
				}
				for i := 0; i < e.Length; i++ {
					p := body + e.Offset + i
					if p < n.Off+n.Size && p < len(m) {
						m[p] = false
					}
				}
			}
		})
	}
	return m
}

// MaskedDiff returns the first offset at which a and b differ on a compared byte, or -1.
func MaskedDiff(a, b []byte, mask []bool) int {
	n := len(a)
	if len(b) < n {
		n = len(b)
	}
	for i := 0; i < n; i++ {
		if a[i] != b[i] && (i >= len(mask) || mask[i]) {
			return i
		}
	}
	if len(a) != len(b) {
		return n
	}
	return -1
}

// ---------------------------------------------------------------- property oracles on the implementation

// Fail is one failing input.
type Fail struct {
	Site, Class, Witness, Desc string
}

// FailBox: the bytes of the box named by the site of the last failing input (as found in the normalised input)
var FailBox = map[string][]byte{}

// Perm returns a random permutation of 0..n-1.
func Perm(r *hx.Rng, n int) []int {
	p := make([]int, n)
	for i := range p {
		p[i] = i
	}
	for i := n - 1; i > 0; i-- {
		j := r.Intn(i + 1)
		p[i], p[j] = p[j], p[i]
	}
	return p
}

type childrener interface{ GetChildren() []mp4.Box }

// SizeAtEveryNode checks, for b and every descendant reachable through GetChildren, that Encode writes
// Size() bytes and that the first size field written equals the number of bytes written (C02).
// QuotaWriter accepts Left bytes, then fails for good (partial write reported with the error, as io.Writer demands).
type QuotaWriter struct {
	Left    int
	N       int
	faulted bool
}

var errQuota = fmt.Errorf("quota writer: no room")

func (q *QuotaWriter) Write(p []byte) (int, error) {
	if q.faulted {
		return 0, errQuota
	}
	if len(p) > q.Left {
		n := q.Left
		q.N += n
		q.Left = 0
		q.faulted = true
		return n, errQuota
	}
	q.Left -= len(p)
	q.N += len(p)
	return len(p), nil
}

func SizeAtEveryNode(b mp4.Box, path string, witness string, fails *[]Fail, evals *int) {
	*evals++
	szBefore, p := SafeSize(b)
	if p != "" {
		*fails = append(*fails, Fail{b.Type(), "size-panic", witness, path + ": Size() panics: " + p})
		return
	}
	out, oc, pm := EncodeW(b)
	if oc == "panic" {
		*fails = append(*fails, Fail{b.Type(), "encode-panic", witness, path + ": Encode panics: " + pm})
		return
	}
	if oc == "ok" {
		szAfter, _ := SafeSize(b)
		if uint64(len(out)) != szAfter {
			*fails = append(*fails, Fail{b.Type(), "size-vs-bytes", witness,
				fmt.Sprintf("%s: Encode wrote %d bytes, Size() = %d", path, len(out), szAfter)})
		} else if szBefore != szAfter {
			*fails = append(*fails, Fail{b.Type(), "size-changes", witness,
				fmt.Sprintf("%s: Size() before Encode %d, after %d", path, szBefore, szAfter)})
		}
		if len(out) >= 8 {
			f := uint64(binary.BigEndian.Uint32(out))
			if f == 1 && len(out) >= 16 {
				f = binary.BigEndian.Uint64(out[8:])
			}
			if f != uint64(len(out)) {
				*fails = append(*fails, Fail{b.Type(), "header-field-vs-bytes", witness,
					fmt.Sprintf("%s: size field %d, bytes written %d", path, f, len(out))})
			}
		}
		out2, oc2, _ := EncodeSW(b)
		if oc2 == "ok" && !bytes.Equal(out, out2) {
			*fails = append(*fails, Fail{b.Type(), "encode-vs-encodesw", witness,
				fmt.Sprintf("%s: Encode %d bytes, EncodeSW %d bytes differ", path, len(out), len(out2))})
		}
		out3, oc3, _ := EncodeW(b)
		if oc3 != "ok" || !bytes.Equal(out, out3) {
			*fails = append(*fails, Fail{b.Type(), "encode-twice-differs", witness, path + ": second Encode gives different bytes"})
		}
	}
	// Encode into writers that fail after k < Size() bytes: success must not be reported for an output that lost bytes
	if oc == "ok" && len(out) > 0 && len(out) < 1<<20 {
		for _, k := range []int{0, 7, 8, 12, len(out) / 2, len(out) - 1} {
			if k < 0 || k >= len(out) {
				continue
			}
			q := &QuotaWriter{Left: k}
			var e error
			pq := hx.Try(func() { e = b.Encode(q) })
			if pq != "" {
				*fails = append(*fails, Fail{b.Type(), "encode-panic", witness,
					fmt.Sprintf("%s: Encode into a writer that fails after %d bytes panics: %s", path, k, pq)})
				break
			}
			if e == nil {
				*fails = append(*fails, Fail{b.Type(), "encode-success-after-writer-fault", witness,
					fmt.Sprintf("%s: Encode into a writer that fails after %d of %d bytes reports success (%d bytes written)", path, k, len(out), q.N)})
				break
			}
		}
	}
	// EncodeSW into a writer with spare room (independently of whether the exactly-sized Encode succeeded): an
	// encoder that writes more than Size() is then not stopped by the writer's capacity; "success" must still mean
	// exactly Size() bytes, and the same bytes as Encode when that succeeded
	if out4, oc4, n4 := EncodeSWRoomy(b, 64); oc4 == "ok" {
		szNow, _ := SafeSize(b)
		if uint64(n4) != szNow {
			*fails = append(*fails, Fail{b.Type(), "encodesw-roomy-vs-size", witness,
				fmt.Sprintf("%s: EncodeSW into a writer of Size()+64 bytes reports success and wrote %d bytes, Size() = %d", path, n4, szNow)})
		} else if oc == "ok" && !bytes.Equal(out, out4) {
			*fails = append(*fails, Fail{b.Type(), "encodesw-roomy-vs-encode", witness, path + ": EncodeSW into a roomy writer gives other bytes than Encode"})
		}
	}
	if c, ok := b.(childrener); ok {
		var sum uint64 = 8
		kids := c.GetChildren()
		for i, k := range kids {
			if k == nil {
				continue
			}
			ks, _ := SafeSize(k)
			sum += ks
			if len(path) < 200 {
				SizeAtEveryNode(k, fmt.Sprintf("%s/%s[%d]", path, k.Type(), i), witness, fails, evals)
			}
		}
		_ = sum
	}
}

// Lossless checks C01 on one accepted input: masked equality of the re-encoding with the consumed input,
// second decode, third encode.  wellFormed says the input is a harvested / hand-written / generated box (every
// failure is then reported with the box type as site); for mutants the three systematic leniencies of the
// decoders (trailing body bytes dropped, short body accepted, header size ignored) are reported under the
// generic site "leaf-decoders" and everything else per box type.
func Lossless(in []byte, used int, b mp4.Box, decode func([]byte) (mp4.Box, int, string, string),
	dc *DontCareFile, pathName string, wellFormed bool, fails *[]Fail, evals *int) {
	*evals++
	w := hx.Hex(in)
	if len(w) > 4000 {
		w = w[:4000] + "..."
	}
	generic := func(site string) string {
		if wellFormed {
			return site
		}
		return "leaf-decoders"
	}
	out, oc, pm := EncodeW(b)
	top := b.Type()
	switch oc {
	case "panic":
		*fails = append(*fails, Fail{siteOfEncodeError(b), "accepted-but-encode-panics", w, pathName + ": " + pm})
		return
	case "err":
		*fails = append(*fails, Fail{siteOfEncodeError(b), "accepted-but-encode-error", w, pathName + ": decoder accepts, Encode returns an error"})
		return
	}
	if used != len(in) {
		*fails = append(*fails, Fail{generic(top), "header-size-ignored", w,
			fmt.Sprintf("%s: slice of %d bytes (= announced box size), decoder consumed %d and accepted", pathName, len(in), used)})
		return
	}
	// listed normalisation: a large-size header of a registered non-mdat box is written back compact
	cmpIn := NormaliseMoov(CompactLarge(in))
	if !bytes.Equal(out, cmpIn) {
		mask := dc.Mask(cmpIn)
		pos := MaskedDiff(cmpIn, out, mask)
		if pos >= 0 {
			nodes, _ := Scan(cmpIn, 0, len(cmpIn), 0)
			site := top
			var inNode *Node
			if n := Innermost(nodes, min(pos, len(cmpIn)-1)); n != nil {
				site = n.Type
				inNode = n
			}
			class := "same-length-bytes-differ"
			if len(out) == len(cmpIn) && pos < 4 {
				class, site = "header-size-ignored", generic(top)
			} else if len(out) == len(cmpIn) && inNode != nil && pos < inNode.Off+4 {
				// only the size field of a box differs: the decoder did not hold the box to its announced size
				class, site = "header-size-ignored", generic(site)
			}
			if len(out) != len(cmpIn) {
				class = "length-differs"
				on, _ := Scan(out, 0, len(out), 0)
				if in2, out2 := firstSizeDiffNode(nodes, on); in2 != nil {
					site = in2.Type
					inNode = in2
					if out2 != nil && out2.Type == in2.Type {
						ib := cmpIn[in2.Off : in2.Off+in2.Size]
						ob := out[out2.Off : out2.Off+out2.Size]
						im := mask[in2.Off : in2.Off+in2.Size]
						if len(ob) < len(ib) && len(ob) >= 8 && MaskedDiff(ib[8:len(ob)], ob[8:], im[8:len(ob)]) < 0 {
							class, site = "trailing-body-bytes-dropped", generic(site)
						} else if len(ob) > len(ib) && len(ib) >= 8 && MaskedDiff(ib[8:], ob[8:len(ib)], im[8:]) < 0 {
							class, site = "short-body-accepted-and-padded", generic(site)
						}
					}
				}
			}
			if co, isCont := childOffset[site]; !wellFormed && isCont && co == 0 && inNode != nil && len(out) == len(cmpIn) {
				// a difference inside a pure container that the scanner cannot attribute to a child: a child header
				// (size field) that the decoder did not hold the child to
				class, site = "header-size-ignored", "leaf-decoders"
			}
			if !wellFormed && site != "leaf-decoders" {
				// a mutant: the class says HOW the re-encoding differs (for inputs made of modelled box types only,
				// the check replaces it by the reason the Coq model gives for this very input)
				how := "same-length"
				if len(out) < len(cmpIn) {
					how = "shorter"
				} else if len(out) > len(cmpIn) {
					how = "longer"
				}
				if site == "esds" && inNode != nil && inNode.Type == "esds" {
					how += ":" + EsdsWhere(cmpIn[inNode.Off:inNode.Off+inNode.Size], pos-inNode.Off)
				}
				class = "mutant-not-reproduced:" + how
			}
			var boxBytes []byte
			if inNode != nil && inNode.Type == site && inNode.Off+inNode.Size <= len(cmpIn) {
				boxBytes = cmpIn[inNode.Off : inNode.Off+inNode.Size]
			}
			FailBox[site+"/"+class] = boxBytes
			*fails = append(*fails, Fail{site, class, w,
				fmt.Sprintf("%s: input %d bytes, re-encoded %d bytes, first difference at offset %d", pathName, len(cmpIn), len(out), pos)})
			return
		}
	}
	// second decode + third encode
	b2, _, oc2, pm2 := decode(out)
	if oc2 != "ok" {
		*fails = append(*fails, Fail{top, "reencoded-not-decodable", w, pathName + ": output of Encode is rejected by the decoder " + pm2})
		return
	}
	out3, oc3, _ := EncodeW(b2)
	if oc3 != "ok" || !bytes.Equal(out3, out) {
		*fails = append(*fails, Fail{top, "not-a-fixed-point", w, pathName + ": decode(encode(x)) re-encodes differently"})
	}
}

func firstSizeDiffNode(a, b []*Node) (*Node, *Node) {
	for i := range a {
		if i >= len(b) {
			return a[i], nil
		}
		if a[i].Type != b[i].Type {
			return a[i], b[i]
		}
		if a[i].Size != b[i].Size {
			if x, y := firstSizeDiffNode(a[i].Children, b[i].Children); x != nil {
				return x, y
			}
			return a[i], b[i]
		}
	}
	return nil, nil
}

func min(a, b int) int {
	if a < b {
		return a
	}
	return b
}

// innermost box whose own Encode fails
func siteOfEncodeError(b mp4.Box) string {
	if c, ok := b.(childrener); ok {
		for _, k := range c.GetChildren() {
			if k == nil {
				continue
			}
			if _, oc, _ := EncodeW(k); oc != "ok" {
				return siteOfEncodeError(k)
			}
		}
	}
	return b.Type()
}

func firstSizeDiff(a, b []*Node) string {
	for i := range a {
		if i >= len(b) {
			return a[i].Type
		}
		if a[i].Type != b[i].Type {
			return a[i].Type
		}
		if a[i].Size != b[i].Size {
			if s := firstSizeDiff(a[i].Children, b[i].Children); s != "" {
				return s
			}
			return a[i].Type
		}
	}
	return ""
}

// Registered is set by the harness to the registered box types (a large-size header of an unregistered
// type is kept by UnknownBox, all others except mdat are written back compact).
var Registered = map[string]bool{}

// UnknownRegistered: registered types whose registered decoder is DecodeUnknown(SR): they are UnknownBoxes and keep a
// large-size header like any unregistered type.
var UnknownRegistered = map[string]bool{"iods": true}

// CompactLarge rewrites in with every large-size header of a registered non-mdat box replaced by a compact
// one (sizes of the box and of its ancestors adjusted), using the scanner's view of in.
func CompactLarge(in []byte) []byte {
	if !bytes.Contains(in, []byte{0, 0, 0, 1}) {
		return in
	}
	nodes, ok := Scan(in, 0, len(in), 0)
	if !ok || len(nodes) != 1 {
		return in
	}
	any := false
	nodes[0].Walk(func(n *Node) {
		if n.HdrLen == 16 {
			any = true
		}
	})
	if !any {
		return in
	}
	var rebuild func(n *Node) []byte
	rebuild = func(n *Node) []byte {
		compact := n.HdrLen == 16 && n.Type != "mdat" && Registered[n.Type] && !UnknownRegistered[n.Type]
		var o []byte
		if compact {
			o = append(o, 0, 0, 0, 0)
			o = append(o, in[n.Off+4:n.Off+8]...)
		} else {
			o = append(o, in[n.Off:n.Off+n.HdrLen]...)
		}
		pos := n.Off + n.HdrLen
		for _, c := range n.Children {
			o = append(o, in[pos:c.Off]...)
			o = append(o, rebuild(c)...)
			pos = c.Off + c.Size
		}
		o = append(o, in[pos:n.Off+n.Size]...)
		if compact || n.HdrLen == 8 {
			binary.BigEndian.PutUint32(o, uint32(len(o)))
		} else {
			binary.BigEndian.PutUint64(o[8:], uint64(len(o)))
		}
		return o
	}
	return rebuild(nodes[0])
}

// NormaliseMoov applies the second listed normalisation to a top-level moov box: MoovBox.AddChild inserts a
// trak behind the last trak when that one is neither the first nor the last child so far.
func NormaliseMoov(in []byte) []byte {
	if len(in) < 8 || string(in[4:8]) != "moov" {
		return in
	}
	nodes, ok := Scan(in, 0, len(in), 0)
	if !ok || len(nodes) != 1 || nodes[0].HdrLen != 8 {
		return in
	}
	m := nodes[0]
	end := m.Off + m.HdrLen
	for _, c := range m.Children {
		if c.Off != end {
			return in
		}
		end = c.Off + c.Size
	}
	if end != m.Off+m.Size {
		return in
	}
	var cs []*Node
	for _, c := range m.Children {
		if c.Type == "trak" {
			last := 0
			for i, x := range cs {
				if x.Type == "trak" {
					last = i
				}
			}
			if last != 0 && last != len(cs)-1 {
				cs = append(cs[:last+2], cs[last+1:]...)
				cs[last+1] = c
				continue
			}
		}
		cs = append(cs, c)
	}
	o := append([]byte{}, in[:8]...)
	for _, c := range cs {
		o = append(o, in[c.Off:c.Off+c.Size]...)
	}
	return o
}

// ---------------------------------------------------------------- mutations

// Mutate returns structured mutants of box b (a complete box with a compact header).
func Mutate(r *hx.Rng, b []byte, n int) [][]byte {
	var out [][]byte
	add := func(m []byte) { out = append(out, m) }
	size := len(b)
	for i := 0; i < n; i++ {
		m := append([]byte{}, b...)
		switch r.Intn(12) {
		case 0: // version 0..3
			if size > 8 {
				m[8] = byte(r.Intn(4))
			}
		case 1: // flag bits
			if size > 11 {
				m[9+r.Intn(3)] ^= 1 << uint(r.Intn(8))
			}
		case 2: // random byte anywhere in the body
			if size > 8 {
				m[8+r.Intn(size-8)] = byte(r.U64())
			}
		case 3: // a 32-bit count-like field +-1
			if size >= 16 {
				p := 8 + 4*r.Intn((size-8)/4)
				v := binary.BigEndian.Uint32(m[p:])
				if r.Bool() {
					v++
				} else {
					v--
				}
				binary.BigEndian.PutUint32(m[p:], v)
			}
		case 4: // large-size header
			lm := make([]byte, 0, size+8)
			lm = append(lm, 0, 0, 0, 1)
			lm = append(lm, b[4:8]...)
			var s8 [8]byte
			binary.BigEndian.PutUint64(s8[:], uint64(size+8))
			lm = append(lm, s8[:]...)
			lm = append(lm, b[8:]...)
			m = lm
		case 5: // trailing bytes inside the box
			k := r.Range(1, 9)
			m = append(m, r.Bytes(k, nil)...)
			binary.BigEndian.PutUint32(m, uint32(len(m)))
		case 6: // truncated body, header size adjusted
			if size > 9 {
				k := r.Range(1, min(size-8, 12))
				m = m[:size-k]
				binary.BigEndian.PutUint32(m, uint32(len(m)))
			}
		case 7: // truncated slice, header untouched
			if size > 9 {
				m = m[:size-r.Range(1, min(size-8, 12))]
			}
		case 8: // header size field +-k, slice unchanged
			d := r.Range(1, 8)
			if r.Bool() {
				binary.BigEndian.PutUint32(m, uint32(size+d))
			} else if size-d >= 8 {
				binary.BigEndian.PutUint32(m, uint32(size-d))
			}
		case 9: // several random bytes (reserved fields get hit)
			for k := 0; k < 4 && size > 8; k++ {
				m[8+r.Intn(size-8)] = byte(r.U64())
			}
		case 10: // 0xff run
			if size > 12 {
				p := 8 + r.Intn(size-8)
				for k := p; k < p+4 && k < size; k++ {
					m[k] = 0xff
				}
			}
		case 11: // zero run
			if size > 12 {
				p := 8 + r.Intn(size-8)
				for k := p; k < p+4 && k < size; k++ {
					m[k] = 0
				}
			}
		}
		add(m)
	}
	return out
}

// MutateDeep mutates a random descendant box in place (sizes of ancestors are kept consistent when the
// mutant has the same length; otherwise the ancestors' size fields are patched).
// TailMutants: the systematic end-of-body family, NOT random (a decoder that drops the read error of its last field, a string
// terminator or a last entry cut off with a consistent header): the last 1..4 bytes cut with the size field adjusted, and the last
// byte inverted.  Applied to one well-formed sample of every box type / generated kind.
func TailMutants(b []byte) [][]byte {
	size := len(b)
	if size < 10 || binary.BigEndian.Uint32(b) != uint32(size) {
		return nil
	}
	var out [][]byte
	for k := 1; k <= 4 && size-k > 8; k++ {
		m := append([]byte{}, b[:size-k]...)
		binary.BigEndian.PutUint32(m, uint32(len(m)))
		out = append(out, m)
	}
	m := append([]byte{}, b...)
	m[size-1] ^= 0xff
	return append(out, m)
}

func MutateDeep(r *hx.Rng, b []byte) []byte {
	nodes, ok := Scan(b, 0, len(b), 0)
	if !ok || len(nodes) == 0 {
		return nil
	}
	var all []*Node
	var parents = map[*Node][]*Node{}
	var rec func(n *Node, ps []*Node)
	rec = func(n *Node, ps []*Node) {
		all = append(all, n)
		parents[n] = ps
		for _, c := range n.Children {
			rec(c, append(append([]*Node{}, ps...), n))
		}
	}
	rec(nodes[0], nil)
	if len(all) < 2 {
		return nil
	}
	t := all[1+r.Intn(len(all)-1)]
	if t.HdrLen != 8 {
		return nil
	}
	sub := b[t.Off : t.Off+t.Size]
	ms := Mutate(r, sub, 1)
	if len(ms) == 0 {
		return nil
	}
	m := ms[0]
	out := append([]byte{}, b[:t.Off]...)
	out = append(out, m...)
	out = append(out, b[t.Off+t.Size:]...)
	d := len(m) - t.Size
	if d != 0 {
		for _, p := range parents[t] {
			if p.HdrLen == 8 {
				binary.BigEndian.PutUint32(out[p.Off:], uint32(p.Size+d))
			}
		}
	}
	return out
}

// Box builds a box with a compact header.
func Box(typ string, body []byte) []byte {
	b := make([]byte, 8, 8+len(body))
	binary.BigEndian.PutUint32(b, uint32(8+len(body)))
	copy(b[4:], typ)
	return append(b, body...)
}

func U32(v uint32) []byte { var b [4]byte; binary.BigEndian.PutUint32(b[:], v); return b[:] }
func U64(v uint64) []byte { var b [8]byte; binary.BigEndian.PutUint64(b[:], v); return b[:] }
func U16(v uint16) []byte { var b [2]byte; binary.BigEndian.PutUint16(b[:], v); return b[:] }
func Cat(parts ...[]byte) []byte {
	var o []byte
	for _, p := range parts {
		o = append(o, p...)
	}
	return o
}
