package bx

import (
	"fmt"

	"verifharness/hx"
)

// STRUCTURED VALID variants of boxes with internal optional / ordered sub-structures.  They are well-formed
// inputs (tier "w"): an accepted one that is not reproduced bit for bit is a VIOLATION, not a known leniency.

// Desc encodes one MPEG-4 descriptor: tag, size-of-instance on sizeLen bytes (1..4, 7 bits each, the leading
// groups may be zero), payload.
func Desc(tag byte, sizeLen int, payload []byte) []byte {
	o := []byte{tag}
	n := len(payload)
	for pos := sizeLen - 1; pos >= 0; pos-- {
		v := byte(n>>uint(7*pos)) & 0x7f
		if pos > 0 {
			v |= 0x80
		}
		o = append(o, v)
	}
	return append(o, payload...)
}

// EsdsOf builds an esds box: ES_Descriptor{flags-dependent fields, DecoderConfig{decSpecific?, inner others}, rest...}
func EsdsOf(sizeLen int, flags byte, decInner [][]byte, rest [][]byte) []byte {
	es := Cat(U16(1), []byte{flags})
	if flags&0x80 != 0 {
		es = append(es, U16(7)...)
	}
	if flags&0x40 != 0 {
		es = Cat(es, []byte{3}, []byte("u:x"))
	}
	if flags&0x20 != 0 {
		es = append(es, U16(9)...)
	}
	dc := Cat([]byte{0x40}, U32(0x15<<24|0x300), U32(128000), U32(96000))
	for _, d := range decInner {
		dc = append(dc, d...)
	}
	es = append(es, Desc(4, sizeLen, dc)...)
	for _, d := range rest {
		es = append(es, d...)
	}
	return Box("esds", Cat(vf(0, 0), Desc(3, sizeLen, es)))
}

func perms(items [][]byte) [][][]byte {
	if len(items) <= 1 {
		return [][][]byte{items}
	}
	var out [][][]byte
	for i := range items {
		rest := append(append([][]byte{}, items[:i]...), items[i+1:]...)
		for _, p := range perms(rest) {
			out = append(out, append([][]byte{items[i]}, p...))
		}
	}
	return out
}

// EsdsVariants: every order of {SLConfig, language descriptor 0x43, IPI pointer 0x09, unknown 0x7f} after the
// DecoderConfigDescriptor (with and without each), decoder-specific info present / absent / behind another
// descriptor inside the DecoderConfig, size-of-size 1..4 bytes, the three optional-field flags of ES_Descriptor.
func EsdsVariants() [][]byte {
	var out [][]byte
	for sl := 1; sl <= 4; sl++ {
		slc := Desc(6, sl, []byte{2})
		lang := Desc(0x43, sl, []byte("eng"))
		ipi := Desc(0x09, sl, U16(5))
		unk := Desc(0x7f, sl, []byte{1, 2, 3, 4, 5})
		dsi := Desc(5, sl, []byte{0x11, 0x90})
		prof := Desc(0x14, sl, []byte{0x29})
		decInners := [][][]byte{{dsi}, {}, {prof, dsi}, {dsi, prof}, {prof}}
		sets := [][][]byte{{}, {slc}, {slc, lang}, {slc, ipi}, {slc, lang, ipi}, {lang}, {lang, ipi}, {slc, unk}, {slc, lang, unk}}
		for _, set := range sets {
			for _, p := range perms(set) {
				for di, dec := range decInners {
					if sl > 1 && di > 1 && len(p) > 1 {
						continue // keep the product small for the long size encodings
					}
					out = append(out, EsdsOf(sl, 0, dec, p))
				}
			}
		}
		for _, fl := range []byte{0x80, 0x40, 0x20, 0xe0, 0x1f} {
			out = append(out, EsdsOf(sl, fl, [][]byte{dsi}, [][]byte{slc}))
			out = append(out, EsdsOf(sl, fl, [][]byte{dsi}, [][]byte{lang, slc}))
		}
		// SLConfig with more data (predefined = 0 form)
		out = append(out, EsdsOf(sl, 0, [][]byte{dsi}, [][]byte{Desc(6, sl, []byte{0, 1, 2, 3, 4, 5, 6, 7, 8})}))
	}
	// inside an mp4a sample entry inside stsd
	mp4a := func(esds []byte, others ...[]byte) []byte {
		body := Cat(make([]byte, 6), U16(1), make([]byte, 8), U16(2), U16(16), make([]byte, 4), U32(48000<<16), esds)
		for _, o := range others {
			body = append(body, o...)
		}
		return Box("mp4a", body)
	}
	e0 := EsdsOf(1, 0, [][]byte{Desc(5, 1, []byte{0x11, 0x90})}, [][]byte{Desc(0x43, 1, []byte("swe")), Desc(6, 1, []byte{2})})
	btrt := Box("btrt", Cat(U32(1), U32(2), U32(3)))
	out = append(out, Box("stsd", Cat(vf(0, 0), U32(1), mp4a(e0, btrt))), Box("stsd", Cat(vf(0, 0), U32(1), mp4a(e0))), mp4a(e0, btrt))
	return out
}

// GenEsds: a random valid esds of the same family.
func GenEsds(r *hx.Rng) []byte {
	sl := r.Range(1, 4)
	pool := [][]byte{Desc(6, sl, []byte{2}), Desc(0x43, sl, []byte("eng")), Desc(0x09, sl, U16(uint16(r.Intn(9)))),
		Desc(byte(r.Range(0x40, 0xfe)), r.Range(1, 4), r.Bytes(r.Intn(9), nil))}
	var rest [][]byte
	for _, i := range Perm(r, len(pool)) {
		if r.Bool() {
			rest = append(rest, pool[i])
		}
	}
	var dec [][]byte
	if r.Intn(4) != 0 {
		dec = append(dec, Desc(5, r.Range(1, 4), r.Bytes(r.Range(2, 6), nil)))
	}
	if r.Intn(4) == 0 {
		dec = append([][]byte{Desc(0x14, 1, []byte{byte(r.U64())})}, dec...)
	}
	return EsdsOf(sl, byte(r.Pick(0, 0, 0, 0x80, 0x40, 0x20, 0xe0))|byte(r.Intn(32)), dec, rest)
}

// SampleEntryVariants: a visual sample entry with its optional children in every order (avcC first / last /
// in between; btrt pasp colr clap and an unknown box).
func SampleEntryVariants() [][]byte {
	prefix := func(name string) []byte {
		cn := []byte("mp4ff")
		return Cat(make([]byte, 6), U16(1), make([]byte, 16), U16(1280), U16(720), U32(0x480000), U32(0x480000),
			make([]byte, 4), U16(1), []byte{byte(len(cn))}, cn, make([]byte, 31-len(cn)), U16(0x18), U16(0xffff))
	}
	avcC := Box("avcC", []byte{1, 100, 0, 31, 0xff, 0xe1, 0, 4, 0x67, 100, 0, 31, 1, 0, 2, 0x68, 0xee, 0xfc, 0xf8, 0xf8, 0})
	kids := [][]byte{avcC, Box("btrt", Cat(U32(1), U32(2), U32(3))), Box("pasp", Cat(U32(1), U32(1))),
		Box("colr", Cat([]byte("nclx"), U16(1), U16(1), U16(1), []byte{0x80})), Box("zzzz", []byte{1, 2, 3})}
	var out [][]byte
	for _, p := range perms(kids) {
		out = append(out, Box("avc1", Cat(prefix("avc1"), Cat(p...))))
	}
	for _, p := range perms(kids[:3]) {
		out = append(out, Box("stsd", Cat(vf(0, 0), U32(1), Box("encv", Cat(prefix("encv"), Cat(p...),
			Box("sinf", Cat(Box("frma", []byte("avc1")), Box("schm", Cat(vf(0, 0), []byte("cenc"), U32(0x10000))))))))))
	}
	out = append(out, Box("clap", Cat(U32(1), U32(1), U32(2), U32(1), U32(3), U32(1), U32(4), U32(1))))
	return out
}

// SgpdUuidVariants: sgpd of every version with several entries / grouping types, uuid of the known sub-types.
func SgpdUuidVariants() [][]byte {
	fb := func(typ string, version byte, flags uint32, rest ...[]byte) []byte {
		return Box(typ, Cat(append([][]byte{vf(version, flags)}, rest...)...))
	}
	seig := func(kidByte byte) []byte { return Cat([]byte{0, 0, 1, 8}, hxRepeat(kidByte, 16)) }
	var out [][]byte
	out = append(out,
		fb("sgpd", 1, 0, []byte("seig"), U32(20), U32(2), seig(1), seig(2)),
		fb("sgpd", 1, 0, []byte("seig"), U32(20), U32(0)),
		fb("sgpd", 2, 0, []byte("seig"), U32(1), U32(1), seig(3)),
		fb("sgpd", 1, 0, []byte("roll"), U32(2), U32(3), U16(1), U16(0xffff), U16(0)),
		fb("sgpd", 1, 0, []byte("rap "), U32(1), U32(2), []byte{0x80}, []byte{0x05}),
	)
	tfxd := []byte{0x6d, 0x1d, 0x9b, 0x05, 0x42, 0xd5, 0x44, 0xe6, 0x80, 0xe2, 0x14, 0x1d, 0xaf, 0xf7, 0x57, 0xb2}
	tfrf := []byte{0xd4, 0x80, 0x7e, 0xf2, 0xca, 0x39, 0x46, 0x95, 0x8e, 0x54, 0x26, 0xcb, 0x9e, 0x46, 0xa7, 0x9f}
	out = append(out,
		Box("uuid", Cat(tfxd, vf(0, 0), U32(10), U32(20))), Box("uuid", Cat(tfxd, vf(1, 0), U64(1<<33), U64(20))),
		Box("uuid", Cat(tfrf, vf(0, 0), []byte{2}, U32(1), U32(2), U32(3), U32(4))),
		Box("uuid", Cat(tfrf, vf(1, 0), []byte{1}, U64(1<<33), U64(2))),
		Box("uuid", Cat(tfrf, vf(1, 0), []byte{0})),
	)
	return out
}

func hxRepeat(b byte, n int) []byte {
	o := make([]byte, n)
	for i := range o {
		o[i] = b
	}
	return o
}

// ---------------------------------------------------------------- where in an esds payload a byte lies

type descSpan struct {
	label      string
	start, end int
}

func scanDescs(b []byte, off, end int, path string, depth int, spans *[]descSpan) {
	for off < end {
		tag := b[off]
		p := off + 1
		size := 0
		ok := false
		for p < end {
			v := b[p]
			p++
			size = size<<7 | int(v&0x7f)
			if v&0x80 == 0 {
				ok = true
				break
			}
		}
		name := map[byte]string{3: "ES", 4: "DecConfig", 5: "DecSpecific", 6: "SLConfig"}[tag]
		if name == "" {
			name = "Other"
		}
		lbl := path + name
		*spans = append(*spans, descSpan{lbl + ".tag", off, off + 1}, descSpan{lbl + ".size", off + 1, p})
		if !ok || p+size > end {
			*spans = append(*spans, descSpan{lbl + ".truncated", p, end})
			return
		}
		switch {
		case tag == 3 && depth < 4:
			fl := 0
			if p+3 <= end {
				fl = int(b[p+2])
			}
			h := 3
			if fl&0x80 != 0 {
				h += 2
			}
			if fl&0x40 != 0 && p+h < end {
				h += 1 + int(b[p+h])
			}
			if fl&0x20 != 0 {
				h += 2
			}
			if h > size {
				h = size
			}
			*spans = append(*spans, descSpan{lbl + ".fields", p, p + h})
			scanDescs(b, p+h, p+size, lbl+"/", depth+1, spans)
		case tag == 4 && depth < 4 && size >= 13:
			*spans = append(*spans, descSpan{lbl + ".fields", p, p + 13})
			scanDescs(b, p+13, p+size, lbl+"/", depth+1, spans)
		default:
			*spans = append(*spans, descSpan{lbl + ".data", p, p + size})
		}
		off = p + size
	}
}

// EsdsWhere names the part of an esds box (complete box bytes) in which offset pos lies.
func EsdsWhere(box []byte, pos int) string {
	if pos < 8 {
		return "header"
	}
	if pos < 12 {
		return "version-flags"
	}
	var spans []descSpan
	func() {
		defer func() { _ = recover() }()
		scanDescs(box, 12, len(box), "", 0, &spans)
	}()
	for _, s := range spans {
		if pos >= s.start && pos < s.end {
			return s.label
		}
	}
	return fmt.Sprintf("tail")
}

// Stage5Variants: structured VALID boxes of the kinds added in the third extension round: the WebVTT family (string
// boxes, vtte, vsid, vttc containers), ilst with GenericContainerBox items, and MetaBox in both forms (ISO: version and
// flags first; QuickTime: the hdlr box first), alone and nested, with short payloads and a large-size header.
func Stage5Variants() [][]byte {
	fb := func(typ string, version byte, flags uint32, rest ...[]byte) []byte {
		return Box(typ, Cat(append([][]byte{vf(version, flags)}, rest...)...))
	}
	hdlr := func(ht string, name string) []byte {
		return fb("hdlr", 0, 0, U32(0), []byte(ht), make([]byte, 12), []byte(name))
	}
	large := func(typ string, body []byte) []byte {
		return Cat(U32(1), []byte(typ), U64(uint64(16+len(body))), body)
	}
	var out [][]byte
	for _, t := range []string{"vttC", "vlab", "ctim", "iden", "sttg", "payl", "vtta"} {
		out = append(out, Box(t, nil), Box(t, []byte("WEBVTT")), Box(t, []byte("line:1 position:50%\x00\xff")))
	}
	out = append(out, Box("vtte", nil), Box("vsid", U32(7)), Box("vsid", U32(0xfffffffe)))
	out = append(out,
		Box("vttc", nil),
		Box("vttc", Cat(Box("vsid", U32(1)), Box("iden", []byte("c1")), Box("ctim", []byte("00:01")), Box("sttg", []byte("a")), Box("payl", []byte("text")))),
		Box("vttc", Cat(Box("payl", []byte("x")), Box("zzzz", []byte{1}), Box("vtte", nil))),
		Box("ilst", nil),
		Box("ilst", Cat(Box("\xa9too", Box("free", []byte("Lavf"))), Box("\xa9nam", nil), Box("\xa9ART", Box("zzzz", []byte{1, 2})), Box("\xa9cpy", nil), Box("desc", Box("skip", nil)))),
	)
	h1, h2 := hdlr("mdir", "\x00"), hdlr("mdta", "n\x00")
	ilst := Box("ilst", Box("\xa9too", Box("free", []byte("Lavf58"))))
	for _, kids := range [][]byte{nil, h1, Cat(h1, ilst), Cat(h2, Box("free", make([]byte, 5))), Cat(ilst, h1), Box("free", nil), Cat(Box("free", []byte("hdlr")), h1)} {
		out = append(out, Box("meta", Cat(vf(0, 0), kids)), Box("meta", Cat(vf(1, 0x7), kids)), Box("meta", kids)) // ISO, ISO, QuickTime (when hdlr comes first)
		out = append(out, large("meta", Cat(vf(0, 0), kids)), large("meta", kids))
		out = append(out, Box("udta", Box("meta", Cat(vf(0, 0), kids))), Box("udta", Cat(Box("meta", kids), Box("free", nil))))
	}
	// data (iTunes value atom: type indicator, locale, value), mime, the wvtt sample entry with its children
	data := func(typ, loc uint32, v string) []byte { return Box("data", Cat(U32(typ), U32(loc), []byte(v))) }
	out = append(out, data(1, 0, "Lavf58.29.100"), data(1, 0, ""), data(21, 0, "\x00\x07"), data(13, 0x656e, "\xff\xd8\xff"), data(0, 0, "x"),
		Box("ilst", Cat(Box("\xa9too", data(1, 0, "Lavf")), Box("\xa9nam", data(1, 0, "title")), Box("\xa9ART", data(1, 0, "a")), Box("\xa9cpy", data(1, 0, "c")))),
		Box("udta", Box("meta", Cat(vf(0, 0), h1, Box("ilst", Box("\xa9too", data(1, 0, "Lavf58.76.100")))))),
		Box("udta", Box("meta", Cat(h1, Box("ilst", Box("\xa9too", data(1, 0, "enc")))))),
		fb("mime", 0, 0, []byte("text/plain\x00")), fb("mime", 0, 0, []byte("image/png")), fb("mime", 1, 5, []byte("a\x00b\x00")), fb("mime", 0, 0, []byte("\x00")),
	)
	// AC-3 / E-AC-3 specific boxes: dac3 with and without initial zero bytes, dec3 with one and two substreams (with and
	// without dependent substreams / ChanLoc) and trailing Reserved bytes, inside their sample entries as well
	dac3, dec3 := Box("dac3", []byte{0x10, 0x3d, 0x40}), Box("dec3", []byte{0x07, 0xc0, 0x20, 0x0f, 0x00})
	out = append(out, dac3, Box("dac3", []byte{0, 0, 0x50, 0x11, 0xff}), dec3,
		Box("dec3", []byte{0x0c, 0x01, 0x20, 0x0f, 0x03, 0x21, 0x60, 0x8e, 0x00}), Box("dec3", []byte{0x07, 0xc0, 0x20, 0x0f, 0x00, 0x01, 0x02}))
	ase := func(typ string, kid []byte) []byte {
		return Box(typ, Cat(make([]byte, 6), U16(1), make([]byte, 8), U16(2), U16(16), make([]byte, 4), U16(48000), U16(0), kid))
	}
	out = append(out, ase("ac-3", dac3), ase("ec-3", dec3), ase("ec-3", Cat(dec3, Box("btrt", Cat(U32(1), U32(2), U32(3))))))
	wv := func(r6 []byte, dri uint16, kids ...[]byte) []byte { return Box("wvtt", Cat(r6, U16(dri), Cat(kids...))) }
	z6 := make([]byte, 6)
	vttC, vlab, btrt := Box("vttC", []byte("WEBVTT")), Box("vlab", []byte("source")), Box("btrt", Cat(U32(1), U32(2), U32(3)))
	out = append(out, wv(z6, 1), wv(z6, 1, vttC), wv(z6, 2, vttC, vlab, btrt), wv(z6, 1, btrt, vttC), wv([]byte{1, 2, 3, 4, 5, 6}, 1, vttC),
		wv(z6, 1, vttC, Box("free", nil), Box("zzzz", []byte{7})),
		Box("stsd", Cat(vf(0, 0), U32(1), wv(z6, 1, vttC, vlab))), large("wvtt", Cat(z6, U16(1), vttC)))
	// an ISO meta whose bytes 4..8 of the payload are not "hdlr" although the first child is a hdlr; payloads below 8 bytes
	out = append(out, Box("meta", vf(0, 0)), Box("meta", []byte{0, 0}), Box("meta", Cat(vf(0, 0), []byte{0, 0, 0})),
		Box("meta", Cat([]byte("hdlr"), h1)), Box("meta", Cat(U32(33), []byte("hdlr"))))
	return out
}

// ---------------------------------------------------------------- senc: structured per-sample layouts

// SencBodies returns the bodies (version/flags, sample_count, per-sample data) of WELL-FORMED sample encryption
// boxes with the layouts real packagers write, exhaustively for 1..3 samples and 0..2 sub-sample entries per sample
// (sub-sample flag 0x2), plus the same IV layouts without sub-sample encryption.  The per-sample IV is
//   16 bytes = 64-bit IV followed by a zero 64-bit block counter (the commonest layout), the same with a small
//   counter, a small 64-bit IV (a sample number) + zero counter, an opaque 16-byte value; 8 bytes opaque / small.
// Sub-sample entries come with small values (clear 0..1, protected 0..2) and with realistic ones.  Decoded WITHOUT
// knowledge of the IV size (segment without init, tenc with per-sample IV size 0) the box has to be read by trial
// (IV size 0, 8, 16): many of these bodies admit a shorter reading for a while (the 8-byte trial sees the zero
// counter as sub-sample count 0 and walks through sample_count samples with bytes left over) before the right one
// fits.  Whatever reading wins, the box must be written back as it was read.
func SencBodies() [][]byte {
	b, _ := sencBodiesIV()
	return b
}

// sencBodiesIV: the bodies and the per-sample IV size each was written with.
func sencBodiesIV() (out [][]byte, ivSize []int) {
	iv := func(kind, i int) []byte {
		hi := []byte{0xa1 + byte(16*i), 0xa2, 0xa3, 0xa4, 0xa5, 0xa6, 0xa7, 0xa8 + byte(i)}
		lo := []byte{0, 0, 0, 0, 0, 0, 0, byte(i + 1)}
		switch kind {
		case 0:
			return Cat(hi, make([]byte, 8))
		case 1:
			return Cat(hi, []byte{0, 0, 0, 0, 0, 0, 0, byte(i + 1)})
		case 2:
			return Cat(lo, make([]byte, 8))
		case 3:
			return []byte{0x01, 0x23, 0x45, 0x67, 0x89, 0xab, 0xcd, 0xef, 0xfe, 0xdc, 0xba, 0x98, 0x76, 0x54, 0x32, 0x10 + byte(i)}
		case 4:
			return hi
		}
		return lo
	}
	const nKinds = 6
	add := func(kind int, b []byte) {
		out = append(out, b)
		ivSize = append(ivSize, len(iv(kind, 0)))
	}
	for kind := 0; kind < nKinds; kind++ {
		for n := 1; n <= 3; n++ {
			var raw []byte
			for i := 0; i < n; i++ {
				raw = append(raw, iv(kind, i)...)
			}
			add(kind, Cat(vf(0, 0), U32(uint32(n)), raw))
			total := 1
			for i := 0; i < n; i++ {
				total *= 3
			}
			for style := 0; style < 2; style++ {
				for t := 0; t < total; t++ {
					raw = nil
					for i, q := 0, t; i < n; i, q = i+1, q/3 {
						k := q % 3
						raw = Cat(raw, iv(kind, i), U16(uint16(k)))
						for j := 0; j < k; j++ {
							if style == 0 {
								raw = Cat(raw, U16(uint16((i+j)%2)), U32(uint32((i+2*j)%3)))
							} else {
								raw = Cat(raw, U16(uint16(5+9*j)), U32(uint32(100+1000*i+j)))
							}
						}
					}
					add(kind, Cat(vf(0, 2), U32(uint32(n)), raw))
				}
			}
		}
	}
	return
}

var piffSencUUID = []byte{0xa2, 0x39, 0x4f, 0x52, 0x5a, 0x9b, 0x4f, 0x14, 0xa2, 0x44, 0x6c, 0x42, 0x7c, 0x64, 0x8d, 0xf4}

// SencVariants: the bodies of SencBodies as stand-alone senc boxes and (every third) as PIFF uuid boxes.
func SencVariants() [][]byte {
	var out [][]byte
	for i, b := range SencBodies() {
		out = append(out, Box("senc", b))
		if i%3 == 0 {
			out = append(out, Box("uuid", Cat(piffSencUUID, b)))
		}
	}
	return out
}

// SencFiles: the bodies of SencBodies inside moof/traf of whole files in which the file decoder parses the senc box
// (TrafBox.ParseReadSenc): a segment without init (IV size unknown), a PIFF uuid senc in a segment with styp, and
// behind an init segment whose enca entry carries sinf/schi/tenc with per-sample IV size 0 + constant IV (unknown
// again) or with the size the box was written with (known).
func SencFiles() [][]byte {
	ftyp := Box("ftyp", Cat([]byte("isom"), U32(512), []byte("isommp41")))
	styp := Box("styp", Cat([]byte("msdh"), U32(0), []byte("msdhmsix")))
	mvex := Box("mvex", Box("trex", Cat(vf(0, 0), U32(1), U32(1), U32(1024), U32(0), U32(0))))
	mdat := mdatBox([]byte{1, 2, 3, 4, 5, 6, 7, 8, 9, 10, 11, 12, 13, 14, 15, 16, 17, 18, 19, 20})
	enca := func(tencBody []byte) []byte {
		sinf := Box("sinf", Cat(Box("frma", []byte("mp4a")), Box("schm", Cat(vf(0, 0), []byte("cenc"), U32(0x10000))),
			Box("schi", Box("tenc", Cat(vf(0, 0), tencBody)))))
		return Box("enca", Cat(make([]byte, 6), U16(1), make([]byte, 8), U16(2), U16(16), make([]byte, 4), U16(48000), U16(0), sinf))
	}
	kid := hxRepeat(7, 16)
	init0 := Cat(ftyp, ChainMoov(0, 1, enca(Cat([]byte{0, 0, 1, 0}, kid, []byte{8}, hxRepeat(9, 8))), mvex))
	init8 := Cat(ftyp, ChainMoov(0, 1, enca(Cat([]byte{0, 0, 1, 8}, kid)), mvex))
	init16 := Cat(ftyp, ChainMoov(0, 1, enca(Cat([]byte{0, 0, 1, 16}, kid)), mvex))
	var out [][]byte
	bodies, ivSize := sencBodiesIV()
	for i, b := range bodies {
		senc := Box("senc", b)
		out = append(out, Cat(simpleMoof(1, 1, senc), mdat))
		out = append(out, Cat(init0, simpleMoof(1, 1, senc), mdat))
		switch {
		case i%3 == 0:
			out = append(out, Cat(styp, simpleMoof(1, 1, Box("uuid", Cat(piffSencUUID, b))), mdat))
		case ivSize[i] == 8:
			out = append(out, Cat(init8, simpleMoof(1, 1, senc), mdat))
		default:
			out = append(out, Cat(init16, simpleMoof(1, 1, senc), mdat))
		}
	}
	return out
}
