// Harness for C01 (decode then encode is lossless outside reserved fields, and a fixed point).
//   c01 corr   -seed S -n N -kinds a,b,..          cases + implementation observables for the model diff
//   c01 search -seed S -n N -dontcare file         the property itself on the implementation (all box types)
//   c01 worker -dontcare file                      (internal) evaluates cases read from stdin
package main

import (
	"bufio"
	"bytes"
	"flag"
	"fmt"
	"io"
	"os"
	"os/exec"
	"sort"
	"strings"
	"time"

	"github.com/Eyevinn/mp4ff/mp4"
	"verifharness/c01/bx"
	"verifharness/hx"
)

var out = bufio.NewWriterSize(os.Stdout, 1<<20)

func main() {
	if len(os.Args) < 2 {
		fmt.Fprintln(os.Stderr, "usage: c01 corr|search|worker ...")
		os.Exit(2)
	}
	fs := flag.NewFlagSet(os.Args[1], flag.ExitOnError)
	seed := fs.Uint64("seed", 0, "")
	n := fs.Int("n", 1000, "")
	kinds := fs.String("kinds", "", "modelled box types (comma separated)")
	dcPath := fs.String("dontcare", "/verif/c01_dontcare.json", "")
	repo := fs.String("repo", "/repo", "")
	mode := fs.String("prop", "c01", "c01|c02: which oracle the worker evaluates")
	nfile := fs.Int("nfile", -1, "whole-file cases (default n/6)")
	_ = fs.Parse(os.Args[2:])
	defer out.Flush()
	switch os.Args[1] {
	case "corr":
		if *nfile < 0 {
			*nfile = *n / 6
		}
		corr(*seed, *n, *nfile, strings.Split(*kinds, ","), *repo)
	case "search":
		search(*seed, *n, *dcPath, *repo, *mode, *kinds)
	case "worker":
		worker(*dcPath, *mode, strings.Split(*kinds, ","))
	case "hist":
		// histogram of the registered box types in the harvested pool that the model does not cover
		modelled := map[string]bool{}
		for _, k := range strings.Split(*kinds, ",") {
			modelled[k] = true
		}
		reg := registered()
		cnt := map[string]int{}
		for _, h := range bx.Harvest(*repo, 300000) {
			if reg[h.Type] && !modelled[h.Type] {
				cnt[h.Type]++
			}
		}
		var ks []string
		for k := range cnt {
			ks = append(ks, k)
		}
		sort.Slice(ks, func(i, j int) bool { return cnt[ks[i]] > cnt[ks[j]] || (cnt[ks[i]] == cnt[ks[j]] && ks[i] < ks[j]) })
		for _, k := range ks {
			fmt.Fprintf(out, "HIST\t%s\t%d\n", k, cnt[k])
		}
	case "types":
		r, s := mp4.VerifC01BoxTypes()
		fmt.Fprintln(out, strings.Join(r, ","))
		fmt.Fprintln(out, strings.Join(s, ","))
	}
}

func registered() map[string]bool {
	m := map[string]bool{}
	r, s := mp4.VerifC01BoxTypes()
	for _, k := range r {
		m[k] = true
	}
	for _, k := range s {
		m[k] = true
	}
	return m
}

// onlyModelled: every box the scanner sees in b is either modelled or not registered at all in mp4ff
func onlyModelled(b []byte, modelled, reg map[string]bool) bool {
	if len(b) < 8 {
		return true
	}
	// conservative: the name of a registered, unmodelled type anywhere in the bytes (the scanner does not see
	// a child whose size field no longer tiles, the decoder still dispatches on its name)
	var textual [][2]int // bodies of boxes that carry four-character codes as data
	if nodes, _ := bx.Scan(b, 0, len(b), 0); true {
		for _, n := range nodes {
			n.Walk(func(m *bx.Node) {
				switch m.Type {
				case "hdlr", "ftyp", "styp", "frma", "schm":
					textual = append(textual, [2]int{m.Off + 8, m.Off + m.Size})
				}
			})
		}
	}
	for t := range reg {
		if modelled[t] {
			continue
		}
		for from := 0; ; {
			i := bytes.Index(b[from:], []byte(t))
			if i < 0 {
				break
			}
			i += from
			inText := false
			for _, r := range textual {
				if i >= r[0] && i < r[1] {
					inText = true
				}
			}
			if !inText {
				return false
			}
			from = i + 1
		}
	}
	if t := string(b[4:8]); reg[t] && !modelled[t] {
		return false
	}
	for _, t := range bx.AllTypes(b) {
		if reg[t] && !modelled[t] {
			return false
		}
	}
	return true
}

func observe(in []byte) string {
	s, _ := observeEnc(in)
	return s
}

// observeEnc: the observables of one slice and, when Box.Encode succeeded, the bytes it wrote (the second generation's input)
func observeEnc(in []byte) (string, []byte) {
	b, used, oc, _ := bx.DecodeSR(in)
	if oc != "ok" {
		return "dec=" + oc, nil
	}
	var size uint64
	p := hx.Try(func() { size = b.Size() })
	if p != "" {
		return "dec=ok;sizepanic", nil
	}
	ew, ewo, _ := bx.EncodeW(b)
	es, eso, _ := bx.EncodeSW(b)
	f := func(o string, bs []byte) string {
		if o == "ok" {
			return "ok:" + hx.Hex(bs)
		}
		return o
	}
	if ewo != "ok" {
		ew = nil
	}
	return fmt.Sprintf("dec=ok;used=%d;size=%d;encw=%s;encsw=%s", used, size, f(ewo, ew), f(eso, es)), ew
}

// fileCases: whole files for DecodeFileSR -- hand-built ones, every testdata file (mdat payloads cut to 16 bytes when the
// file is above 20000 bytes), random top-level sequences of pooled / generated boxes, and mutants of the top-level
// sequence of all of them; accept filters (modelled types only) or is nil.
func fileCases(r *hx.Rng, repo string, n int, hv []bx.Harvested, maxLen int, accept func([]byte) bool) (cases [][]byte, origin []string) {
	add := func(b []byte, o string) {
		if len(b) == 0 || len(b) > maxLen || (accept != nil && !accept(b)) {
			return
		}
		cases = append(cases, b)
		origin = append(origin, o)
	}
	for _, f := range bx.FixedFiles() {
		add(f, "file-fixed")
		for _, m := range bx.MutateFile(r, f, 2) {
			add(m, "file-fixed-mut")
		}
	}
	files, _ := bx.TestdataFiles(repo, maxLen, true)
	for _, f := range files {
		add(f, "file-testdata")
		for _, m := range bx.MutateFile(r, f, 2) {
			add(m, "file-testdata-mut")
		}
	}
	pool := bx.FilePool(hv, 4000, accept)
	for len(cases) < n {
		f := bx.GenFile(r, pool)
		add(f, "file-gen")
		for _, m := range bx.MutateFile(r, f, 2) {
			add(m, "file-gen-mut")
		}
	}
	return
}

func corr(seed uint64, n int, nfile int, kinds []string, repo string) {
	modelled := map[string]bool{}
	for _, k := range kinds {
		if k != "" {
			modelled[k] = true
		}
	}
	reg := registered()
	r := hx.NewRng(seed)
	var cases [][]byte
	var origin []string
	add := func(b []byte, o string) {
		if b == nil || len(b) > 20000 {
			return
		}
		if !onlyModelled(b, modelled, reg) {
			return
		}
		cases = append(cases, b)
		origin = append(origin, o)
	}
	hv := bx.Harvest(repo, 20000)
	perType := map[string]int{}
	nh := 0
	for _, h := range hv {
		if !onlyModelled(h.Data, modelled, reg) {
			continue
		}
		perType[h.Type]++
		if perType[h.Type] > 8+n/100 {
			continue
		}
		nh++
		add(h.Data, "harvest")
		if perType[h.Type] <= 2 {
			for _, m := range bx.TailMutants(h.Data) {
				add(m, "harvest-tail")
			}
		}
		for _, m := range bx.Mutate(r, h.Data, 3) {
			add(m, "harvest-mut")
		}
		if m := bx.MutateDeep(r, h.Data); m != nil {
			add(m, "harvest-deep")
		}
	}
	// structured valid variants (child permutations of sample entries, ...) that consist of modelled types
	for _, set := range [][][]byte{bx.SampleEntryVariants(), bx.SgpdUuidVariants(), bx.EsdsVariants(), bx.Stage5Variants()} {
		for k, b := range set {
			if k%4 == int(seed%4) || n > 50000 {
				add(b, "structured")
				if len(cases)%2 == 0 {
					for _, m := range bx.Mutate(r, b, 1) {
						add(m, "structured-mut")
					}
				}
			}
		}
	}
	// one well-formed leaf of every generated kind with its end-of-body family
	for _, k := range bx.GenKinds {
		b := bx.GenLeaf(r, k)
		add(b, "gen")
		for _, m := range bx.TailMutants(b) {
			add(m, "gen-tail")
		}
	}
	for i := 0; len(cases) < n; i++ {
		var b []byte
		if i%3 == 2 {
			b = bx.GenTree(r)
		} else {
			b = bx.GenLeaf(r, bx.GenKinds[r.Intn(len(bx.GenKinds))])
		}
		add(b, "gen")
		for _, m := range bx.Mutate(r, b, 2) {
			add(m, "gen-mut")
		}
		if m := bx.MutateDeep(r, b); m != nil {
			add(m, "gen-deep")
		}
	}
	pathdiff := 0
	gen2 := 0
	byOrigin := map[string]int{}
	for i, c := range cases {
		obs, enc := observeEnc(c)
		fmt.Fprintf(out, "C\t%d\t%s\t%s\n", i, hx.Hex(c), obs)
		byOrigin[origin[i]]++
		// second generation: an accepted input that Box.Encode did NOT reproduce (lossy / normalised / reserved bytes rewritten):
		// what the real decoder and encoders do with the bytes they wrote (the model recomputes them from its own output)
		if enc != nil && !bytes.Equal(enc, c) {
			fmt.Fprintf(out, "G\tg%d\t%s\t%s\n", i, hx.Hex(c), observe(enc))
			gen2++
		}
		// reader path, for the statistics only (path differences are C03's subject)
		_, _, ocR, _ := bx.DecodeR(c)
		if (ocR == "ok") != strings.HasPrefix(obs, "dec=ok") {
			pathdiff++
		}
	}
	// whole files through DecodeFileSR / File.Encode / File.EncodeSW
	fc, fo := fileCases(hx.NewRng(seed+1234), repo, nfile, hv, 20000, func(b []byte) bool { return onlyModelled(b, modelled, reg) })
	for i, c := range fc {
		fobs, fenc := bx.ObserveFileEnc(c)
		fmt.Fprintf(out, "F\tf%d\t%s\t%s\n", i, hx.Hex(c), fobs)
		byOrigin[fo[i]]++
		// second generation of a file that File.Encode did not reproduce: DecodeFileSR / File.Encode / File.EncodeSW on the output
		if fenc != nil && !bytes.Equal(fenc, c) {
			fmt.Fprintf(out, "H\th%d\t%s\t%s\n", i, hx.Hex(c), bx.ObserveFile(fenc))
			gen2++
		}
		_, ocR, _ := bx.DecodeFileR(c)
		if _, ocS, _ := bx.DecodeFileSR(c); ocR != ocS {
			pathdiff++
		}
	}
	var os_ []string
	for k, v := range byOrigin {
		os_ = append(os_, fmt.Sprintf("%s=%d", k, v))
	}
	sort.Strings(os_)
	fmt.Fprintf(os.Stderr, "STATS cases=%d harvested_boxes=%d reader_path_outcome_differs=%d second_generation=%d %s\n", len(cases)+len(fc), nh, pathdiff, gen2, strings.Join(os_, " "))
}

// ---------------------------------------------------------------- search

type wproc struct {
	cmd *exec.Cmd
	in  io.WriteCloser
	rd  *bufio.Reader
}

var workerKinds string

func startWorker(dc, mode string) *wproc {
	self, _ := os.Executable()
	cmd := exec.Command("sh", "-c", fmt.Sprintf("ulimit -v 8000000 2>/dev/null; exec '%s' worker -dontcare '%s' -prop %s -kinds '%s'", self, dc, mode, workerKinds))
	in, _ := cmd.StdinPipe()
	so, _ := cmd.StdoutPipe()
	cmd.Stderr = nil
	if err := cmd.Start(); err != nil {
		fmt.Fprintln(os.Stderr, "cannot start worker:", err)
		os.Exit(3)
	}
	return &wproc{cmd, in, bufio.NewReaderSize(so, 1<<20)}
}

func (w *wproc) stop() {
	_ = w.in.Close()
	_ = w.cmd.Process.Kill()
	_, _ = w.cmd.Process.Wait()
}

func search(seed uint64, n int, dc string, repo string, mode string, kinds string) {
	workerKinds = kinds
	r := hx.NewRng(seed + 77)
	reg := registered()
	hv := bx.Harvest(repo, 300000)
	type cs struct {
		b []byte
		o string
	}
	var cases []cs
	covered := map[string]int{}
	perType := map[string]int{}
	for _, h := range hv {
		perType[h.Type]++
		if perType[h.Type] > 6+n/200 {
			continue
		}
		cases = append(cases, cs{h.Data, "harvest"})
		if perType[h.Type] <= 2 && len(h.Data) <= 4000 {
			for _, m := range bx.TailMutants(h.Data) {
				cases = append(cases, cs{m, "mut"})
			}
		}
		if len(h.Data) <= 4000 {
			k := 2 + n/2000
			for _, m := range bx.Mutate(r, h.Data, k) {
				cases = append(cases, cs{m, "mut"})
			}
			if m := bx.MutateDeep(r, h.Data); m != nil {
				cases = append(cases, cs{m, "deep"})
			}
		}
	}
	for _, s := range bx.Seeds() {
		cases = append(cases, cs{s, "seed"})
		for _, m := range bx.Mutate(r, s, 6+n/500) {
			cases = append(cases, cs{m, "seed-mut"})
		}
	}
	for _, b := range bx.Exhaustive() {
		cases = append(cases, cs{b, "gen"})
	}
	// structured VALID variants of boxes with ordered / optional sub-structures: well-formed inputs
	for _, set := range [][][]byte{bx.EsdsVariants(), bx.SampleEntryVariants(), bx.SgpdUuidVariants(), bx.Stage5Variants()} {
		for _, b := range set {
			cases = append(cases, cs{b, "gen"})
			if len(cases)%3 == 0 {
				for _, m := range bx.Mutate(r, b, 1) {
					cases = append(cases, cs{m, "gen-mut"})
				}
			}
		}
	}
	for i := 0; i < 40+n/100; i++ {
		cases = append(cases, cs{bx.GenEsds(r), "gen"})
	}
	for _, k := range bx.GenKinds {
		b := bx.GenLeaf(r, k)
		cases = append(cases, cs{b, "gen"})
		for _, m := range bx.TailMutants(b) {
			cases = append(cases, cs{m, "gen-mut"})
		}
	}
	// generated boxes and trees always get a share of the budget (at least n/4 of them)
	for i, quota := 0, len(cases)+n/4; len(cases) < n || len(cases) < quota; i++ {
		var b []byte
		if i%3 == 2 {
			b = bx.GenTree(r)
		} else {
			b = bx.GenLeaf(r, bx.GenKinds[r.Intn(len(bx.GenKinds))])
		}
		cases = append(cases, cs{b, "gen"})
		for _, m := range bx.Mutate(r, b, 2) {
			cases = append(cases, cs{m, "gen-mut"})
		}
	}
	for _, b := range bx.SencVariants() { // no randomness: the cases above stay what they were
		cases = append(cases, cs{b, "gen"})
	}
	if mode == "c01" {
		fc, _ := fileCases(hx.NewRng(seed+4321), repo, 60+n/8, hv, 2000000, nil)
		for _, c := range fc {
			cases = append(cases, cs{c, "file"})
		}
		// structured senc layouts inside moof/traf, parsed by the file decoder (TrafBox.ParseReadSenc, outside the model:
		// search only) with unknown / known per-sample IV size; no randomness
		for _, c := range bx.SencFiles() {
			cases = append(cases, cs{c, "file"})
		}
	}
	w := startWorker(dc, mode)
	evals, crashes, accepted := 0, 0, 0
	for i, c := range cases {
		if len(c.b) >= 8 {
			for _, t := range bx.AllTypes(c.b) {
				if reg[t] {
					covered[t]++
				}
			}
		}
		tier := "m"
		if c.o == "harvest" || c.o == "seed" || c.o == "gen" {
			tier = "w"
		}
		if c.o == "file" {
			tier = "F"
		}
		fmt.Fprintf(w.in, "%d\t%s\t%s\n", i, tier, hx.Hex(c.b))
		done := make(chan bool, 1)
		go func() {
			for {
				line, err := w.rd.ReadString('\n')
				if err != nil {
					done <- false
					return
				}
				line = strings.TrimRight(line, "\n")
				if strings.HasPrefix(line, "DONE\t") {
					var id, ev, acc int
					fmt.Sscanf(line, "DONE\t%d\t%d\t%d", &id, &ev, &acc)
					evals += ev
					accepted += acc
					done <- true
					return
				}
				fmt.Fprintln(out, line)
			}
		}()
		okc := false
		select {
		case okc = <-done:
		case <-time.After(20 * time.Second):
		}
		if !okc {
			crashes++
			w.stop()
			t := "????"
			if len(c.b) >= 8 {
				t = string(c.b[4:8])
			}
			hexw := hx.Hex(c.b)
			if len(hexw) > 2000 {
				hexw = hexw[:2000]
			}
			fmt.Fprintf(out, "NOTE\tworker-died-or-hung\t%s\t%s\n", t, hexw)
			w = startWorker(dc, mode)
		}
	}
	w.stop()
	var cov []string
	for t := range reg {
		cov = append(cov, fmt.Sprintf("%s:%d", t, covered[t]))
	}
	sort.Strings(cov)
	fmt.Fprintf(out, "COVER\t%s\n", strings.Join(cov, ","))
	fmt.Fprintf(out, "STAT\tcases=%d accepted=%d worker_crashes=%d\n", len(cases), accepted, crashes)
	fmt.Fprintf(out, "EVALS\t%d\n", evals)
}

func worker(dcPath, mode string, kinds []string) {
	bx.Registered = registered()
	modelled := map[string]bool{}
	for _, k := range kinds {
		if k != "" {
			modelled[k] = true
		}
	}
	dc, err := bx.LoadDontCare(dcPath)
	if err != nil {
		fmt.Fprintln(os.Stderr, "dontcare:", err)
		os.Exit(3)
	}
	rd := bufio.NewReaderSize(os.Stdin, 1<<22)
	for {
		line, err := rd.ReadString('\n')
		if line == "" && err != nil {
			return
		}
		line = strings.TrimRight(line, "\n")
		p := strings.SplitN(line, "\t", 3)
		if len(p) != 3 {
			continue
		}
		in := hx.UnHex(p[2])
		wellFormed := p[1] == "w"
		var fails []bx.Fail
		evals, acc := 0, 0
		w := hx.Hex(in)
		if len(w) > 4000 {
			w = w[:4000] + "..."
		}
		if p[1] == "F" { // a whole file
			boxLevel := 0
			for _, path := range []string{"sr", "reader"} {
				before := evals
				bx.LosslessFile(in, dc, path, &fails, &evals, &boxLevel)
				acc += evals - before
			}
			seenF := map[string]bool{}
			for _, f := range fails {
				if k := f.Site + "/" + f.Class; !seenF[k] {
					seenF[k] = true
					fmt.Fprintf(out, "FAIL\t%s\t%s\t%s\t%s\tM0\t-\n", f.Site, f.Class, f.Witness, strings.ReplaceAll(f.Desc, "\n", " "))
				}
			}
			fmt.Fprintf(out, "DONE\t%s\t%d\t%d\n", p[0], evals, acc)
			out.Flush()
			continue
		}
		for _, path := range []string{"sr", "reader"} {
			dec := bx.DecodeSR
			if path == "reader" {
				dec = bx.DecodeR
			}
			b, used, oc, _ := dec(in)
			if oc != "ok" {
				continue // rejected or crashed: not an accepted input (crashes are C04's subject)
			}
			acc++
			if mode == "c01" {
				bx.Lossless(in, used, b, dec, dc, path, wellFormed, &fails, &evals)
			} else {
				bx.SizeAtEveryNode(b, b.Type(), w, &fails, &evals)
			}
		}
		seen := map[string]bool{}
		for _, f := range fails {
			k := f.Site + "/" + f.Class
			if seen[k] {
				continue
			}
			seen[k] = true
			// what the check may ask the model about: the whole input when it is made of modelled types only,
			// else the failing box alone when that one is
			mflag, q := "M0", "-"
			if len(modelled) > 0 && strings.HasPrefix(f.Class, "mutant-not-reproduced:") {
				if onlyModelled(in, modelled, bx.Registered) && len(in) <= 20000 {
					mflag, q = "M1", hx.Hex(in)
				} else if fb := bx.FailBox[f.Site+"/"+f.Class]; len(fb) >= 8 && len(fb) <= 20000 && onlyModelled(fb, modelled, bx.Registered) {
					mflag, q = "M2", hx.Hex(fb) // the failing box taken out of its context
				}
			}
			fmt.Fprintf(out, "FAIL\t%s\t%s\t%s\t%s\t%s\t%s\n", f.Site, f.Class, f.Witness, strings.ReplaceAll(f.Desc, "\n", " "), mflag, q)
		}
		fmt.Fprintf(out, "DONE\t%s\t%d\t%d\n", p[0], evals, acc)
		out.Flush()
	}
}
