package main

// Stage 1 targets: the length-field NAL-unit walkers of avc and hevc, and the generator of hostile
// samples for them.

import (
	"encoding/binary"
	"strconv"
	"strings"

	"github.com/Eyevinn/mp4ff/avc"
	"github.com/Eyevinn/mp4ff/hevc"
	"verifharness/hx"
)

func nalusString(l [][]byte) string {
	if len(l) == 0 {
		return "[]"
	}
	ss := make([]string, len(l))
	for i, n := range l {
		ss[i] = hx.Hex(n)
	}
	return strings.Join(ss, ",")
}

func b2s(b bool) string {
	if b {
		return "1"
	}
	return "0"
}

func okv(f func() string) (string, func() string) { return "ok", f }

func init() {
	register(
		target{"avc.GetNalusFromSample", true, func(in []byte, arg int) (string, func() string) {
			l, err := avc.GetNalusFromSample(in)
			if err != nil {
				return "err", nil
			}
			return okv(func() string { return nalusString(l) })
		}},
		target{"avc.FindNaluTypes", true, func(in []byte, arg int) (string, func() string) {
			l := avc.FindNaluTypes(in)
			return okv(func() string {
				xs := make([]int, len(l))
				for i, t := range l {
					xs[i] = int(t)
				}
				return hx.Csv(xs)
			})
		}},
		target{"avc.FindNaluTypesUpToFirstVideoNALU", true, func(in []byte, arg int) (string, func() string) {
			l := avc.FindNaluTypesUpToFirstVideoNALU(in)
			return okv(func() string {
				xs := make([]int, len(l))
				for i, t := range l {
					xs[i] = int(t)
				}
				return hx.Csv(xs)
			})
		}},
		target{"avc.ContainsNaluType", true, func(in []byte, arg int) (string, func() string) {
			b := avc.ContainsNaluType(in, avc.NaluType(arg))
			return okv(func() string { return b2s(b) })
		}},
		target{"avc.IsIDRSample", true, func(in []byte, arg int) (string, func() string) {
			b := avc.IsIDRSample(in)
			return okv(func() string { return b2s(b) })
		}},
		target{"avc.HasParameterSets", true, func(in []byte, arg int) (string, func() string) {
			b := avc.HasParameterSets(in)
			return okv(func() string { return b2s(b) })
		}},
		target{"avc.GetParameterSets", true, func(in []byte, arg int) (string, func() string) {
			s, p := avc.GetParameterSets(in)
			return okv(func() string { return nalusString(s) + ";" + nalusString(p) })
		}},
		target{"avc.ConvertSampleToByteStream", true, func(in []byte, arg int) (string, func() string) {
			o := avc.ConvertSampleToByteStream(in)
			return okv(func() string { return hx.Hex(o) })
		}},
		target{"hevc.FindNaluTypes", true, func(in []byte, arg int) (string, func() string) {
			l := hevc.FindNaluTypes(in)
			return okv(func() string {
				xs := make([]int, len(l))
				for i, t := range l {
					xs[i] = int(t)
				}
				return hx.Csv(xs)
			})
		}},
		target{"hevc.FindNaluTypesUpToFirstVideoNalu", true, func(in []byte, arg int) (string, func() string) {
			l := hevc.FindNaluTypesUpToFirstVideoNalu(in)
			return okv(func() string {
				xs := make([]int, len(l))
				for i, t := range l {
					xs[i] = int(t)
				}
				return hx.Csv(xs)
			})
		}},
		target{"hevc.ContainsNaluType", true, func(in []byte, arg int) (string, func() string) {
			b := hevc.ContainsNaluType(in, hevc.NaluType(arg))
			return okv(func() string { return b2s(b) })
		}},
		target{"hevc.IsRAPSample", true, func(in []byte, arg int) (string, func() string) {
			b := hevc.IsRAPSample(in)
			return okv(func() string { return b2s(b) })
		}},
		target{"hevc.IsIDRSample", true, func(in []byte, arg int) (string, func() string) {
			b := hevc.IsIDRSample(in)
			return okv(func() string { return b2s(b) })
		}},
		target{"hevc.HasParameterSets", true, func(in []byte, arg int) (string, func() string) {
			b := hevc.HasParameterSets(in)
			return okv(func() string { return b2s(b) })
		}},
		target{"hevc.GetParameterSets", true, func(in []byte, arg int) (string, func() string) {
			v, s, p := hevc.GetParameterSets(in)
			return okv(func() string { return nalusString(v) + ";" + nalusString(s) + ";" + nalusString(p) })
		}},
	)
}

var walkerTargets = []string{
	"avc.GetNalusFromSample", "avc.FindNaluTypes", "avc.FindNaluTypesUpToFirstVideoNALU",
	"avc.ContainsNaluType", "avc.IsIDRSample", "avc.HasParameterSets", "avc.GetParameterSets",
	"avc.ConvertSampleToByteStream",
	"hevc.FindNaluTypes", "hevc.FindNaluTypesUpToFirstVideoNalu", "hevc.ContainsNaluType",
	"hevc.IsRAPSample", "hevc.IsIDRSample", "hevc.HasParameterSets", "hevc.GetParameterSets",
}

// ---------------------------------------------------------------------------------- generators

// first bytes of NAL units: AVC types 1,5,6,7,8,9,12 (low 5 bits) and HEVC types 1,19,20,21,32,33,34,35,39
// ((b>>1)&0x3f); several values are meaningful under both readings.
var hdrBytes = []byte{0x01, 0x21, 0x41, 0x65, 0x25, 0x06, 0x67, 0x27, 0x68, 0x28, 0x09, 0x0c,
	0x02, 0x26, 0x28, 0x2a, 0x40, 0x42, 0x44, 0x46, 0x4e, 0x00, 0xff, 0x1f, 0x7e}

// genSample builds a length-prefixed sample and returns it with the offsets of its length fields.
func genSample(r *hx.Rng) ([]byte, []int) {
	k := r.Pick(0, 1, 1, 2, 2, 3, 3, 4, 5, 7)
	var s []byte
	var offs []int
	for i := 0; i < k; i++ {
		n := r.Pick(0, 1, 1, 2, 3, 4, 5, 8, 13)
		if r.Intn(40) == 0 {
			n = r.Range(14, 300)
		}
		nalu := r.Bytes(n, nil)
		if n > 0 {
			nalu[0] = hdrBytes[r.Intn(len(hdrBytes))]
		}
		offs = append(offs, len(s))
		var l [4]byte
		binary.BigEndian.PutUint32(l[:], uint32(n))
		s = append(s, l[:]...)
		s = append(s, nalu...)
	}
	return s, offs
}

// hostileLength returns a length value for the field at offset o of a sample of length L.
func hostileLength(r *hx.Rng, o, L int) uint32 {
	rem := L - o - 4
	switch r.Intn(12) {
	case 0:
		return 0
	case 1:
		return 1
	case 2:
		return uint32(rem - 1)
	case 3:
		return uint32(rem)
	case 4:
		return uint32(rem + 1)
	case 5:
		return uint32(rem + r.Range(2, 9))
	case 6:
		return 0x7fffffff - uint32(r.Intn(3))
	case 7:
		return 0x80000000 + uint32(r.Intn(3))
	case 8:
		return 0xffffffff - uint32(r.Intn(10))
	case 9:
		// pos+4+len wraps to a small position (0..L): 2^32 - (o+4) + j
		return uint32(0) - uint32(o+4) + uint32(r.Intn(L+1))
	case 10:
		// wraps exactly to the same field: endless loop on a uint32 cursor
		return 0xfffffffc
	default:
		return uint32(r.U64())
	}
}

func mutateSample(r *hx.Rng, s []byte, offs []int) []byte {
	s = append([]byte{}, s...)
	switch m := r.Intn(100); {
	case m < 25:
		// unchanged (well-formed)
	case m < 40:
		if len(s) > 0 {
			s = s[:r.Intn(len(s))]
		}
	case m < 70:
		if len(offs) > 0 {
			o := offs[r.Intn(len(offs))]
			binary.BigEndian.PutUint32(s[o:], hostileLength(r, o, len(s)))
		}
	case m < 80:
		s = append(s, r.Bytes(r.Range(1, 5), []byte{0, 0, 1, 0xff, 0x67})...)
	case m < 90:
		for i := 0; i < 1+r.Intn(3) && len(s) > 0; i++ {
			s[r.Intn(len(s))] = byte(r.U64())
		}
	default:
		if len(offs) > 0 {
			o := offs[r.Intn(len(offs))]
			binary.BigEndian.PutUint32(s[o:], hostileLength(r, o, len(s)))
			s = s[:r.Range(o, len(s))]
		}
	}
	return s
}

var smallAlphabet = []byte{0x00, 0x01, 0x04, 0xfc, 0xff}

// shortSamples: every string over smallAlphabet up to length maxLen (the short-sample guards), then for
// lengths 5..4+maxTail a hostile 4-byte length field followed by every tail over {00,05,ff}.
func shortSamples(maxLen, maxTail int) [][]byte {
	var all [][]byte
	var rec func(cur []byte)
	rec = func(cur []byte) {
		all = append(all, append([]byte{}, cur...))
		if len(cur) == maxLen {
			return
		}
		for _, b := range smallAlphabet {
			rec(append(cur, b))
		}
	}
	rec(nil)
	fields := []uint32{0, 1, 2, 5, 0x7fffffff, 0x80000000, 0xfffffff7, 0xfffffff8, 0xfffffffb, 0xfffffffc, 0xfffffffd, 0xffffffff}
	tailAlpha := []byte{0x00, 0x05, 0xff}
	for tl := 1; tl <= maxTail; tl++ {
		var tails [][]byte
		var rt func(cur []byte)
		rt = func(cur []byte) {
			if len(cur) == tl {
				tails = append(tails, append([]byte{}, cur...))
				return
			}
			for _, b := range tailAlpha {
				rt(append(cur, b))
			}
		}
		rt(nil)
		for _, f := range fields {
			for _, t := range tails {
				s := make([]byte, 4, 4+tl)
				binary.BigEndian.PutUint32(s, f)
				all = append(all, append(s, t...))
			}
		}
	}
	return all
}

// fixed witnesses of DESIGN Appendix A and of the defects repaired by the fix: commits
var walkerWitnesses = []string{
	"fffffffc0000000000", "-", "0000", "000001", "00000001", "0000000165", "00000005ff",
	"fffffffb00000000000000", "00000000000000000000", "fffffffc67000000", "fffffff8000000004200000000",
}

func argFor(r *hx.Rng, name string, s []byte) int {
	switch name {
	case "avc.ContainsNaluType":
		if len(s) > 4 && r.Bool() {
			return int(s[4] & 0x1f)
		}
		return r.Pick(0, 1, 5, 6, 7, 8, 9, 31)
	case "hevc.ContainsNaluType":
		if len(s) > 4 && r.Bool() {
			return int((s[4] >> 1) & 0x3f)
		}
		return r.Pick(0, 1, 19, 20, 32, 33, 34, 39, 63)
	}
	return 0
}

// walkerCases: the deterministic short samples (every walker on each) + n generated samples.
// Generation is done in rounds (see forRounds): the deterministic part belongs to round 0.
func walkerCases(seed uint64, round, n, total int) []tcase {
	r := hx.NewRng(seed*1000003 + uint64(round))
	var cs []tcase
	add := func(s []byte) {
		for _, name := range walkerTargets {
			cs = append(cs, tcase{name, s, argFor(r, name, s)})
		}
	}
	if round == 0 {
		for _, w := range walkerWitnesses {
			add(hx.UnHex(w))
		}
		maxLen, maxTail := 3, 4
		if total >= 20000 {
			maxLen, maxTail = 5, 6
		}
		for _, s := range shortSamples(maxLen, maxTail) {
			add(s)
		}
	}
	for i := 0; i < n; i++ {
		s, offs := genSample(r)
		add(mutateSample(r, s, offs))
	}
	return cs
}

var _ = strconv.Itoa
