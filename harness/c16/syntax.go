package main

// Structured, field-level generators for the multi-step pipelines (SPS -> PPS -> slice header,
// SPS -> SEI, configuration record -> parameter sets -> slice header).
//
// Layer 1 (fw): a field writer over bitw.  Every syntax element is written through ue/se/u/flag, which
// CHOOSE the value: normally a plausible one, with a per-field probability (or at field indices chosen up
// front: "exactly k hostile fields per unit") a HOSTILE one; the chosen value is returned so that the
// syntax function continues consistently with what it wrote: the stream stays aligned after a hostile value.
// Layer 2 (syn*): syntax functions that write what the Go parsers of /repo READ, in the same order and
// under the same conditions (the parser is followed, not the standard, where they differ: e.g. ue(v) where
// the standard has se(v)).  Range checks of the parsers are NOT modelled as "stop writing": the writer goes
// on as if the value had been accepted (loops driven by a hostile count are capped), so that a parser that
// loses a check finds aligned data behind it.
// Layer 3 (gen*): pipelines made of these units with consistent ids.
//
// All randomness derives from the *hx.Rng handed in.

import (
	"encoding/binary"
	"fmt"
	"os"
	"sort"
	"strconv"
	"strings"

	"github.com/Eyevinn/mp4ff/avc"
	"github.com/Eyevinn/mp4ff/bits"
	"github.com/Eyevinn/mp4ff/hevc"
	"verifharness/hx"
)

// ---------------------------------------------------------------- layer 1: field writer

const (
	modeValid    = iota // no hostile field
	modeHostile1        // exactly one hostile field
	modeHostile2        // exactly two hostile fields
	modeTrunc           // valid, cut at a random byte
	modeProb            // every field hostile with a small probability
	modeGuard           // one count / range field set just above its legal maximum, followed by that many elements
)

type fw struct {
	w       bitw
	r       *hx.Rng // plausible choices
	hr      *hx.Rng // hostile choices (separate stream: the plausible values of the other fields do not move)
	n       int     // fields so far
	kinds   []byte  // per field: 0 = flag / minor, 1 = numeric (recorded for the weighted choice of indices)
	at      map[int]bool
	pm      int // per-mille probability of a hostile field when at == nil
	toolsOn bool
	maxBits int
	full    bool
	maxes   []uint64 // per field: legal maximum of a ue(v) field + 1 (0 = not a ue field)
	guardAt int      // modeGuard: index of the field written as max+1 (-1: none)
	guardV  *uint64  // guard sweep: the exact value written at guardAt (nil: max+1, sometimes a little more)
	chain   int      // > 0: HEVC SPS with this many short-term RPS forming the worst-case inter-prediction chain
	hostile []string // names=values of the hostile fields written (debugging)
	trace   []string // every field (only with structTraceOn)
}

func (f *fw) hostileNow(kind byte) bool {
	i := f.n
	f.n++
	f.kinds = append(f.kinds, kind)
	f.maxes = append(f.maxes, 0)
	if f.at != nil {
		return f.at[i]
	}
	return f.pm > 0 && f.hr.Intn(1000) < f.pm
}

var structTraceOn bool

func (f *fw) tr(name string, v interface{}) {
	if structTraceOn {
		f.trace = append(f.trace, fmt.Sprintf("%s=%v", name, v))
	}
}

func (f *fw) note(name string, v interface{}) {
	f.hostile = append(f.hostile, fmt.Sprintf("%s=%v", name, v))
}

func (f *fw) room(n int) bool {
	if f.full {
		return false
	}
	if len(f.w.bits)+n > f.maxBits {
		f.full = true
		return false
	}
	return true
}

// raw writes bits that are not a field (NAL headers, reserved bits, slice data).
func (f *fw) raw(v uint64, n int) {
	if n > 0 && f.room(n) {
		f.w.put(v, n)
	}
}

func (f *fw) wue(v uint64) {
	if f.room(130) {
		f.w.ue(v)
	}
}

func (f *fw) wse(v int64) {
	if v > 0 {
		f.wue(uint64(2*v - 1))
	} else {
		f.wue(uint64(-2 * v))
	}
}

func (f *fw) plausible(typical []int) int {
	if len(typical) > 0 {
		return typical[f.r.Intn(len(typical))]
	}
	return f.r.Pick(0, 0, 0, 1, 1, 2, 3)
}

// ue writes an unsigned Exp-Golomb field whose legal range is 0..max.
func (f *fw) ue(name string, max uint64, typical ...int) uint64 {
	v := uint64(f.plausible(typical))
	if v > max {
		v = max
	}
	idx := f.n
	if f.hostileNow(1) {
		c := [...]uint64{0, 1, max - 1, max, max + 1, max + 1, 254, 255, 255, 256, 511, 1<<16 - 1, 1 << 16, 1 << 31,
			1<<32 - 2, 1<<32 - 1, 1 << 32, 1<<64 - 2}
		v = c[f.hr.Intn(len(c))]
		if v == 1<<64-1 {
			v = 1<<64 - 2
		}
		f.note(name, v)
	}
	if max < 1<<62 {
		f.maxes[idx] = max + 1
	}
	if f.guardAt == idx {
		if f.guardV != nil {
			v = *f.guardV
		} else {
			v = max + 1
			if f.hr.Intn(3) == 0 {
				v += uint64(f.hr.Intn(30))
			}
		}
		f.note(name, v)
	}
	f.tr(name, v)
	f.wue(v)
	return v
}

// ueMinor: one of many similar elements (coefficients): counted as a field only one time in eight.
func (f *fw) ueMinor(name string, max uint64, typical ...int) uint64 {
	if f.r.Intn(8) == 0 {
		return f.ue(name, max, typical...)
	}
	v := uint64(f.plausible(typical))
	if v > max {
		v = max
	}
	f.wue(v)
	return v
}

// se writes a signed Exp-Golomb field whose legal range is lo..hi.
func (f *fw) se(name string, lo, hi int64, typical ...int) int64 {
	var v int64
	if len(typical) > 0 {
		v = int64(typical[f.r.Intn(len(typical))])
	} else {
		v = int64(f.r.Pick(0, 0, 0, 1, -1, 2, -2))
	}
	if v < lo {
		v = lo
	}
	if v > hi {
		v = hi
	}
	if f.hostileNow(1) {
		c := [...]int64{0, 1, -1, lo - 1, lo, hi, hi + 1, 127, 128, -128, -129, 255, 256, -256, 32767, 32768, -32768, -32769,
			1<<31 - 1, 1 << 31, -(1 << 31), -(1 << 31) - 1, 1<<32 - 1, 1 << 32, 1 << 62, -(1 << 62)}
		v = c[f.hr.Intn(len(c))]
		f.note(name, v)
	}
	f.tr(name, v)
	f.wse(v)
	return v
}

func (f *fw) seMinor(name string, lo, hi int64, v int64) int64 {
	if f.r.Intn(8) == 0 {
		return f.se(name, lo, hi, int(v))
	}
	f.wse(v)
	return v
}

// u writes a fixed-width field (the value returned is the low 64 bits).
func (f *fw) u(name string, nbits int, typical ...int) uint64 {
	if nbits <= 0 {
		return 0
	}
	var v uint64
	if len(typical) > 0 {
		v = uint64(typical[f.r.Intn(len(typical))])
	} else {
		v = f.r.U64()
	}
	mask := ^uint64(0)
	if nbits < 64 {
		mask = 1<<uint(nbits) - 1
	}
	v &= mask
	if f.hostileNow(1) {
		switch f.hr.Intn(4) {
		case 0:
			v = 0
		case 1, 2:
			v = mask
		default:
			v = f.hr.U64() & mask
		}
		f.note(name, v)
	}
	f.tr(name+"/"+strconv.Itoa(nbits), v)
	f.raw(v, nbits)
	return v
}

func (f *fw) flag(name string, pTrue int) bool {
	b := f.r.Intn(100) < pTrue
	if f.hostileNow(0) {
		b = !b
		f.note(name, b)
	}
	f.tr(name, b)
	if b {
		f.raw(1, 1)
	} else {
		f.raw(0, 1)
	}
	return b
}

// tool: the presence flag of an optional coding tool / optional structure (global bias "all on").
func (f *fw) tool(name string, pTrue int) bool {
	if f.toolsOn && pTrue < 85 {
		pTrue = 85
	}
	return f.flag(name, pTrue)
}

// trailing writes rbsp_trailing_bits / byte_alignment: a one and zeros up to the byte boundary.
func (f *fw) trailing() {
	f.raw(1, 1)
	for len(f.w.bits)%8 != 0 && !f.full {
		f.w.put(0, 1)
	}
}

// capLimit bounds the number of elements the WRITER emits for a count field.  Normally 40 (a hostile
// count then simply claims more than the unit holds); one unit in five is written "honestly" up to 700
// elements, so that a count just above a parser's guard (256, 300 ...) is followed by that many elements:
// a parser whose guard was loosened then returns a value where the model returns an error.
var capLimit = 40

func capN(n uint64) int {
	if n > uint64(capLimit) {
		return capLimit
	}
	return int(n)
}

// writeUnit runs a syntax function in the given mode.  For "exactly k hostile fields" the fields are
// counted by a dry run with the same seed, k indices are drawn (numeric fields four times as likely as
// flags), and the function is run again.
func writeUnit(r *hx.Rng, mode int, toolsOn bool, maxBits int, body func(f *fw)) ([]byte, *fw) {
	seed, hseed := r.U64(), r.U64()
	capLimit = 40
	if seed%5 == 0 {
		capLimit = 700
	}
	mk := func(at map[int]bool, pm int) *fw {
		return &fw{r: hx.NewRng(seed), hr: hx.NewRng(hseed), at: at, pm: pm, toolsOn: toolsOn, maxBits: maxBits, guardAt: -1}
	}
	var f *fw
	switch mode {
	case modeHostile1, modeHostile2:
		d := mk(map[int]bool{}, 0)
		body(d)
		var pool []int
		for i, k := range d.kinds {
			pool = append(pool, i)
			if k == 1 {
				pool = append(pool, i, i, i)
			}
		}
		at := map[int]bool{}
		pick := hx.NewRng(hseed ^ 0x5bd1e995)
		for tries := 0; len(at) < mode && len(pool) > 0 && tries < 20; tries++ {
			at[pool[pick.Intn(len(pool))]] = true
		}
		f = mk(at, 0)
	case modeGuard:
		// a dry run finds the ue(v) fields with a small legal maximum (the guarded counts and ranges)
		d := mk(map[int]bool{}, 0)
		body(d)
		var pool []int
		for i, m := range d.maxes {
			if m > 0 && m <= 4096 {
				pool = append(pool, i)
			}
		}
		f = mk(map[int]bool{}, 0)
		if len(pool) > 0 {
			f.guardAt = pool[hx.NewRng(hseed^0x9e3779b9).Intn(len(pool))]
			capLimit = 700
		}
	case modeProb:
		f = mk(nil, r.Pick(15, 40, 100))
	default:
		f = mk(map[int]bool{}, 0)
	}
	body(f)
	b := f.w.bytes(true)
	if mode == modeTrunc && len(b) > 2 {
		b = b[:r.Range(1, len(b)-1)]
	}
	return b, f
}

// ---------------------------------------------------------------- layer 2: AVC

// what the PPS / slice / SEI parsers use of a parsed SPS (narrowed as avc.ParseSPSNALUnit narrows it)
type avcSPSInfo struct {
	id              uint32
	chroma          byte
	sepColour       bool
	log2FrameNum    uint64
	pocType         uint64
	log2PocLsb      uint64
	deltaAlwaysZero bool
	frameMbsOnly    bool
	vui, hrd        bool
	cpbLen, dpbLen  uint64 // ..._length_minus1 of the HRD the SEI parser picks (VCL first)
	timeOffsetLen   uint64
	mapUnits        uint64 // PicSizeInMapUnits as avc.ParseSliceHeader recomputes it from the SPS (SPS.picSizeInMapUnits)
}

// avcPicSizeInMapUnits mirrors the unexported (*avc.SPS).picSizeInMapUnits of /repo (fix 174cc8e)
func avcPicSizeInMapUnits(s *avc.SPS) uint64 {
	var fmo uint
	if s.FrameMbsOnlyFlag {
		fmo = 1
	}
	width, height := s.Width, s.Height
	if s.FrameCroppingFlag {
		var cx, cy uint
		switch s.ChromaFormatIDC {
		case 0:
			cx, cy = 1, 2-fmo
		case 1:
			cx, cy = 2, 2*(2-fmo)
		case 2:
			cx, cy = 2, 2-fmo
		default:
			cx, cy = 1, 2-fmo
		}
		width += (s.FrameCropLeftOffset + s.FrameCropRightOffset) * cx
		height += (s.FrameCropTopOffset + s.FrameCropBottomOffset) * cy
	}
	return uint64((width / 16) * (height / (16 * (2 - fmo))))
}

type avcPPSInfo struct {
	id, spsID          uint32
	entropy, bottom    bool
	nsg, mapType       uint64
	changeRateMinus1   uint64
	picSizeMapMinus1   uint64
	l0, l1             uint64
	weightedPred       bool
	bipredIDC          uint64
	deblock, redundant bool
}

func synAvcScalingList(f *fw, size int) {
	last, next := 8, 8
	stopAt := f.r.Pick(1, 2, 4, size, size)
	for j := 0; j < size; j++ {
		if next != 0 {
			d := int64(f.r.Range(-3, 3))
			if j == stopAt {
				d = int64(-last)
			}
			d = f.seMinor("delta_scale", -128, 127, d)
			next = (last + int(d) + 256) % 256
		}
		if next != 0 {
			last = next
		}
	}
}

func synAvcHrd(f *fw) (cpbLen, dpbLen, tol uint64) {
	cnt := f.ue("cpb_cnt_minus1", 31, 0, 0, 1, 3)
	f.u("bit_rate_scale", 4)
	f.u("cpb_size_scale", 4)
	for i := 0; i <= capN(cnt); i++ {
		f.ue("bit_rate_value_minus1", 1<<32-2, 0, 100, 5000)
		f.ue("cpb_size_value_minus1", 1<<32-2, 0, 100, 5000)
		f.flag("cbr_flag", 50)
	}
	f.u("initial_cpb_removal_delay_length_minus1", 5, 23, 0, 31)
	cpbLen = f.u("cpb_removal_delay_length_minus1", 5, 23, 0, 7, 31)
	dpbLen = f.u("dpb_output_delay_length_minus1", 5, 23, 0, 7, 31)
	tol = f.u("time_offset_length", 5, 24, 0, 5, 31)
	return
}

func synAvcVUI(f *fw, s *avcSPSInfo) {
	if f.flag("aspect_ratio_info_present_flag", 60) {
		if f.u("aspect_ratio_idc", 8, 1, 1, 2, 14, 16, 255, 0) == 255 {
			f.u("sar_width", 16, 1, 4, 16)
			f.u("sar_height", 16, 1, 3, 11)
		}
	}
	if f.flag("overscan_info_present_flag", 30) {
		f.flag("overscan_appropriate_flag", 50)
	}
	if f.flag("video_signal_type_present_flag", 50) {
		f.u("video_format", 3, 5)
		f.flag("video_full_range_flag", 30)
		if f.flag("colour_description_present_flag", 50) {
			f.u("colour_primaries", 8, 1, 9)
			f.u("transfer_characteristics", 8, 1, 16)
			f.u("matrix_coefficients", 8, 1, 9)
		}
	}
	if f.flag("chroma_loc_info_present_flag", 30) {
		f.ue("chroma_sample_loc_type_top_field", 5, 0, 1, 2)
		f.ue("chroma_sample_loc_type_bottom_field", 5, 0, 1, 2)
	}
	if f.tool("timing_info_present_flag", 60) {
		f.u("num_units_in_tick", 32, 1, 1001)
		f.u("time_scale", 32, 50, 60000)
		f.flag("fixed_frame_rate_flag", 60)
	}
	nal := f.tool("nal_hrd_parameters_present_flag", 40)
	if nal {
		s.cpbLen, s.dpbLen, s.timeOffsetLen = synAvcHrd(f)
		s.hrd = true
	}
	vcl := f.tool("vcl_hrd_parameters_present_flag", 30)
	if vcl {
		s.cpbLen, s.dpbLen, s.timeOffsetLen = synAvcHrd(f)
		s.hrd = true
	}
	if nal || vcl {
		f.flag("low_delay_hrd_flag", 30)
	}
	f.tool("pic_struct_present_flag", 50)
	if f.flag("bitstream_restriction_flag", 50) {
		f.flag("motion_vectors_over_pic_boundaries_flag", 80)
		f.ue("max_bytes_per_pic_denom", 16, 0, 2)
		f.ue("max_bits_per_mb_denom", 16, 0, 1)
		f.ue("log2_max_mv_length_horizontal", 16, 9, 10, 16)
		f.ue("log2_max_mv_length_vertical", 16, 9, 10, 16)
		f.ue("max_num_reorder_frames", 16, 0, 1, 2)
		f.ue("max_dec_frame_buffering", 16, 1, 2, 4)
	}
}

func synAvcSPS(f *fw, id uint64) avcSPSInfo {
	var s avcSPSInfo
	f.raw(uint64(f.r.Pick(0x67, 0x67, 0x27, 0x47)), 8)
	profile := f.u("profile_idc", 8, 66, 77, 88, 100, 100, 100, 110, 122, 244, 44, 83, 86, 118, 128, 138, 139, 134, 135)
	f.u("constraint_flags", 8, 0, 0x40, 0xc0, 0xe0)
	f.u("level_idc", 8, 30, 31, 40, 51)
	s.id = uint32(f.ue("seq_parameter_set_id", 31, int(id)))
	s.chroma = 1
	if profile == 138 {
		s.chroma = 0
	}
	switch profile {
	case 100, 110, 122, 244, 44, 83, 86, 118, 128, 138, 139, 134, 135:
		s.chroma = byte(f.ue("chroma_format_idc", 3, 1, 1, 1, 0, 2, 3))
		if s.chroma == 3 {
			s.sepColour = f.flag("separate_colour_plane_flag", 40)
		}
		f.ue("bit_depth_luma_minus8", 6, 0, 0, 2)
		f.ue("bit_depth_chroma_minus8", 6, 0, 0, 2)
		f.flag("qpprime_y_zero_transform_bypass_flag", 20)
		if f.tool("seq_scaling_matrix_present_flag", 30) {
			n := 12
			if s.chroma != 3 {
				n = 8
			}
			for i := 0; i < n; i++ {
				if f.flag("seq_scaling_list_present_flag", 40) {
					size := 16
					if i >= 6 {
						size = 64
					}
					synAvcScalingList(f, size)
				}
			}
		}
	}
	s.log2FrameNum = f.ue("log2_max_frame_num_minus4", 12, 0, 1, 4, 12)
	s.pocType = f.ue("pic_order_cnt_type", 2, 0, 0, 1, 2)
	switch s.pocType {
	case 0:
		s.log2PocLsb = f.ue("log2_max_pic_order_cnt_lsb_minus4", 12, 0, 2, 4, 12)
	case 1:
		s.deltaAlwaysZero = f.flag("delta_pic_order_always_zero_flag", 40)
		f.ue("offset_for_non_ref_pic", 1<<32, 0, 1, 2)
		f.ue("offset_for_top_to_bottom_field", 1<<32, 0, 1, 2)
		n := f.ue("num_ref_frames_in_pic_order_cnt_cycle", 255, 0, 1, 2, 3)
		for i := 0; i < capN(n); i++ {
			f.ue("offset_for_ref_frame", 1<<32, 0, 1, 2)
		}
	}
	f.ue("max_num_ref_frames", 16, 1, 2, 4)
	f.flag("gaps_in_frame_num_value_allowed_flag", 20)
	wMbs := f.ue("pic_width_in_mbs_minus1", 1<<16, 19, 79, 119)
	hMap := f.ue("pic_height_in_map_units_minus1", 1<<16, 14, 44, 67)
	s.mapUnits = (wMbs + 1) * (hMap + 1) // what the slice parser recomputes from Width / Height / cropping (no wrap for plausible values)
	s.frameMbsOnly = f.flag("frame_mbs_only_flag", 70)
	if !s.frameMbsOnly {
		f.flag("mb_adaptive_frame_field_flag", 50)
	}
	f.flag("direct_8x8_inference_flag", 80)
	if f.tool("frame_cropping_flag", 40) {
		f.ue("frame_crop_left_offset", 1<<16, 0, 1)
		f.ue("frame_crop_right_offset", 1<<16, 0, 1)
		f.ue("frame_crop_top_offset", 1<<16, 0, 1)
		f.ue("frame_crop_bottom_offset", 1<<16, 0, 4)
	}
	if f.tool("vui_parameters_present_flag", 60) {
		s.vui = true
		synAvcVUI(f, &s)
	}
	f.trailing()
	return s
}

func synAvcPPS(f *fw, id, spsID uint64, sps avcSPSInfo) avcPPSInfo {
	var p avcPPSInfo
	f.raw(uint64(f.r.Pick(0x68, 0x68, 0x28, 0x48)), 8)
	p.id = uint32(f.ue("pic_parameter_set_id", 255, int(id)))
	p.spsID = uint32(f.ue("seq_parameter_set_id", 31, int(spsID)))
	p.entropy = f.flag("entropy_coding_mode_flag", 50)
	p.bottom = f.tool("bottom_field_pic_order_in_frame_present_flag", 40)
	p.nsg = f.ue("num_slice_groups_minus1", 7, 0, 0, 0, 1, 2, 7)
	if p.nsg > 0 {
		p.mapType = f.ue("slice_group_map_type", 6, 0, 1, 2, 3, 4, 5, 6)
		switch p.mapType {
		case 0:
			for i := 0; i <= capN(p.nsg); i++ {
				f.ue("run_length_minus1", 1<<16, 0, 3, 10)
			}
		case 2:
			for i := 0; i < capN(p.nsg); i++ {
				f.ue("top_left", 1<<16, 0, 3)
				f.ue("bottom_right", 1<<16, 5, 20)
			}
		case 3, 4, 5:
			f.flag("slice_group_change_direction_flag", 50)
			p.changeRateMinus1 = f.ue("slice_group_change_rate_minus1", 1<<16, 0, 1, 3)
		case 6:
			p.picSizeMapMinus1 = f.ue("pic_size_in_map_units_minus1", 1<<16, 0, 3, 7, 20)
			nb := bits.CeilLog2(uint(p.nsg + 1))
			for i := 0; i <= capN(p.picSizeMapMinus1); i++ {
				f.u("slice_group_id", nb)
			}
		}
	}
	p.l0 = f.ue("num_ref_idx_l0_default_active_minus1", 31, 0, 0, 1, 2, 15)
	p.l1 = f.ue("num_ref_idx_l1_default_active_minus1", 31, 0, 0, 1, 2, 15)
	p.weightedPred = f.tool("weighted_pred_flag", 50)
	if f.toolsOn {
		p.bipredIDC = f.u("weighted_bipred_idc", 2, 1, 1, 1, 2, 0)
	} else {
		p.bipredIDC = f.u("weighted_bipred_idc", 2, 0, 1, 2)
	}
	f.se("pic_init_qp_minus26", -26, 25, 0, -3, 5)
	f.se("pic_init_qs_minus26", -26, 25, 0)
	f.se("chroma_qp_index_offset", -12, 12, 0, -2, 2)
	p.deblock = f.tool("deblocking_filter_control_present_flag", 60)
	f.flag("constrained_intra_pred_flag", 20)
	p.redundant = f.tool("redundant_pic_cnt_present_flag", 30)
	if f.r.Intn(2) == 0 { // the part after more_rbsp_data()
		t8 := f.flag("transform_8x8_mode_flag", 60)
		if f.tool("pic_scaling_matrix_present_flag", 30) {
			n := 6
			if t8 {
				if sps.chroma != 3 {
					n += 2
				} else {
					n += 6
				}
			}
			for i := 0; i < n; i++ {
				if f.flag("pic_scaling_list_present_flag", 40) {
					size := 16
					if i >= 6 {
						size = 64
					}
					synAvcScalingList(f, size)
				}
			}
		}
		f.se("second_chroma_qp_index_offset", -12, 12, 0, -2, 2)
	}
	f.trailing()
	return p
}

func synAvcRefPicListMod(f *fw, which string) {
	if !f.tool("ref_pic_list_modification_flag_"+which, 40) {
		return
	}
	k := f.r.Range(0, 3)
	for n := 0; n < 45; n++ {
		var idc uint64
		if n >= k {
			idc = f.ue("modification_of_pic_nums_idc", 5, 3)
		} else {
			idc = f.ue("modification_of_pic_nums_idc", 5, 0, 1, 2, 4, 5)
		}
		switch idc {
		case 0, 1:
			f.ue("abs_diff_pic_num_minus1", 1<<17, 0, 1, 5)
		case 2:
			f.ue("long_term_pic_num", 1<<17, 0, 1)
		case 4, 5:
			f.ue("abs_diff_view_idx_minus1", 1<<17, 0, 1)
		case 3:
			return
		}
	}
}

func synAvcSlice(f *fw, ppsID uint64, p avcPPSInfo, s avcSPSInfo) {
	naluType := uint64(f.r.Pick(1, 1, 1, 5, 5, 2, 19))
	refIDC := uint64(f.r.Pick(0, 1, 2, 3, 3))
	f.raw(refIDC<<5|naluType, 8)
	f.ue("first_mb_in_slice", 1<<20, 0, 0, 10)
	st := f.ue("slice_type", 9, 0, 1, 2, 3, 4, 5, 6, 7, 8, 9) % 5
	f.ue("pic_parameter_set_id", 255, int(ppsID))
	if s.sepColour {
		f.u("colour_plane_id", 2, 0, 1, 2)
	}
	width := func(v uint64) int {
		if v > 96 {
			return 100
		}
		return int(v + 4)
	}
	f.u("frame_num", width(s.log2FrameNum))
	fieldPic := false
	if !s.frameMbsOnly {
		fieldPic = f.flag("field_pic_flag", 30)
		if fieldPic {
			f.flag("bottom_field_flag", 50)
		}
	}
	if naluType == 5 {
		f.ue("idr_pic_id", 65535, 0, 1, 7)
	}
	if s.pocType == 0 {
		f.u("pic_order_cnt_lsb", width(s.log2PocLsb))
		if p.bottom && !fieldPic {
			f.se("delta_pic_order_cnt_bottom", -(1 << 31), 1<<31-1, 0, 1, -1)
		}
	} else if s.pocType == 1 && !s.deltaAlwaysZero {
		f.se("delta_pic_order_cnt0", -(1 << 31), 1<<31-1, 0, 1, -1)
		if p.bottom && !fieldPic {
			f.se("delta_pic_order_cnt1", -(1 << 31), 1<<31-1, 0, 1, -1)
		}
	}
	if p.redundant {
		f.ue("redundant_pic_cnt", 127, 0, 1)
	}
	const sP, sB, sI, sSP, sSI = 0, 1, 2, 3, 4
	if st == sB {
		f.flag("direct_spatial_mv_pred_flag", 50)
	}
	var l0, l1 uint64
	if st == sP || st == sSP || st == sB {
		if f.flag("num_ref_idx_active_override_flag", 50) {
			l0 = uint64(uint32(f.ue("num_ref_idx_l0_active_minus1", 31, 0, 1, 2)))
			if st == sB {
				l1 = uint64(uint32(f.ue("num_ref_idx_l1_active_minus1", 31, 0, 1, 2)))
			}
		} else {
			l0, l1 = uint64(uint32(p.l0)), uint64(uint32(p.l1))
		}
	}
	if st != sI && st != sSI {
		synAvcRefPicListMod(f, "l0")
	}
	if st == sB {
		synAvcRefPicListMod(f, "l1")
	}
	cat := s.chroma
	if s.sepColour {
		cat = 0
	}
	if p.weightedPred && (st == sP || st == sSP) || (p.bipredIDC == 1 && st == sB) {
		f.ue("luma_log2_weight_denom", 7, 0, 5)
		if cat != 0 {
			f.ue("chroma_log2_weight_denom", 7, 0, 5)
		}
		for i := 0; i <= capN(l0); i++ {
			if f.flag("luma_weight_l0_flag", 50) {
				f.ue("luma_weight_l0", 255, 1, 32)
				f.ue("luma_offset_l0", 255, 0, 2)
			}
			if cat != 0 && f.flag("chroma_weight_l0_flag", 50) {
				for j := 0; j < 2; j++ {
					f.ue("chroma_weight_l0", 255, 1, 32)
					f.ue("chroma_offset_l0", 255, 0, 2)
				}
			}
		}
		if st == sB {
			for i := 0; i <= capN(l1); i++ {
				if f.flag("luma_weight_l1_flag", 50) {
					f.ue("luma_weight_l1", 255, 1, 32)
					f.ue("luma_offset_l1", 255, 0, 2)
				}
				if cat != 0 && f.flag("chroma_weight_l1_flag", 50) {
					for j := 0; j < 2; j++ {
						f.se("chroma_weight_l1", -128, 127, 1, 32)
						f.se("chroma_offset_l1", -128, 127, 0, 2)
					}
				}
			}
		}
	}
	if refIDC != 0 {
		if naluType == 5 {
			f.flag("no_output_of_prior_pics_flag", 30)
			f.flag("long_term_reference_flag", 30)
		} else if f.tool("adaptive_ref_pic_marking_mode_flag", 40) {
			k := f.r.Range(0, 3)
			for n := 0; n < 45; n++ {
				var op uint64
				if n >= k {
					op = f.ue("memory_management_control_operation", 6, 0)
				} else {
					op = f.ue("memory_management_control_operation", 6, 1, 2, 3, 4, 5, 6)
				}
				switch op {
				case 1, 3:
					f.ue("difference_of_pic_nums_minus1", 1<<17, 0, 1)
				case 2:
					f.ue("long_term_pic_num", 1<<17, 0, 1)
				}
				switch op {
				case 3, 6:
					f.ue("long_term_frame_idx", 1<<17, 0, 1)
				case 4:
					f.ue("max_long_term_frame_idx_plus1", 1<<17, 0, 1)
				}
				if op == 0 {
					break
				}
			}
		}
	}
	if p.entropy && st != sI && st != sSI {
		f.ue("cabac_init_idc", 2, 0, 1, 2)
	}
	f.se("slice_qp_delta", -51, 51, 0, 2, -4)
	if st == sSP || st == sSI {
		if st == sSP {
			f.flag("sp_for_switch_flag", 30)
		}
		f.se("slice_qs_delta", -51, 51, 0, 1)
	}
	if p.deblock {
		if f.ue("disable_deblocking_filter_idc", 2, 0, 1, 2) != 1 {
			f.se("slice_alpha_c0_offset_div2", -6, 6, 0, 1)
			f.se("slice_beta_offset_div2", -6, 6, 0, 1)
		}
	}
	if p.nsg > 0 && p.mapType >= 3 && p.mapType <= 5 {
		// Ceil(Log2(PicSizeInMapUnits ÷ SliceGroupChangeRate + 1)) bits, ÷ rounded up, PicSizeInMapUnits from the SPS
		// (/repo 174cc8e; before: pps.PicSizeInMapUnitsMinus1 + 1 and a truncating division)
		size := s.mapUnits
		rate := p.changeRateMinus1 + 1
		if rate != 0 {
			quot := size / rate
			if size%rate != 0 {
				quot++
			}
			f.u("slice_group_change_cycle", bits.CeilLog2(uint(quot+1)))
		}
	}
	f.raw(f.r.U64(), f.r.Range(8, 40)) // slice data
}

// ---------------------------------------------------------------- layer 2: HEVC

type hevcRPS struct {
	numDeltaPocs byte
	inUse        uint8 // countInUsePics(): entries of UsedByCurrPicS0/S1 that are set (explicitly coded sets only)
}

type hevcSPSInfo struct {
	id                    uint32
	chroma                byte
	sepColour             bool
	width, height         uint32
	log2Poc               byte
	log2MinCb, log2DiffCb byte
	nRPS                  byte
	rps                   []hevcRPS
	ltPresent             bool
	nLT                   uint8
	ltUsed                []bool
	tmvp, sao             bool
	sccMvIdc2             bool
	// VUI / HRD values used by the pic_timing SEI parser
	vui, ffi, hrd, cpbDpb, subPic, subPicInPT bool
	auLen, dpbLen, duDpbLen, duIncLen         uint8
}

type hevcPPSInfo struct {
	id, spsID                                   uint32
	dependent, outputFlag                       bool
	extraBits                                   uint8
	cabacInit                                   bool
	l0, l1                                      uint8
	sliceChromaQp, weightedPred, weightedBipred bool
	tiles, entropySync                          bool
	deblockOverride, listsMod, sliceExt         bool
	deblockDisabled                             bool
	loopFilterAcrossSlices                      bool
	sccCurrPicRef, sccSliceActQp                bool
	rangeChromaQpList                           bool
}

func synHevcPTL(f *fw, maxSub byte) {
	f.u("general_profile_space", 2, 0)
	f.flag("general_tier_flag", 20)
	f.u("general_profile_idc", 5, 1, 2, 4, 9)
	f.u("general_profile_compatibility_flags", 32, 0x60000000, 0x40000000)
	f.u("general_constraint_flags", 48, 0x9000, 0xb000)
	f.u("general_level_idc", 8, 93, 120, 123, 150)
	if maxSub > 0 {
		pp := make([]bool, maxSub)
		lp := make([]bool, maxSub)
		for i := range pp {
			pp[i] = f.flag("sub_layer_profile_present_flag", 40)
			lp[i] = f.flag("sub_layer_level_present_flag", 60)
		}
		if maxSub < 8 {
			f.u("reserved_zero_2bits", 2*(8-int(maxSub)), 0)
		}
		for i := range pp {
			if pp[i] {
				f.u("sub_layer_profile_space", 2, 0)
				f.flag("sub_layer_tier_flag", 20)
				f.u("sub_layer_profile_idc", 5, 1, 2)
				f.u("sub_layer_profile_compatibility_flags", 32, 0x60000000)
				f.u("sub_layer_constraint_flags", 48, 0x9000)
			}
			if lp[i] {
				f.u("sub_layer_level_idc", 8, 93, 120)
			}
		}
	}
}

// readPastScalingListData reads ue(v) for every element
func synHevcScalingListData(f *fw) {
	for sizeID := 0; sizeID < 4; sizeID++ {
		n := 6
		if sizeID == 3 {
			n = 2
		}
		for m := 0; m < n; m++ {
			if !f.flag("scaling_list_pred_mode_flag", 25) {
				f.ue("scaling_list_pred_matrix_id_delta", uint64(m), 0, 1)
				continue
			}
			coefNum := 1 << uint(4+(sizeID<<1))
			if coefNum > 64 {
				coefNum = 64
			}
			if sizeID > 1 {
				f.ue("scaling_list_dc_coef_minus8", 247, 0, 8)
			}
			for i := 0; i < coefNum; i++ {
				f.ueMinor("scaling_list_delta_coef", 255, 0, 1, 2)
			}
		}
	}
}

// synHevcSTRPS mirrors parseShortTermRPS; abort = the parser sets an error and returns.
func synHevcSTRPS(f *fw, idx, n byte, sets []hevcRPS) (out hevcRPS, abort bool) {
	inter := false
	if f.chain > 0 {
		// worst-case chain: set 0 lists 16 + 16 pictures, every later set is predicted from its predecessor
		// and keeps every entry plus the new one: NumDeltaPocs grows by one per set (32, 33, 34, ...).
		// hevc.parseShortTermRPS counts them in a uint8 and loops `for j := byte(0); j <= numDeltaPocs; j++`:
		// the guard num_short_term_ref_pic_sets <= 64 is what keeps that count below 255
		if idx > 0 {
			f.raw(1, 1)
			if idx == n {
				f.wue(0)
			}
			f.raw(0, 1)
			f.wue(0)
			nd := int(sets[idx-1].numDeltaPocs)
			for j := 0; j <= nd; j++ {
				f.raw(1, 1)
			}
			out.numDeltaPocs = byte(nd + 1)
			return out, false
		}
		f.wue(16)
		f.wue(16)
		for i := 0; i < 32; i++ {
			f.wue(0)
			f.raw(1, 1)
		}
		out.numDeltaPocs, out.inUse = 32, 32
		return out, false
	}
	if idx > 0 {
		inter = f.flag("inter_ref_pic_set_prediction_flag", 30)
	}
	if inter {
		deltaIdx := byte(1)
		if idx == n {
			deltaIdx = byte(f.ue("delta_idx_minus1", uint64(idx)-1, 0, 0, 1) + 1)
		}
		if deltaIdx == 0 || deltaIdx > idx || int(idx-deltaIdx) >= len(sets) {
			return out, true
		}
		f.u("delta_rps_sign", 1)
		f.ue("abs_delta_rps_minus1", 32767, 0, 1, 3)
		nd := sets[idx-deltaIdx].numDeltaPocs
		for j := 0; j <= int(nd); j++ {
			used := f.flag("used_by_curr_pic_flag", 70)
			useDelta := true
			if !used {
				useDelta = f.flag("use_delta_flag", 50)
			}
			if used || useDelta {
				out.numDeltaPocs++
			}
		}
		return out, false
	}
	neg := byte(f.ue("num_negative_pics", 16, 0, 1, 2, 3))
	pos := byte(f.ue("num_positive_pics", 16, 0, 0, 1, 2))
	// the parser rejects more than 16: the writer goes on as if the (narrowed) values had been accepted, so that
	// a parser with a loosened guard finds the announced entries
	out.numDeltaPocs = neg + pos
	for i := 0; i < int(neg)+int(pos); i++ {
		f.ue("delta_poc_minus1", 32767, 0, 1, 3)
		if f.flag("used_by_curr_pic_flag", 80) {
			out.inUse++
		}
	}
	return out, false
}

func synHevcSubLayerHrd(f *fw, cpbCnt uint8, subPic bool) {
	for i := 0; i <= int(cpbCnt); i++ {
		f.ue("bit_rate_value_minus1", 1<<32-2, 0, 100, 5000)
		f.ue("cpb_size_value_minus1", 1<<32-2, 0, 100, 5000)
		if subPic {
			f.ue("cpb_size_du_value_minus1", 1<<32-2, 0, 100)
			f.ue("bit_rate_du_value_minus1", 1<<32-2, 0, 100)
		}
		f.flag("cbr_flag", 50)
	}
}

func synHevcHrd(f *fw, s *hevcSPSInfo, maxSub byte) {
	s.hrd = true
	nal := f.tool("nal_hrd_parameters_present_flag", 60)
	vcl := f.tool("vcl_hrd_parameters_present_flag", 40)
	if nal || vcl {
		s.cpbDpb = true
		s.subPic = f.tool("sub_pic_hrd_params_present_flag", 40)
		if s.subPic {
			f.u("tick_divisor_minus2", 8, 0, 98)
			s.duIncLen = uint8(f.u("du_cpb_removal_delay_increment_length_minus1", 5, 0, 7, 23, 31))
			s.subPicInPT = f.flag("sub_pic_cpb_params_in_pic_timing_sei_flag", 70)
			s.duDpbLen = uint8(f.u("dpb_output_delay_du_length_minus1", 5, 0, 7, 23, 31))
		}
		f.u("bit_rate_scale", 4)
		f.u("cpb_size_scale", 4)
		if s.subPic {
			f.u("cpb_size_du_scale", 4)
		}
		f.u("initial_cpb_removal_delay_length_minus1", 5, 23, 0, 31)
		s.auLen = uint8(f.u("au_cpb_removal_delay_length_minus1", 5, 23, 0, 7, 31))
		s.dpbLen = uint8(f.u("dpb_output_delay_length_minus1", 5, 23, 0, 7, 31))
	}
	for i := 0; i <= int(maxSub); i++ {
		fixedGeneral := f.flag("fixed_pic_rate_general_flag", 50)
		fixedCvs := true
		if !fixedGeneral {
			fixedCvs = f.flag("fixed_pic_rate_within_cvs_flag", 50)
		}
		lowDelay := false
		if fixedCvs {
			f.ue("elemental_duration_in_tc_minus1", 2047, 0, 1)
		} else {
			lowDelay = f.flag("low_delay_hrd_flag", 40)
		}
		var cpbCnt uint8
		if !lowDelay {
			c := f.ue("cpb_cnt_minus1", 31, 0, 0, 1, 3)
			if c > 31 {
				return
			}
			cpbCnt = uint8(c)
		}
		if nal {
			synHevcSubLayerHrd(f, cpbCnt, s.subPic)
		}
		if vcl {
			synHevcSubLayerHrd(f, cpbCnt, s.subPic)
		}
	}
}

func synHevcVUI(f *fw, s *hevcSPSInfo, maxSub byte) {
	s.vui = true
	if f.flag("aspect_ratio_info_present_flag", 50) {
		if f.u("aspect_ratio_idc", 8, 1, 1, 2, 14, 16, 255, 0) == 255 {
			f.u("sar_width", 16, 1, 4)
			f.u("sar_height", 16, 1, 3)
		}
	}
	if f.flag("overscan_info_present_flag", 30) {
		f.flag("overscan_appropriate_flag", 50)
	}
	if f.flag("video_signal_type_present_flag", 50) {
		f.u("video_format", 3, 5)
		f.flag("video_full_range_flag", 30)
		if f.flag("colour_description_present_flag", 50) {
			f.u("colour_primaries", 8, 1, 9)
			f.u("transfer_characteristics", 8, 1, 16)
			f.u("matrix_coeffs", 8, 1, 9)
		}
	}
	if f.flag("chroma_loc_info_present_flag", 30) {
		f.ue("chroma_sample_loc_type_top_field", 5, 0, 1, 2)
		f.ue("chroma_sample_loc_type_bottom_field", 5, 0, 1, 2)
	}
	f.flag("neutral_chroma_indication_flag", 20)
	f.flag("field_seq_flag", 20)
	s.ffi = f.tool("frame_field_info_present_flag", 50)
	if f.tool("default_display_window_flag", 30) {
		for _, n := range []string{"left", "right", "top", "bottom"} {
			f.ue("def_disp_win_"+n+"_offset", 1<<16, 0, 1, 4)
		}
	}
	if f.tool("vui_timing_info_present_flag", 60) {
		f.u("vui_num_units_in_tick", 32, 1, 1001)
		f.u("vui_time_scale", 32, 50, 60000)
		if f.flag("vui_poc_proportional_to_timing_flag", 40) {
			f.ue("vui_num_ticks_poc_diff_one_minus1", 1<<32-2, 0, 1)
		}
		if f.tool("vui_hrd_parameters_present_flag", 50) {
			synHevcHrd(f, s, maxSub)
		}
	}
	if f.flag("bitstream_restriction_flag", 50) {
		f.flag("tiles_fixed_structure_flag", 30)
		f.flag("motion_vectors_over_pic_boundaries_flag", 80)
		f.flag("restricted_ref_pic_lists_flag", 50)
		f.ue("min_spatial_segmentation_idc", 4095, 0, 1)
		f.ue("max_bytes_per_pic_denom", 16, 0, 2)
		f.ue("max_bits_per_min_cu_denom", 16, 0, 1)
		f.ue("log2_max_mv_length_horizontal", 15, 9, 15)
		f.ue("log2_max_mv_length_vertical", 15, 9, 15)
	}
}

func synHevcSPS(f *fw, id uint64) hevcSPSInfo {
	var s hevcSPSInfo
	f.raw(0x4201, 16)
	f.u("sps_video_parameter_set_id", 4, 0, 0, 1)
	maxSub := byte(f.u("sps_max_sub_layers_minus1", 3, 0, 0, 0, 1, 2, 6))
	f.flag("sps_temporal_id_nesting_flag", 70)
	synHevcPTL(f, maxSub)
	s.id = uint32(byte(f.ue("sps_seq_parameter_set_id", 15, int(id))))
	s.chroma = byte(f.ue("chroma_format_idc", 3, 1, 1, 1, 0, 2, 3))
	if s.chroma == 3 {
		s.sepColour = f.flag("separate_colour_plane_flag", 40)
	}
	s.width = uint32(f.ue("pic_width_in_luma_samples", 1<<16, 64, 416, 1920))
	s.height = uint32(f.ue("pic_height_in_luma_samples", 1<<16, 64, 240, 1080))
	if f.tool("conformance_window_flag", 40) {
		for _, n := range []string{"left", "right", "top", "bottom"} {
			f.ue("conf_win_"+n+"_offset", 1<<16, 0, 1, 4)
		}
	}
	bdl := byte(f.ue("bit_depth_luma_minus8", 8, 0, 0, 2))
	bdc := byte(f.ue("bit_depth_chroma_minus8", 8, 0, 0, 2))
	s.log2Poc = byte(f.ue("log2_max_pic_order_cnt_lsb_minus4", 12, 0, 4, 8, 12))
	start := int(maxSub)
	if f.flag("sps_sub_layer_ordering_info_present_flag", 50) {
		start = 0
	}
	for i := start; i <= int(maxSub); i++ {
		f.ue("sps_max_dec_pic_buffering_minus1", 15, 0, 1, 4)
		f.ue("sps_max_num_reorder_pics", 15, 0, 1, 2)
		f.ue("sps_max_latency_increase_plus1", 1<<32-2, 0, 1)
	}
	s.log2MinCb = byte(f.ue("log2_min_luma_coding_block_size_minus3", 3, 0, 0, 1))
	s.log2DiffCb = byte(f.ue("log2_diff_max_min_luma_coding_block_size", 3, 0, 1, 2, 3))
	f.ue("log2_min_luma_transform_block_size_minus2", 3, 0, 1)
	f.ue("log2_diff_max_min_luma_transform_block_size", 3, 0, 1, 3)
	f.ue("max_transform_hierarchy_depth_inter", 4, 0, 1, 2)
	f.ue("max_transform_hierarchy_depth_intra", 4, 0, 1, 2)
	if f.tool("scaling_list_enabled_flag", 30) {
		if f.flag("sps_scaling_list_data_present_flag", 50) {
			synHevcScalingListData(f)
		}
	}
	f.flag("amp_enabled_flag", 50)
	s.sao = f.tool("sample_adaptive_offset_enabled_flag", 70)
	if f.tool("pcm_enabled_flag", 30) {
		f.u("pcm_sample_bit_depth_luma_minus1", 4, 7)
		f.u("pcm_sample_bit_depth_chroma_minus1", 4, 7)
		f.ue("log2_min_pcm_luma_coding_block_size_minus3", 2, 0, 1)
		f.ue("log2_diff_max_min_pcm_luma_coding_block_size", 2, 0, 1)
		f.flag("pcm_loop_filter_disabled_flag", 50)
	}
	var nRPS uint64
	if f.chain > 0 {
		nRPS = uint64(f.chain)
		f.wue(nRPS)
	} else {
		nRPS = f.ue("num_short_term_ref_pic_sets", 64, 0, 1, 2, 3, 4)
	}
	{
		// the parser rejects more than 64: the writer goes on with the narrowed count as if it had been accepted
		s.nRPS = byte(nRPS)
		s.rps = make([]hevcRPS, s.nRPS)
		for idx := byte(0); idx < s.nRPS && !f.full; idx++ {
			var abort bool
			s.rps[idx], abort = synHevcSTRPS(f, idx, s.nRPS, s.rps)
			if abort {
				break
			}
		}
	}
	s.ltPresent = f.tool("long_term_ref_pics_present_flag", 50)
	if s.ltPresent {
		s.nLT = uint8(f.ue("num_long_term_ref_pics_sps", 32, 0, 1, 2, 3))
		s.ltUsed = make([]bool, s.nLT)
		for i := 0; i < capN(uint64(s.nLT)); i++ {
			f.u("lt_ref_pic_poc_lsb_sps", int(s.log2Poc)+4)
			s.ltUsed[i] = f.flag("used_by_curr_pic_lt_sps_flag", 70)
		}
	}
	s.tmvp = f.tool("sps_temporal_mvp_enabled_flag", 70)
	f.flag("strong_intra_smoothing_enabled_flag", 50)
	if f.tool("vui_parameters_present_flag", 50) {
		synHevcVUI(f, &s, maxSub)
	}
	var rangeExt, multi, d3, scc bool
	var ext4 uint64
	if f.tool("sps_extension_present_flag", 35) {
		rangeExt = f.flag("sps_range_extension_flag", 50)
		multi = f.flag("sps_multilayer_extension_flag", 30)
		d3 = f.flag("sps_3d_extension_flag", 30)
		scc = f.flag("sps_scc_extension_flag", 50)
		ext4 = f.u("sps_extension_4bits", 4, 0, 0, 0, 1)
	}
	if rangeExt {
		for i := 0; i < 9; i++ {
			f.flag("sps_range_extension_flags", 40)
		}
	}
	if multi {
		f.flag("inter_view_mv_vert_constraint_flag", 50)
	}
	if d3 {
		f.flag("iv_di_mc_enabled_flag0", 50)
		f.flag("iv_mv_scal_enabled_flag0", 50)
		f.ue("log2_ivmc_sub_pb_size_minus3", 3, 0, 1)
		for i := 0; i < 4; i++ {
			f.flag("sps_3d_flags0", 50)
		}
		f.flag("iv_di_mc_enabled_flag1", 50)
		f.flag("iv_mv_scal_enabled_flag1", 50)
		f.flag("tex_mc_enabled_flag", 50)
		f.ue("log2_texmc_sub_pb_size_minus3", 3, 0, 1)
		for i := 0; i < 5; i++ {
			f.flag("sps_3d_flags1", 50)
		}
	}
	if scc {
		f.flag("sps_curr_pic_ref_enabled_flag", 50)
		if f.tool("palette_mode_enabled_flag", 50) {
			f.ue("palette_max_size", 64, 0, 31, 63)
			f.ue("delta_palette_max_predictor_size", 64, 0, 32)
			if f.flag("sps_palette_predictor_initializers_present_flag", 50) {
				n := f.ue("sps_num_palette_predictor_initializers_minus1", 127, 0, 1, 3)
				comps := 3
				if s.chroma == 0 {
					comps = 1
				}
				for c := 0; c < comps; c++ {
					w := int(bdl) + 8
					if c > 0 {
						w = int(bdc) + 8
					}
					for i := 0; i <= capN(n); i++ {
						f.u("sps_palette_predictor_initializer", w)
					}
				}
			}
		}
		s.sccMvIdc2 = f.u("motion_vector_resolution_control_idc", 2, 0, 1, 2, 2) == 2
		f.flag("intra_boundary_filtering_disabled_flag", 50)
	}
	if ext4 > 0 {
		f.raw(f.r.U64(), f.r.Range(0, 9)) // sps_extension_data_flag
	}
	f.trailing()
	return s
}

func synHevcOctants(f *fw, octantDepth, partNumY uint64, resLsBits int, inpDepth uint64) {
	split := false
	if inpDepth < octantDepth {
		split = f.flag("split_octant_flag", 25)
	}
	if split {
		for k := 0; k < 8; k++ {
			synHevcOctants(f, octantDepth, partNumY, resLsBits, inpDepth+1)
		}
		return
	}
	for i := uint64(0); i < partNumY; i++ {
		for j := 0; j < 4; j++ {
			if f.flag("coded_res_flag", 30) {
				for c := 0; c < 3; c++ {
					q := f.ue("res_coeff_q", 1<<16, 0, 0, 1)
					rr := f.u("res_coeff_r", resLsBits)
					if q != 0 || rr != 0 {
						f.flag("res_coeff_s", 50)
					}
				}
			}
		}
	}
}

func synHevcPPSExtensions(f *fw, p *hevcPPSInfo, transformSkip, rangeExt, multi, d3, scc bool) {
	if rangeExt {
		if transformSkip {
			f.ue("log2_max_transform_skip_block_size_minus2", 3, 0, 1)
		}
		f.flag("cross_component_prediction_enabled_flag", 40)
		p.rangeChromaQpList = f.tool("chroma_qp_offset_list_enabled_flag", 50)
		if p.rangeChromaQpList {
			f.ue("diff_cu_chroma_qp_offset_depth", 3, 0, 1)
			n := f.ue("chroma_qp_offset_list_len_minus1", 5, 0, 1, 5)
			for i := 0; i <= capN(n); i++ {
				f.se("cb_qp_offset_list", -12, 12, 0, 1, -2)
				f.se("cr_qp_offset_list", -12, 12, 0, 1, -2)
			}
		}
		f.ue("log2_sao_offset_scale_luma", 6, 0, 1)
		f.ue("log2_sao_offset_scale_chroma", 6, 0, 1)
	}
	if multi {
		f.flag("poc_reset_info_present_flag", 50)
		if f.flag("pps_infer_scaling_list_flag", 40) {
			f.u("pps_scaling_list_ref_layer_id", 6, 0, 1)
		}
		n := f.ue("num_ref_loc_offsets", 62, 0, 1, 2)
		for i := 0; i < capN(n); i++ {
			f.u("ref_loc_offset_layer_id", 6, 0, 1, 2)
			if f.flag("scaled_ref_layer_offset_present_flag", 50) {
				for k := 0; k < 4; k++ {
					f.se("scaled_ref_layer_offset", -(1 << 14), 1<<14-1, 0, 1, -1)
				}
			}
			if f.flag("ref_region_offset_present_flag", 50) {
				for k := 0; k < 4; k++ {
					f.se("ref_region_offset", -(1 << 14), 1<<14-1, 0, 1, -1)
				}
			}
			if f.flag("resample_phase_set_present_flag", 50) {
				f.ue("phase_hor_luma", 31, 0, 1)
				f.ue("phase_ver_luma", 31, 0, 1)
				f.ue("phase_hor_chroma_plus8", 63, 8)
				f.ue("phase_ver_chroma_plus8", 63, 8)
			}
		}
		if f.tool("colour_mapping_enabled_flag", 30) {
			n := uint8(f.ue("num_cm_ref_layers_minus1", 61, 0, 1))
			for i := 0; i <= capN(uint64(n)); i++ {
				f.u("cm_ref_layer_id", 6, 0, 1)
			}
			octantDepth := f.u("cm_octant_depth", 2, 0, 1, 1)
			yPart := f.u("cm_y_part_num_log2", 2, 0, 1)
			lumaIn := f.ue("luma_bit_depth_cm_input_minus8", 8, 0, 2)
			f.ue("chroma_bit_depth_cm_input_minus8", 8, 0, 2)
			lumaOut := f.ue("luma_bit_depth_cm_output_minus8", 8, 0, 2)
			f.ue("chroma_bit_depth_cm_output_minus8", 8, 0, 2)
			resQuant := f.u("cm_res_quant_bits", 2, 0, 1)
			flc := f.u("cm_delta_flc_bits_minus1", 2, 0, 1, 3)
			if octantDepth == 1 {
				f.se("cm_adapt_threshold_u_delta", -512, 511, 0, 1)
				f.se("cm_adapt_threshold_v_delta", -512, 511, 0, 1)
			}
			resLsBits := 10 + int(lumaIn+8) - int(lumaOut+8) - int(resQuant) - int(flc+1)
			if resLsBits < 0 {
				resLsBits = 0
			}
			if resLsBits > 200 {
				resLsBits = 200
			}
			synHevcOctants(f, octantDepth, 1<<yPart, resLsBits, 0)
		}
	}
	if d3 {
		if f.tool("dlts_present_flag", 50) {
			n := f.u("pps_depth_layers_minus1", 6, 0, 1)
			bd := f.u("pps_bit_depth_for_depth_layers_minus8", 4, 0, 0, 1)
			w := int(bd) + 8
			for i := 0; i <= int(n); i++ {
				if !f.flag("dlt_flag", 60) {
					continue
				}
				pred := f.flag("dlt_pred_flag", 40)
				valFlags := false
				if !pred {
					valFlags = f.flag("dlt_val_flags_present_flag", 30)
				}
				if valFlags {
					depthMax := 1<<uint(w) - 1
					for j := 0; j <= depthMax && j < 600; j++ {
						f.raw(f.r.U64(), 1)
					}
					continue
				}
				numVal := f.u("num_val_delta_dlt", w, 0, 1, 2, 3, 5)
				if numVal == 0 {
					continue
				}
				var maxDiff uint64
				if numVal > 1 {
					maxDiff = f.u("max_diff", w, 0, 1, 3, 9)
				}
				var minDiffMinus1 uint64
				if numVal > 2 && maxDiff > 0 {
					minDiffMinus1 = f.u("min_diff_minus1", bits.CeilLog2(uint(maxDiff+1)), 0, 1)
				} else {
					minDiffMinus1 = maxDiff - 1
				}
				f.u("delta_dlt_val0", w, 0, 1, 7)
				if maxDiff > minDiffMinus1+1 {
					nb := bits.CeilLog2(uint(maxDiff - (minDiffMinus1 + 1) + 1))
					for k := uint64(1); k < numVal && k < 40; k++ {
						f.u("delta_val_diff_minus_min", nb)
					}
				}
			}
		}
	}
	if scc {
		p.sccCurrPicRef = f.flag("pps_curr_pic_ref_enabled_flag", 50)
		if f.tool("residual_adaptive_colour_transform_enabled_flag", 50) {
			p.sccSliceActQp = f.flag("pps_slice_act_qp_offsets_present_flag", 60)
			f.se("pps_act_y_qp_offset_plus5", -7, 17, 0, 5)
			f.se("pps_act_cb_qp_offset_plus5", -7, 17, 0, 5)
			f.se("pps_act_cr_qp_offset_plus3", -9, 15, 0, 3)
		}
		if f.tool("pps_palette_predictor_initializers_present_flag", 40) {
			n := f.ue("pps_num_palette_predictor_initializers", 128, 0, 1, 2, 4)
			if n > 0 {
				mono := f.flag("monochrome_palette_flag", 30)
				lw := f.ue("luma_bit_depth_entry_minus8", 8, 0, 2)
				comps := 1
				var cw uint64
				if !mono {
					comps = 3
					cw = f.ue("chroma_bit_depth_entry_minus8", 8, 0, 2)
				}
				for c := 0; c < comps; c++ {
					w := lw + 8
					if c > 0 {
						w = cw + 8
					}
					if w > 200 {
						w = 200
					}
					for i := 0; i < capN(n); i++ {
						f.u("pps_palette_predictor_initializer", int(w))
					}
				}
			}
		}
	}
}

func synHevcPPS(f *fw, id, spsID uint64) hevcPPSInfo {
	var p hevcPPSInfo
	f.raw(0x4401, 16)
	p.id = uint32(f.ue("pps_pic_parameter_set_id", 63, int(id)))
	p.spsID = uint32(f.ue("pps_seq_parameter_set_id", 15, int(spsID)))
	p.dependent = f.tool("dependent_slice_segments_enabled_flag", 50)
	p.outputFlag = f.tool("output_flag_present_flag", 40)
	p.extraBits = uint8(f.u("num_extra_slice_header_bits", 3, 0, 0, 1, 2, 7))
	f.flag("sign_data_hiding_enabled_flag", 50)
	p.cabacInit = f.tool("cabac_init_present_flag", 60)
	p.l0 = uint8(f.ue("num_ref_idx_l0_default_active_minus1", 14, 0, 0, 1, 2, 3))
	p.l1 = uint8(f.ue("num_ref_idx_l1_default_active_minus1", 14, 0, 0, 1, 2, 3))
	f.se("init_qp_minus26", -26, 25, 0, -3, 5)
	f.flag("constrained_intra_pred_flag", 20)
	transformSkip := f.tool("transform_skip_enabled_flag", 50)
	if f.flag("cu_qp_delta_enabled_flag", 50) {
		f.ue("diff_cu_qp_delta_depth", 3, 0, 1)
	}
	f.se("pps_cb_qp_offset", -12, 12, 0, 1, -2)
	f.se("pps_cr_qp_offset", -12, 12, 0, 1, -2)
	p.sliceChromaQp = f.tool("pps_slice_chroma_qp_offsets_present_flag", 50)
	p.weightedPred = f.tool("weighted_pred_flag", 60)
	p.weightedBipred = f.tool("weighted_bipred_flag", 60)
	f.flag("transquant_bypass_enabled_flag", 20)
	p.tiles = f.tool("tiles_enabled_flag", 40)
	p.entropySync = f.tool("entropy_coding_sync_enabled_flag", 40)
	if p.tiles {
		cols := f.ue("num_tile_columns_minus1", 19, 0, 1, 2, 3)
		rows := f.ue("num_tile_rows_minus1", 21, 0, 1, 2, 3)
		if !f.flag("uniform_spacing_flag", 50) {
			for i := 0; i < capN(cols); i++ {
				f.ue("column_width_minus1", 1<<16, 0, 1, 3)
			}
			for i := 0; i < capN(rows); i++ {
				f.ue("row_height_minus1", 1<<16, 0, 1, 3)
			}
		}
		f.flag("loop_filter_across_tiles_enabled_flag", 60)
	}
	p.loopFilterAcrossSlices = f.flag("pps_loop_filter_across_slices_enabled_flag", 70)
	if f.tool("deblocking_filter_control_present_flag", 60) {
		p.deblockOverride = f.flag("deblocking_filter_override_enabled_flag", 60)
		p.deblockDisabled = f.flag("pps_deblocking_filter_disabled_flag", 30)
		if !p.deblockDisabled {
			f.se("pps_beta_offset_div2", -6, 6, 0, 1, -1)
			f.se("pps_tc_offset_div2", -6, 6, 0, 1, -1)
		}
	}
	if f.tool("pps_scaling_list_data_present_flag", 25) {
		synHevcScalingListData(f)
	}
	p.listsMod = f.tool("lists_modification_present_flag", 60)
	f.ue("log2_parallel_merge_level_minus2", 4, 0, 1, 2)
	p.sliceExt = f.tool("slice_segment_header_extension_present_flag", 30)
	var rangeExt, multi, d3, scc bool
	var ext4 uint64
	if f.tool("pps_extension_present_flag", 35) {
		rangeExt = f.flag("pps_range_extension_flag", 50)
		multi = f.flag("pps_multilayer_extension_flag", 30)
		d3 = f.flag("pps_3d_extension_flag", 30)
		scc = f.flag("pps_scc_extension_flag", 50)
		ext4 = f.u("pps_extension_4bits", 4, 0, 0, 0, 1)
	}
	synHevcPPSExtensions(f, &p, transformSkip, rangeExt, multi, d3, scc)
	if ext4 > 0 {
		f.raw(f.r.U64(), f.r.Range(0, 9)) // pps_extension_data_flag
	}
	f.trailing()
	return p
}

func hevcCeilDiv(a, b uint64) uint64 { return (a + b - 1) / b }

func synHevcPredWeights(f *fw, n uint8, cat byte, which string) {
	cnt := capN(uint64(n)) + 1
	if int(n)+1 < cnt {
		cnt = int(n) + 1
	}
	luma := make([]bool, cnt)
	chroma := make([]bool, cnt)
	for i := range luma {
		luma[i] = f.flag("luma_weight_"+which+"_flag", 50)
	}
	if cat != 0 {
		for i := range chroma {
			chroma[i] = f.flag("chroma_weight_"+which+"_flag", 50)
		}
	}
	for i := range luma {
		if luma[i] {
			f.se("delta_luma_weight_"+which, -128, 127, 0, 1, -1)
			f.se("luma_offset_"+which, -128, 127, 0, 1, -1)
		}
		if chroma[i] {
			for j := 0; j < 2; j++ {
				f.se("delta_chroma_weight_"+which, -128, 127, 0, 1, -1)
				f.se("delta_chroma_offset_"+which, -512, 511, 0, 1, -1)
			}
		}
	}
}

func synHevcSlice(f *fw, ppsID uint64, p hevcPPSInfo, s hevcSPSInfo) {
	naluType := uint64(f.r.Pick(1, 1, 1, 0, 19, 19, 20, 21, 16, 8, 9))
	f.raw(naluType<<9|1, 16)
	defer func() { // byte_alignment() and some slice data, also after an early return
		f.trailing()
		f.raw(f.r.U64(), 8*f.r.Range(1, 5))
	}()
	first := f.flag("first_slice_segment_in_pic_flag", 60)
	if naluType >= 16 && naluType <= 23 {
		f.flag("no_output_of_prior_pics_flag", 30)
	}
	f.ue("slice_pic_parameter_set_id", 63, int(ppsID))
	dep := false
	if !first {
		if p.dependent {
			dep = f.flag("dependent_slice_segment_flag", 30)
		}
		sh := byte(s.log2MinCb + 3 + s.log2DiffCb)
		ctb := uint64(1) << sh
		if ctb == 0 {
			return
		}
		size := hevcCeilDiv(uint64(s.width), ctb) * hevcCeilDiv(uint64(s.height), ctb)
		f.u("slice_segment_address", bits.CeilLog2(uint(size)))
	}
	if !dep {
		var total uint8
		cat := s.chroma
		if s.sepColour && s.chroma == 3 {
			cat = 0
		}
		for i := uint8(0); i < p.extraBits; i++ {
			f.raw(f.r.U64(), 1)
		}
		st := f.ue("slice_type", 2, 0, 1, 2)
		const sB, sP = 0, 1
		if p.outputFlag {
			f.flag("pic_output_flag", 80)
		}
		if s.sepColour {
			f.u("colour_plane_id", 2, 0, 1, 2)
		}
		tmvp := false
		if naluType != 19 && naluType != 20 {
			f.u("slice_pic_order_cnt_lsb", int(s.log2Poc)+4)
			var cur hevcRPS
			if !f.flag("short_term_ref_pic_set_sps_flag", 50) {
				var abort bool
				cur, abort = synHevcSTRPS(f, s.nRPS, s.nRPS, s.rps)
				if abort {
					return
				}
			} else if s.nRPS > 1 {
				idx := f.u("short_term_ref_pic_set_idx", bits.CeilLog2(uint(s.nRPS)), 0, 1, int(s.nRPS)-1)
				if int(idx) >= len(s.rps) {
					return
				}
				cur = s.rps[idx]
			} else if len(s.rps) == 1 {
				cur = s.rps[0] // short_term_ref_pic_set_idx inferred 0
			}
			total += cur.inUse
			if s.ltPresent {
				var nSps uint8
				if s.nLT > 0 {
					nSps = uint8(f.ue("num_long_term_sps", uint64(s.nLT), 0, 1))
				}
				nPics := f.ue("num_long_term_pics", 16, 0, 1, 2)
				cnt := uint64(nSps) + nPics
				for i := uint64(0); i < cnt && i < 40; i++ {
					used := false
					if i < uint64(nSps) {
						var li uint64 // inferred 0 when not coded
						if s.nLT > 1 {
							li = f.u("lt_idx_sps", bits.CeilLog2(uint(s.nLT)), 0, 1)
						}
						if int(li) >= len(s.ltUsed) {
							return
						}
						used = s.ltUsed[li]
					} else {
						f.u("poc_lsb_lt", int(s.log2Poc)+4)
						used = f.flag("used_by_curr_pic_lt_flag", 70)
					}
					if used {
						total++
					}
					if f.flag("delta_poc_msb_present_flag", 30) {
						f.ue("delta_poc_msb_cycle_lt", 1<<16, 0, 1)
					}
				}
			}
			if s.tmvp {
				tmvp = f.flag("slice_temporal_mvp_enabled_flag", 70)
			}
		}
		saoLuma, saoChroma := false, false
		if s.sao {
			saoLuma = f.flag("slice_sao_luma_flag", 60)
			if cat != 0 {
				saoChroma = f.flag("slice_sao_chroma_flag", 60)
			}
		}
		if st == sP || st == sB {
			l0, l1 := p.l0, p.l1
			if f.flag("num_ref_idx_active_override_flag", 50) {
				l0 = uint8(f.ue("num_ref_idx_l0_active_minus1", 14, 0, 1, 2, 3))
				if st == sB {
					l1 = uint8(f.ue("num_ref_idx_l1_active_minus1", 14, 0, 1, 2, 3))
				}
			}
			if p.listsMod {
				if p.sccCurrPicRef {
					total++
				}
				if total > 1 {
					nb := bits.CeilLog2(uint(total))
					if f.tool("ref_pic_list_modification_flag_l0", 50) {
						for i := 0; i <= int(l0) && i <= 40; i++ {
							f.u("list_entry_l0", nb)
						}
					}
					if st == sB && f.tool("ref_pic_list_modification_flag_l1", 50) {
						for i := 0; i <= int(l1) && i <= 40; i++ {
							f.u("list_entry_l1", nb)
						}
					}
				}
			}
			if st == sB {
				f.flag("mvd_l1_zero_flag", 40)
			}
			if p.cabacInit {
				f.flag("cabac_init_flag", 50)
			}
			if tmvp {
				fromL0 := true
				if st == sB {
					fromL0 = f.flag("collocated_from_l0_flag", 60)
				}
				if (fromL0 && l0 > 0) || (!fromL0 && l1 > 0) {
					f.ue("collocated_ref_idx", uint64(l0), 0, 1)
				}
			}
			if (p.weightedPred && st == sP) || (p.weightedBipred && st == sB) {
				f.ue("luma_log2_weight_denom", 7, 0, 5, 7)
				if cat != 0 {
					f.se("delta_chroma_log2_weight_denom", -7, 7, 0, 1, -1)
				}
				synHevcPredWeights(f, l0, cat, "l0")
				if st == sB {
					synHevcPredWeights(f, l1, cat, "l1")
				}
			}
			f.ue("five_minus_max_num_merge_cand", 4, 0, 1, 2)
			if s.sccMvIdc2 {
				f.flag("use_integer_mv_flag", 50)
			}
		}
		f.se("slice_qp_delta", -51, 51, 0, 2, -4)
		if p.sliceChromaQp {
			f.se("slice_cb_qp_offset", -12, 12, 0, 1, -1)
			f.se("slice_cr_qp_offset", -12, 12, 0, 1, -1)
		}
		if p.sccSliceActQp {
			f.se("slice_act_y_qp_offset", -12, 12, 0, 1)
			f.se("slice_act_cb_qp_offset", -12, 12, 0, 1)
			f.se("slice_act_cr_qp_offset", -12, 12, 0, 1)
		}
		if p.rangeChromaQpList {
			f.flag("cu_chroma_qp_offset_enabled_flag", 50)
		}
		dbOverride, dbDisabled := false, p.deblockDisabled
		if p.deblockOverride {
			dbOverride = f.flag("deblocking_filter_override_flag", 50)
		}
		if dbOverride {
			dbDisabled = f.flag("slice_deblocking_filter_disabled_flag", 40)
			if !dbDisabled {
				f.se("slice_beta_offset_div2", -6, 6, 0, 1, -1)
				f.se("slice_tc_offset_div2", -6, 6, 0, 1, -1)
			}
		}
		if p.loopFilterAcrossSlices && (saoLuma || saoChroma || !dbDisabled) {
			f.flag("slice_loop_filter_across_slices_enabled_flag", 60)
		}
	}
	if p.tiles || p.entropySync {
		n := f.ue("num_entry_point_offsets", 440, 0, 0, 1, 2, 3)
		if n > 0 {
			ol := f.ue("offset_len_minus1", 31, 0, 3, 7, 15, 31)
			for i := 0; i < capN(n); i++ {
				f.u("entry_point_offset_minus1", int(uint8(ol))+1)
			}
		}
	}
	if p.sliceExt {
		n := uint16(f.ue("slice_segment_header_extension_length", 256, 0, 0, 1, 2, 4))
		for i := 0; i < capN(uint64(n)); i++ {
			f.u("slice_segment_header_extension_data_byte", 8)
		}
	}
}

// ---------------------------------------------------------------- context parameter sets (targets2.go contextSets)

func avcSPSInfoOf(s *avc.SPS) avcSPSInfo {
	i := avcSPSInfo{id: s.ParameterID, chroma: s.ChromaFormatIDC, sepColour: s.SeparateColourPlaneFlag,
		log2FrameNum: uint64(s.Log2MaxFrameNumMinus4), pocType: uint64(s.PicOrderCntType),
		log2PocLsb: uint64(s.Log2MaxPicOrderCntLsbMinus4), deltaAlwaysZero: s.DeltaPicOrderAlwaysZeroFlag,
		frameMbsOnly: s.FrameMbsOnlyFlag, mapUnits: avcPicSizeInMapUnits(s)}
	if s.VUI != nil {
		i.vui = true
		h := s.VUI.VclHrdParameters
		if h == nil {
			h = s.VUI.NalHrdParameters
		}
		if h != nil {
			i.hrd = true
			i.cpbLen, i.dpbLen, i.timeOffsetLen = uint64(h.CpbRemovalDelayLengthMinus1), uint64(h.DpbOutputDelayLengthMinus1), uint64(h.TimeOffsetLength)
		}
	}
	return i
}

func avcPPSInfoOf(p *avc.PPS) avcPPSInfo {
	return avcPPSInfo{id: p.PicParameterSetID, spsID: p.SeqParameterSetID, entropy: p.EntropyCodingModeFlag,
		bottom: p.BottomFieldPicOrderInFramePresentFlag, nsg: uint64(p.NumSliceGroupsMinus1), mapType: uint64(p.SliceGroupMapType),
		changeRateMinus1: uint64(p.SliceGroupChangeRateMinus1), picSizeMapMinus1: uint64(p.PicSizeInMapUnitsMinus1),
		l0: uint64(p.NumRefIdxI0DefaultActiveMinus1), l1: uint64(p.NumRefIdxI1DefaultActiveMinus1),
		weightedPred: p.WeightedPredFlag, bipredIDC: uint64(p.WeightedBipredIDC),
		deblock: p.DeblockingFilterControlPresentFlag, redundant: p.RedundantPicCntPresentFlag}
}

func hevcSPSInfoOf(s *hevc.SPS) hevcSPSInfo {
	i := hevcSPSInfo{id: uint32(s.SpsID), chroma: s.ChromaFormatIDC, sepColour: s.SeparateColourPlaneFlag,
		width: s.PicWidthInLumaSamples, height: s.PicHeightInLumaSamples, log2Poc: s.Log2MaxPicOrderCntLsbMinus4,
		log2MinCb: s.Log2MinLumaCodingBlockSizeMinus3, log2DiffCb: s.Log2DiffMaxMinLumaCodingBlockSize,
		nRPS: s.NumShortTermRefPicSets, ltPresent: s.LongTermRefPicsPresentFlag, nLT: s.NumLongTermRefPics,
		tmvp: s.SpsTemporalMvpEnabledFlag, sao: s.SampleAdaptiveOffsetEnabledFlag,
		sccMvIdc2: s.SccExtension != nil && s.SccExtension.MotionVectorResolutionControlIdc == 2}
	for _, st := range s.ShortTermRefPicSets {
		r := hevcRPS{numDeltaPocs: st.NumDeltaPocs}
		for _, u := range st.UsedByCurrPicS0 {
			if u {
				r.inUse++
			}
		}
		for _, u := range st.UsedByCurrPicS1 {
			if u {
				r.inUse++
			}
		}
		i.rps = append(i.rps, r)
	}
	for _, lt := range s.LongTermRefPicSets {
		i.ltUsed = append(i.ltUsed, lt.UsedByCurrPicLtFlag)
	}
	if s.VUI != nil {
		i.vui, i.ffi = true, s.VUI.FrameFieldInfoPresentFlag
		if h := s.VUI.HrdParameters; h != nil {
			i.hrd, i.cpbDpb, i.subPic, i.subPicInPT = true, h.CpbDpbDelaysPresentFlag(), h.SubPicHrdParamsPresentFlag, h.SubPicCpbParamsInPicTimingSeiFlag
			i.auLen, i.dpbLen, i.duDpbLen, i.duIncLen = h.AuCpbRemovalDelayLengthMinus1, h.DpbOutputDelayLengthMinus1,
				h.DpbOutputDelayDuLengthMinus1, h.DuCpbRemovalDelayIncrementLengthMinus1
		}
	}
	return i
}

func hevcPPSInfoOf(p *hevc.PPS) hevcPPSInfo {
	i := hevcPPSInfo{id: p.PicParameterSetID, spsID: p.SeqParameterSetID, dependent: p.DependentSliceSegmentsEnabledFlag,
		outputFlag: p.OutputFlagPresentFlag, extraBits: p.NumExtraSliceHeaderBits, cabacInit: p.CabacInitPresentFlag,
		l0: p.NumRefIdxL0DefaultActiveMinus1, l1: p.NumRefIdxL1DefaultActiveMinus1,
		sliceChromaQp: p.SliceChromaQpOffsetsPresentFlag, weightedPred: p.WeightedPredFlag, weightedBipred: p.WeightedBipredFlag,
		tiles: p.TilesEnabledFlag, entropySync: p.EntropyCodingSyncEnabledFlag, deblockOverride: p.DeblockingFilterOverrideEnabledFlag,
		listsMod: p.ListsModificationPresentFlag, sliceExt: p.SliceSegmentHeaderExtensionPresentFlag,
		loopFilterAcrossSlices: p.LoopFilterAcrossSlicesEnabledFlag, deblockDisabled: p.DeblockingFilterDisabledFlag}
	if p.SccExtension != nil {
		i.sccCurrPicRef, i.sccSliceActQp = p.SccExtension.CurrPicRefEnabledFlag, p.SccExtension.SliceActQpOffsetsPresentFlag
	}
	if p.RangeExtension != nil {
		i.rangeChromaQpList = p.RangeExtension.ChromaQpOffsetListEnabledFlag
	}
	return i
}

type structCtx struct {
	avcSPS   map[uint32]avcSPSInfo
	avcPPS   map[uint32]avcPPSInfo
	hevcSPS  map[uint32]hevcSPSInfo
	hevcPPS  map[uint32]hevcPPSInfo
	avcSPSl  []avcSPSInfo // in the order of ctxSets.avcSPSl (the arg of *.ParseSEINalu)
	hevcSPSl []hevcSPSInfo
	ids      map[string][]uint32 // sorted ids per kind
}

var structCtxCache *structCtx

func structContext() *structCtx {
	if structCtxCache != nil {
		return structCtxCache
	}
	c := contextSets()
	s := &structCtx{map[uint32]avcSPSInfo{}, map[uint32]avcPPSInfo{}, map[uint32]hevcSPSInfo{}, map[uint32]hevcPPSInfo{}, nil, nil, map[string][]uint32{}}
	for k, v := range c.avcSPS {
		s.avcSPS[k] = avcSPSInfoOf(v)
		s.ids["avcsps"] = append(s.ids["avcsps"], k)
	}
	for k, v := range c.avcPPS {
		s.avcPPS[k] = avcPPSInfoOf(v)
		s.ids["avcpps"] = append(s.ids["avcpps"], k)
	}
	for k, v := range c.hevcSPS {
		s.hevcSPS[k] = hevcSPSInfoOf(v)
		s.ids["hevcsps"] = append(s.ids["hevcsps"], k)
	}
	for k, v := range c.hevcPPS {
		s.hevcPPS[k] = hevcPPSInfoOf(v)
		s.ids["hevcpps"] = append(s.ids["hevcpps"], k)
	}
	for _, v := range c.avcSPSl {
		s.avcSPSl = append(s.avcSPSl, avcSPSInfoOf(v))
	}
	for _, v := range c.hevSPSl {
		s.hevcSPSl = append(s.hevcSPSl, hevcSPSInfoOf(v))
	}
	for _, l := range s.ids {
		sort.Slice(l, func(i, j int) bool { return l[i] < l[j] })
	}
	structCtxCache = s
	return s
}

func (s *structCtx) pickID(r *hx.Rng, kind string) (uint32, bool) {
	l := s.ids[kind]
	if len(l) == 0 {
		return 0, false
	}
	return l[r.Intn(len(l))], true
}

// ---------------------------------------------------------------- layer 3: generators

const unitMaxBits = 255 * 8 // pipeline units are clipped to 255 bytes

var lastModes []int // modes drawn since the last reset (statistics)

func pickMode(r *hx.Rng, pipeline bool) int {
	m := pickMode0(r, pipeline)
	lastModes = append(lastModes, m)
	return m
}

func pickMode0(r *hx.Rng, pipeline bool) int {
	k := r.Intn(100)
	if pipeline {
		switch {
		case k < 40:
			return modeValid
		case k < 65:
			return modeHostile1
		case k < 80:
			return modeHostile2
		case k < 85:
			return modeTrunc
		case k < 93:
			return modeGuard
		}
		return modeProb
	}
	switch {
	case k < 25:
		return modeValid
	case k < 60:
		return modeHostile1
	case k < 80:
		return modeHostile2
	case k < 86:
		return modeTrunc
	case k < 94:
		return modeGuard
	}
	return modeProb
}

func clip255(b []byte) []byte {
	if len(b) > 255 {
		b = b[:255]
	}
	return b
}

type structTrace struct {
	modes   [3]int
	hostile [3][]string
}

var lastSliceTrace []string
var lastStructTrace structTrace // what the last genStructPipeline call did (debugging / statistics)

// genStructPipeline: len1 SPS[len1] len2 PPS[len2] slice, every stage written by the syntax functions with
// consistent ids; each stage independently valid / 1 hostile field / 2 hostile fields / truncated / sprinkled.
func genStructPipeline(r *hx.Rng, codec string) []byte {
	ctx := structContext()
	toolsOn := r.Intn(10) < 7
	var tr structTrace
	for i := range tr.modes {
		tr.modes[i] = pickMode(r, true)
	}
	spsID := uint64(r.Pick(0, 0, 0, 0, 0, 0, 0, 1, 2, 3))
	ppsID := uint64(r.Pick(0, 0, 0, 0, 0, 0, 0, 1, 2, 5))
	var sps, pps, sl []byte
	var f *fw
	if codec == "avc" {
		var si avcSPSInfo
		sps, f = writeUnit(r, tr.modes[0], toolsOn, unitMaxBits, func(f *fw) { si = synAvcSPS(f, spsID) })
		tr.hostile[0] = f.hostile
		lookupSPS := func(id uint32) avcSPSInfo {
			if id == si.id {
				return si
			}
			return ctx.avcSPS[id]
		}
		ref := uint64(si.id)
		if r.Intn(10) == 0 {
			if id, ok := ctx.pickID(r, "avcsps"); ok {
				ref = uint64(id)
			}
		}
		var pi avcPPSInfo
		pps, f = writeUnit(r, tr.modes[1], toolsOn, unitMaxBits, func(f *fw) { pi = synAvcPPS(f, ppsID, ref, lookupSPS(uint32(ref))) })
		tr.hostile[1] = f.hostile
		use := pi
		if r.Intn(10) == 0 {
			if id, ok := ctx.pickID(r, "avcpps"); ok && id != pi.id {
				use = ctx.avcPPS[id]
			}
		}
		sl, f = writeUnit(r, tr.modes[2], toolsOn, 4096, func(f *fw) { synAvcSlice(f, uint64(use.id), use, lookupSPS(use.spsID)) })
		tr.hostile[2] = f.hostile
	} else {
		var si hevcSPSInfo
		sps, f = writeUnit(r, tr.modes[0], toolsOn, unitMaxBits, func(f *fw) { si = synHevcSPS(f, spsID) })
		tr.hostile[0] = f.hostile
		lookupSPS := func(id uint32) hevcSPSInfo {
			if id == si.id {
				return si
			}
			return ctx.hevcSPS[id]
		}
		ref := uint64(si.id)
		if r.Intn(10) == 0 {
			if id, ok := ctx.pickID(r, "hevcsps"); ok {
				ref = uint64(id)
			}
		}
		var pi hevcPPSInfo
		pps, f = writeUnit(r, tr.modes[1], toolsOn, unitMaxBits, func(f *fw) { pi = synHevcPPS(f, ppsID, ref) })
		tr.hostile[1] = f.hostile
		use := pi
		if r.Intn(10) == 0 {
			if id, ok := ctx.pickID(r, "hevcpps"); ok && id != pi.id {
				use = ctx.hevcPPS[id]
			}
		}
		sl, f = writeUnit(r, tr.modes[2], toolsOn, 4096, func(f *fw) { synHevcSlice(f, uint64(use.id), use, lookupSPS(use.spsID)) })
		tr.hostile[2] = f.hostile
	}
	lastSliceTrace = f.trace
	lastStructTrace = tr
	sps, pps = clip255(sps), clip255(pps)
	out := append([]byte{byte(len(sps))}, sps...)
	out = append(append(out, byte(len(pps))), pps...)
	return append(out, sl...)
}

var lastUnitMode int
var lastUnitHostile []string

// genStructUnit: one unit for a single-unit parser target; PPS and slice are written against the context sets.
// unitBody: the syntax function of a single-unit parser target (ids / reference sets drawn from r).
func unitBody(r *hx.Rng, target string) func(f *fw) {
	ctx := structContext()
	switch target {
	case "avc.ParseSPSNALUnit":
		return func(f *fw) { synAvcSPS(f, uint64(r0(f, 0, 0, 1, 31))) }
	case "avc.ParsePPSNALUnit":
		id, _ := ctx.pickID(r, "avcsps")
		return func(f *fw) { synAvcPPS(f, uint64(r0(f, 0, 0, 1, 255)), uint64(id), ctx.avcSPS[id]) }
	case "avc.ParseSliceHeader":
		id, _ := ctx.pickID(r, "avcpps")
		p := ctx.avcPPS[id]
		return func(f *fw) { synAvcSlice(f, uint64(id), p, ctx.avcSPS[p.spsID]) }
	case "hevc.ParseSPSNALUnit":
		return func(f *fw) { synHevcSPS(f, uint64(r0(f, 0, 0, 1, 15))) }
	case "hevc.ParsePPSNALUnit":
		id, _ := ctx.pickID(r, "hevcsps")
		return func(f *fw) { synHevcPPS(f, uint64(r0(f, 0, 0, 1, 63)), uint64(id)) }
	case "hevc.ParseSliceHeader":
		id, _ := ctx.pickID(r, "hevcpps")
		p := ctx.hevcPPS[id]
		return func(f *fw) { synHevcSlice(f, uint64(id), p, ctx.hevcSPS[p.spsID]) }
	}
	return nil
}

func genStructUnit(r *hx.Rng, target string) []byte {
	toolsOn := r.Intn(10) < 7
	mode := pickMode(r, false)
	lastUnitMode = mode
	body := unitBody(r, target)
	if body == nil {
		return genUnit(r, target)
	}
	b, f := writeUnit(r, mode, toolsOn, 8192, body)
	lastUnitHostile = f.hostile
	return b
}

// guardSweep: a SYSTEMATIC pass over the guards of a single-unit parser.  For `variants` random layouts of
// the unit, one unit per ue(v) field with a small legal maximum (<= 4096: the counts and ranges a parser
// has to check), written with that field at max+1 and, where it is a count, followed by that many
// elements (honest loop cap 700).  A parser that lost or loosened one guard returns a value where the
// model returns an error.
var guardSweepTargets = []string{"avc.ParseSPSNALUnit", "avc.ParsePPSNALUnit", "avc.ParseSliceHeader",
	"hevc.ParseSPSNALUnit", "hevc.ParsePPSNALUnit", "hevc.ParseSliceHeader"}

func guardSweep(r *hx.Rng, target string, variants int) [][]byte {
	var out [][]byte
	for v := 0; v < variants; v++ {
		body := unitBody(r, target)
		if body == nil {
			return nil
		}
		seed, hseed := r.U64(), r.U64()
		toolsOn := v%2 == 0
		mk := func() *fw {
			return &fw{r: hx.NewRng(seed), hr: hx.NewRng(hseed), at: map[int]bool{}, toolsOn: toolsOn, maxBits: 16384, guardAt: -1}
		}
		capLimit = 700
		d := mk()
		body(d)
		for i, m := range d.maxes {
			if m > 0 && m <= 4096 {
				for _, gv := range guardValues(m - 1) {
					f := mk()
					f.guardAt = i
					v := gv
					f.guardV = &v
					body(f)
					out = append(out, f.w.bytes(true))
				}
			}
		}
	}
	capLimit = 40
	return out
}

// guardValues: the values a guarded field (legal range 0..c) is swept over: just below, at and just above the guard,
// twice the guard, and the narrowing boundaries 255 / 256 / 65535 (a guard moved to any of these shows up as an
// outcome-class difference between the parser and the model at one of the values in between).
func guardValues(c uint64) []uint64 {
	var out []uint64
	seen := map[uint64]bool{}
	for _, v := range []uint64{c - 1, c, c + 1, 2 * c, 2*c + 1, 255, 256, 65535} {
		if c == 0 && v > 1<<62 {
			continue
		}
		if !seen[v] {
			seen[v] = true
			out = append(out, v)
		}
	}
	return out
}

// hevcRPSChainCounts: numbers of short-term reference picture sets for the worst-case chain units (see synHevcSTRPS):
// around the guard 64, and where a uint8 NumDeltaPocs would reach 255 (32 + 223) if the guard were higher.
var hevcRPSChainCounts = []int{2, 63, 64, 65, 128, 223, 224, 225, 255}

// hevcRPSChainUnits: one HEVC SPS per count, everything else plausible.
func hevcRPSChainUnits(r *hx.Rng) [][]byte {
	var out [][]byte
	for _, n := range hevcRPSChainCounts {
		f := &fw{r: hx.NewRng(r.U64()), hr: hx.NewRng(1), at: map[int]bool{}, maxBits: 1 << 16, guardAt: -1, chain: n}
		synHevcSPS(f, 0)
		out = append(out, f.w.bytes(true))
	}
	return out
}

// r0: an id drawn from the unit's own stream (identical in the dry run and the real run)
func r0(f *fw, xs ...int) int { return f.r.Pick(xs...) }

// ---------------------------------------------------------------- statistics (C16_STRUCT_STATS=N c16 ...)
//
// How often do the generated units PARSE in the real parsers?  Run in-process (clean tree only): prints, per
// target and per mode of the unit, the classes ok/err/panic; for the pipelines per stage, counting a stage
// only when the stages before it were written in valid mode.

var modeNames = []string{"valid", "hostile1", "hostile2", "trunc", "prob", "guard"}

type tally map[string]*[3]int // key -> ok, err, panic

func (t tally) add(key string, class int) {
	if t[key] == nil {
		t[key] = &[3]int{}
	}
	t[key][class]++
}

func classOf(f func() error) int {
	var err error
	if p := hx.Try(func() { err = f() }); p != "" {
		return 2
	}
	lastStatErr = err
	if err != nil {
		return 1
	}
	return 0
}

var lastStatErr error
var lastDump string

func structStats(n int, verbose bool) {
	t := tally{}
	structTraceOn = verbose
	r := hx.NewRng(12345)
	c := contextSets()
	for _, codec := range []string{"avc", "hevc"} {
		for i := 0; i < n; i++ {
			in := genStructPipeline(r, codec)
			tr := lastStructTrace
			a, b, rest := split3(in)
			var cl [3]int
			var errs [3]error
			if codec == "avc" {
				spsMap := map[uint32]*avc.SPS{}
				ppsMap := map[uint32]*avc.PPS{}
				for k, v := range c.avcSPS {
					spsMap[k] = v
				}
				for k, v := range c.avcPPS {
					ppsMap[k] = v
				}
				cl[0] = classOf(func() error {
					s, err := avc.ParseSPSNALUnit(a, true)
					if err == nil {
						spsMap[s.ParameterID] = s
					}
					return err
				})
				errs[0] = lastStatErr
				cl[1] = classOf(func() error {
					p, err := avc.ParsePPSNALUnit(b, spsMap)
					if err == nil {
						ppsMap[p.PicParameterSetID] = p
					}
					return err
				})
				errs[1] = lastStatErr
				cl[2] = classOf(func() error { _, err := avc.ParseSliceHeader(rest, spsMap, ppsMap); return err })
				errs[2] = lastStatErr
			} else {
				spsMap := map[uint32]*hevc.SPS{}
				ppsMap := map[uint32]*hevc.PPS{}
				for k, v := range c.hevcSPS {
					spsMap[k] = v
				}
				for k, v := range c.hevcPPS {
					ppsMap[k] = v
				}
				cl[0] = classOf(func() error {
					s, err := hevc.ParseSPSNALUnit(a)
					if err == nil {
						spsMap[uint32(s.SpsID)] = s
					}
					return err
				})
				errs[0] = lastStatErr
				cl[1] = classOf(func() error {
					p, err := hevc.ParsePPSNALUnit(b, spsMap)
					if err == nil {
						ppsMap[p.PicParameterSetID] = p
					}
					return err
				})
				errs[1] = lastStatErr
				cl[2] = classOf(func() error {
					h, err := hevc.ParseSliceHeader(rest, spsMap, ppsMap)
					if err != nil && verbose && h != nil {
						lastDump = fmt.Sprintf("%+v | PPS %+v", *h, *ppsMap[h.PicParameterSetId])
					}
					return err
				})
				errs[2] = lastStatErr
			}
			for st, name := range []string{"sps", "pps", "slice"} {
				if st > 0 && tr.modes[0] != modeValid || st > 1 && tr.modes[1] != modeValid {
					continue
				}
				t.add(codec+".pipeline "+name+" "+modeNames[tr.modes[st]], cl[st])
				if verbose && tr.modes[st] == modeValid && cl[st] != 0 {
					fmt.Printf("BAD %s %s class=%d len=%d/%d %v %s\n", codec, name, cl[st], len(a), len(b), errs[st], hx.Hex(in))
					if st == 2 {
						fmt.Printf("  TRACE %s\n  DUMP %s\n", strings.Join(lastSliceTrace, " "), lastDump)
					}
				}
			}
		}
	}
	for _, name := range []string{"avc.ParseSPSNALUnit", "avc.ParsePPSNALUnit", "avc.ParseSliceHeader",
		"hevc.ParseSPSNALUnit", "hevc.ParsePPSNALUnit", "hevc.ParseSliceHeader"} {
		for i := 0; i < n; i++ {
			in := genStructUnit(r, name)
			var cl int
			switch name {
			case "avc.ParseSPSNALUnit":
				cl = classOf(func() error { _, err := avc.ParseSPSNALUnit(in, true); return err })
			case "avc.ParsePPSNALUnit":
				cl = classOf(func() error { _, err := avc.ParsePPSNALUnit(in, c.avcSPS); return err })
			case "avc.ParseSliceHeader":
				cl = classOf(func() error { _, err := avc.ParseSliceHeader(in, c.avcSPS, c.avcPPS); return err })
			case "hevc.ParseSPSNALUnit":
				cl = classOf(func() error { _, err := hevc.ParseSPSNALUnit(in); return err })
			case "hevc.ParsePPSNALUnit":
				cl = classOf(func() error { _, err := hevc.ParsePPSNALUnit(in, c.hevcSPS); return err })
			case "hevc.ParseSliceHeader":
				cl = classOf(func() error { _, err := hevc.ParseSliceHeader(in, c.hevcSPS, c.hevcPPS); return err })
			}
			t.add(name+" "+modeNames[lastUnitMode], cl)
			if verbose && lastUnitMode == modeValid && cl != 0 {
				fmt.Printf("BAD %s class=%d %s %v\n", name, cl, hx.Hex(in), lastStatErr)
			}
		}
	}
	structStatsExtra(t, r, n, verbose)
	keys := make([]string, 0, len(t))
	for k := range t {
		keys = append(keys, k)
	}
	sort.Strings(keys)
	for _, k := range keys {
		v := t[k]
		tot := v[0] + v[1] + v[2]
		fmt.Printf("STAT\t%-40s\tn=%d\tok=%d (%.1f%%)\terr=%d\tpanic=%d\n", k, tot, v[0], 100*float64(v[0])/float64(tot), v[1], v[2])
	}
}

func init() {
	if v := os.Getenv("C16_STRUCT_STATS"); v != "" && (len(os.Args) < 2 || os.Args[1] != "worker") {
		n, _ := strconv.Atoi(v)
		if n <= 0 {
			n = 2000
		}
		structStats(n, os.Getenv("C16_STRUCT_VERBOSE") != "")
		os.Exit(0)
	}
}

// ---------------------------------------------------------------- wiring into casesFor (search.go)

// structShare: the multi-step targets get a larger share of the per-target budget.
func structShare(name string) int {
	switch name {
	case "avc.ParsePSAndSlice", "hevc.ParsePSAndSlice":
		return 6
	case "avc.ParseSPSAndSEI", "hevc.ParseSPSAndSEI", "avc.DecConfRecAndSlice", "hevc.DecConfRecAndSlice":
		return 2
	}
	return 1
}

// structCase: about 2/3 of the pipeline cases and 1/3 of the cases of the six single-unit parser targets
// come from the structured generators; the rest stays with the byte-level generators of search.go.
func structCase(r *hx.Rng, name string) (tcase, bool) {
	switch name {
	case "avc.ParsePSAndSlice", "hevc.ParsePSAndSlice":
		if r.Intn(3) == 0 {
			return tcase{}, false
		}
		return tcase{name, genStructPipeline(r, name[:strings.Index(name, ".")]), 0}, true
	case "avc.ParseSPSNALUnit", "avc.ParsePPSNALUnit", "avc.ParseSliceHeader",
		"hevc.ParseSPSNALUnit", "hevc.ParsePPSNALUnit", "hevc.ParseSliceHeader":
		if r.Intn(3) != 0 {
			return tcase{}, false
		}
		return tcase{name, genStructUnit(r, name), argsFor(r, name)}, true
	case "avc.ParseSPSAndSEI", "hevc.ParseSPSAndSEI":
		return tcase{name, genStructSPSAndSEI(r, name[:strings.Index(name, ".")]), 0}, true
	case "avc.DecConfRecAndSlice", "hevc.DecConfRecAndSlice":
		return tcase{name, genStructConfRecAndSlice(r, name[:strings.Index(name, ".")]), 0}, true
	}
	return tcase{}, false
}

// ---------------------------------------------------------------- SPS -> SEI

// synSEI writes an SEI NAL unit; the pic_timing payload (type 1) is laid out with the lengths that the
// SEI parser takes from the SPS just written (VUI / HRD).
func synSEI(f *fw, codec string, a avcSPSInfo, h hevcSPSInfo) {
	if codec == "avc" {
		f.raw(0x06, 8)
	} else {
		f.raw(uint64(f.r.Pick(0x4e01, 0x4e01, 0x5001)), 16)
	}
	k := f.r.Range(1, 3)
	for m := 0; m < k; m++ {
		typ := f.r.Pick(1, 1, 1, 1, 136, 137, 144, 4, 5, 0, 6, 45)
		saved := f.w
		f.w = bitw{}
		switch {
		case typ == 1 && codec == "avc":
			var tol uint64
			if a.vui && a.hrd {
				f.u("cpb_removal_delay", int(a.cpbLen)+1)
				f.u("dpb_output_delay", int(a.dpbLen)+1)
				tol = a.timeOffsetLen
			}
			ps := f.u("pic_struct", 4, 0, 1, 2, 3, 5, 8)
			n := 3
			if ps <= 2 {
				n = 1
			} else if ps <= 4 {
				n = 2
			}
			for i := 0; i < n && ps <= 8; i++ {
				if !f.flag("clock_timestamp_flag", 60) {
					continue
				}
				f.u("ct_type", 2)
				f.flag("nuit_field_based_flag", 50)
				f.u("counting_type", 5, 0, 1, 4)
				full := f.flag("full_timestamp_flag", 50)
				f.flag("discontinuity_flag", 20)
				f.flag("cnt_dropped_flag", 20)
				f.u("n_frames", 8, 0, 12, 29)
				if full {
					f.u("seconds_value", 6, 0, 30, 59)
					f.u("minutes_value", 6, 0, 30, 59)
					f.u("hours_value", 5, 0, 12, 23)
				} else if f.flag("seconds_flag", 60) {
					f.u("seconds_value", 6, 0, 30, 59)
					if f.flag("minutes_flag", 60) {
						f.u("minutes_value", 6, 0, 30, 59)
						if f.flag("hours_flag", 60) {
							f.u("hours_value", 5, 0, 12, 23)
						}
					}
				}
				if byte(tol) > 0 {
					f.u("time_offset", int(byte(tol)))
				}
			}
		case typ == 1 && h.vui:
			if h.ffi {
				f.u("pic_struct", 4, 0, 1, 7, 12)
				f.u("source_scan_type", 2)
				f.flag("duplicate_flag", 20)
			}
			if h.cpbDpb {
				f.u("au_cpb_removal_delay_minus1", int(h.auLen)+1)
				f.u("pic_dpb_output_delay", int(h.dpbLen)+1)
				if h.subPic {
					f.u("pic_dpb_output_du_delay", int(h.duDpbLen)+1)
					if h.subPicInPT {
						n := f.ue("num_decoding_units_minus1", 1<<16, 0, 1, 3)
						common := f.flag("du_common_cpb_removal_delay_flag", 50)
						if common {
							f.u("du_common_cpb_removal_delay_increment_minus1", int(h.duIncLen)+1)
						}
						for i := 0; i <= capN(uint64(uint32(n))); i++ {
							f.ue("num_nalus_in_du_minus1", 1<<16, 0, 1)
							if !common && uint64(i) < uint64(uint32(n)) {
								f.u("du_cpb_removal_delay_increment_minus1", int(h.duIncLen)+1)
							}
						}
					}
				}
			}
		default:
			size := map[int]int{136: 8, 137: 24, 144: 4, 4: 12, 5: 20}[typ]
			if size == 0 {
				size = f.r.Range(0, 12)
			}
			for i := 0; i < size; i++ {
				f.raw(f.r.U64(), 8)
			}
		}
		if len(f.w.bits)%8 != 0 {
			f.trailing()
		}
		payload := f.w.bits
		f.w = saved
		f.u("payload_type", 8, typ)
		f.u("payload_size", 8, len(payload)/8)
		if f.room(len(payload)) {
			f.w.bits = append(f.w.bits, payload...)
		}
	}
	f.raw(0x80, 8)
}

// genStructSPSAndSEI: len1 SPS[len1] SEI-NALU (the SPS mostly with VUI and HRD, each part in its own mode).
func genStructSPSAndSEI(r *hx.Rng, codec string) []byte {
	toolsOn := r.Intn(10) < 8
	var a avcSPSInfo
	var h hevcSPSInfo
	var sps []byte
	if codec == "avc" {
		sps, _ = writeUnit(r, pickMode(r, true), toolsOn, unitMaxBits, func(f *fw) { a = synAvcSPS(f, 0) })
	} else {
		sps, _ = writeUnit(r, pickMode(r, true), toolsOn, unitMaxBits, func(f *fw) { h = synHevcSPS(f, 0) })
	}
	sps = clip255(sps)
	sei, f := writeUnit(r, pickMode(r, true), toolsOn, 4096, func(f *fw) { synSEI(f, codec, a, h) })
	lastUnitHostile = f.hostile
	return append(append([]byte{byte(len(sps))}, sps...), sei...)
}

func cut1(in []byte) (head, tail []byte) {
	if len(in) == 0 {
		return nil, nil
	}
	n := int(in[0])
	in = in[1:]
	if n > len(in) {
		n = len(in)
	}
	return in[:n:n], in[n:]
}

// ---------------------------------------------------------------- configuration record -> parameter sets -> slice

var hevcRecHeader = hx.UnHex("0101600000009000000000005df000fcfdf8f800000f")

func be16(n int) []byte { return []byte{byte(n >> 8), byte(n)} }

// genStructConfRecAndSlice: len(2 bytes, big endian) record, then a slice header written against the
// parameter sets inside the record.
func genStructConfRecAndSlice(r *hx.Rng, codec string) []byte {
	toolsOn := r.Intn(10) < 7
	lenOf := func(b []byte) []byte { // the 16-bit NALU length, rarely off by one
		n := len(b)
		if r.Intn(40) == 0 {
			n += r.Pick(-1, 1)
		}
		if n < 0 {
			n = 0
		}
		return be16(n)
	}
	var rec, sl []byte
	if codec == "avc" {
		var si avcSPSInfo
		var pi avcPPSInfo
		sps, _ := writeUnit(r, pickMode(r, true), toolsOn, 4096, func(f *fw) { si = synAvcSPS(f, uint64(r0(f, 0, 0, 0, 1))) })
		pps, _ := writeUnit(r, pickMode(r, true), toolsOn, 4096, func(f *fw) { pi = synAvcPPS(f, uint64(r0(f, 0, 0, 0, 1, 3)), uint64(si.id), si) })
		sl, _ = writeUnit(r, pickMode(r, true), toolsOn, 4096, func(f *fw) { synAvcSlice(f, uint64(pi.id), pi, si) })
		profile := byte(100)
		if len(sps) > 1 {
			profile = sps[1]
		}
		rec = []byte{1, profile, 0, 30, 0xff, 0xe1}
		rec = append(append(rec, lenOf(sps)...), sps...)
		rec = append(rec, 1)
		rec = append(append(rec, lenOf(pps)...), pps...)
		if profile != 66 && profile != 77 && profile != 88 && r.Intn(3) != 0 {
			rec = append(rec, 0xfc|si.chroma&3, 0xf8, 0xf8, 0)
		}
	} else {
		var si hevcSPSInfo
		var pi hevcPPSInfo
		sps, _ := writeUnit(r, pickMode(r, true), toolsOn, 4096, func(f *fw) { si = synHevcSPS(f, uint64(r0(f, 0, 0, 0, 1))) })
		pps, _ := writeUnit(r, pickMode(r, true), toolsOn, 4096, func(f *fw) { pi = synHevcPPS(f, uint64(r0(f, 0, 0, 0, 1, 3)), uint64(si.id)) })
		sl, _ = writeUnit(r, pickMode(r, true), toolsOn, 4096, func(f *fw) { synHevcSlice(f, uint64(pi.id), pi, si) })
		rec = append([]byte{}, hevcRecHeader...)
		vps := hx.UnHex("40010c01ffff016000000300900000030000030078959809")
		rec = append(rec, 3)
		for _, a := range []struct {
			typ  byte
			nalu []byte
		}{{0xa0, vps}, {0xa1, sps}, {0xa2, pps}} {
			rec = append(rec, a.typ, 0, 1)
			rec = append(append(rec, lenOf(a.nalu)...), a.nalu...)
		}
	}
	if len(rec) > 65535 {
		rec = rec[:65535]
	}
	return append(append(be16(len(rec)), rec...), sl...)
}

func cut2(in []byte) (head, tail []byte) {
	if len(in) < 2 {
		return nil, nil
	}
	n := int(binary.BigEndian.Uint16(in))
	in = in[2:]
	if n > len(in) {
		n = len(in)
	}
	return in[:n:n], in[n:]
}

func callAvcSPSAndSEI(in []byte, arg int) (string, func() string) {
	a, rest := cut1(in)
	var sps *avc.SPS
	if s, err := avc.ParseSPSNALUnit(a, true); err == nil {
		sps = s
	}
	msgs, err := avc.ParseSEINalu(rest, sps)
	sink = useMsgs(msgs)
	return errClass(err), func() string { return fmt.Sprint(len(msgs)) }
}

func callHevcSPSAndSEI(in []byte, arg int) (string, func() string) {
	a, rest := cut1(in)
	var sps *hevc.SPS
	if s, err := hevc.ParseSPSNALUnit(a); err == nil {
		sps = s
	}
	msgs, err := hevc.ParseSEINalu(rest, sps)
	sink = useMsgs(msgs)
	return errClass(err), func() string { return fmt.Sprint(len(msgs)) }
}

func callAvcDecConfRecAndSlice(in []byte, arg int) (string, func() string) {
	recBytes, rest := cut2(in)
	rec, err := avc.DecodeAVCDecConfRec(recBytes)
	if err != nil {
		return "err", nil
	}
	spsMap := map[uint32]*avc.SPS{}
	ppsMap := map[uint32]*avc.PPS{}
	for _, n := range rec.SPSnalus {
		if s, err := avc.ParseSPSNALUnit(n, true); err == nil && s != nil {
			spsMap[s.ParameterID] = s
		}
	}
	for _, n := range rec.PPSnalus {
		if p, err := avc.ParsePPSNALUnit(n, spsMap); err == nil && p != nil {
			ppsMap[p.PicParameterSetID] = p
		}
	}
	h, err := avc.ParseSliceHeader(rest, spsMap, ppsMap)
	sink = h
	return errClass(err), func() string { return sliceString(h) }
}

func callHevcDecConfRecAndSlice(in []byte, arg int) (string, func() string) {
	recBytes, rest := cut2(in)
	rec, err := hevc.DecodeHEVCDecConfRec(recBytes)
	if err != nil {
		return "err", nil
	}
	spsMap := map[uint32]*hevc.SPS{}
	ppsMap := map[uint32]*hevc.PPS{}
	for _, n := range rec.GetNalusForType(hevc.NALU_SPS) {
		if s, err := hevc.ParseSPSNALUnit(n); err == nil && s != nil {
			spsMap[uint32(s.SpsID)] = s
		}
	}
	for _, n := range rec.GetNalusForType(hevc.NALU_PPS) {
		if p, err := hevc.ParsePPSNALUnit(n, spsMap); err == nil && p != nil {
			ppsMap[p.PicParameterSetID] = p
		}
	}
	h, err := hevc.ParseSliceHeader(rest, spsMap, ppsMap)
	sink = h
	return errClass(err), func() string {
		if err != nil {
			return ""
		}
		return hevcSliceString(h)
	}
}

func init() {
	register(
		target{"avc.ParseSPSAndSEI", false, callAvcSPSAndSEI},
		target{"hevc.ParseSPSAndSEI", false, callHevcSPSAndSEI},
		target{"avc.DecConfRecAndSlice", false, callAvcDecConfRecAndSlice},
		target{"hevc.DecConfRecAndSlice", false, callHevcDecConfRecAndSlice},
	)
}

func allValid(ms []int) bool {
	for _, m := range ms {
		if m != modeValid {
			return false
		}
	}
	return true
}

func structStatsExtra(t tally, r *hx.Rng, n int, verbose bool) {
	for _, x := range []struct {
		name string
		gen  func() []byte
		call func([]byte, int) (string, func() string)
	}{
		{"avc.ParseSPSAndSEI", func() []byte { return genStructSPSAndSEI(r, "avc") }, callAvcSPSAndSEI},
		{"hevc.ParseSPSAndSEI", func() []byte { return genStructSPSAndSEI(r, "hevc") }, callHevcSPSAndSEI},
		{"avc.DecConfRecAndSlice", func() []byte { return genStructConfRecAndSlice(r, "avc") }, callAvcDecConfRecAndSlice},
		{"hevc.DecConfRecAndSlice", func() []byte { return genStructConfRecAndSlice(r, "hevc") }, callHevcDecConfRecAndSlice},
	} {
		for i := 0; i < n; i++ {
			lastModes = lastModes[:0]
			in := x.gen()
			key := " (some stage not valid)"
			if allValid(lastModes) {
				key = " (all stages valid)"
			}
			cl := classOf(func() error {
				c, _ := x.call(in, 0)
				if c != "ok" {
					return fmt.Errorf("%s", c)
				}
				return nil
			})
			t.add(x.name+key, cl)
			if verbose && cl != 0 && allValid(lastModes) {
				fmt.Printf("BAD %s %s\n", x.name, hx.Hex(in))
			}
		}
	}
}
