package main

// Correspondence targets for the HEVC parser models of C16 (coq/c16/C16HevcParseModel.v = C15's HEVC model
// with data-derived loop fuel, plus C16's own skeletons of the PPS multilayer / 3D extension parsers, which
// C15 does not model).  The "#m" targets return projected values of the slice header; their reference context
// is the full one (all four reference PPS; the fourth selects the multilayer extension and, having id 0 like
// the others, is the one every context slice refers to).

import (
	"fmt"

	"github.com/Eyevinn/mp4ff/hevc"
	"verifharness/hx"
)

var hevcModelPPSHex = hevcPPSHex

var hevcModelCtx *ctxSets

func hevcModelSets() *ctxSets {
	if hevcModelCtx != nil {
		return hevcModelCtx
	}
	c := &ctxSets{hevcSPS: map[uint32]*hevc.SPS{}, hevcPPS: map[uint32]*hevc.PPS{}}
	for _, h := range hevcSPSHex {
		if s, err := hevc.ParseSPSNALUnit(hx.UnHex(h)); err == nil {
			c.hevcSPS[uint32(s.SpsID)] = s
		}
	}
	for _, h := range hevcModelPPSHex {
		if p, err := hevc.ParsePPSNALUnit(hx.UnHex(h), c.hevcSPS); err == nil {
			c.hevcPPS[p.PicParameterSetID] = p
		}
	}
	hevcModelCtx = c
	return c
}

func hevcSPSString(s *hevc.SPS) string {
	if s == nil {
		return ""
	}
	return fmt.Sprintf("%x,%x,%x,%x,%x,%x", s.SpsID, s.PicWidthInLumaSamples, s.PicHeightInLumaSamples, s.ChromaFormatIDC,
		s.NumShortTermRefPicSets, s.NumLongTermRefPics)
}

func hevcPPSString(p *hevc.PPS) string {
	if p == nil {
		return ""
	}
	w := 0
	if p.WeightedPredFlag {
		w = 1
	}
	return fmt.Sprintf("%x,%x,%x,%x,%x", p.PicParameterSetID, p.SeqParameterSetID, p.NumRefIdxL0DefaultActiveMinus1, p.NumExtraSliceHeaderBits, w)
}

func hevcSliceString(h *hevc.SliceHeader) string {
	if h == nil {
		return ""
	}
	return fmt.Sprintf("%x,%x,%x,%x,%x,%x", uint64(h.SliceType), h.PicParameterSetId, h.NumRefIdxL0ActiveMinus1, h.SegmentAddress,
		h.NumEntryPointOffsets, h.Size)
}

func init() {
	register(
		target{"hevc.ParseSliceHeader#m", true, func(in []byte, arg int) (string, func() string) {
			c := hevcModelSets()
			h, err := hevc.ParseSliceHeader(in, c.hevcSPS, c.hevcPPS)
			sink = h
			return errClass(err), func() string {
				if err != nil {
					return ""
				}
				return hevcSliceString(h)
			}
		}},
		target{"hevc.ParsePSAndSlice#m", true, func(in []byte, arg int) (string, func() string) {
			c := hevcModelSets()
			spsMap := map[uint32]*hevc.SPS{}
			ppsMap := map[uint32]*hevc.PPS{}
			for k, v := range c.hevcSPS {
				spsMap[k] = v
			}
			for k, v := range c.hevcPPS {
				ppsMap[k] = v
			}
			a, b, rest := split3(in)
			if s, err := hevc.ParseSPSNALUnit(a); err == nil && s != nil {
				spsMap[uint32(s.SpsID)] = s
			}
			if p, err := hevc.ParsePPSNALUnit(b, spsMap); err == nil && p != nil {
				ppsMap[p.PicParameterSetID] = p
			}
			h, err := hevc.ParseSliceHeader(rest, spsMap, ppsMap)
			sink = h
			return errClass(err), func() string {
				if err != nil {
					return ""
				}
				return hevcSliceString(h)
			}
		}},
	)
}

// hevcModelCorrCases: the hostile inputs of the unsuffixed targets, sent to the "#m" targets.
func hevcModelCorrCases(seed uint64, round, n, total int) []tcase {
	cs := casesFor([]string{"hevc.ParseSliceHeader", "hevc.ParsePSAndSlice"}, seed, round, n/40) // the HEVC models are the slow part of the driver
	for i := range cs {
		cs[i].target += "#m"
	}
	return cs
}
