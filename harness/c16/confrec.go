package main

// Value-level targets for the decoder configuration record decoders (modelled in
// coq/c16/C16ConfRecModel.v) and the generator of their correspondence cases.
//
// Value text (one line, no tabs; numbers in lower-case hex without prefix, a byte string is
// hx.Hex = two digits per byte or "-" when empty, a list of NAL units is nalusString = the units
// joined by "," or "[]" when there is none; groups are separated by ";"):
//
//	avc.DecodeAVCDecConfRec#v    profile,compat,level;SPS units;PPS units;chroma,bitDepthLumaM1,bitDepthChromaM1,numSPSExt,noTrailingInfo
//	hevc.DecodeHEVCDecConfRec#v  version,profileSpace,tier,profileIDC,compatFlags,constraintFlags,level,minSpatialSeg,
//	                             parallelism,chroma,bitDepthLumaM8,bitDepthChromaM8,avgFrameRate,constFrameRate,
//	                             numTemporalLayers,temporalIDNested,lengthSizeMinusOne
//	                             then for every array  ;complete,naluType,units
//	av1.DecodeAV1CodecConfRec#v  version,seqProfile,seqLevelIdx0,seqTier0,highBitdepth,twelveBit,monoChrome,
//	                             subsamplingX,subsamplingY,samplePosition,delayPresent,delayMinusOne;configOBUs

import (
	"bytes"
	"strings"

	"github.com/Eyevinn/mp4ff/av1"
	"github.com/Eyevinn/mp4ff/avc"
	"github.com/Eyevinn/mp4ff/hevc"
	"verifharness/hx"
)

func crHexList(vs ...uint64) string {
	ss := make([]string, len(vs))
	for i, v := range vs {
		ss[i] = hx.HexU(v)
	}
	return strings.Join(ss, ",")
}

func crB2U(b bool) uint64 {
	if b {
		return 1
	}
	return 0
}

const (
	crAVC  = "avc.DecodeAVCDecConfRec#v"
	crHEVC = "hevc.DecodeHEVCDecConfRec#v"
	crAV1  = "av1.DecodeAV1CodecConfRec#v"
	// the rest of the av1 package surface: Size and Encode of a decoded record, and of an arbitrary record value
	crAV1DecEnc = "av1.DecodeEncode#v"
	crAV1EncRec = "av1.EncodeRec#v"
)

func av1EncString(r *av1.CodecConfRec) (string, func() string) {
	var b bytes.Buffer
	size := r.Size()
	if err := r.Encode(&b); err != nil {
		return "err", nil
	}
	out := b.Bytes()
	return "ok", func() string { return hx.HexU(size) + ";" + hx.Hex(out) }
}

func init() {
	register(
		target{crAVC, true, func(in []byte, arg int) (string, func() string) {
			r, err := avc.DecodeAVCDecConfRec(in)
			if err != nil {
				return "err", nil
			}
			return "ok", func() string {
				return crHexList(uint64(r.AVCProfileIndication), uint64(r.ProfileCompatibility), uint64(r.AVCLevelIndication)) +
					";" + nalusString(r.SPSnalus) + ";" + nalusString(r.PPSnalus) + ";" +
					crHexList(uint64(r.ChromaFormat), uint64(r.BitDepthLumaMinus1), uint64(r.BitDepthChromaMinus1),
						uint64(r.NumSPSExt), crB2U(r.NoTrailingInfo))
			}
		}},
		target{crHEVC, true, func(in []byte, arg int) (string, func() string) {
			r, err := hevc.DecodeHEVCDecConfRec(in)
			if err != nil {
				return "err", nil
			}
			return "ok", func() string {
				var sb strings.Builder
				sb.WriteString(crHexList(uint64(r.ConfigurationVersion), uint64(r.GeneralProfileSpace), crB2U(r.GeneralTierFlag),
					uint64(r.GeneralProfileIDC), uint64(r.GeneralProfileCompatibilityFlags), r.GeneralConstraintIndicatorFlags,
					uint64(r.GeneralLevelIDC), uint64(r.MinSpatialSegmentationIDC), uint64(r.ParallellismType),
					uint64(r.ChromaFormatIDC), uint64(r.BitDepthLumaMinus8), uint64(r.BitDepthChromaMinus8),
					uint64(r.AvgFrameRate), uint64(r.ConstantFrameRate), uint64(r.NumTemporalLayers),
					uint64(r.TemporalIDNested), uint64(r.LengthSizeMinusOne)))
				for i := range r.NaluArrays {
					a := &r.NaluArrays[i]
					sb.WriteString(";" + crHexList(uint64(a.Complete()), uint64(a.NaluType())) + "," + nalusString(a.Nalus))
				}
				return sb.String()
			}
		}},
		target{crAV1DecEnc, true, func(in []byte, arg int) (string, func() string) {
			r, err := av1.DecodeAV1CodecConfRec(in)
			if err != nil {
				return "err", nil
			}
			return av1EncString(&r)
		}},
		target{crAV1EncRec, true, func(in []byte, arg int) (string, func() string) {
			if len(in) < 12 {
				return "err", nil
			}
			r := av1.CodecConfRec{Version: in[0], SeqProfile: in[1], SeqLevelIdx0: in[2], SeqTier0: in[3], HighBitdepth: in[4],
				TwelveBit: in[5], MonoChrome: in[6], ChromaSubsamplingX: in[7], ChromaSubsamplingY: in[8],
				ChromaSamplePosition: in[9], InitialPresentationDelayPresent: in[10], InitialPresentationDelayMinusOne: in[11],
				ConfigOBUs: in[12:]}
			return av1EncString(&r)
		}},
		target{crAV1, true, func(in []byte, arg int) (string, func() string) {
			r, err := av1.DecodeAV1CodecConfRec(in)
			if err != nil {
				return "err", nil
			}
			return "ok", func() string {
				return crHexList(uint64(r.Version), uint64(r.SeqProfile), uint64(r.SeqLevelIdx0), uint64(r.SeqTier0),
					uint64(r.HighBitdepth), uint64(r.TwelveBit), uint64(r.MonoChrome), uint64(r.ChromaSubsamplingX),
					uint64(r.ChromaSubsamplingY), uint64(r.ChromaSamplePosition), uint64(r.InitialPresentationDelayPresent),
					uint64(r.InitialPresentationDelayMinusOne)) + ";" + hx.Hex(r.ConfigOBUs)
			}
		}},
	)
}

// ---------------------------------------------------------------------------------- generators

func crNalu(r *hx.Rng, first []byte) []byte {
	n := r.Pick(0, 1, 1, 2, 3, 5, 8, 13, 30)
	if r.Intn(50) == 0 {
		n = r.Range(31, 400)
	}
	b := r.Bytes(n, nil)
	if n > 0 {
		b[0] = first[r.Intn(len(first))]
	}
	return b
}

func crPut16(b []byte, v int) []byte { return append(b, byte(v>>8), byte(v)) }

// crField is the offset of a count / length field of a generated record and its width in bytes.
type crField struct{ off, width int }

// crGenAVC: a well-formed avcC payload and the offsets of its count and length fields.
func crGenAVC(r *hx.Rng) ([]byte, []crField) {
	prof := r.Pick(66, 77, 88, 100, 100, 110, 122, 244, 44, 0, 255)
	b := []byte{1, byte(prof), byte(r.U64()), byte(r.U64()), 0xfc | 3}
	var fs []crField
	nSPS := r.Pick(0, 1, 1, 1, 2, 3)
	if r.Intn(30) == 0 {
		nSPS = r.Range(4, 31)
	}
	fs = append(fs, crField{len(b), 1})
	b = append(b, 0xe0|byte(nSPS))
	for i := 0; i < nSPS; i++ {
		n := crNalu(r, []byte{0x67, 0x27, 0x47})
		fs = append(fs, crField{len(b), 2})
		b = append(crPut16(b, len(n)), n...)
	}
	nPPS := r.Pick(0, 1, 1, 1, 2, 3)
	if r.Intn(30) == 0 {
		nPPS = r.Range(4, 40)
	}
	fs = append(fs, crField{len(b), 1})
	b = append(b, byte(nPPS))
	for i := 0; i < nPPS; i++ {
		n := crNalu(r, []byte{0x68, 0x28, 0x48})
		fs = append(fs, crField{len(b), 2})
		b = append(crPut16(b, len(n)), n...)
	}
	switch r.Intn(8) {
	case 0: // no trailing info at all (accepted for every profile)
	case 1: // NumSPSExt != 0: error for the profiles with trailing info
		b = append(b, 0xfc|byte(r.Intn(4)), 0xf8|byte(r.Intn(8)), 0xf8|byte(r.Intn(8)), byte(r.Range(1, 255)))
	case 2: // reserved bits not all set
		b = append(b, byte(r.U64()), byte(r.U64()), byte(r.U64()), 0)
	default:
		b = append(b, 0xfc|byte(r.Intn(4)), 0xf8|byte(r.Intn(8)), 0xf8|byte(r.Intn(8)), 0)
	}
	return b, fs
}

// crGenHEVC: a well-formed hvcC payload and the offsets of its count and length fields.
func crGenHEVC(r *hx.Rng) ([]byte, []crField) {
	b := []byte{1}
	b = append(b, r.Bytes(20, nil)...)
	b = append(b, byte(r.U64())|3)
	var fs []crField
	nArr := r.Pick(0, 1, 2, 3, 3, 3, 4, 5)
	if r.Intn(40) == 0 {
		nArr = r.Range(6, 40)
	}
	fs = append(fs, crField{len(b), 1})
	b = append(b, byte(nArr))
	for j := 0; j < nArr; j++ {
		ct := r.Pick(0x20, 0x21, 0x22, 0xa0, 0xa1, 0xa2, 0x27, 0x28, 0x60, 0xff, 0x00)
		b = append(b, byte(ct))
		nn := r.Pick(0, 1, 1, 1, 2, 3)
		if r.Intn(40) == 0 {
			nn = r.Range(4, 30)
		}
		fs = append(fs, crField{len(b), 2})
		b = crPut16(b, nn)
		for i := 0; i < nn; i++ {
			n := crNalu(r, []byte{0x40, 0x42, 0x44, 0x4e})
			fs = append(fs, crField{len(b), 2})
			b = append(crPut16(b, len(n)), n...)
		}
	}
	return b, fs
}

func crGenAV1(r *hx.Rng) ([]byte, []crField) {
	b3 := byte(0)
	if r.Bool() {
		b3 = 0x10 | byte(r.Intn(16))
	}
	b := []byte{0x81, byte(r.U64()), byte(r.U64()), b3}
	if r.Intn(3) != 0 {
		b = append(b, r.Bytes(r.Pick(1, 2, 5, 13, 40), nil)...)
	}
	return b, nil
}

func crSet(b []byte, f crField, v int) {
	if f.width == 1 {
		b[f.off] = byte(v)
	} else {
		b[f.off], b[f.off+1] = byte(v>>8), byte(v)
	}
}

func crGet(b []byte, f crField) int {
	if f.width == 1 {
		return int(b[f.off])
	}
	return int(b[f.off])<<8 | int(b[f.off+1])
}

// crMutate: the malformed stream.  60 % of the generated records are left well-formed.
func crMutate(r *hx.Rng, rec []byte, fs []crField) []byte {
	b := append([]byte{}, rec...)
	switch m := r.Intn(100); {
	case m < 60:
	case m < 70: // truncation
		if len(b) > 0 {
			b = b[:r.Intn(len(b))]
		}
	case m < 82: // hostile count / length
		if len(fs) > 0 {
			f := fs[r.Intn(len(fs))]
			old := crGet(b, f)
			v := r.Pick(0, 1, old+1, old-1, 0xff, 0xffff, 0x7fff, 0x8000, 0xfffe, len(b)-f.off, len(b)-f.off-f.width)
			if v < 0 {
				v = 0
			}
			crSet(b, f, v)
		}
	case m < 88: // hostile count / length, then truncation
		if len(fs) > 0 {
			f := fs[r.Intn(len(fs))]
			crSet(b, f, r.Pick(0xff, 0xffff, crGet(b, f)+1))
			b = b[:r.Range(f.off, len(b))]
		}
	case m < 94: // byte flips
		for i := 0; i < 1+r.Intn(3) && len(b) > 0; i++ {
			b[r.Intn(len(b))] ^= byte(1 << uint(r.Intn(8)))
		}
	case m < 97: // random byte in the fixed header
		if len(b) > 0 {
			k := r.Intn(len(b))
			if k > 22 {
				k = r.Intn(23)
			}
			b[k] = byte(r.U64())
		}
	default: // trailing bytes
		b = append(b, r.Bytes(r.Range(1, 6), []byte{0, 1, 0xff, 0xfc, 0xf8})...)
	}
	return b
}

// records decoded without error by the pinned code (avcC of a High-profile stream with and without
// trailing info, a Baseline one; hvcC with VPS/SPS/PPS arrays; av1C with and without OBUs)
var crWitnesses = map[string][]string{
	crAVC: {"0164001effe100196764001eacd940a02ff9610000030001000003003c8f162d9601000568ebecb22cfdf8f800",
		"0164001effe100196764001eacd940a02ff9610000030001000003003c8f162d9601000568ebecb22c",
		"0142001effe1000467420001010002684e", "0142001effe000", "0164001effe000", "0164001effe000fcf8f800", "0164001effe000fcf8f801",
		"0164001effffffff", "0164001effe0ffffff", "0164001effe1ffff", "0164001effe0ff"},
	crHEVC: {"0101600000009000000000007800f000fcfdf8f800000f03200001001840010c01ffff016000000300900000030000030078959809" +
		"2100010004420101012200010003" + "4401c1",
		"01016000000090000000000078f000fcfdf8f800000f00", "01016000000090000000000078f000fcfdf8f800000fff",
		"01016000000090000000000078f000fcfdf8f800000f01a0ffff", "01016000000090000000000078f000fcfdf8f800000f01a00001ffff",
		"01016000000090000000000078f000fcfdf8f800000f", "01016000000090000000000078f000fcfdf8f800000c00",
		"01016000000090000000000078f000fcfdf8f800000fffa0", "01016000000090000000000078f000fcfdf8f800000fffa000"},
	crAV1: {"81053c00", "81", "8105", "81053c", "81053c000a0b0000004aabbfc377ffe701", "01053c00", "80053c00", "82053c00",
		"81053c20", "81053c1f", "81053c0f", "81ffff10"},
}

// confRecCorrCases: round 0 starts with the deterministic part (the fixed records, every truncation
// of each, the empty input, count fields set to 0xff / 0xffff with and without data behind them);
// then n generated records, each decoded by its own decoder and, one time in eight, by another one.
func confRecCorrCases(seed uint64, round, n, total int) []tcase {
	r := hx.NewRng(seed*1000003 + uint64(round))
	var cs []tcase
	names := []string{crAVC, crHEVC, crAV1}
	if round == 0 {
		for _, name := range names {
			cs = append(cs, tcase{name, []byte{}, 0})
			for _, h := range crWitnesses[name] {
				b := hx.UnHex(h)
				for k := 0; k <= len(b); k++ {
					cs = append(cs, tcase{name, b[:k], 0})
				}
			}
		}
		for k := 0; k < 6; k++ {
			for _, gen := range []struct {
				name string
				f    func(*hx.Rng) ([]byte, []crField)
			}{{crAVC, crGenAVC}, {crHEVC, crGenHEVC}} {
				rec, fs := gen.f(r)
				for _, f := range fs {
					for _, v := range []int{0xff, 0xffff} {
						b := append([]byte{}, rec...)
						crSet(b, f, v)
						cs = append(cs, tcase{gen.name, b, 0})
						cs = append(cs, tcase{gen.name, append([]byte{}, b[:f.off+f.width]...), 0})
					}
				}
				for k := 0; k <= len(rec); k++ {
					cs = append(cs, tcase{gen.name, rec[:k], 0})
				}
			}
		}
	}
	if round == 0 {
		// av1 Encode: every value of each header byte of an accepted record (decode -> Size/Encode), and every
		// record field at the edges of its bit width and beyond (Encode of an arbitrary value)
		for v := 0; v < 256; v++ {
			cs = append(cs, tcase{crAV1DecEnc, []byte{0x81, byte(v), byte(r.U64()), 0x10 | byte(r.Intn(16))}, 0})
			cs = append(cs, tcase{crAV1DecEnc, append([]byte{0x81, byte(r.U64()), byte(v), 0}, r.Bytes(r.Intn(6), nil)...), 0})
			cs = append(cs, tcase{crAV1DecEnc, []byte{0x81, 0x05, 0x3c, byte(v)}, 0})
			cs = append(cs, tcase{crAV1DecEnc, []byte{byte(v), 0x05, 0x3c, 0}, 0})
		}
		for _, h := range crWitnesses[crAV1] {
			b := hx.UnHex(h)
			for k := 0; k <= len(b); k++ {
				cs = append(cs, tcase{crAV1DecEnc, b[:k], 0})
			}
		}
		for f := 0; f < 12; f++ {
			for _, v := range []int{0, 1, 2, 3, 4, 7, 8, 15, 16, 17, 31, 32, 63, 64, 127, 128, 129, 254, 255} {
				b := r.Bytes(12, nil)
				if r.Bool() {
					b = []byte{1, 0, 5, 0, 0, 0, 1, 1, 1, 0, 0, 0}
				}
				b[f] = byte(v)
				cs = append(cs, tcase{crAV1EncRec, append(b, r.Bytes(r.Pick(0, 0, 1, 3, 9), nil)...), 0})
			}
		}
	}
	for i := 0; i < n; i++ {
		var rec []byte
		var fs []crField
		var name string
		if r.Intn(25) == 0 {
			b, _ := crGenAV1(r)
			cs = append(cs, tcase{crAV1DecEnc, crMutate(r, b, nil), 0})
			cs = append(cs, tcase{crAV1EncRec, r.Bytes(r.Range(10, 20), nil), 0})
		}
		switch k := r.Intn(20); {
		case k < 8:
			name = crAVC
			rec, fs = crGenAVC(r)
		case k < 17:
			name = crHEVC
			rec, fs = crGenHEVC(r)
		default:
			name = crAV1
			rec, fs = crGenAV1(r)
		}
		b := crMutate(r, rec, fs)
		if r.Intn(8) == 0 {
			name = names[r.Intn(len(names))]
		}
		cs = append(cs, tcase{name, b, 0})
	}
	return cs
}
