package main

// Stage 2 targets: every other entry point named by the property statement (Annex B scanners,
// parameter-set and slice-header parsers, SEI extraction and typed decoders with their
// String/Payload/Size methods, ADTS / AudioSpecificConfig, AVC/HEVC/AV1 configuration records).
// They are exercised by `search` (the property itself: value or error, bounded time and memory).

import (
	"bytes"
	"fmt"
	"strings"

	"github.com/Eyevinn/mp4ff/aac"
	"github.com/Eyevinn/mp4ff/av1"
	"github.com/Eyevinn/mp4ff/avc"
	"github.com/Eyevinn/mp4ff/hevc"
	"github.com/Eyevinn/mp4ff/sei"
	"verifharness/hx"
)

// stringBound: "1" when the text String() renders is within the bound the theorems state for the model's render
// cost (C16_sei_RegisteredSEI_String_total / C16_sei_UnregisteredSEI_String_total), otherwise its length
func stringBound(m sei.SEIMessage, bound int) string {
	if m == nil || isNilMsg(m) {
		return ""
	}
	if n := len(m.String()); n > bound {
		return fmt.Sprintf("String() renders %d bytes, bound %d", n, bound)
	}
	return "1"
}

func errClass(err error) string {
	if err != nil {
		return "err"
	}
	return "ok"
}

// useMsgs calls every method of the decoded messages (the statement covers String/Payload/Size).
func useMsgs(msgs []sei.SEIMessage) int {
	n := 0
	for _, m := range msgs {
		if m == nil {
			continue
		}
		n += len(m.String()) + len(m.Payload()) + int(m.Size()) + int(m.Type())
	}
	return n
}

func useMsg(m sei.SEIMessage, err error) (string, func() string) {
	if m != nil && !isNilMsg(m) {
		sink = useMsgs([]sei.SEIMessage{m})
	}
	return errClass(err), nil
}

// typed nil pointers inside the interface (decoders return (nil, err) of interface type: fine)
func isNilMsg(m sei.SEIMessage) bool {
	defer func() { _ = recover() }()
	return m == nil
}

// reference parameter sets used as context (maps) for PPS / slice / SEI parsing
var (
	avcSPSHex = []string{
		"67640020accac05005bb0169e0000003002000000c9c4c000432380008647c12401cb1c31380",
		"6764000dacd941419f9e10000003001000000303c0f1429960",
		"27640020ac2ec05005bb011000000300100000078e840016e300005b8d8bdef83b438627",
		"6764001eacd940a02ff9610000030001000003003c8f162d96",
		"6764002aac2cac0780227e5c04f000003e90001d4c0e6a000337ec001bcef5ef80f8442370",
	}
	avcPPSHex  = []string{"68e84332c8b0", "68ebecb22c"}
	hevcSPSHex = []string{
		"420101022000000300b0000003000003007ba0078200887db6718b92448053888892cf24a69272c9124922dc91aa48fca223ff000100016a02020201",
		"420101022000000300b0000003000003009ca001e020021c4d8815ee4595602d4244024020",
		"42010101400000030000030000030000030096a001e02002207c4e5ad290964b8c0404000003000400000300658017794400014fb1000004c4b3c4",
		"420101016000000300900000030000030078a00502016965959a4932bc05a80808082000000300200000030321",
		"420101014000000300400000030000030078a003c080221f7a3ee46c1bdf4f60280d00000303e80000c350601def7e00028b1c001443c8",
	}
	hevcPPSHex = []string{"4401c0f7c0cc90", "4401c172b46240", "4401c1ac9383b240", "4401c1f5811d02a0"}
)

type ctxSets struct {
	avcSPS  map[uint32]*avc.SPS
	avcPPS  map[uint32]*avc.PPS
	hevcSPS map[uint32]*hevc.SPS
	hevcPPS map[uint32]*hevc.PPS
	avcSPSl []*avc.SPS
	hevSPSl []*hevc.SPS
}

var ctxCache *ctxSets

func contextSets() *ctxSets {
	if ctxCache != nil {
		return ctxCache
	}
	c := &ctxSets{map[uint32]*avc.SPS{}, map[uint32]*avc.PPS{}, map[uint32]*hevc.SPS{}, map[uint32]*hevc.PPS{}, nil, nil}
	for _, h := range avcSPSHex {
		if s, err := avc.ParseSPSNALUnit(hx.UnHex(h), true); err == nil {
			c.avcSPS[s.ParameterID] = s
			c.avcSPSl = append(c.avcSPSl, s)
		}
	}
	for _, h := range avcPPSHex {
		if p, err := avc.ParsePPSNALUnit(hx.UnHex(h), c.avcSPS); err == nil {
			c.avcPPS[p.PicParameterSetID] = p
		}
	}
	for _, h := range hevcSPSHex {
		if s, err := hevc.ParseSPSNALUnit(hx.UnHex(h)); err == nil {
			c.hevcSPS[uint32(s.SpsID)] = s
			c.hevSPSl = append(c.hevSPSl, s)
		}
	}
	for _, h := range hevcPPSHex {
		if p, err := hevc.ParsePPSNALUnit(hx.UnHex(h), c.hevcSPS); err == nil {
			c.hevcPPS[p.PicParameterSetID] = p
		}
	}
	ctxCache = c
	return c
}

// split3 cuts in = len1 a[len1] len2 b[len2] rest (lengths clipped to what is there).
func split3(in []byte) (a, b, rest []byte) {
	cut := func(x []byte) (head, tail []byte) {
		if len(x) == 0 {
			return nil, nil
		}
		n := int(x[0])
		x = x[1:]
		if n > len(x) {
			n = len(x)
		}
		return x[:n:n], x[n:]
	}
	a, in = cut(in)
	b, in = cut(in)
	return a, b, in
}

func hexList(xs []uint32) string {
	ss := make([]string, len(xs))
	for i, x := range xs {
		ss[i] = hx.HexU(uint64(x))
	}
	return strings.Join(ss, ",")
}

// picTimingHevcString projects a decoded message to "fields;NumNalusInDuMinus1;DuCpbRemovalDelayIncrementMinus1" (hex)
func picTimingHevcString(m sei.SEIMessage) string {
	pt, ok := m.(*sei.PicTimingHevcSEI)
	if !ok || pt == nil {
		return "not-a-PicTimingHevcSEI"
	}
	var ps, sst, dup uint32
	if pt.FrameFieldInfo != nil {
		ps, sst = uint32(pt.FrameFieldInfo.PicStruct), uint32(pt.FrameFieldInfo.SourceScanType)
		if pt.FrameFieldInfo.DuplicateFlag {
			dup = 1
		}
	}
	var common uint32
	if pt.DuCommonCpbRemovalDelayFlag {
		common = 1
	}
	f := []uint32{ps, sst, dup, pt.AuCpbRemovalDelayMinus1, pt.PicDpbOutputDelay, pt.PicDpbOutputDuDelay,
		pt.NumDecodingUnitsMinus1, common, pt.DuCommonCpbRemovalDelayIncrementMinus1}
	return hexList(f) + ";" + hexList(pt.NumNalusInDuMinus1) + ";" + hexList(pt.DuCpbRemovalDelayIncrementMinus1)
}

// projections of the parsed AVC structures compared with the Gallina model by `corr` (hex, comma separated)
func spsString(s *avc.SPS) string {
	if s == nil {
		return ""
	}
	return fmt.Sprintf("%x,%x,%x,%x,%x,%x", s.ParameterID, s.Width, s.Height, s.NrBytesRead, len(s.RefFramesInPicOrderCntCycle), len(s.SeqScalingLists))
}

func ppsString(p *avc.PPS) string {
	if p == nil {
		return ""
	}
	return fmt.Sprintf("%x,%x,%x,%x,%x,%x,%x", p.PicParameterSetID, p.SeqParameterSetID, p.NumSliceGroupsMinus1, len(p.SliceGroupID),
		len(p.RunLengthMinus1), p.NumRefIdxI0DefaultActiveMinus1, len(p.PicScalingLists))
}

func sliceString(h *avc.SliceHeader) string {
	if h == nil {
		return ""
	}
	return fmt.Sprintf("%x,%x,%x,%x,%x,%x", uint64(h.SliceType), h.FrameNum, h.Size, h.NumRefIdxL0ActiveMinus1, h.NumRefIdxL1ActiveMinus1, h.PicParamID)
}

// hevcPicTimingCtx renders, for every reference HEVC SPS, what hevc.ParseSEINalu derives from it for
// sei.DecodePicTimingHevcSEI (hevc/sei.go fillHEVCPicTimingParams): "-" when the SPS has no VUI, otherwise
// flags:au:dpb:du:inc (flags = bit0 FrameFieldInfoPresent, bit1 CpbDpbDelaysPresent, bit2 SubPicHrdParamsPresent,
// bit3 SubPicCpbParamsInPicTimingSei).
func hevcPicTimingCtx() string {
	var out []string
	for _, s := range contextSets().hevSPSl {
		if s.VUI == nil {
			out = append(out, "-")
			continue
		}
		flags, la, lb, lc, ld := 0, 0, 0, 0, 0
		if s.VUI.FrameFieldInfoPresentFlag {
			flags |= 1
		}
		if h := s.VUI.HrdParameters; h != nil {
			if h.CpbDpbDelaysPresentFlag() {
				flags |= 2
			}
			if h.SubPicHrdParamsPresentFlag {
				flags |= 4
			}
			if h.SubPicCpbParamsInPicTimingSeiFlag {
				flags |= 8
			}
			la, lb = int(h.AuCpbRemovalDelayLengthMinus1), int(h.DpbOutputDelayLengthMinus1)
			lc, ld = int(h.DpbOutputDelayDuLengthMinus1), int(h.DuCpbRemovalDelayIncrementLengthMinus1)
		}
		out = append(out, fmt.Sprintf("%d:%d:%d:%d:%d", flags, la, lb, lc, ld))
	}
	return strings.Join(out, ",")
}

func bitOf(arg, k int) bool { return arg>>uint(k)&1 == 1 }

func init() {
	register(
		// ---- Annex B scanners / converters
		target{"avc.ExtractNalusFromByteStream", false, func(in []byte, arg int) (string, func() string) {
			l := avc.ExtractNalusFromByteStream(in)
			sink = l
			return okv(func() string { return nalusString(l) })
		}},
		target{"avc.ConvertByteStreamToNaluSample", false, func(in []byte, arg int) (string, func() string) {
			o := avc.ConvertByteStreamToNaluSample(in)
			sink = o
			return okv(func() string { return hx.Hex(o) })
		}},
		target{"avc.GetParameterSetsFromByteStream", false, func(in []byte, arg int) (string, func() string) {
			a, b := avc.GetParameterSetsFromByteStream(in)
			sink = [][][]byte{a, b}
			return okv(func() string { return nalusString(a) + ";" + nalusString(b) })
		}},
		target{"avc.ExtractNalusOfTypeFromByteStream", false, func(in []byte, arg int) (string, func() string) {
			l := avc.ExtractNalusOfTypeFromByteStream(avc.NaluType(arg>>1), in, arg&1 == 1)
			sink = l
			return okv(func() string { return nalusString(l) })
		}},
		target{"avc.GetFirstAVCVideoNALUFromByteStream", false, func(in []byte, arg int) (string, func() string) {
			o := avc.GetFirstAVCVideoNALUFromByteStream(in)
			sink = o
			return okv(func() string { return hx.Hex(o) })
		}},
		target{"hevc.GetParameterSetsFromByteStream", false, func(in []byte, arg int) (string, func() string) {
			a, b, c := hevc.GetParameterSetsFromByteStream(in)
			sink = [][][]byte{a, b, c}
			return okv(func() string { return nalusString(a) + ";" + nalusString(b) + ";" + nalusString(c) })
		}},
		target{"hevc.ExtractNalusOfTypeFromByteStream", false, func(in []byte, arg int) (string, func() string) {
			l := hevc.ExtractNalusOfTypeFromByteStream(hevc.NaluType(arg>>1), in, arg&1 == 1)
			sink = l
			return okv(func() string { return nalusString(l) })
		}},
		// ---- AVC parameter sets, slice header, SEI, configuration record
		target{"avc.ParseSPSNALUnit", false, func(in []byte, arg int) (string, func() string) {
			s, err := avc.ParseSPSNALUnit(in, arg&1 == 1)
			if err == nil && s != nil {
				sink = []interface{}{s.CpbDpbDelaysPresent(), s.PicStructPresent(), s.ChromaArrayType(), s.ConstraintFlags(),
					avc.CodecString("avc1", s)}
			}
			return errClass(err), func() string { return spsString(s) }
		}},
		target{"avc.ParsePPSNALUnit", false, func(in []byte, arg int) (string, func() string) {
			p, err := avc.ParsePPSNALUnit(in, contextSets().avcSPS)
			sink = p
			return errClass(err), func() string { return ppsString(p) }
		}},
		target{"avc.GetSliceTypeFromNALU", false, func(in []byte, arg int) (string, func() string) {
			t, err := avc.GetSliceTypeFromNALU(in)
			if err == nil {
				sink = t.String()
			}
			return errClass(err), func() string { return fmt.Sprintf("%x", uint64(t)) }
		}},
		target{"avc.ParseSliceHeader", false, func(in []byte, arg int) (string, func() string) {
			c := contextSets()
			h, err := avc.ParseSliceHeader(in, c.avcSPS, c.avcPPS)
			sink = h
			return errClass(err), func() string { return sliceString(h) }
		}},
		target{"avc.ParseSEINalu", false, func(in []byte, arg int) (string, func() string) {
			c := contextSets()
			var sps *avc.SPS
			if arg > 0 && arg <= len(c.avcSPSl) {
				sps = c.avcSPSl[arg-1]
			}
			msgs, err := avc.ParseSEINalu(in, sps)
			sink = useMsgs(msgs)
			return errClass(err), func() string { return fmt.Sprint(len(msgs)) }
		}},
		target{"avc.DecodeAVCDecConfRec", false, func(in []byte, arg int) (string, func() string) {
			r, err := avc.DecodeAVCDecConfRec(in)
			if err == nil {
				var b bytes.Buffer
				_ = r.Size()
				_ = r.Encode(&b)
			}
			return errClass(err), nil
		}},
		// ---- the pipeline of mp4ff-nallister / pslister: hostile parameter sets feed the slice parser.
		// input = len1 SPS[len1] len2 PPS[len2] slice...
		target{"avc.ParsePSAndSlice", false, func(in []byte, arg int) (string, func() string) {
			c := contextSets()
			spsMap := map[uint32]*avc.SPS{}
			ppsMap := map[uint32]*avc.PPS{}
			for k, v := range c.avcSPS {
				spsMap[k] = v
			}
			for k, v := range c.avcPPS {
				ppsMap[k] = v
			}
			a, b, rest := split3(in)
			if s, err := avc.ParseSPSNALUnit(a, true); err == nil && s != nil {
				spsMap[s.ParameterID] = s
			}
			if p, err := avc.ParsePPSNALUnit(b, spsMap); err == nil && p != nil {
				ppsMap[p.PicParameterSetID] = p
			}
			h, err := avc.ParseSliceHeader(rest, spsMap, ppsMap)
			sink = h
			return errClass(err), func() string { return sliceString(h) }
		}},
		target{"hevc.ParsePSAndSlice", false, func(in []byte, arg int) (string, func() string) {
			c := contextSets()
			spsMap := map[uint32]*hevc.SPS{}
			ppsMap := map[uint32]*hevc.PPS{}
			for k, v := range c.hevcSPS {
				spsMap[k] = v
			}
			for k, v := range c.hevcPPS {
				ppsMap[k] = v
			}
			a, b, rest := split3(in)
			if s, err := hevc.ParseSPSNALUnit(a); err == nil && s != nil {
				spsMap[uint32(s.SpsID)] = s
			}
			if p, err := hevc.ParsePPSNALUnit(b, spsMap); err == nil && p != nil {
				ppsMap[p.PicParameterSetID] = p
			}
			h, err := hevc.ParseSliceHeader(rest, spsMap, ppsMap)
			sink = h
			return errClass(err), nil
		}},
		// ---- HEVC
		target{"hevc.ParseSPSNALUnit", false, func(in []byte, arg int) (string, func() string) {
			s, err := hevc.ParseSPSNALUnit(in)
			if err == nil && s != nil {
				w, h := s.ImageSize()
				sink = []interface{}{w, h, hevc.CodecString("hvc1", s)}
			}
			return errClass(err), func() string {
				if err != nil {
					return ""
				}
				return hevcSPSString(s)
			}
		}},
		target{"hevc.ParsePPSNALUnit", false, func(in []byte, arg int) (string, func() string) {
			p, err := hevc.ParsePPSNALUnit(in, contextSets().hevcSPS)
			sink = p
			return errClass(err), func() string {
				if err != nil {
					return ""
				}
				return hevcPPSString(p)
			}
		}},
		target{"hevc.ParseSliceHeader", false, func(in []byte, arg int) (string, func() string) {
			c := contextSets()
			h, err := hevc.ParseSliceHeader(in, c.hevcSPS, c.hevcPPS)
			sink = h
			return errClass(err), nil
		}},
		target{"hevc.ParseSEINalu", false, func(in []byte, arg int) (string, func() string) {
			c := contextSets()
			var sps *hevc.SPS
			if arg > 0 && arg <= len(c.hevSPSl) {
				sps = c.hevSPSl[arg-1]
			}
			msgs, err := hevc.ParseSEINalu(in, sps)
			sink = useMsgs(msgs)
			return errClass(err), func() string { return fmt.Sprint(len(msgs)) }
		}},
		target{"hevc.DecodeHEVCDecConfRec", false, func(in []byte, arg int) (string, func() string) {
			r, err := hevc.DecodeHEVCDecConfRec(in)
			if err == nil {
				var b bytes.Buffer
				_ = r.Size()
				_ = r.Encode(&b)
				sink = r.GetNalusForType(hevc.NALU_SPS)
			}
			return errClass(err), nil
		}},
		// ---- SEI extraction and decoders
		target{"sei.ExtractSEIData", false, func(in []byte, arg int) (string, func() string) {
			sds, err := sei.ExtractSEIData(bytes.NewReader(in))
			n := 0
			for i := range sds {
				sd := &sds[i]
				n += len(sd.String()) + len(sd.Payload()) + int(sd.Size()) + int(sd.Type())
				for _, codec := range []sei.Codec{sei.AVC, sei.HEVC} {
					m, e := sei.DecodeSEIMessage(sd, codec)
					if e == nil && m != nil {
						n += useMsgs([]sei.SEIMessage{m})
					}
				}
			}
			sink = n
			return errClass(err), func() string {
				ss := make([]string, len(sds))
				for i := range sds {
					ss[i] = fmt.Sprintf("%x:%d", sds[i].Type(), len(sds[i].Payload()))
				}
				return strings.Join(ss, ",")
			}
		}},
		// arg selects the payload type for DecodeSEIMessage on a raw payload, both codecs
		target{"sei.DecodeSEIMessage", false, func(in []byte, arg int) (string, func() string) {
			sd := sei.NewSEIData(uint(arg>>1), in)
			codec := sei.AVC
			if arg&1 == 1 {
				codec = sei.HEVC
			}
			m, err := sei.DecodeSEIMessage(sd, codec)
			if err == nil && m != nil {
				sink = useMsgs([]sei.SEIMessage{m})
			}
			return errClass(err), nil
		}},
		target{"sei.DecodeTimeCodeSEI", false, func(in []byte, arg int) (string, func() string) {
			m, err := sei.DecodeTimeCodeSEI(sei.NewSEIData(136, in))
			if err == nil && m != nil {
				sink = useMsgs([]sei.SEIMessage{m})
			}
			return errClass(err), func() string {
				if tc, ok := m.(*sei.TimeCodeSEI); ok && tc != nil {
					return fmt.Sprint(len(tc.Clocks))
				}
				return "?"
			}
		}},
		// arg: bit0 = HRD present; bits 1-5 cpb len-1; 6-10 dpb len-1; 11-15 time offset len
		target{"sei.DecodePicTimingAvcSEIHRD", false, func(in []byte, arg int) (string, func() string) {
			var d *sei.CbpDbpDelay
			if arg&1 == 1 {
				d = &sei.CbpDbpDelay{CpbRemovalDelayLengthMinus1: byte(arg >> 1 & 31), DpbOutputDelayLengthMinus1: byte(arg >> 6 & 31)}
			}
			m, err := sei.DecodePicTimingAvcSEIHRD(sei.NewSEIData(1, in), d, byte(arg>>11&31))
			if err == nil && m != nil {
				sink = useMsgs([]sei.SEIMessage{m})
			}
			return errClass(err), func() string {
				if pt, ok := m.(*sei.PicTimingAvcSEI); ok && pt != nil {
					return fmt.Sprint(len(pt.Clocks))
				}
				return "?"
			}
		}},
		// arg: bits 0-3 the four flags; 4-8, 9-13, 14-18, 19-23 the four length-1 fields
		target{"sei.DecodePicTimingHevcSEI", false, func(in []byte, arg int) (string, func() string) {
			p := sei.HEVCPicTimingParams{
				FrameFieldInfoPresentFlag: bitOf(arg, 0), CpbDpbDelaysPresentFlag: bitOf(arg, 1),
				SubPicHrdParamsPresentFlag: bitOf(arg, 2), SubPicCpbParamsInPicTimingSeiFlag: bitOf(arg, 3),
				AuCbpRemovalDelayLengthMinus1: uint8(arg >> 4 & 31), DpbOutputDelayLengthMinus1: uint8(arg >> 9 & 31),
				DpbOutputDelayDuLengthMinus1: uint8(arg >> 14 & 31), DuCpbRemovalDelayIncrementLengthMinus1: uint8(arg >> 19 & 31),
			}
			m, err := sei.DecodePicTimingHevcSEI(sei.NewSEIData(1, in), p)
			if err == nil && m != nil {
				sink = useMsgs([]sei.SEIMessage{m})
			}
			if err != nil {
				return "err", nil
			}
			return "ok", func() string { return picTimingHevcString(m) }
		}},
		target{"sei.DecodeMasteringDisplayColourVolumeSEI", false, func(in []byte, arg int) (string, func() string) {
			m, err := sei.DecodeMasteringDisplayColourVolumeSEI(sei.NewSEIData(137, in))
			if err == nil && m != nil {
				sink = useMsgs([]sei.SEIMessage{m})
			}
			return errClass(err), func() string {
				if err != nil || m == nil {
					return ""
				}
				return hx.Hex(m.Payload()) + ";" + fmt.Sprint(m.Size())
			}
		}},
		target{"sei.DecodeContentLightLevelInformationSEI", false, func(in []byte, arg int) (string, func() string) {
			m, err := sei.DecodeContentLightLevelInformationSEI(sei.NewSEIData(144, in))
			if err == nil && m != nil {
				sink = useMsgs([]sei.SEIMessage{m})
			}
			return errClass(err), func() string {
				if err != nil || m == nil {
					return ""
				}
				return hx.Hex(m.Payload()) + ";" + fmt.Sprint(m.Size())
			}
		}},
		target{"sei.DecodeUserDataRegisteredSEI", false, func(in []byte, arg int) (string, func() string) {
			m, err := sei.DecodeUserDataRegisteredSEI(sei.NewSEIData(4, in))
			if err == nil && m != nil {
				sink = useMsgs([]sei.SEIMessage{m})
			}
			return errClass(err), func() string {
				if err != nil {
					return ""
				}
				return stringBound(m, 2*len(in)+200)
			}
		}},
		target{"sei.DecodeUserDataUnregisteredSEI", false, func(in []byte, arg int) (string, func() string) {
			m, err := sei.DecodeUserDataUnregisteredSEI(sei.NewSEIData(5, in))
			if err == nil && m != nil {
				sink = useMsgs([]sei.SEIMessage{m})
			}
			return errClass(err), func() string {
				if err != nil {
					return ""
				}
				return stringBound(m, 4*len(in)+200)
			}
		}},
		target{"sei.ExtractCEA608sei", false, func(in []byte, arg int) (string, func() string) {
			m, err := sei.ExtractCEA608sei(sei.NewSEIData(4, in))
			if err == nil && m != nil {
				sink = useMsgs([]sei.SEIMessage{m})
			}
			return errClass(err), func() string {
				if err != nil {
					return ""
				}
				return stringBound(m, 2*len(in)+200)
			}
		}},
		target{"sei.ParseCEA608", false, func(in []byte, arg int) (string, func() string) {
			a, b, err := sei.ParseCEA608(in)
			sink = [][]byte{a, b}
			return errClass(err), func() string { return hx.Hex(a) + ";" + hx.Hex(b) }
		}},
		// ---- AAC, AV1
		target{"aac.DecodeADTSHeader", false, func(in []byte, arg int) (string, func() string) {
			h, off, err := aac.DecodeADTSHeader(bytes.NewReader(in))
			if err == nil && h != nil {
				sink = []interface{}{h.Encode(), h.Frequency(), off}
			}
			return errClass(err), func() string {
				if h == nil {
					return ""
				}
				return fmt.Sprintf("%x,%x,%x,%x", off, h.HeaderLength, h.PayloadLength, h.SamplingFrequencyIndex)
			}
		}},
		target{"aac.DecodeAudioSpecificConfig", false, func(in []byte, arg int) (string, func() string) {
			a, err := aac.DecodeAudioSpecificConfig(bytes.NewReader(in))
			if err == nil && a != nil {
				var b bytes.Buffer
				_ = a.Encode(&b)
			}
			return errClass(err), func() string {
				if a == nil {
					return ""
				}
				return fmt.Sprintf("%x,%x,%x", a.ObjectType, a.ChannelConfiguration, a.SamplingFrequency)
			}
		}},
		target{"av1.DecodeAV1CodecConfRec", false, func(in []byte, arg int) (string, func() string) {
			r, err := av1.DecodeAV1CodecConfRec(in)
			if err == nil {
				var b bytes.Buffer
				_ = r.Size()
				_ = r.Encode(&b)
			}
			return errClass(err), nil
		}},
	)
}

var _ = fmt.Sprint
