package main

// searchCases: hostile inputs for the stage-2 targets (targets2.go).
//
// Three families per target:
//   seeds     captured valid units (from the repository's tests), unchanged
//   mutants   a seed truncated at a random byte, with flipped bits, with a run of 16-70 zero bits or
//             of ff bytes inserted at a random position, or with a random tail
//   soups     a valid NAL header followed by a random "field soup": flags, small and HOSTILE ue(v)
//             values (255, 256, 65535, 2^31, 2^32-1, 2^63, 2^64-2), fixed-width fields; written with
//             emulation prevention so that the reader sees exactly these bits
// plus a few fixed witnesses of DESIGN Appendix A.

import (
	"fmt"
	"os"
	"strings"

	"verifharness/hx"
)

// ---------------------------------------------------------------- bit writer with emulation prevention
type bitw struct {
	bits []byte // one bit per element
}

func (w *bitw) put(v uint64, n int) {
	for i := n - 1; i >= 0; i-- {
		if i >= 64 {
			w.bits = append(w.bits, 0)
		} else {
			w.bits = append(w.bits, byte(v>>uint(i)&1))
		}
	}
}

func (w *bitw) flag(b bool) {
	if b {
		w.put(1, 1)
	} else {
		w.put(0, 1)
	}
}

// ue writes the Exp-Golomb code of v (v <= 2^64-2).
func (w *bitw) ue(v uint64) {
	x := v + 1
	n := 0
	for t := x; t > 1; t >>= 1 {
		n++
	}
	w.put(0, n)
	w.put(x, n+1)
}

// zeros writes k zero bits followed by a one and k arbitrary bits: a ue(v) prefix longer than 64
func (w *bitw) longUE(r *hx.Rng, k int) {
	w.put(0, k)
	w.put(1, 1)
	for i := 0; i < k; i++ {
		w.put(r.U64()&1, 1)
	}
}

func (w *bitw) bytes(escape bool) []byte {
	bs := append([]byte{}, w.bits...)
	if len(bs)%8 != 0 {
		bs = append(bs, 1) // rbsp stop bit
		for len(bs)%8 != 0 {
			bs = append(bs, 0)
		}
	}
	out := make([]byte, 0, len(bs)/8+8)
	zeros := 0
	for i := 0; i < len(bs); i += 8 {
		var b byte
		for j := 0; j < 8; j++ {
			b = b<<1 | bs[i+j]
		}
		if escape && zeros >= 2 && b <= 3 {
			out = append(out, 3)
			zeros = 0
		}
		if b == 0 {
			zeros++
		} else {
			zeros = 0
		}
		out = append(out, b)
	}
	return out
}

var hostileUE = []uint64{255, 256, 1023, 65535, 65536, 1 << 20, 1<<31 - 1, 1 << 31, 1<<32 - 2, 1<<32 - 1, 1 << 32,
	1 << 40, 1<<63 - 1, 1 << 63, 1<<64 - 2}

// soup appends nFields random fields.
func soup(r *hx.Rng, w *bitw, nFields int, pHostile int) {
	pOne := r.Pick(50, 50, 80, 20, 95) // bias of the flags: long runs of present-flags reach nested structures
	for i := 0; i < nFields; i++ {
		switch k := r.Intn(100); {
		case k < 40:
			if r.Intn(100) < pOne {
				w.put(1, 1)
			} else {
				w.put(0, 1)
			}
		case k < 75:
			if r.Intn(100) < pHostile {
				if r.Intn(8) == 0 {
					w.longUE(r, r.Range(64, 100))
				} else {
					w.ue(hostileUE[r.Intn(len(hostileUE))])
				}
			} else {
				w.ue(uint64(r.Pick(0, 0, 0, 1, 1, 2, 3, 4, 7, 8, 15, 16, 31, 32, 63, 64, 100)))
			}
		case k < 85:
			w.put(r.U64(), r.Pick(2, 3, 4, 5, 6))
		case k < 93:
			w.put(r.U64(), 8)
		case k < 97:
			w.put(r.U64(), 16)
		default:
			w.put(r.U64(), 32)
		}
	}
}

// ---------------------------------------------------------------- mutations of captured units
func mutate(r *hx.Rng, seed []byte) []byte {
	s := append([]byte{}, seed...)
	switch m := r.Intn(100); {
	case m < 5:
	case m < 30: // truncate
		if len(s) > 0 {
			s = s[:r.Intn(len(s)+1)]
		}
	case m < 55: // bit flips
		for i := 0; i < 1+r.Intn(4) && len(s) > 0; i++ {
			s[r.Intn(len(s))] ^= 1 << uint(r.Intn(8))
		}
	case m < 70: // insert a run of zero bits (a huge Exp-Golomb prefix) at a bit position: done on bytes + shift
		if len(s) > 1 {
			p := r.Range(1, len(s)-1)
			run := make([]byte, r.Range(2, 9))
			tail := append([]byte{}, s[p:]...)
			// keep the run free of emulation prevention: 00 00 03 00 00 03 ... would drop the 03s; use 00 00 then
			// continue with the tail shifted by a random number of bits
			s = append(append(s[:p:p], run...), shiftRight(tail, r.Intn(8))...)
		}
	case m < 80: // insert a run of ff
		if len(s) > 0 {
			p := r.Intn(len(s) + 1)
			run := r.Bytes(r.Pick(1, 2, 3, 5, 9, 17, 40), []byte{0xff})
			s = append(append(append([]byte{}, s[:p]...), run...), s[p:]...)
		}
	case m < 90: // random tail replaces the tail
		if len(s) > 2 {
			p := r.Range(1, len(s)-1)
			s = append(s[:p:p], r.Bytes(r.Range(0, 24), nil)...)
		}
	default: // set one byte to an extreme
		if len(s) > 0 {
			s[r.Intn(len(s))] = byte(r.Pick(0, 1, 0x7f, 0x80, 0xff))
		}
	}
	return s
}

func shiftRight(b []byte, k int) []byte {
	if k == 0 || len(b) == 0 {
		return b
	}
	out := make([]byte, len(b)+1)
	for i, x := range b {
		out[i] |= x >> uint(k)
		out[i+1] |= x << uint(8-k)
	}
	return out
}

// ---------------------------------------------------------------- seeds
var seedsOf = map[string][]string{
	"avc.ParseSPSNALUnit": append([]string{"6742001ed3000000" + "01ffffffff", "6742001ee1", "67"}, avcSPSHex...),
	"avc.ParsePPSNALUnit": avcPPSHex,
	"avc.ParseSliceHeader": {"25888040ffde08e47a7bff05ab", "419a6649e10f2653022fff8700000302c8a32d32",
		"65888040ffde08e47a7bff05ab", "01888040ffde08e47a"},
	"avc.GetSliceTypeFromNALU": {"25888040ffde08e47a7bff05ab", "419a6649e10f2653022fff87"},
	"avc.ParseSEINalu": {"06010e0000030000030000030002120806ff0b80", "060007810f1c0050744080",
		"0601061b0509b80000", "060001c001061b0509b8000080", "06010f00011a00000300090c2e268a000003004080",
		"060434b500314741393403cefffc9420fc94aefc9162fce56efc67bafc91b980", "06051000112233445566778899aabbccddeeff80"},
	"avc.DecodeAVCDecConfRec": {"0164001effe100196764001eacd940a02ff9610000030001000003003c8f162d9601000568ebecb22cfdf8f800",
		"0142001effe1000467420001010002684e"},
	"hevc.ParseSPSNALUnit":  hevcSPSHex,
	// + hand-written units selecting the multilayer and the 3D extension (colour mapping table with octants, delta DLT);
	// in three of them luma_bit_depth_cm_input_minus8 is 100, 2^32-1, 2^63-9: res_coeff_r is then read with a width far
	// beyond the unit (r.Read(n) runs into EOF)
	"hevc.ParsePPSNALUnit": append([]string{"4401c071801580409fc04f0d8020080040080608001a",
		"4401c071801580409fc04032f0d8020080040080608001a0",
		"4401c071801580409fc040000003000800000300070d8020080040080608001a",
		"4401c071801580409fc040000003000003000003003ffffffffffffffc70d8020080040080608001a0"}, hevcPPSHex...),
	"hevc.ParseSliceHeader": {"2601af0940b6c2", "0201d00d8e20", "28019e0ba0", "26018f5c1be0", "4001", "02010000"},
	"hevc.ParseSEINalu": {"4e0101071000001a0000030180", "4e01891800000300000300000300000300000300000300000300000300000300000300000300009004000003000080",
		"4e01000a8000000300403dc017a6900105040000be05880660404198b41080", "4e018805604041" + "98b41080"},
	"hevc.DecodeHEVCDecConfRec": {"0101600000009000000000005df000fcfdf8f800000f03a00001001840010c01ffff016000000300900000030000030078959809" +
		"a10001002f420101016000000300900000030000030078a00502016965959a4932bc05a80808082000000300200000030321a2000100074401c172b46240"},
	"sei.ExtractSEIData": {"010e0000030000030000030002120806ff0b80", "0007810f1c0050744080", "01061b0509b80000",
		"0001c001061b0509b8000080", "000a8000000300403dc017a6900105040000be05880660404198b41080",
		"891800000300000300000300000300000300000300000300000300000300000300000300009004000003000080", "ffffffffffffffff"},
	"sei.DecodeSEIMessage":                      {"00", "-", "1a0000030180", "60404198b410", "b500314741393403cefffc9420fc94ae", "00112233445566778899aabbccddeeff40404040"},
	"sei.DecodeTimeCodeSEI":                     {"00", "60404198b410", "-", "40", "80", "c0", "ffffffffffffffffffffffff"},
	"sei.DecodePicTimingAvcSEIHRD":              {"1a00000309", "00011a0000090c2e268a00004080", "-", "10", "30", "50"},
	"sei.DecodePicTimingHevcSEI":                {"071000001a00000180", "-", "ff", "0000"},
	"sei.DecodeMasteringDisplayColourVolumeSEI": {"11223344556677889900aabbccddeeff0011223344556677", "1122"},
	"sei.DecodeContentLightLevelInformationSEI": {"11223344", "11"},
	"sei.DecodeUserDataRegisteredSEI":           {"b500314741393403cefffc9420fc94aefc9162fce56efc67bafc91b9", "b5", "b50031", "-"},
	"sei.DecodeUserDataUnregisteredSEI":         {"00112233445566778899aabbccddeeff40404040", "0011", "-"},
	"sei.ExtractCEA608sei":                      {"b500314741393403cefffc9420fc94aefc9162fce56efc67bafc91b9", "b5003147413934ff", "b500314741393403"},
	"sei.ParseCEA608":                           {"b500314741393403cefffc9420fc94aefc9162fce56efc67bafc91b9", "b500314741393443", "b5003147413934"},
	"aac.DecodeADTSHeader":                      {"fff15080017ffc", "fff0508001", "fff94c8001fffc0000", "0000fff15080017ffc", "ff"},
	"aac.DecodeAudioSpecificConfig":             {"1190", "1210", "2b11", "f8f0", "0000", "ffff", "13900000"},
	"av1.DecodeAV1CodecConfRec":                 {"81053c00", "81", "8105", "81053c000a0b0000004aabbfc377ffe701", "01053c00", "80053c00"},
}

var byteStreamSeeds = []string{
	"0000000167640020ac0000000168e843320000016588", "00000167420001000001680000016541", "000001",
	"00000001", "0000000109f0000000016742", "000000014001000000014201000000014401000000012601",
	"0000010000010000010000000001", "00000000000000000000010000", "0000016700000168", "00000140010000014201000001440100000102",
}

var isByteStreamTarget = map[string]bool{}

// genByteStream: zero-rich bytes with lengths at and around the machine-word boundaries of the scanner's
// fast loop (multiples of 8, +-1, +-2), start codes of both lengths at the boundaries, zero tails.
func genByteStream(r *hx.Rng) []byte {
	L := r.Pick(0, 1, 2, 3, 4, 5, 7, 8, 9, 10, 15, 16, 17, 18, 23, 24, 25, 31, 32, 33, 40, 41, 47, 48, 49)
	b := r.Bytes(L, []byte{0, 0, 0, 0, 1, 1, 2, 3, 0x67, 0x68, 0x65, 0x40, 0x42, 0x44, 0x26, 0xff})
	for k := r.Intn(4); k > 0 && L >= 4; k-- { // plant start codes near word boundaries
		p := r.Pick(0, 4, 5, 6, 7, 8, 12, 13, 14, 15, 16, 21, 22, 23, 24)
		if p+4 <= L {
			copy(b[p:], []byte{0, 0, 0, 1}[r.Intn(2):])
		}
	}
	for k := r.Intn(4); k > 0 && L-k >= 0; k-- { // zero tail
		b[L-k] = 0
	}
	return b
}

func init() {
	for _, t := range []string{"avc.ExtractNalusFromByteStream", "avc.ConvertByteStreamToNaluSample",
		"avc.GetParameterSetsFromByteStream", "avc.ExtractNalusOfTypeFromByteStream",
		"avc.GetFirstAVCVideoNALUFromByteStream", "hevc.GetParameterSetsFromByteStream",
		"hevc.ExtractNalusOfTypeFromByteStream"} {
		seedsOf[t] = byteStreamSeeds
		isByteStreamTarget[t] = true
	}
}

// NAL header prefixes for the soups
var soupPrefix = map[string][][]byte{
	"avc.ParseSPSNALUnit":      {{0x67, 66, 0, 30}, {0x67, 100, 0, 31}, {0x67, 244, 0, 40}, {0x27, 77, 0x40, 30}, {0x67, 138, 0, 30}},
	"avc.ParsePPSNALUnit":      {{0x68}},
	"avc.ParseSliceHeader":     {{0x25}, {0x41}, {0x65}, {0x01}, {0x21}},
	"avc.GetSliceTypeFromNALU": {{0x25}, {0x41}, {0x02}},
	"hevc.ParseSPSNALUnit":     {{0x42, 0x01}},
	"hevc.ParsePPSNALUnit":     {{0x44, 0x01}},
	"hevc.ParseSliceHeader":    {{0x26, 0x01}, {0x02, 0x01}, {0x28, 0x01}, {0x2a, 0x01}, {0x00, 0x01}, {0x12, 0x01}},
	"avc.ParseSEINalu":         {{0x06}},
	"hevc.ParseSEINalu":        {{0x4e, 0x01}, {0x50, 0x01}},
	"sei.ExtractSEIData":       {{}},
}

// hevc SPS: profile_tier_level is 12 bytes of mostly fixed-width fields before the first ue(v): the soup
// starts after a valid 1+12 byte prologue so that the count fields are reached
var hevcSPSPrologue = hx.UnHex("4201" + "01" + "016000000300900000030000030078")

func argsFor(r *hx.Rng, name string) int {
	switch name {
	case "avc.ParseSPSNALUnit":
		return r.Pick(1, 1, 1, 0)
	case "avc.ExtractNalusOfTypeFromByteStream":
		return r.Pick(7, 8, 5, 1)<<1 | r.Intn(2)
	case "hevc.ExtractNalusOfTypeFromByteStream":
		return r.Pick(32, 33, 34, 19, 1)<<1 | r.Intn(2)
	case "avc.ParseSEINalu", "hevc.ParseSEINalu":
		return r.Intn(6)
	case "sei.DecodeSEIMessage":
		return r.Pick(0, 1, 4, 5, 136, 137, 144, 6, 255)<<1 | r.Intn(2)
	case "sei.DecodePicTimingAvcSEIHRD":
		if r.Intn(3) == 0 {
			return 0
		}
		return 1 | r.Pick(0, 7, 23, 31)<<1 | r.Pick(0, 7, 23, 31)<<6 | r.Pick(0, 5, 24, 31)<<11
	case "sei.DecodePicTimingHevcSEI":
		return r.Intn(16) | r.Pick(0, 7, 23, 31)<<4 | r.Pick(0, 7, 23, 31)<<9 | r.Pick(0, 7, 31)<<14 | r.Pick(0, 7, 31)<<19
	}
	return 0
}

func searchCases(seed uint64, round, n, total int) []tcase {
	names := make([]string, 0, len(targets))
	for _, t := range targets {
		if !t.modelled {
			names = append(names, t.name)
		}
	}
	return casesFor(names, seed, round, n/40)
}

// stage-2 targets that have a Gallina model (C16ParseModel.v ...): `corr` feeds them the SAME hostile
// generators as the search and compares outcome class and projected values with the extracted model
var stage2Modelled = []string{"avc.ParseSPSNALUnit", "avc.ParsePPSNALUnit", "avc.ParseSliceHeader", "avc.ParsePSAndSlice",
	"avc.GetSliceTypeFromNALU", "avc.ParseSEINalu", "hevc.ParseSEINalu",
	"avc.ParseSPSAndSEI", "avc.DecConfRecAndSlice", // pipelines composed from the models by the driver
	// HEVC parsers (C16HevcParseModel.v); the context-dependent ones run as "#m" targets, see hevcmodel.go
	"hevc.ParseSPSNALUnit", "hevc.ParsePPSNALUnit", "hevc.ParseSPSAndSEI", "hevc.DecConfRecAndSlice",
	// models of C17 / C18 / C14 through the partial-operation wrappers of C16AuxModel.v
	"sei.ExtractSEIData", "sei.DecodeTimeCodeSEI", "sei.DecodePicTimingAvcSEIHRD",
	"sei.DecodeMasteringDisplayColourVolumeSEI", "sei.DecodeContentLightLevelInformationSEI",
	"sei.DecodeUserDataRegisteredSEI", "sei.DecodeUserDataUnregisteredSEI", "sei.ExtractCEA608sei", "sei.ParseCEA608",
	"aac.DecodeADTSHeader", "aac.DecodeAudioSpecificConfig",
	"avc.ExtractNalusFromByteStream", "avc.ConvertByteStreamToNaluSample", "avc.GetParameterSetsFromByteStream",
	"avc.ExtractNalusOfTypeFromByteStream", "avc.GetFirstAVCVideoNALUFromByteStream",
	"hevc.GetParameterSetsFromByteStream", "hevc.ExtractNalusOfTypeFromByteStream"}

func stage2CorrCases(seed uint64, round, n, total int) []tcase {
	return casesFor(stage2Modelled, seed, round, n/20)
}

func casesFor(names []string, seed uint64, round, per int) []tcase {
	r := hx.NewRng(seed*1000003 + uint64(round))
	var cs []tcase
	// 1. seeds unchanged, truncated at every byte (quick: every prefix of the seeds)
	for _, name := range names {
		if round != 0 {
			break
		}
		for _, h := range seedsOf[name] {
			s := hx.UnHex(h)
			cs = append(cs, tcase{name, s, argsFor(r, name)})
			for k := 0; k < len(s); k++ {
				if len(s) > 64 && k%4 != 0 {
					continue
				}
				cs = append(cs, tcase{name, s[:k], argsFor(r, name)})
			}
		}
	}
	// 1b. one unit per guard of the parser (syntax.go guardSweep), every round with fresh layouts
	for _, name := range names {
		for _, g := range guardSweepTargets {
			if g == name {
				for _, b := range guardSweep(r, name, 3) {
					cs = append(cs, tcase{name, b, argsFor(r, name)})
				}
			}
		}
	}
	// 1c. HEVC SPS with the worst-case short-term RPS chain (NumDeltaPocs grows by one per set)
	for _, name := range names {
		if name == "hevc.ParseSPSNALUnit" && round == 0 {
			for _, b := range hevcRPSChainUnits(r) {
				cs = append(cs, tcase{name, b, 0})
			}
		}
	}
	// 2. mutants and soups, n rounds over all targets
	if per < 8 {
		per = 8
	}
	for _, name := range names {
		seeds := seedsOf[name]
		for i := 0; i < per*structShare(name); i++ {
			var in []byte
			if c, ok := structCase(r, name); ok { // structured field-level generators (syntax.go)
				cs = append(cs, c)
				continue
			}
			if name == "avc.ParsePSAndSlice" || name == "hevc.ParsePSAndSlice" {
				cs = append(cs, tcase{name, genPipeline(r, name[:strings.Index(name, ".")]), 0})
				continue
			}
			if isByteStreamTarget[name] && r.Intn(2) == 0 {
				cs = append(cs, tcase{name, genByteStream(r), argsFor(r, name)})
				continue
			}
			pre, hasSoup := soupPrefix[name]
			if hasSoup && (len(seeds) == 0 || r.Intn(2) == 0) {
				w := &bitw{}
				p := pre[r.Intn(len(pre))]
				if name == "hevc.ParseSPSNALUnit" && r.Intn(4) != 0 {
					p = hevcSPSPrologue
				}
				soup(r, w, r.Range(3, 60), r.Pick(3, 10, 25))
				in = append(append([]byte{}, p...), w.bytes(true)...)
				if r.Intn(4) == 0 && len(in) > len(p) {
					in = in[:r.Range(len(p), len(in))]
				}
			} else if len(seeds) > 0 {
				in = mutate(r, hx.UnHex(seeds[r.Intn(len(seeds))]))
			} else {
				in = r.Bytes(r.Range(0, 40), nil)
			}
			cs = append(cs, tcase{name, in, argsFor(r, name)})
		}
	}
	// 3. raw short inputs for everything: empty, one byte, a few random bytes
	for _, name := range names {
		if round != 0 {
			break
		}
		for _, h := range []string{"-", "00", "ff", "0000", "ffff", "000000", "00000001", "ffffffffff"} {
			cs = append(cs, tcase{name, hx.UnHex(h), argsFor(r, name)})
		}
		for i := 0; i < 6; i++ {
			cs = append(cs, tcase{name, r.Bytes(r.Range(1, 12), nil), argsFor(r, name)})
		}
	}
	return cs
}

// genUnit: a seed mutant or a soup for the given single-unit target.
func genUnit(r *hx.Rng, name string) []byte {
	seeds := seedsOf[name]
	pre := soupPrefix[name]
	if len(pre) > 0 && r.Intn(2) == 0 {
		w := &bitw{}
		p := pre[r.Intn(len(pre))]
		if name == "hevc.ParseSPSNALUnit" && r.Intn(4) != 0 {
			p = hevcSPSPrologue
		}
		soup(r, w, r.Range(3, 60), r.Pick(3, 10, 25))
		return append(append([]byte{}, p...), w.bytes(true)...)
	}
	s := hx.UnHex(seeds[r.Intn(len(seeds))])
	if r.Intn(3) == 0 {
		return s
	}
	return mutate(r, s)
}

// genPipeline: len SPS len PPS slice, each part valid, mutated or a soup (ids are mostly 0 so that
// the slice finds the hostile parameter sets).
func genPipeline(r *hx.Rng, codec string) []byte {
	clip := func(b []byte) []byte {
		if len(b) > 255 {
			b = b[:255]
		}
		return b
	}
	sps := clip(genUnit(r, codec+".ParseSPSNALUnit"))
	pps := clip(genUnit(r, codec+".ParsePPSNALUnit"))
	sl := genUnit(r, codec+".ParseSliceHeader")
	out := append([]byte{byte(len(sps))}, sps...)
	out = append(append(out, byte(len(pps))), pps...)
	return append(out, sl...)
}

// seiCorrCases: payloads and external parameters for the modelled sei.DecodePicTimingHevcSEI.
func seiCorrCases(seed uint64, round, n, total int) []tcase {
	r := hx.NewRng(seed*1000003 + uint64(round))
	const name = "sei.DecodePicTimingHevcSEI"
	var cs []tcase
	arg := func() int {
		flags := r.Intn(16)
		if r.Intn(2) == 0 {
			flags |= 14 // the sub-picture branch with the count-driven loop
		}
		return flags | r.Pick(0, 1, 7, 23, 31)<<4 | r.Pick(0, 3, 7, 23, 31)<<9 | r.Pick(0, 2, 7, 31)<<14 | r.Pick(0, 1, 7, 31)<<19
	}
	fixed := []string{"-", "00", "ff", "0000000020", "071000001a00000180", "000000002000000000", "ffffffffffffffffffff",
		"0000000000000000008000000000000000", "1fffffffffffffff", "00000300000300"}
	if round != 0 {
		fixed = nil
	}
	for _, h := range fixed {
		for k := 0; k < 6; k++ {
			cs = append(cs, tcase{name, hx.UnHex(h), arg()})
		}
	}
	for i := 0; i < n; i++ {
		var in []byte
		switch r.Intn(4) {
		case 0:
			in = r.Bytes(r.Range(0, 20), nil)
		case 1:
			in = r.Bytes(r.Range(0, 24), []byte{0, 0, 0, 1, 3, 0x80, 0xff})
		default:
			w := &bitw{}
			w.put(r.U64(), r.Range(0, 12))
			soup(r, w, r.Range(1, 30), r.Pick(5, 20, 40))
			in = w.bytes(r.Bool())
		}
		cs = append(cs, tcase{name, in, arg()})
	}
	return cs
}

// byteStreamFile: an Annex B byte stream made of hostile units, for the built command line tools.
func byteStreamFile(r *hx.Rng, codec string) []byte {
	if r.Intn(12) == 0 {
		return mutate(r, hx.UnHex(byteStreamSeeds[r.Intn(len(byteStreamSeeds))]))
	}
	kinds := []string{".ParseSPSNALUnit", ".ParsePPSNALUnit", ".ParseSliceHeader", ".ParseSEINalu", ".ParseSPSNALUnit", ".ParsePPSNALUnit"}
	var out []byte
	k := r.Range(1, 6)
	for i := 0; i < k; i++ {
		if r.Bool() {
			out = append(out, 0)
		}
		out = append(out, 0, 0, 1)
		if r.Intn(10) == 0 {
			continue // empty unit
		}
		kind := kinds[i%len(kinds)]
		if r.Intn(3) == 0 {
			kind = kinds[r.Intn(len(kinds))]
		}
		out = append(out, genUnit(r, codec+kind)...)
	}
	return out
}

func writeFiles(seed uint64, n int, dir string) {
	r := hx.NewRng(seed)
	for i := 0; i < n; i++ {
		codec := "avc"
		if i%2 == 1 {
			codec = "hevc"
		}
		name := fmt.Sprintf("%s/%s_%05d.bin", dir, codec, i)
		if err := os.WriteFile(name, byteStreamFile(r, codec), 0o644); err != nil {
			fatal("write %s: %v", name, err)
		}
	}
}
