package main

// searchCases: inputs for the targets that have no Gallina model yet (stage 2); see targets2.go.
func searchCases(seed uint64, n int) []tcase {
	return nil
}
