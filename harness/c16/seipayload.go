package main

// Payload() / Size() / String() of the two SEI messages serialised through bits.FixedSliceWriter
// (sei/sei136.go TimeCodeSEI, sei/sei1_avc.go PicTimingAvcSEI), modelled with partial buffer operations in
// coq/c16/C16SeiFswModel.v.  Four value-level targets (value text: clocks;payload bytes;Size(), hex):
//
//	sei.TimeCodeDecodePayload#v       DecodeTimeCodeSEI(in), then Payload / Size / String of the result
//	sei.PicTimingAvcDecodePayload#v   DecodePicTimingAvcSEIHRD(in, arg), then the same  (arg as sei.DecodePicTimingAvcSEIHRD:
//	                                  bit0 HRD, 1-5 cpb len-1, 6-10 dpb len-1, 11-15 time offset length)
//	sei.TimeCodeSEI.Payload#v         an ARBITRARY message value: 16 bytes per clock
//	                                  [flags, CountingType, NFrames(2), Seconds, Minutes, Hours, TimeOffsetLength, TimeOffsetValue(4), -(4)]
//	                                  flags: 1 ClockTimeStamp, 2 UnitsFieldBased, 4 FullTimeStamp, 8 Discontinuity, 16 CntDropped,
//	                                  32 Seconds, 64 Minutes, 128 Hours
//	sei.PicTimingAvcSEI.Payload#v     an ARBITRARY message value: 20 bytes [hrd present, CpbRemovalDelayLengthMinus1,
//	                                  DpbOutputDelayLengthMinus1, PictStruct, CpbRemovalDelay(8), DpbOutputDelay(8)], then 16 bytes per clock
//	                                  [flags, CtType, CountingType, NFrames, Seconds, Minutes, Hours, TimeOffsetLength, TimeOffsetValue(8, int64)]
//	                                  (String() is called only with at least one clock: it indexes Clocks[0])
//
// The length fields of a value are bytes (0..255): writes of up to 256 bits into a buffer of Size() bytes.

import (
	"encoding/binary"
	"fmt"

	"github.com/Eyevinn/mp4ff/sei"
	"verifharness/hx"
)

const (
	spTCDec = "sei.TimeCodeDecodePayload#v"
	spPTDec = "sei.PicTimingAvcDecodePayload#v"
	spTCVal = "sei.TimeCodeSEI.Payload#v"
	spPTVal = "sei.PicTimingAvcSEI.Payload#v"
)

func spValue(nClocks int, m sei.SEIMessage, str bool) (string, func() string) {
	size := m.Size()
	pl := m.Payload()
	n := 0
	if str {
		n = len(m.String())
	}
	sink = n
	return "ok", func() string { return fmt.Sprintf("%x;%s;%x", nClocks, hx.Hex(pl), size) }
}

func init() {
	register(
		target{spTCDec, true, func(in []byte, arg int) (string, func() string) {
			m, err := sei.DecodeTimeCodeSEI(sei.NewSEIData(136, in))
			if err != nil {
				return "err", nil
			}
			tc := m.(*sei.TimeCodeSEI)
			return spValue(len(tc.Clocks), tc, true)
		}},
		target{spPTDec, true, func(in []byte, arg int) (string, func() string) {
			var d *sei.CbpDbpDelay
			if arg&1 == 1 {
				d = &sei.CbpDbpDelay{CpbRemovalDelayLengthMinus1: byte(arg >> 1 & 31), DpbOutputDelayLengthMinus1: byte(arg >> 6 & 31)}
			}
			m, err := sei.DecodePicTimingAvcSEIHRD(sei.NewSEIData(1, in), d, byte(arg>>11&31))
			if err != nil {
				return "err", nil
			}
			pt := m.(*sei.PicTimingAvcSEI)
			return spValue(len(pt.Clocks), pt, true)
		}},
		target{spTCVal, true, func(in []byte, arg int) (string, func() string) {
			tc := &sei.TimeCodeSEI{}
			for ; len(in) >= 16; in = in[16:] {
				f := in[0]
				tc.Clocks = append(tc.Clocks, sei.ClockTS{
					ClockTimeStampFlag: f&1 != 0, UnitsFieldBasedFlag: f&2 != 0, FullTimeStampFlag: f&4 != 0,
					DiscontinuityFlag: f&8 != 0, CntDroppedFlag: f&16 != 0, SecondsFlag: f&32 != 0, MinutesFlag: f&64 != 0,
					HoursFlag: f&128 != 0, CountingType: in[1], NFrames: binary.BigEndian.Uint16(in[2:4]),
					Seconds: in[4], Minutes: in[5], Hours: in[6], TimeOffsetLength: in[7],
					TimeOffsetValue: binary.BigEndian.Uint32(in[8:12])})
			}
			return spValue(len(tc.Clocks), tc, true)
		}},
		target{spPTVal, true, func(in []byte, arg int) (string, func() string) {
			if len(in) < 20 {
				return "err", nil
			}
			pt := &sei.PicTimingAvcSEI{PictStruct: in[3]}
			if in[0]&1 != 0 {
				pt.CbpDbpDelay = &sei.CbpDbpDelay{CpbRemovalDelayLengthMinus1: in[1], DpbOutputDelayLengthMinus1: in[2],
					CpbRemovalDelay: uint(binary.BigEndian.Uint64(in[4:12])), DpbOutputDelay: uint(binary.BigEndian.Uint64(in[12:20]))}
			}
			for in = in[20:]; len(in) >= 16; in = in[16:] {
				f := in[0]
				pt.Clocks = append(pt.Clocks, sei.ClockTSAvc{
					ClockTimeStampFlag: f&1 != 0, NuitFieldBasedFlag: f&2 != 0, FullTimeStampFlag: f&4 != 0,
					DiscontinuityFlag: f&8 != 0, CntDroppedFlag: f&16 != 0, SecondsFlag: f&32 != 0, MinutesFlag: f&64 != 0,
					HoursFlag: f&128 != 0, CtType: in[1], CountingType: in[2], NFrames: in[3],
					Seconds: in[4], Minutes: in[5], Hours: in[6], TimeOffsetLength: in[7],
					TimeOffsetValue: int(int64(binary.BigEndian.Uint64(in[8:16])))})
			}
			return spValue(len(pt.Clocks), pt, len(pt.Clocks) > 0)
		}},
	)
}

// ---------------------------------------------------------------------------------- generators

// spHMS writes the hh:mm:ss part of a clock time stamp the way both decoders read it.
func spHMS(r *hx.Rng, w *bitw, full bool) {
	if full {
		w.put(r.U64(), 17)
		return
	}
	for _, width := range []int{6, 6, 5} {
		f := r.Intn(4) != 0
		w.flag(f)
		if !f {
			return
		}
		w.put(r.U64(), width)
		if width == 5 {
			return
		}
	}
}

// spTimeCode: a time code payload with k clocks (syntax of DecodeClockTS); offLen picks the 5-bit time offset length.
func spTimeCode(r *hx.Rng, k int) *bitw {
	w := &bitw{}
	w.put(uint64(k), 2)
	for i := 0; i < k; i++ {
		f := r.Intn(5) != 0
		w.flag(f)
		if !f {
			continue
		}
		w.flag(r.Bool())
		w.put(r.U64(), 5)
		full := r.Bool()
		w.flag(full)
		w.flag(r.Bool())
		w.flag(r.Bool())
		w.put(r.U64(), 9)
		spHMS(r, w, full)
		ol := r.Pick(0, 0, 1, 5, 7, 8, 24, 31, r.Intn(32))
		w.put(uint64(ol), 5)
		w.put(r.U64(), ol)
	}
	return w
}

// spPicTiming: an AVC picture timing payload for the external parameters in arg.
func spPicTiming(r *hx.Rng, arg int) *bitw {
	w := &bitw{}
	if arg&1 == 1 {
		w.put(r.U64(), arg>>1&31+1)
		w.put(r.U64(), arg>>6&31+1)
	}
	ps := r.Pick(0, 1, 2, 3, 4, 5, 6, 7, 8, 8, r.Intn(16))
	w.put(uint64(ps), 4)
	k := 1
	if ps > 2 {
		k = 2
	}
	if ps > 4 {
		k = 3
	}
	for i := 0; i < k; i++ {
		f := r.Intn(5) != 0
		w.flag(f)
		if !f {
			continue
		}
		w.put(r.U64(), 2)
		w.flag(r.Bool())
		w.put(r.U64(), 5)
		full := r.Bool()
		w.flag(full)
		w.flag(r.Bool())
		w.flag(r.Bool())
		w.put(r.U64(), 8)
		spHMS(r, w, full)
		w.put(r.U64(), arg>>11&31)
	}
	return w
}

// spBytes: the bits as bytes; one time in four the stop bit is left out when the bits end on a byte boundary
// (bitw.bytes adds it otherwise), then the usual mutations (truncation, flips, trailing bytes).
func spBytes(r *hx.Rng, w *bitw) []byte {
	if len(w.bits)%8 == 0 && r.Intn(4) != 0 {
		w.put(0x80, 8)
	}
	b := w.bytes(false)
	if r.Intn(3) == 0 {
		b = mutate(r, b)
	}
	return b
}

var spHostileLen = []int{0, 1, 7, 8, 9, 31, 32, 33, 63, 64, 65, 127, 128, 200, 254, 255}

func spClockValue(r *hx.Rng, avc bool) []byte {
	b := r.Bytes(16, nil)
	switch r.Intn(4) {
	case 0:
		b[0] |= 1 // time stamp present
	case 1:
		b[0] |= 5 // full time stamp
	case 2:
		b[0] = b[0]&^4 | 0xe1 // seconds, minutes, hours flags
	}
	b[7] = byte(r.Pick(spHostileLen...))
	if r.Intn(3) == 0 {
		b[7] = byte(r.Intn(32))
	}
	if avc && r.Bool() { // small negative / positive offsets
		binary.BigEndian.PutUint64(b[8:], uint64(int64(r.Range(-70000, 70000))))
	}
	return b
}

// seiPayloadCases: round 0 starts with the deterministic part (the empty payload, the seeds and every prefix of
// them, every number of absent clocks, message values with 0..5 clocks and each hostile length in each position);
// then n generated payloads / values per kind.
func seiPayloadCases(seed uint64, round, n, total int) []tcase {
	r := hx.NewRng(seed*1000003 + uint64(round))
	var cs []tcase
	ptArg := func() int { return argsFor(r, "sei.DecodePicTimingAvcSEIHRD") }
	if round == 0 {
		for _, h := range seedsOf["sei.DecodeTimeCodeSEI"] {
			b := hx.UnHex(h)
			for k := 0; k <= len(b); k++ {
				cs = append(cs, tcase{spTCDec, b[:k], 0})
			}
		}
		for _, h := range seedsOf["sei.DecodePicTimingAvcSEIHRD"] {
			b := hx.UnHex(h)
			for k := 0; k <= len(b); k++ {
				cs = append(cs, tcase{spPTDec, b[:k], 0}, tcase{spPTDec, b[:k], 1 | 23<<1 | 23<<6 | 24<<11}, tcase{spPTDec, b[:k], ptArg()})
			}
		}
		for k := 0; k <= 5; k++ {
			cs = append(cs, tcase{spTCVal, make([]byte, 16*k), 0}, tcase{spPTVal, make([]byte, 20+16*k), 0})
			for _, l := range spHostileLen {
				for pos := 0; pos < k; pos++ {
					tc := make([]byte, 16*k)
					tc[16*pos], tc[16*pos+7] = 1, byte(l)
					copy(tc[16*pos+8:], r.Bytes(4, nil))
					cs = append(cs, tcase{spTCVal, tc, 0})
					pt := append([]byte{1, byte(r.Pick(spHostileLen...)), byte(l), byte(r.Intn(16))}, r.Bytes(16, nil)...)
					pt = append(pt, make([]byte, 16*k)...)
					pt[20+16*pos], pt[20+16*pos+7] = 1, byte(l)
					copy(pt[20+16*pos+8:], r.Bytes(8, nil))
					cs = append(cs, tcase{spPTVal, pt, 0})
				}
				hdr := append([]byte{1, byte(l), byte(r.Pick(spHostileLen...)), byte(r.Intn(16))}, r.Bytes(16, nil)...)
				cs = append(cs, tcase{spPTVal, append(hdr, make([]byte, 16*k)...), 0})
			}
		}
		for k := 0; k < 20; k++ {
			cs = append(cs, tcase{spPTVal, r.Bytes(k, nil), 0})
		}
	}
	for i := 0; i < n; i++ {
		switch i % 4 {
		case 0:
			cs = append(cs, tcase{spTCDec, spBytes(r, spTimeCode(r, r.Intn(4))), 0})
		case 1:
			a := ptArg()
			cs = append(cs, tcase{spPTDec, spBytes(r, spPicTiming(r, a)), a})
		case 2:
			var b []byte
			for k := r.Pick(0, 1, 1, 2, 3, 3, 4, 7); k > 0; k-- {
				b = append(b, spClockValue(r, false)...)
			}
			cs = append(cs, tcase{spTCVal, b, 0})
		default:
			b := append([]byte{byte(r.Intn(2)), byte(r.Pick(spHostileLen...)), byte(r.Pick(spHostileLen...)), byte(r.Intn(16))}, r.Bytes(16, nil)...)
			if r.Bool() {
				b[1], b[2] = byte(r.Intn(32)), byte(r.Intn(32))
			}
			for k := r.Pick(0, 1, 1, 2, 3, 3, 4); k > 0; k-- {
				b = append(b, spClockValue(r, true)...)
			}
			cs = append(cs, tcase{spPTVal, b, 0})
		}
	}
	return cs
}
