// Harness for C16 (untrusted elementary-stream bytes never crash or hang the codec helpers).
//
//	c16 corr   -seed S -n N        cases + implementation observables for the model diff (modelled targets)
//	c16 search -seed S -n N        evaluates the property itself (class must be ok|err, allocation linear)
//	                               on every target; prints FAIL / EVALS lines
//	c16 replay <target> <hex> <arg> [<control hex> <control arg>]  one call (after the control), prints its class
//	c16 worker                     (internal) executes calls read from stdin, one per line
//
// Every hostile call is executed in a WORKER SUBPROCESS (this binary re-invoked with `worker`): an
// out-of-memory abort or an endless loop in the code under test kills / blocks only the worker; the
// parent classifies the outcome as ok | err | panic | hang | overalloc | crash.
package main

import (
	"bufio"
	"bytes"
	"flag"
	"fmt"
	"io"
	"os"
	"os/exec"
	"runtime"
	"runtime/metrics"
	"sort"
	"strconv"
	"strings"
	"time"

	"verifharness/hx"
)

// A target is one entry point of the code under test.  call executes it (this part is measured for
// allocation and guarded by recover) and returns the outcome class (ok|err) plus a function that
// renders the projected value afterwards.
type target struct {
	name     string
	modelled bool // has a Gallina model: part of `corr`
	call     func(in []byte, arg int) (class string, show func() string)
}

var targets []target
var targetByName = map[string]*target{}

func register(ts ...target) {
	targets = append(targets, ts...)
}

func indexTargets() {
	for i := range targets {
		targetByName[targets[i].name] = &targets[i]
	}
}

// ---------------------------------------------------------------------------------- worker side

var sink interface{} // keeps results alive so that the calls are not optimised away

// watchdog aborts the worker as soon as the Go runtime has mapped more than workerMemLimit bytes:
// a runaway allocation is reported within milliseconds instead of after the kernel limit (ulimit -v,
// set by the python side as a second line of defence) has been reached.
const workerMemLimit = 256 << 20

func watchdog() {
	s := []metrics.Sample{{Name: "/memory/classes/total:bytes"}}
	for {
		time.Sleep(10 * time.Millisecond)
		metrics.Read(s)
		if v := s[0].Value.Uint64(); v > workerMemLimit {
			fmt.Fprintf(os.Stderr, "watchdog: out of memory: %d bytes mapped by the runtime\n", v)
			os.Exit(3)
		}
	}
}

func workerMain() {
	go watchdog()
	rd := bufio.NewReaderSize(os.Stdin, 1<<20)
	wr := bufio.NewWriterSize(os.Stdout, 1<<16)
	for {
		line, err := rd.ReadString('\n')
		if line == "" && err != nil {
			return
		}
		f := strings.Split(strings.TrimRight(line, "\n"), "\t")
		if len(f) != 3 {
			fmt.Fprintf(wr, "badreq\t\t0\n")
			wr.Flush()
			continue
		}
		t := targetByName[f[0]]
		arg, _ := strconv.Atoi(f[2])
		raw := hx.UnHex(f[1])
		in := hx.Exact(raw)
		class, value, alloc := runOne(t, in, arg)
		if workerHyg && t != nil {
			class, value = hygOne(t, raw, arg, class, value) // cross-cutting oracles: hygiene.go
		}
		fmt.Fprintf(wr, "%s\t%s\t%d\n", class, value, alloc)
		wr.Flush() // every reply at once: an unanswered request is then the one being executed
		if err != nil {
			return
		}
	}
}

var allocSample = []metrics.Sample{{Name: "/gc/heap/allocs:bytes"}}

func heapAllocs() uint64 {
	metrics.Read(allocSample)
	return allocSample[0].Value.Uint64()
}

// runOne executes one call.  Allocation is first estimated with the cheap runtime/metrics counter
// (which lags by at most a span per size class); when the estimate exceeds a quarter of the limit
// the call is repeated on a fresh copy of the input under runtime.ReadMemStats (exact, but it
// stops the world and costs ~0.3 ms here).
func runOne(t *target, in []byte, arg int) (class, value string, alloc uint64) {
	if t == nil {
		return "notarget", "", 0
	}
	orig := hx.Exact(in)
	var show func() string
	a0 := heapAllocs()
	p := hx.Try(func() { class, show = t.call(in, arg) })
	alloc = heapAllocs() - a0
	if alloc > allocLimit(len(in))/4 {
		var m0, m1 runtime.MemStats
		in2 := hx.Exact(orig)
		runtime.ReadMemStats(&m0)
		_ = hx.Try(func() { _, _ = t.call(in2, arg) })
		runtime.ReadMemStats(&m1)
		alloc = m1.TotalAlloc - m0.TotalAlloc
	}
	if p != "" {
		return "panic", sanitize(p), alloc
	}
	if show != nil {
		// rendering is outside the measured region but still guarded
		p = hx.Try(func() { value = show() })
		if p != "" {
			return "panic", sanitize("render: " + p), alloc
		}
	}
	return class, value, alloc
}

func sanitize(s string) string {
	s = strings.ReplaceAll(s, "\t", " ")
	s = strings.ReplaceAll(s, "\n", " ")
	if len(s) > 160 {
		s = s[:160]
	}
	return s
}

// ---------------------------------------------------------------------------------- parent side

type reply struct {
	line string
	eof  bool
}

type runner struct {
	cmd    *exec.Cmd
	in     io.WriteCloser
	out    chan reply
	stderr *bytes.Buffer
	budget time.Duration
	// targets with a confirmed hang (later timeouts of the same target are not re-confirmed) and the
	// number of expensive failures (hang / overalloc / crash) per target
	hung      map[string]bool
	expensive map[string]int
	// confirmed hangs so far, and the number of them this run is allowed to wait for: every confirmed
	// hang costs budget + hangConfirm of wall clock, so that a change that makes a parser loop for ever
	// on many inputs of many targets would otherwise keep the check waiting for minutes.  After the
	// first confirmed hang of a target its remaining cases are skipped; after maxHangs confirmed hangs
	// the run stops issuing calls altogether (what was found is reported).
	hangs, maxHangs int
	// statistics
	calls, restarts, skipped int
	// the worker also evaluates the hygiene oracles (search, replay): hygiene.go
	hyg bool
}

// after this many expensive failures of one target its remaining cases are skipped; after
// maxExpensiveTotal of them over all targets the run stops issuing calls (there is plenty to report)
const maxExpensive = 2
const maxExpensiveTotal = 16

// default number of confirmed hangs a run waits for (flag -maxhang)
const defaultMaxHangs = 2

// wall-clock budget of the single confirmation run of a case that did not answer inside a chunk
const hangConfirm = 5 * time.Second

func (r *runner) totalExpensive() int {
	n := 0
	for _, v := range r.expensive {
		n += v
	}
	return n
}

func newRunner(budget time.Duration) *runner {
	return &runner{budget: budget, hung: map[string]bool{}, expensive: map[string]int{}, maxHangs: defaultMaxHangs}
}

// done: no further calls are issued (enough expensive failures to report)
func (r *runner) done() bool {
	return r.totalExpensive() >= maxExpensiveTotal || r.hangs >= r.maxHangs
}

func (r *runner) start() {
	wargs := []string{"worker"}
	if r.hyg {
		wargs = append(wargs, "hyg")
	}
	cmd := exec.Command(os.Args[0], wargs...)
	in, err := cmd.StdinPipe()
	if err != nil {
		fatal("stdin pipe: %v", err)
	}
	outp, err := cmd.StdoutPipe()
	if err != nil {
		fatal("stdout pipe: %v", err)
	}
	r.stderr = &bytes.Buffer{}
	cmd.Stderr = &capWriter{buf: r.stderr, max: 1 << 16}
	if err := cmd.Start(); err != nil {
		fatal("cannot start worker: %v", err)
	}
	ch := make(chan reply, 4)
	go func() {
		rd := bufio.NewReaderSize(outp, 1<<20)
		for {
			line, err := rd.ReadString('\n')
			if err != nil {
				ch <- reply{eof: true}
				return
			}
			ch <- reply{line: strings.TrimRight(line, "\n")}
		}
	}()
	r.cmd, r.in, r.out = cmd, in, ch
	r.restarts++
}

func (r *runner) stop() {
	if r.cmd == nil {
		return
	}
	r.in.Close()
	_ = r.cmd.Process.Kill()
	_ = r.cmd.Wait()
	r.cmd = nil
}

type capWriter struct {
	buf *bytes.Buffer
	max int
}

func (c *capWriter) Write(p []byte) (int, error) {
	if c.buf.Len() < c.max {
		k := c.max - c.buf.Len()
		if k > len(p) {
			k = len(p)
		}
		c.buf.Write(p[:k])
	}
	return len(p), nil
}

// once performs one call with the given wall-clock budget.
func (r *runner) once(name string, in []byte, arg int, budget time.Duration) (class, value string, alloc uint64) {
	if r.cmd == nil {
		r.start()
	}
	r.calls++
	req := name + "\t" + hx.Hex(in) + "\t" + strconv.Itoa(arg) + "\n"
	if _, err := io.WriteString(r.in, req); err != nil {
		// worker already gone: restart once
		r.stop()
		r.start()
		if _, err := io.WriteString(r.in, req); err != nil {
			fatal("cannot write to worker: %v", err)
		}
	}
	timer := time.NewTimer(budget)
	defer timer.Stop()
	select {
	case rp := <-r.out:
		if rp.eof {
			// the worker died: Go runtime fatal error (out of memory, stack overflow, ...)
			_ = r.cmd.Wait()
			msg := r.stderr.String()
			r.cmd = nil
			if strings.Contains(msg, "out of memory") || strings.Contains(msg, "cannot allocate memory") ||
				strings.Contains(msg, "makeslice: len out of range") {
				return "overalloc", firstLine(msg), 0
			}
			return "crash", firstLine(msg), 0
		}
		f := strings.Split(rp.line, "\t")
		if len(f) != 3 {
			fatal("bad worker reply %q", rp.line)
		}
		a, _ := strconv.ParseUint(f[2], 10, 64)
		return f[0], f[1], a
	case <-timer.C:
		r.stop()
		return "hang", "", 0
	}
}

func firstLine(s string) string {
	for _, l := range strings.Split(s, "\n") {
		if strings.TrimSpace(l) != "" {
			return sanitize(l)
		}
	}
	return ""
}

// allocLimit is the bound "a small multiple of the input length" used to classify over-allocation:
// 512 bytes of heap per input byte (a decoder that stores one 8-byte value per input BIT and grows its
// slice by doubling stays below this) plus 1 MiB of slack for fixed-size structures and messages.
// Count-driven allocations from hostile values are orders of magnitude above it.
func allocLimit(n int) uint64 { return 512*uint64(n) + 1<<20 }

// call classifies one call.  A timeout is confirmed with a fresh worker and a 3x budget before it
// is reported as a hang (wall-clock noise must not become a false alarm).
func (r *runner) call(name string, in []byte, arg int) (class, value string) {
	class, value, alloc := r.once(name, in, arg, r.budget)
	if class == "hang" && !r.hung[name] {
		class, value, alloc = r.once(name, in, arg, 3*r.budget)
		if class == "hang" {
			r.hung[name] = true
		}
	}
	if (class == "ok" || class == "err") && alloc > allocLimit(len(in)) {
		class, value = "overalloc", fmt.Sprintf("%d bytes allocated for %d input bytes", alloc, len(in))
	}
	if class == "hang" || class == "overalloc" || class == "crash" {
		r.expensive[name]++
	}
	return class, value
}

// confirmHang re-runs a case that timed out inside a chunk, alone, with the confirmation budget.
func (r *runner) confirmHang(c tcase) (class, value string) {
	class, value, alloc := r.once(c.target, c.in, c.arg, hangConfirm)
	if class == "hang" {
		r.hung[c.target] = true
		r.hangs++
		r.expensive[c.target]++
		return class, value
	}
	if (class == "ok" || class == "err") && alloc > allocLimit(len(c.in)) {
		class, value = "overalloc", fmt.Sprintf("%d bytes allocated for %d input bytes", alloc, len(c.in))
	}
	if class == "overalloc" || class == "crash" {
		r.expensive[c.target]++
	}
	return class, value
}

type result struct{ class, value string }

func (r *runner) classify(c tcase, class, value string, alloc uint64) result {
	if (class == "ok" || class == "err") && alloc > allocLimit(len(c.in)) {
		return result{"overalloc", fmt.Sprintf("%d bytes allocated for %d input bytes", alloc, len(c.in))}
	}
	return result{class, value}
}

// batch runs the cases in order, sending them to the worker in chunks.  When the worker dies or
// stops answering inside a chunk, the first unanswered case is re-run alone (that single run is the
// authority for its class) and the rest of the chunk is sent to a fresh worker.
func (r *runner) batch(cs []tcase, each func(i int, res result)) {
	const chunk = 128
	i := 0
	for i < len(cs) {
		if r.cmd == nil {
			r.start()
		}
		// next chunk: indices of the cases whose target is still being exercised
		var ix []int
		var req bytes.Buffer
		for i < len(cs) && len(ix) < chunk {
			c := cs[i]
			if r.hung[c.target] || r.expensive[c.target] >= maxExpensive || r.done() {
				r.skipped++
				each(i, result{"skipped", ""})
			} else {
				ix = append(ix, i)
				req.WriteString(c.target + "\t" + hx.Hex(c.in) + "\t" + strconv.Itoa(c.arg) + "\n")
			}
			i++
		}
		if len(ix) == 0 {
			continue
		}
		werr := make(chan error, 1)
		go func(w io.Writer, b []byte) { _, err := w.Write(b); werr <- err }(r.in, req.Bytes())
		k := 0
		broken, timedOut := false, false
		for k < len(ix) && !broken {
			timer := time.NewTimer(r.budget)
			select {
			case rp := <-r.out:
				timer.Stop()
				if rp.eof {
					broken = true
					break
				}
				f := strings.Split(rp.line, "\t")
				if len(f) != 3 {
					fatal("bad worker reply %q", rp.line)
				}
				a, _ := strconv.ParseUint(f[2], 10, 64)
				r.calls++
				res := r.classify(cs[ix[k]], f[0], f[1], a)
				if res.class == "overalloc" {
					r.expensive[cs[ix[k]].target]++
				}
				each(ix[k], res)
				k++
			case <-timer.C:
				broken, timedOut = true, true
			}
		}
		if broken {
			if os.Getenv("C16_DEBUG") != "" {
				fmt.Fprintf(os.Stderr, "broken chunk at %s %s (answered %d of %d)\n", cs[ix[k]].target, hx.Hex(cs[ix[k]].in), k, len(ix))
			}
			r.stop()
			<-werr
			c := cs[ix[k]]
			var class, value string
			if timedOut {
				// the case did not answer within the budget: ONE confirmation run on a fresh worker
				// (that run is the authority); a confirmed hang ends the target's cases
				class, value = r.confirmHang(c)
			} else {
				class, value = r.call(c.target, c.in, c.arg)
			}
			each(ix[k], result{class, value})
			// the unanswered rest of the chunk goes back into the queue
			if k+1 < len(ix) {
				i = ix[k+1]
			}
		} else {
			<-werr
		}
	}
}

func fatal(f string, a ...interface{}) {
	fmt.Fprintf(os.Stderr, "c16 harness: "+f+"\n", a...)
	os.Exit(2)
}

// ---------------------------------------------------------------------------------- corr / search

var out = bufio.NewWriterSize(os.Stdout, 1<<20)

// wall-clock budget of one call (every input here is at most a few KiB and the modelled cost is
// linear: milliseconds would do; the slack absorbs scheduling noise).  A first timeout of a target is
// confirmed with 3x the budget.
const budget = 2 * time.Second

type tcase struct {
	target string
	in     []byte
	arg    int
}

// run-wide options of corr / search
var optMaxHangs = defaultMaxHangs
var optSkip = map[string]bool{} // targets not exercised at all (already reported as hanging by an earlier phase)

func newOptRunner() *runner {
	r := newRunner(budget)
	r.maxHangs = optMaxHangs
	for t := range optSkip {
		r.hung[t] = true
	}
	return r
}

func corr(seed uint64, n int) {
	r := newOptRunner()
	defer r.stop()
	id := 0
	// the reference parameter sets the stage-2 targets parse against (the model parses them itself)
	fmt.Fprintf(out, "CTX\tavcsps\t%s\n", strings.Join(avcSPSHex, ","))
	fmt.Fprintf(out, "CTX\tavcpps\t%s\n", strings.Join(avcPPSHex, ","))
	fmt.Fprintf(out, "CTX\thevcpt\t%s\n", hevcPicTimingCtx())
	fmt.Fprintf(out, "CTX\thevcsps\t%s\n", strings.Join(hevcSPSHex, ","))
	fmt.Fprintf(out, "CTX\thevcpps\t%s\n", strings.Join(hevcModelPPSHex, ","))
	forRounds(n, func(round, m int) {
		cs := append(walkerCases(seed, round, m, n), seiCorrCases(seed+7, round, m, n)...)
		cs = append(cs, stage2CorrCases(seed+11, round, m, n)...)
		cs = append(cs, confRecCorrCases(seed+13, round, m/10, n/10)...)
		cs = append(cs, hevcModelCorrCases(seed+17, round, m, n)...)
		cs = append(cs, seiPayloadCases(seed+19, round, m/10, n/10)...)
		r.batch(cs, func(i int, res result) {
			c := cs[i]
			if res.class == "skipped" {
				return
			}
			if res.class != "ok" {
				res.value = "" // messages / panic texts are not compared
			}
			id++
			fmt.Fprintf(out, "W\t%d\t%s\t%s\t%d\t%s\t%s\n", id, c.target, hx.Hex(c.in), c.arg, res.class, res.value)
		})
	})
	out.Flush()
	fmt.Fprintf(os.Stderr, "corr: %d calls, %d worker starts, %d skipped, %d confirmed hangs\n", r.calls, r.restarts, r.skipped, r.hangs)
}

// forRounds splits n generated inputs into rounds of at most roundSize so that the case lists stay small.
const roundSize = 20000

func forRounds(n int, f func(round, m int)) {
	for round, done := 0, 0; done < n || round == 0; round++ {
		m := n - done
		if m > roundSize {
			m = roundSize
		}
		f(round, m)
		done += m
	}
}

type failure struct {
	site, class, witness, desc string
	count                      int
}

func search(seed uint64, n int) {
	r := newOptRunner()
	r.hyg = true
	defer r.stop()
	fails := map[string]*failure{}
	evals := 0
	check := func(c tcase, res result) {
		class, value := res.class, res.value
		if class == "skipped" {
			return
		}
		evals++
		if class == "ok" || class == "err" {
			return
		}
		key := c.target + "/" + class
		w := hx.Hex(c.in)
		if c.arg != 0 {
			w += " arg=" + strconv.Itoa(c.arg)
		}
		f := fails[key]
		if f == nil {
			fails[key] = &failure{c.target, class, w, value, 1}
			return
		}
		f.count++
		if len(w) < len(f.witness) {
			f.witness, f.desc = w, value
		}
	}
	forRounds(n, func(round, m int) {
		// a tenth of the budget goes to the (modelled, cheap) walkers, the rest to the stage-2 targets
		cs := append(walkerCases(seed+1, round, m/10, n/10), searchCases(seed+2, round, m, n)...)
		// the value-rendering targets of the correspondence (configuration records, SEI, stage 2, HEVC model) as well:
		// the hygiene oracles compare VALUES (sub-slice vs exact copy, control answers), the plain search targets
		// mostly render none
		cs = append(cs, confRecCorrCases(seed+3, round, m/20, n/20)...)
		cs = append(cs, seiCorrCases(seed+4, round, m/20, n/20)...)
		cs = append(cs, stage2CorrCases(seed+5, round, m/20, n/20)...)
		cs = append(cs, hevcModelCorrCases(seed+6, round, m/20, n/20)...)
		cs = append(cs, seiPayloadCases(seed+8, round, m/40, n/40)...)
		r.batch(cs, func(i int, res result) { check(cs[i], res) })
	})
	keys := make([]string, 0, len(fails))
	for k := range fails {
		keys = append(keys, k)
	}
	sort.Strings(keys)
	for _, k := range keys {
		f := fails[k]
		fmt.Fprintf(out, "FAIL\t%s\t%s\t%s\t%s (%d failing inputs)\n", f.site, f.class, f.witness, f.desc, f.count)
	}
	fmt.Fprintf(out, "EVALS\t%d\n", evals)
	out.Flush()
	fmt.Fprintf(os.Stderr, "search: %d calls, %d worker starts, %d skipped, %d confirmed hangs\n", r.calls, r.restarts, r.skipped, r.hangs)
}

func main() {
	indexTargets()
	if len(os.Args) < 2 {
		fatal("usage: c16 corr|search|replay|worker")
	}
	switch os.Args[1] {
	case "worker":
		workerHyg = len(os.Args) > 2 && os.Args[2] == "hyg"
		workerMain()
	case "corr", "search":
		fs := flag.NewFlagSet(os.Args[1], flag.ExitOnError)
		seed := fs.Uint64("seed", 0, "seed")
		n := fs.Int("n", 1000, "number of generated inputs")
		mh := fs.Int("maxhang", defaultMaxHangs, "number of confirmed hangs the run waits for before it stops issuing calls")
		skip := fs.String("skip", "", "comma separated targets that are not exercised")
		_ = fs.Parse(os.Args[2:])
		optMaxHangs = *mh
		for _, t := range strings.Split(*skip, ",") {
			if t != "" {
				optSkip[t] = true
			}
		}
		if os.Args[1] == "corr" {
			corr(*seed, *n)
		} else {
			search(*seed, *n)
		}
	case "replay":
		if len(os.Args) < 5 {
			fatal("usage: c16 replay <target> <hex> <arg>")
		}
		arg, _ := strconv.Atoi(os.Args[4])
		r := newRunner(budget)
		r.hyg = true
		defer r.stop()
		if len(os.Args) >= 7 { // optional: the control input asked before (class poisoned)
			carg, _ := strconv.Atoi(os.Args[6])
			_, _ = r.call(os.Args[2], hx.UnHex(os.Args[5]), carg)
		}
		class, value := r.call(os.Args[2], hx.UnHex(os.Args[3]), arg)
		fmt.Printf("%s\t%s\n", class, value)
	case "files":
		fs := flag.NewFlagSet("files", flag.ExitOnError)
		seed := fs.Uint64("seed", 0, "seed")
		n := fs.Int("n", 100, "number of files")
		dir := fs.String("dir", "", "output directory")
		_ = fs.Parse(os.Args[2:])
		writeFiles(*seed, *n, *dir)
	case "targets":
		for _, t := range targets {
			fmt.Printf("%s\t%v\n", t.name, t.modelled)
		}
	default:
		fatal("unknown sub-command %s", os.Args[1])
	}
}
