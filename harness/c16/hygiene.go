// Cross-cutting hygiene oracles of the C16 search.  They run INSIDE the worker, after the measured call, and only when the
// worker was started as `worker hyg` (search and replay; the correspondence keeps the plain worker: its observables are
// unchanged).  For a call X of target t that ended in ok|err:
//
//   - WRITES BEYOND len / DEPENDENCE ON cap: X is repeated on a sub-slice of a larger buffer (24 guard bytes behind it):
//     guard bytes intact (class beyondlen), same class and value (class capdep).  In-place converters may write their
//     argument up to len, never behind it.
//   - HIDDEN STATE / POISONING: the first input of t this worker saw ending in "ok" is t's CONTROL, its answer the
//     baseline.  After every later input of t (hostile or not) the control is asked again and must answer as at first
//     (class poisoned); so must the control of the target exercised BEFORE t (package-level state shared by parsers), and X
//     itself asked a second time (class unstable).  The stage-2 targets parse through shared spsMap / ppsMap / SEI context
//     (contextSets): a hostile input that modifies a parameter set in the maps changes the control's answer.
package main

import (
	"strconv"

	"verifharness/hx"
)

var workerHyg bool

type control struct {
	in           []byte
	arg          int
	class, value string
	show         func() string // renders what the library returned at the FIRST evaluation (re-read after later calls)
}

var controls = map[string]*control{}
var prevTarget string // the target exercised before the current one (its control is re-asked as well)
var lastTarget string

// evalCall: class and value of one call on buffer b (panic -> "panic").
func evalCall(t *target, b []byte, arg int) (class, value string) {
	var show func() string
	p := hx.Try(func() { class, show = t.call(b, arg) })
	if p != "" {
		return "panic", sanitize(p)
	}
	if show != nil {
		p = hx.Try(func() { value = show() })
		if p != "" {
			return "panic", sanitize("render: " + p)
		}
	}
	return class, value
}

func (c *control) ask(t *target) (ok bool, got string) {
	if c.show != nil {
		var v string
		if p := hx.Try(func() { v = c.show() }); p != "" || v != c.value {
			c.show = nil
			return false, "ok, but the value returned at first reads differently now: storage shared between calls"
		}
	}
	cl, v := evalCall(t, hx.Exact(c.in), c.arg)
	return cl == c.class && v == c.value, cl
}

// newControl evaluates the control input once more and keeps the rendering closure of THAT evaluation.
func newControl(t *target, raw []byte, arg int, class, value string) *control {
	c := &control{in: hx.Exact(raw), arg: arg, class: class, value: value}
	var show func() string
	var cl, v string
	if p := hx.Try(func() {
		cl, show = t.call(hx.Exact(raw), arg)
		if show != nil {
			v = show()
		}
	}); p == "" && cl == class && v == value {
		c.show = show
	}
	return c
}

// hygOne: raw is the input of the call that has just been answered with (class, value).
func hygOne(t *target, raw []byte, arg int, class, value string) (string, string) {
	if class != "ok" && class != "err" {
		return class, value
	}
	if t.name != lastTarget {
		prevTarget, lastTarget = lastTarget, t.name
	}
	// sub-slice with guard bytes
	const guardLen, guardByte = 24, 0xA5
	buf := make([]byte, len(raw)+guardLen)
	copy(buf, raw)
	for i := len(raw); i < len(buf); i++ {
		buf[i] = guardByte
	}
	c2, v2 := evalCall(t, buf[:len(raw)], arg)
	for i := len(raw); i < len(buf); i++ {
		if buf[i] != guardByte {
			return "beyondlen", "byte " + strconv.Itoa(i-len(raw)) + " behind the end of the input (inside its capacity) was overwritten"
		}
	}
	if c2 != class || v2 != value {
		// the same question again on an exact-capacity copy tells capacity from history
		if c4, v4 := evalCall(t, hx.Exact(raw), arg); c4 != class || v4 != value {
			return "unstable", "the same call repeated answers class " + c4 + " (first " + class + ") or another value"
		}
		if c2 == "panic" {
			return "panic", "on a sub-slice with spare capacity: " + v2
		}
		return "capdep", "class " + c2 + " on a sub-slice of a larger buffer, " + class + " on an exact-capacity copy (or another value)"
	}
	// the controls
	ctl := controls[t.name]
	if ctl == nil {
		if class == "ok" {
			controls[t.name] = newControl(t, raw, arg, class, value)
		}
		return class, value
	}
	if ok, got := ctl.ask(t); !ok {
		ctl.class, ctl.value = evalCall(t, hx.Exact(ctl.in), ctl.arg) // new baseline: one report per poisoning input
		return "poisoned", "after this input the known-good control input " + hx.Hex(ctl.in) + " arg=" + strconv.Itoa(ctl.arg) +
			" of the same target no longer answers as before (class " + got + ")"
	}
	if pc := controls[prevTarget]; pc != nil && prevTarget != t.name {
		if ok, got := pc.ask(targetByName[prevTarget]); !ok {
			pc.class, pc.value = evalCall(targetByName[prevTarget], hx.Exact(pc.in), pc.arg)
			return "poisoned", "after this input the known-good control input " + hx.Hex(pc.in) + " arg=" + strconv.Itoa(pc.arg) +
				" of " + prevTarget + " no longer answers as before (class " + got + ")"
		}
	}
	return class, value
}
