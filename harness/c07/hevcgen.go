// Synthetic HEVC streams for C07: SPS / PPS / slice segment headers written bit by bit from ISO/IEC 23008-2
// 7.3.2.2, 7.3.2.3, 7.3.6.1 with the harness' own bit writer (nothing of mp4ff's bits package or parsers is
// used), so that the length of every slice segment header is known INDEPENDENTLY of hevc.ParseSliceHeader and of
// the Gallina model: dependent slice segments, non-first segments (slice_segment_address of Ceil(Log2(PicSizeInCtbsY))
// bits with dimensions off the CTB grid), extra header bits, RPS coded in the slice or selected from the SPS,
// long-term pictures, list modification, entry points, header extension, emulation prevention inside the header.
package main

import (
	"verifharness/hx"
)

// ---------------------------------------------------------------- bit writer

type bw struct{ b []byte } // one bit per element

func (w *bw) u(v uint64, n int) {
	for i := n - 1; i >= 0; i-- {
		w.b = append(w.b, byte((v>>uint(i))&1))
	}
}

func (w *bw) flag(f bool) {
	if f {
		w.b = append(w.b, 1)
	} else {
		w.b = append(w.b, 0)
	}
}

func (w *bw) ue(v uint64) {
	x := v + 1
	n := 0
	for t := x; t > 1; t >>= 1 {
		n++
	}
	w.u(0, n)
	w.u(x, n+1)
}

func (w *bw) se(v int64) {
	if v > 0 {
		w.ue(uint64(2*v - 1))
	} else {
		w.ue(uint64(-2 * v))
	}
}

// trailing: a one bit, then zeros up to the byte boundary (rbsp_trailing_bits / byte_alignment)
func (w *bw) trailing() {
	w.b = append(w.b, 1)
	for len(w.b)%8 != 0 {
		w.b = append(w.b, 0)
	}
}

func (w *bw) bytes() []byte {
	out := make([]byte, len(w.b)/8)
	for i := range out {
		var v byte
		for j := 0; j < 8; j++ {
			v = v<<1 | w.b[8*i+j]
		}
		out[i] = v
	}
	return out
}

// escapeEP inserts emulation prevention bytes (00 00 03 before a byte <= 3 that follows two zero bytes).
func escapeEP(rbsp []byte) []byte {
	var out []byte
	zeros := 0
	for _, b := range rbsp {
		if zeros >= 2 && b <= 3 {
			out = append(out, 3)
			zeros = 0
		}
		out = append(out, b)
		if b == 0 {
			zeros++
		} else {
			zeros = 0
		}
	}
	return out
}

func ceilLog2(n int) int {
	k := 0
	for (1 << uint(k)) < n {
		k++
	}
	return k
}

// ---------------------------------------------------------------- parameter sets

type rpsEnt struct {
	deltaMinus1 int
	used        bool
}
type hrpsSet struct{ neg, pos []rpsEnt }

func (s hrpsSet) inUse() int {
	n := 0
	for _, e := range s.neg {
		if e.used {
			n++
		}
	}
	for _, e := range s.pos {
		if e.used {
			n++
		}
	}
	return n
}

type ltEnt struct {
	poc  int
	used bool
}

type hevcCfg struct {
	// SPS
	spsID, chroma       int
	sepPlane            bool
	w, h                int
	log2MinCb, log2Diff int
	pocBits             int
	sao                 bool
	rps                 []hrpsSet
	ltPresent           bool
	ltSps               []ltEnt
	tmvp                bool
	// PPS
	ppsID                           int
	depSlices, outputFlag           bool
	extraBits                       int
	cabacInit                       bool
	l0def, l1def                    int
	chromaQp                        bool
	tiles, entropySync              bool
	lfAcross                        bool
	dbfOverrideEnabled, dbfDisabled bool
	listsMod, sliceExt              bool
	sps, pps, vps                   []byte
}

func (c *hevcCfg) picSizeInCtbs() int {
	ctb := 1 << uint(c.log2MinCb+c.log2Diff)
	return ((c.w + ctb - 1) / ctb) * ((c.h + ctb - 1) / ctb)
}

func writeRps(w *bw, idx int, s hrpsSet) {
	if idx > 0 {
		w.flag(false) // inter_ref_pic_set_prediction_flag
	}
	w.ue(uint64(len(s.neg)))
	w.ue(uint64(len(s.pos)))
	for _, e := range s.neg {
		w.ue(uint64(e.deltaMinus1))
		w.flag(e.used)
	}
	for _, e := range s.pos {
		w.ue(uint64(e.deltaMinus1))
		w.flag(e.used)
	}
}

func genRps(r *hx.Rng) hrpsSet {
	var s hrpsSet
	for i := r.Pick(0, 1, 1, 2, 3); i > 0; i-- {
		s.neg = append(s.neg, rpsEnt{r.Pick(0, 0, 1, 3, 7), r.Intn(4) != 0})
	}
	for i := r.Pick(0, 0, 1, 2); i > 0; i-- {
		s.pos = append(s.pos, rpsEnt{r.Pick(0, 0, 1, 2), r.Intn(3) != 0})
	}
	return s
}

func genHevcCfg(r *hx.Rng, k int) *hevcCfg {
	c := &hevcCfg{}
	c.spsID = r.Pick(0, 0, 1, 3, 15)
	c.ppsID = r.Pick(0, 0, 1, 5, 63)
	c.chroma = r.Pick(1, 1, 1, 0, 2, 3)
	if c.chroma == 3 {
		c.sepPlane = r.Bool()
	}
	dims := [][2]int{{960, 540}, {1920, 1080}, {416, 240}, {1280, 720}, {64, 64}, {72, 40}, {8, 8}, {136, 264}, {3840, 2160}, {200, 8}}
	d := dims[(k+r.Intn(3))%len(dims)]
	c.w, c.h = d[0], d[1]
	c.log2MinCb = 3
	c.log2Diff = r.Pick(1, 2, 3, 3, 0)
	c.pocBits = r.Pick(4, 8, 8, 16, 5)
	c.sao = r.Bool()
	for i := r.Pick(0, 1, 2, 3, 5, 9); i > 0; i-- {
		c.rps = append(c.rps, genRps(r))
	}
	c.ltPresent = r.Intn(3) == 0
	if c.ltPresent {
		for i := r.Pick(0, 0, 1, 2, 3); i > 0; i-- {
			c.ltSps = append(c.ltSps, ltEnt{r.Intn(1 << uint(c.pocBits)), r.Bool()})
		}
	}
	c.tmvp = r.Bool()
	c.depSlices = k%2 == 0 || r.Bool()
	c.outputFlag = r.Intn(3) == 0
	c.extraBits = r.Pick(0, 0, 1, 2, 7)
	c.cabacInit = r.Bool()
	c.l0def, c.l1def = r.Pick(0, 0, 1, 3), r.Pick(0, 0, 2)
	c.chromaQp = r.Bool()
	c.tiles = r.Intn(4) == 0
	c.entropySync = r.Intn(4) == 0
	c.lfAcross = r.Bool()
	c.dbfOverrideEnabled = r.Intn(3) == 0
	c.dbfDisabled = r.Intn(3) == 0
	c.listsMod = r.Bool()
	c.sliceExt = r.Intn(4) == 0

	// --- SPS
	w := &bw{}
	w.u(0, 1)
	w.u(33, 6)
	w.u(0, 6)
	w.u(1, 3)
	w.u(0, 4)    // sps_video_parameter_set_id
	w.u(0, 3)    // sps_max_sub_layers_minus1
	w.flag(true) // sps_temporal_id_nesting_flag
	// profile_tier_level(1, 0)
	w.u(0, 2)
	w.flag(false)
	w.u(1, 5)
	w.u(0x60000000, 32)
	w.flag(true)
	w.flag(false)
	w.flag(false)
	w.flag(true)
	w.u(0, 43)
	w.u(0, 1)
	w.u(uint64(r.Pick(93, 120, 153)), 8)
	w.ue(uint64(c.spsID))
	w.ue(uint64(c.chroma))
	if c.chroma == 3 {
		w.flag(c.sepPlane)
	}
	w.ue(uint64(c.w))
	w.ue(uint64(c.h))
	if r.Intn(3) == 0 {
		w.flag(true)
		w.ue(0)
		w.ue(uint64(r.Intn(3)))
		w.ue(0)
		w.ue(uint64(r.Intn(5)))
	} else {
		w.flag(false)
	}
	w.ue(uint64(r.Pick(0, 0, 2)))
	w.ue(uint64(r.Pick(0, 0, 2)))
	w.ue(uint64(c.pocBits - 4))
	w.flag(true) // sps_sub_layer_ordering_info_present_flag
	w.ue(uint64(r.Pick(1, 4, 5)))
	w.ue(uint64(r.Pick(0, 2)))
	w.ue(uint64(r.Pick(0, 1)))
	w.ue(uint64(c.log2MinCb - 3))
	w.ue(uint64(c.log2Diff))
	w.ue(0)
	w.ue(uint64(r.Pick(1, 3)))
	w.ue(uint64(r.Pick(0, 1, 2)))
	w.ue(uint64(r.Pick(0, 1, 2)))
	w.flag(false) // scaling_list_enabled_flag
	w.flag(r.Bool())
	w.flag(c.sao)
	w.flag(false) // pcm_enabled_flag
	w.ue(uint64(len(c.rps)))
	for i, s := range c.rps {
		writeRps(w, i, s)
	}
	w.flag(c.ltPresent)
	if c.ltPresent {
		w.ue(uint64(len(c.ltSps)))
		for _, e := range c.ltSps {
			w.u(uint64(e.poc), c.pocBits)
			w.flag(e.used)
		}
	}
	w.flag(c.tmvp)
	w.flag(r.Bool())
	w.flag(false) // vui_parameters_present_flag
	w.flag(false) // sps_extension_present_flag
	w.trailing()
	c.sps = escapeEP(w.bytes())

	// --- PPS
	w = &bw{}
	w.u(0, 1)
	w.u(34, 6)
	w.u(0, 6)
	w.u(1, 3)
	w.ue(uint64(c.ppsID))
	w.ue(uint64(c.spsID))
	w.flag(c.depSlices)
	w.flag(c.outputFlag)
	w.u(uint64(c.extraBits), 3)
	w.flag(r.Bool())
	w.flag(c.cabacInit)
	w.ue(uint64(c.l0def))
	w.ue(uint64(c.l1def))
	w.se(int64(r.Range(-5, 5)))
	w.flag(r.Bool())
	w.flag(r.Bool())
	if r.Bool() {
		w.flag(true)
		w.ue(uint64(r.Intn(2)))
	} else {
		w.flag(false)
	}
	w.se(int64(r.Range(-3, 3)))
	w.se(int64(r.Range(-3, 3)))
	w.flag(c.chromaQp)
	w.flag(false) // weighted_pred_flag
	w.flag(false) // weighted_bipred_flag
	w.flag(r.Bool())
	w.flag(c.tiles)
	w.flag(c.entropySync)
	if c.tiles {
		w.ue(uint64(r.Intn(2)))
		w.ue(uint64(r.Intn(2)))
		w.flag(true) // uniform_spacing_flag
		w.flag(r.Bool())
	}
	w.flag(c.lfAcross)
	if c.dbfOverrideEnabled || c.dbfDisabled {
		w.flag(true)
		w.flag(c.dbfOverrideEnabled)
		w.flag(c.dbfDisabled)
		if !c.dbfDisabled {
			w.se(int64(r.Range(-2, 2)))
			w.se(int64(r.Range(-2, 2)))
		}
	} else {
		w.flag(false)
	}
	w.flag(false) // pps_scaling_list_data_present_flag
	w.flag(c.listsMod)
	w.ue(uint64(r.Intn(3)))
	w.flag(c.sliceExt)
	w.flag(false) // pps_extension_present_flag
	w.trailing()
	c.pps = escapeEP(w.bytes())
	return c
}

// ---------------------------------------------------------------- slice segment NAL units

type hevcSlice struct {
	nalu     []byte
	hdrSize  int // bytes of the NAL unit up to the end of byte_alignment(), emulation prevention included
	first    bool
	dep      bool
	naluType int
}

// genHevcSlice writes one slice segment NAL unit: header per 7.3.6.1 + pay bytes of slice data.
// forceFirst < 0: non-first; > 0: first; 0: random.
func genHevcSlice(c *hevcCfg, r *hx.Rng, forceFirst int, nt int, pay int) hevcSlice {
	w := &bw{}
	w.u(0, 1)
	w.u(uint64(nt), 6)
	w.u(0, 6)
	w.u(1, 3)
	first := forceFirst > 0 || (forceFirst == 0 && r.Bool())
	if c.picSizeInCtbs() <= 1 {
		first = true
	}
	w.flag(first)
	irap := nt >= 16 && nt <= 23
	if irap {
		w.flag(r.Bool())
	}
	w.ue(uint64(c.ppsID))
	dep := false
	if !first {
		if c.depSlices {
			dep = r.Intn(3) != 0
			w.flag(dep)
		}
		n := c.picSizeInCtbs()
		addr := r.Pick(1, n-1, 1+r.Intn(n-1))
		w.u(uint64(addr), ceilLog2(n))
	}
	if !dep {
		for i := 0; i < c.extraBits; i++ {
			w.flag(r.Bool())
		}
		st := 2 // I
		if !irap {
			st = r.Pick(0, 1, 2, 0, 1)
		}
		w.ue(uint64(st))
		if c.outputFlag {
			w.flag(r.Bool())
		}
		if c.sepPlane {
			w.u(uint64(r.Intn(3)), 2)
		}
		total := 0
		sliceTmvp := false
		if nt != 19 && nt != 20 {
			w.u(uint64(r.Intn(1<<uint(c.pocBits))), c.pocBits)
			fromSps := len(c.rps) > 0 && r.Bool()
			w.flag(fromSps)
			if !fromSps {
				s := genRps(r)
				writeRps(w, len(c.rps), s)
				total += s.inUse()
			} else {
				idx := 0
				if len(c.rps) > 1 {
					idx = r.Intn(len(c.rps))
					w.u(uint64(idx), ceilLog2(len(c.rps)))
				}
				total += c.rps[idx].inUse()
			}
			if c.ltPresent {
				nSps := 0
				if len(c.ltSps) > 0 {
					nSps = r.Intn(len(c.ltSps) + 1)
					w.ue(uint64(nSps))
				}
				nPics := r.Pick(0, 0, 1, 2)
				w.ue(uint64(nPics))
				for i := 0; i < nSps+nPics; i++ {
					used := false
					if i < nSps {
						idx := 0
						if len(c.ltSps) > 1 {
							idx = r.Intn(len(c.ltSps))
							w.u(uint64(idx), ceilLog2(len(c.ltSps)))
						}
						used = c.ltSps[idx].used
					} else {
						w.u(uint64(r.Intn(1<<uint(c.pocBits))), c.pocBits)
						used = r.Bool()
						w.flag(used)
					}
					if used {
						total++
					}
					if r.Intn(3) == 0 {
						w.flag(true)
						w.ue(uint64(r.Intn(4)))
					} else {
						w.flag(false)
					}
				}
			}
			if c.tmvp {
				sliceTmvp = r.Bool()
				w.flag(sliceTmvp)
			}
		}
		saoL, saoC := false, false
		if c.sao {
			saoL = r.Bool()
			w.flag(saoL)
			cat := c.chroma
			if c.sepPlane && c.chroma == 3 {
				cat = 0
			}
			if cat != 0 {
				saoC = r.Bool()
				w.flag(saoC)
			}
		}
		if st == 0 || st == 1 {
			l0, l1 := c.l0def, c.l1def
			if r.Intn(3) == 0 {
				w.flag(true)
				l0 = r.Pick(0, 1, 2, 14)
				w.ue(uint64(l0))
				if st == 0 {
					l1 = r.Pick(0, 1, 3)
					w.ue(uint64(l1))
				}
			} else {
				w.flag(false)
			}
			if c.listsMod && total > 1 {
				nb := ceilLog2(total)
				if r.Bool() {
					w.flag(true)
					for i := 0; i <= l0; i++ {
						w.u(uint64(r.Intn(total)), nb)
					}
				} else {
					w.flag(false)
				}
				if st == 0 {
					if r.Bool() {
						w.flag(true)
						for i := 0; i <= l1; i++ {
							w.u(uint64(r.Intn(total)), nb)
						}
					} else {
						w.flag(false)
					}
				}
			}
			if st == 0 {
				w.flag(r.Bool()) // mvd_l1_zero_flag
			}
			if c.cabacInit {
				w.flag(r.Bool())
			}
			if sliceTmvp {
				col := true
				if st == 0 {
					col = r.Bool()
					w.flag(col)
				}
				if (col && l0 > 0) || (!col && l1 > 0) {
					w.ue(uint64(r.Intn(2)))
				}
			}
			w.ue(uint64(r.Intn(5))) // five_minus_max_num_merge_cand
		}
		w.se(int64(r.Range(-20, 20)))
		if c.chromaQp {
			w.se(int64(r.Range(-12, 12)))
			w.se(int64(r.Range(-12, 12)))
		}
		override := false
		if c.dbfOverrideEnabled {
			override = r.Bool()
			w.flag(override)
		}
		disabled := c.dbfDisabled
		if override {
			disabled = r.Bool()
			w.flag(disabled)
			if !disabled {
				w.se(int64(r.Range(-6, 6)))
				w.se(int64(r.Range(-6, 6)))
			}
		}
		if c.lfAcross && (saoL || saoC || !disabled) {
			w.flag(r.Bool())
		}
	}
	if c.tiles || c.entropySync {
		n := r.Pick(0, 0, 1, 3)
		w.ue(uint64(n))
		if n > 0 {
			ol := r.Pick(0, 7, 15, 31)
			w.ue(uint64(ol))
			for i := 0; i < n; i++ {
				w.u(r.U64()&((1<<uint(ol+1))-1), ol+1)
			}
		}
	}
	if c.sliceExt {
		n := r.Pick(0, 0, 1, 3, 6)
		w.ue(uint64(n))
		for i := 0; i < n; i++ {
			w.u(uint64(r.Pick(0, 0, 0, 1, 3, 255)), 8) // zeros: emulation prevention inside the header
		}
	}
	w.trailing()
	hdr := w.bytes()
	rbsp := append(append([]byte{}, hdr...), r.Bytes(pay, []byte{0, 0, 0, 1, 3})...)
	return hevcSlice{nalu: escapeEP(rbsp), hdrSize: len(escapeEP(hdr)), first: first, dep: dep, naluType: nt}
}

func hevcNonVideo(r *hx.Rng, typ int, sz int) []byte {
	b := r.Bytes(sz, nil)
	b[0] = byte(typ << 1)
	if sz > 1 {
		b[1] = 1
	}
	return b
}

// genHevcAccessUnit: AUD / parameter sets / prefix SEI, then the slice segments of one picture (first segment,
// further independent and dependent segments), then suffix SEI / filler / EOS / EOB.  Returns the NAL units and,
// per NAL unit, the slice header size known from the writer (-1 for non-video NAL units).
func genHevcAccessUnit(c *hevcCfg, r *hx.Rng, big bool) ([][]byte, []int) {
	var nalus [][]byte
	var hs []int
	add := func(n []byte, h int) { nalus = append(nalus, n); hs = append(hs, h) }
	if r.Intn(3) == 0 {
		add([]byte{35 << 1, 1, 0x50}, -1) // AUD
	}
	if r.Intn(5) == 0 { // in-band parameter sets (hev1 style)
		add(c.sps, -1)
		add(c.pps, -1)
	}
	if r.Intn(3) == 0 {
		add(hevcNonVideo(r, 39, r.Pick(2, 3, 8, 40, 200)), -1)
	}
	nt := r.Pick(0, 1, 1, 1, 2, 9, 16, 19, 20, 21)
	nseg := r.Pick(0, 1, 1, 1, 2, 3, 5)
	for i := 0; i < nseg; i++ {
		pay := r.Pick(0, 1, 15, 16, 17, 143, 144, 159, 160, 161, 175, 176, 177, 320, 336, 1000, r.Range(0, 700))
		if big && i == 0 {
			pay = r.Pick(65535, 65536, 70000)
		}
		ff := -1
		if i == 0 {
			ff = 1
			if r.Intn(8) == 0 { // a sample that starts in the middle of a picture
				ff = -1
			}
		}
		s := genHevcSlice(c, r, ff, nt, pay)
		add(s.nalu, s.hdrSize)
		if r.Intn(10) == 0 { // filler data between segments
			add(hevcNonVideo(r, 38, r.Pick(2, 5, 20)), -1)
		}
	}
	// trailing non-video NAL units after the last slice segment
	for k := r.Pick(0, 0, 1, 1, 2, 3); k > 0; k-- {
		add(hevcNonVideo(r, r.Pick(40, 40, 36, 37, 38, 41, 48, 63), r.Pick(2, 2, 3, 7, 16, 100, 300)), -1)
	}
	if len(nalus) == 0 {
		add(hevcNonVideo(r, 35, 3), -1)
	}
	return nalus, hs
}
