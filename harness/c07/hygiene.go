// C07 harness: cross-cutting hygiene oracles (see reports/hygiene-B.md).
//
//  1. ALIASING OF ARGUMENTS. key, iv and kid reach InitProtect / EncryptFragment as private copies (owned) that are overwritten
//     as soon as the call has returned (scribbleBytes): a caller refills its key / IV buffer for the next fragment or track before
//     anything is encoded. Everything runFragment and checkFragment observe afterwards (senc IVs, tenc constant IV and KID of the
//     encoded init, protected bytes) must be what was supplied AT CALL TIME. Not demanded: PsshBox pointers (boxes handed over
//     become children of moov: the documented effect) and the Fragment / InitSegment themselves (documented "modifies").
//  2. WRITES BEYOND len. key/iv copies carry guard bytes behind them and must come back unchanged (they are inputs). The mdat
//     payload of the fragment is placed between guard bytes before EncryptFragment (guardMdat / mdatGuardsIntact): the in-place
//     crypt functions are documented in-place on the sample bytes ONLY. The direct calls CryptSampleCenc / EncryptSampleCbcs /
//     DecryptSampleCbcs are run on an exact copy and on a sub-slice with guard bytes around it (cryptGuarded): same result,
//     guards intact - for maps that fit the sample AND for maps that exceed it (a map that runs over the end of an exact slice
//     panics; on a slice with spare capacity it must not silently crypt the bytes behind the sample instead).
package main

import (
	"bytes"
	"fmt"

	"github.com/Eyevinn/mp4ff/mp4"

	"verifharness/hx"
)

const hygGuard = 32
const hygByte = 0x5a

// owned: private copy of b with hygGuard guard bytes behind it (nil stays nil).
func owned(b []byte) []byte {
	if b == nil {
		return nil
	}
	buf := make([]byte, len(b)+hygGuard)
	copy(buf, b)
	for i := len(b); i < len(buf); i++ {
		buf[i] = hygByte
	}
	return buf[:len(b)]
}

// ownedShared: like owned, but always in the SAME buffer per slot (a caller's key / IV buffer that is refilled in place for
// every call): a library that remembers the slice of an earlier call (a cache keyed on it) sees the new contents under the old
// identity.
var sharedSlots [4][]byte

func ownedShared(slot int, b []byte) []byte {
	if b == nil {
		return nil
	}
	if sharedSlots[slot] == nil {
		sharedSlots[slot] = make([]byte, 64+hygGuard)
	}
	if len(b) > 64 {
		return owned(b)
	}
	buf := sharedSlots[slot][:len(b)+hygGuard]
	copy(buf, b)
	for i := len(b); i < len(buf); i++ {
		buf[i] = hygByte
	}
	return buf[:len(b):len(buf)]
}

// ownedIntact: the copy still equals orig and the guard behind it is untouched.
func ownedIntact(own, orig []byte) bool {
	if !bytes.Equal(own, orig) {
		return false
	}
	for _, g := range own[len(own):cap(own)] {
		if g != hygByte {
			return false
		}
	}
	return true
}

func scribbleBytes(own []byte) {
	full := own[:cap(own)]
	for i := range full {
		full[i] = 0xc3 ^ byte(i*7)
	}
}

// hygNotes: hygiene failures seen inside runFragment / the direct calls; search turns them into FAIL lines (flushHyg).
type hygNote struct{ site, class, desc string }

var hygNotes []hygNote

func hygFail(site, class, desc string) { hygNotes = append(hygNotes, hygNote{site, class, desc}) }

func flushHyg(wit string) {
	for _, n := range hygNotes {
		fail(n.site, n.class, wit, n.desc)
	}
	hygNotes = nil
}

// guardMdat: the fragment's payload becomes a sub-slice with guard bytes in front of and behind it.
func guardMdat(frag *mp4.Fragment) (whole []byte, n int) {
	data := frag.Mdat.Data
	n = len(data)
	whole = make([]byte, hygGuard+n+hygGuard)
	for i := range whole {
		whole[i] = hygByte
	}
	copy(whole[hygGuard:], data)
	frag.Mdat.SetData(whole[hygGuard : hygGuard+n])
	return whole, n
}

func guardsAround(whole []byte, n int) bool {
	for _, g := range whole[:hygGuard] {
		if g != hygByte {
			return false
		}
	}
	for _, g := range whole[hygGuard+n:] {
		if g != hygByte {
			return false
		}
	}
	return true
}

// cryptGuarded: call(buf) on an exact copy of sample and on a guarded sub-slice; returns the observable of the exact run.
// name is the API function (site of a hygiene failure).
func cryptGuarded(name string, sample, key, iv []byte, call func(buf, key, iv []byte) error) string {
	obs := func(buf []byte, k, v []byte) string {
		var err error
		if p := hx.Try(func() { err = call(buf, k, v) }); p != "" {
			return "panic"
		}
		if err != nil {
			return "err"
		}
		return "ok:" + hx.Hex(buf)
	}
	exact := obs(hx.Exact(sample), key, iv)
	whole := make([]byte, hygGuard+len(sample)+hygGuard)
	for i := range whole {
		whole[i] = hygByte
	}
	copy(whole[hygGuard:], sample)
	k2, v2 := owned(key), owned(iv)
	guarded := obs(whole[hygGuard:hygGuard+len(sample)], k2, v2)
	if !guardsAround(whole, len(sample)) {
		hygFail(name, "writes-beyond-sample", fmt.Sprintf("%s on a %d-byte sample that is a sub-slice of a larger buffer changed bytes outside the sample (result on an exact slice: %s)", name, len(sample), exact[:min(len(exact), 5)]))
	} else if guarded != exact {
		hygFail(name, "depends-on-capacity", fmt.Sprintf("%s answers %s on an exact slice and %s on a sub-slice with spare capacity", name, exact[:min(len(exact), 5)], guarded[:min(len(guarded), 5)]))
	}
	if !ownedIntact(k2, key) || !ownedIntact(v2, iv) {
		hygFail(name, "writes-into-key-or-iv", name+" changed its key or iv argument (or the bytes behind it)")
	}
	return exact
}

func min(a, b int) int {
	if a < b {
		return a
	}
	return b
}

func pad16(iv []byte) []byte {
	out := make([]byte, 16)
	copy(out, iv)
	return out
}

// checkTenc: the tenc of the DECODED protected init carries the KID and (cbcs) the constant IV supplied to InitProtect.
func checkTenc(dec *mp4.File, scheme string, ivIn []byte, wit string) {
	if dec.Init == nil || dec.Init.Moov == nil || dec.Init.Moov.Trak == nil {
		return
	}
	var sinf *mp4.SinfBox
	for _, c := range dec.Init.Moov.Trak.Mdia.Minf.Stbl.Stsd.Children {
		switch b := c.(type) {
		case *mp4.VisualSampleEntryBox:
			sinf = b.Sinf
		case *mp4.AudioSampleEntryBox:
			sinf = b.Sinf
		}
	}
	if sinf == nil || sinf.Schi == nil || sinf.Schi.Tenc == nil || sinf.Schm == nil {
		fail("mp4.InitProtect", "tenc-missing", wit, "no sinf/schm/schi/tenc in the encoded protected init")
		return
	}
	tenc := sinf.Schi.Tenc
	if sinf.Schm.SchemeType != scheme {
		fail("mp4.InitProtect", "schm-scheme", wit, "schm scheme type "+sinf.Schm.SchemeType)
	}
	if hx.Hex(tenc.DefaultKID) != kidHex {
		fail("mp4.InitProtect", "tenc-kid", wit, "tenc default KID "+hx.Hex(tenc.DefaultKID)+", supplied "+kidHex)
	}
	if tenc.DefaultIsProtected != 1 {
		fail("mp4.InitProtect", "tenc-not-protected", wit, "tenc default_isProtected is not 1")
	}
	if scheme == "cenc" {
		if tenc.DefaultPerSampleIVSize != 16 || len(tenc.DefaultConstantIV) != 0 {
			fail("mp4.InitProtect", "tenc-iv-size", wit, fmt.Sprintf("cenc tenc: per-sample IV size %d, constant IV %s", tenc.DefaultPerSampleIVSize, hx.Hex(tenc.DefaultConstantIV)))
		}
	} else if tenc.DefaultPerSampleIVSize != 0 || !bytes.Equal(tenc.DefaultConstantIV, pad16(ivIn)) {
		fail("mp4.InitProtect", "tenc-constant-iv", wit, fmt.Sprintf("cbcs tenc: per-sample IV size %d, constant IV %s, supplied %s", tenc.DefaultPerSampleIVSize, hx.Hex(tenc.DefaultConstantIV), hx.Hex(pad16(ivIn))))
	}
}

// searchDirect: the in-place crypt functions called directly on guarded sub-slices (class 2), with maps that fit the sample
// (result = reference cipher on the protected ranges) and maps that run over its end.
func searchDirect(r *hx.Rng, n int) {
	for i := 0; i < n; i++ {
		sz := r.Pick(0, 1, 15, 16, 17, 33, 100, 160, 176, r.Range(0, 700))
		sample := r.Bytes(sz, nil)
		tot := sz
		if i%5 == 0 {
			tot = sz + r.Range(1, 48) // the map may run over the end of the sample (at most hygGuard*1.5 bytes)
		}
		ssps := parseRanges(r, tot)
		iv := genIV(r, 16)
		key := r.Bytes(16, nil)
		evals++
		wit := fmt.Sprintf("direct key=%s iv=%s map=%s sample=%s", hx.Hex(key), hx.Hex(iv), rangesString(ssps), hx.Hex(sample))
		fits := 0
		for _, s := range ssps {
			fits += int(s.BytesOfClearData) + int(s.BytesOfProtectedData)
		}
		got := cryptCenc(sample, key, iv, ssps)
		if fits <= sz {
			c := newRefCTR(key, iv)
			ref := append([]byte{}, sample...)
			m := maskOf(ssps, sz)
			for j := range ref {
				if len(ssps) == 0 || (j < len(m) && m[j]) {
					ref[j] ^= c.next()
				}
			}
			if got != "ok:"+hx.Hex(ref) {
				fail("mp4.CryptSampleCenc", "differs-from-reference-direct", wit, "CryptSampleCenc on a map that fits the sample differs from AES-CTR over the protected ranges")
			}
		}
		cb, sb := 1, 9
		if i%3 == 0 {
			cb, sb = 0, 0
		}
		enc := cryptCbcs(false, sample, key, iv, ssps, cb, sb)
		if fits <= sz && len(enc) >= 3 && enc[:3] == "ok:" {
			if back := cryptCbcs(true, hx.UnHex(enc[3:]), key, iv, ssps, cb, sb); back != "ok:"+hx.Hex(sample) {
				fail("mp4.DecryptSampleCbcs", "cbcs-direct-roundtrip", wit, "DecryptSampleCbcs does not undo EncryptSampleCbcs")
			}
		}
		flushHyg(wit)
	}
}
