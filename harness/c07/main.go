// Harness for C07 (encrypted output is well-formed Common Encryption and matches a reference cipher).
//
//	c07 corr   -seed S -n N [-big B] : cases + implementation observables for the model diff
//	c07 search -seed S -n N [-big B] : evaluates the property itself on real EncryptFragment output
package main

import (
	"bufio"
	"bytes"
	"crypto/aes"
	"encoding/binary"
	"flag"
	"fmt"
	"os"
	"path/filepath"
	"strconv"
	"strings"

	"github.com/Eyevinn/mp4ff/avc"
	"github.com/Eyevinn/mp4ff/bits"
	"github.com/Eyevinn/mp4ff/hevc"
	"github.com/Eyevinn/mp4ff/mp4"
	"verifharness/hx"
)

var out = bufio.NewWriterSize(os.Stdout, 1<<20)

// ---------------------------------------------------------------- environment (repo test assets)

type env struct {
	avcInit, hevcInit, aacInit []byte
	avcSps                     map[uint32]*avc.SPS
	avcPps                     map[uint32]*avc.PPS
	hevcSps                    map[uint32]*hevc.SPS
	hevcPps                    map[uint32]*hevc.PPS
	avcSlices, hevcSlices      [][]byte // real video NALUs with parseable slice headers
	avcSliceHdr, hevcSliceHdr  []int    // their slice header sizes
	avcSpsRaw, avcPpsRaw       [][]byte // avcC parameter sets
	hevcSpsRaw, hevcPpsRaw     [][]byte // hvcC parameter sets of the test asset
	gen                        []*hevcEnv
}

// hevcEnv: one synthetic HEVC configuration (hevcgen.go), its parameter sets as mp4ff parses them and an init
// segment whose hvcC carries them.
type hevcEnv struct {
	cfg  *hevcCfg
	sps  map[uint32]*hevc.SPS
	pps  map[uint32]*hevc.PPS
	init []byte
}

func (e *env) loadHevcGen(seed uint64, n int) {
	r := hx.NewRng(seed ^ 0x4e7c07)
	for k := 0; len(e.gen) < n && k < 20*n; k++ {
		c := genHevcCfg(r, k)
		g := &hevcEnv{cfg: c, sps: map[uint32]*hevc.SPS{}, pps: map[uint32]*hevc.PPS{}}
		s, err := hevc.ParseSPSNALUnit(c.sps)
		if err != nil || int(s.PicWidthInLumaSamples) != c.w || int(s.PicHeightInLumaSamples) != c.h || int(s.SpsID) != c.spsID {
			must(fmt.Errorf("synthetic HEVC SPS %s is not parsed as written: %v", hx.Hex(c.sps), err))
		}
		g.sps[uint32(s.SpsID)] = s
		p, err := hevc.ParsePPSNALUnit(c.pps, g.sps)
		if err != nil || int(p.PicParameterSetID) != c.ppsID || p.DependentSliceSegmentsEnabledFlag != c.depSlices ||
			p.SliceSegmentHeaderExtensionPresentFlag != c.sliceExt {
			must(fmt.Errorf("synthetic HEVC PPS %s is not parsed as written: %v", hx.Hex(c.pps), err))
		}
		g.pps[p.PicParameterSetID] = p
		f, err := mp4.DecodeFile(bytes.NewReader(e.hevcInit))
		must(err)
		hvcC := f.Init.Moov.Trak.Mdia.Minf.Stbl.Stsd.HvcX.HvcC
		var arrs []hevc.NaluArray
		for _, na := range hvcC.NaluArrays {
			if na.NaluType() == hevc.NALU_VPS {
				arrs = append(arrs, na)
			}
		}
		arrs = append(arrs, hevc.NewNaluArray(true, hevc.NALU_SPS, [][]byte{c.sps}), hevc.NewNaluArray(true, hevc.NALU_PPS, [][]byte{c.pps}))
		hvcC.NaluArrays = arrs
		var ib bytes.Buffer
		must(f.Init.Encode(&ib))
		g.init = ib.Bytes()
		e.gen = append(e.gen, g)
	}
}

func must(err error) {
	if err != nil {
		fmt.Fprintln(os.Stderr, "harness setup:", err)
		os.Exit(3)
	}
}

func readFile(repo, rel string) []byte {
	b, err := os.ReadFile(filepath.Join(repo, rel))
	must(err)
	return b
}

func splitNalus(sample []byte) [][]byte {
	var res [][]byte
	pos := 0
	for pos+4 <= len(sample) {
		l := int(binary.BigEndian.Uint32(sample[pos:]))
		pos += 4
		if l < 0 || pos+l > len(sample) {
			break
		}
		res = append(res, sample[pos:pos+l])
		pos += l
	}
	return res
}

func loadEnv(repo string) *env {
	e := &env{}
	e.avcInit = readFile(repo, "mp4/testdata/init.mp4")
	e.hevcInit = readFile(repo, "mp4/testdata/hvc1_init.mp4")
	e.aacInit = readFile(repo, "mp4/testdata/aac_init.mp4")
	// AVC parameter sets
	f, err := mp4.DecodeFile(bytes.NewReader(e.avcInit))
	must(err)
	avcC := f.Init.Moov.Trak.Mdia.Minf.Stbl.Stsd.AvcX.AvcC
	e.avcSpsRaw, e.avcPpsRaw = avcC.SPSnalus, avcC.PPSnalus
	e.avcSps = map[uint32]*avc.SPS{}
	e.avcPps = map[uint32]*avc.PPS{}
	for _, n := range avcC.SPSnalus {
		s, err := avc.ParseSPSNALUnit(n, false)
		must(err)
		e.avcSps[s.ParameterID] = s
	}
	for _, n := range avcC.PPSnalus {
		p, err := avc.ParsePPSNALUnit(n, e.avcSps)
		must(err)
		e.avcPps[p.PicParameterSetID] = p
	}
	seg, err := mp4.DecodeFile(bytes.NewReader(readFile(repo, "mp4/testdata/1.m4s")))
	must(err)
	for _, s := range seg.Segments {
		for _, fr := range s.Fragments {
			fss, err := fr.GetFullSamples(nil)
			must(err)
			for _, fs := range fss {
				for _, n := range splitNalus(fs.Data) {
					if len(n) > 0 && avc.IsVideoNaluType(avc.GetNaluType(n[0])) {
						sh, err := avc.ParseSliceHeader(n, e.avcSps, e.avcPps)
						if err == nil && len(e.avcSlices) < 40 {
							e.avcSlices = append(e.avcSlices, n)
							e.avcSliceHdr = append(e.avcSliceHdr, int(sh.Size))
						}
					}
				}
			}
		}
	}
	// HEVC
	f, err = mp4.DecodeFile(bytes.NewReader(e.hevcInit))
	must(err)
	hvcC := f.Init.Moov.Trak.Mdia.Minf.Stbl.Stsd.HvcX.HvcC
	e.hevcSps = map[uint32]*hevc.SPS{}
	e.hevcPps = map[uint32]*hevc.PPS{}
	for _, na := range hvcC.NaluArrays {
		if na.NaluType() == hevc.NALU_SPS {
			e.hevcSpsRaw = append(e.hevcSpsRaw, na.Nalus...)
		}
		if na.NaluType() == hevc.NALU_PPS {
			e.hevcPpsRaw = append(e.hevcPpsRaw, na.Nalus...)
		}
	}
	for _, na := range hvcC.NaluArrays {
		if na.NaluType() == hevc.NALU_SPS {
			for _, n := range na.Nalus {
				s, err := hevc.ParseSPSNALUnit(n)
				must(err)
				e.hevcSps[uint32(s.SpsID)] = s
			}
		}
	}
	for _, na := range hvcC.NaluArrays {
		if na.NaluType() == hevc.NALU_PPS {
			for _, n := range na.Nalus {
				p, err := hevc.ParsePPSNALUnit(n, e.hevcSps)
				must(err)
				e.hevcPps[p.PicParameterSetID] = p
			}
		}
	}
	seg, err = mp4.DecodeFile(bytes.NewReader(readFile(repo, "mp4/testdata/hvc1_seg_1.m4s")))
	must(err)
	for _, s := range seg.Segments {
		for _, fr := range s.Fragments {
			fss, err := fr.GetFullSamples(nil)
			must(err)
			for _, fs := range fss {
				for _, n := range splitNalus(fs.Data) {
					if len(n) > 1 && hevc.IsVideoNaluType(hevc.GetNaluType(n[0])) {
						sh, err := hevc.ParseSliceHeader(n, e.hevcSps, e.hevcPps)
						if err == nil && len(e.hevcSlices) < 40 {
							e.hevcSlices = append(e.hevcSlices, n)
							e.hevcSliceHdr = append(e.hevcSliceHdr, int(sh.Size))
						}
					}
				}
			}
		}
	}
	if len(e.avcSlices) == 0 || len(e.hevcSlices) == 0 {
		must(fmt.Errorf("no parseable slices in the test assets"))
	}
	return e
}

// ---------------------------------------------------------------- formatting

func rangesString(ssps []mp4.SubSamplePattern) string {
	if len(ssps) == 0 {
		return "-"
	}
	ss := make([]string, len(ssps))
	for i, s := range ssps {
		ss[i] = fmt.Sprintf("%d/%d", s.BytesOfClearData, s.BytesOfProtectedData)
	}
	return strings.Join(ss, ",")
}

func hexList(l [][]byte) string {
	if len(l) == 0 {
		return "-"
	}
	ss := make([]string, len(l))
	for i, b := range l {
		ss[i] = hx.Hex(b)
	}
	return strings.Join(ss, ";")
}

func hexCsv(l [][]byte) string {
	if len(l) == 0 {
		return "-"
	}
	ss := make([]string, len(l))
	for i, b := range l {
		ss[i] = hx.Hex(b)
	}
	return strings.Join(ss, ",")
}

func samplesField(l [][]byte) string {
	ss := make([]string, len(l))
	for i, b := range l {
		ss[i] = hx.Hex(b)
	}
	return strings.Join(ss, ";")
}

func emit(fields ...string) {
	out.WriteString(strings.Join(fields, "\t"))
	out.WriteByte('\n')
}

// ---------------------------------------------------------------- generators

var thresholdSizes = []int{1, 2, 3, 5, 11, 12, 15, 16, 17, 31, 32, 33, 91, 92, 93, 95, 96, 97, 103, 104, 107, 108, 109,
	110, 111, 112, 113, 122, 123, 124, 125, 127, 128, 129, 139, 140, 141, 255, 256, 257, 300, 1000}

func naluSize(r *hx.Rng, big int) int {
	switch r.Intn(10) {
	case 0, 1, 2, 3, 4:
		return thresholdSizes[r.Intn(len(thresholdSizes))]
	case 5, 6:
		return r.Range(1, 400)
	case 7:
		return r.Range(100, 2000)
	case 8:
		if big > 0 {
			return r.Pick(65535-4, 65535, 65536, 65537, 65535+107, 65535+108, 65536+112, 131070, 131071, 131069,
				65535-4-4, 65531, 65532) + r.Pick(0, 0, 0, -1, 1, 96, 100)
		}
		return r.Range(1, 200)
	default:
		return r.Range(1, 64)
	}
}

func avcHeader(r *hx.Rng, video bool) byte {
	ref := byte(r.Intn(4)) << 5
	if video {
		return ref | byte(r.Pick(1, 5, 1, 5, 2, 3, 4, 0))
	}
	return ref | byte(r.Pick(6, 7, 8, 9, 10, 12, 14, 20, 31))
}

func hevcHeader(r *hx.Rng, video bool) byte {
	if video {
		return byte(r.Pick(0, 1, 8, 9, 16, 19, 20, 21, 31)) << 1
	}
	return byte(r.Pick(32, 33, 34, 35, 39, 40, 63)) << 1
}

func frame(nalus [][]byte) []byte {
	var b []byte
	for _, n := range nalus {
		var l [4]byte
		binary.BigEndian.PutUint32(l[:], uint32(len(n)))
		b = append(b, l[:]...)
		b = append(b, n...)
	}
	return b
}

// genVideoSampleCenc: arbitrary payloads, any size mix (slice headers are not parsed for cenc).
func genVideoSampleCenc(r *hx.Rng, codec byte, big int) [][]byte {
	n := r.Pick(1, 1, 2, 3, 4, 6)
	nalus := make([][]byte, 0, n)
	bigUsed := false
	for i := 0; i < n; i++ {
		sz := naluSize(r, big)
		if sz > 60000 {
			if bigUsed {
				sz = r.Range(1, 300)
			}
			bigUsed = true
		}
		video := r.Intn(3) != 0
		b := r.Bytes(sz, nil)
		if codec == 'a' {
			b[0] = avcHeader(r, video)
		} else {
			b[0] = hevcHeader(r, video)
			if sz > 1 {
				b[1] = 1
			}
		}
		nalus = append(nalus, b)
	}
	return nalus
}

// genVideoSampleCbcs: video NALUs are real slices (parseable headers) cut or extended after the header.
func genVideoSampleCbcs(e *env, r *hx.Rng, codec byte, big int) [][]byte {
	n := r.Pick(1, 1, 2, 3, 4)
	nalus := make([][]byte, 0, n)
	bigUsed := false
	for i := 0; i < n; i++ {
		if r.Intn(3) == 0 {
			sz := r.Pick(1, 2, 5, 16, 30, 200)
			b := r.Bytes(sz, nil)
			if codec == 'a' {
				b[0] = avcHeader(r, false)
			} else {
				b[0] = hevcHeader(r, false)
			}
			nalus = append(nalus, b)
			continue
		}
		var src []byte
		var h int
		if codec == 'a' {
			k := r.Intn(len(e.avcSlices))
			src, h = e.avcSlices[k], e.avcSliceHdr[k]
		} else {
			k := r.Intn(len(e.hevcSlices))
			src, h = e.hevcSlices[k], e.hevcSliceHdr[k]
		}
		// payload length after the header: around the 16/160 block pattern boundaries
		pay := r.Pick(0, 1, 15, 16, 17, 31, 32, 143, 144, 159, 160, 161, 175, 176, 177, 319, 320, 336, 337, 1000, r.Range(0, 700))
		if big > 0 && !bigUsed && r.Intn(12) == 0 {
			pay = r.Pick(65535, 65536, 70000)
			bigUsed = true
		}
		if h > len(src) {
			h = len(src)
		}
		b := append([]byte{}, src[:h]...)
		b = append(b, r.Bytes(pay, nil)...)
		nalus = append(nalus, b)
	}
	return nalus
}

func genAudioSample(r *hx.Rng, big int) []byte {
	sz := r.Pick(1, 2, 15, 16, 17, 31, 32, 33, 100, 159, 160, 161, 371, r.Range(1, 600))
	if big > 0 && r.Intn(20) == 0 {
		sz = r.Pick(4096, 65535, 65536)
	}
	return r.Bytes(sz, nil)
}

func genIV(r *hx.Rng, n int) []byte {
	iv := r.Bytes(n, nil)
	switch r.Intn(6) {
	case 0: // carries
		for i := n - 1 - r.Intn(n); i < n; i++ {
			iv[i] = 0xff
		}
	case 1:
		for i := range iv {
			iv[i] = 0xff
		}
		if r.Bool() {
			iv[n-1] = byte(0xff - r.Intn(4))
		}
	case 2:
		for i := range iv {
			iv[i] = 0
		}
	case 3: // low 8 bytes about to carry into the high half
		if n == 16 {
			for i := 8; i < 16; i++ {
				iv[i] = 0xff
			}
			iv[15] = byte(0xff - r.Intn(3))
		}
	}
	return iv
}

// ---------------------------------------------------------------- implementation observables

func (e *env) hdrSize(codec byte, nalu []byte) string {
	if codec == 'a' {
		sh, err := avc.ParseSliceHeader(nalu, e.avcSps, e.avcPps)
		if err != nil {
			return "E"
		}
		return strconv.Itoa(int(sh.Size))
	}
	sh, err := hevc.ParseSliceHeader(nalu, e.hevcSps, e.hevcPps)
	if err != nil {
		return "E"
	}
	return strconv.Itoa(int(sh.Size))
}

func isVideo(codec byte, b byte) bool {
	if codec == 'a' {
		return avc.IsVideoNaluType(avc.GetNaluType(b))
	}
	return hevc.IsVideoNaluType(hevc.GetNaluType(b))
}

// hdrOracle lists, in order, the slice-header size (or E) of every video NALU of a WELL-FORMED sample.
func (e *env) hdrOracle(codec byte, nalus [][]byte) string {
	var hs []string
	for _, n := range nalus {
		if len(n) > 0 && isVideo(codec, n[0]) {
			hs = append(hs, e.hdrSize(codec, n))
		}
	}
	if len(hs) == 0 {
		return "-"
	}
	return strings.Join(hs, ",")
}

func (e *env) protectRanges(codec byte, sample []byte, scheme string) (ssps []mp4.SubSamplePattern, class string) {
	var err error
	p := hx.Try(func() {
		if codec == 'a' {
			ssps, err = mp4.GetAVCProtectRanges(e.avcSps, e.avcPps, sample, scheme)
		} else {
			ssps, err = mp4.GetHEVCProtectRanges(e.hevcSps, e.hevcPps, sample, scheme)
		}
	})
	if p != "" {
		return nil, "panic"
	}
	if err != nil {
		return nil, "err"
	}
	return ssps, "ok"
}

func protectRangesHevc(sps map[uint32]*hevc.SPS, pps map[uint32]*hevc.PPS, sample []byte, scheme string) (ssps []mp4.SubSamplePattern, class string) {
	var err error
	if p := hx.Try(func() { ssps, err = mp4.GetHEVCProtectRanges(sps, pps, sample, scheme) }); p != "" {
		return nil, "panic"
	}
	if err != nil {
		return nil, "err"
	}
	return ssps, "ok"
}

// unusual: NAL unit placements at the edge of what a sample may hold (kept deterministic through r): mutated or
// truncated slice headers, video NAL units of 1..3 bytes, zero-length NAL units, samples without any video NAL
// unit, extra non-video NAL units after the last slice.  hs[k] = slice header size of nalus[k] when known (else <= 0).
func unusual(r *hx.Rng, codec byte, nalus [][]byte, hs []int) ([][]byte, string) {
	vid := func() int { // index of some video NAL unit, -1 if none
		var ix []int
		for k, n := range nalus {
			if len(n) > 0 && isVideo(codec, n[0]) {
				ix = append(ix, k)
			}
		}
		if len(ix) == 0 {
			return -1
		}
		return ix[r.Intn(len(ix))]
	}
	nonVideo := func(sz int) []byte {
		b := r.Bytes(sz, nil)
		if codec == 'a' {
			b[0] = byte(r.Pick(6, 9, 10, 11, 12, 7, 8)) | byte(r.Intn(4))<<5
		} else {
			b[0] = byte(r.Pick(35, 36, 37, 38, 39, 40, 32, 33, 34)) << 1
		}
		return b
	}
	insert := func(k int, n []byte) {
		nalus = append(nalus[:k], append([][]byte{n}, nalus[k:]...)...)
	}
	switch r.Intn(14) {
	case 0: // mutate the first bytes of one NAL unit
		k := r.Intn(len(nalus))
		b := append([]byte{}, nalus[k]...)
		for j := 1; j < len(b) && j < 9; j++ {
			if r.Intn(3) == 0 {
				b[j] = byte(r.U64())
			}
		}
		nalus[k] = b
		return nalus, "mutated"
	case 1: // a slice NAL unit shorter than its header
		if k := vid(); k >= 0 && len(nalus[k]) > 1 {
			lim := len(nalus[k]) - 1
			if k < len(hs) && hs[k] > 1 && hs[k]-1 < lim {
				lim = hs[k] - 1
			}
			nalus[k] = nalus[k][:r.Range(1, lim)]
			return nalus, "short-header"
		}
	case 2: // video NAL units of exactly 1, 2, 3 bytes
		b := r.Bytes(r.Pick(1, 2, 3), nil)
		if codec == 'a' {
			b[0] = avcHeader(r, true)
		} else {
			b[0] = hevcHeader(r, true)
		}
		insert(r.Intn(len(nalus)+1), b)
		return nalus, "tiny-video"
	case 3: // zero-length NAL unit at the end
		nalus = append(nalus, []byte{})
		return nalus, "empty-last"
	case 4: // zero-length NAL unit in front of another one
		insert(r.Intn(len(nalus)), []byte{})
		return nalus, "empty-inside"
	case 5: // no video NAL unit at all
		var nv [][]byte
		for _, n := range nalus {
			if len(n) > 0 && !isVideo(codec, n[0]) {
				nv = append(nv, n)
			}
		}
		if len(nv) == 0 {
			nv = append(nv, nonVideo(r.Pick(1, 2, 3, 20)))
		}
		return nv, "no-video"
	case 6, 7: // non-video NAL units after the last slice
		for k := r.Pick(1, 1, 2, 3); k > 0; k-- {
			nalus = append(nalus, nonVideo(r.Pick(1, 2, 3, 5, 16, 17, 200)))
		}
		return nalus, "trailing-non-video"
	case 8: // non-video NAL units of 1..3 bytes anywhere
		insert(r.Intn(len(nalus)+1), nonVideo(r.Pick(1, 2, 3)))
		return nalus, "tiny-non-video"
	case 9: // the 4-byte sample: a single empty NAL unit (before /repo 401deba it got no sub-sample entry at all)
		return [][]byte{{}}, "only-empty"
	case 10: // several empty NAL units at the end
		nalus = append(nalus, []byte{}, []byte{})
		return nalus, "empty-last-2"
	case 11: // a slice that names a PPS id nobody has sent (first_mb 0 / first segment, pps id 4 resp. 5)
		if k := vid(); k >= 0 && len(nalus[k]) > 3 {
			b := append([]byte{}, nalus[k]...)
			if codec == 'a' {
				b[1] = 0xCA // ue(0) ue(0) ue(4)
			} else if t := (b[0] >> 1) & 0x3f; t >= 16 && t <= 23 {
				b[2] = 0x8C // first_slice_segment 1, no_output_of_prior_pics 0, ue(5)
			} else {
				b[2] = 0x98 // first_slice_segment 1, ue(5)
			}
			nalus[k] = b
			return nalus, "unknown-pps"
		}
	case 12: // a slice cut somewhere inside (or right behind) its header, in front of further NAL units
		if k := vid(); k >= 0 && len(nalus[k]) > 2 {
			lim := len(nalus[k]) - 1
			if lim > 48 {
				lim = 48
			}
			nalus[k] = nalus[k][:r.Range(1, lim)]
			insert(k+1, nonVideo(r.Pick(2, 5, 20)))
			return nalus, "truncated-slice"
		}
	}
	return nalus, "plain"
}

// benign: placements that keep the sample a valid NAL unit layout (used by the search, where every fragment must
// encrypt): non-video NAL units after the last slice, tiny non-video NAL units, no video NAL unit at all.
func benign(r *hx.Rng, codec byte, nalus [][]byte) [][]byte {
	nonVideo := func(sz int) []byte {
		b := r.Bytes(sz, nil)
		if codec == 'a' {
			b[0] = byte(r.Pick(6, 9, 10, 11, 12, 7, 8))
		} else {
			b[0] = byte(r.Pick(35, 36, 37, 38, 39, 40, 32)) << 1
		}
		return b
	}
	switch r.Intn(4) {
	case 0, 1:
		for k := r.Pick(1, 1, 2, 3); k > 0; k-- {
			nalus = append(nalus, nonVideo(r.Pick(1, 2, 3, 5, 16, 17, 200)))
		}
	case 2:
		k := r.Intn(len(nalus) + 1)
		nalus = append(nalus[:k], append([][]byte{nonVideo(r.Pick(1, 2, 3))}, nalus[k:]...)...)
	default:
		var nv [][]byte
		for _, n := range nalus {
			if !isVideo(codec, n[0]) {
				nv = append(nv, n)
			}
		}
		if len(nv) == 0 {
			nv = append(nv, nonVideo(r.Pick(1, 2, 3, 20)))
		}
		nalus = nv
	}
	return nalus
}

func obsRanges(ssps []mp4.SubSamplePattern, class string) string {
	if class != "ok" {
		return class
	}
	return "ok:" + rangesString(ssps)
}

// cryptCenc / cryptCbcs: the direct in-place calls, on an exact copy (the observable) and on a guarded sub-slice (hygiene.go)
func cryptCenc(sample, key, iv []byte, ssps []mp4.SubSamplePattern) string {
	return cryptGuarded("mp4.CryptSampleCenc", sample, key, iv, func(buf, k, v []byte) error {
		return mp4.CryptSampleCenc(buf, k, v, ssps)
	})
}

func cryptCbcs(dec bool, sample, key, iv []byte, ssps []mp4.SubSamplePattern, cb, sb int) string {
	tenc := &mp4.TencBox{DefaultCryptByteBlock: byte(cb), DefaultSkipByteBlock: byte(sb)}
	if dec {
		return cryptGuarded("mp4.DecryptSampleCbcs", sample, key, iv, func(buf, k, v []byte) error {
			return mp4.DecryptSampleCbcs(buf, k, v, ssps, tenc)
		})
	}
	return cryptGuarded("mp4.EncryptSampleCbcs", sample, key, iv, func(buf, k, v []byte) error {
		return mp4.EncryptSampleCbcs(buf, k, v, ssps, tenc)
	})
}

type fragOpts struct {
	extraMoof  int  // boxes added to moof before EncryptFragment (after traf): free / pssh-less unknown
	extraTraf  int  // boxes added to traf before EncryptFragment
	moofBefore bool // put an extra box BEFORE the traf
	viaExtract bool // the InitProtectData comes from ExtractInitProtectData on the encoded+decoded protected init
	optTrun    bool // Fragment.EncOptimize = OptimizeTrun (tfhd/trun are rewritten at encode time)
	init       []byte // init segment to protect (nil: the test asset of the codec)
	sig        sigOpts // where sample size / duration / flags are signalled (search only; zero value: all per sample in trun)
}

// sigOpts: where a fragment carries sample size / duration / flags: 0 per sample in trun, 1 tfhd default, 2 nowhere in
// the fragment (ONLY the trex default of the init segment); flags modes 1/2 use first-sample-flags for the sync sample.
// on: the init segment carries a non-trivial trex (the wanted default where a mode is 2, a DIFFERENT decoy value where
// the fragment itself signals the field: a reader that prefers the trex over tfhd / trun is then wrong too).
type sigOpts struct {
	on               bool
	size, dur, flags int
}

const (
	sigTfhdDur    = 1001
	sigTrexDur    = 1024
	sigFlags      = 0x01010000
	sigFirstFlags = 0x02000000
	decoySize     = 17
	decoyDur      = 512
	decoyFlags    = 0x00010000
)

// wantDur / wantFlags: the duration / flags sample i of a fragment built by buildFragment has, however signalled.
func wantDur(i int, sg sigOpts) uint32 {
	switch sg.dur {
	case 1:
		return sigTfhdDur
	case 2:
		return sigTrexDur
	}
	return 1000 + uint32(i%3)
}

func wantFlags(i int) uint32 {
	if i == 0 {
		return sigFirstFlags
	}
	return sigFlags
}

// trexFor: the trex defaults (size, duration, flags) of the init segment a fragment with signalling sg is read against.
func trexFor(sg sigOpts, commonSize int) (size, dur, flags uint32) {
	size, dur, flags = decoySize, decoyDur, decoyFlags
	if sg.size == 2 {
		size = uint32(commonSize)
	}
	if sg.dur == 2 {
		dur = sigTrexDur
	}
	if sg.flags == 2 {
		flags = sigFlags
	}
	return
}

// initWithTrex: the init segment base with the given trex defaults, re-encoded. Built BEFORE InitProtect: InitProtect,
// ExtractInitProtectData, EncryptFragment (ipd.Trex) and the decoder of the written file all see the same trex.
func initWithTrex(base []byte, size, dur, flags uint32) []byte {
	f, err := mp4.DecodeFile(bytes.NewReader(base))
	must(err)
	trex := f.Init.Moov.Mvex.Trex
	trex.DefaultSampleSize, trex.DefaultSampleDuration, trex.DefaultSampleFlags = size, dur, flags
	var b bytes.Buffer
	must(f.Init.Encode(&b))
	return b.Bytes()
}

// applySignalling rewrites the tfhd / trun flags of an API-built fragment (all fields per sample in trun) to the
// signalling sg (what an external packager writes against the init's trex). Sizes must be constant for size modes 1/2.
func applySignalling(frag *mp4.Fragment, sg sigOpts) {
	traf := frag.Moof.Traf
	tfhd, trun := traf.Tfhd, traf.Trun
	if len(trun.Samples) == 0 {
		return
	}
	switch sg.size {
	case 1:
		tfhd.Flags |= 0x10
		tfhd.DefaultSampleSize = trun.Samples[0].Size
		trun.Flags &^= mp4.TrunSampleSizePresentFlag
	case 2:
		trun.Flags &^= mp4.TrunSampleSizePresentFlag
	}
	switch sg.dur {
	case 1:
		tfhd.Flags |= 0x08
		tfhd.DefaultSampleDuration = sigTfhdDur
		trun.Flags &^= mp4.TrunSampleDurationPresentFlag
	case 2:
		trun.Flags &^= mp4.TrunSampleDurationPresentFlag
	}
	if sg.flags != 0 {
		trun.Flags &^= mp4.TrunSampleFlagsPresentFlag
		trun.SetFirstSampleFlags(sigFirstFlags)
		if sg.flags == 1 {
			tfhd.Flags |= 0x20
			tfhd.DefaultSampleFlags = sigFlags
		}
	}
}

type fragResult struct {
	class    string
	frag     *mp4.Fragment
	init     *mp4.File
	ipd      *mp4.InitProtectData
	enc      [][]byte // encrypted sample data
	before   string
	trafc    string
	obs      string
	cb, sb   int
	opts     fragOpts
	trackID  uint32
	timescal uint32
}

func (e *env) initFor(codec byte) []byte {
	switch codec {
	case 'a':
		return e.avcInit
	case 'h':
		return e.hevcInit
	}
	return e.aacInit
}

var kidHex = "11112222333344445555666677778888"

// buildFragment creates a clear single-traf single-trun fragment holding the given samples.
func buildFragment(trackID uint32, samples [][]byte, o fragOpts, r *hx.Rng) *mp4.Fragment {
	frag, err := mp4.CreateFragment(7, trackID)
	must(err)
	if o.optTrun {
		frag.EncOptimize = mp4.OptimizeTrun
	}
	dt := uint64(90000)
	for i, s := range samples {
		frag.AddFullSample(mp4.FullSample{
			Sample:     mp4.Sample{Flags: wantFlags(i), Dur: wantDur(i, o.sig), Size: uint32(len(s)), CompositionTimeOffset: int32((i % 4) * 500)},
			DecodeTime: dt,
			Data:       append([]byte{}, s...),
		})
		dt += uint64(wantDur(i, o.sig))
	}
	applySignalling(frag, o.sig)
	traf := frag.Moof.Traf
	for i := 0; i < o.extraTraf; i++ {
		switch (i + int(trackID)) % 3 {
		case 0:
			_ = traf.AddChild(mp4.NewTfxdBox(12345678, 2000))
		case 1:
			_ = traf.AddChild(mp4.CreateUnknownBox("abcd", 8+5, []byte{1, 2, 3, 4, 5}))
		default:
			_ = traf.AddChild(mp4.NewFreeBox([]byte{9, 9, 9}))
		}
	}
	for i := 0; i < o.extraMoof; i++ {
		var b mp4.Box
		if i%2 == 0 {
			b = mp4.NewFreeBox([]byte{7, 7, 7, 7, 7, 7})
		} else {
			b = mp4.CreateUnknownBox("wxyz", 8+3, []byte{1, 2, 3})
		}
		if o.moofBefore && i == 0 {
			// insert before the traf
			ch := frag.Moof.Children
			nc := make([]mp4.Box, 0, len(ch)+1)
			for _, c := range ch {
				if c.Type() == "traf" {
					nc = append(nc, b)
				}
				nc = append(nc, c)
			}
			frag.Moof.Children = nc
		} else {
			_ = frag.Moof.AddChild(b)
		}
	}
	return frag
}

// runFragment: InitProtect + EncryptFragment on a freshly built fragment; collects the observables.
func (e *env) runFragment(codec byte, scheme string, key, iv []byte, samples [][]byte, o fragOpts, r *hx.Rng) fragResult {
	res := fragResult{}
	initBytes := o.init
	if initBytes == nil {
		initBytes = e.initFor(codec)
	}
	initF, err := mp4.DecodeFile(bytes.NewReader(initBytes))
	must(err)
	res.init = initF
	kid, _ := mp4.NewUUIDFromString(kidHex)
	// hygiene.go classes 1 and 2: private copies of key / iv / kid, checked and overwritten right after the call
	keyA, ivA, kidA := owned(key), owned(iv), owned(kid)
	ipd, err := mp4.InitProtect(initF.Init, keyA, ivA, scheme, mp4.UUID(kidA), nil)
	if !ownedIntact(keyA, key) || !ownedIntact(ivA, iv) || !ownedIntact(kidA, kid) {
		hygFail("mp4.InitProtect", "writes-into-argument", "InitProtect changed its key, iv or kid argument (or the bytes behind it)")
	}
	scribbleBytes(keyA)
	scribbleBytes(ivA)
	scribbleBytes(kidA)
	if err != nil {
		res.class = "err"
		res.obs = "err"
		return res
	}
	if o.viaExtract {
		// the way mp4ff-encrypt handles a media segment with a separate protected init (-init)
		var ib bytes.Buffer
		must(initF.Init.Encode(&ib))
		initF2, err := mp4.DecodeFile(bytes.NewReader(ib.Bytes()))
		must(err)
		var ipd2 *mp4.InitProtectData
		if p := hx.Try(func() { ipd2, err = mp4.ExtractInitProtectData(initF2.Init) }); p != "" || err != nil {
			res.class, res.obs = "extract-"+classOfS(p, err), "err"
			return res
		}
		ipd = ipd2
		initF = initF2
		res.init = initF2
	}
	res.ipd = ipd
	res.cb, res.sb = int(ipd.Tenc.DefaultCryptByteBlock), int(ipd.Tenc.DefaultSkipByteBlock)
	res.trackID = initF.Init.Moov.Trak.Tkhd.TrackID
	frag := buildFragment(res.trackID, samples, o, r)
	res.frag = frag
	res.opts = o
	mdatWhole, mdatLen := guardMdat(frag)
	keyB, ivB := ownedShared(0, key), ownedShared(1, iv)
	p := hx.Try(func() { err = mp4.EncryptFragment(frag, keyB, ivB, ipd) })
	if !ownedIntact(keyB, key) || !ownedIntact(ivB, iv) {
		hygFail("mp4.EncryptFragment", "writes-into-argument", "EncryptFragment changed its key or iv argument (or the bytes behind it)")
	}
	if !guardsAround(mdatWhole, mdatLen) {
		hygFail("mp4.EncryptFragment", "writes-beyond-sample", "EncryptFragment changed bytes in front of or behind the media data (the mdat payload was a sub-slice of a larger buffer)")
	}
	scribbleBytes(keyB)
	scribbleBytes(ivB)
	if p != "" {
		res.class, res.obs = "panic", "panic"
		return res
	}
	if err != nil {
		res.class, res.obs = "err", "err"
		return res
	}
	res.class = "ok"
	traf := frag.Moof.Traf
	senc, saiz, saio := traf.Senc, traf.Saiz, traf.Saio
	// encrypted data
	fss, err := frag.GetFullSamples(ipd.Trex)
	must(err)
	for _, fs := range fss {
		res.enc = append(res.enc, fs.Data)
	}
	ivs := make([][]byte, len(senc.IVs))
	for i := range senc.IVs {
		ivs[i] = senc.IVs[i]
	}
	sss := "-"
	if len(senc.SubSamples) > 0 {
		parts := make([]string, len(senc.SubSamples))
		for i, s := range senc.SubSamples {
			parts[i] = rangesString(s)
		}
		sss = strings.Join(parts, ";")
	}
	subs := 0
	if senc.Flags&mp4.UseSubSampleEncryption != 0 {
		subs = 1
	}
	sencState := fmt.Sprintf("%d/%d/%d", senc.SampleCount, senc.GetPerSampleIVSize(), subs)
	saizS := fmt.Sprintf("ok:%s/%d/%d", hx.Hex(saiz.SampleInfo), saiz.DefaultSampleInfoSize, saiz.SampleCount)
	// senc entries as encoded
	sencS := ""
	pp := hx.Try(func() {
		sw := bits.NewFixedSliceWriter(int(senc.Size()))
		if err := senc.EncodeSW(sw); err != nil {
			sencS = "err"
			return
		}
		b := sw.Bytes()
		sencS = fmt.Sprintf("ok:%d/%s", senc.Size(), hx.Hex(b[16:]))
	})
	if pp != "" {
		sencS = "panic"
	}
	var before []int
	var trafc []string
	seenTraf := false
	for _, c := range frag.Moof.Children {
		if c.Type() == "traf" {
			seenTraf = true
			for _, tc := range c.(*mp4.TrafBox).Children {
				sz := uint64(0)
				if tc.Type() == "senc" {
					if hx.Try(func() { sz = tc.Size() }) != "" {
						sz = 0
					}
					trafc = append(trafc, fmt.Sprintf("s:%d", sz))
				} else {
					trafc = append(trafc, fmt.Sprintf("o:%d", tc.Size()))
				}
			}
			continue
		}
		if !seenTraf {
			before = append(before, int(c.Size()))
		}
	}
	res.before = hx.Csv(before)
	res.trafc = strings.Join(trafc, ",")
	res.obs = strings.Join([]string{"ok", sencState, hexList(ivs), sss, saizS, sencS,
		strconv.FormatInt(saio.Offset[0], 10), hexList(res.enc)}, "|")
	return res
}

// ---------------------------------------------------------------- corr

func parseRanges(r *hx.Rng, total int) []mp4.SubSamplePattern {
	// random patterns covering at most total bytes (used for CryptSampleCenc / cbcs on arbitrary maps)
	var ssps []mp4.SubSamplePattern
	left := total
	n := r.Intn(5)
	for i := 0; i < n && left > 0; i++ {
		c := r.Intn(left + 1)
		if c > 65535 {
			c = 65535
		}
		if r.Intn(3) == 0 {
			c = 0
		}
		left -= c
		p := 0
		if left > 0 {
			p = r.Pick(0, 1, 15, 16, 17, 32, 160, 176, r.Intn(left+1))
			if p > left {
				p = left
			}
		}
		left -= p
		ssps = append(ssps, mp4.SubSamplePattern{BytesOfClearData: uint16(c), BytesOfProtectedData: uint32(p)})
	}
	return ssps
}

func corr(e *env, seed uint64, n int, big int) {
	r := hx.NewRng(seed ^ 0xc07)
	id := 0
	next := func() string { id++; return strconv.Itoa(id) }
	key := func() []byte { return r.Bytes(16, nil) }

	// --- A: AppendProtectRange at the split boundaries (exhaustive small list + random)
	for _, c := range []uint32{0, 1, 65534, 65535, 65536, 65537, 131069, 131070, 131071, 131072, 196605, 196606, 1 << 20, 0xffffffff >> 8} {
		for _, p := range []uint32{0, 16, 0xfffffff0} {
			pre := parseRanges(r, 300)
			ss := mp4.AppendProtectRange(append([]mp4.SubSamplePattern{}, pre...), c, p)
			emit("A", next(), rangesString(pre), hx.HexU(uint64(c)), hx.HexU(uint64(p)), "ok:"+rangesString(ss))
		}
	}
	// --- I / J: incrementIV
	for i := 0; i < n; i++ {
		ivLen := r.Pick(8, 16, 16, 8, 1, 4, 0)
		iv := genIV(r, max(ivLen, 1))[:ivLen]
		steps := r.Pick(0, 1, 2, 255, 256, 257, 65535, 65536, 1<<24, 1<<31, r.Intn(1<<20), int(r.U64()>>2))
		b := append([]byte{}, iv...)
		mp4.VerifC07IncrementIVInPlace(b, steps)
		emit("I", next(), hx.Hex(iv), hx.HexU(uint64(steps)), hx.Hex(b))
		ssps := parseRanges(r, 5000)
		slen := r.Pick(0, 1, 15, 16, 17, 4096, r.Intn(100000))
		o := mp4.VerifC07IncrementIV(iv, ssps, slen)
		emit("J", next(), hx.Hex(iv), rangesString(ssps), strconv.Itoa(slen), hx.Hex(o))
	}
	// --- R: protect ranges, well-formed samples, both codecs and schemes
	for i := 0; i < n; i++ {
		codec := byte(r.Pick('a', 'a', 'h'))
		scheme := r.Pick(0, 0, 1)
		b := 0
		if i%16 == 0 {
			b = 1
		}
		var nalus [][]byte
		sch := "cenc"
		if scheme == 1 {
			sch = "cbcs"
			nalus = genVideoSampleCbcs(e, r, codec, b)
		} else {
			nalus = genVideoSampleCenc(r, codec, b)
			if r.Intn(40) == 0 {
				sch = "xxxx"
			}
		}
		sample := frame(nalus)
		hdrs := "-"
		if sch == "cbcs" {
			hdrs = e.hdrOracle(codec, nalus)
		}
		ssps, class := e.protectRanges(codec, sample, sch)
		emit("R", next(), string(codec), sch, hx.Hex(sample), hdrs, obsRanges(ssps, class))
	}
	// --- Q: AVC ranges where the model computes the slice-header size itself (C15 Gallina parsers on the avcC
	//        parameter sets): real slices cut/extended after the header, multi-slice samples, mutated headers,
	//        video NALU types that are not slices (0, 3, 4)
	for i := 0; i < n/2; i++ {
		nalus := genVideoSampleCbcs(e, r, 'a', 0)
		for k := r.Intn(3); k > 0; k-- { // more slices in the sample
			nalus = append(nalus, genVideoSampleCbcs(e, r, 'a', 0)...)
		}
		switch r.Intn(8) {
		case 0: // mutate the first bytes of one NALU
			k := r.Intn(len(nalus))
			b := append([]byte{}, nalus[k]...)
			for j := 1; j < len(b) && j < 7; j++ {
				if r.Intn(3) == 0 {
					b[j] = byte(r.U64())
				}
			}
			nalus[k] = b
		case 1: // a "video" NALU type without slice header syntax
			k := r.Intn(len(nalus))
			b := append([]byte{}, nalus[k]...)
			b[0] = (b[0] &^ 0x1f) | byte(r.Pick(0, 3, 4, 2, 1, 5))
			nalus[k] = b
		case 2: // header cut short
			k := r.Intn(len(nalus))
			if len(nalus[k]) > 2 {
				nalus[k] = nalus[k][:r.Range(1, 3)]
			}
		}
		if i%2 == 1 {
			nalus, _ = unusual(r, 'a', nalus, nil)
		}
		sch := "cbcs"
		if r.Intn(10) == 0 {
			sch = "cenc"
		}
		sample := frame(nalus)
		ssps, class := e.protectRanges('a', sample, sch)
		emit("Q", next(), hexCsv(e.avcSpsRaw), hexCsv(e.avcPpsRaw), sch, hx.Hex(sample), obsRanges(ssps, class))
	}
	// --- H: HEVC ranges where the model computes the slice-header size itself (C15 Gallina HEVC parsers on the
	//        hvcC parameter sets): synthetic access units (hevcgen.go: dependent / non-first slice segments,
	//        dimensions off the CTB grid, ...), real slices of the test asset, and the unusual placements
	for i := 0; i < n/2; i++ {
		var nalus [][]byte
		var hs []int
		var spsRaw, ppsRaw [][]byte
		var spsM map[uint32]*hevc.SPS
		var ppsM map[uint32]*hevc.PPS
		if i%6 == 5 {
			nalus = genVideoSampleCbcs(e, r, 'h', 0)
			spsRaw, ppsRaw, spsM, ppsM = e.hevcSpsRaw, e.hevcPpsRaw, e.hevcSps, e.hevcPps
		} else {
			g := e.gen[r.Intn(len(e.gen))]
			nalus, hs = genHevcAccessUnit(g.cfg, r, false)
			spsRaw, ppsRaw, spsM, ppsM = [][]byte{g.cfg.sps}, [][]byte{g.cfg.pps}, g.sps, g.pps
		}
		nalus, _ = unusual(r, 'h', nalus, hs)
		sch := "cbcs"
		if r.Intn(10) == 0 {
			sch = "cenc"
		}
		sample := frame(nalus)
		ssps, class := protectRangesHevc(spsM, ppsM, sample, sch)
		emit("H", next(), hexCsv(spsRaw), hexCsv(ppsRaw), sch, hx.Hex(sample), obsRanges(ssps, class))
	}
	// --- R: malformed samples (cenc)
	for i := 0; i < n/2; i++ {
		codec := byte(r.Pick('a', 'h'))
		nalus := genVideoSampleCenc(r, codec, 0)
		sample := frame(nalus)
		switch r.Intn(6) {
		case 0: // truncate
			sample = sample[:r.Intn(len(sample)+1)]
		case 1: // trailing bytes
			sample = append(sample, r.Bytes(r.Range(1, 6), []byte{0, 0, 0, 1, 5})...)
		case 2: // corrupt a length field
			binary.BigEndian.PutUint32(sample[0:4], uint32(r.Pick(0, 1, len(sample)-4, len(sample)-3, len(sample), 1<<20, 0x7fffffff, len(sample)-5)))
		case 3: // empty NALUs
			k := r.Range(1, 3)
			var z []byte
			for j := 0; j < k; j++ {
				z = append(z, 0, 0, 0, 0)
			}
			if r.Bool() {
				sample = append(sample, z...)
			} else {
				sample = append(z, sample...)
			}
		case 4: // tiny
			sample = r.Bytes(r.Intn(9), []byte{0, 0, 1, 5, 0x65})
		case 5: // 32-bit wrap on a VIDEO NALU (refused since /repo 2ef93b3; the whole family: wrap.go)
			if len(sample) >= 5 && isVideo(codec, sample[4]) {
				binary.BigEndian.PutUint32(sample[0:4], uint32(0x100000000-4+uint64(r.Intn(len(sample)-3))))
			}
		}
		sample = hx.Exact(sample)
		ssps, class := e.protectRanges(codec, sample, "cenc")
		emit("R", next(), string(codec), "cenc", hx.Hex(sample), "-", obsRanges(ssps, class))
	}
	// --- R: NAL unit length fields whose uint32 sum with the position wraps (wrap.go; own RNG stream; the calls run
	//        under a wall-clock budget, outcome class "hang")
	rw := hx.NewRng(seed ^ 0x3a9c07)
	for i := 0; i < n/4+5; i++ {
		codec := byte(rw.Pick('a', 'h'))
		sample, _ := wrapSample(rw, codec)
		sample = hx.Exact(sample)
		ssps, class := e.protectRangesTimed(codec, sample, "cenc")
		emit("R", next(), string(codec), "cenc", hx.Hex(sample), "-", obsRanges(ssps, class))
	}
	// --- C: CryptSampleCenc on arbitrary maps (incl. maps exceeding the sample: panic class), IV carries
	for i := 0; i < n; i++ {
		sz := r.Pick(0, 1, 15, 16, 17, 33, 100, r.Range(0, 600))
		sample := r.Bytes(sz, nil)
		tot := sz
		if r.Intn(10) == 0 {
			tot = sz + r.Range(1, 40)
		}
		ssps := parseRanges(r, tot)
		iv := genIV(r, 16)
		k := key()
		switch r.Intn(40) {
		case 0:
			iv = iv[:8]
		case 1:
			k = k[:r.Pick(0, 8, 15)]
		}
		emit("C", next(), hx.Hex(k), hx.Hex(iv), rangesString(ssps), hx.Hex(sample), cryptCenc(sample, k, iv, ssps))
	}
	// --- B / K: cbcs crypt, both directions, 1:9 / 0:0 (audio) / other patterns
	for i := 0; i < n; i++ {
		sz := r.Pick(0, 1, 15, 16, 17, 159, 160, 161, 175, 176, 177, 320, 336, r.Range(0, 900))
		sample := r.Bytes(sz, nil)
		ssps := parseRanges(r, sz)
		iv := genIV(r, 16)
		k := key()
		cb, sb := 1, 9
		switch r.Intn(8) {
		case 0:
			cb, sb = 0, 0
		case 1:
			cb, sb = r.Pick(1, 2, 5, 10), r.Pick(0, 1, 9, 3)
		}
		dec := r.Bool()
		d := "0"
		if dec {
			d = "1"
		}
		emit("B", next(), d, hx.Hex(k), hx.Hex(iv), rangesString(ssps), strconv.Itoa(cb), strconv.Itoa(sb), hx.Hex(sample),
			cryptCbcs(dec, sample, k, iv, ssps, cb, sb))
		if i%4 == 0 {
			buf := hx.Exact(sample)
			var err error
			class := "ok:"
			p := hx.Try(func() { err = mp4.VerifC07CbcsCrypt(dec, buf, k, iv, cb*16, sb*16) })
			if p != "" {
				class = "panic"
			} else if err != nil {
				class = "err"
			} else {
				class += hx.Hex(buf)
			}
			emit("K", next(), d, hx.Hex(k), hx.Hex(iv), strconv.Itoa(cb*16), strconv.Itoa(sb*16), hx.Hex(sample), class)
		}
	}
	// --- F: EncryptFragment end to end
	nf := n / 4
	bigLeft := big
	for i := 0; i < nf; i++ {
		codec := byte(r.Pick('a', 'a', 'h', 'u'))
		scheme := []string{"cenc", "cbcs"}[r.Intn(2)]
		ns := r.Pick(1, 2, 3, 5, 8)
		b := 0
		if i%8 == 0 && bigLeft > 0 { // AES in the extracted model costs ~0.3 ms per block: few big protected samples
			b = 1
			bigLeft--
		}
		var samples [][]byte
		var hdrs []string
		for j := 0; j < ns; j++ {
			switch {
			case codec == 'u':
				samples = append(samples, genAudioSample(r, b))
			case scheme == "cbcs":
				nal := genVideoSampleCbcs(e, r, codec, b)
				samples = append(samples, frame(nal))
				if h := e.hdrOracle(codec, nal); h != "-" {
					hdrs = append(hdrs, h)
				}
			default:
				samples = append(samples, frame(genVideoSampleCenc(r, codec, b)))
			}
		}
		if codec != 'u' && scheme == "cenc" && i%20 == 5 {
			// 38..45 sub-sample entries in one sample: the saiz size byte wraps at 256
			kk := r.Range(38, 45)
			var nal [][]byte
			for j := 0; j < kk; j++ {
				bb := r.Bytes(r.Pick(108, 112, 120), nil)
				if codec == 'a' {
					bb[0] = avcHeader(r, true)
				} else {
					bb[0] = hevcHeader(r, true)
					bb[1] = 1
				}
				nal = append(nal, bb)
			}
			samples[0] = frame(nal)
		}
		iv := genIV(r, r.Pick(8, 16))
		k := key()
		o := fragOpts{extraMoof: r.Pick(0, 0, 1, 2), extraTraf: r.Pick(0, 0, 1, 2), moofBefore: r.Bool()}
		fr := e.runFragment(codec, scheme, k, iv, samples, o, r)
		hs := "-"
		if len(hdrs) > 0 {
			hs = strings.Join(hdrs, ",")
		}
		emit("F", next(), scheme, string(codec), hx.Hex(k), hx.Hex(iv), strconv.Itoa(fr.cb), strconv.Itoa(fr.sb),
			samplesField(samples), hs, orDash(fr.before), orDash(fr.trafc), fr.obs)
	}
	// --- G: EncryptFragment where the model builds the parameter-set maps from the avcC / hvcC NAL units and
	//        computes every slice header size itself (no observed sizes): AVC asset, HEVC asset, synthetic HEVC
	//        configurations; one sample in three fragments is made unusual (the fragment may then be refused)
	for i := 0; i < nf; i++ {
		scheme := []string{"cbcs", "cbcs", "cenc"}[r.Intn(3)]
		ns := r.Pick(1, 2, 3, 5)
		var samples [][]byte
		var spsRaw, ppsRaw [][]byte
		codec := byte('h')
		o := fragOpts{extraMoof: r.Pick(0, 0, 1), extraTraf: r.Pick(0, 0, 1), moofBefore: r.Bool()}
		var g *hevcEnv
		switch i % 4 {
		case 0:
			codec = 'a'
			spsRaw, ppsRaw = e.avcSpsRaw, e.avcPpsRaw
		case 1:
			spsRaw, ppsRaw = e.hevcSpsRaw, e.hevcPpsRaw
		default:
			g = e.gen[r.Intn(len(e.gen))]
			spsRaw, ppsRaw = [][]byte{g.cfg.sps}, [][]byte{g.cfg.pps}
			o.init = g.init
		}
		odd := -1
		if r.Intn(3) == 0 {
			odd = r.Intn(ns)
		}
		for j := 0; j < ns; j++ {
			var nal [][]byte
			var hs []int
			switch {
			case g != nil:
				nal, hs = genHevcAccessUnit(g.cfg, r, false)
			case scheme == "cbcs":
				nal = genVideoSampleCbcs(e, r, codec, 0)
			default:
				nal = genVideoSampleCenc(r, codec, 0)
			}
			if j == odd {
				nal, _ = unusual(r, codec, nal, hs)
			}
			samples = append(samples, frame(nal))
		}
		iv := genIV(r, r.Pick(8, 16))
		k := key()
		fr := e.runFragment(codec, scheme, k, iv, samples, o, r)
		emit("G", next(), scheme, string(codec), hexCsv(spsRaw), hexCsv(ppsRaw), hx.Hex(k), hx.Hex(iv), strconv.Itoa(fr.cb), strconv.Itoa(fr.sb),
			samplesField(samples), orDash(fr.before), orDash(fr.trafc), fr.obs)
	}
	// --- T: EncryptFragment over the BYTES of the fragment (C07TrafModel.v): the moof children in front of / behind
	//        the traf and the traf children as encoded boxes, before and after; the model appends its own byte
	//        encodings of saiz / saio (offset included) / senc and encrypts the samples
	for i := 0; i < nf/2; i++ {
		scheme := []string{"cenc", "cbcs"}[r.Intn(2)]
		ns := r.Pick(1, 2, 3, 5)
		var samples [][]byte
		var spsRaw, ppsRaw [][]byte
		codec := byte('h')
		o := fragOpts{extraMoof: r.Pick(0, 1, 2), extraTraf: r.Pick(0, 1, 2), moofBefore: r.Bool()}
		var g *hevcEnv
		switch i % 3 {
		case 0:
			codec = 'a'
			spsRaw, ppsRaw = e.avcSpsRaw, e.avcPpsRaw
		case 1:
			codec = 'u'
		default:
			g = e.gen[r.Intn(len(e.gen))]
			spsRaw, ppsRaw = [][]byte{g.cfg.sps}, [][]byte{g.cfg.pps}
			o.init = g.init
		}
		for j := 0; j < ns; j++ {
			switch {
			case codec == 'u':
				samples = append(samples, genAudioSample(r, 0))
			case g != nil:
				nal, _ := genHevcAccessUnit(g.cfg, r, false)
				samples = append(samples, frame(nal))
			case scheme == "cbcs":
				samples = append(samples, frame(benign(r, codec, genVideoSampleCbcs(e, r, codec, 0))))
			default:
				samples = append(samples, frame(benign(r, codec, genVideoSampleCenc(r, codec, 0))))
			}
		}
		if codec != 'u' && r.Intn(3) == 0 {
			// fragments mixing normal samples with a 4-byte sample (a single empty NAL unit) / a trailing empty NAL unit
			j := r.Intn(ns)
			if r.Bool() {
				samples[j] = []byte{0, 0, 0, 0}
			} else {
				samples[j] = append(append([]byte{}, samples[j]...), 0, 0, 0, 0)
			}
		}
		iv := genIV(r, r.Pick(8, 16))
		k := key()
		fr := e.runFragment(codec, scheme, k, iv, samples, o, r)
		boxes := func(l []mp4.Box) string {
			var bs [][]byte
			for _, b := range l {
				bs = append(bs, encodeBox(b))
			}
			return hexList(bs)
		}
		split := func(f *mp4.Fragment) (before, traf, after []mp4.Box) {
			seen := false
			for _, c := range f.Moof.Children {
				switch {
				case c.Type() == "traf":
					seen = true
					traf = c.(*mp4.TrafBox).Children
					for _, tc := range traf { // a trun only encodes with a data offset; Fragment.Encode sets it later
						if tr, ok := tc.(*mp4.TrunBox); ok && tr.DataOffset == 0 {
							tr.DataOffset = 4242
						}
					}
				case seen:
					after = append(after, c)
				default:
					before = append(before, c)
				}
			}
			return
		}
		if fr.frag == nil {
			continue
		}
		cb4, ct, ca := split(buildFragment(fr.trackID, samples, o, nil))
		obs := fr.class
		if fr.class == "ok" {
			_, et, _ := split(fr.frag)
			obs = "ok|" + boxes(et) + "|" + hexList(fr.enc)
		}
		emit("T", next(), scheme, string(codec), hexCsv(spsRaw), hexCsv(ppsRaw), hx.Hex(k), hx.Hex(iv), strconv.Itoa(fr.cb), strconv.Itoa(fr.sb),
			boxes(cb4), boxes(ct), boxes(ca), samplesField(samples), obs)
	}
	out.Flush()
}

func orDash(s string) string {
	if s == "" {
		return "-"
	}
	return s
}

func max(a, b int) int {
	if a > b {
		return a
	}
	return b
}

// ---------------------------------------------------------------- search (the property on the implementation)

var evals int
var multiFrag int

func fail(site, class, witness, desc string) {
	if len(witness) > 1500 {
		witness = witness[:1500] + "..."
	}
	fmt.Fprintf(out, "FAIL\t%s\t%s\t%s\t%s\n", site, class, witness, desc)
}

// refCTR: AES-CTR driven by the harness itself on top of the raw block cipher: counter block i is the
// 128-bit big-endian integer IV + i.
type refCTR struct {
	key []byte
	ctr [16]byte
	buf []byte
}

func newRefCTR(key, iv []byte) *refCTR {
	c := &refCTR{key: key}
	copy(c.ctr[:], iv)
	return c
}

func (c *refCTR) next() byte {
	if len(c.buf) == 0 {
		blk, err := aes.NewCipher(c.key)
		must(err)
		c.buf = make([]byte, 16)
		blk.Encrypt(c.buf, c.ctr[:])
		for i := 15; i >= 0; i-- {
			c.ctr[i]++
			if c.ctr[i] != 0 {
				break
			}
		}
	}
	b := c.buf[0]
	c.buf = c.buf[1:]
	return b
}

// refCBCPattern: AES-CBC over the blocks selected by the crypt:skip pattern of one protected range,
// chaining only over the encrypted blocks, IV restarted per range.
func refCBCPattern(key, iv, data []byte, cb, sb int) []byte {
	blk, err := aes.NewCipher(key)
	must(err)
	o := append([]byte{}, data...)
	prev := append([]byte{}, iv...)
	nblocks := len(data) / 16
	encBlock := func(j int) {
		var x [16]byte
		for t := 0; t < 16; t++ {
			x[t] = data[16*j+t] ^ prev[t]
		}
		blk.Encrypt(o[16*j:16*j+16], x[:])
		copy(prev, o[16*j:16*j+16])
	}
	if sb == 0 {
		for j := 0; j < nblocks; j++ {
			encBlock(j)
		}
		return o
	}
	period := cb + sb
	for g := 0; g*period+cb <= nblocks; g++ {
		for j := g * period; j < g*period+cb; j++ {
			encBlock(j)
		}
	}
	return o
}

type naluInfo struct {
	start int // offset of the 4-byte length field
	n     []byte
}

func layout(nalus [][]byte) []naluInfo {
	var res []naluInfo
	pos := 0
	for _, n := range nalus {
		res = append(res, naluInfo{pos, n})
		pos += 4 + len(n)
	}
	return res
}

// expectedMask: the per-byte protected/clear classification the property prescribes.
func (e *env) expectedMask(codec byte, scheme string, nalus [][]byte, hs []int) ([]bool, bool) {
	var m []bool
	for k, n := range nalus {
		m = append(m, false, false, false, false)
		p := 0
		if len(n) == 0 { // an empty NAL unit is its (clear) length field
			continue
		}
		if isVideo(codec, n[0]) {
			if scheme == "cenc" {
				if len(n)+4 >= 112 {
					p = ((len(n) + 4 - 96) / 16) * 16
				}
			} else {
				h := "E"
				if hs != nil { // header size known from the generator (independent of the parser under test)
					if k < len(hs) && hs[k] > 0 {
						h = strconv.Itoa(hs[k])
					}
				} else {
					h = e.hdrSize(codec, n)
				}
				if h == "E" {
					return nil, false
				}
				hv, _ := strconv.Atoi(h)
				if hv > len(n) {
					return nil, false
				}
				p = len(n) - hv
			}
		}
		for i := 0; i < len(n); i++ {
			m = append(m, i >= len(n)-p)
		}
	}
	return m, true
}

func maskOf(ssps []mp4.SubSamplePattern, total int) []bool {
	var m []bool
	for _, s := range ssps {
		for i := 0; i < int(s.BytesOfClearData); i++ {
			m = append(m, false)
		}
		for i := 0; i < int(s.BytesOfProtectedData); i++ {
			m = append(m, true)
		}
	}
	return m
}

func addBE(iv []byte, n uint64) []byte {
	o := append([]byte{}, iv...)
	carry := n
	for i := len(o) - 1; i >= 0 && carry > 0; i-- {
		s := uint64(o[i]) + (carry & 0xff)
		o[i] = byte(s)
		carry = (carry >> 8) + (s >> 8)
	}
	return o
}

func search(e *env, seed uint64, n int, big int) {
	r := hx.NewRng(seed ^ 0x5ea7c07)
	rs := hx.NewRng(seed ^ 0x51c07c) // signalling choices: their own stream (the other draws stay what they were)
	for i := 0; i < n; i++ {
		codec := byte(r.Pick('a', 'a', 'h', 'u'))
		scheme := []string{"cenc", "cbcs"}[r.Intn(2)]
		ns := r.Pick(1, 2, 3, 5, 8, 12)
		b := 0
		if i%6 == 0 {
			b = big
		}
		var samples [][]byte
		var naluLists [][][]byte
		var hdrLists [][]int // per sample, per NAL unit: header size known from the generator (synthetic HEVC only)
		var g *hevcEnv
		if i%3 == 2 && codec != 'u' { // synthetic HEVC configuration: its own hvcC, header sizes from the writer
			codec = 'h'
			g = e.gen[r.Intn(len(e.gen))]
			synthFrags++
		}
		for j := 0; j < ns; j++ {
			switch {
			case codec == 'u':
				samples = append(samples, genAudioSample(r, b))
				naluLists = append(naluLists, nil)
			case g != nil:
				nal, hs := genHevcAccessUnit(g.cfg, r, b > 0 && j == 0)
				samples = append(samples, frame(nal))
				naluLists = append(naluLists, nal)
				hdrLists = append(hdrLists, hs)
			case scheme == "cbcs":
				nal := genVideoSampleCbcs(e, r, codec, b)
				samples = append(samples, frame(nal))
				naluLists = append(naluLists, nal)
			default:
				nal := genVideoSampleCenc(r, codec, b)
				samples = append(samples, frame(nal))
				naluLists = append(naluLists, nal)
			}
		}
		if codec != 'u' && g == nil && i%2 == 0 {
			// unusual but valid placements: non-video NAL units after the last slice, 1..3-byte non-video NAL
			// units anywhere, a sample without any video NAL unit
			j := r.Intn(ns)
			naluLists[j] = benign(r, codec, naluLists[j])
			samples[j] = frame(naluLists[j])
			benignSamples++
		}
		if codec != 'u' && i%5 == 1 {
			// empty NAL units (length field 0): at the end of a sample (both schemes), in front of another NAL unit
			// (cenc; cbcs hands the empty NAL unit to the slice header parser and refuses the fragment), and the
			// 4-byte sample made of a single empty NAL unit, mixed with normal samples
			j := r.Intn(ns)
			c := r.Intn(3)
			if c == 2 && scheme != "cenc" {
				c = r.Intn(2)
			}
			switch c {
			case 0:
				naluLists[j] = append(append([][]byte{}, naluLists[j]...), []byte{})
			case 1:
				naluLists[j] = [][]byte{{}}
			default:
				k := r.Intn(len(naluLists[j]))
				nl := append([][]byte{}, naluLists[j][:k]...)
				nl = append(nl, []byte{})
				naluLists[j] = append(nl, naluLists[j][k:]...)
			}
			if hdrLists != nil { // header sizes by NAL unit index: recompute the alignment (empty NAL units have none)
				var hs []int
				old := hdrLists[j]
				oi := 0
				for _, nn := range naluLists[j] {
					if len(nn) == 0 {
						hs = append(hs, 0)
						continue
					}
					if oi < len(old) {
						hs = append(hs, old[oi])
					} else {
						hs = append(hs, 0)
					}
					oi++
				}
				if c == 1 {
					hs = []int{0}
				}
				hdrLists[j] = hs
			}
			samples[j] = frame(naluLists[j])
			emptyNalSamples++
		}
		if codec != 'u' && g == nil && i%12 == 4 {
			// a clear run of exactly 65535 / 65536 / 65537 / 131070 / 131071 bytes (AppendProtectRange splits at 65535):
			// one non-video NAL unit, for cenc followed by a protected video NAL unit of 200 bytes (108 of its 204 clear)
			T := r.Pick(65535, 65536, 65536, 65537, 131070, 131071, 131072, 65534)
			nv := func(sz int) []byte {
				bb := r.Bytes(sz, nil)
				if codec == 'a' {
					bb[0] = 6
				} else {
					bb[0] = 39 << 1
				}
				return bb
			}
			var nal [][]byte
			if scheme == "cenc" && r.Bool() {
				v := r.Bytes(200, nil)
				if codec == 'a' {
					v[0] = 0x65
				} else {
					v[0], v[1] = 19<<1, 1
				}
				nal = [][]byte{nv(T - 112), v}
			} else {
				nal = [][]byte{nv(T - 4)}
			}
			j := r.Intn(ns)
			samples[j] = frame(nal)
			naluLists[j] = nal
			boundaryRuns++
		}
		if codec != 'u' && g == nil && scheme == "cenc" && i%25 == 7 {
			// a sample with many protected NAL units: 38..45 sub-sample entries
			k := r.Range(38, 45)
			var nal [][]byte
			for j := 0; j < k; j++ {
				bb := r.Bytes(r.Pick(108, 112, 120, 130), nil)
				if codec == 'a' {
					bb[0] = avcHeader(r, true)
				} else {
					bb[0] = hevcHeader(r, true)
					bb[1] = 1
				}
				nal = append(nal, bb)
			}
			samples[0] = frame(nal)
			naluLists[0] = nal
		}
		ivIn := genIV(r, r.Pick(8, 16))
		key := r.Bytes(16, nil)
		if i%9 == 2 { // AES-192 / AES-256 keys (the API accepts them; the reference below is Go's crypto/aes block)
			key = r.Bytes(r.Pick(24, 32), nil)
		}
		o := fragOpts{extraMoof: r.Pick(0, 0, 1, 2), extraTraf: r.Pick(0, 0, 1, 2), moofBefore: r.Bool(), optTrun: i%10 == 3, viaExtract: i%4 == 1}
		if g != nil {
			o.init = g.init
		}
		if !o.optTrun && rs.Intn(5) < 2 {
			// sample size / duration / flags signalled like an external packager does: per sample in trun, as tfhd
			// defaults, or ONLY in the trex of the init segment (constant-size frames in a compact CMAF layout); the init
			// with that trex is built here, before InitProtect, and is the one every later step reads the fragment against
			sg := sigOpts{on: true, size: rs.Intn(3), dur: rs.Intn(3), flags: rs.Intn(3)}
			if rs.Intn(3) == 0 {
				sg.size = 2
			}
			if sg.size != 0 { // constant size: audio frames of the size of the first, video copies of the first access unit
				for j := 1; j < ns; j++ {
					if codec == 'u' {
						samples[j] = rs.Bytes(len(samples[0]), nil)
						continue
					}
					nl := make([][]byte, len(naluLists[0]))
					for k, nn := range naluLists[0] {
						nl[k] = append([]byte{}, nn...)
					}
					if len(nl) > 0 && len(nl[len(nl)-1]) > 400 { // slice data far behind any header
						last := nl[len(nl)-1]
						last[len(last)-1] ^= byte(1 + rs.Intn(255))
					}
					naluLists[j] = nl
					samples[j] = frame(nl)
					if hdrLists != nil {
						hdrLists[j] = append([]int{}, hdrLists[0]...)
					}
				}
			}
			base := o.init
			if base == nil {
				base = e.initFor(codec)
			}
			tsz, tdur, tfl := trexFor(sg, len(samples[0]))
			o.init = initWithTrex(base, tsz, tdur, tfl)
			o.sig = sg
			sigFrags++
			if sg.size == 2 {
				sigTrexSize++
			}
			if sg.size == 1 || sg.dur == 1 || sg.flags == 1 {
				sigTfhd++
			}
		}
		fr := e.runFragment(codec, scheme, key, ivIn, samples, o, r)
		evals++
		wit := fmt.Sprintf("codec=%c scheme=%s key=%s iv=%s opts=%+v samples=%s", codec, scheme, hx.Hex(key), hx.Hex(ivIn), o, samplesField(samples))
		flushHyg(wit)
		if fr.class != "ok" {
			fail("mp4.EncryptFragment", "encrypt-"+fr.class, wit, "EncryptFragment does not succeed on a well-formed clear fragment")
			continue
		}
		// other fragments of the same track in front (the moof under test then starts at a non-zero position);
		// like mp4ff-encrypt, every fragment is encrypted from the same IV
		var prefix []fragResult
		if !o.optTrun {
			for k := r.Pick(0, 0, 1, 2); k > 0; k-- {
				var ps [][]byte
				for j := r.Pick(1, 2); j > 0; j-- {
					switch {
					case codec == 'u':
						ps = append(ps, genAudioSample(r, 0))
					case g != nil:
						nal, _ := genHevcAccessUnit(g.cfg, r, false)
						ps = append(ps, frame(nal))
					case scheme == "cbcs":
						ps = append(ps, frame(genVideoSampleCbcs(e, r, codec, 0)))
					default:
						ps = append(ps, frame(genVideoSampleCenc(r, codec, 0)))
					}
				}
				pf := e.runFragment(codec, scheme, key, ivIn, ps, fragOpts{extraTraf: r.Pick(0, 1), init: o.init}, r)
				if pf.class == "ok" {
					prefix = append(prefix, pf)
					multiFrag++
				}
			}
		}
		checkFragment(e, fr, prefix, codec, scheme, key, ivIn, samples, naluLists, hdrLists, wit)
	}
	searchDirect(hx.NewRng(seed^0xd17ec7), n)
	searchWrap(e, hx.NewRng(seed^0x3a9c08), n/10+20)
	fmt.Fprintf(out, "NOTE\tsamples_with_length_field_near_2^32\t%v (kinds: non-video wrap, video wrap, wrap back into a protected NAL unit, exact-end controls, extreme values)\n", wrapKinds)
	fmt.Fprintf(out, "NOTE\tmulti_fragment_prefixes\t%d\n", multiFrag)
	fmt.Fprintf(out, "NOTE\tsamples_with_shape_oracle\t%d\n", maskChecked)
	fmt.Fprintf(out, "NOTE\tsynthetic_hevc_fragments\t%d\n", synthFrags)
	fmt.Fprintf(out, "NOTE\tbox_by_box_diffs\t%d\n", boxDiffs)
	fmt.Fprintf(out, "NOTE\tfragments_with_unusual_placement\t%d\n", benignSamples)
	fmt.Fprintf(out, "NOTE\tfragments_with_empty_nal_units\t%d\n", emptyNalSamples)
	fmt.Fprintf(out, "NOTE\tsamples_read_through_trun_offset\t%d\n", rawReads)
	fmt.Fprintf(out, "NOTE\tsamples_with_clear_run_at_65535_boundary\t%d\n", boundaryRuns)
	fmt.Fprintf(out, "NOTE\tfragments_with_nontrivial_trex\t%d\n", sigFrags)
	fmt.Fprintf(out, "NOTE\tfragments_with_sample_size_only_in_trex\t%d\n", sigTrexSize)
	fmt.Fprintf(out, "NOTE\tfragments_with_tfhd_defaults\t%d\n", sigTfhd)
	fmt.Fprintf(out, "NOTE\tiv_across_fragments\tEncryptFragment has no IV state across fragments: callers (cmd/mp4ff-encrypt) start every fragment from the same IV, so with one key counter blocks repeat ACROSS fragments; the property speaks about one fragment - not alarmed\n")
	fmt.Fprintf(out, "EVALS\t%d\n", evals)
	out.Flush()
}

// checkFragment evaluates the clauses of C07 on one encrypted fragment, after a full encode/decode cycle.
var maskChecked, synthFrags, benignSamples, emptyNalSamples, rawReads, boundaryRuns, sigFrags, sigTrexSize, sigTfhd int

func checkFragment(e *env, fr fragResult, prefix []fragResult, codec byte, scheme string, key, ivIn []byte, samples [][]byte, naluLists [][][]byte, hdrLists [][]int, wit string) {
	// encode init + fragment, decode again: the observation point is the encoded file
	seg := mp4.NewMediaSegmentWithoutStyp()
	seg.EncOptimize = fr.frag.EncOptimize // MediaSegment.Encode copies its own mode into every fragment
	for _, pf := range prefix {
		seg.AddFragment(pf.frag)
	}
	seg.AddFragment(fr.frag)
	var buf bytes.Buffer
	var err error
	if p := hx.Try(func() { err = fr.init.Init.Encode(&buf) }); p != "" || err != nil {
		fail("mp4.InitSegment.Encode", "encode-protected-init-"+classOf(p, err), wit, "protected init segment does not encode")
		return
	}
	if p := hx.Try(func() { err = seg.Encode(&buf) }); p != "" || err != nil {
		fail("mp4.MediaSegment.Encode", "encode-encrypted-"+classOf(p, err), wit, "encrypted fragment does not encode")
		return
	}
	raw := buf.Bytes()
	// the saio offset against the layout that was actually written (sizes are final after Encode)
	{
		off := uint64(8)
		want := uint64(0)
		for _, c := range fr.frag.Moof.Children {
			if c.Type() != "traf" {
				off += c.Size()
				continue
			}
			off += 8
			for _, tc := range c.(*mp4.TrafBox).Children {
				if tc.Type() == "senc" {
					want = off + 16
				}
				off += tc.Size()
			}
			break
		}
		if got := fr.frag.Moof.Traf.Saio.Offset[0]; uint64(got) != want {
			cls := "saio-offset"
			if fr.frag.EncOptimize&mp4.OptimizeTrun != 0 {
				cls = "saio-offset-stale-after-optimize-trun"
			}
			fail("mp4.EncryptFragment", cls, wit, fmt.Sprintf("saio offset %d, the senc entries of the encoded moof start at %d", got, want))
			return
		}
	}
	dec, err := mp4.DecodeFile(bytes.NewReader(raw))
	if err != nil || len(dec.Segments) != 1 || len(dec.Segments[0].Fragments) != 1+len(prefix) {
		fail("mp4.DecodeFile", "decode-encrypted", wit, "encoded encrypted fragment does not decode")
		return
	}
	checkTenc(dec, scheme, ivIn, wit)
	dfrag := dec.Segments[0].Fragments[len(prefix)]
	traf := dfrag.Moof.Traf
	if traf.Senc == nil || traf.Saiz == nil || traf.Saio == nil {
		fail("mp4.EncryptFragment", "aux-boxes-missing", wit, "senc/saiz/saio missing after encode/decode")
		return
	}
	ivSize := byte(16)
	if scheme == "cbcs" {
		ivSize = 0
	}
	// --- aux info: saio offset points at the first per-sample entry of senc inside the ENCODED moof,
	// saiz sizes are the byte lengths of the entries actually written
	moofStart := int(dfrag.Moof.StartPos)
	sencStart := int(traf.Senc.StartPos)
	if len(traf.Saio.Offset) != 1 || int(traf.Saio.Offset[0])+moofStart != sencStart+16 {
		fail("mp4.EncryptFragment", "saio-offset", wit, fmt.Sprintf("saio offset %v + moof start %d is not the start of the senc entries %d",
			traf.Saio.Offset, moofStart, sencStart+16))
	}
	if traf.Senc.ReadButNotParsed() {
		if err := traf.ParseReadSenc(ivSize, dfrag.Moof.StartPos); err != nil {
			fail("mp4.SencBox", "senc-reparse", wit, "written senc does not parse back: "+err.Error())
			return
		}
	}
	senc := traf.Senc
	nsmp := len(samples)
	if int(senc.SampleCount) != nsmp {
		fail("mp4.EncryptFragment", "senc-sample-count", wit, fmt.Sprintf("senc has %d samples, fragment %d", senc.SampleCount, nsmp))
		return
	}
	// entry lengths as written
	entryLen := make([]int, nsmp)
	hasSub := senc.Flags&mp4.UseSubSampleEncryption != 0
	for i := 0; i < nsmp; i++ {
		l := int(ivSize)
		if hasSub {
			l += 2 + 6*len(senc.SubSamples[i])
		}
		entryLen[i] = l
	}
	saiz := traf.Saiz
	anyEntry := false
	for i := 0; i < nsmp; i++ {
		if entryLen[i] > 0 {
			anyEntry = true
		}
	}
	if anyEntry {
		if int(saiz.SampleCount) != nsmp {
			fail("mp4.SaizBox.AddSampleInfo", "saiz-count", wit, fmt.Sprintf("saiz sample count %d, senc entries %d", saiz.SampleCount, nsmp))
		} else {
			for i := 0; i < nsmp; i++ {
				got := int(saiz.DefaultSampleInfoSize)
				if got == 0 {
					got = int(saiz.SampleInfo[i])
				}
				if got != entryLen[i] {
					cls := "saiz-size"
					if entryLen[i] >= 256 && got == entryLen[i]%256 { // known finding C07-F1: the 8-bit size field wraps
						cls = "saiz-size-wraps-at-256"
					}
					fail("mp4.SaizBox.AddSampleInfo", cls, wit, fmt.Sprintf("sample %d: saiz size %d, senc entry is %d bytes", i, got, entryLen[i]))
					break
				}
			}
		}
	}
	// --- per-sample clauses
	// read against the trex of the init segment as written and decoded (the one a player has)
	var decTrex *mp4.TrexBox
	if dec.Init != nil && dec.Init.Moov != nil && dec.Init.Moov.Mvex != nil {
		decTrex = dec.Init.Moov.Mvex.Trex
	}
	if fr.opts.sig.on {
		wsz, wdur, wfl := trexFor(fr.opts.sig, len(samples[0]))
		if decTrex == nil || decTrex.DefaultSampleSize != wsz || decTrex.DefaultSampleDuration != wdur || decTrex.DefaultSampleFlags != wfl {
			fail("mp4.InitProtect", "trex-changed", wit, "the trex defaults of the protected init are not those of the clear init")
			return
		}
	}
	encFs, err := dfrag.GetFullSamples(decTrex)
	if err != nil || len(encFs) != nsmp {
		fail("mp4.Fragment.GetFullSamples", "samples-after-encrypt", wit, "sample list changed by encryption")
		return
	}
	iv16 := make([]byte, 16)
	copy(iv16, ivIn)
	type interval struct{ lo, n uint64 } // low 64 bits are enough for the disjointness check below when no wrap of the low half
	curIV := append([]byte{}, iv16...)
	totalBlocks := uint64(0)
	sencMasks := make([][]bool, nsmp)
	for i := 0; i < nsmp; i++ {
		clear := samples[i]
		rawAcc := 0
		for j := 0; j < i; j++ {
			rawAcc += len(samples[j])
		}
		enc := encFs[i].Data
		if len(enc) != len(clear) {
			fail("mp4.EncryptFragment", "sample-size-changed", wit, fmt.Sprintf("sample %d", i))
			return
		}
		var ssps []mp4.SubSamplePattern
		if hasSub {
			ssps = senc.SubSamples[i]
		}
		var mask []bool
		if codec == 'u' {
			if len(ssps) != 0 {
				fail("mp4.EncryptFragment", "audio-subsamples", wit, "audio sample carries a sub-sample map")
			}
			mask = make([]bool, len(clear))
			for j := range mask {
				mask[j] = true
			}
		} else {
			// partition + 16-bit clear counts (uint16 by type; the sum is the point)
			sum := 0
			for _, s := range ssps {
				sum += int(s.BytesOfClearData) + int(s.BytesOfProtectedData)
			}
			if sum != len(clear) {
				fail("mp4.GetProtectRanges", "partition", wit, fmt.Sprintf("sample %d: sub-sample entries cover %d of %d bytes", i, sum, len(clear)))
				continue
			}
			mask = maskOf(ssps, len(clear))
			var hsI []int
			if hdrLists != nil {
				hsI = hdrLists[i]
			}
			want, ok := e.expectedMask(codec, scheme, naluLists[i], hsI)
			if ok {
				maskChecked++
			}
			if ok {
				for j := range mask {
					if mask[j] != want[j] {
						fail("mp4.GetProtectRanges", "shape-"+scheme, wit, fmt.Sprintf("sample %d byte %d: protected=%v, the property prescribes %v; ranges %s", i, j, mask[j], want[j], rangesString(ssps)))
						break
					}
				}
			}
			// the shape clauses in their arithmetic form (cenc)
			if scheme == "cenc" {
				for _, ni := range layout(naluLists[i]) {
					ln := len(ni.n)
					prot := 0
					first := -1
					for j := 0; j < ln+4; j++ {
						if mask[ni.start+j] {
							prot++
							if first < 0 {
								first = j
							}
						}
					}
					vid := ln > 0 && isVideo(codec, ni.n[0])
					switch {
					case !vid && prot != 0:
						fail("mp4.GetProtectRanges", "non-video-protected", wit, fmt.Sprintf("sample %d", i))
					case vid && ln > 127 && prot == 0:
						fail("mp4.GetProtectRanges", "video-unprotected", wit, fmt.Sprintf("sample %d nalu of %d bytes", i, ln))
					case prot > 0 && (prot%16 != 0 || first+prot != ln+4 || first < 96 || first > 111 || first-4 > 127):
						fail("mp4.GetProtectRanges", "cenc-range", wit, fmt.Sprintf("sample %d nalu %d bytes: protected %d from %d", i, ln, prot, first))
					}
				}
			}
		}
		sencMasks[i] = mask
		// reference cipher
		var ref []byte
		nprot := 0
		for _, m := range mask {
			if m {
				nprot++
			}
		}
		if scheme == "cenc" {
			if !bytes.Equal(senc.IVs[i], curIV) {
				fail("mp4.EncryptFragment", "iv-sequence", wit, fmt.Sprintf("sample %d: senc IV %s, expected previous IV + blocks used = %s", i, hx.Hex(senc.IVs[i]), hx.Hex(curIV)))
			}
			c := newRefCTR(key, senc.IVs[i])
			ref = append([]byte{}, clear...)
			for j := range ref {
				if mask[j] {
					ref[j] ^= c.next()
				}
			}
			blocks := uint64((nprot + 15) / 16)
			totalBlocks += blocks
			curIV = addBE(senc.IVs[i], blocks)
		} else {
			ref = append([]byte{}, clear...)
			// one CBC run per maximal protected range (= per sub-sample entry with protected bytes)
			if len(ssps) == 0 {
				copy(ref, refCBCPattern(key, iv16, clear, fr.cb, fr.sb))
			} else {
				pos := 0
				for _, s := range ssps {
					pos += int(s.BytesOfClearData)
					p := int(s.BytesOfProtectedData)
					if p > 0 && pos+p <= len(ref) {
						copy(ref[pos:pos+p], refCBCPattern(key, iv16, clear[pos:pos+p], fr.cb, fr.sb))
					}
					pos += p
				}
			}
			if codec == 'u' && (fr.cb != 0 || fr.sb != 0) || codec != 'u' && (fr.cb != 1 || fr.sb != 9) {
				fail("mp4.InitProtect", "cbcs-pattern", wit, fmt.Sprintf("tenc pattern %d:%d", fr.cb, fr.sb))
			}
		}
		// trun.data_offset after encryption: the sample read from the RAW encoded file at moof start + data offset +
		// sizes of the samples before (nothing of the library's sample access involved) must be the encrypted sample:
		// the reference cipher output, i.e. the clear bytes wherever the senc map says clear
		if traf.Trun != nil {
			at := moofStart + int(traf.Trun.DataOffset) + rawAcc
			if at < 0 || at+len(clear) > len(raw) {
				fail("mp4.EncryptFragment+Fragment.Encode", "trun-offset-outside-file", wit, fmt.Sprintf("sample %d: moof start %d + data offset %d + %d is outside the file of %d bytes", i, moofStart, traf.Trun.DataOffset, rawAcc, len(raw)))
			} else if got := raw[at : at+len(clear)]; !bytes.Equal(got, ref) {
				nclear := 0
				for j := range got {
					if !mask[j] && got[j] != clear[j] {
						nclear++
					}
				}
				fail("mp4.EncryptFragment+Fragment.Encode", "trun-offset-after-encrypt", wit, fmt.Sprintf("sample %d read through trun.data_offset %d (moof %d bytes at %d) is not the encrypted sample; %d bytes outside the protected ranges differ from the clear sample", i, traf.Trun.DataOffset, dfrag.Moof.Size(), moofStart, nclear))
			}
			rawReads++
		}
		if !bytes.Equal(ref, enc) {
			k := 0
			for k < len(ref) && ref[k] == enc[k] {
				k++
			}
			fail("mp4.EncryptFragment", "differs-from-reference-"+scheme, wit, fmt.Sprintf("sample %d: first difference at byte %d (protected=%v)", i, k, mask[k]))
		}
	}
	// no counter reuse: consecutive samples use adjacent, non-overlapping counter intervals; with fewer than
	// 2^128 blocks in total the intervals [IV_i, IV_i + blocks_i) are pairwise disjoint (checked through the sequence test above)
	_ = totalBlocks
	// everything else in the fragment is byte-identical to the clear input: compare with the clear fragment
	// encoded the same way, outside moof-internal protection boxes
	checkRestUnchanged(e, fr, dfrag, decTrex, samples, wit)
	if len(prefix) == 0 && fr.frag.EncOptimize&mp4.OptimizeTrun == 0 {
		checkBoxDiff(e, fr, fr.opts, samples, sencMasks, wit)
	}
}

func encodeBox(b mp4.Box) []byte {
	var buf bytes.Buffer
	if p := hx.Try(func() { _ = b.Encode(&buf) }); p != "" {
		return nil
	}
	return buf.Bytes()
}

var boxDiffs int

// checkBoxDiff: "everything else in the fragment is byte-identical to the clear input", box by box on the ENCODED
// files: the clear fragment (same samples, same options, never encrypted) and the encrypted one are both encoded and
// decoded; the moof children must be the same boxes in the same order, the traf children the same boxes followed by
// exactly saiz, saio, senc; every pre-existing box must be byte-identical except the trun, whose data_offset must
// have grown by exactly the bytes added to the moof; the mdat must have the same size and differ only at byte
// positions the senc sub-sample maps mark as protected (any position of a sample without map).
func checkBoxDiff(e *env, fr fragResult, o fragOpts, samples [][]byte, masks [][]bool, wit string) {
	clearFrag := buildFragment(fr.trackID, samples, o, nil)
	seg := mp4.NewMediaSegmentWithoutStyp()
	seg.EncOptimize = clearFrag.EncOptimize
	seg.AddFragment(clearFrag)
	var cb, eb bytes.Buffer
	if err := seg.Encode(&cb); err != nil {
		return
	}
	seg2 := mp4.NewMediaSegmentWithoutStyp()
	seg2.EncOptimize = fr.frag.EncOptimize
	seg2.AddFragment(fr.frag)
	if err := seg2.Encode(&eb); err != nil {
		return
	}
	cf, err1 := mp4.DecodeFile(bytes.NewReader(cb.Bytes()))
	ef, err2 := mp4.DecodeFile(bytes.NewReader(eb.Bytes()))
	if err1 != nil || err2 != nil || len(cf.Segments) != 1 || len(ef.Segments) != 1 {
		fail("mp4.EncryptFragment", "boxdiff-decode", wit, "clear or encrypted fragment does not decode")
		return
	}
	boxDiffs++
	cfr, efr := cf.Segments[0].Fragments[0], ef.Segments[0].Fragments[0]
	cm, em := cfr.Moof.Children, efr.Moof.Children
	if len(cm) != len(em) {
		fail("mp4.EncryptFragment", "boxdiff-moof-children", wit, fmt.Sprintf("moof has %d children, the clear one %d", len(em), len(cm)))
		return
	}
	added := int64(efr.Moof.Size()) - int64(cfr.Moof.Size())
	for i := range cm {
		if cm[i].Type() != em[i].Type() {
			fail("mp4.EncryptFragment", "boxdiff-moof-children", wit, fmt.Sprintf("moof child %d is %s, clear %s", i, em[i].Type(), cm[i].Type()))
			return
		}
		if cm[i].Type() != "traf" {
			if !bytes.Equal(encodeBox(cm[i]), encodeBox(em[i])) {
				fail("mp4.EncryptFragment", "boxdiff-box-changed", wit, "moof child "+cm[i].Type()+" differs from the clear input")
			}
			continue
		}
		ct, et := cm[i].(*mp4.TrafBox).Children, em[i].(*mp4.TrafBox).Children
		if len(et) != len(ct)+3 || et[len(ct)].Type() != "saiz" || et[len(ct)+1].Type() != "saio" || et[len(ct)+2].Type() != "senc" {
			var ts []string
			for _, b := range et {
				ts = append(ts, b.Type())
			}
			fail("mp4.EncryptFragment", "boxdiff-traf-children", wit, fmt.Sprintf("traf children %v: not the %d clear ones followed by saiz, saio, senc", ts, len(ct)))
			return
		}
		if int64(et[len(ct)].Size()+et[len(ct)+1].Size()+et[len(ct)+2].Size()) != added {
			fail("mp4.EncryptFragment", "boxdiff-moof-size", wit, fmt.Sprintf("moof grew by %d bytes, saiz+saio+senc have %d", added,
				et[len(ct)].Size()+et[len(ct)+1].Size()+et[len(ct)+2].Size()))
		}
		for j := range ct {
			if ct[j].Type() != et[j].Type() {
				fail("mp4.EncryptFragment", "boxdiff-traf-children", wit, fmt.Sprintf("traf child %d is %s, clear %s", j, et[j].Type(), ct[j].Type()))
				return
			}
			cbx, ebx := encodeBox(ct[j]), encodeBox(et[j])
			if ct[j].Type() == "trun" {
				ctr, etr := ct[j].(*mp4.TrunBox), et[j].(*mp4.TrunBox)
				if int64(etr.DataOffset)-int64(ctr.DataOffset) != added {
					fail("mp4.EncryptFragment", "boxdiff-trun-data-offset", wit, fmt.Sprintf("trun data offset %d, clear %d, moof grew by %d", etr.DataOffset, ctr.DataOffset, added))
				}
				etr.DataOffset = ctr.DataOffset
				ebx = encodeBox(etr)
			}
			if !bytes.Equal(cbx, ebx) {
				fail("mp4.EncryptFragment", "boxdiff-box-changed", wit, "traf child "+ct[j].Type()+" differs from the clear input")
			}
		}
	}
	cd, ed := cfr.Mdat.Data, efr.Mdat.Data
	if len(cd) != len(ed) {
		fail("mp4.EncryptFragment", "boxdiff-mdat-size", wit, fmt.Sprintf("mdat payload %d bytes, clear %d", len(ed), len(cd)))
		return
	}
	pos := 0
	for i, s := range samples {
		for j := range s {
			if cd[pos+j] != ed[pos+j] && masks[i] != nil && !masks[i][j] {
				fail("mp4.EncryptFragment", "boxdiff-clear-byte-changed", wit, fmt.Sprintf("sample %d byte %d is not protected by the senc map but differs from the clear input", i, j))
				return
			}
		}
		pos += len(s)
	}
}

func classOfS(p string, err error) string {
	if p != "" {
		return "panic"
	}
	return "err"
}

func classOf(p string, err error) string {
	if p != "" {
		return "panic"
	}
	if err != nil {
		return "err"
	}
	return "ok"
}

// checkRestUnchanged: the sample table (size, duration, flags, composition offset of every sample, resolved HERE from
// trun / tfhd / the decoded init's trex, not by the library), the way it is signalled (trun and tfhd flag words, tfhd
// defaults, first-sample-flags) and tfdt equal those of the clear fragment.
func checkRestUnchanged(e *env, fr fragResult, dfrag *mp4.Fragment, trex *mp4.TrexBox, samples [][]byte, wit string) {
	traf := dfrag.Moof.Traf
	trun, tfhd := traf.Trun, traf.Tfhd
	sg := fr.opts.sig
	if int(trun.SampleCount()) != len(samples) {
		fail("mp4.EncryptFragment", "trun-changed", wit, "sample count")
		return
	}
	if fr.frag.EncOptimize&mp4.OptimizeTrun == 0 {
		wantTrun := mp4.TrunDataOffsetPresentFlag | mp4.TrunSampleCompositionTimeOffsetPresentFlag
		wantTfhd := uint32(0)
		if sg.size == 0 {
			wantTrun |= mp4.TrunSampleSizePresentFlag
		}
		if sg.dur == 0 {
			wantTrun |= mp4.TrunSampleDurationPresentFlag
		}
		if sg.flags == 0 {
			wantTrun |= mp4.TrunSampleFlagsPresentFlag
		} else {
			wantTrun |= mp4.TrunFirstSampleFlagsPresentFlag
		}
		if sg.size == 1 {
			wantTfhd |= 0x10
		}
		if sg.dur == 1 {
			wantTfhd |= 0x08
		}
		if sg.flags == 1 {
			wantTfhd |= 0x20
		}
		if trun.Flags&0xf05 != wantTrun || tfhd.Flags&0x38 != wantTfhd {
			fail("mp4.EncryptFragment", "signalling-changed", wit, fmt.Sprintf("trun flags %#x (clear input %#x), tfhd default flags %#x (clear input %#x)",
				trun.Flags&0xf05, wantTrun, tfhd.Flags&0x38, wantTfhd))
			return
		}
	}
	var dSize, dDur, dFlags uint32
	if trex != nil {
		dSize, dDur, dFlags = trex.DefaultSampleSize, trex.DefaultSampleDuration, trex.DefaultSampleFlags
	}
	if tfhd.HasDefaultSampleSize() {
		dSize = tfhd.DefaultSampleSize
	}
	if tfhd.HasDefaultSampleDuration() {
		dDur = tfhd.DefaultSampleDuration
	}
	if tfhd.HasDefaultSampleFlags() {
		dFlags = tfhd.DefaultSampleFlags
	}
	first, hasFirst := trun.FirstSampleFlags()
	for i, s := range trun.Samples {
		size, dur, fl := dSize, dDur, dFlags
		if trun.HasSampleSize() {
			size = s.Size
		}
		if trun.HasSampleDuration() {
			dur = s.Dur
		}
		if trun.HasSampleFlags() {
			fl = s.Flags
		} else if i == 0 && hasFirst {
			fl = first
		}
		if size != uint32(len(samples[i])) || dur != wantDur(i, sg) || s.CompositionTimeOffset != int32((i%4)*500) || fl != wantFlags(i) {
			fail("mp4.EncryptFragment", "trun-changed", wit, fmt.Sprintf("sample %d metadata (size %d dur %d flags %#x cto %d) differs from the clear input (size %d dur %d flags %#x)",
				i, size, dur, fl, s.CompositionTimeOffset, len(samples[i]), wantDur(i, sg), wantFlags(i)))
			return
		}
	}
	if traf.Tfdt.BaseMediaDecodeTime() != 90000 {
		fail("mp4.EncryptFragment", "tfdt-changed", wit, "")
	}
}

// hevcSelf: the header sizes known from the writer against hevc.ParseSliceHeader (debugging aid).
func hevcSelf(e *env, seed uint64, n int) {
	r := hx.NewRng(seed)
	bad, tot, dep, nonfirst := 0, 0, 0, 0
	for i := 0; i < n; i++ {
		g := e.gen[r.Intn(len(e.gen))]
		s := genHevcSlice(g.cfg, r, 0, r.Pick(0, 1, 9, 16, 19, 20, 21), r.Intn(50))
		sh, err := hevc.ParseSliceHeader(s.nalu, g.sps, g.pps)
		tot++
		if s.dep {
			dep++
		}
		if !s.first {
			nonfirst++
		}
		if err != nil || int(sh.Size) != s.hdrSize {
			bad++
			if bad < 10 {
				fmt.Printf("BAD cfg=%+v nalu=%s want=%d got=%v err=%v\n", *g.cfg, hx.Hex(s.nalu), s.hdrSize, sh, err)
			}
		}
	}
	fmt.Printf("hevcself: %d slices, %d differ, %d dependent, %d non-first\n", tot, bad, dep, nonfirst)
}

func main() {
	if len(os.Args) < 2 {
		fmt.Fprintln(os.Stderr, "usage: c07 corr|search [flags]")
		os.Exit(2)
	}
	fs := flag.NewFlagSet(os.Args[1], flag.ExitOnError)
	seed := fs.Uint64("seed", 0, "")
	n := fs.Int("n", 500, "")
	big := fs.Int("big", 2, "corr: number of fragments that may hold samples with > 65535 bytes; search: 0 disables them")
	repo := fs.String("repo", "/repo", "")
	_ = fs.Parse(os.Args[2:])
	e := loadEnv(*repo)
	e.loadHevcGen(*seed, 8)
	switch os.Args[1] {
	case "hevcself":
		hevcSelf(e, *seed, *n)
	case "corr":
		corr(e, *seed, *n, *big)
	case "search":
		search(e, *seed, *n, *big)
	default:
		os.Exit(2)
	}
}
