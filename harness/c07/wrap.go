package main

// wrap.go - NAL unit length fields near 2^32 (finding C07-F6, /repo 2ef93b3).  Get(AVC|HEVC)ProtectRanges added
// position and length as uint32: the sum wrapped, which made the loop run forever (non-video NAL unit wrapping back),
// panic (video NAL unit: slice bounds) or return sub-sample entries adding up to 2^32 + size (wrap back INTO an
// already protected NAL unit).  The calls of this file run in a goroutine with a wall-clock budget: outcome class
// "hang" instead of a hung harness.

import (
	"encoding/binary"
	"time"

	"github.com/Eyevinn/mp4ff/mp4"
	"verifharness/hx"
)

func (e *env) protectRangesTimed(codec byte, sample []byte, scheme string) ([]mp4.SubSamplePattern, string) {
	type res struct {
		ssps  []mp4.SubSamplePattern
		class string
	}
	ch := make(chan res, 1)
	go func() {
		s, c := e.protectRanges(codec, sample, scheme)
		ch <- res{s, c}
	}()
	select {
	case x := <-ch:
		return x.ssps, x.class
	case <-time.After(3 * time.Second):
		return nil, "hang"
	}
}

func hdrByte(r *hx.Rng, codec byte, video bool) byte {
	if codec == 'a' {
		return avcHeader(r, video)
	}
	return hevcHeader(r, video)
}

// wrapSample: a sample of 4-byte-length-prefixed NAL units in which ONE length field is at / around the values whose
// uint32 sum with the position wraps.  kind (returned for the evidence):
//
//	0 non-video NAL unit whose end wraps to a position 0..len of the sample (the old loop revisits positions)
//	1 video NAL unit whose end wraps (old text: slice bounds panic)
//	2 a protected video NAL unit A, then a non-video NAL unit wrapping back to a length field planted INSIDE A in front
//	  of a video NAL header: the inner unit ends with the sample and is protected again (old text: accepted, 65538
//	  entries adding up to 2^32 + size)
//	3 no wrap, the controls next to the check: a NAL unit ending exactly with the sample / one byte behind it
//	4 length field 0xffffffff, 0x80000000, 2^32-pos-4 (sum exactly 2^32), 2^32-pos-5
func wrapSample(r *hx.Rng, codec byte) ([]byte, int) {
	kind := r.Intn(5)
	nalus := genVideoSampleCenc(r, codec, 0)
	k := r.Intn(len(nalus))
	pos := 0
	for j := 0; j < k; j++ {
		pos += 4 + len(nalus[j])
	}
	put := func(s []byte, at int, v uint64) { binary.BigEndian.PutUint32(s[at:at+4], uint32(v)) }
	switch kind {
	case 0, 1:
		nalus[k] = append([]byte{}, nalus[k]...)
		nalus[k][0] = hdrByte(r, codec, kind == 1)
		s := frame(nalus)
		target := r.Intn(len(s) + 1)
		if r.Intn(3) == 0 {
			target = r.Pick(0, pos, pos+4, len(s), len(s)-4)
		}
		put(s, pos, (1<<32)-uint64(pos+4)+uint64(target))
		return s, kind
	case 2:
		la := r.Range(150, 400)
		a := r.Bytes(la, nil)
		a[0] = hdrByte(r, codec, true)
		b := r.Bytes(r.Range(1, 40), nil)
		b[0] = hdrByte(r, codec, false)
		s := frame([][]byte{a, b})
		if r.Bool() { // bytes behind B that only the inner unit covers
			s = append(s, r.Bytes(r.Range(1, 200), nil)...)
		}
		p := r.Range(5, 60)
		put(s, p, uint64(len(s)-(p+4)))
		s[p+4] = hdrByte(r, codec, true)
		put(s, 4+la, (1<<32)-uint64(4+la+4)+uint64(p))
		return s, kind
	case 3:
		s := frame(nalus)
		put(s, pos, uint64(len(s)-(pos+4)+r.Pick(0, 1, 0, 2)))
		return s, kind
	default:
		s := frame(nalus)
		put(s, pos, uint64(r.Pick(0xffffffff, 0x80000000, (1<<32)-(pos+4), (1<<32)-(pos+5), (1<<32)-(pos+3), 0xfffffffc)))
		if r.Bool() {
			s[pos+4] = hdrByte(r, codec, r.Bool())
		}
		return s, kind
	}
}

var wrapKinds [5]int

// searchWrap: the property on such samples - a sample is refused or its entries partition it; never a hang or a panic.
func searchWrap(e *env, r *hx.Rng, n int) {
	for i := 0; i < n; i++ {
		codec := byte(r.Pick('a', 'h'))
		sample, kind := wrapSample(r, codec)
		sample = hx.Exact(sample)
		wrapKinds[kind]++
		evals++
		ssps, class := e.protectRangesTimed(codec, sample, "cenc")
		wit := "codec=" + string(codec) + " scheme=cenc sample=" + hx.Hex(sample)
		switch class {
		case "hang":
			fail("mp4.GetProtectRanges", "nalu-length-wrap-hang", wit, "Get(AVC|HEVC)ProtectRanges did not return within 3 s on a sample with a NAL unit length field near 2^32")
		case "panic":
			fail("mp4.GetProtectRanges", "nalu-length-wrap-panic", wit, "Get(AVC|HEVC)ProtectRanges panicked on a sample with a NAL unit length field near 2^32")
		case "ok":
			tot := uint64(0)
			for _, p := range ssps {
				tot += uint64(p.BytesOfClearData) + uint64(p.BytesOfProtectedData)
			}
			if tot != uint64(len(sample)) || len(ssps) == 0 {
				fail("mp4.GetProtectRanges", "nalu-length-wrap-partition", wit,
					"accepted sample whose sub-sample entries do not add up to the sample size")
			}
		}
	}
}
