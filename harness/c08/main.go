// Harness for C08 (lazy-mdat mode is observationally equal to in-memory mode).
//
//	c08 corr   -seed S -n N -exh L : cases + implementation observables for the model diff
//	c08 search -seed S -n N -exh L : evaluates the property itself on the implementation
//
// Case lines (tab separated), the driver keeps the last F line as context:
//
//	F  id filehex startPos zeof  memDec lazyDec
//	     memDec / lazyDec = o:<StartPos>:<LargeSize>:<len(Data)>:<lazyDataSize hex>:<Size() hex>:<reader pos after decode, hex> | e | E(of)
//	R  id start size oracle  memRead lazyRead memCopy lazyCopy       (o:<hex> | e | p)
//	H  id  lazyEncode  memEncode                                      (o:<hex> | e | p)
//	T  id sizes uniform chunkOffsets                                  (sample table view of the current file)
//	S  id valid a b workLen oracle chunks memCopySamples lazyCopySamples   (chunks = GetContainingChunks output nr:start:n;...)
//	W  id filehex zeof oracle tops memTop lazyTop                     (DecodeFile top-level view; tops = layout as built or -)
//	Q / V: EncodeSW on a FixedSliceWriter, see sw.go
package main

import (
	"bufio"
	"bytes"
	"flag"
	"fmt"
	"io"
	"os"
	"strconv"
	"strings"

	"github.com/Eyevinn/mp4ff/mp4"
	"verifharness/hx"
)

var out = bufio.NewWriterSize(os.Stdout, 1<<20)

// ---------------------------------------------------------------- oracle-driven ReadSeeker
// oRS is an io.ReadSeeker over a byte slice. Every Read of a non-empty buffer consumes one oracle
// entry k and returns max(1, min(k, len(p), remaining)) bytes; an exhausted oracle gives full reads.
// zeof selects the behaviour of Read on an empty buffer / at the end: true = bytes.Reader (EOF checked
// first), false = os.File (an empty buffer returns 0, nil).
type oRS struct {
	data  []byte
	pos   int64
	orc   []int
	zeof  bool
	eofd  bool // the read that reaches the end of the data returns its bytes TOGETHER with io.EOF (allowed by io.Reader)
	reads int
	zero  int // number of zero-length reads
	zrun  int // consecutive zero-length reads
}

func (r *oRS) Read(p []byte) (int, error) {
	r.reads++
	if len(p) == 0 {
		r.zero++
		r.zrun++
		if r.zrun > 4096 {
			// a caller that keeps issuing empty reads makes no progress: end the call (recorded as a panic outcome)
			panic("livelock: more than 4096 consecutive empty reads")
		}
		if !r.zeof {
			return 0, nil
		}
	} else {
		r.zrun = 0
	}
	if r.pos >= int64(len(r.data)) {
		return 0, io.EOF
	}
	if len(p) == 0 {
		return 0, nil
	}
	avail := int64(len(p))
	if rem := int64(len(r.data)) - r.pos; rem < avail {
		avail = rem
	}
	k := avail
	if len(r.orc) > 0 {
		k = int64(r.orc[0])
		r.orc = r.orc[1:]
		if k > avail {
			k = avail
		}
		if k < 1 {
			k = 1
		}
	}
	copy(p, r.data[r.pos:r.pos+k])
	r.pos += k
	if r.eofd && r.pos == int64(len(r.data)) {
		return int(k), io.EOF
	}
	return int(k), nil
}

// ReadAt: a caller's ReadSeeker may implement more than the library asks for (files, mmap-like and ranged readers are
// io.ReaderAt too). This one uses the freedom the io.ReaderAt contract leaves: a read that ends exactly at the end of
// the source returns len(p) together with io.EOF. Whatever the library does with it, the results must be the same.
func (r *oRS) ReadAt(p []byte, off int64) (int, error) {
	if off < 0 {
		return 0, fmt.Errorf("negative offset")
	}
	if off >= int64(len(r.data)) {
		return 0, io.EOF
	}
	n := copy(p, r.data[off:])
	if n < len(p) || off+int64(n) == int64(len(r.data)) {
		return n, io.EOF
	}
	return n, nil
}

func (r *oRS) Seek(off int64, whence int) (int64, error) {
	var abs int64
	switch whence {
	case io.SeekStart:
		abs = off
	case io.SeekCurrent:
		abs = r.pos + off
	case io.SeekEnd:
		abs = int64(len(r.data)) + off
	}
	if abs < 0 {
		return 0, fmt.Errorf("negative position")
	}
	r.pos = abs
	return abs, nil
}

// searchEOFWithData: in the search (not in the correspondence, whose model fixes the reader's behaviour) every second
// reader returns its last bytes together with io.EOF.
var searchEOFWithData bool
var rsCount int

func newRS(data []byte, pos int64, orc []int, zeof bool) *oRS {
	o := make([]int, len(orc))
	copy(o, orc)
	rsCount++
	return &oRS{data: data, pos: pos, orc: o, zeof: zeof, eofd: searchEOFWithData && (rsCount/2)%2 == 1}
}

// sink is a plain io.Writer (no ReaderFrom, so io.Copy uses its own buffer).
type sink struct{ b []byte }

func (s *sink) Write(p []byte) (int, error) { s.b = append(s.b, p...); return len(p), nil }

// ---------------------------------------------------------------- file synthesis
func be32(v uint32) []byte { return []byte{byte(v >> 24), byte(v >> 16), byte(v >> 8), byte(v)} }
func be64(v uint64) []byte { return append(be32(uint32(v>>32)), be32(uint32(v))...) }

func mdatBox(payload []byte, large bool) []byte {
	var b []byte
	if large {
		b = append(b, be32(1)...)
		b = append(b, "mdat"...)
		b = append(b, be64(uint64(16+len(payload)))...)
	} else {
		b = append(b, be32(uint32(8+len(payload)))...)
		b = append(b, "mdat"...)
	}
	return append(b, payload...)
}

func freeBox(n int, fill byte) []byte { // n >= 8
	b := append(be32(uint32(n)), "free"...)
	for len(b) < n {
		b = append(b, fill)
	}
	return b
}

// distinct bytes so that a wrong offset is visible
func payloadBytes(rng *hx.Rng, n int) []byte {
	p := make([]byte, n)
	base := rng.Intn(256)
	for i := range p {
		p[i] = byte(base + 7*i + i/13)
	}
	return p
}

// ---------------------------------------------------------------- implementation runs
func decRes(b mp4.Box, err error, rs *oRS) (string, *mp4.MdatBox) {
	if err == io.EOF {
		return "E", nil
	}
	if err != nil {
		return "e", nil
	}
	m, ok := b.(*mp4.MdatBox)
	if !ok {
		return "e", nil
	}
	l := 0
	if m.LargeSize {
		l = 1
	}
	return fmt.Sprintf("o:%d:%d:%d:%x:%x:%x", m.StartPos, l, len(m.Data), m.GetLazyDataSize(), m.Size(), uint64(rs.pos)), m
}

// decodeBoth decodes the mdat box at startPos in both modes with the real decoders.
func decodeBoth(file []byte, startPos int, orc []int, zeof bool) (string, *mp4.MdatBox, string, *mp4.MdatBox) {
	var sm, sl string
	var mm, ml *mp4.MdatBox
	if p := hx.Try(func() {
		rs := newRS(file, int64(startPos), orc, zeof)
		b, err := mp4.DecodeBox(uint64(startPos), rs)
		sm, mm = decRes(b, err, rs)
	}); p != "" {
		sm, mm = "p", nil
	}
	if p := hx.Try(func() {
		rs := newRS(file, int64(startPos), orc, zeof)
		b, err := mp4.DecodeBoxLazyMdat(uint64(startPos), rs)
		sl, ml = decRes(b, err, rs)
	}); p != "" {
		sl, ml = "p", nil
	}
	return sm, mm, sl, ml
}

func resStr(b []byte, err error, pan string) string {
	if pan != "" {
		return "p"
	}
	if err != nil {
		return "e"
	}
	return "o:" + hx.Hex(b)
}

func readData(m *mp4.MdatBox, file []byte, start, size int64, orc []int, zeof bool) string {
	var b []byte
	var err error
	p := hx.Try(func() {
		b, err = m.ReadData(start, size, newRS(file, 0, orc, zeof))
	})
	res := resStr(b, err, p)
	if p == "" && err == nil {
		appendToResult(m, file, start, size, b) // hygiene.go 2(b)
		// what earlier calls returned must still hold the bytes it held when it was returned (a reader that
		// re-uses one buffer for successive results hands out slices that later reads overwrite)
		for _, k := range keptResults {
			if !bytes.Equal(k.b, k.snap) {
				fail("MdatBox.ReadData", "earlier-result-overwritten", fmt.Sprintf("ReadData(%d,%d) after ReadData(%d,%d) on the same box; file=%s", start, size, k.start, k.size, hx.Hex(file[:minInt(len(file), 80)])),
					"a slice returned by an earlier ReadData call changed when ReadData was called again: "+hx.Hex(k.snap[:minInt(len(k.snap), 16)])+" became "+hx.Hex(k.b[:minInt(len(k.b), 16)]))
				keptResults = nil
				break
			}
		}
		if len(b) > 0 {
			if len(keptResults) >= 4 {
				keptResults = keptResults[1:]
			}
			keptResults = append(keptResults, keptResult{b: b, snap: append([]byte{}, b...), start: start, size: size})
		}
	}
	return res
}

type keptResult struct {
	b, snap     []byte
	start, size int64
}

var keptResults []keptResult

func copyData(m *mp4.MdatBox, file []byte, start, size int64, orc []int, zeof bool) string {
	w := &sink{}
	var err error
	var n int64
	p := hx.Try(func() {
		n, err = m.CopyData(start, size, newRS(file, 0, orc, zeof), w)
	})
	if p == "" && err == nil && n != int64(len(w.b)) {
		return "o:BADCOUNT"
	}
	return resStr(w.b, err, p)
}

func encode(m *mp4.MdatBox) string {
	w := &sink{}
	var err error
	p := hx.Try(func() { err = m.Encode(w) })
	return resStr(w.b, err, p)
}

func b2i(b bool) int {
	if b {
		return 1
	}
	return 0
}

// ---------------------------------------------------------------- generators
type mfile struct {
	file     []byte
	startPos int
	large    bool
	plen     int
}

func genFile(rng *hx.Rng, plen int, large bool) mfile {
	var pre []byte
	switch rng.Intn(3) {
	case 1:
		pre = freeBox(8+rng.Intn(9), 0xEE)
	case 2:
		pre = append(freeBox(8, 0), freeBox(9+rng.Intn(5), 0xDD)...)
	}
	f := append([]byte{}, pre...)
	f = append(f, mdatBox(payloadBytes(rng, plen), large)...)
	if rng.Bool() {
		f = append(f, freeBox(8+rng.Intn(6), 0xCC)...)
	}
	return mfile{hx.Exact(f), len(pre), large, plen}
}

func genOracle(rng *hx.Rng) []int {
	switch rng.Intn(4) {
	case 0:
		return nil
	case 1:
		return []int{1, 1, 1, 1, 1, 1, 1, 1, 1, 1, 1, 1, 1, 1, 1, 1, 1, 1, 1, 1, 1, 1, 1, 1, 1, 1, 1, 1, 1, 1, 1, 1}
	}
	n := rng.Range(1, 12)
	o := make([]int, n)
	for i := range o {
		o[i] = rng.Pick(0, 1, 1, 2, 3, 5, 8, 100)
	}
	return o
}

var caseID int

func nextID() string { caseID++; return strconv.Itoa(caseID) }

// emitFile prints the F line, returns the two decoded boxes (nil when decode failed).
func emitFile(mf mfile, orc []int, zeof bool) (*mp4.MdatBox, *mp4.MdatBox) {
	sm, mm, sl, ml := decodeBoth(mf.file, mf.startPos, orc, zeof)
	fmt.Fprintf(out, "F\t%s\t%s\t%d\t%d\t%s\t%s\t%s\n", nextID(), hx.Hex(mf.file), mf.startPos, b2i(zeof), hx.Csv(orc), sm, sl)
	return mm, ml
}

func emitRange(mf mfile, mm, ml *mp4.MdatBox, start, size int64, orc []int, zeof bool) {
	fmt.Fprintf(out, "R\t%s\t%d\t%d\t%s\t%s\t%s\t%s\t%s\n", nextID(), start, size, hx.Csv(orc),
		readData(mm, mf.file, start, size, orc, zeof), readData(ml, mf.file, start, size, orc, zeof),
		copyData(mm, mf.file, start, size, orc, zeof), copyData(ml, mf.file, start, size, orc, zeof))
}

func emitEncode(mm, ml *mp4.MdatBox) {
	fmt.Fprintf(out, "H\t%s\t%s\t%s\n", nextID(), encode(ml), encode(mm))
}

func corr(seed uint64, n, exh int) {
	rng := hx.NewRng(seed)
	// exhaustive: every (start,size) with start in [pstart-2, pend+2], size in [-1, plen+2]
	for i := 0; i < n; i++ {
		plen := rng.Range(0, exh)
		if i < 8 {
			plen = []int{0, 1, 2, 3, 4, 5, exh, exh}[i]
		}
		mf := genFile(rng, plen, i%3 == 1)
		zeof := i%2 == 0
		mm, ml := emitFile(mf, genOracle(rng), zeof)
		if mm == nil || ml == nil {
			continue
		}
		emitEncode(mm, ml)
		emitEncodeSW(i, mm, ml)
		pstart := int64(mf.startPos + 8)
		if mf.large {
			pstart += 8
		}
		orc := genOracle(rng)
		for start := pstart - 2; start <= pstart+int64(plen)+2; start++ {
			for size := int64(-1); size <= int64(plen)+2; size++ {
				emitRange(mf, mm, ml, start, size, orc, zeof)
			}
		}
	}
	// larger mdats (over the 32 KiB copy buffer now and then), random ranges
	for i := 0; i < n/4+1; i++ {
		plen := rng.Pick(100, 1000, 5000, 32768, 32769, 40000, 70000)
		mf := genFile(rng, plen, rng.Bool())
		zeof := rng.Bool()
		mm, ml := emitFile(mf, genOracle(rng), zeof)
		if mm == nil || ml == nil {
			continue
		}
		pstart := int64(mf.startPos + 8)
		if mf.large {
			pstart += 8
		}
		for j := 0; j < 6; j++ {
			var start, size int64
			switch j {
			case 0:
				start, size = pstart, int64(plen)
			case 1:
				size = int64(rng.Range(1, plen))
				start = pstart + int64(plen) - size
			default:
				start = pstart + int64(rng.Intn(plen))
				size = int64(rng.Range(0, plen-int(start-pstart)))
			}
			o := genOracle(rng)
			if rng.Intn(3) == 0 {
				o = []int{rng.Range(1, 40000), rng.Range(1, 40000), 32768, 1}
			}
			emitRange(mf, mm, ml, start, size, o, zeof)
		}
	}
	// malformed stream: truncated boxes, bad size fields
	for i := 0; i < n/2+1; i++ {
		mf := genFile(rng, rng.Range(0, 12), rng.Bool())
		f := append([]byte{}, mf.file...)
		switch rng.Intn(6) {
		case 0:
			f = f[:mf.startPos+rng.Intn(len(f)-mf.startPos+1)]
		case 1:
			f[mf.startPos+3] = byte(rng.Intn(20))
		case 2:
			if mf.large {
				f[mf.startPos+15] = byte(rng.Intn(40))
			} else {
				f[mf.startPos+3] += byte(rng.Intn(9))
			}
		case 3:
			f[mf.startPos+rng.Intn(4)] = byte(rng.Intn(3))
		case 4:
			f = f[:mf.startPos]
		case 5: // 64-bit size field >= 2^63 (int64 conversions in both decoders) or just huge
			f[mf.startPos], f[mf.startPos+1], f[mf.startPos+2], f[mf.startPos+3] = 0, 0, 0, 1
			for len(f) < mf.startPos+16 {
				f = append(f, 0)
			}
			f[mf.startPos+8] = byte(rng.Pick(0x80, 0xff, 0x7f, 0x00, 0xb8))
			f[mf.startPos+9] = byte(rng.Intn(256))
		}
		mf.file = hx.Exact(f)
		emitFile(mf, genOracle(rng), rng.Bool())
	}
	corrSamples(rng, n/2+1)
	corrWalk(rng, n/2+1)
	corrMultiMdat(rng, n/2+1)
	corrFrag(rng, n+10)
	corrEncodeFile(rng, n/2+2)
	corrInter(rng, n/3+2)
	corrSparse(rng, n/4+2)
	corrEncodeFileSW(rng, n/2+2)
	corrLazyWriter(rng, n/2+4)
}

// ---------------------------------------------------------------- search: the property itself
var evals int

func fail(site, class, witness, desc string) {
	fmt.Fprintf(out, "FAIL\t%s\t%s\t%s\t%s\n", site, class, witness, desc)
}

var repoDir = new(string)

func search(seed uint64, n, exh int) {
	searchEOFWithData = true
	inSearch = true
	rng := hx.NewRng(seed ^ 0xC08)
	for i := 0; i < n; i++ {
		plen := rng.Range(1, exh)
		if i < 6 {
			plen = []int{1, 2, 3, 4, exh, exh}[i]
		}
		if i%10 == 9 {
			plen = rng.Pick(1000, 32768, 33000, 70000)
		}
		mf := genFile(rng, plen, i%3 == 1)
		zeof := i%2 == 0
		_, mm, _, ml := decodeBoth(mf.file, mf.startPos, genOracle(rng), zeof)
		evals++
		if mm == nil || ml == nil {
			fail("DecodeBox/DecodeBoxLazyMdat", "decode-failed", fmt.Sprintf("file=%s startPos=%d", hx.Hex(mf.file), mf.startPos), "well-formed mdat box does not decode in one of the modes")
			continue
		}
		// header + payload = original box
		box := mf.file[mf.startPos : mf.startPos+len(mdatBox(nil, mf.large))+plen]
		hdr := &sink{}
		if err := ml.Encode(hdr); err != nil || !bytes.Equal(append(append([]byte{}, hdr.b...), box[len(box)-plen:]...), box) || len(hdr.b) != len(box)-plen {
			fail("MdatBox.Encode(lazy)", "header-plus-payload", fmt.Sprintf("file=%s startPos=%d", hx.Hex(mf.file), mf.startPos), "encoding the lazily decoded mdat plus the payload differs from the original box")
		}
		if ml.Size() != mm.Size() || ml.StartPos != mm.StartPos || ml.HeaderSize() != mm.HeaderSize() || ml.Size() != uint64(len(box)) {
			fail("MdatBox.Size", "size-differs", fmt.Sprintf("file=%s startPos=%d", hx.Hex(mf.file), mf.startPos), "Size/StartPos/HeaderSize differ between the modes")
		}
		searchMdatSW(mf, box, plen, mm, ml)
		pstart := int64(mf.startPos + len(box) - plen)
		check := func(start, size int64) {
			orc := genOracle(rng)
			want := mf.file[start : start+size]
			evals++
			wit := fmt.Sprintf("mdat payload %d bytes at file offset %d (large=%v): start=%d size=%d (range ends %d bytes before the end of the payload) oracle=%s file=%s",
				plen, pstart, mf.large, start, size, pstart+int64(plen)-start-size, hx.Csv(orc), hx.Hex(mf.file[:minInt(len(mf.file), 80)]))
			class := "interior-range"
			if start+size == pstart+int64(plen) {
				class = "range-ending-at-last-byte"
			}
			first := [4]string{readData(mm, mf.file, start, size, orc, zeof), readData(ml, mf.file, start, size, orc, zeof),
				copyData(mm, mf.file, start, size, orc, zeof), copyData(ml, mf.file, start, size, orc, zeof)}
			if evals%4 == 0 {
				reaskAfterFailure(mm, ml, mf.file, start, size, orc, zeof, first, wit) // hygiene.go 3
			}
			for _, v := range []struct {
				site string
				got  string
			}{
				{"MdatBox.ReadData(in-memory)", first[0]},
				{"MdatBox.ReadData(lazy)", first[1]},
				{"MdatBox.CopyData(in-memory)", first[2]},
				{"MdatBox.CopyData(lazy)", first[3]},
			} {
				if v.got != "o:"+hx.Hex(want) {
					got := v.got
					if len(got) > 40 {
						got = got[:40] + "..."
					}
					fail(v.site, class, wit, "valid range does not return the file slice: got "+got)
				}
			}
		}
		if plen <= exh {
			for s := 0; s < plen; s++ {
				for z := 0; s+z <= plen; z++ {
					check(pstart+int64(s), int64(z))
				}
			}
		} else {
			check(pstart, int64(plen))
			for j := 0; j < 8; j++ {
				s := rng.Intn(plen)
				z := rng.Range(0, plen-s)
				if j%2 == 0 {
					z = plen - s
				}
				check(pstart+int64(s), int64(z))
			}
		}
	}
	searchSamples(rng, n/2+1)
	searchFragmented(rng, n/2+1)
	searchRealFiles(rng, n/4+2, *repoDir)
	evals += searchMultiMdat(rng, n+50)
	searchFragRound2(rng, n+20)
	searchLazyWriter(rng, n/2+5)
	searchInter(rng, n/2+5)
	searchSparse(rng, n/4+3)
	searchEncodeFileSW(rng, n/2+5)
	searchHeaderLimits(rng, n/2+8)
	searchOffsetReader(rng, n/2+10)
	fmt.Fprintf(out, "EVALS\t%d\n", evals)
}

func minInt(a, b int) int {
	if a < b {
		return a
	}
	return b
}

func main() {
	if len(os.Args) < 2 {
		fmt.Fprintln(os.Stderr, "usage: c08 corr|search ...")
		os.Exit(2)
	}
	fs := flag.NewFlagSet(os.Args[1], flag.ExitOnError)
	seed := fs.Uint64("seed", 0, "seed")
	n := fs.Int("n", 10, "number of files")
	exh := fs.Int("exh", 12, "max payload length of exhaustively explored mdats")
	repoDir = fs.String("repo", "/repo", "repository root (for testdata)")
	_ = fs.Parse(os.Args[2:])
	defer out.Flush()
	switch os.Args[1] {
	case "corr":
		corr(*seed, *n, *exh)
	case "search":
		search(*seed, *n, *exh)
	case "hookcases":
		hookCases(*seed, *n)
	default:
		fmt.Fprintln(os.Stderr, "unknown sub-command "+os.Args[1])
		out.Flush()
		os.Exit(2)
	}
	_ = strings.TrimSpace
}
