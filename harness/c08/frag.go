package main

// Second round: fragmented files in both decode modes (File.AddChild bookkeeping: segments, fragments, which
// mdat goes with which moof), the sample-reading API on lazily decoded fragments, File.Encode of lazily
// decoded files and the lazy writer pattern.
//
//	G  id filehex zeof oracle onmoof aux tops memState lazyState
//	     aux  = what the common decoders return for moov / sidx, by box start position:
//	            <pos hex>:M:<stts entries | ->  and  <pos hex>:S:<anchor hex>:<type.size hex,...>
//	     state = o:F<isFragmented>|I<init children>|M<File.Mdat key>|X<#Sidxs>|R<mfra>|C<#children>|S<segments>  | e | p
//	E  id filehex zeof oracle tops memEncode lazyEncode lazySplice        (children encoded in order)

import (
	"bytes"
	"fmt"
	"io"
	"strings"

	"github.com/Eyevinn/mp4ff/mp4"
	"verifharness/hx"
)

type fragSample struct {
	off  int // absolute file offset
	data []byte
}

type fragInfo struct {
	moofPos, mdatPos int
	large            bool
	plen             int
	samples          []fragSample
	dataOffsetOK     bool // trun.DataOffset points at the first sample
}

type fragFile struct {
	file    []byte
	tops    string
	frags   []fragInfo
	regular bool // init + ([styp] [emsg] moof mdat)* : decodes in both modes
	onmoof  bool
}

type topAcc struct {
	b    []byte
	tops []string
}

func (t *topAcc) add(name string, box []byte) {
	large := 0
	pl := len(box) - 8
	if len(box) >= 16 && box[0] == 0 && box[1] == 0 && box[2] == 0 && box[3] == 1 {
		large, pl = 1, len(box)-16
	}
	t.tops = append(t.tops, fmt.Sprintf("%s:%d:%d", name, large, pl))
	t.b = append(t.b, box...)
}

func fragMoov(rng *hx.Rng, fragmented bool) []byte {
	init := mp4.CreateEmptyInit()
	init.AddEmptyTrack(1000, "video", "und")
	if !fragmented {
		stts := init.Moov.Trak.Mdia.Minf.Stbl.Stts
		stts.SampleCount = []uint32{1}
		stts.SampleTimeDelta = []uint32{1}
	}
	return encBox(init.Moov)
}

// genFragFile synthesizes a fragmented file. wild = also irregular arrangements (box between moof and mdat,
// mdat without moof, two mdat after one moof, emsg after mdat, sidx, mfra, progressive moov followed by moof).
func genFragFile(rng *hx.Rng, wild bool) fragFile {
	var ff fragFile
	ff.regular = !wild
	t := &topAcc{}
	if !wild || rng.Intn(4) != 0 {
		t.add("ftyp", encBox(mp4.NewFtyp("iso6", 0, []string{"iso6"})))
	}
	if wild && rng.Intn(5) == 0 {
		t.add("free", freeBox(8+rng.Intn(4), 0x33))
	}
	moovFrag := !wild || rng.Intn(5) != 0
	if !wild || rng.Intn(8) != 0 {
		t.add("moov", fragMoov(rng, moovFrag))
	}
	if wild && rng.Intn(3) == 0 { // top-level sidx before the first segment; anchor/refs sometimes consistent
		sx := mp4.CreateSidx(0)
		sx.ReferenceID = 1
		sx.Timescale = 1000
		for k := rng.Range(1, 3); k > 0; k-- {
			sx.SidxRefs = append(sx.SidxRefs, mp4.SidxRef{ReferencedSize: uint32(rng.Pick(100, 149, 160, 300)), SubSegmentDuration: 10,
				ReferenceType: uint8(b2i(rng.Intn(6) == 0)), StartsWithSAP: 1})
		}
		t.add("sidx", encBox(sx))
	}
	ff.onmoof = rng.Intn(3) == 0
	dt := uint64(0)
	seq := uint32(1)
	nSeg := rng.Range(1, 3)
	for s := 0; s < nSeg; s++ {
		if rng.Intn(2) == 0 {
			t.add("styp", encBox(mp4.NewMediaSegment().Styp))
		}
		if wild && rng.Intn(6) == 0 {
			sx := mp4.CreateSidx(dt)
			sx.SidxRefs = []mp4.SidxRef{{ReferencedSize: 100, SubSegmentDuration: 10}}
			t.add("sidx", encBox(sx))
		}
		for fr := rng.Range(1, 3); fr > 0; fr-- {
			for e := 0; e < 2; e++ {
				if rng.Intn(5) == 0 {
					t.add("emsg", encBox(&mp4.EmsgBox{Version: 1, TimeScale: 1000, SchemeIDURI: "urn:x", Value: "1", MessageData: []byte{byte(e)}}))
				}
			}
			frag, err := mp4.CreateFragment(seq, 1)
			if err != nil {
				panic(err)
			}
			seq++
			var fi fragInfo
			nSamp := rng.Range(1, 4)
			emptyMdat := rng.Intn(6) == 0
			var payload []byte
			var datas [][]byte
			if emptyMdat {
				nSamp = 0
			}
			for k := 0; k < nSamp; k++ {
				n := rng.Range(1, 9)
				if rng.Intn(8) == 0 {
					n = 0
				}
				data := rng.Bytes(n, nil)
				frag.AddFullSample(mp4.FullSample{Sample: mp4.NewSample(0, 10, uint32(len(data)), 0), DecodeTime: dt, Data: data})
				dt += 10
				datas = append(datas, data)
				payload = append(payload, data...)
			}
			fi.large = rng.Intn(3) == 0
			gap := 0
			if wild && rng.Intn(8) == 0 { // payload starts with bytes of no sample (data offset points further in)
				gap = rng.Range(1, 3)
				payload = append(bytes.Repeat([]byte{0xEE}, gap), payload...)
			}
			hl := 8
			if fi.large {
				hl = 16
			}
			moof := frag.Moof
			moof.Traf.Trun.DataOffset = int32(int(moof.Size()) + hl + gap)
			fi.dataOffsetOK = true
			if nSamp == 0 {
				moof.Traf.Trun.DataOffset = int32(int(moof.Size()) + hl)
			}
			mb := encBox(moof)
			fi.moofPos = len(t.b)
			t.add("moof", mb)
			irregular := 0
			if wild {
				irregular = rng.Pick(0, 0, 0, 0, 0, 1, 2, 3, 4)
			}
			if irregular == 1 { // a box between moof and mdat
				t.add("free", freeBox(8+rng.Intn(3), 0x44))
			}
			if irregular != 2 { // 2: moof without mdat
				fi.mdatPos = len(t.b)
				fi.plen = len(payload)
				o := fi.mdatPos + hl + gap
				for _, d := range datas {
					fi.samples = append(fi.samples, fragSample{o, d})
					o += len(d)
				}
				t.add("mdat", mdatBox(payload, fi.large))
				ff.frags = append(ff.frags, fi)
			}
			if irregular == 3 { // a second mdat right after the first
				t.add("mdat", mdatBox(payloadBytes(rng, rng.Intn(3)), rng.Bool()))
			}
			if irregular == 4 { // emsg after the mdat
				t.add("emsg", encBox(&mp4.EmsgBox{Version: 1, TimeScale: 1000, SchemeIDURI: "urn:y", Value: "2"}))
			}
			if irregular != 0 {
				ff.regular = false
			}
		}
	}
	if wild && rng.Intn(6) == 0 {
		t.add("mdat", mdatBox(payloadBytes(rng, rng.Intn(3)), false)) // mdat not preceded by moof
		ff.regular = false
	}
	if wild && rng.Intn(6) == 0 {
		t.add("mfra", append(be32(8), "mfra"...))
	}
	ff.file = hx.Exact(t.b)
	ff.tops = strings.Join(t.tops, ";")
	return ff
}

// auxString decodes every top-level moov / sidx box on its own (the common decoder) and prints what
// DecodeFile / AddChild read out of it.
func auxString(file []byte) string {
	var ss []string
	bounds := topBounds(file)
	for i := 0; i+1 < len(bounds); i++ {
		pos := bounds[i]
		if pos+8 > len(file) {
			break
		}
		name := string(file[pos+4 : pos+8])
		if name != "moov" && name != "sidx" {
			continue
		}
		var b mp4.Box
		var err error
		if p := hx.Try(func() { b, err = mp4.DecodeBox(uint64(pos), bytes.NewReader(file[pos:bounds[i+1]])) }); p != "" || err != nil {
			continue
		}
		switch x := b.(type) {
		case *mp4.MoovBox:
			e := "-"
			if x.Trak != nil && x.Trak.Mdia != nil && x.Trak.Mdia.Minf != nil && x.Trak.Mdia.Minf.Stbl != nil && x.Trak.Mdia.Minf.Stbl.Stts != nil {
				e = fmt.Sprintf("%d", len(x.Trak.Mdia.Minf.Stbl.Stts.SampleCount))
			}
			ss = append(ss, fmt.Sprintf("%x:M:%s", pos, e))
		case *mp4.SidxBox:
			var rs []string
			for _, r := range x.SidxRefs {
				rs = append(rs, fmt.Sprintf("%d.%x", r.ReferenceType, r.ReferencedSize))
			}
			ss = append(ss, fmt.Sprintf("%x:S:%x:%s", pos, x.AnchorPoint, strings.Join(rs, ",")))
		}
	}
	if len(ss) == 0 {
		return "-"
	}
	return strings.Join(ss, ";")
}

var keyWithLazy = true

func keyString(m *mp4.MdatBox) string {
	if m == nil {
		return "-"
	}
	size := m.Size()
	s := fmt.Sprintf("%x.%d.%x.%x.%x", m.StartPos, b2i(m.LargeSize), size, m.PayloadAbsoluteOffset(), size-m.HeaderSize())
	if keyWithLazy {
		s += fmt.Sprintf(".%d", b2i(m.IsLazy()))
	}
	return s
}

func typesString(bs []mp4.Box) string {
	ss := make([]string, len(bs))
	for i, b := range bs {
		ss[i] = hx.Hex([]byte(b.Type()))
	}
	return strings.Join(ss, "+")
}

// stateString is the File DecodeFile built, as the API shows it.
func stateString(f *mp4.File, e string) string {
	if f == nil {
		return e
	}
	init := "-"
	if f.Init != nil {
		init = typesString(f.Init.Children)
	}
	var segs []string
	for _, s := range f.Segments {
		var frs []string
		for _, fr := range s.Fragments {
			moof := "-"
			if fr.Moof != nil {
				moof = fmt.Sprintf("%x", fr.Moof.StartPos)
			}
			frs = append(frs, fmt.Sprintf("%x,%s,%s,%x,%s", fr.StartPos, moof, keyString(fr.Mdat), len(fr.Emsgs), typesString(fr.Children)))
		}
		segs = append(segs, fmt.Sprintf("%d,%x,%x[%s]", b2i(s.Styp != nil), s.StartPos, len(s.Sidxs), strings.Join(frs, "/")))
	}
	return fmt.Sprintf("o:F%d|I%s|M%s|X%d|R%d|C%d|S%s", b2i(f.IsFragmented()), init, keyString(f.Mdat), len(f.Sidxs), b2i(f.Mfra != nil),
		len(f.Children), strings.Join(segs, ";"))
}

func decodeFileFlags(file []byte, orc []int, zeof bool, onmoof bool) (fm, fl *mp4.File, em, el string) {
	flags := mp4.DecNoFlags
	if onmoof {
		flags = mp4.DecStartOnMoof
	}
	if p := hx.Try(func() {
		var err error
		fm, err = mp4.DecodeFile(newRS(file, 0, orc, zeof), mp4.WithDecodeFlags(flags))
		if err != nil {
			em, fm = "e", nil
		}
	}); p != "" {
		em, fm = "p", nil
	}
	if p := hx.Try(func() {
		var err error
		fl, err = mp4.DecodeFile(newRS(file, 0, orc, zeof), mp4.WithDecodeMode(mp4.DecModeLazyMdat), mp4.WithDecodeFlags(flags))
		if err != nil {
			el, fl = "e", nil
		}
	}); p != "" {
		el, fl = "p", nil
	}
	return
}

func emitState(rng *hx.Rng, file []byte, tops string, zeof, onmoof bool) {
	orc := genOracle(rng)
	fm, fl, em, el := decodeFileFlags(file, orc, zeof, onmoof)
	fmt.Fprintf(out, "G\t%s\t%s\t%d\t%s\t%d\t%s\t%s\t%s\t%s\n", nextID(), hx.Hex(file), b2i(zeof), hx.Csv(orc), b2i(onmoof),
		auxString(file), tops, stateString(fm, em), stateString(fl, el))
}

func corrFrag(rng *hx.Rng, n int) {
	for i := 0; i < n; i++ {
		ff := genFragFile(rng, i%2 == 1)
		emitState(rng, ff.file, ff.tops, i%3 == 0, ff.onmoof)
		if i%5 == 4 { // truncated somewhere
			cut := rng.Intn(len(ff.file))
			emitState(rng, hx.Exact(ff.file[:cut]), "-", rng.Bool(), ff.onmoof)
		}
	}
	// progressive files through the same machine (File.Mdat selection, several mdat boxes)
	for i := 0; i < n/3+1; i++ {
		pf := genProg(rng, progOpts{maxChunks: 3, maxSpc: 2, maxSize: 4})
		emitState(rng, pf.file, pf.tops, rng.Bool(), rng.Bool())
		f, _ := genMultiMdat(rng)
		emitState(rng, f, "-", rng.Bool(), false)
	}
}

// ---------------------------------------------------------------- File.Encode of both decodings
func encodeFile(f *mp4.File) string {
	if f == nil {
		return "e"
	}
	w := &sink{}
	var err error
	p := hx.Try(func() { err = f.Encode(w) })
	return resStr(w.b, err, p)
}

// spliceFile is the writer used with a lazily decoded file: every child is encoded in order; an mdat with a
// payload is followed by CopyData of its whole payload.
func spliceFile(f *mp4.File, file []byte, orc []int, zeof bool) string {
	if f == nil {
		return "e"
	}
	w := &sink{}
	var err error
	p := hx.Try(func() {
		for _, c := range f.Children {
			if err = c.Encode(w); err != nil {
				return
			}
			if m, ok := c.(*mp4.MdatBox); ok {
				if ps := m.Size() - m.HeaderSize(); ps > 0 {
					if _, err = m.CopyData(int64(m.PayloadAbsoluteOffset()), int64(ps), newRS(file, 0, orc, zeof), w); err != nil {
						return
					}
				}
			}
		}
	})
	return resStr(w.b, err, p)
}

func emitEncodeFile(rng *hx.Rng, file []byte, tops string, zeof bool, boxTree bool) {
	orc := genOracle(rng)
	fm, fl, _, _ := decodeFileBoth(file, orc, zeof)
	if fm == nil && fl == nil {
		return // refused in both modes (two non-empty mdat boxes): nothing to encode; the refusal itself is the G / M lines' business
	}
	if boxTree {
		if fm != nil {
			fm.FragEncMode = mp4.EncModeBoxTree
		}
		if fl != nil {
			fl.FragEncMode = mp4.EncModeBoxTree
		}
	}
	fmt.Fprintf(out, "E\t%s\t%s\t%d\t%s\t%s\t%s\t%s\t%s\n", nextID(), hx.Hex(file), b2i(zeof), hx.Csv(orc), tops,
		encodeFile(fm), encodeFile(fl), spliceFile(fl, file, orc, zeof))
}

func corrEncodeFile(rng *hx.Rng, n int) {
	for i := 0; i < n; i++ {
		pf := genProg(rng, progOpts{maxChunks: 3, maxSpc: 2, maxSize: 4})
		emitEncodeFile(rng, pf.file, pf.tops, i%2 == 0, false)
		if i%3 == 0 {
			f, _ := genMultiMdat(rng)
			emitEncodeFile(rng, f, "-", rng.Bool(), false)
		}
		if i%3 == 1 {
			ff := genFragFile(rng, false)
			emitEncodeFile(rng, ff.file, ff.tops, rng.Bool(), true)
		}
	}
}

// elideMdat removes the payload of every top-level mdat box of a well-formed byte stream.
func elideMdat(b []byte) []byte {
	var o []byte
	bounds := topBounds(b)
	for i := 0; i+1 < len(bounds); i++ {
		box := b[bounds[i]:bounds[i+1]]
		if len(box) >= 8 && string(box[4:8]) == "mdat" {
			hl := 8
			if box[3] == 1 && box[0] == 0 && box[1] == 0 && box[2] == 0 {
				hl = 16
			}
			box = box[:hl]
		}
		o = append(o, box...)
	}
	return o
}

// ---------------------------------------------------------------- search: fragmented files, reading, encoding
func searchFragRound2(rng *hx.Rng, n int) {
	for i := 0; i < n; i++ {
		ff := genFragFile(rng, i%3 == 2)
		zeof := i%2 == 0
		orc := genOracle(rng)
		fm, fl, em, el := decodeFileFlags(ff.file, orc, zeof, ff.onmoof)
		evals++
		w := "file=" + shortHex(ff.file) + fmt.Sprintf(" DecStartOnMoof=%v", ff.onmoof)
		// same outcome, same structure (the lazy flag of non-empty mdat handles is the one allowed difference)
		sm, sl := stripLazy(fm, em), stripLazy(fl, el)
		if sm != sl {
			fail("DecodeFile(fragmented)", "file-structure-differs", w, "in memory "+clip200(sm)+" lazy "+clip200(sl))
			continue
		}
		if ff.regular && (fm == nil || fl == nil) {
			fail("DecodeFile(fragmented)", "decode-failed", w, "well-formed fragmented file does not decode: normal="+em+" lazy="+el)
			continue
		}
		if fm == nil || fl == nil {
			continue
		}
		if ff.regular {
			// ground truth of the pairing: fragment k holds moof k and the mdat the generator put behind it
			k := 0
			for _, s := range fl.Segments {
				for _, fr := range s.Fragments {
					if k < len(ff.frags) && fr.Moof != nil && fr.Mdat != nil {
						g := ff.frags[k]
						if int(fr.Moof.StartPos) != g.moofPos || int(fr.Mdat.StartPos) != g.mdatPos || fr.Mdat.LargeSize != g.large ||
							int(fr.Mdat.Size()-fr.Mdat.HeaderSize()) != g.plen || fr.Mdat.IsLazy() != (g.plen > 0) {
							fail("File.AddChild(fragmented)", "moof-mdat-pairing", w, fmt.Sprintf("fragment %d: moof@%d mdat@%d payload %d lazy %v, generator: moof@%d mdat@%d payload %d",
								k, fr.Moof.StartPos, fr.Mdat.StartPos, fr.Mdat.Size()-fr.Mdat.HeaderSize(), fr.Mdat.IsLazy(), g.moofPos, g.mdatPos, g.plen))
						}
					}
					k++
				}
			}
			if k != len(ff.frags) {
				fail("File.AddChild(fragmented)", "moof-mdat-pairing", w, fmt.Sprintf("%d fragments, generator made %d", k, len(ff.frags)))
			}
		}
		var trex *mp4.TrexBox
		if fm.Init != nil && fm.Init.Moov != nil && fm.Init.Moov.Mvex != nil {
			trex = fm.Init.Moov.Mvex.Trex
		}
		// reading the samples of every fragment in both modes
		k := 0
		for si, s := range fl.Segments {
			for fi, frl := range s.Fragments {
				if si >= len(fm.Segments) || fi >= len(fm.Segments[si].Fragments) {
					continue
				}
				frm := fm.Segments[si].Fragments[fi]
				if frl.Moof == nil || frl.Mdat == nil || frm.Mdat == nil || frl.Moof.Traf == nil || frl.Moof.Traf.Trun == nil {
					continue
				}
				var truth []fragSample
				for _, g := range ff.frags {
					if g.mdatPos == int(frl.Mdat.StartPos) && g.moofPos == int(frl.Moof.StartPos) {
						truth = g.samples
					}
				}
				k++
				searchFragmentRead(w+fmt.Sprintf(" segment %d fragment %d", si, fi), ff.file, frm, frl, trex, truth, genOracle(rng), zeof)
			}
		}
		// File.Encode (segment mode, then box-tree mode): the lazy decoding writes what the in-memory decoding writes
		// minus the mdat payloads; Size() agrees
		for _, mode := range []mp4.EncFragFileMode{mp4.EncModeSegment, mp4.EncModeBoxTree} {
			fm.FragEncMode, fl.FragEncMode = mode, mode
			evals++
			a, b := encodeFile(fm), encodeFile(fl)
			checkEncodeSW(w, mode, fm, a, "in-memory") // sw.go
			checkEncodeSW(w, mode, fl, b, "lazy")
			if !strings.HasPrefix(a, "o:") || !strings.HasPrefix(b, "o:") {
				if a != b {
					fail("File.Encode(lazy)", "encode-outcome-differs", w, fmt.Sprintf("mode %d: in memory %s lazy %s", mode, clip(a), clip(b)))
				}
				continue
			}
			ab, _ := hexBytes(a[2:])
			if b[2:] != hx.Hex(elideMdat(ab)) {
				fail("File.Encode(lazy)", "not-header-only", w, fmt.Sprintf("mode %d: lazy Encode is not the in-memory Encode with the mdat payloads left out: %s vs %s", mode, clip200(b), clip200(a)))
			}
			if fm.Size() != fl.Size() || (fm.Size() != uint64(len(ab))) {
				fail("File.Size(lazy)", "size-differs", w, fmt.Sprintf("mode %d: Size() in memory %d lazy %d, in-memory Encode wrote %d", mode, fm.Size(), fl.Size(), len(ab)))
			}
		}
	}
}

func hexBytes(s string) ([]byte, error) {
	b := make([]byte, len(s)/2)
	for i := range b {
		var v int
		_, err := fmt.Sscanf(s[2*i:2*i+2], "%02x", &v)
		if err != nil {
			return nil, err
		}
		b[i] = byte(v)
	}
	return b, nil
}

func clip200(s string) string {
	if len(s) > 300 {
		return s[:300] + "..."
	}
	return s
}

func stripLazy(f *mp4.File, e string) string {
	keyWithLazy = false
	defer func() { keyWithLazy = true }()
	return stateString(f, e)
}

// searchFragmentRead: one fragment in both modes. In memory GetFullSamples gives the samples' bytes; on the lazy
// fragment it must not panic or return other bytes (an error is the documented way out); GetSampleInterval gives
// the same offset / size in both modes and ReadData / CopyData at that place return the samples' bytes.
func searchFragmentRead(w string, file []byte, frm, frl *mp4.Fragment, trex *mp4.TrexBox, truth []fragSample, orc []int, zeof bool) {
	evals++
	var want [][]byte
	var fsm []mp4.FullSample
	var errm error
	if p := hx.Try(func() { fsm, errm = frm.GetFullSamples(trex) }); p != "" || errm != nil {
		if truth != nil {
			fail("Fragment.GetFullSamples(in-memory)", "error-on-valid-fragment", w, "in-memory fragment: panic or error "+p)
		}
		return
	}
	for _, s := range fsm {
		want = append(want, s.Data)
	}
	if truth != nil {
		if len(truth) != len(want) {
			fail("Fragment.GetFullSamples(in-memory)", "wrong-bytes", w, fmt.Sprintf("%d samples, generator made %d", len(want), len(truth)))
			return
		}
		for i := range truth {
			if !bytes.Equal(truth[i].data, want[i]) {
				fail("Fragment.GetFullSamples(in-memory)", "wrong-bytes", w, fmt.Sprintf("sample %d: %x, generator wrote %x", i+1, want[i], truth[i].data))
				return
			}
		}
	}
	var fsl []mp4.FullSample
	var errl error
	p := hx.Try(func() { fsl, errl = frl.GetFullSamples(trex) })
	switch {
	case p != "":
		fail("Fragment.GetFullSamples(lazy)", "panic-on-lazy-fragment", w, "lazily decoded fragment: "+clip200(p))
	case errl == nil && frl.Mdat.IsLazy():
		same := len(fsl) == len(want)
		for i := 0; same && i < len(want); i++ {
			same = bytes.Equal(fsl[i].Data, want[i])
		}
		if !same {
			fail("Fragment.GetFullSamples(lazy)", "wrong-bytes", w, "lazily decoded fragment returns samples whose bytes differ from the in-memory ones, without an error")
		}
	}
	n := len(want)
	if n == 0 || truth == nil {
		// no ground truth: an irregular file whose trun may point outside the mdat it got paired with (not a valid
		// sample range; in memory the slice expression then runs into the spare capacity of Data)
		return
	}
	for a := 1; a <= n; a++ {
		for b := a; b <= n; b++ {
			evals++
			var sim, sil mp4.SampleInterval
			var e1, e2 error
			p1 := hx.Try(func() { sim, e1 = frm.GetSampleInterval(trex, uint32(a), uint32(b)) })
			p2 := hx.Try(func() { sil, e2 = frl.GetSampleInterval(trex, uint32(a), uint32(b)) })
			ws := w + fmt.Sprintf(" samples %d..%d", a, b)
			if p1 != "" || p2 != "" || e1 != nil || e2 != nil {
				fail("Fragment.GetSampleInterval", "error-on-valid-interval", ws, fmt.Sprintf("in memory: %v %s lazy: %v %s", e1, clip(p1), e2, clip(p2)))
				continue
			}
			var exp []byte
			for k := a; k <= b; k++ {
				exp = append(exp, want[k-1]...)
			}
			if sim.OffsetInMdat != sil.OffsetInMdat || sim.Size != sil.Size || !bytes.Equal(sim.Data, exp) || int(sil.Size) != len(exp) {
				fail("Fragment.GetSampleInterval", "modes-differ", ws, fmt.Sprintf("in memory off=%d size=%d data=%x, lazy off=%d size=%d, expected %x", sim.OffsetInMdat, sim.Size, sim.Data, sil.OffsetInMdat, sil.Size, exp))
				continue
			}
			if frl.Mdat.IsLazy() && len(sil.Data) != 0 {
				fail("Fragment.GetSampleInterval", "wrong-bytes", ws, "lazy fragment returns data bytes")
			}
			if len(exp) == 0 {
				continue
			}
			start := int64(frl.Mdat.PayloadAbsoluteOffset()) + int64(sil.OffsetInMdat)
			for _, v := range []struct{ site, got string }{
				{"MdatBox.ReadData(lazy fragment)", readData(frl.Mdat, file, start, int64(sil.Size), orc, zeof)},
				{"MdatBox.CopyData(lazy fragment)", copyData(frl.Mdat, file, start, int64(sil.Size), orc, zeof)},
				{"MdatBox.ReadData(in-memory fragment)", readData(frm.Mdat, file, start, int64(sil.Size), orc, zeof)},
				{"MdatBox.CopyData(in-memory fragment)", copyData(frm.Mdat, file, start, int64(sil.Size), orc, zeof)},
			} {
				if v.got != "o:"+hx.Hex(exp) {
					fail(v.site, "wrong-bytes-or-error", ws+fmt.Sprintf(" start=%d size=%d oracle=%s", start, sil.Size, hx.Csv(orc)), "got "+clip(v.got)+" want "+hx.Hex(exp))
				}
			}
		}
	}
}

// ---------------------------------------------------------------- the lazy writer (examples/segmenter -lazy)
// A new fragment gets the samples a..b of a lazily decoded progressive file as sizes only (AddSampleToTrack:
// lazyDataSize), the segment is encoded (mdat header only), then CopySampleData writes the payload. The
// result must be a well-formed segment whose mdat payload is the bytes of samples a..b.
func searchLazyWriter(rng *hx.Rng, n int) {
	for i := 0; i < n; i++ {
		pf := genProg(rng, progOpts{maxChunks: 4, maxSpc: 3, maxSize: 6})
		zeof := rng.Bool()
		_, fl, _, el := decodeFileBoth(pf.file, genOracle(rng), zeof)
		if fl == nil {
			fail("DecodeFile(progressive)", "decode-failed", "file="+shortHex(pf.file), "lazy decode failed: "+el)
			continue
		}
		ns := len(pf.sizes)
		for j := 0; j < 4; j++ {
			a := rng.Range(1, ns)
			b := rng.Range(a, ns)
			if j == 0 {
				a, b = 1, ns
			}
			var want []byte
			for k := a; k <= b; k++ {
				want = append(want, pf.file[pf.locs[k-1].off:pf.locs[k-1].off+pf.locs[k-1].size]...)
			}
			wl := workLens[rng.Intn(len(workLens))]
			orc := genOracle(rng)
			evals++
			w := fmt.Sprintf("samples %d..%d workLen=%d oracle=%s zeroLenEOF=%v sizes=%s chunkOffsets=%s file=%s", a, b, wl, hx.Csv(orc), zeof, hx.Csv(pf.sizes), hx.Csv(pf.offsets), shortHex(pf.file))
			var outb []byte
			var err error
			p := hx.Try(func() {
				seg := mp4.NewMediaSegment()
				frag, e := mp4.CreateFragment(1, 1)
				if e != nil {
					err = e
					return
				}
				seg.AddFragment(frag)
				for k := a; k <= b; k++ {
					if e := frag.AddSampleToTrack(mp4.NewSample(0, 1, uint32(pf.sizes[k-1]), 0), 1, 0); e != nil {
						err = e
						return
					}
				}
				sk := &sink{}
				if err = seg.Encode(sk); err != nil {
					return
				}
				ws := hx.Exact(make([]byte, wl))
				if err = fl.CopySampleData(sk, newRS(pf.file, 0, orc, zeof), fl.Moov.Trak, uint32(a), uint32(b), ws); err != nil {
					return
				}
				outb = sk.b
			})
			if p != "" || err != nil {
				fail("lazy-writer(Encode+CopySampleData)", "error-on-valid-interval", w, fmt.Sprintf("panic=%s err=%v", clip(p), err))
				continue
			}
			var back *mp4.File
			p = hx.Try(func() { back, err = mp4.DecodeFile(bytes.NewReader(outb)) })
			if p != "" || err != nil || len(back.Segments) != 1 || len(back.Segments[0].Fragments) != 1 || back.Segments[0].Fragments[0].Mdat == nil {
				fail("lazy-writer(Encode+CopySampleData)", "output-not-a-segment", w, fmt.Sprintf("written segment does not decode to one fragment: panic=%s err=%v out=%s", clip(p), err, shortHex(outb)))
				continue
			}
			md := back.Segments[0].Fragments[0].Mdat
			if !bytes.Equal(md.Data, want) || back.Size() != uint64(len(outb)) {
				fail("lazy-writer(Encode+CopySampleData)", "header-plus-payload", w, fmt.Sprintf("mdat payload of the written segment %x, samples' bytes %x (segment %d bytes, boxes say %d)", md.Data, want, len(outb), back.Size()))
			}
		}
	}
}

// searchOffsetReader: the position bookkeeping of the decoders (startPos) is not the position of the reader. MP4 data
// that follows an application preamble in the same stream (DecodeFile on a ReadSeeker that is not at 0), and boxes
// decoded one by one from a byte range of a bigger file (DecodeBoxLazyMdat(startPos, rs) with startPos the offset in
// the bigger file): the decoded structure may not depend on the difference, in either mode.
func searchOffsetReader(rng *hx.Rng, n int) {
	for i := 0; i < n; i++ {
		ff := genFragFile(rng, false)
		zeof := i%2 == 0
		orc := genOracle(rng)
		pre := []int{1, 7, 16, 1000, 70000}[i%5]
		evals++
		w := fmt.Sprintf("file=%s preamble=%d DecStartOnMoof=%v", shortHex(ff.file), pre, ff.onmoof)
		_, fl0, _, el0 := decodeFileFlags(ff.file, orc, zeof, ff.onmoof)
		fm0, _, em0, _ := decodeFileFlags(ff.file, orc, zeof, ff.onmoof)
		buf := make([]byte, pre+len(ff.file))
		for j := 0; j < pre; j++ {
			buf[j] = byte(0x55 + j)
		}
		copy(buf[pre:], ff.file)
		flags := mp4.DecNoFlags
		if ff.onmoof {
			flags = mp4.DecStartOnMoof
		}
		var fm, fl *mp4.File
		var em, el string
		if p := hx.Try(func() {
			var err error
			fm, err = mp4.DecodeFile(newRS(buf, int64(pre), orc, zeof), mp4.WithDecodeFlags(flags))
			if err != nil {
				em, fm = "e", nil
			}
		}); p != "" {
			em, fm = "p", nil
		}
		if p := hx.Try(func() {
			var err error
			fl, err = mp4.DecodeFile(newRS(buf, int64(pre), orc, zeof), mp4.WithDecodeMode(mp4.DecModeLazyMdat), mp4.WithDecodeFlags(flags))
			if err != nil {
				el, fl = "e", nil
			}
		}); p != "" {
			el, fl = "p", nil
		}
		if a, b := stateString(fm0, em0), stateString(fm, em); a != b {
			fail("DecodeFile(reader not at 0)", "structure-depends-on-reader-position", w, "in memory: reader at 0 "+clip200(a)+" behind a preamble "+clip200(b))
		}
		if a, b := stateString(fl0, el0), stateString(fl, el); a != b {
			fail("DecodeFile(reader not at 0)", "structure-depends-on-reader-position", w, "lazy: reader at 0 "+clip200(a)+" behind a preamble "+clip200(b))
		}
		// box by box, startPos = offset in a bigger file of which the reader holds one range
		base := uint64([]int{0, 4000, 1 << 20, 1 << 33}[i%4])
		walk := func(lazy bool) string {
			var parts []string
			rs := newRS(ff.file, 0, orc, zeof)
			pos := base
			for k := 0; k < 64; k++ {
				var b mp4.Box
				var err error
				p := hx.Try(func() {
					if lazy {
						b, err = mp4.DecodeBoxLazyMdat(pos, rs)
					} else {
						b, err = mp4.DecodeBox(pos, rs)
					}
				})
				if p != "" {
					parts = append(parts, "p")
					break
				}
				if err == io.EOF {
					parts = append(parts, "E")
					break
				}
				if err != nil || b == nil {
					parts = append(parts, "e")
					break
				}
				parts = append(parts, fmt.Sprintf("%s:%x", b.Type(), b.Size()))
				pos += b.Size()
			}
			return strings.Join(parts, "+")
		}
		wm, wl := walk(false), walk(true)
		if wm != wl {
			fail("DecodeBoxLazyMdat(startPos != reader position)", "box-sequence-differs", fmt.Sprintf("%s startPos-base=%d", w, base), "DecodeBox "+clip200(wm)+" DecodeBoxLazyMdat "+clip200(wl))
		}
	}
}
