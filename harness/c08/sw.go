// Round 4: the SliceWriter encode path (MdatBox.EncodeSW, EncodeHeaderWithSizeSW, File.EncodeSW) on a
// bits.FixedSliceWriter, in both decode modes.
//
//	Q  id cap pre preErr  lazyEncodeSW memEncodeSW     (after an F line; <o|e>:<hex of sw.Bytes()>:<AccError()!=nil> | p)
//	V  id filehex zeof oracle tops cap  memFileEncodeSW lazyFileEncodeSW   (o:<hex of sw.Bytes()> | e | p)
package main

import (
	"fmt"
	"strings"

	"github.com/Eyevinn/mp4ff/bits"
	"github.com/Eyevinn/mp4ff/mp4"
	"verifharness/hx"
)

// newSW gives a FixedSliceWriter over a buffer of capLen bytes that already holds pre bytes (pre <= capLen) and,
// when preErr, an error accumulated by an earlier write that did not fit (which wrote nothing).
func newSW(capLen, pre int, preErr bool) *bits.FixedSliceWriter {
	sw := bits.NewFixedSliceWriter(capLen)
	p := make([]byte, pre)
	for i := range p {
		p[i] = 0x5A
	}
	sw.WriteBytes(p)
	if preErr {
		sw.WriteBytes(make([]byte, capLen+1))
	}
	return sw
}

func swMdat(m *mp4.MdatBox, capLen, pre int, preErr bool) string {
	sw := newSW(capLen, pre, preErr)
	var err error
	if p := hx.Try(func() { err = m.EncodeSW(sw) }); p != "" {
		return "p"
	}
	c := "o"
	if err != nil {
		c = "e"
	}
	return fmt.Sprintf("%s:%s:%d", c, hx.Hex(sw.Bytes()), b2i(sw.AccError() != nil))
}

func emitEncodeSW(i int, mm, ml *mp4.MdatBox) {
	size := int(mm.Size())
	for _, pre := range []int{0, 1 + i%5} {
		for c := pre; c <= pre+size+2; c++ {
			preErr := (c+pre)%7 == 3
			fmt.Fprintf(out, "Q\t%s\t%d\t%d\t%d\t%s\t%s\n", nextID(), c, pre, b2i(preErr), swMdat(ml, c, pre, preErr), swMdat(mm, c, pre, preErr))
		}
	}
}

func encodeFileSW(f *mp4.File, capLen int) string {
	if f == nil {
		return "e"
	}
	sw := bits.NewFixedSliceWriter(capLen)
	var err error
	if p := hx.Try(func() { err = f.EncodeSW(sw) }); p != "" {
		return "p"
	}
	if err != nil {
		return "e"
	}
	return "o:" + hx.Hex(sw.Bytes())
}

func emitEncodeFileSW(rng *hx.Rng, file []byte, tops string, zeof bool, boxTree bool) {
	orc := genOracle(rng)
	fm, fl, _, _ := decodeFileBoth(file, orc, zeof)
	if fm == nil && fl == nil {
		return
	}
	if boxTree {
		if fm != nil {
			fm.FragEncMode = mp4.EncModeBoxTree
		}
		if fl != nil {
			fl.FragEncMode = mp4.EncModeBoxTree
		}
	}
	el := len(elideMdat(file))
	caps := []int{len(file), len(file) - 1, el, el - 1, len(file) + 3, rng.Intn(len(file) + 1)}
	if fl != nil {
		caps = append(caps, int(fl.Size()))
	}
	for _, c := range caps {
		if c < 0 {
			continue
		}
		fmt.Fprintf(out, "V\t%s\t%s\t%d\t%s\t%s\t%d\t%s\t%s\n", nextID(), hx.Hex(file), b2i(zeof), hx.Csv(orc), tops, c,
			encodeFileSW(fm, c), encodeFileSW(fl, c))
	}
}

func corrEncodeFileSW(rng *hx.Rng, n int) {
	for i := 0; i < n; i++ {
		pf := genProg(rng, progOpts{maxChunks: 3, maxSpc: 2, maxSize: 4})
		emitEncodeFileSW(rng, pf.file, pf.tops, i%2 == 0, false)
		if i%3 == 0 {
			f, _ := genMultiMdat(rng)
			emitEncodeFileSW(rng, f, "-", rng.Bool(), false)
		}
		if i%3 == 1 {
			ff := genFragFile(rng, false)
			emitEncodeFileSW(rng, ff.file, ff.tops, rng.Bool(), true)
		}
	}
}

// ---------------------------------------------------------------- search
// one mdat box: EncodeSW of the lazily decoded box writes exactly the header of the original box and needs only
// HeaderSize() bytes of room; EncodeSW of the in-memory box writes the box; one byte less room: error.
func searchMdatSW(mf mfile, box []byte, plen int, mm, ml *mp4.MdatBox) {
	hl := len(box) - plen
	wit := fmt.Sprintf("file=%s startPos=%d", shortHex(mf.file), mf.startPos)
	for _, pre := range []int{0, 3} {
		prefix := strings.Repeat("5a", pre)
		evals++
		for _, c := range []int{pre + hl, pre + len(box), pre + len(box) + 5} {
			if got, want := swMdat(ml, c, pre, false), "o:"+prefix+hx.Hex(box[:hl])+":0"; got != want {
				fail("MdatBox.EncodeSW(lazy)", "not-header-only", wit+fmt.Sprintf(" writer of %d bytes holding %d", c, pre),
					"EncodeSW of the lazily decoded mdat does not write exactly the original header: got "+clip(got)+" want "+clip(want))
			}
		}
		for _, c := range []int{pre + len(box), pre + len(box) + 5} {
			if got, want := swMdat(mm, c, pre, false), "o:"+prefix+hx.Hex(box)+":0"; got != want {
				fail("MdatBox.EncodeSW(in-memory)", "not-the-box", wit+fmt.Sprintf(" writer of %d bytes holding %d", c, pre),
					"EncodeSW of the in-memory mdat does not write the original box: got "+clip(got)+" want "+clip(want))
			}
		}
		if got := swMdat(ml, pre+hl-1, pre, false); !strings.HasPrefix(got, "e:") {
			fail("MdatBox.EncodeSW(lazy)", "no-error-when-full", wit, "writer one byte too short for the header: "+clip(got))
		}
		if got := swMdat(mm, pre+len(box)-1, pre, false); !strings.HasPrefix(got, "e:") {
			fail("MdatBox.EncodeSW(in-memory)", "no-error-when-full", wit, "writer one byte too short for the box: "+clip(got))
		}
	}
}

// File level: for a decoded File (either mode, either fragmented encode mode), EncodeSW into a writer of
// Size() bytes gives the outcome and bytes of Encode.
func checkEncodeSW(w string, mode mp4.EncFragFileMode, f *mp4.File, enc string, how string) {
	if f == nil {
		return
	}
	evals++
	got := encodeFileSW(f, int(f.Size()))
	if got != enc {
		fail("File.EncodeSW("+how+")", "differs-from-Encode", w, fmt.Sprintf("mode %d: EncodeSW into a writer of Size()=%d bytes %s, Encode %s", mode, f.Size(), clip200(got), clip200(enc)))
	}
}

func searchEncodeFileSW(rng *hx.Rng, n int) {
	for i := 0; i < n; i++ {
		var file []byte
		switch i % 3 {
		case 0:
			file = genProg(rng, progOpts{maxChunks: 3, maxSpc: 2, maxSize: 4}).file
		case 1:
			file, _ = genMultiMdat(rng)
		default:
			file = genInter(rng, 5).file
		}
		zeof := rng.Bool()
		fm, fl, _, _ := decodeFileBoth(file, genOracle(rng), zeof)
		if fm == nil || fl == nil {
			continue
		}
		w := "file=" + shortHex(file)
		a, b := encodeFile(fm), encodeFile(fl)
		checkEncodeSW(w, 0, fm, a, "in-memory")
		checkEncodeSW(w, 0, fl, b, "lazy")
		if a != "o:"+hx.Hex(file) {
			continue // re-encoding the file is C01/C02's business
		}
		evals++
		if want := "o:" + hx.Hex(elideMdat(file)); b != want {
			fail("File.Encode(lazy)", "not-header-only", w, "lazy Encode is not the file with the mdat payloads left out: "+clip200(b))
		}
		// a lazily decoded file needs room for the headers only
		if got, want := encodeFileSW(fl, len(elideMdat(file))), "o:"+hx.Hex(elideMdat(file)); got != want {
			fail("File.EncodeSW(lazy)", "not-header-only", w, "EncodeSW into a writer as long as the file without mdat payloads: "+clip200(got))
		}
	}
}

// ---------------------------------------------------------------- the lazy writer (corr)
//	Z  id sizes                         lazyDataSize(hex) encodeOfPreparedMdat     (AddSampleToTrack for each size, then Mdat.Encode)
//	L  id valid a b workLen oracle chunks  lazyDataSize(hex) encodeOfPreparedMdat lazyCopySamples   (after F and T lines)
func preparedMdat(sizes []uint32) (string, string) {
	var lz, enc string
	if p := hx.Try(func() {
		frag, err := mp4.CreateFragment(1, 1)
		if err != nil {
			lz, enc = "e", "e"
			return
		}
		for _, z := range sizes {
			if err := frag.AddSampleToTrack(mp4.NewSample(0, 1, z, 0), 1, 0); err != nil {
				lz, enc = "e", "e"
				return
			}
		}
		lz = fmt.Sprintf("%x", frag.Mdat.GetLazyDataSize())
		enc = encode(frag.Mdat)
	}); p != "" {
		return "p", "p"
	}
	return lz, enc
}

func corrLazyWriter(rng *hx.Rng, n int) {
	// sizes only: totals around the 32-bit header limit (payload 2^32-9 is the last one with an 8-byte header)
	for i := 0; i < 3*n; i++ {
		k := rng.Range(0, 6)
		sizes := make([]uint32, k)
		strs := make([]string, k)
		for j := range sizes {
			sizes[j] = uint32(rng.Pick(0, 1, 7, 1000, 1<<31, 1<<32-1, 1<<32-9, 1<<32-10, 1<<32-8, 1<<31-9, 1<<31-8))
			if rng.Intn(4) == 0 {
				sizes[j] = uint32(rng.Intn(1 << 20))
			}
			strs[j] = fmt.Sprintf("%d", sizes[j])
		}
		lz, enc := preparedMdat(sizes)
		s := strings.Join(strs, ",")
		if s == "" {
			s = "-"
		}
		fmt.Fprintf(out, "Z\t%s\t%s\t%s\t%s\n", nextID(), s, lz, enc)
	}
	// end to end on progressive files: prepared header + CopySampleData from the lazily decoded input
	for i := 0; i < n; i++ {
		pf := genProg(rng, progOpts{maxChunks: 4, maxSpc: 3, maxSize: 6})
		zeof := rng.Bool()
		fm, fl, _, _ := decodeFileBoth(pf.file, genOracle(rng), zeof)
		mf := mfile{pf.file, pf.mdatPos, pf.large, pf.plen}
		mm, ml := emitFile(mf, genOracle(rng), zeof)
		if fm == nil || fl == nil || mm == nil || ml == nil || fm.Mdat == nil || fl.Mdat == nil {
			continue
		}
		fmt.Fprintln(out, pf.tableLine())
		ns := len(pf.sizes)
		stsc := fm.Moov.Trak.Mdia.Minf.Stbl.Stsc
		for j := 0; j < 5; j++ {
			a := rng.Range(1, ns)
			b := rng.Range(a, ns)
			if j == 0 {
				a, b = 1, ns
			}
			var cs []mp4.Chunk
			var err error
			if p := hx.Try(func() { cs, err = stsc.GetContainingChunks(uint32(a), uint32(b)) }); p != "" || err != nil {
				continue
			}
			var sizes []uint32
			for k := a; k <= b; k++ {
				sizes = append(sizes, uint32(pf.sizes[k-1]))
			}
			lz, enc := preparedMdat(sizes)
			wl := workLens[rng.Intn(len(workLens))]
			orc := genOracle(rng)
			rl, _ := copySamples(fl, pf.file, uint32(a), uint32(b), wl, orc, zeof)
			fmt.Fprintf(out, "L\t%s\t%d\t%d\t%d\t%d\t%s\t%s\t%s\t%s\t%s\n", nextID(), b2i(!pf.corrupt), a, b, wl, hx.Csv(orc), chunksStr(cs), lz, enc, rl)
		}
	}
}

// ---------------------------------------------------------------- search: header size limits
// (a) the lazy writer's header: after AddSampleToTrack for the given sizes, the accumulated size is their sum and
// Encode writes a well-formed mdat header announcing exactly that many payload bytes.
// (b) mdat boxes whose size is at the limit of the 32-bit size field (and 16-byte headers on both sides of it),
// decoded lazily from a position-synthesizing reader: Size / HeaderSize / PayloadAbsoluteOffset as in the file, Encode
// and EncodeSW write exactly the original header, the last payload bytes read back as the file's.
func headerAnnounces(h []byte) (payload uint64, ok bool) {
	if len(h) == 8 && string(h[4:8]) == "mdat" {
		s := uint64(h[0])<<24 | uint64(h[1])<<16 | uint64(h[2])<<8 | uint64(h[3])
		if s >= 8 {
			return s - 8, true
		}
	}
	if len(h) == 16 && string(h[4:8]) == "mdat" && h[0] == 0 && h[1] == 0 && h[2] == 0 && h[3] == 1 {
		var s uint64
		for _, b := range h[8:] {
			s = s<<8 | uint64(b)
		}
		if s >= 16 {
			return s - 16, true
		}
	}
	return 0, false
}

func searchHeaderLimits(rng *hx.Rng, n int) {
	for i := 0; i < 2*n; i++ {
		k := rng.Range(1, 6)
		sizes := make([]uint32, k)
		for j := range sizes {
			sizes[j] = uint32(rng.Pick(0, 1, 7, 1000, 1<<31, 1<<32-1, 1<<32-9, 1<<32-10, 1<<32-8, 1<<31-9, 1<<31-8))
			if rng.Intn(4) == 0 {
				sizes[j] = uint32(rng.Intn(1 << 20))
			}
		}
		if i < 4 { // a single sample right at the limit of the 8-byte header
			sizes = []uint32{uint32([]uint64{1<<32 - 9, 1<<32 - 8, 1<<32 - 10, 1<<32 - 1}[i])}
		}
		var sum uint64
		for _, z := range sizes {
			sum += uint64(z)
		}
		evals++
		lz, enc := preparedMdat(sizes)
		wit := fmt.Sprintf("CreateFragment(1,1) + AddSampleToTrack for sample sizes %v", sizes)
		if lz != fmt.Sprintf("%x", sum) {
			fail("lazy-writer(AddSampleToTrack)", "accumulated-size", wit, fmt.Sprintf("lazy data size %s, the samples have %x bytes", lz, sum))
			continue
		}
		hb, err := hexBytes(strings.TrimPrefix(enc, "o:"))
		if !strings.HasPrefix(enc, "o:") || err != nil {
			fail("lazy-writer(Mdat.Encode)", "error-on-valid-size", wit, "Encode of the mdat prepared for "+lz+" (hex) bytes: "+clip(enc))
			continue
		}
		if p, ok := headerAnnounces(hb); !ok || p != sum {
			fail("lazy-writer(Mdat.Encode)", "header-announces-other-size", wit, fmt.Sprintf("header %x for %x payload bytes", hb, sum))
		}
	}
	for i := 0; i < n; i++ {
		var head []byte
		var size uint64
		if i%2 == 0 {
			size = uint64(rng.Pick(1<<32-1, 1<<32-2, 1<<32-9, 1<<31, 1<<31+7, 1<<32-1)) - uint64(rng.Intn(2))*uint64(rng.Intn(1000))
			if i < 2 {
				size = 1<<32 - 1
			}
			head = append(be32(uint32(size)), "mdat"...)
		} else {
			size = uint64(rng.Pick(16+5, 1<<32-1, 1<<32, 1<<32+7, 1<<32+8, 1<<32+16, 5<<30, 1<<32-8)) + uint64(rng.Intn(3))
			head = append(append(be32(1), "mdat"...), be64(size)...)
		}
		evals++
		wit := fmt.Sprintf("mdat box header %x (box of %d bytes, payload synthesized), decoded lazily at position 0", head, size)
		rs := &sparseRS{head: head, total: int64(size), orc: genOracle(rng)}
		var b mp4.Box
		var err error
		if p := hx.Try(func() { b, err = mp4.DecodeBoxLazyMdat(0, rs) }); p != "" || err != nil {
			fail("DecodeBoxLazyMdat", "decode-failed", wit, fmt.Sprintf("panic=%s err=%v", clip(p), err))
			continue
		}
		m, ok := b.(*mp4.MdatBox)
		if !ok {
			fail("DecodeBoxLazyMdat", "decode-failed", wit, "not an mdat box")
			continue
		}
		if m.Size() != size || m.HeaderSize() != uint64(len(head)) || m.PayloadAbsoluteOffset() != uint64(len(head)) {
			fail("MdatBox.Size", "size-differs", wit, fmt.Sprintf("Size()=%d HeaderSize()=%d PayloadAbsoluteOffset()=%d", m.Size(), m.HeaderSize(), m.PayloadAbsoluteOffset()))
		}
		if got, want := encode(m), "o:"+hx.Hex(head); got != want {
			fail("MdatBox.Encode(lazy)", "header-plus-payload", wit, "Encode of the lazily decoded box does not write the original header: "+clip(got))
		}
		if got, want := swMdat(m, len(head), 0, false), "o:"+hx.Hex(head)+":0"; got != want {
			fail("MdatBox.EncodeSW(lazy)", "not-header-only", wit, "EncodeSW of the lazily decoded box does not write the original header: "+clip(got))
		}
		if size >= uint64(len(head))+3 {
			start := int64(size) - 3
			want := []byte{sparseByte(start), sparseByte(start + 1), sparseByte(start + 2)}
			var got []byte
			rs2 := &sparseRS{head: head, total: int64(size), orc: genOracle(rng)}
			if p := hx.Try(func() { got, err = m.ReadData(start, 3, rs2) }); p != "" || err != nil || hx.Hex(got) != hx.Hex(want) {
				fail("MdatBox.ReadData(lazy)", "range-ending-at-last-byte", wit, fmt.Sprintf("last 3 payload bytes: got %x want %x panic=%s err=%v", got, want, clip(p), err))
			}
		}
	}
}
