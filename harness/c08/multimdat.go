package main

// Files with SEVERAL top-level mdat boxes (empty / non-empty, 8- or 16-byte headers, before, between and after
// the other top-level boxes): which of them becomes File.Mdat must not depend on the decode mode, and reading
// through that handle must give the same bytes in both modes.

import (
	"fmt"

	"github.com/Eyevinn/mp4ff/mp4"

	"verifharness/hx"
)

// topBounds returns the start offsets of the top-level boxes of a well-formed file plus len(file).
func topBounds(file []byte) []int {
	var bs []int
	pos := 0
	for pos+8 <= len(file) {
		bs = append(bs, pos)
		size := int(uint32(file[pos])<<24 | uint32(file[pos+1])<<16 | uint32(file[pos+2])<<8 | uint32(file[pos+3]))
		if size == 1 && pos+16 <= len(file) {
			size = 0
			for i := 8; i < 16; i++ {
				size = size<<8 | int(file[pos+i])
			}
		}
		if size < 8 || pos+size > len(file) {
			break
		}
		pos += size
	}
	bs = append(bs, len(file))
	return bs
}

// genMultiMdat inserts 1..3 extra mdat boxes into a synthesized progressive file. Most extra boxes are empty
// (allowed); sometimes one is non-empty (then DecodeFile must refuse the file in both modes).
// shifted reports whether a box was inserted before the media mdat's payload: the chunk offsets of the moov then
// no longer point into the mdat (not a valid sample range any more; only the selection and the whole-payload
// reads are compared for such files).
func genMultiMdat(rng *hx.Rng) (file []byte, shifted bool) {
	file, shifted, _ = genMultiMdatPos(rng)
	return
}

// genMultiMdatPos also returns where the media mdat (the one the chunk offsets point into) ended up.
func genMultiMdatPos(rng *hx.Rng) (file []byte, shifted bool, mediaAt int) {
	pf := genProg(rng, progOpts{maxChunks: 3, maxSpc: 2, maxSize: 4})
	f := append([]byte{}, pf.file...)
	nExtra := rng.Range(1, 3)
	mediaPos := pf.mdatPos
	for k := 0; k < nExtra; k++ {
		bounds := topBounds(f)
		at := bounds[rng.Intn(len(bounds))]
		// bias towards "after everything" and "right after the media mdat": the arrangements the lazy mode must survive
		switch rng.Intn(4) {
		case 0:
			at = len(f)
		}
		var payload []byte
		if rng.Intn(6) == 0 {
			payload = payloadBytes(rng, rng.Range(1, 5))
		}
		x := mdatBox(payload, rng.Intn(3) == 0)
		if at <= mediaPos {
			shifted = true
			mediaPos += len(x)
		}
		g := append([]byte{}, f[:at]...)
		g = append(g, x...)
		g = append(g, f[at:]...)
		f = g
	}
	return hx.Exact(f), shifted, mediaPos
}

// selString is the API-visible identity of File.Mdat: StartPos, LargeSize, Size(), PayloadAbsoluteOffset().
func selString(f *mp4.File, e string) string {
	if f == nil {
		return e
	}
	if f.Mdat == nil {
		return "o:-"
	}
	m := f.Mdat
	size := m.Size()
	return fmt.Sprintf("o:%x:%d:%x:%x", m.StartPos, b2i(m.LargeSize), size, m.PayloadAbsoluteOffset())
}

func emitSel(rng *hx.Rng, file []byte, zeof bool) {
	orc := genOracle(rng)
	fm, fl, em, el := decodeFileBoth(file, orc, zeof)
	fmt.Fprintf(out, "M\t%s\t%s\t%d\t%s\t%s\t%s\n", nextID(), hx.Hex(file), b2i(zeof), hx.Csv(orc), selString(fm, em), selString(fl, el))
}

func corrMultiMdat(rng *hx.Rng, n int) {
	for i := 0; i < n; i++ {
		f, _ := genMultiMdat(rng)
		emitSel(rng, f, i%2 == 0)
	}
	// the plain single-mdat files too
	for i := 0; i < n/4+1; i++ {
		pf := genProg(rng, progOpts{maxChunks: 3, maxSpc: 2, maxSize: 4})
		emitSel(rng, pf.file, rng.Bool())
	}
}

// searchMultiMdat evaluates the property itself: same File.Mdat identity in both modes; ReadData / CopyData of
// the whole payload and CopySampleData of every sample through the two handles give the same outcome and bytes.
func searchMultiMdat(rng *hx.Rng, n int) int {
	evals := 0
	for i := 0; i < n; i++ {
		file, shifted, mediaAt := genMultiMdatPos(rng)
		orc := genOracle(rng)
		zeof := rng.Bool()
		fm, fl, em, el := decodeFileBoth(file, orc, zeof)
		evals++
		w := "file=" + hx.Hex(file)
		sm, sl := selString(fm, em), selString(fl, el)
		if sm != sl {
			fail("File.AddChild", "file-mdat-differs", w, "File.Mdat after DecodeFile: in memory "+sm+", lazy "+sl)
			continue
		}
		if fm == nil || fl == nil || fm.Mdat == nil || fl.Mdat == nil {
			continue
		}
		pstart := int64(fm.Mdat.PayloadAbsoluteOffset())
		psize := int64(fm.Mdat.Size() - fm.Mdat.HeaderSize())
		if psize > 0 {
			a := readData(fm.Mdat, file, pstart, psize, orc, zeof)
			b := readData(fl.Mdat, file, pstart, psize, orc, zeof)
			c := copyData(fm.Mdat, file, pstart, psize, orc, zeof)
			d := copyData(fl.Mdat, file, pstart, psize, orc, zeof)
			evals += 4
			if a != b || c != d || a != c {
				fail("MdatBox.ReadData", "file-mdat-read-differs", w, fmt.Sprintf("whole payload through File.Mdat: ReadData mem %s lazy %s, CopyData mem %s lazy %s", a, b, c, d))
				continue
			}
		}
		// the sample tables describe ranges of the MEDIA mdat: they are valid ranges of File.Mdat only when that box was
		// selected (an empty media mdat - all samples of size 0 - loses against an inserted non-empty one)
		if !shifted && int(fm.Mdat.StartPos) == mediaAt && fm.Moov != nil && fm.Moov.Trak != nil && fl.Moov != nil && fl.Moov.Trak != nil {
			n := fm.Moov.Trak.Mdia.Minf.Stbl.Stsz.SampleNumber
			if n > 0 {
				for _, wl := range []int{0, 3} {
					x, _ := copySamples(fm, file, 1, n, wl, orc, zeof)
					y, _ := copySamples(fl, file, 1, n, wl, orc, zeof)
					evals += 2
					if x != y {
						fail("File.CopySampleData", "file-mdat-copy-differs", w, fmt.Sprintf("samples 1..%d work buffer %d: mem %s lazy %s", n, wl, x, y))
						break
					}
				}
			}
		}
	}
	return evals
}
