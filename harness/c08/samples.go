package main

import (
	"bytes"
	"fmt"
	"io"
	"os"
	"strconv"
	"strings"

	"github.com/Eyevinn/mp4ff/mp4"
	"verifharness/hx"
)

// ---------------------------------------------------------------- progressive file synthesis
type sampleLoc struct{ off, size int } // ground truth from the generator (absolute file offset)

type progFile struct {
	file     []byte
	mdatPos  int
	large    bool
	plen     int
	spc      []int // samples per chunk
	sizes    []int // per-sample sizes
	uniform  int   // != 0: stsz uniform size, SampleSize empty
	offsets  []int // chunk offsets (absolute)
	locs     []sampleLoc
	co64     bool
	mdatLast bool
	corrupt  bool
	tops     string // top-level boxes as built: name:large:payloadLen;...
}

func encBox(b mp4.Box) []byte {
	var buf bytes.Buffer
	if err := b.Encode(&buf); err != nil {
		panic(err)
	}
	return buf.Bytes()
}

type progOpts struct {
	maxChunks, maxSpc, maxSize int
	corrupt                    bool
}

// genProg builds ftyp [free] moov mdat [free]  or  ftyp mdat [free] moov with one track.
func genProg(rng *hx.Rng, o progOpts) progFile {
	var pf progFile
	nChunks := rng.Range(1, o.maxChunks)
	pf.uniform = 0
	if rng.Intn(5) == 0 {
		pf.uniform = rng.Range(1, o.maxSize)
	}
	cur := rng.Range(1, o.maxSpc)
	for c := 0; c < nChunks; c++ {
		if rng.Intn(3) == 0 {
			cur = rng.Range(1, o.maxSpc)
		}
		pf.spc = append(pf.spc, cur)
		for k := 0; k < cur; k++ {
			sz := rng.Range(0, o.maxSize)
			if rng.Intn(4) != 0 && sz == 0 {
				sz = 1
			}
			if pf.uniform != 0 {
				sz = pf.uniform
			}
			pf.sizes = append(pf.sizes, sz)
		}
	}
	// payload: chunks in order, optional gaps (data of some other track)
	var payload []byte
	var relOff []int
	si := 0
	fill := byte(rng.Intn(200))
	for c := 0; c < nChunks; c++ {
		if rng.Intn(3) == 0 {
			for g := rng.Range(1, 5); g > 0; g-- {
				payload = append(payload, 0xF0+byte(g))
			}
		}
		relOff = append(relOff, len(payload))
		for k := 0; k < pf.spc[c]; k++ {
			for j := 0; j < pf.sizes[si]; j++ {
				payload = append(payload, fill)
				fill += 3
			}
			si++
		}
	}
	if rng.Intn(3) == 0 {
		payload = append(payload, 0xFA, 0xFB)
	}
	pf.plen = len(payload)
	pf.large = rng.Intn(3) == 0
	pf.co64 = rng.Intn(3) == 0
	pf.mdatLast = rng.Intn(3) != 0

	moov := mp4.NewMoovBox()
	moov.AddChild(mp4.CreateMvhd())
	trak := mp4.CreateEmptyTrak(1, 1000, "video", "und")
	moov.AddChild(trak)
	stbl := trak.Mdia.Minf.Stbl
	stbl.Stts.SampleCount = []uint32{uint32(len(pf.sizes))}
	stbl.Stts.SampleTimeDelta = []uint32{1}
	for c := 0; c < nChunks; c++ {
		if c == 0 || pf.spc[c] != pf.spc[c-1] {
			_ = stbl.Stsc.AddEntry(uint32(c+1), uint32(pf.spc[c]), 1)
		}
	}
	stbl.Stsz.SampleNumber = uint32(len(pf.sizes))
	if pf.uniform != 0 {
		stbl.Stsz.SampleUniformSize = uint32(pf.uniform)
	} else {
		for _, z := range pf.sizes {
			stbl.Stsz.SampleSize = append(stbl.Stsz.SampleSize, uint32(z))
		}
	}
	var co64 *mp4.Co64Box
	if pf.co64 {
		co64 = &mp4.Co64Box{ChunkOffset: make([]uint64, nChunks)}
		for i, ch := range stbl.Children {
			if _, ok := ch.(*mp4.StcoBox); ok {
				stbl.Children[i] = co64
			}
		}
		stbl.Stco = nil
		stbl.Co64 = co64
	} else {
		stbl.Stco.ChunkOffset = make([]uint32, nChunks)
	}
	ftyp := encBox(mp4.NewFtyp("isom", 0, []string{"isom"}))
	var free1, free2 []byte
	if rng.Bool() {
		free1 = freeBox(8+rng.Intn(5), 0x11)
	}
	if rng.Bool() {
		free2 = freeBox(8+rng.Intn(5), 0x22)
	}
	moovLen := int(moov.Size())
	hl := 8
	if pf.large {
		hl = 16
	}
	if pf.mdatLast {
		pf.mdatPos = len(ftyp) + len(free1) + moovLen
	} else {
		pf.mdatPos = len(ftyp)
	}
	pstart := pf.mdatPos + hl
	si = 0
	for c := 0; c < nChunks; c++ {
		off := pstart + relOff[c]
		pf.offsets = append(pf.offsets, off)
		o := off
		for k := 0; k < pf.spc[c]; k++ {
			pf.locs = append(pf.locs, sampleLoc{o, pf.sizes[si]})
			o += pf.sizes[si]
			si++
		}
	}
	pf.corrupt = o.corrupt
	if o.corrupt {
		c := rng.Intn(nChunks)
		switch rng.Intn(4) {
		case 0:
			pf.offsets[c] = pstart + pf.plen + rng.Intn(40) // at or beyond the payload end
		case 1:
			pf.offsets[c] = rng.Intn(pstart + 1) // before the payload
		case 2:
			pf.offsets[c] += rng.Range(1, 6)
		case 3:
			pf.offsets[c] = pstart + pf.plen - rng.Intn(3)
		}
	}
	for c := 0; c < nChunks; c++ {
		if pf.co64 {
			co64.ChunkOffset[c] = uint64(pf.offsets[c])
		} else {
			stbl.Stco.ChunkOffset[c] = uint32(pf.offsets[c])
		}
	}
	mv := encBox(moov)
	if len(mv) != moovLen {
		panic("moov size changed")
	}
	md := mdatBox(payload, pf.large)
	var f []byte
	f = append(f, ftyp...)
	if pf.mdatLast {
		f = append(f, free1...)
		f = append(f, mv...)
		f = append(f, md...)
		f = append(f, free2...)
	} else {
		f = append(f, md...)
		f = append(f, free2...)
		f = append(f, mv...)
	}
	pf.file = hx.Exact(f)
	d := func(name string, b []byte) string {
		if len(b) == 0 {
			return ""
		}
		return fmt.Sprintf("%s:0:%d;", name, len(b)-8)
	}
	mdd := fmt.Sprintf("mdat:%d:%d;", b2i(pf.large), pf.plen)
	if pf.mdatLast {
		pf.tops = d("ftyp", ftyp) + d("free", free1) + d("moov", mv) + mdd + d("free", free2)
	} else {
		pf.tops = d("ftyp", ftyp) + mdd + d("free", free2) + d("moov", mv)
	}
	pf.tops = strings.TrimSuffix(pf.tops, ";")
	return pf
}

// topString is the top-level view of a decoded file: type:pos:size and for mdat :StartPos:LargeSize:len(Data):lazyDataSize
func topString(f *mp4.File, e string) string {
	if f == nil {
		return e
	}
	var ss []string
	pos := uint64(0)
	for _, c := range f.Children {
		t := fmt.Sprintf("%s:%x:%x", hx.Hex([]byte(c.Type())), pos, c.Size())
		if m, ok := c.(*mp4.MdatBox); ok {
			t += fmt.Sprintf(":%x:%d:%d:%x", m.StartPos, b2i(m.LargeSize), len(m.Data), m.GetLazyDataSize())
		}
		ss = append(ss, t)
		pos += c.Size()
	}
	if len(ss) == 0 {
		return "o:-"
	}
	return "o:" + strings.Join(ss, ";")
}

func emitWalk(rng *hx.Rng, file []byte, tops string, zeof bool) {
	orc := genOracle(rng)
	fm, fl, em, el := decodeFileBoth(file, orc, zeof)
	fmt.Fprintf(out, "W\t%s\t%s\t%d\t%s\t%s\t%s\t%s\n", nextID(), hx.Hex(file), b2i(zeof), hx.Csv(orc), tops, topString(fm, em), topString(fl, el))
}

func corrWalk(rng *hx.Rng, n int) {
	for i := 0; i < n; i++ {
		pf := genProg(rng, progOpts{maxChunks: 3, maxSpc: 2, maxSize: 4})
		emitWalk(rng, pf.file, pf.tops, i%2 == 0)
		if i%3 == 0 { // truncated: inside the mdat payload the two modes differ (lazy seeks past the end)
			cut := rng.Intn(len(pf.file))
			if i%2 == 0 {
				cut = pf.mdatPos + rng.Intn(pf.plen+17)
				if cut > len(pf.file) {
					cut = len(pf.file)
				}
			}
			emitWalk(rng, hx.Exact(pf.file[:cut]), "-", rng.Bool())
		}
		if i%4 == 1 { // two mdat boxes, the first one empty (allowed in a progressive file)
			f := append([]byte{}, pf.file[:pf.mdatPos]...)
			f = append(f, mdatBox(nil, rng.Bool())...)
			f = append(f, pf.file[pf.mdatPos:]...)
			emitWalk(rng, hx.Exact(f), "-", rng.Bool())
		}
	}
	for i := 0; i < n/2+1; i++ {
		emitWalk(rng, genFragmented(rng), "-", rng.Bool())
	}
}

// decodeFileBoth decodes the whole file in both modes through the oracle reader.
func decodeFileBoth(file []byte, orc []int, zeof bool) (fm, fl *mp4.File, em, el string) {
	if p := hx.Try(func() {
		var err error
		fm, err = mp4.DecodeFile(newRS(file, 0, orc, zeof))
		if err != nil {
			em = "e"
			fm = nil
		} else if fm.Mdat != nil {
			// cap(Data) = len(Data): io.ReadAll leaves spare capacity, which would turn an out-of-range
			// slice expression into stale bytes instead of a panic (the model assumes cap = len)
			fm.Mdat.Data = hx.Exact(fm.Mdat.Data)
		}
	}); p != "" {
		em, fm = "p", nil
	}
	if p := hx.Try(func() {
		var err error
		fl, err = mp4.DecodeFile(newRS(file, 0, orc, zeof), mp4.WithDecodeMode(mp4.DecModeLazyMdat))
		if err != nil {
			el = "e"
			fl = nil
		}
	}); p != "" {
		el, fl = "p", nil
	}
	return
}

func chunksStr(cs []mp4.Chunk) string {
	if len(cs) == 0 {
		return "-"
	}
	ss := make([]string, len(cs))
	for i, c := range cs {
		ss[i] = fmt.Sprintf("%d:%d:%d", c.ChunkNr, c.StartSampleNr, c.NrSamples)
	}
	return strings.Join(ss, ";")
}

const wsFill = 0xAA

func copySamples(f *mp4.File, file []byte, a, b uint32, workLen int, orc []int, zeof bool) (string, *oRS) {
	w := &sink{}
	var err error
	ws := make([]byte, workLen)
	for i := range ws {
		ws[i] = wsFill
	}
	ws = hx.Exact(ws)
	rs := newRS(file, 0, orc, zeof)
	p := hx.Try(func() {
		err = f.CopySampleData(w, rs, f.Moov.Trak, a, b, ws)
	})
	res := resStr(w.b, err, p)
	copyWithGuardedWS(f, f.Moov.Trak, file, a, b, workLen, orc, zeof, res) // hygiene.go 2(a)
	return res, rs
}

func (pf *progFile) tableLine() string {
	sz := pf.sizes
	if pf.uniform != 0 {
		sz = nil
	}
	return fmt.Sprintf("T\t%s\t%s\t%d\t%s", nextID(), hx.Csv(sz), pf.uniform, hx.Csv(pf.offsets))
}

var workLens = []int{0, 1, 2, 3, 7, 8, 4096}

// emitSamples prints the F (mdat box), T (tables) and S (sample interval) lines of one file.
func emitSamples(rng *hx.Rng, pf progFile, zeof bool, maxIntervals int) {
	fm, fl, _, _ := decodeFileBoth(pf.file, genOracle(rng), zeof)
	mf := mfile{pf.file, pf.mdatPos, pf.large, pf.plen}
	mm, ml := emitFile(mf, genOracle(rng), zeof)
	if fm == nil || fl == nil || mm == nil || ml == nil || fm.Mdat == nil || fl.Mdat == nil {
		return
	}
	fmt.Fprintln(out, pf.tableLine())
	n := len(pf.sizes)
	type iv struct{ a, b int }
	var ivs []iv
	for a := 1; a <= n; a++ {
		for b := a; b <= n; b++ {
			ivs = append(ivs, iv{a, b})
		}
	}
	if len(ivs) > maxIntervals {
		// keep a deterministic random subset, always with the full interval and the last sample
		sel := []iv{{1, n}, {n, n}, {1, 1}}
		for len(sel) < maxIntervals {
			sel = append(sel, ivs[rng.Intn(len(ivs))])
		}
		ivs = sel
	}
	stsc := fm.Moov.Trak.Mdia.Minf.Stbl.Stsc
	for _, v := range ivs {
		var cs []mp4.Chunk
		var err error
		if p := hx.Try(func() { cs, err = stsc.GetContainingChunks(uint32(v.a), uint32(v.b)) }); p != "" || err != nil {
			continue
		}
		for _, wl := range workLens {
			if pf.plen > 1500 && wl >= 1 && wl <= 8 {
				continue // the extracted model is quadratic in the number of refills; small buffers are covered on smaller files
			}
			orc := genOracle(rng)
			rm, _ := copySamples(fm, pf.file, uint32(v.a), uint32(v.b), wl, orc, zeof)
			rl, _ := copySamples(fl, pf.file, uint32(v.a), uint32(v.b), wl, orc, zeof)
			fmt.Fprintf(out, "S\t%s\t%d\t%d\t%d\t%d\t%s\t%s\t%s\t%s\n", nextID(), b2i(!pf.corrupt), v.a, v.b, wl, hx.Csv(orc), chunksStr(cs), rm, rl)
		}
	}
}

func corrSamples(rng *hx.Rng, n int) {
	for i := 0; i < n; i++ {
		o := progOpts{maxChunks: 4, maxSpc: 3, maxSize: 5}
		if i%4 == 3 {
			o = progOpts{maxChunks: 6, maxSpc: 4, maxSize: 9}
		}
		if i%7 == 6 {
			o = progOpts{maxChunks: 3, maxSpc: 3, maxSize: 3000} // over the 4096 work buffer
		}
		if i%7 == 5 {
			o = progOpts{maxChunks: 3, maxSpc: 2, maxSize: 150} // many refills of the small buffers
		}
		mi := 24
		if o.maxSize > 100 {
			mi = 6
		}
		emitSamples(rng, genProg(rng, o), i%2 == 0, mi)
	}
	// malformed tables: chunk offsets outside the payload
	for i := 0; i < n/3+1; i++ {
		emitSamples(rng, genProg(rng, progOpts{maxChunks: 3, maxSpc: 3, maxSize: 4, corrupt: true}), i%2 == 0, 8)
	}
}

// ---------------------------------------------------------------- search on sample intervals and trees
func infoDump(f *mp4.File) string {
	var b bytes.Buffer
	_ = f.Info(&b, "all:1", "", "  ")
	return b.String()
}

func treeSummary(f *mp4.File) string {
	var sb strings.Builder
	pos := uint64(0)
	for _, c := range f.Children {
		fmt.Fprintf(&sb, "%s@%d+%d;", c.Type(), pos, c.Size())
		if m, ok := c.(*mp4.MdatBox); ok {
			fmt.Fprintf(&sb, "[mdat start=%d hdr=%d pay=%d large=%v]", m.StartPos, m.HeaderSize(), m.PayloadAbsoluteOffset(), m.LargeSize)
		}
		if m, ok := c.(*mp4.MoofBox); ok {
			fmt.Fprintf(&sb, "[moof start=%d]", m.StartPos)
		}
		pos += c.Size()
	}
	fmt.Fprintf(&sb, "size=%d frag=%v", f.Size(), f.IsFragmented())
	for _, s := range f.Segments {
		fmt.Fprintf(&sb, " seg@%d", s.StartPos)
		for _, fr := range s.Fragments {
			fmt.Fprintf(&sb, " frag@%d", fr.StartPos)
			if fr.Mdat != nil {
				fmt.Fprintf(&sb, " mdat@%d+%d", fr.Mdat.StartPos, fr.Mdat.Size())
			}
		}
	}
	return sb.String()
}

func shortHex(b []byte) string {
	if len(b) > 400 {
		return hx.Hex(b[:400]) + "...(" + strconv.Itoa(len(b)) + " bytes)"
	}
	return hx.Hex(b)
}

func compareTrees(site string, file []byte, fm, fl *mp4.File, em, el string) bool {
	evals++
	if fm == nil || fl == nil {
		fail(site, "decode-failed", "file="+shortHex(file), "well-formed file does not decode: normal="+em+" lazy="+el)
		return false
	}
	if a, b := treeSummary(fm), treeSummary(fl); a != b {
		fail(site, "tree-positions-differ", "file="+shortHex(file), "normal: "+a+" lazy: "+b)
		return false
	}
	if a, b := infoDump(fm), infoDump(fl); a != b {
		fail(site, "info-dump-differs", "file="+shortHex(file), "Info(all:1) of the two trees differ")
		return false
	}
	if fm.Size() != uint64(len(file)) {
		fail(site, "size-not-file-length", "file="+shortHex(file), fmt.Sprintf("File.Size()=%d, file has %d bytes", fm.Size(), len(file)))
		return false
	}
	return true
}

func searchSamples(rng *hx.Rng, n int) {
	for i := 0; i < n; i++ {
		o := progOpts{maxChunks: 5, maxSpc: 4, maxSize: 6}
		if i%5 == 4 {
			o = progOpts{maxChunks: 3, maxSpc: 3, maxSize: 3000}
		}
		pf := genProg(rng, o)
		zeof := i%2 == 0
		fm, fl, em, el := decodeFileBoth(pf.file, genOracle(rng), zeof)
		if !compareTrees("DecodeFile(progressive)", pf.file, fm, fl, em, el) {
			continue
		}
		if fm.Mdat.StartPos != uint64(pf.mdatPos) || fl.Mdat.StartPos != uint64(pf.mdatPos) || fl.Mdat.LargeSize != pf.large {
			fail("DecodeFile(progressive)", "mdat-startpos", "file="+shortHex(pf.file), "mdat StartPos/LargeSize differ from where the generator put the box")
		}
		ns := len(pf.sizes)
		nIv := 0
		for a := 1; a <= ns; a++ {
			for b := a; b <= ns; b++ {
				nIv++
				if ns > 8 && rng.Intn(4) != 0 && !(a == 1 && b == ns) && b != ns {
					continue
				}
				var want []byte
				for k := a; k <= b; k++ {
					want = append(want, pf.file[pf.locs[k-1].off:pf.locs[k-1].off+pf.locs[k-1].size]...)
				}
				for _, wl := range workLens {
					orc := genOracle(rng)
					evals++
					rm, _ := copySamples(fm, pf.file, uint32(a), uint32(b), wl, orc, zeof)
					rl, rsl := copySamples(fl, pf.file, uint32(a), uint32(b), wl, orc, zeof)
					wit := fmt.Sprintf("samples %d..%d workLen=%d oracle=%s zeroLenEOF=%v samplesPerChunk=%s sizes=%s uniform=%d chunkOffsets=%s mdat@%d large=%v payload=%d (zero-length reads: %d) file=%s",
						a, b, wl, hx.Csv(orc), zeof, hx.Csv(pf.spc), hx.Csv(pf.sizes), pf.uniform, hx.Csv(pf.offsets), pf.mdatPos, pf.large, pf.plen, rsl.zero, shortHex(pf.file))
					ws := "o:" + hx.Hex(want)
					if rm != ws {
						fail("File.CopySampleData(in-memory)", classOf(rm), wit, "bytes written differ from the concatenation of the samples' bytes: got "+clip(rm))
					}
					if rl != ws {
						site := "File.CopySampleData(lazy,workbuffer)"
						if wl == 0 {
							site = "File.CopySampleData(lazy,CopyN)"
						}
						fail(site, classOf(rl), wit, "bytes written differ from the concatenation of the samples' bytes: got "+clip(rl))
					}
				}
			}
		}
	}
}

func classOf(r string) string {
	switch r {
	case "e":
		return "error-on-valid-interval"
	case "p":
		return "panic-on-valid-interval"
	}
	return "wrong-bytes"
}

func clip(s string) string {
	if len(s) > 60 {
		return s[:60] + "..."
	}
	return s
}

// ---------------------------------------------------------------- fragmented files
func genFragmented(rng *hx.Rng) []byte {
	init := mp4.CreateEmptyInit()
	init.AddEmptyTrack(1000, "video", "und")
	var buf bytes.Buffer
	if err := init.Encode(&buf); err != nil {
		panic(err)
	}
	dt := uint64(0)
	nSeg := rng.Range(1, 3)
	seq := uint32(1)
	for s := 0; s < nSeg; s++ {
		var seg *mp4.MediaSegment
		if rng.Bool() {
			seg = mp4.NewMediaSegment()
		} else {
			seg = mp4.NewMediaSegmentWithoutStyp()
		}
		for fr := rng.Range(1, 3); fr > 0; fr-- {
			frag, err := mp4.CreateFragment(seq, 1)
			if err != nil {
				panic(err)
			}
			seq++
			for k := rng.Range(1, 4); k > 0; k-- {
				data := rng.Bytes(rng.Range(1, 9), nil)
				frag.AddFullSample(mp4.FullSample{Sample: mp4.NewSample(0, 10, uint32(len(data)), 0), DecodeTime: dt, Data: data})
				dt += 10
			}
			seg.AddFragment(frag)
		}
		if err := seg.Encode(&buf); err != nil {
			panic(err)
		}
	}
	return hx.Exact(buf.Bytes())
}

func searchFragmented(rng *hx.Rng, n int) {
	for i := 0; i < n; i++ {
		file := genFragmented(rng)
		zeof := i%2 == 0
		fm, fl, em, el := decodeFileBoth(file, genOracle(rng), zeof)
		if !compareTrees("DecodeFile(fragmented)", file, fm, fl, em, el) {
			continue
		}
		// every fragment's lazily decoded mdat: header only + payload by ReadData = the box
		for si, s := range fl.Segments {
			for fi, fr := range s.Fragments {
				evals++
				ml, mm := fr.Mdat, fm.Segments[si].Fragments[fi].Mdat
				hdr := &sink{}
				_ = ml.Encode(hdr)
				ps := int64(ml.PayloadAbsoluteOffset())
				pl := int64(len(mm.Data))
				orc := genOracle(rng)
				got := readData(ml, file, ps, pl, orc, zeof)
				got2 := readData(mm, file, ps, pl, orc, zeof)
				box := file[ml.StartPos : ml.StartPos+ml.Size()]
				if got != got2 || got != "o:"+hx.Hex(mm.Data) || !bytes.Equal(append(append([]byte{}, hdr.b...), mm.Data...), box) {
					fail("Fragment.Mdat(lazy)", "header-plus-payload", "file="+shortHex(file)+fmt.Sprintf(" segment %d fragment %d", si, fi), "lazy fragment mdat: header + full payload read differs from the box")
				}
			}
		}
	}
}

var _ = io.EOF

// ---------------------------------------------------------------- cases for the package-main hooks
// hookCases prints  M id filehex a b expected   (examples/segmenter copyMediaData, lazy decode)
//              and  C id filehex ranges expected (cmd/mp4ff-crop writeMdat, both decode modes).
func hookCases(seed uint64, n int) {
	rng := hx.NewRng(seed ^ 0xC0808)
	for i := 0; i < n; i++ {
		pf := genProg(rng, progOpts{maxChunks: 4, maxSpc: 3, maxSize: 6})
		ns := len(pf.sizes)
		for j := 0; j < 4; j++ {
			a := rng.Range(1, ns)
			b := rng.Range(a, ns)
			if j == 0 {
				a, b = 1, ns
			}
			if j == 1 {
				b = ns
			}
			var want []byte
			for k := a; k <= b; k++ {
				want = append(want, pf.file[pf.locs[k-1].off:pf.locs[k-1].off+pf.locs[k-1].size]...)
			}
			fmt.Fprintf(out, "M\t%s\t%s\t%d\t%d\t%s\n", nextID(), hx.Hex(pf.file), a, b, "o:"+hx.Hex(want))
		}
		if pf.plen == 0 {
			continue
		}
		hl := 8
		if pf.large {
			hl = 16
		}
		ps := pf.mdatPos + hl
		for j := 0; j < 4; j++ {
			// 1..3 increasing non-adjacent ranges inside the payload; j<2: the last one ends at the last payload byte
			var rs []string
			var want []byte
			pos := ps + rng.Intn(pf.plen)
			if j == 0 {
				pos = ps
			}
			for k := 0; k < 3 && pos < ps+pf.plen; k++ {
				e := pos + rng.Intn(ps+pf.plen-pos)
				if j == 0 || (j == 1 && (k == 2 || rng.Bool())) {
					e = ps + pf.plen - 1
				}
				rs = append(rs, fmt.Sprintf("%d-%d", pos, e))
				want = append(want, pf.file[pos:e+1]...)
				pos = e + 2 + rng.Intn(3)
			}
			hdr := append(be32(uint32(8+len(want))), "mdat"...)
			fmt.Fprintf(out, "C\t%s\t%s\t%s\t%s\n", nextID(), hx.Hex(pf.file), strings.Join(rs, ","), "o:"+hx.Hex(append(hdr, want...)))
		}
	}
}

// ---------------------------------------------------------------- real progressive files from the repository's testdata
func searchRealFiles(rng *hx.Rng, n int, repo string) {
	for _, name := range []string{"prog_8s.mp4", "bbb_prog_10s.mp4"} {
		file, err := os.ReadFile(repo + "/mp4/testdata/" + name)
		if err != nil {
			continue
		}
		file = hx.Exact(file)
		zeof := rng.Bool()
		fm, fl, em, el := decodeFileBoth(file, nil, zeof)
		if !compareTrees("DecodeFile("+name+")", file, fm, fl, em, el) {
			continue
		}
		for _, trak := range fm.Moov.Traks {
			var trakL *mp4.TrakBox
			for _, t := range fl.Moov.Traks {
				if t.Tkhd.TrackID == trak.Tkhd.TrackID {
					trakL = t
				}
			}
			stsz := trak.Mdia.Minf.Stbl.Stsz
			ns := int(stsz.SampleNumber)
			if ns == 0 || trakL == nil {
				continue
			}
			for j := 0; j < n; j++ {
				a := rng.Range(1, ns)
				b := a + rng.Intn(minInt(ns-a+1, 40))
				if j == 0 {
					a, b = ns-rng.Intn(minInt(ns, 5)), ns // ends at the last sample of the track
				}
				total, _ := stsz.GetTotalSampleSize(uint32(a), uint32(b))
				wl := workLens[rng.Intn(len(workLens))]
				if wl >= 1 && wl <= 3 && total > 20000 {
					wl = 4096
				}
				orc := genOracle(rng)
				evals++
				run := func(f *mp4.File, t *mp4.TrakBox) string {
					w := &sink{}
					var err error
					p := hx.Try(func() {
						err = f.CopySampleData(w, newRS(file, 0, orc, zeof), t, uint32(a), uint32(b), hx.Exact(make([]byte, wl)))
					})
					return resStr(w.b, err, p)
				}
				rm, rl := run(fm, trak), run(fl, trakL)
				if rm != rl || !strings.HasPrefix(rm, "o:") || (len(rm)-2)/2 != int(total) && total > 0 {
					fail("File.CopySampleData("+name+")", "modes-differ",
						fmt.Sprintf("%s track %d samples %d..%d workLen=%d oracle=%s zeroLenEOF=%v", name, trak.Tkhd.TrackID, a, b, wl, hx.Csv(orc), zeof),
						"in-memory and lazy CopySampleData differ on a real file (or wrong length): "+clip(rm)+" vs "+clip(rl))
				}
			}
		}
	}
}
