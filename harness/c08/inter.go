package main

// Multi-track progressive files whose chunks are interleaved in one mdat (chunks of the other track between the
// chunks of the copied track, chunk offsets of a track NOT increasing), and a sparse file with co64 offsets
// beyond 4 GiB read through a position-synthesizing ReadSeeker.
//
//	P  id sizes uniform chunkOffsets(hex) a b chunks segs     (segs = <seek offset hex>:<bytes read hex>;... as observed)

import (
	"bytes"
	"fmt"
	"io"
	"strings"

	"github.com/Eyevinn/mp4ff/mp4"
	"verifharness/hx"
)

type trackGT struct {
	spc     []int
	sizes   []int
	uniform int
	offsets []int
	locs    []sampleLoc
	co64    bool
}

type interFile struct {
	file    []byte
	mdatPos int
	large   bool
	plen    int
	tracks  []trackGT
}

func fillTables(stbl *mp4.StblBox, tr *trackGT) {
	n := len(tr.spc)
	stbl.Stts.SampleCount = []uint32{uint32(len(tr.sizes))}
	stbl.Stts.SampleTimeDelta = []uint32{1}
	for c := 0; c < n; c++ {
		if c == 0 || tr.spc[c] != tr.spc[c-1] {
			_ = stbl.Stsc.AddEntry(uint32(c+1), uint32(tr.spc[c]), 1)
		}
	}
	stbl.Stsz.SampleNumber = uint32(len(tr.sizes))
	if tr.uniform != 0 {
		stbl.Stsz.SampleUniformSize = uint32(tr.uniform)
	} else {
		for _, z := range tr.sizes {
			stbl.Stsz.SampleSize = append(stbl.Stsz.SampleSize, uint32(z))
		}
	}
	if tr.co64 {
		co64 := &mp4.Co64Box{ChunkOffset: make([]uint64, n)}
		for i, ch := range stbl.Children {
			if _, ok := ch.(*mp4.StcoBox); ok {
				stbl.Children[i] = co64
			}
		}
		stbl.Stco = nil
		stbl.Co64 = co64
	} else {
		stbl.Stco.ChunkOffset = make([]uint32, n)
	}
}

func setOffsets(stbl *mp4.StblBox, offs []uint64) {
	for c, o := range offs {
		if stbl.Co64 != nil {
			stbl.Co64.ChunkOffset[c] = o
		} else {
			stbl.Stco.ChunkOffset[c] = uint32(o)
		}
	}
}

func genTrackShape(rng *hx.Rng, maxChunks, maxSpc, maxSize int) trackGT {
	var tr trackGT
	if rng.Intn(5) == 0 {
		tr.uniform = rng.Range(1, maxSize)
	}
	cur := rng.Range(1, maxSpc)
	for c := rng.Range(1, maxChunks); c > 0; c-- {
		if rng.Intn(3) == 0 {
			cur = rng.Range(1, maxSpc)
		}
		tr.spc = append(tr.spc, cur)
		for k := 0; k < cur; k++ {
			sz := rng.Range(0, maxSize)
			if sz == 0 && rng.Intn(4) != 0 {
				sz = 1
			}
			if tr.uniform != 0 {
				sz = tr.uniform
			}
			tr.sizes = append(tr.sizes, sz)
		}
	}
	tr.co64 = rng.Intn(3) == 0
	return tr
}

// genInter: ftyp moov mdat, two tracks, the chunks of both tracks placed in a random order in the payload.
func genInter(rng *hx.Rng, maxSize int) interFile {
	var itf interFile
	itf.tracks = []trackGT{genTrackShape(rng, 4, 3, maxSize), genTrackShape(rng, 4, 3, maxSize)}
	type ck struct{ t, c int }
	var order []ck
	for t := range itf.tracks {
		for c := range itf.tracks[t].spc {
			order = append(order, ck{t, c})
		}
	}
	for i := len(order) - 1; i > 0; i-- { // random permutation: offsets of one track are in no particular order
		j := rng.Intn(i + 1)
		order[i], order[j] = order[j], order[i]
	}
	moov := mp4.NewMoovBox()
	moov.AddChild(mp4.CreateMvhd())
	var stbls []*mp4.StblBox
	for t := range itf.tracks {
		trak := mp4.CreateEmptyTrak(uint32(t+1), 1000, "video", "und")
		moov.AddChild(trak)
		fillTables(trak.Mdia.Minf.Stbl, &itf.tracks[t])
		stbls = append(stbls, trak.Mdia.Minf.Stbl)
	}
	ftyp := encBox(mp4.NewFtyp("isom", 0, []string{"isom"}))
	itf.large = rng.Intn(3) == 0
	hl := 8
	if itf.large {
		hl = 16
	}
	itf.mdatPos = len(ftyp) + int(moov.Size())
	pstart := itf.mdatPos + hl
	var payload []byte
	rel := make([][]int, len(itf.tracks))
	for t := range itf.tracks {
		rel[t] = make([]int, len(itf.tracks[t].spc))
	}
	first := make([][]int, len(itf.tracks)) // first sample index of each chunk
	for t, tr := range itf.tracks {
		s := 0
		for _, n := range tr.spc {
			first[t] = append(first[t], s)
			s += n
		}
	}
	for _, o := range order {
		if rng.Intn(4) == 0 {
			payload = append(payload, 0xF7, 0xF8)
		}
		rel[o.t][o.c] = len(payload)
		tr := itf.tracks[o.t]
		for k := 0; k < tr.spc[o.c]; k++ {
			sz := tr.sizes[first[o.t][o.c]+k]
			for j := 0; j < sz; j++ {
				payload = append(payload, byte(0x10+0x60*o.t+len(payload)%0x50))
			}
		}
	}
	itf.plen = len(payload)
	for t := range itf.tracks {
		tr := &itf.tracks[t]
		var offs []uint64
		si := 0
		for c := range tr.spc {
			off := pstart + rel[t][c]
			tr.offsets = append(tr.offsets, off)
			offs = append(offs, uint64(off))
			o := off
			for k := 0; k < tr.spc[c]; k++ {
				tr.locs = append(tr.locs, sampleLoc{o, tr.sizes[si]})
				o += tr.sizes[si]
				si++
			}
		}
		setOffsets(stbls[t], offs)
	}
	var f []byte
	f = append(f, ftyp...)
	f = append(f, encBox(moov)...)
	f = append(f, mdatBox(payload, itf.large)...)
	itf.file = hx.Exact(f)
	return itf
}

func copySamplesTrak(f *mp4.File, trak *mp4.TrakBox, file []byte, a, b uint32, workLen int, orc []int, zeof bool) string {
	w := &sink{}
	var err error
	ws := make([]byte, workLen)
	for i := range ws {
		ws[i] = wsFill
	}
	ws = hx.Exact(ws)
	p := hx.Try(func() { err = f.CopySampleData(w, newRS(file, 0, orc, zeof), trak, a, b, ws) })
	res := resStr(w.b, err, p)
	copyWithGuardedWS(f, trak, file, a, b, workLen, orc, zeof, res) // hygiene.go 2(a)
	return res
}

func (tr *trackGT) tableLine() string {
	sz := tr.sizes
	if tr.uniform != 0 {
		sz = nil
	}
	return fmt.Sprintf("T\t%s\t%s\t%d\t%s", nextID(), hx.Csv(sz), tr.uniform, hx.Csv(tr.offsets))
}

func corrInter(rng *hx.Rng, n int) {
	for i := 0; i < n; i++ {
		ms := 5
		if i%5 == 4 {
			ms = 40
		}
		itf := genInter(rng, ms)
		zeof := i%2 == 0
		fm, fl, _, _ := decodeFileBoth(itf.file, genOracle(rng), zeof)
		mf := mfile{itf.file, itf.mdatPos, itf.large, itf.plen}
		mm, ml := emitFile(mf, genOracle(rng), zeof)
		if fm == nil || fl == nil || mm == nil || ml == nil || fm.Mdat == nil || fl.Mdat == nil {
			continue
		}
		for t := range itf.tracks {
			tr := &itf.tracks[t]
			fmt.Fprintln(out, tr.tableLine())
			ns := len(tr.sizes)
			stsc := fm.Moov.Traks[t].Mdia.Minf.Stbl.Stsc
			for j := 0; j < 10; j++ {
				a := rng.Range(1, ns)
				b := rng.Range(a, ns)
				if j == 0 {
					a, b = 1, ns
				}
				cs, err := stsc.GetContainingChunks(uint32(a), uint32(b))
				if err != nil {
					continue
				}
				for _, wl := range []int{0, 1, 2, 3, 5, 8} {
					orc := genOracle(rng)
					rm := copySamplesTrak(fm, fm.Moov.Traks[t], itf.file, uint32(a), uint32(b), wl, orc, zeof)
					rl := copySamplesTrak(fl, fl.Moov.Traks[t], itf.file, uint32(a), uint32(b), wl, orc, zeof)
					fmt.Fprintf(out, "S\t%s\t1\t%d\t%d\t%d\t%s\t%s\t%s\t%s\n", nextID(), a, b, wl, hx.Csv(orc), chunksStr(cs), rm, rl)
				}
			}
		}
	}
}

func searchInter(rng *hx.Rng, n int) {
	for i := 0; i < n; i++ {
		ms := 6
		if i%6 == 5 {
			ms = 60
		}
		itf := genInter(rng, ms)
		zeof := i%2 == 0
		fm, fl, em, el := decodeFileBoth(itf.file, genOracle(rng), zeof)
		if !compareTrees("DecodeFile(multi-track)", itf.file, fm, fl, em, el) {
			continue
		}
		for t := range itf.tracks {
			tr := &itf.tracks[t]
			ns := len(tr.sizes)
			for a := 1; a <= ns; a++ {
				for b := a; b <= ns; b++ {
					if ns > 6 && rng.Intn(3) != 0 && !(a == 1 && b == ns) {
						continue
					}
					var want []byte
					var part []int // bytes of the interval per chunk part
					for k := a; k <= b; k++ {
						want = append(want, itf.file[tr.locs[k-1].off:tr.locs[k-1].off+tr.locs[k-1].size]...)
					}
					_ = part
					wls := []int{0, 1, 2, 3, 5, 7, 8, 16, 4096}
					if len(want) > 0 {
						wls = append(wls, len(want), len(want)+1)
						if len(want) > 1 {
							wls = append(wls, len(want)-1)
						}
					}
					for _, wl := range wls {
						orc := genOracle(rng)
						evals++
						rm := copySamplesTrak(fm, fm.Moov.Traks[t], itf.file, uint32(a), uint32(b), wl, orc, zeof)
						rl := copySamplesTrak(fl, fl.Moov.Traks[t], itf.file, uint32(a), uint32(b), wl, orc, zeof)
						wit := fmt.Sprintf("track %d samples %d..%d workLen=%d oracle=%s zeroLenEOF=%v samplesPerChunk=%s sizes=%s uniform=%d chunkOffsets=%s mdat@%d large=%v file=%s",
							t+1, a, b, wl, hx.Csv(orc), zeof, hx.Csv(tr.spc), hx.Csv(tr.sizes), tr.uniform, hx.Csv(tr.offsets), itf.mdatPos, itf.large, shortHex(itf.file))
						ws := "o:" + hx.Hex(want)
						if rm != ws {
							fail("File.CopySampleData(in-memory)", classOf(rm), wit, "multi-track file: bytes written differ from the samples' bytes: got "+clip(rm))
						}
						if rl != ws {
							site := "File.CopySampleData(lazy,workbuffer)"
							if wl == 0 {
								site = "File.CopySampleData(lazy,CopyN)"
							}
							fail(site, classOf(rl), wit, "multi-track file: bytes written differ from the samples' bytes: got "+clip(rl))
						}
					}
				}
			}
		}
	}
}

// ---------------------------------------------------------------- sparse file beyond 4 GiB
// sparseRS serves `head` for the first len(head) bytes and a function of the position above; it records every
// Seek(start) and the number of bytes read after it.
type sparseRS struct {
	head  []byte
	total int64
	pos   int64
	recs  [][2]int64
	orc   []int
	zrun  int
}

func sparseByte(p int64) byte { return byte(p*131 + p>>8*31 + p>>16*17 + p>>32*7 + 5) }

func (r *sparseRS) Read(p []byte) (int, error) {
	if len(p) == 0 {
		if r.zrun++; r.zrun > 4096 {
			panic("livelock: more than 4096 consecutive empty reads")
		}
		return 0, nil
	}
	r.zrun = 0
	if r.pos >= r.total {
		return 0, io.EOF
	}
	k := int64(len(p))
	if r.total-r.pos < k {
		k = r.total - r.pos
	}
	if len(r.orc) > 0 {
		o := int64(r.orc[0])
		r.orc = r.orc[1:]
		if o < 1 {
			o = 1
		}
		if o < k {
			k = o
		}
	}
	for i := int64(0); i < k; i++ {
		q := r.pos + i
		if q < int64(len(r.head)) {
			p[i] = r.head[q]
		} else {
			p[i] = sparseByte(q)
		}
	}
	r.pos += k
	if len(r.recs) > 0 {
		r.recs[len(r.recs)-1][1] += k
	}
	return int(k), nil
}

func (r *sparseRS) Seek(off int64, whence int) (int64, error) {
	var abs int64
	switch whence {
	case io.SeekStart:
		abs = off
	case io.SeekCurrent:
		abs = r.pos + off
	case io.SeekEnd:
		abs = r.total + off
	}
	if abs < 0 {
		return 0, fmt.Errorf("negative position")
	}
	r.pos = abs
	if whence == io.SeekStart {
		r.recs = append(r.recs, [2]int64{abs, 0})
	}
	return abs, nil
}

type sparseFile struct {
	head   []byte
	total  int64
	tr     trackGT
	offs64 []uint64
	locs64 [][2]int64
}

func genSparse(rng *hx.Rng) sparseFile {
	var sf sparseFile
	sf.tr = genTrackShape(rng, 5, 3, 9)
	sf.tr.co64 = true
	moov := mp4.NewMoovBox()
	moov.AddChild(mp4.CreateMvhd())
	trak := mp4.CreateEmptyTrak(1, 1000, "video", "und")
	moov.AddChild(trak)
	stbl := trak.Mdia.Minf.Stbl
	fillTables(stbl, &sf.tr)
	ftyp := encBox(mp4.NewFtyp("isom", 0, []string{"isom"}))
	mdatPos := len(ftyp) + int(moov.Size())
	pstart := int64(mdatPos + 16)
	plen := int64(5)<<30 + int64(rng.Intn(1000))
	// chunk offsets: around the 4 GiB line, far apart, not increasing
	cands := []int64{0, 17, 1<<32 - pstart - 3, 1<<32 - pstart, 1<<32 - pstart + 1, 1<<32 + 12345, 3 << 30, 1 << 31, 1<<31 - 5, plen - 40, 5<<30 - 100}
	used := map[int64]bool{}
	si := 0
	for c := range sf.tr.spc {
		var rel int64
		for {
			rel = cands[rng.Intn(len(cands))] + int64(rng.Intn(3))*64
			if !used[rel] && rel >= 0 && rel+40 <= plen {
				break
			}
		}
		used[rel] = true
		off := pstart + rel
		sf.offs64 = append(sf.offs64, uint64(off))
		o := off
		for k := 0; k < sf.tr.spc[c]; k++ {
			sf.locs64 = append(sf.locs64, [2]int64{o, int64(sf.tr.sizes[si])})
			o += int64(sf.tr.sizes[si])
			si++
		}
	}
	setOffsets(stbl, sf.offs64)
	var h []byte
	h = append(h, ftyp...)
	h = append(h, encBox(moov)...)
	h = append(h, be32(1)...)
	h = append(h, "mdat"...)
	h = append(h, be64(uint64(16+plen))...)
	sf.head = h
	sf.total = int64(len(h)) + plen
	return sf
}

func hexCsv64(v []uint64) string {
	ss := make([]string, len(v))
	for i, x := range v {
		ss[i] = fmt.Sprintf("%x", x)
	}
	return strings.Join(ss, ",")
}

// sparseRun decodes lazily and copies samples a..b; returns outcome, written bytes and the observed (seek, read) records.
func sparseRun(sf sparseFile, a, b uint32, wl int, orc []int) (string, []byte, string, *mp4.File) {
	rs := &sparseRS{head: sf.head, total: sf.total}
	var f *mp4.File
	var err error
	if p := hx.Try(func() { f, err = mp4.DecodeFile(rs, mp4.WithDecodeMode(mp4.DecModeLazyMdat)) }); p != "" || err != nil {
		return "decode-failed", nil, "", nil
	}
	rs.recs = nil
	rs.orc = append([]int{}, orc...)
	w := &sink{}
	p := hx.Try(func() { err = f.CopySampleData(w, rs, f.Moov.Trak, a, b, hx.Exact(make([]byte, wl))) })
	if p != "" {
		return "p", nil, "", f
	}
	if err != nil {
		return "e", nil, "", f
	}
	var ss []string
	for _, r := range rs.recs {
		ss = append(ss, fmt.Sprintf("%x:%x", r[0], r[1]))
	}
	return "o", w.b, strings.Join(ss, ";"), f
}

func corrSparse(rng *hx.Rng, n int) {
	for i := 0; i < n; i++ {
		sf := genSparse(rng)
		ns := len(sf.tr.sizes)
		for j := 0; j < 6; j++ {
			a := rng.Range(1, ns)
			b := rng.Range(a, ns)
			if j == 0 {
				a, b = 1, ns
			}
			wl := rng.Pick(0, 1, 3, 8, 4096)
			res, _, segs, f := sparseRun(sf, uint32(a), uint32(b), wl, genOracle(rng))
			if res != "o" || f == nil {
				continue
			}
			cs, err := f.Moov.Trak.Mdia.Minf.Stbl.Stsc.GetContainingChunks(uint32(a), uint32(b))
			if err != nil {
				continue
			}
			sz := sf.tr.sizes
			if sf.tr.uniform != 0 {
				sz = nil
			}
			fmt.Fprintf(out, "P\t%s\t%s\t%d\t%s\t%d\t%d\t%s\t%s\n", nextID(), hx.Csv(sz), sf.tr.uniform, hexCsv64(sf.offs64), a, b, chunksStr(cs), segs)
		}
	}
}

func searchSparse(rng *hx.Rng, n int) {
	for i := 0; i < n; i++ {
		sf := genSparse(rng)
		ns := len(sf.tr.sizes)
		for j := 0; j < 8; j++ {
			a := rng.Range(1, ns)
			b := rng.Range(a, ns)
			if j == 0 {
				a, b = 1, ns
			}
			wl := rng.Pick(0, 1, 2, 3, 7, 8, 4096)
			orc := genOracle(rng)
			evals++
			res, got, _, f := sparseRun(sf, uint32(a), uint32(b), wl, orc)
			wit := fmt.Sprintf("sparse file of %d bytes (mdat 16-byte header), co64 offsets %s sizes=%s samplesPerChunk=%s samples %d..%d workLen=%d oracle=%s", sf.total, hexCsv64(sf.offs64), hx.Csv(sf.tr.sizes), hx.Csv(sf.tr.spc), a, b, wl, hx.Csv(orc))
			if f != nil && j == 0 {
				if f.Mdat == nil || !f.Mdat.LargeSize || f.Mdat.Size() != uint64(sf.total)-f.Mdat.StartPos || f.Mdat.PayloadAbsoluteOffset() != f.Mdat.StartPos+16 || f.Size() != uint64(sf.total) {
					fail("DecodeFile(lazy,>4GiB)", "tree-positions-differ", wit, "lazily decoded mdat beyond 4 GiB: wrong Size/positions")
				}
			}
			var want []byte
			for k := a; k <= b; k++ {
				l := sf.locs64[k-1]
				for q := l[0]; q < l[0]+l[1]; q++ {
					want = append(want, sparseByte(q))
				}
			}
			if res != "o" || !bytes.Equal(got, want) {
				site := "File.CopySampleData(lazy,workbuffer)"
				if wl == 0 {
					site = "File.CopySampleData(lazy,CopyN)"
				}
				cl := "wrong-bytes"
				if res == "e" || res == "decode-failed" {
					cl = "error-on-valid-interval"
				} else if res == "p" {
					cl = "panic-on-valid-interval"
				}
				fail(site, cl, wit, fmt.Sprintf("chunk offsets beyond 4 GiB: outcome %s, got %x want %x", res, got, want))
			}
		}
	}
}
