// C08 harness: cross-cutting hygiene oracles (see reports/hygiene-B.md). Active in `search` only (inSearch).
//
//  2. WRITES BEYOND len / DEPENDENCE ON cap.
//     (a) File.CopySampleData takes a caller-owned work buffer: every copySamples / copySamplesTrak call is repeated with the
//         work buffer as a sub-slice of a larger buffer (guard bytes in front and behind, spare capacity behind): same outcome and
//         bytes as with an exact buffer, guards intact.
//     (b) MdatBox.ReadData hands a byte slice to the caller. In lazy mode it is a fresh buffer; in memory mode it may be a view of
//         the media data (zero copy: writing INSIDE the result is not examined), but what the caller appends to its result must not
//         land in the media data behind the range: after every successful ReadData the harness appends 8 bytes to the result and
//         compares the in-memory payload with the file (appendToResult).
//  3. HIDDEN STATE BETWEEN CALLS. After the four range queries of a check, a query the API refuses (range beyond the payload) is
//     put to both handles and the four queries are asked again in the opposite order: same answers (reaskAfterFailure).
// Aliasing of arguments: the API takes no caller-owned data besides the work buffer and the io.Writer / io.ReadSeeker.
package main

import (
	"bytes"
	"fmt"

	"github.com/Eyevinn/mp4ff/mp4"

	"verifharness/hx"
)

var inSearch bool

const hygGuard = 16
const hygByte = 0x5c

func hygFail(site, class, wit, desc string) {
	if inSearch {
		fail(site, class, wit, desc)
	}
}

// guardedWS: a work buffer of n bytes (filled with wsFill like the exact one) inside a larger buffer.
func guardedWS(n int) (ws, whole []byte) {
	whole = make([]byte, hygGuard+n+hygGuard)
	for i := range whole {
		whole[i] = hygByte
	}
	ws = whole[hygGuard : hygGuard+n]
	for i := range ws {
		ws[i] = wsFill
	}
	return ws, whole
}

func wsGuardsIntact(whole []byte, n int) bool {
	for _, g := range whole[:hygGuard] {
		if g != hygByte {
			return false
		}
	}
	for _, g := range whole[hygGuard+n:] {
		if g != hygByte {
			return false
		}
	}
	return true
}

// copyWithGuardedWS repeats a CopySampleData call with a guarded work buffer and compares with the exact-buffer result.
func copyWithGuardedWS(f *mp4.File, trak *mp4.TrakBox, file []byte, a, b uint32, workLen int, orc []int, zeof bool, exact string) {
	if !inSearch {
		return
	}
	w := &sink{}
	var err error
	ws, whole := guardedWS(workLen)
	p := hx.Try(func() { err = f.CopySampleData(w, newRS(file, 0, orc, zeof), trak, a, b, ws) })
	got := resStr(w.b, err, p)
	wit := fmt.Sprintf("samples %d..%d work buffer %d bytes (sub-slice with %d spare bytes) lazy=%v oracle=%s file=%s", a, b, workLen, hygGuard, f.Mdat != nil && f.Mdat.IsLazy(), hx.Csv(orc), hx.Hex(file[:minInt(len(file), 80)]))
	if !wsGuardsIntact(whole, workLen) {
		hygFail("File.CopySampleData", "writes-beyond-workspace", wit, "CopySampleData changed bytes in front of or behind the work buffer it was given")
	} else if got != exact {
		hygFail("File.CopySampleData", "depends-on-workspace-capacity", wit, "with a work buffer that has spare capacity the outcome is "+clip(got)+", with an exact one "+clip(exact))
	}
}

// appendToResult: the caller appends to the slice ReadData gave it; the media data of an in-memory mdat must not change.
func appendToResult(m *mp4.MdatBox, file []byte, start, size int64, b []byte) {
	if !inSearch {
		return
	}
	if m.IsLazy() {
		_ = append(b, 0xee, 0xee, 0xee, 0xee, 0xee, 0xee, 0xee, 0xee)
		return
	}
	ps := int(m.PayloadAbsoluteOffset())
	if ps < 0 || ps+len(m.Data) > len(file) || !bytes.Equal(m.Data, file[ps:ps+len(m.Data)]) {
		return // not a payload the harness knows (or already changed): nothing to compare with
	}
	_ = append(b, 0xee, 0xee, 0xee, 0xee, 0xee, 0xee, 0xee, 0xee)
	if !bytes.Equal(m.Data, file[ps:ps+len(m.Data)]) {
		hygFail("MdatBox.ReadData(in-memory)", "result-capacity-reaches-media-data",
			fmt.Sprintf("payload %d bytes at %d: ReadData(start=%d size=%d), then append(result, 8 bytes)", len(m.Data), ps, start, size),
			"appending to the slice ReadData returned overwrote the media data behind the range (the result carries the capacity of the whole payload); in lazy mode the same append leaves the file alone")
		copy(m.Data, file[ps:ps+len(m.Data)]) // repair, so that the following queries are judged on their own
	}
}

// reaskAfterFailure: class 3, see above. first = the four answers (read mem, read lazy, copy mem, copy lazy).
func reaskAfterFailure(mm, ml *mp4.MdatBox, file []byte, start, size int64, orc []int, zeof bool, first [4]string, wit string) {
	beyond := int64(mm.PayloadAbsoluteOffset()) + int64(len(mm.Data)) + 3
	for _, m := range []*mp4.MdatBox{mm, ml} {
		_ = readData(m, file, beyond, 5, orc, zeof)
		_ = copyData(m, file, beyond, 5, orc, zeof)
	}
	second := [4]string{}
	second[3] = copyData(ml, file, start, size, orc, zeof)
	second[2] = copyData(mm, file, start, size, orc, zeof)
	second[1] = readData(ml, file, start, size, orc, zeof)
	second[0] = readData(mm, file, start, size, orc, zeof)
	sites := [4]string{"MdatBox.ReadData(in-memory)", "MdatBox.ReadData(lazy)", "MdatBox.CopyData(in-memory)", "MdatBox.CopyData(lazy)"}
	for i := range first {
		if first[i] != second[i] {
			hygFail(sites[i], "second-call-differs", wit, "the same range asked again after a refused query answers "+clip(second[i])+", the first time "+clip(first[i]))
		}
	}
}
