// Correspondence for the aggregate model (coq/c02/C02AggModel.v):
//   c02 corr -seed S -n N : one line per case
//       A <id> <kind> <tokens of the structure> <ops> <observations of the real implementation>
//   kinds: frag seg init file.  The model driver (ocaml/c02_driver.ml) rebuilds the structure, runs the same
//   history of [Size | Info | Encode | EncodeSW] on the model and compares, after every operation, the outcome
//   (Size() value; length + md5 + top-level box lengths of the bytes written; error; panic) and the mutated
//   fields (trun flags / data offset / first sample flags, tfhd flags / defaults, mdat LargeSize, EncOptimize).
package main

import (
	"bytes"
	"crypto/md5"
	"encoding/binary"
	"encoding/hex"
	"fmt"
	"os"
	"sort"
	"strconv"
	"strings"

	"github.com/Eyevinn/mp4ff/bits"
	"github.com/Eyevinn/mp4ff/mp4"
	"verifharness/hx"
)

const maxTokBytes = 400000

type unsupported struct{ why string }

var corrStats = map[string]int{}

// ------------------------------------------------------------------ serialisation of the structure
type tw struct {
	sb    strings.Builder
	bytes int
}

func (t *tw) a(xs ...string) {
	for _, x := range xs {
		t.sb.WriteByte(' ')
		t.sb.WriteString(x)
		t.bytes += len(x)
	}
}
func (t *tw) n(v int)       { t.a(fmt.Sprint(v)) }
func (t *tw) u(v uint64)    { t.a(hx.HexU(v)) }
func (t *tw) b(v bool)      { t.a(map[bool]string{false: "0", true: "1"}[v]) }
func (t *tw) hexb(b []byte) { t.a(hx.Hex(b)) }

// an opaque box: type, Size(), the bytes Encode writes, whether Encode fails
func (t *tw) obox(b mp4.Box) {
	var buf bytes.Buffer
	var err error
	// Size() as it is BEFORE this box has ever been encoded: the model assumes an opaque box to be stateless and
	// the driver reports a box whose Encode writes something else than this Size() / a different size field
	var size0 uint64
	p := hx.Try(func() { size0 = b.Size(); err = b.Encode(&buf) })
	if p != "" {
		panic(unsupported{"opaque box panics in Size/Encode: " + b.Type()})
	}
	ty := []byte(b.Type())
	for len(ty) < 4 {
		ty = append(ty, ' ')
	}
	t.a("O", hex.EncodeToString(ty[:4]))
	t.u(size0)
	if err != nil {
		t.a("-")
	} else {
		t.hexb(buf.Bytes())
	}
	t.b(err != nil)
}

func (t *tw) tfhd(h *mp4.TfhdBox) {
	t.a("h")
	t.u(uint64(h.Flags))
	t.u(uint64(h.TrackID))
	t.u(h.BaseDataOffset)
	t.u(uint64(h.SampleDescriptionIndex))
	t.u(uint64(h.DefaultSampleDuration))
	t.u(uint64(h.DefaultSampleSize))
	t.u(uint64(h.DefaultSampleFlags))
}

func (t *tw) trun(r *mp4.TrunBox) {
	t.a("r")
	t.u(uint64(r.Version))
	t.u(uint64(r.Flags))
	t.a(hx.HexI(int64(r.DataOffset)))
	t.u(uint64(mp4.VerifC02FirstSampleFlags(r)))
	t.u(uint64(mp4.VerifC05WriteOrderNr(r)))
	t.n(len(r.Samples))
	for _, s := range r.Samples {
		t.u(uint64(s.Flags))
		t.u(uint64(s.Dur))
		t.u(uint64(s.Size))
		t.a(hx.HexI(int64(s.CompositionTimeOffset)))
	}
}

func (t *tw) traf(tr *mp4.TrafBox) {
	t.a("T")
	t.n(len(tr.Children))
	var lastTfhd *mp4.TfhdBox
	var truns []*mp4.TrunBox
	for _, c := range tr.Children {
		switch b := c.(type) {
		case *mp4.TfhdBox:
			if b.Version != 0 {
				panic(unsupported{"tfhd version != 0"})
			}
			lastTfhd = b
			t.tfhd(b)
		case *mp4.TfdtBox:
			if b.Version > 1 || b.Flags != 0 {
				t.obox(b)
			} else {
				t.a("d")
				t.u(uint64(b.Version))
				t.u(b.BaseMediaDecodeTime())
			}
		case *mp4.TrunBox:
			truns = append(truns, b)
			t.trun(b)
		default:
			t.obox(c)
		}
	}
	// the pointers the code follows must be the ones the model derives from the child order
	if tr.Tfhd != lastTfhd || len(tr.Truns) != len(truns) || (len(truns) > 0 && tr.Trun != truns[0]) || (len(truns) == 0 && tr.Trun != nil) {
		panic(unsupported{"traf pointers differ from child order"})
	}
	for i := range truns {
		if tr.Truns[i] != truns[i] {
			panic(unsupported{"traf.Truns differs from child order"})
		}
	}
}

func (t *tw) moof(m *mp4.MoofBox) {
	t.n(len(m.Children))
	var trafs []*mp4.TrafBox
	for _, c := range m.Children {
		switch b := c.(type) {
		case *mp4.MfhdBox:
			if b.Version != 0 || b.Flags != 0 {
				t.obox(b)
			} else {
				t.a("H")
				t.u(uint64(b.SequenceNumber))
			}
		case *mp4.TrafBox:
			trafs = append(trafs, b)
			t.traf(b)
		default:
			t.obox(c)
		}
	}
	if len(m.Trafs) != len(trafs) || (len(trafs) > 0 && m.Traf != trafs[0]) || (len(trafs) == 0 && m.Traf != nil) {
		panic(unsupported{"moof pointers differ from child order"})
	}
	for i := range trafs {
		if m.Trafs[i] != trafs[i] {
			panic(unsupported{"moof.Trafs differs from child order"})
		}
	}
}

func (t *tw) mdat(m *mp4.MdatBox) {
	t.hexb(m.Data)
	t.n(len(m.DataParts))
	for _, p := range m.DataParts {
		t.hexb(p)
	}
	t.u(m.GetLazyDataSize())
	t.b(m.LargeSize)
}

func (t *tw) frag(f *mp4.Fragment) {
	var pre, mid, post []mp4.Box
	var moof *mp4.MoofBox
	var mdat *mp4.MdatBox
	for _, c := range f.Children {
		switch b := c.(type) {
		case *mp4.MoofBox:
			if moof != nil || mdat != nil {
				panic(unsupported{"fragment shape: second moof or moof after mdat"})
			}
			moof = b
		case *mp4.MdatBox:
			if mdat != nil || moof == nil {
				panic(unsupported{"fragment shape: second mdat or mdat before moof"})
			}
			mdat = b
		default:
			if mdat != nil {
				post = append(post, c)
			} else if moof != nil {
				mid = append(mid, c)
			} else {
				pre = append(pre, c)
			}
		}
	}
	if f.Moof != moof || f.Mdat != mdat {
		panic(unsupported{"fragment pointers differ from children"})
	}
	t.a("F")
	t.b(f.EncOptimize&mp4.OptimizeTrun != 0)
	t.n(len(pre))
	for _, b := range pre {
		t.obox(b)
	}
	if moof == nil {
		t.a("0")
	} else {
		t.a("1")
		t.moof(moof)
	}
	t.n(len(mid))
	for _, b := range mid {
		t.obox(b)
	}
	if mdat == nil {
		t.a("0")
	} else {
		t.a("1")
		t.mdat(mdat)
	}
	t.n(len(post))
	for _, b := range post {
		t.obox(b)
	}
}

func (t *tw) seg(s *mp4.MediaSegment) {
	t.a("S")
	t.b(s.EncOptimize&mp4.OptimizeTrun != 0)
	if s.Styp == nil {
		t.a("0")
	} else {
		t.a("1")
		t.obox(s.Styp)
	}
	t.n(len(s.Sidxs))
	for _, x := range s.Sidxs {
		t.obox(x)
	}
	t.n(len(s.Fragments))
	for _, f := range s.Fragments {
		t.frag(f)
	}
}

func (t *tw) init(i *mp4.InitSegment) {
	t.n(len(i.Children))
	for _, c := range i.Children {
		t.obox(c)
	}
}

func (t *tw) file(f *mp4.File) {
	t.a("L")
	t.b(f.IsFragmented())
	t.n(int(f.FragEncMode))
	t.b(f.EncOptimize&mp4.OptimizeTrun != 0)
	// are the mdat boxes of the segments the ones in f.Children (decoded file) or not (AddMediaSegment)?
	inChildren := map[*mp4.MdatBox]bool{}
	for _, c := range f.Children {
		if m, ok := c.(*mp4.MdatBox); ok {
			inChildren[m] = true
		}
	}
	nsh, nns := 0, 0
	for _, s := range f.Segments {
		for _, fr := range s.Fragments {
			if fr.Mdat != nil {
				if inChildren[fr.Mdat] {
					nsh++
				} else {
					nns++
				}
			}
		}
	}
	if nsh > 0 && nns > 0 {
		panic(unsupported{"file with shared and unshared fragment boxes"})
	}
	t.b(nns == 0)
	if f.Init == nil {
		t.a("0")
	} else {
		t.a("1")
		t.init(f.Init)
	}
	t.n(len(f.Sidxs))
	for _, x := range f.Sidxs {
		t.obox(x)
	}
	t.n(len(f.Segments))
	for _, s := range f.Segments {
		t.seg(s)
	}
	if f.Mfra == nil {
		t.a("0")
	} else {
		t.a("1")
		t.obox(f.Mfra)
	}
	t.n(len(f.Children))
	for _, c := range f.Children {
		switch b := c.(type) {
		case *mp4.MoofBox:
			t.a("M")
			t.moof(b)
		case *mp4.MdatBox:
			t.a("D")
			t.mdat(b)
		default:
			t.obox(c)
		}
	}
}

// ------------------------------------------------------------------ the mutated fields
func digMoof(sb *strings.Builder, m *mp4.MoofBox) {
	for _, c := range m.Children {
		tr, ok := c.(*mp4.TrafBox)
		if !ok {
			continue
		}
		sb.WriteString("T(")
		for _, tc := range tr.Children {
			switch b := tc.(type) {
			case *mp4.TfhdBox:
				fmt.Fprintf(sb, "h%x,%x,%x,%x;", b.Flags, b.DefaultSampleDuration, b.DefaultSampleSize, b.DefaultSampleFlags)
			case *mp4.TrunBox:
				fmt.Fprintf(sb, "r%x,%s,%x;", b.Flags, hx.HexI(int64(b.DataOffset)), mp4.VerifC02FirstSampleFlags(b))
			}
		}
		sb.WriteString(")")
	}
}

func digMdat(sb *strings.Builder, m *mp4.MdatBox) {
	if m == nil {
		sb.WriteString("-")
	} else if m.LargeSize {
		sb.WriteString("D1")
	} else {
		sb.WriteString("D0")
	}
}

func digFrag(sb *strings.Builder, f *mp4.Fragment) {
	fmt.Fprintf(sb, "F%d[", f.EncOptimize&mp4.OptimizeTrun)
	if f.Moof == nil {
		sb.WriteString("-")
	} else {
		digMoof(sb, f.Moof)
	}
	sb.WriteString("]")
	digMdat(sb, f.Mdat)
}

func digSeg(sb *strings.Builder, s *mp4.MediaSegment) {
	fmt.Fprintf(sb, "S%d", s.EncOptimize&mp4.OptimizeTrun)
	for _, f := range s.Fragments {
		digFrag(sb, f)
	}
}

func digFile(sb *strings.Builder, f *mp4.File) {
	if f.IsFragmented() && f.FragEncMode == mp4.EncModeSegment {
		sb.WriteString("L")
		for _, s := range f.Segments {
			digSeg(sb, s)
		}
		return
	}
	sb.WriteString("C")
	for _, c := range f.Children {
		switch b := c.(type) {
		case *mp4.MoofBox:
			sb.WriteString("[")
			digMoof(sb, b)
			sb.WriteString("]")
		case *mp4.MdatBox:
			digMdat(sb, b)
		}
	}
}

// ------------------------------------------------------------------ running a history
type cagg struct {
	size   func() uint64
	encode func(*bytes.Buffer) error
	encsw  func(bits.SliceWriter) error
	info   func(*bytes.Buffer) error
	digest func(*strings.Builder)
}

// lengths of the top-level boxes of an output according to its own size fields
func topLens(b []byte) string {
	var ls []string
	pos := 0
	for pos < len(b) {
		if len(b)-pos < 8 {
			return "X"
		}
		sz := uint64(binary.BigEndian.Uint32(b[pos:]))
		if sz == 1 {
			if len(b)-pos < 16 {
				return "X"
			}
			sz = binary.BigEndian.Uint64(b[pos+8:])
			if sz < 16 {
				return "X"
			}
		} else if sz < 8 {
			return "X"
		}
		if sz > uint64(len(b)-pos) {
			return "X"
		}
		ls = append(ls, hx.HexU(sz))
		pos += int(sz)
	}
	if len(ls) == 0 {
		return "-"
	}
	return strings.Join(ls, ",")
}

func bytesObs(b []byte) string {
	s := md5.Sum(b)
	return fmt.Sprintf("B%x:%s:%s", len(b), hex.EncodeToString(s[:]), topLens(b))
}

func runHistory(a cagg, ops string) string {
	var obs []string
	for _, op := range ops {
		var o string
		p := hx.Try(func() {
			switch op {
			case 's':
				o = "S" + hx.HexU(a.size())
			case 'i':
				var ib bytes.Buffer
				_ = a.info(&ib)
				o = "I"
			case 'e':
				var buf bytes.Buffer
				if err := a.encode(&buf); err != nil {
					o = "E"
				} else {
					o = bytesObs(buf.Bytes())
				}
			case 'w':
				// a writer that is big enough: the outcome of EncodeSW must then be that of Encode
				sw := bits.NewFixedSliceWriter(swCapacity)
				if err := a.encsw(sw); err != nil {
					o = "E"
				} else {
					o = bytesObs(sw.Bytes())
				}
			case 'a', 'b', 'c', 'd':
				// a writer sized from Size(): exactly, one spare byte, 64 spare bytes, twice (XSizedSW of the model)
				sz := a.size()
				mul, add := uint64(1), uint64(0)
				switch op {
				case 'b':
					add = 1
				case 'c':
					add = 64
				case 'd':
					mul = 2
				}
				if sz > capLimit || mul*sz+add > capLimit {
					o = "S" + hx.HexU(sz) // no writer of that size is allocated: the operation was Size() alone
					break
				}
				sw := bits.NewFixedSliceWriter(int(mul*sz + add))
				if err := a.encsw(sw); err != nil {
					o = "E"
				} else {
					o = bytesObs(sw.Bytes())
				}
			}
		})
		var sb strings.Builder
		if p != "" {
			obs = append(obs, "P")
			break
		}
		a.digest(&sb)
		obs = append(obs, o+"/"+sb.String())
	}
	return strings.Join(obs, " ")
}

// capacity for EncodeSW: asking Size() would set LargeSize before the operation under test, so the capacity
// is taken generously from the token size of the case
var swCapacity = 1 << 20

// above this capacity the sized-writer operations degrade to Size() (same rule in ocaml/c02_driver.ml)
const capLimit = 1 << 22

func genOps(r *hx.Rng) string {
	n := r.Range(2, 7)
	b := make([]byte, n)
	for i := range b {
		b[i] = "sieeweabcd"[r.Intn(10)]
	}
	return string(b)
}

func emitCase(id, kind string, build func(t *tw), a cagg, ops string) {
	t := &tw{}
	var why string
	func() {
		defer func() {
			if r := recover(); r != nil {
				if u, ok := r.(unsupported); ok {
					why = u.why
					return
				}
				panic(r)
			}
		}()
		build(t)
	}()
	if why != "" {
		corrStats["skipped: "+why]++
		return
	}
	if t.bytes > maxTokBytes {
		corrStats["skipped: too big"]++
		return
	}
	swCapacity = t.bytes + 4096
	obs := runHistory(a, ops)
	corrStats["cases "+kind]++
	if strings.Contains(obs, "E") {
		corrStats["histories with an error outcome"]++
	}
	if strings.HasSuffix(obs, "P") {
		corrStats["histories ending in a panic"]++
	}
	fmt.Fprintf(out, "A\t%s\t%s\t%s\t%s\t%s\n", id, kind, strings.TrimSpace(t.sb.String()), ops, obs)
}

func fragAgg(f *mp4.Fragment) cagg {
	return cagg{f.Size, func(b *bytes.Buffer) error { return f.Encode(b) }, f.EncodeSW,
		func(b *bytes.Buffer) error { return f.Info(b, "all:1", "", "  ") }, func(sb *strings.Builder) { digFrag(sb, f) }}
}
func segAgg(s *mp4.MediaSegment) cagg {
	return cagg{s.Size, func(b *bytes.Buffer) error { return s.Encode(b) }, s.EncodeSW,
		func(b *bytes.Buffer) error { return s.Info(b, "all:1", "", "  ") }, func(sb *strings.Builder) { digSeg(sb, s) }}
}
func initAgg(i *mp4.InitSegment) cagg {
	return cagg{i.Size, func(b *bytes.Buffer) error { return i.Encode(b) }, i.EncodeSW,
		func(b *bytes.Buffer) error { return i.Info(b, "all:1", "", "  ") }, func(sb *strings.Builder) { sb.WriteString("I") }}
}
func fileCagg(f *mp4.File) cagg {
	return cagg{f.Size, func(b *bytes.Buffer) error { return f.Encode(b) }, f.EncodeSW,
		func(b *bytes.Buffer) error { return f.Info(b, "all:1", "", "  ") }, func(sb *strings.Builder) { digFile(sb, f) }}
}

// ------------------------------------------------------------------ generators
func extraBox(r *hx.Rng) mp4.Box {
	n := r.Intn(12)
	pl := r.Bytes(n, nil)
	switch r.Intn(5) {
	case 0:
		return mp4.NewFreeBox(pl)
	case 1:
		u := &mp4.UUIDBox{UnknownPayload: pl}
		_ = u.SetUUID("0123456789abcdef0123456789abcdef")
		return u
	case 2:
		return mp4.CreateUnknownBox("zzzz", uint64(8+n), pl)
	case 3:
		return mp4.CreatePrftBox(byte(n&1), 0, 1, mp4.NTP64(0x1234567890), 77)
	default:
		return &mp4.EmsgBox{Version: byte(n & 1), TimeScale: 1000, SchemeIDURI: "urn:x", Value: "v", MessageData: pl}
	}
}

// genFragment builds a fragment through the public API; wild adds the shapes the constructors do not make
// (the malformed stream): hand-set flags, preset / zero data offsets, missing boxes, two tfhd, no tfhd.
func genFragment(r *hx.Rng, seq uint32, wild bool) (*mp4.Fragment, string) {
	var f *mp4.Fragment
	var how []string
	multi := r.Intn(3) == 0
	uniform := r.Intn(2) == 0
	if multi {
		nt := r.Range(1, 3)
		ids := []uint32{}
		for i := 0; i < nt; i++ {
			ids = append(ids, uint32(i+1))
		}
		f, _ = mp4.CreateMultiTrackFragment(seq, ids)
		how = append(how, fmt.Sprintf("CreateMultiTrackFragment(%d tracks)", nt))
		nadd := r.Range(0, 8)
		for i := 0; i < nadd; i++ {
			ss := randSamples(r, 1, uniform)
			tid := uint32(r.Range(1, nt))
			if r.Intn(4) == 0 {
				_ = f.AddSampleToTrack(ss[0].Sample, tid, ss[0].DecodeTime)
				how = append(how, "AddSampleToTrack")
			} else {
				_ = f.AddFullSampleToTrack(ss[0], tid)
			}
		}
		how = append(how, fmt.Sprintf("%d x Add*ToTrack", nadd))
	} else {
		f, _ = mp4.CreateFragment(seq, uint32(r.Range(1, 3)))
		n := r.Pick(0, 1, 2, 2, 3, 4, 6)
		lazy := r.Intn(6) == 0
		for _, s := range randSamples(r, n, uniform) {
			if lazy {
				f.AddSample(s.Sample, s.DecodeTime)
			} else {
				f.AddFullSample(s)
			}
		}
		how = append(how, fmt.Sprintf("CreateFragment + %d samples lazy=%v uniform=%v", n, lazy, uniform))
	}
	if r.Intn(3) == 0 {
		f.EncOptimize = mp4.OptimizeTrun
	}
	// extras in legal places
	if r.Intn(4) == 0 {
		f.AddEmsg(&mp4.EmsgBox{TimeScale: 1000, SchemeIDURI: "urn:y", Value: "1", MessageData: r.Bytes(r.Intn(6), nil)})
		how = append(how, "AddEmsg")
	}
	if r.Intn(5) == 0 {
		f.AddChild(extraBox(r))
		how = append(how, "AddChild(after mdat)")
	}
	if r.Intn(5) == 0 {
		_ = f.Moof.AddChild(extraBox(r))
		how = append(how, "Moof.AddChild")
	}
	if r.Intn(4) == 0 && len(f.Moof.Trafs) > 0 {
		_ = f.Moof.Trafs[r.Intn(len(f.Moof.Trafs))].AddChild(extraBox(r))
		how = append(how, "Traf.AddChild")
	}
	if r.Intn(10) == 0 {
		f.Mdat.SetLazyDataSize(uint64(r.Pick(7, 1<<32-9, 1<<32-8, 5_000_000_000)))
		how = append(how, "Mdat.SetLazyDataSize")
	}
	if r.Intn(12) == 0 {
		f.Mdat.LargeSize = true
		how = append(how, "Mdat.LargeSize")
	}
	if !wild {
		return f, strings.Join(how, "; ")
	}
	for k := r.Range(1, 3); k > 0; k-- {
		var truns []*mp4.TrunBox
		for _, tf := range f.Moof.Trafs {
			truns = append(truns, tf.Truns...)
		}
		switch r.Intn(11) {
		case 0:
			if len(truns) > 0 {
				t := truns[r.Intn(len(truns))]
				t.Flags ^= uint32(r.Pick(0x1, 0x4, 0x100, 0x200, 0x400, 0x800))
				how = append(how, "trun.Flags^=bit")
			}
		case 1:
			if len(truns) > 0 {
				t := truns[r.Intn(len(truns))]
				t.SetFirstSampleFlags(uint32(r.Pick(0x02000000, 0x01010000)))
				how = append(how, "SetFirstSampleFlags")
			}
		case 2:
			if len(f.Moof.Trafs) > 0 {
				h := f.Moof.Trafs[r.Intn(len(f.Moof.Trafs))].Tfhd
				if h == nil {
					continue
				}
				h.Flags ^= uint32(r.Pick(0x1, 0x2, 0x8, 0x10, 0x20, 0x10000, 0x20000))
				h.BaseDataOffset = 1 << 33
				h.DefaultSampleDuration, h.DefaultSampleSize, h.DefaultSampleFlags = 77, 88, 99
				how = append(how, "tfhd.Flags^=bit")
			}
		case 3:
			f2 := mp4.NewFragment()
			for _, c := range f.Children {
				if _, ok := c.(*mp4.MdatBox); !ok {
					f2.AddChild(c)
				}
			}
			f2.EncOptimize = f.EncOptimize
			f = f2
			how = append(how, "no mdat")
		case 4:
			f2 := mp4.NewFragment()
			f2.AddChild(extraBox(r))
			f2.EncOptimize = f.EncOptimize
			f = f2
			how = append(how, "no moof")
			return f, strings.Join(how, "; ")
		case 5:
			if len(f.Moof.Trafs) > 0 {
				tf := f.Moof.Trafs[0]
				_ = tf.AddChild(mp4.CreateTfhd(9))
				how = append(how, "second tfhd")
			}
		case 6:
			// a traf without tfhd, first in the moof
			m2 := &mp4.MoofBox{}
			for _, c := range f.Moof.Children {
				if tf, ok := c.(*mp4.TrafBox); ok && tf == f.Moof.Traf {
					t2 := &mp4.TrafBox{}
					for _, tc := range tf.Children {
						if _, ok := tc.(*mp4.TfhdBox); !ok {
							_ = t2.AddChild(tc)
						}
					}
					_ = m2.AddChild(t2)
				} else {
					_ = m2.AddChild(c)
				}
			}
			f2 := mp4.NewFragment()
			for _, c := range f.Children {
				if _, ok := c.(*mp4.MoofBox); ok {
					f2.AddChild(m2)
				} else {
					f2.AddChild(c)
				}
			}
			f2.EncOptimize = f.EncOptimize
			f = f2
			how = append(how, "first traf without tfhd")
		case 7:
			if len(truns) > 0 {
				t := truns[r.Intn(len(truns))]
				t.DataOffset = int32(r.Pick(0, 5, -7))
				how = append(how, "trun.DataOffset preset")
			}
		case 8:
			// a second trun in the first traf, not numbered (as a decoder leaves it)
			if len(f.Moof.Trafs) > 0 {
				t := mp4.CreateTrun(0)
				for _, s := range randSamples(r, r.Range(0, 3), uniform) {
					t.AddSample(s.Sample)
				}
				_ = f.Moof.Trafs[0].AddChild(t)
				how = append(how, "extra unnumbered trun")
			}
		case 9:
			if f.Mdat != nil && len(f.Mdat.Data) == 0 {
				f.Mdat.AddSampleDataPart(r.Bytes(r.Intn(9), nil))
				f.Mdat.AddSampleDataPart(r.Bytes(r.Intn(9), nil))
				how = append(how, "Mdat.AddSampleDataPart x2")
			}
		default:
			if len(f.Moof.Trafs) > 0 {
				tf := f.Moof.Trafs[r.Intn(len(f.Moof.Trafs))]
				if tf.Tfdt != nil {
					tf.Tfdt.SetBaseMediaDecodeTime(uint64(r.Pick(0, 1<<32-1, 1<<32, 1<<40)))
					how = append(how, "SetBaseMediaDecodeTime")
				}
			}
		}
	}
	return f, strings.Join(how, "; ")
}

func genSegment(r *hx.Rng, wild bool) *mp4.MediaSegment {
	var seg *mp4.MediaSegment
	switch r.Intn(3) {
	case 0:
		seg = mp4.NewMediaSegment()
	case 1:
		seg = mp4.NewMediaSegmentWithoutStyp()
	default:
		seg = mp4.NewMediaSegmentWithStyp(mp4.CreateStyp())
	}
	if r.Bool() {
		seg.EncOptimize = mp4.OptimizeTrun
	}
	for k := r.Intn(3); k > 0; k-- {
		sx := mp4.CreateSidx(uint64(r.Pick(0, 1<<33)))
		for q := r.Intn(3); q > 0; q-- {
			sx.SidxRefs = append(sx.SidxRefs, mp4.SidxRef{ReferencedSize: uint32(r.Intn(1 << 20)), SubSegmentDuration: uint32(r.Intn(1 << 20)), StartsWithSAP: 1, SAPType: 1})
		}
		seg.AddSidx(sx)
	}
	nf := r.Range(0, 3)
	for k := 0; k < nf; k++ {
		f, _ := genFragment(r, uint32(k+1), wild && r.Intn(3) == 0)
		seg.AddFragment(f)
	}
	return seg
}

func smallFiles(repo string) []string {
	var fs []string
	for _, p := range files(repo) {
		if st, err := os.Stat(p); err == nil && st.Size() < 120000 {
			fs = append(fs, p)
		}
	}
	return fs
}

func cmdCorr(seed uint64, n int, repo string) {
	r := hx.NewRng(seed*1000003 + 77) // hx streams of neighbouring seeds are shifted copies: keep them far apart
	// API-built structures
	for i := 0; i < n; i++ {
		wild := i%3 == 2
		switch i % 8 {
		case 0, 1, 2, 3, 4:
			f, _ := genFragment(r, uint32(i+1), wild)
			emitCase(fmt.Sprintf("g%d", i), "frag", func(t *tw) { t.frag(f) }, fragAgg(f), genOps(r))
		case 5, 6:
			s := genSegment(r, wild)
			if r.Intn(3) == 0 {
				mutateWidths(r, segRoots(s), r.Range(1, 3))
			}
			emitCase(fmt.Sprintf("g%d", i), "seg", func(t *tw) { t.seg(s) }, segAgg(s), genOps(r))
		default:
			// a file: init segment + segments, encoded and decoded again, or assembled through the API
			init := richInit(r)
			if r.Bool() {
				mutateWidths(r, init.Children, r.Range(1, 4))
			}
			emitCase(fmt.Sprintf("g%di", i), "init", func(t *tw) { t.init(init) }, initAgg(init), genOps(r))
			f := mp4.NewFile()
			pos := uint64(0)
			for _, c := range init.Children {
				f.AddChild(c, pos)
				pos += c.Size()
			}
			for k := r.Range(0, 2); k > 0; k-- {
				f.AddMediaSegment(genSegment(r, false))
			}
			if r.Bool() {
				f.EncOptimize = mp4.OptimizeTrun
			}
			f.FragEncMode = mp4.EncFragFileMode(r.Pick(0, 0, 0, 1, 2))
			emitCase(fmt.Sprintf("g%df", i), "file", func(t *tw) { t.file(f) }, fileCagg(f), genOps(r))
		}
	}
	// decoded testdata: the file in each mode, its segments, its fragments
	for fi, p := range smallFiles(repo) {
		data, err := os.ReadFile(p)
		if err != nil {
			continue
		}
		for v := 0; v < 4; v++ {
			mode := mp4.EncFragFileMode(v & 1)
			opt := v&2 != 0
			sr := (fi+v)%2 == 0
			dec := func() *mp4.File {
				f, err := decodeFile(data, sr, mode)
				if err != nil || f == nil {
					return nil
				}
				if opt {
					f.EncOptimize = mp4.OptimizeTrun
				}
				if v == 3 || v == 0 && fi%2 == 1 {
					// what an application does between decode and encode (the same edits on every decode)
					mutateWidths(hx.NewRng(seed*1000003+uint64(fi)*31+uint64(v)), f.Children, 3)
				}
				return f
			}
			f := dec()
			if f == nil {
				corrStats["testdata decode failed"]++
				continue
			}
			id := fmt.Sprintf("t%d.%d", fi, v)
			emitCase(id+"f", "file", func(t *tw) { t.file(f) }, fileCagg(f), genOps(r))
			if f2 := dec(); f2 != nil {
				if f2.Init != nil && v == 0 {
					emitCase(id+"i", "init", func(t *tw) { t.init(f2.Init) }, initAgg(f2.Init), genOps(r))
				}
				for si, s := range f2.Segments {
					if si > 1 {
						break
					}
					s := s
					if opt {
						s.EncOptimize = mp4.OptimizeTrun
					}
					emitCase(fmt.Sprintf("%ss%d", id, si), "seg", func(t *tw) { t.seg(s) }, segAgg(s), genOps(r))
				}
			}
			if f3 := dec(); f3 != nil && len(f3.Segments) > 0 {
				for k, g := range f3.Segments[0].Fragments {
					if k > 1 {
						break
					}
					g := g
					if opt {
						g.EncOptimize = mp4.OptimizeTrun
					}
					emitCase(fmt.Sprintf("%sg%d", id, k), "frag", func(t *tw) { t.frag(g) }, fragAgg(g), genOps(r))
				}
			}
		}
	}
	cmdCorrSenc(r, n/2+20, repo)
	cmdCorrSencDecoded(r, n/2+40)
	var ks []string
	for k, v := range corrStats {
		ks = append(ks, fmt.Sprintf("%s=%d", k, v))
	}
	sort.Strings(ks)
	fmt.Fprintf(os.Stderr, "STATS %s\n", strings.Join(ks, "; "))
}

// ------------------------------------------------------------------ senc boxes (coq/c02/C02AggSencModel.v)
//   A <id> senc <H n (iv nsub (clear prot)*)* | D fields> <ops> <add outcomes> <observations>
type sencAdd struct {
	iv   []byte
	subs []mp4.SubSamplePattern
}

func sencFields(t *tw, s *mp4.SencBox) {
	t.a("D")
	t.u(uint64(s.Version))
	t.u(uint64(s.Flags))
	t.u(uint64(s.SampleCount))
	t.u(uint64(s.GetPerSampleIVSize()))
	t.n(len(s.IVs))
	for _, iv := range s.IVs {
		t.hexb(iv)
	}
	t.n(len(s.SubSamples))
	for _, l := range s.SubSamples {
		t.n(len(l))
		for _, p := range l {
			t.u(uint64(p.BytesOfClearData))
			t.u(uint64(p.BytesOfProtectedData))
		}
	}
	t.b(s.ReadButNotParsed())
	t.hexb(mp4.VerifC02SencRaw(s))
	t.u(mp4.VerifC02SencReadSize(s))
}

func sencHistory(s *mp4.SencBox, ops string) string {
	var obs []string
	for _, op := range ops {
		var o string
		p := hx.Try(func() {
			switch op {
			case 's':
				o = "S" + hx.HexU(s.Size())
			case 'i':
				var ib bytes.Buffer
				_ = s.Info(&ib, "all:1", "", "  ")
				o = "I"
			case 'e':
				var buf bytes.Buffer
				if err := s.Encode(&buf); err != nil {
					o = "E"
				} else {
					sum := md5.Sum(buf.Bytes())
					o = fmt.Sprintf("B%x:%s", buf.Len(), hex.EncodeToString(sum[:]))
				}
			case 'w':
				sw := bits.NewFixedSliceWriter(1 << 16)
				if err := s.EncodeSW(sw); err != nil {
					o = "E"
				} else {
					sum := md5.Sum(sw.Bytes())
					o = fmt.Sprintf("B%x:%s", len(sw.Bytes()), hex.EncodeToString(sum[:]))
				}
			}
		})
		if p != "" {
			obs = append(obs, "P")
			break
		}
		obs = append(obs, o+"/"+sencDig(s))
	}
	return strings.Join(obs, " ")
}

// histories on a single box: the sized-writer operations are plain EncodeSW
func sencOps(r *hx.Rng) string {
	return strings.Map(func(c rune) rune {
		if c >= 'a' && c <= 'd' {
			return 'w'
		}
		return c
	}, genOps(r))
}

// the state a step leaves: flags and what the second decoding phase sets
func sencDig(s *mp4.SencBox) string {
	np := 0
	if s.ReadButNotParsed() {
		np = 1
	}
	return fmt.Sprintf("%x.%x.%d.%d.%d", s.Flags, s.GetPerSampleIVSize(), len(s.IVs), len(s.SubSamples), np)
}

// genSencPayload makes the payload of a senc box (version/flags, sample count, per-sample data): mostly well-formed
// for some (perSampleIVSize, sub-sample layout), then damaged: bytes appended or cut, the count changed or zeroed,
// flags changed, version set.  Returns the payload and the perSampleIVSize it was made for.
func genSencPayload(r *hx.Rng) ([]byte, int) {
	ivs := r.Pick(0, 8, 8, 16)
	subs := r.Intn(2) == 0
	n := r.Pick(0, 1, 2, 2, 3, 5)
	var data []byte
	for i := 0; i < n; i++ {
		data = append(data, r.Bytes(ivs, nil)...)
		if subs {
			k := r.Pick(0, 1, 1, 2, 3)
			data = append(data, byte(k>>8), byte(k))
			data = append(data, r.Bytes(6*k, nil)...)
		}
	}
	flags := uint32(0)
	if subs {
		flags = 2
	}
	count := uint32(n)
	version := byte(0)
	for k := r.Pick(0, 0, 1, 1, 2); k > 0; k-- {
		switch r.Intn(8) {
		case 0:
			data = append(data, r.Bytes(r.Pick(1, 1, 2, 7, 8, 16, 256), nil)...)
		case 1:
			if len(data) > 0 {
				cut := r.Range(1, 9)
				if cut > len(data) {
					cut = len(data)
				}
				data = data[:len(data)-cut]
			}
		case 2:
			count = 0
		case 3:
			count += uint32(r.Range(1, 3))
		case 4:
			flags ^= 2
		case 5:
			flags |= uint32(r.Pick(1, 4, 0x100, 0x800000))
		case 6:
			if r.Intn(4) == 0 {
				version = byte(r.Pick(1, 2, 255))
			}
		default:
			if count > 0 {
				count--
			}
		}
	}
	pl := []byte{version, byte(flags >> 16), byte(flags >> 8), byte(flags), byte(count >> 24), byte(count >> 16), byte(count >> 8), byte(count)}
	if r.Intn(40) == 0 {
		pl = pl[:r.Intn(8)] // shorter than the fields
		return pl, ivs
	}
	return append(pl, data...), ivs
}

// sencBoxBytes wraps a payload in a compact or a large-size header
func sencBoxBytes(pl []byte, large bool) ([]byte, uint64, uint64) {
	if large {
		size := uint64(16 + len(pl))
		b := []byte{0, 0, 0, 1, 's', 'e', 'n', 'c', 0, 0, 0, 0, byte(size >> 24), byte(size >> 16), byte(size >> 8), byte(size)}
		return append(b, pl...), size, 16
	}
	size := uint64(8 + len(pl))
	b := []byte{byte(size >> 24), byte(size >> 16), byte(size >> 8), byte(size), 's', 'e', 'n', 'c'}
	return append(b, pl...), size, 8
}

func decodeSenc(box []byte, sr bool) (s *mp4.SencBox, outcome string) {
	p := hx.Try(func() {
		var b mp4.Box
		var err error
		if sr {
			b, err = mp4.DecodeBoxSR(0, bits.NewFixedSliceReader(box))
		} else {
			b, err = mp4.DecodeBox(0, bytes.NewReader(box))
		}
		if err != nil {
			outcome = "E"
			return
		}
		var ok bool
		if s, ok = b.(*mp4.SencBox); !ok {
			outcome = "E"
		}
	})
	if p != "" {
		return nil, "P"
	}
	return s, outcome
}

// pivChoice: the perSampleIVSize handed to ParseReadBox ("x": no second phase)
func pivChoice(r *hx.Rng, made int) string {
	switch r.Intn(6) {
	case 0:
		return "x"
	case 1, 2:
		return "0"
	case 3:
		return fmt.Sprintf("%x", r.Pick(8, 16, 1, 4, 255))
	default:
		return fmt.Sprintf("%x", made)
	}
}

func sencParse(s *mp4.SencBox, piv string) string {
	if piv == "x" {
		return "-"
	}
	v, _ := strconv.ParseUint(piv, 16, 8)
	var err error
	p := hx.Try(func() { err = s.ParseReadBox(byte(v), nil) })
	switch {
	case p != "":
		return "p"
	case err != nil:
		return "e/" + sencDig(s)
	}
	return "o/" + sencDig(s)
}

// cmdCorrSencDecoded: senc boxes as the two decoders and the second decoding phase (ParseReadBox) leave them, then a
// history of Size / Info / Encode / EncodeSW; the model decodes the same bytes (senc_decode, senc_parse)
func cmdCorrSencDecoded(r *hx.Rng, n int) {
	for i := 0; i < n; i++ {
		pl, made := genSencPayload(r)
		box, size, hlen := sencBoxBytes(pl, r.Intn(5) == 0)
		piv := pivChoice(r, made)
		ops := sencOps(r)
		var obs [2]string
		for v := 0; v < 2; v++ {
			s, oc := decodeSenc(box, v == 1)
			if s == nil {
				obs[v] = oc
				continue
			}
			po := sencParse(s, piv)
			if po == "p" {
				obs[v] = "D p"
				continue
			}
			obs[v] = "D " + po + " " + sencHistory(s, ops)
		}
		corrStats["cases senc (decoded from generated bytes)"]++
		if obs[0] != obs[1] {
			// the two decoders must leave the same box: reported as a model mismatch on the second line
			corrStats["senc decoders differ"]++
		}
		if strings.Contains(obs[0], " o/") {
			corrStats["senc decoded and parsed"]++
		}
		for v := 0; v < 2; v++ {
			fmt.Fprintf(out, "A\tsx%d.%d\tsencd\t%s\t%x\t%s\t%s\t%s\t%s\n", i, v, hx.HexU(size), hlen, hx.Hex(pl), piv, ops, obs[v])
		}
	}
}

func cmdCorrSenc(r *hx.Rng, n int, repo string) {
	// histories of AddSample from CreateSencBox
	for i := 0; i < n; i++ {
		s := mp4.CreateSencBox()
		t := &tw{}
		k := r.Intn(6)
		t.a("H")
		t.n(k)
		var outc []byte
		ivMode := r.Intn(4) // 0 none, 1 all 8, 2 all 16, 3 mixed
		subMode := r.Intn(4)
		for j := 0; j < k; j++ {
			var a sencAdd
			switch ivMode {
			case 1:
				a.iv = r.Bytes(8, nil)
			case 2:
				a.iv = r.Bytes(16, nil)
			case 3:
				a.iv = r.Bytes(r.Pick(0, 8, 8, 16, 3), nil)
			}
			ns := 0
			switch subMode {
			case 1:
				ns = r.Range(1, 2)
			case 2, 3:
				ns = r.Pick(0, 0, 1, 2)
			}
			for q := 0; q < ns; q++ {
				a.subs = append(a.subs, mp4.SubSamplePattern{BytesOfClearData: uint16(r.Intn(1 << 16)), BytesOfProtectedData: uint32(r.U64())})
			}
			t.hexb(a.iv)
			t.n(len(a.subs))
			for _, p := range a.subs {
				t.u(uint64(p.BytesOfClearData))
				t.u(uint64(p.BytesOfProtectedData))
			}
			var err error
			p := hx.Try(func() { err = s.AddSample(mp4.SencSample{IV: a.iv, SubSamples: a.subs}) })
			switch {
			case p != "":
				outc = append(outc, 'p')
			case err != nil:
				outc = append(outc, 'e')
			default:
				outc = append(outc, 'o')
			}
		}
		if len(outc) == 0 {
			outc = []byte{'-'}
		}
		ops := sencOps(r)
		if i%4 == 3 {
			// the malformed stream: fields poked after the box was built; emitted as fields
			switch r.Intn(6) {
			case 0:
				s.Flags &^= 2
			case 1:
				s.SampleCount += uint32(r.Range(1, 2))
			case 2:
				if len(s.SubSamples) > 0 {
					s.SubSamples = s.SubSamples[:len(s.SubSamples)-1]
				}
			case 3:
				s.SetPerSampleIVSize(byte(r.Pick(0, 8, 16)))
			case 4:
				if len(s.IVs) > 0 {
					s.IVs = s.IVs[:len(s.IVs)-1]
				}
			default:
				s.Flags |= 2
			}
			t = &tw{}
			sencFields(t, s)
			outc = []byte{'-'}
			corrStats["cases senc (poked)"]++
		}
		obs := sencHistory(s, ops)
		corrStats["cases senc"]++
		fmt.Fprintf(out, "A\ts%d\tsenc\t%s\t%s\t%s\t%s\n", i, strings.TrimSpace(t.sb.String()), ops, string(outc), obs)
	}
	// senc boxes of the testdata, as the decoders leave them (parsed, or read but not parsed)
	nd := 0
	for fi, p := range smallFiles(repo) {
		data, err := os.ReadFile(p)
		if err != nil {
			continue
		}
		for v := 0; v < 2; v++ {
			f, err := decodeFile(data, v == 1, mp4.EncModeBoxTree)
			if err != nil || f == nil {
				continue
			}
			var sencs []*mp4.SencBox
			for _, c := range f.Children {
				walkBoxes(c, 0, func(b mp4.Box) {
					if tf, ok := b.(*mp4.TrafBox); ok && tf.Senc != nil {
						sencs = append(sencs, tf.Senc)
					}
				})
			}
			for k, s := range sencs {
				if k > 2 {
					break
				}
				t := &tw{}
				sencFields(t, s)
				if t.bytes > maxTokBytes {
					continue
				}
				ops := sencOps(r)
				obs := sencHistory(s, ops)
				corrStats["cases senc (decoded)"]++
				nd++
				fmt.Fprintf(out, "A\tsd%d.%d.%d\tsenc\t%s\t%s\t-\t%s\n", fi, v, k, strings.TrimSpace(t.sb.String()), ops, obs)
			}
		}
	}
}
