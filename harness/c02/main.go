// Harness for C02 (Size() = bytes written = header size field, at every level): the aggregates.
//
//	c02 search -seed S -n N : files of the repo's testdata through both decoders x {segment, box-tree} x
//	                          {no optimisation, OptimizeTrun}; API-built init segments, fragments and media
//	                          segments; for each the history Size, Encode, Size, Info, Encode, EncodeSW.
//
// (the per-node oracle on single boxes is `c01 search -prop c02`)
package main

import (
	"bufio"
	"bytes"
	"flag"
	"fmt"
	"io"
	"os"
	"path/filepath"
	"sort"
	"strings"

	"github.com/Eyevinn/mp4ff/avc"
	"github.com/Eyevinn/mp4ff/bits"
	"github.com/Eyevinn/mp4ff/mp4"
	"verifharness/c01/bx"
	"verifharness/hx"
)

var out = bufio.NewWriterSize(os.Stdout, 1<<20)
var evals = 0
var seen = map[string]bool{}
var dc, _ = bx.LoadDontCare("/verif/c01_dontcare.json")

func fail(site, class, witness, desc string) {
	k := site + "/" + class
	if seen[k] {
		return
	}
	seen[k] = true
	fmt.Fprintf(out, "FAIL\t%s\t%s\t%s\t%s\n", site, class, witness, strings.ReplaceAll(desc, "\n", " "))
}

// anything with Size / Encode / EncodeSW / Info
type sized interface {
	Size() uint64
	Encode(w *bytes.Buffer) error
}

type agg struct {
	name   string
	size   func() uint64
	encode func(io.Writer) error
	encsw  func(bits.SliceWriter) error
	info   func(io.Writer) error
}

// history runs Size, Encode, Size, Info, Encode, EncodeSW on one aggregate and checks C02.
// optimize: trun optimisation is on, so Size() before the first Encode may legitimately differ.
func history(a agg, witness string, optimize bool) []byte {
	return historyOrder(a, witness, optimize, false)
}

// encW / encS: one encode through an io.Writer / through a FixedSliceWriter of exactly Size() bytes
func encW(a agg) ([]byte, error) {
	var b bytes.Buffer
	err := a.encode(&b)
	return b.Bytes(), err
}

func encS(a agg) ([]byte, error) {
	sw := bx.DirtyWriter(int(a.size()))
	err := a.encsw(sw)
	return sw.Bytes(), err
}

// quotaWriter accepts `left` bytes and then fails (a full disk, a closed connection): a partial write returns the number
// of bytes taken together with the error, as io.Writer demands. After the fault every later write fails too unless
// `recover` is set (a writer that had one transient fault).
type quotaWriter struct {
	left    int
	n       int
	faulted bool
	recover bool
}

var errQuota = fmt.Errorf("quota writer: no room")

func (q *quotaWriter) Write(p []byte) (int, error) {
	if q.faulted && !q.recover {
		return 0, errQuota
	}
	if !q.faulted && len(p) > q.left {
		n := q.left
		q.n += n
		q.left = 0
		q.faulted = true
		return n, errQuota
	}
	if !q.faulted {
		q.left -= len(p)
	}
	q.n += len(p)
	return len(p), nil
}

// faultyEncode: Encode into writers that fail after k < Size() bytes. "Whenever Encode reports success the number of
// bytes written equals Size()": an Encode that lost bytes to a writer fault must not report success.
func faultyEncode(a agg, witness string, size uint64, good []byte) {
	if size == 0 || size > 1<<22 {
		return
	}
	ks := []uint64{0, 1, 7, 8, 9, 15, 16, 17, size / 3, size / 2, size - 9, size - 8, size - 1}
	// the fault right behind every box header and in the middle of every leaf payload of the output
	if nodes, ok := bx.Scan(good, 0, len(good), 0); ok {
		var walk func(ns []*bx.Node)
		cnt := 0
		walk = func(ns []*bx.Node) {
			for _, n := range ns {
				if cnt > 64 {
					return
				}
				cnt++
				ks = append(ks, uint64(n.Off), uint64(n.Off+n.HdrLen), uint64(n.Off+n.HdrLen+1), uint64(n.Off+n.Size-1))
				walk(n.Children)
			}
		}
		walk(nodes)
	}
	done := map[uint64]bool{}
	for _, k := range ks {
		if k >= size || done[k] {
			continue
		}
		done[k] = true
		for _, rec := range []bool{false, true} {
			q := &quotaWriter{left: int(k), recover: rec}
			var e error
			p := hx.Try(func() { e = a.encode(q) })
			evals++
			if p != "" {
				fail(a.name, "panic", witness, fmt.Sprintf("Encode into a writer that fails after %d bytes panics: %s", k, p))
				return
			}
			if e == nil {
				fail(a.name, "encode-success-after-writer-fault", witness, fmt.Sprintf("Encode into a writer that fails after %d of %d bytes (recovering afterwards: %v) reports success; %d bytes were written, Size() = %d", k, size, rec, q.n, a.size()))
				return
			}
		}
	}
}

// historyOrder: swFirst makes EncodeSW the FIRST encode of the structure (and Encode the later ones)
func historyOrder(a agg, witness string, optimize bool, swFirst bool) []byte {
	evals++
	first, second, nameFirst, nameSecond := encW, encS, "Encode", "EncodeSW"
	if swFirst && a.encsw != nil {
		first, second, nameFirst, nameSecond = encS, encW, "EncodeSW", "Encode"
	}
	var s0, s1 uint64
	var b1, b2 []byte
	var e1, e2 error
	p := hx.Try(func() {
		s0 = a.size()
		b1, e1 = first(a)
		s1 = a.size()
	})
	if p != "" {
		fail(a.name, "panic", witness, "Size/"+nameFirst+" panics: "+p)
		return nil
	}
	if e1 != nil {
		return nil // the property is conditional on Encode reporting success
	}
	if uint64(len(b1)) != s1 {
		fail(a.name, "size-vs-bytes", witness, fmt.Sprintf("%s wrote %d bytes, Size() afterwards = %d", nameFirst, len(b1), s1))
	}
	if !optimize && s0 != s1 {
		fail(a.name, "size-before-vs-after", witness, fmt.Sprintf("Size() before %s %d, afterwards %d (no optimisation)", nameFirst, s0, s1))
	}
	if _, ok := bx.Scan(b1, 0, len(b1), 0); !ok {
		fail(a.name, "output-does-not-tile", witness, "the size fields of the written boxes do not tile the output")
	}
	p = hx.Try(func() {
		var ib bytes.Buffer
		if a.info != nil {
			_ = a.info(&ib)
		}
		b2, e2 = first(a)
	})
	if p != "" {
		fail(a.name, "panic", witness, "Info/second "+nameFirst+" panics: "+p)
		return b1
	}
	if e2 != nil || !bytes.Equal(b1, b2) {
		fail(a.name, "encode-twice-differs", witness, fmt.Sprintf("second %s (after Info) gives %d bytes / err=%v, first gave %d", nameFirst, len(b2), e2, len(b1)))
	}
	faultyEncode(a, witness, s1, b1)
	if a.encsw != nil {
		var b3 []byte
		var e3 error
		p = hx.Try(func() { b3, e3 = second(a) })
		if p != "" {
			fail(a.name, "panic", witness, nameSecond+" panics: "+p)
		} else if e3 != nil || !bytes.Equal(b1, b3) {
			fail(a.name, "encode-vs-encodesw", witness, fmt.Sprintf("%s gives %d bytes / err=%v, %s gave %d", nameSecond, len(b3), e3, nameFirst, len(b1)))
		}
		// writers with spare room (C02_encode_sw_capacity_*): success must mean exactly Size() bytes, the same ones,
		// whatever the capacity >= Size()
		if s1 < 1<<22 {
			for _, extra := range []uint64{1, 64, s1} {
				var b4 []byte
				var e4 error
				var s4 uint64
				p = hx.Try(func() {
					s4 = a.size()
					dirty := make([]byte, int(s4+extra)) // a re-used output buffer, not zero-initialised
					for j := range dirty {
						dirty[j] = 0xa5
					}
					sw := bits.NewFixedSliceWriterFromSlice(dirty)
					e4 = a.encsw(sw)
					b4 = sw.Bytes()
				})
				switch {
				case p != "":
					fail(a.name, "panic", witness, fmt.Sprintf("EncodeSW into Size()+%d bytes panics: %s", extra, p))
				case e4 != nil:
					fail(a.name, "encodesw-capacity-dependent", witness, fmt.Sprintf("EncodeSW into a writer of Size()+%d = %d bytes fails (%v), into Size() bytes it succeeded", extra, s4+extra, e4))
				case uint64(len(b4)) != s4:
					fail(a.name, "encodesw-roomy-vs-size", witness, fmt.Sprintf("EncodeSW into a writer of Size()+%d bytes wrote %d bytes, Size() = %d", extra, len(b4), s4))
				case !bytes.Equal(b4, b1):
					fail(a.name, "encodesw-capacity-dependent", witness, fmt.Sprintf("EncodeSW into a writer of Size()+%d bytes wrote other bytes than into Size() bytes", extra))
				}
			}
		}
	}
	return b1
}

// progCheck: a progressive file (or any file written child by child): the file position of every mdat payload computed
// from Size() / HeaderSize() is its position in the output, and moov (with the chunk offsets in stco / co64) is
// written as it is (C02_file_progressive)
func progCheck(f *mp4.File, witness string) {
	evals++
	var want []uint64
	var moovBefore []byte
	var enc bytes.Buffer
	var err error
	p := hx.Try(func() {
		_ = f.Size() // decides LargeSize of every mdat
		pos := uint64(0)
		for _, c := range f.Children {
			if m, ok := c.(*mp4.MdatBox); ok {
				want = append(want, pos+m.HeaderSize())
			}
			if c.Type() == "moov" {
				var mb bytes.Buffer
				if c.Encode(&mb) == nil {
					moovBefore = mb.Bytes()
				}
			}
			pos += c.Size()
		}
		err = f.Encode(&enc)
	})
	if p != "" {
		fail("File(progressive)", "panic", witness, "Size/Encode panics: "+p)
		return
	}
	if err != nil {
		return
	}
	out := enc.Bytes()
	var got []uint64
	pos := 0
	moovSame := moovBefore == nil
	for pos+8 <= len(out) {
		sz := uint64(out[pos])<<24 | uint64(out[pos+1])<<16 | uint64(out[pos+2])<<8 | uint64(out[pos+3])
		hl := 8
		if sz == 1 && pos+16 <= len(out) {
			sz = 0
			for k := 8; k < 16; k++ {
				sz = sz<<8 | uint64(out[pos+k])
			}
			hl = 16
		}
		if sz < uint64(hl) || sz > uint64(len(out)-pos) {
			fail("File(progressive)", "output-does-not-tile", witness, fmt.Sprintf("size field %d at %d", sz, pos))
			return
		}
		ty := string(out[pos+4 : pos+8])
		if ty == "mdat" {
			got = append(got, uint64(pos+hl))
		}
		if ty == "moov" && moovBefore != nil && bytes.Equal(out[pos:pos+int(sz)], moovBefore) {
			moovSame = true
		}
		pos += int(sz)
	}
	if fmt.Sprint(got) != fmt.Sprint(want) {
		fail("File(progressive)", "mdat-payload-position", witness, fmt.Sprintf("mdat payloads begin at %v in the output, Size()/HeaderSize() of the children say %v", got, want))
	}
	if !moovSame {
		fail("File(progressive)", "moov-rewritten", witness, "the moov box in the output differs from the moov encoded before File.Encode")
	}
}

func doProgressive(seed uint64, n int, repo string) {
	for _, p := range files(repo) {
		data, err := os.ReadFile(p)
		if err != nil {
			continue
		}
		for _, sr := range []bool{false, true} {
			f, err := decodeFile(data, sr, mp4.EncModeBoxTree)
			if err != nil || f == nil {
				continue
			}
			progCheck(f, fmt.Sprintf("file=%s decoder-sr=%v box by box", strings.TrimPrefix(p, repo+"/"), sr))
		}
	}
	r := hx.NewRng(seed*1000003 + 77)
	for i := 0; i < n; i++ {
		f := mp4.NewFile()
		init := mp4.CreateEmptyInit()
		init.AddEmptyTrack(uint32(r.Pick(90000, 48000)), []string{"video", "audio"}[r.Intn(2)], "und")
		// a progressive moov: samples described in stts / stco (File.AddChild takes a moov without stts entries for an init segment)
		stbl := init.Moov.Trak.Mdia.Minf.Stbl
		stbl.Stts.SampleCount, stbl.Stts.SampleTimeDelta = []uint32{uint32(r.Range(1, 9))}, []uint32{1000}
		if stbl.Stco != nil {
			stbl.Stco.ChunkOffset = []uint32{uint32(r.Range(100, 5000))}
		}
		order := r.Intn(3)
		how := []string{"ftyp moov mdat", "ftyp mdat moov", "ftyp free moov mdat mdat"}[order]
		mk := func() *mp4.MdatBox {
			m := &mp4.MdatBox{}
			if r.Bool() {
				m.Data = r.Bytes(r.Intn(64), nil)
			} else {
				for k := r.Range(1, 3); k > 0; k-- {
					m.AddSampleDataPart(r.Bytes(r.Intn(32), nil))
				}
			}
			if r.Intn(3) == 0 {
				m.LargeSize = true
			}
			return m
		}
		f.AddChild(init.Ftyp, 0)
		switch order {
		case 0:
			f.AddChild(init.Moov, 0)
			f.AddChild(mk(), 0)
		case 1:
			f.AddChild(mk(), 0)
			f.AddChild(init.Moov, 0)
		default:
			f.AddChild(mp4.NewFreeBox(r.Bytes(r.Intn(9), nil)), 0)
			f.AddChild(init.Moov, 0)
			f.AddChild(mk(), 0)
			f.AddChild(mk(), 0)
		}
		w := fmt.Sprintf("built progressive file #%d (%s)", i, how)
		progCheck(f, w)
		history(fileAgg(f, "File(progressive)"), w, false)
	}
}

// doSencDecoded: senc boxes as DecodeBox / DecodeBoxSR and ParseReadBox leave them (the generator of the
// correspondence stream): the per-node oracle on each
func doSencDecoded(seed uint64, n int) {
	r := hx.NewRng(seed*1000003 + 99)
	for i := 0; i < n; i++ {
		pl, made := genSencPayload(r)
		box, _, _ := sencBoxBytes(pl, r.Intn(5) == 0)
		piv := pivChoice(r, made)
		for v := 0; v < 2; v++ {
			s, _ := decodeSenc(box, v == 1)
			if s == nil {
				continue
			}
			site := "senc(decoded)"
			how := fmt.Sprintf("%s decoded (sr=%v)", hx.Hex(box), v == 1)
			if piv != "x" {
				po := sencParse(s, piv)
				if !strings.HasPrefix(po, "o/") {
					continue // the second phase failed: the box is to be discarded
				}
				site = "senc(parsed)"
				how += " then ParseReadBox(" + piv + ")"
			}
			var fs []bx.Fail
			bx.SizeAtEveryNode(s, "senc", how, &fs, &evals)
			for _, f := range fs {
				fail(site, f.Class, how, f.Desc)
			}
		}
	}
}

func fileAgg(f *mp4.File, name string) agg {
	return agg{name, f.Size, func(b io.Writer) error { return f.Encode(b) }, f.EncodeSW,
		func(b io.Writer) error { return f.Info(b, "all:1", "", "  ") }}
}

func decodeFile(data []byte, sr bool, mode mp4.EncFragFileMode) (f *mp4.File, err error) {
	p := hx.Try(func() {
		if sr {
			f, err = mp4.DecodeFileSR(bits.NewFixedSliceReader(hx.Exact(data)), mp4.WithEncodeMode(mode))
		} else {
			f, err = mp4.DecodeFile(bytes.NewReader(data), mp4.WithEncodeMode(mode))
		}
	})
	if p != "" {
		return nil, fmt.Errorf("panic %s", p)
	}
	return
}

func files(repo string) []string {
	var fs []string
	_ = filepath.Walk(repo, func(p string, info os.FileInfo, err error) error {
		if err != nil || info.IsDir() {
			return nil
		}
		if strings.Contains(p, "/testdata/") && !strings.Contains(p, "/fuzz/") && info.Size() < 4<<20 {
			switch strings.ToLower(filepath.Ext(p)) {
			case ".mp4", ".m4s", ".cmfv", ".cmfa", ".cmft", ".ismt", ".isma", ".ismv", ".m4a", ".m4v", ".mov":
				fs = append(fs, p)
			}
		}
		return nil
	})
	sort.Strings(fs)
	return fs
}

func doFiles(repo string) (nfiles int) {
	for _, p := range files(repo) {
		data, err := os.ReadFile(p)
		if err != nil {
			continue
		}
		rel := strings.TrimPrefix(p, repo+"/")
		for _, sr := range []bool{false, true} {
			for _, mode := range []mp4.EncFragFileMode{mp4.EncModeSegment, mp4.EncModeBoxTree} {
				for _, opt := range []bool{false, true} {
					f, err := decodeFile(data, sr, mode)
					if err != nil || f == nil {
						continue
					}
					nfiles++
					if opt {
						f.EncOptimize = mp4.OptimizeTrun
					}
					w := fmt.Sprintf("file=%s decoder=%v mode=%d optimizeTrun=%v", rel, map[bool]string{false: "reader", true: "sr"}[sr], mode, opt)
					site := "File"
					if f.IsFragmented() && mode == mp4.EncModeSegment {
						site = "File(segment mode)"
					}
					a := fileAgg(f, site)
					enc := history(a, w, opt)
					if enc != nil && mode == mp4.EncModeBoxTree && !opt && !bytes.Equal(enc, data) {
						// not a C02 matter; C01_file_boxtree is explored here for free (masked with the C01 don't-care list)
						if dc != nil {
							if pos := bx.MaskedDiff(data, enc, dc.Mask(data)); pos >= 0 {
								fmt.Fprintf(out, "NOTE\tboxtree-reencode-differs\t%s\t%d->%d first masked difference at %d\n", rel, len(data), len(enc), pos)
							}
						}
					}
					// parts, on a fresh decode (the history above mutated f)
					f2, err := decodeFile(data, sr, mode)
					if err != nil || f2 == nil {
						continue
					}
					if f2.Init != nil {
						i := f2.Init
						history(agg{"InitSegment", i.Size, func(b io.Writer) error { return i.Encode(b) }, i.EncodeSW,
							func(b io.Writer) error { return i.Info(b, "all:1", "", "  ") }}, w, false)
					}
					for si, seg := range f2.Segments {
						if si > 3 {
							break
						}
						s := seg
						if opt {
							s.EncOptimize = mp4.OptimizeTrun
						}
						history(agg{"MediaSegment", s.Size, func(b io.Writer) error { return s.Encode(b) }, s.EncodeSW,
							func(b io.Writer) error { return s.Info(b, "all:1", "", "  ") }}, fmt.Sprintf("%s segment=%d", w, si), opt)
					}
					f3, err := decodeFile(data, sr, mode)
					if err != nil || f3 == nil {
						continue
					}
					for si, seg := range f3.Segments {
						if si > 1 {
							break
						}
						for fi, fr := range seg.Fragments {
							if fi > 3 {
								break
							}
							g := fr
							if opt {
								g.EncOptimize = mp4.OptimizeTrun
							}
							history(agg{"Fragment", g.Size, func(b io.Writer) error { return g.Encode(b) }, g.EncodeSW,
								func(b io.Writer) error { return g.Info(b, "all:1", "", "  ") }}, fmt.Sprintf("%s segment=%d fragment=%d", w, si, fi), opt)
						}
					}
				}
			}
		}
	}
	return
}

func randSamples(r *hx.Rng, n int, uniform bool) []mp4.FullSample {
	var ss []mp4.FullSample
	var t uint64 = uint64(r.Intn(1 << 20))
	if r.Intn(8) == 0 {
		t += 1 << 32
	}
	dur := uint32(r.Pick(512, 1024, 3000))
	flags := uint32(r.Pick(0x01010000, 0x02000000))
	size := r.Range(1, 40)
	for i := 0; i < n; i++ {
		d, fl, sz := dur, flags, size
		var cto int32
		if !uniform {
			if r.Intn(3) == 0 {
				d = uint32(r.Range(1, 5000))
			}
			if r.Intn(3) == 0 {
				fl = uint32(r.Pick(0x01010000, 0x02000000, 0))
			}
			sz = r.Range(0, 40)
			if r.Intn(2) == 0 {
				cto = int32(r.Range(-2000, 2000))
			}
		}
		if i == 0 && r.Bool() {
			fl = 0x02000000
		}
		ss = append(ss, mp4.FullSample{Sample: mp4.Sample{Flags: fl, Dur: d, Size: uint32(sz), CompositionTimeOffset: cto}, DecodeTime: t, Data: r.Bytes(sz, nil)})
		t += uint64(d)
	}
	return ss
}

func doBuilt(seed uint64, n int) {
	r := hx.NewRng(seed + 5)
	for i := 0; i < n; i++ {
		// init segments
		init := mp4.CreateEmptyInit()
		nt := r.Range(1, 3)
		desc := []string{}
		for k := 0; k < nt; k++ {
			mt := []string{"video", "audio", "subtitles"}[r.Intn(3)]
			lang := []string{"und", "eng", "swe"}[r.Intn(3)]
			p := hx.Try(func() { init.AddEmptyTrack(uint32(r.Pick(90000, 48000, 1000)), mt, lang) })
			if p != "" {
				continue
			}
			desc = append(desc, mt+":"+lang)
		}
		history(agg{"InitSegment(built)", init.Size, func(b io.Writer) error { return init.Encode(b) }, init.EncodeSW,
			func(b io.Writer) error { return init.Info(b, "all:1", "", "  ") }}, "CreateEmptyInit+AddEmptyTrack "+strings.Join(desc, ","), false)

		// media segment with k sidx boxes and m fragments
		opt := r.Bool()
		var seg *mp4.MediaSegment
		switch r.Intn(3) {
		case 0:
			seg = mp4.NewMediaSegment()
		case 1:
			seg = mp4.NewMediaSegmentWithoutStyp()
		default:
			seg = mp4.NewMediaSegmentWithStyp(mp4.CreateStyp())
		}
		if opt {
			seg.EncOptimize = mp4.OptimizeTrun
		}
		nsidx := r.Intn(3)
		for k := 0; k < nsidx; k++ {
			sx := mp4.CreateSidx(uint64(r.Pick(0, 1<<33)))
			nref := r.Intn(3)
			for q := 0; q < nref; q++ {
				sx.SidxRefs = append(sx.SidxRefs, mp4.SidxRef{ReferencedSize: uint32(r.Intn(1 << 20)), SubSegmentDuration: uint32(r.Intn(1 << 20)), StartsWithSAP: 1, SAPType: 1})
			}
			seg.AddSidx(sx)
		}
		nfrag := r.Range(1, 3)
		ws := fmt.Sprintf("built seed=%d i=%d optimizeTrun=%v sidx=%d frags=%d", seed, i, opt, nsidx, nfrag)
		okb := true
		for k := 0; k < nfrag; k++ {
			fr, err := mp4.CreateFragment(uint32(k+1), 1)
			if err != nil {
				okb = false
				break
			}
			// three ways of handing over the media data: full samples (one growing buffer), sample intervals (a list of
			// data parts), and intervals followed by full samples (both representations in one mdat: the library
			// then writes and counts the parts only - whatever it does, bytes written must be what Size() says)
			smp := randSamples(r, r.Range(0, 6), r.Bool())
			switch dataMode := r.Intn(4); {
			case dataMode <= 1 || len(smp) < 2:
				for _, s := range smp {
					fr.AddFullSample(s)
				}
			default:
				cut := len(smp)
				if dataMode == 3 {
					cut = r.Range(1, len(smp)-1)
				}
				iv := mp4.SampleInterval{FirstDecodeTime: smp[0].DecodeTime}
				for _, s := range smp[:cut] {
					iv.Samples = append(iv.Samples, s.Sample)
					iv.Data = append(iv.Data, s.Data...)
				}
				if err := fr.AddSampleInterval(iv); err != nil {
					okb = false
				}
				for _, s := range smp[cut:] {
					fr.AddFullSample(s)
				}
				ws += fmt.Sprintf(" frag%d:interval(%d)+full(%d)", k, cut, len(smp)-cut)
			}
			if !okb {
				break
			}
			seg.AddFragment(fr)
			if k == 0 {
				g := fr
				ws2 := ws + " (first fragment alone)"
				// a copy would share state; encode the fragment before the segment does
				if r.Intn(3) == 0 {
					if opt {
						g.EncOptimize = mp4.OptimizeTrun
					}
					history(agg{"Fragment(built)", g.Size, func(b io.Writer) error { return g.Encode(b) }, g.EncodeSW,
						func(b io.Writer) error { return g.Info(b, "all:1", "", "  ") }}, ws2, opt)
				}
			}
		}
		if !okb {
			continue
		}
		history(agg{"MediaSegment(built)", seg.Size, func(b io.Writer) error { return seg.Encode(b) }, seg.EncodeSW,
			func(b io.Writer) error { return seg.Info(b, "all:1", "", "  ") }}, ws, opt)
	}
}

// boxCheck: the per-node oracle (bytes written = Size() before = after, size field = bytes written,
// Encode = EncodeSW, Encode twice) on an API-built box.
func boxCheck(b mp4.Box, how string) {
	var fs []bx.Fail
	bx.SizeAtEveryNode(b, b.Type(), how, &fs, &evals)
	for _, f := range fs {
		fail(f.Site+"(built)", f.Class, f.Witness, f.Desc)
	}
}

// doBuiltBoxes: boxes made with the public constructors, every optional-field flag combination.
func doBuiltBoxes(seed uint64) {
	r := hx.NewRng(seed + 11)
	trunBits := []uint32{1, 4, 0x100, 0x200, 0x400, 0x800}
	for m := 0; m < 64; m++ {
		var fl uint32
		for i, b := range trunBits {
			if m&(1<<uint(i)) != 0 {
				fl |= b
			}
		}
		for _, ver := range []byte{0, 1} {
			for _, n := range []int{0, 1, 4} {
				t := mp4.CreateTrun(0)
				t.Version = ver
				t.Flags = fl &^ 4
				t.DataOffset = 120
				if fl&4 != 0 {
					t.SetFirstSampleFlags(0x02000000)
				}
				for i := 0; i < n; i++ {
					t.AddSample(mp4.Sample{Flags: 0x01010000, Dur: uint32(1000 + i), Size: uint32(10 + i), CompositionTimeOffset: int32(i - 2)})
				}
				boxCheck(t, fmt.Sprintf("CreateTrun; Version=%d Flags=%#x (SetFirstSampleFlags if 0x4) DataOffset=120; %d x AddSample", ver, fl, n))
			}
		}
	}
	// variable-length payloads at the boundaries of every length-prefixed field a constructor fills in: esds descriptor
	// sizes (7 bits per size byte: 127/128, 16383/16384 incl. the nested descriptors' own headers), string and blob fields
	for _, L := range []int{0, 1, 2, 5, 90, 100, 104, 105, 110, 119, 120, 126, 127, 128, 129, 200, 255, 256, 16000, 16370, 16383, 16384, 16400, 70000} {
		cfg := make([]byte, L)
		for i := range cfg {
			cfg[i] = byte(17 + 3*i)
		}
		var e *mp4.EsdsBox
		if p := hx.Try(func() { e = mp4.CreateEsdsBox(cfg) }); p == "" && e != nil {
			boxCheck(e, fmt.Sprintf("CreateEsdsBox(decConfig of %d bytes)", L))
			if L <= 16400 {
				var se *mp4.AudioSampleEntryBox
				if p := hx.Try(func() { se = mp4.CreateAudioSampleEntryBox("mp4a", 2, 16, 48000, e) }); p == "" && se != nil {
					boxCheck(se, fmt.Sprintf("CreateAudioSampleEntryBox(mp4a, CreateEsdsBox(decConfig of %d bytes))", L))
				}
			}
		}
		name := strings.Repeat("n", L)
		if L <= 300 {
			var h *mp4.HdlrBox
			if p := hx.Try(func() { h, _ = mp4.CreateHdlr("vide") }); p == "" && h != nil {
				h.Name = name
				boxCheck(h, fmt.Sprintf("CreateHdlr(vide) with Name of %d bytes", L))
			}
			boxCheck(mp4.CreateElng(name), fmt.Sprintf("CreateElng(language of %d bytes)", L))
		}
	}
	tfhdBits := []uint32{1, 2, 8, 16, 32, 0x10000, 0x20000}
	for m := 0; m < 128; m++ {
		var fl uint32
		for i, b := range tfhdBits {
			if m&(1<<uint(i)) != 0 {
				fl |= b
			}
		}
		t := mp4.CreateTfhd(uint32(1 + m%3))
		t.Flags = fl
		t.BaseDataOffset, t.SampleDescriptionIndex, t.DefaultSampleDuration, t.DefaultSampleSize, t.DefaultSampleFlags = 1<<33, 2, 3000, 99, 0x01010000
		boxCheck(t, fmt.Sprintf("CreateTfhd; Flags=%#x", fl))
	}
	for _, v := range []uint64{0, 1, 0xffffffff, 1 << 32, 1 << 50} {
		boxCheck(mp4.CreateTfdt(v), fmt.Sprintf("CreateTfdt(%d)", v))
		t := mp4.CreateTfdt(5)
		t.SetBaseMediaDecodeTime(v)
		boxCheck(t, fmt.Sprintf("CreateTfdt(5).SetBaseMediaDecodeTime(%d)", v))
		sx := mp4.CreateSidx(v)
		for q := 0; q < int(v%3); q++ {
			sx.SidxRefs = append(sx.SidxRefs, mp4.SidxRef{ReferencedSize: 1000, SubSegmentDuration: 90000, StartsWithSAP: 1, SAPType: 1})
		}
		sx.EarliestPresentationTime = v
		boxCheck(sx, fmt.Sprintf("CreateSidx(%d) + %d refs", v, v%3))
		for _, ver := range []byte{0, 1} {
			boxCheck(mp4.CreatePrftBox(ver, 24, 1, mp4.NTP64(1<<40), v), fmt.Sprintf("CreatePrftBox(version %d, mediatime %d)", ver, v))
		}
	}
	// senc boxes built sample by sample, sub-sample patterns on some samples only (what EncryptFragment does when
	// the protect function returns no pattern for a sample), with and without per-sample IVs
	for m := 0; m < 16; m++ {
		for _, ivLen := range []int{0, 8, 16} {
			sb := mp4.CreateSencBox()
			how := fmt.Sprintf("CreateSencBox; AddSample x 4, IV length %d, sub-samples on samples", ivLen)
			for i := 0; i < 4; i++ {
				var ss mp4.SencSample
				if ivLen > 0 {
					ss.IV = r.Bytes(ivLen, nil)
				}
				if m&(1<<uint(i)) != 0 {
					ss.SubSamples = []mp4.SubSamplePattern{{BytesOfClearData: uint16(10 + i), BytesOfProtectedData: uint32(100 + i)}}
					how += fmt.Sprintf(" %d", i)
				}
				_ = sb.AddSample(ss)
			}
			boxCheck(sb, how)
		}
	}
	// ... and per-sample IVs on some samples only (AddSample reports an error for the samples it refuses)
	for m := 0; m < 8; m++ {
		sb := mp4.CreateSencBox()
		how := "CreateSencBox; AddSample x 3, 8-byte IV on samples"
		for i := 0; i < 3; i++ {
			var ss mp4.SencSample
			if m&(1<<uint(i)) != 0 {
				ss.IV = r.Bytes(8, nil)
				how += fmt.Sprintf(" %d", i)
			}
			if err := sb.AddSample(ss); err != nil {
				how += "(refused)"
			}
		}
		boxCheck(sb, how)
	}
	boxCheck(mp4.CreateMfhd(7), "CreateMfhd(7)")
	boxCheck(mp4.CreateTrex(2), "CreateTrex(2)")
	boxCheck(mp4.CreateMvhd(), "CreateMvhd()")
	boxCheck(mp4.CreateTkhd(), "CreateTkhd()")
	boxCheck(mp4.CreateFtyp(), "CreateFtyp()")
	boxCheck(mp4.CreateStyp(), "CreateStyp()")
	for _, mt := range []string{"video", "audio", "subtitles", "text", "meta", "vide", "soun", "clcp"} {
		if h, err := mp4.CreateHdlr(mt); err == nil {
			boxCheck(h, "CreateHdlr("+mt+")")
		}
	}
	// HandlerType is an exported string: any length (finding C02-K3, repaired by 3502d85)
	for _, ht := range []string{"", "v", "vi", "vid", "video", "subtitle"} {
		boxCheck(&mp4.HdlrBox{HandlerType: ht, Name: "n"}, fmt.Sprintf("HdlrBox{HandlerType: %q, Name: \"n\"}", ht))
	}
	// fragments whose trun carries first-sample flags next to the other per-sample fields
	for i := 0; i < 40; i++ {
		fr, err := mp4.CreateFragment(uint32(i+1), 1)
		if err != nil {
			continue
		}
		for _, s := range randSamples(r, r.Range(1, 5), r.Bool()) {
			fr.AddFullSample(s)
		}
		tr := fr.Moof.Traf.Trun
		how := fmt.Sprintf("CreateFragment + AddFullSample x %d", tr.SampleCount())
		if i%2 == 0 {
			tr.SetFirstSampleFlags(0x02000000)
			how += " + Trun.SetFirstSampleFlags"
		}
		if i%4 >= 2 {
			tr.Flags &^= 0x800
			how += " (no cto flag)"
		}
		opt := i%8 >= 4
		if opt {
			fr.EncOptimize = mp4.OptimizeTrun
			how += " OptimizeTrun"
		}
		g := fr
		history(agg{"Fragment(built)", g.Size, func(b io.Writer) error { return g.Encode(b) }, g.EncodeSW,
			func(b io.Writer) error { return g.Info(b, "all:1", "", "  ") }}, how, opt)
		boxCheck(g.Moof, how+" -> Moof after Encode")
	}
}

// doCodeSelected: layouts chosen by a CODE (a byte compared against a hard-coded list) are exercised for EVERY value of
// the code, not for sampled ones: a list that differs between Size() and the encoder / decoder shows only for the values
// on which the two lists disagree.  (a) avcC: AVCProfileIndication 0..255, built (with / without NoTrailingInfo, with / without
// parameter sets) and decoded by both decoders from bytes with and without the four trailing bytes; (b) the version byte
// 0..255 of every version-dependent box a constructor makes, patched into the encoded box and decoded by both decoders.
func doCodeSelected() {
	sps := []byte{0x67, 0x64, 0x00, 0x1e, 0xac, 0xd9, 0x40}
	pps := []byte{0x68, 0xeb, 0xe3}
	decodeBoth := func(raw []byte, how string) {
		for sr := 0; sr < 2; sr++ {
			var b mp4.Box
			var err error
			p := hx.Try(func() {
				if sr == 1 {
					b, err = mp4.DecodeBoxSR(0, bits.NewFixedSliceReader(raw))
				} else {
					b, err = mp4.DecodeBox(0, bytes.NewReader(raw))
				}
			})
			if p != "" || err != nil || b == nil {
				continue
			}
			boxCheck(b, fmt.Sprintf("%s decoded (sr=%d) from %x", how, sr, raw))
		}
	}
	for v := 0; v < 256; v++ {
		for k := 0; k < 4; k++ {
			rec := avc.DecConfRec{AVCProfileIndication: byte(v), ProfileCompatibility: 0, AVCLevelIndication: 30,
				ChromaFormat: 1, NoTrailingInfo: k&1 != 0}
			if k&2 != 0 {
				rec.SPSnalus = [][]byte{append([]byte{}, sps...)}
				rec.PPSnalus = [][]byte{append([]byte{}, pps...)}
			}
			boxCheck(&mp4.AvcCBox{DecConfRec: rec}, fmt.Sprintf("AvcCBox{AVCProfileIndication: %d, NoTrailingInfo: %v, %d SPS}", v, k&1 != 0, len(rec.SPSnalus)))
		}
		body := []byte{1, byte(v), 0, 30, 0xff, 0xe1, 0, byte(len(sps))}
		body = append(body, sps...)
		body = append(body, 1, 0, byte(len(pps)))
		body = append(body, pps...)
		for _, tail := range [][]byte{nil, {0xfd, 0xf8, 0xf8, 0}, {0xfd, 0xf8}} {
			pl := append(append([]byte{}, body...), tail...)
			raw := append([]byte{0, 0, 0, byte(8 + len(pl)), 'a', 'v', 'c', 'C'}, pl...)
			decodeBoth(raw, fmt.Sprintf("avcC profile %d, %d trailing bytes,", v, len(tail)))
		}
	}
	// version byte
	var protos []mp4.Box
	protos = append(protos, mp4.CreateMvhd(), mp4.CreateTkhd(), &mp4.MdhdBox{Timescale: 90000, Duration: 1000},
		&mp4.MehdBox{FragmentDuration: 5000}, mp4.CreateTfdt(77), mp4.CreateSidx(9),
		&mp4.ElstBox{Entries: []mp4.ElstEntry{{SegmentDuration: 1000, MediaTime: 0, MediaRateInteger: 1}}},
		mp4.CreatePrftBox(0, 24, 1, mp4.NTP64(1<<40), 90000))
	if sx, ok := protos[5].(*mp4.SidxBox); ok {
		sx.SidxRefs = append(sx.SidxRefs, mp4.SidxRef{ReferencedSize: 1000, SubSegmentDuration: 90000, StartsWithSAP: 1, SAPType: 1})
	}
	for _, pb := range protos {
		var buf bytes.Buffer
		if p := hx.Try(func() { _ = pb.Encode(&buf) }); p != "" || buf.Len() < 12 {
			continue
		}
		enc := buf.Bytes()
		for v := 0; v < 256; v++ {
			raw := append([]byte{}, enc...)
			raw[8] = byte(v)
			decodeBoth(raw, fmt.Sprintf("%s version byte %d,", pb.Type(), v))
		}
	}
}

func main() {
	if len(os.Args) >= 2 && os.Args[1] == "corr" {
		fs := flag.NewFlagSet("corr", flag.ExitOnError)
		seed := fs.Uint64("seed", 0, "")
		n := fs.Int("n", 300, "")
		repo := fs.String("repo", "/repo", "")
		_ = fs.Parse(os.Args[2:])
		defer out.Flush()
		cmdCorr(*seed, *n, *repo)
		return
	}
	if len(os.Args) < 2 || os.Args[1] != "search" {
		fmt.Fprintln(os.Stderr, "usage: c02 search|corr -seed S -n N")
		os.Exit(2)
	}
	fs := flag.NewFlagSet("search", flag.ExitOnError)
	seed := fs.Uint64("seed", 0, "")
	n := fs.Int("n", 300, "")
	repo := fs.String("repo", "/repo", "")
	_ = fs.Parse(os.Args[2:])
	defer out.Flush()
	nf := doFiles(*repo)
	doBuilt(*seed, *n)
	doBuiltBoxes(*seed)
	doCodeSelected()
	doSetters(*seed, *n, *repo)
	doProgressive(*seed, *n/4+10, *repo)
	doSencDecoded(*seed, *n+100)
	fmt.Fprintf(out, "STAT\tfile_decodes=%d built=%d\n", nf, *n)
	fmt.Fprintf(out, "EVALS\t%d\n", evals)
}
