// What applications do between building / decoding a structure and encoding it: public setters and plain field
// updates on the boxes whose layout depends on Version or on the width of a value, with boundary values in every
// time / duration / size field (mvhd tkhd mdhd mehd tfdt sidx elst emsg prft).  Used by `corr` and by the
// `search` stream doSetters, whose oracle is evaluated on the aggregate and at every node below it.
package main

import (
	"bytes"
	"fmt"
	"io"
	"os"
	"strings"

	"github.com/Eyevinn/mp4ff/mp4"
	"verifharness/hx"
)

var boundary = []uint64{0, 1 << 31, 1<<32 - 1, 1 << 32, 1 << 40}

type childrener interface{ GetChildren() []mp4.Box }

func walkBoxes(b mp4.Box, depth int, f func(mp4.Box)) {
	if b == nil || depth > 12 {
		return
	}
	f(b)
	if c, ok := b.(childrener); ok {
		// a traf with a saio box: the saio offsets point at the senc data relative to the moof start, and an
		// application that resizes a box in front of it has to rewrite them (Encode does not): no edits there
		if tf, ok := b.(*mp4.TrafBox); ok && tf.Saio != nil {
			return
		}
		for _, k := range c.GetChildren() {
			walkBoxes(k, depth+1, f)
		}
	}
}

func widthDependent(b mp4.Box) bool {
	switch b.(type) {
	case *mp4.MvhdBox, *mp4.TkhdBox, *mp4.MdhdBox, *mp4.MehdBox, *mp4.TfdtBox, *mp4.SidxBox, *mp4.ElstBox, *mp4.EmsgBox, *mp4.PrftBox:
		return true
	}
	return false
}

// mutateWidths applies k updates to width-dependent boxes found under roots; returns what was done.
func mutateWidths(r *hx.Rng, roots []mp4.Box, k int) []string {
	var cands []mp4.Box
	for _, b := range roots {
		walkBoxes(b, 0, func(x mp4.Box) {
			if widthDependent(x) {
				cands = append(cands, x)
			}
		})
	}
	var how []string
	if len(cands) == 0 {
		return how
	}
	for ; k > 0; k-- {
		c := cands[r.Intn(len(cands))]
		v := boundary[r.Intn(len(boundary))]
		if r.Intn(6) == 0 {
			v += uint64(r.Intn(3)) - 1
		}
		w := r.Intn(8)
		d := ""
		// the same menu for the three movie / track / media headers
		hdr := func(ver *byte, ct, mt, du *uint64, setC, setM func(int64)) {
			switch w {
			case 0:
				*ct = v
				d = fmt.Sprintf("CreationTime=%d", v)
			case 1:
				*mt = v
				d = fmt.Sprintf("ModificationTime=%d", v)
			case 2, 3:
				*du = v
				d = fmt.Sprintf("Duration=%d", v)
			case 4:
				setC(int64(v))
				d = fmt.Sprintf("SetCreationTimeS(%d)", v)
			case 5:
				setM(int64(v))
				d = fmt.Sprintf("SetModificationTimeS(%d)", v)
			default:
				*ver = byte(w & 1)
				d = fmt.Sprintf("Version=%d", w&1)
			}
		}
		switch b := c.(type) {
		case *mp4.MvhdBox:
			hdr(&b.Version, &b.CreationTime, &b.ModificationTime, &b.Duration, b.SetCreationTimeS, b.SetModificationTimeS)
		case *mp4.TkhdBox:
			hdr(&b.Version, &b.CreationTime, &b.ModificationTime, &b.Duration, b.SetCreationTimeS, b.SetModificationTimeS)
		case *mp4.MdhdBox:
			hdr(&b.Version, &b.CreationTime, &b.ModificationTime, &b.Duration, b.SetCreationTimeS, b.SetModificationTimeS)
		case *mp4.MehdBox:
			if w < 6 {
				b.FragmentDuration = int64(v)
				d = fmt.Sprintf("FragmentDuration=%d", v)
			} else {
				b.Version = byte(w & 1)
				d = fmt.Sprintf("Version=%d", w&1)
			}
		case *mp4.TfdtBox:
			b.SetBaseMediaDecodeTime(v)
			d = fmt.Sprintf("SetBaseMediaDecodeTime(%d)", v)
		case *mp4.SidxBox:
			switch w {
			case 0, 1:
				b.EarliestPresentationTime = v
				d = fmt.Sprintf("EarliestPresentationTime=%d", v)
			case 2, 3:
				b.FirstOffset = v
				d = fmt.Sprintf("FirstOffset=%d", v)
			case 4:
				b.SidxRefs = append(b.SidxRefs, mp4.SidxRef{ReferencedSize: uint32(v) & 0x7fffffff, SubSegmentDuration: uint32(v), StartsWithSAP: 1, SAPType: 1})
				d = "SidxRefs+=1"
			default:
				b.Version = byte(w & 1)
				d = fmt.Sprintf("Version=%d", w&1)
			}
		case *mp4.ElstBox:
			if len(b.Entries) == 0 || w == 4 {
				b.Entries = append(b.Entries, mp4.ElstEntry{SegmentDuration: v, MediaTime: int64(v), MediaRateInteger: 1})
				d = fmt.Sprintf("Entries+={%d,%d}", v, v)
			} else if w < 4 {
				e := &b.Entries[r.Intn(len(b.Entries))]
				if w < 2 {
					e.SegmentDuration = v
					d = fmt.Sprintf("SegmentDuration=%d", v)
				} else {
					e.MediaTime = int64(v)
					d = fmt.Sprintf("MediaTime=%d", v)
				}
			} else {
				b.Version = byte(w & 1)
				d = fmt.Sprintf("Version=%d", w&1)
			}
		case *mp4.EmsgBox:
			switch w {
			case 0, 1:
				b.PresentationTime = v
				d = fmt.Sprintf("PresentationTime=%d", v)
			case 2:
				b.PresentationTimeDelta = uint32(v)
				d = fmt.Sprintf("PresentationTimeDelta=%d", uint32(v))
			case 3:
				b.EventDuration = uint32(v)
				d = fmt.Sprintf("EventDuration=%d", uint32(v))
			case 4:
				b.ID = uint32(v)
				d = fmt.Sprintf("ID=%d", uint32(v))
			default:
				b.Version = byte(w & 1)
				d = fmt.Sprintf("Version=%d", w&1)
			}
		case *mp4.PrftBox:
			switch w {
			case 0, 1, 2:
				b.MediaTime = v
				d = fmt.Sprintf("MediaTime=%d", v)
			case 3, 4:
				b.NTPTimestamp = mp4.NTP64(v)
				d = fmt.Sprintf("NTPTimestamp=%d", v)
			default:
				b.Version = byte(w & 1)
				d = fmt.Sprintf("Version=%d", w&1)
			}
		}
		how = append(how, c.Type()+"."+d)
	}
	return how
}

// ------------------------------------------------------------------ structures to drive
type built struct {
	kind  string // init seg frag file
	desc  string
	roots []mp4.Box // every top-level box (for the per-node oracle and the setters)
	a     agg
	opt   bool
	isSeg bool // the output is a sequence of complete top-level boxes that DecodeFile must accept
}

func richInit(r *hx.Rng) *mp4.InitSegment {
	init := mp4.CreateEmptyInit()
	nt := r.Range(1, 3)
	for k := 0; k < nt; k++ {
		init.AddEmptyTrack(uint32(r.Pick(90000, 48000, 1000)), []string{"video", "audio", "subtitles"}[r.Intn(3)], "und")
	}
	// the optional boxes whose layout depends on a version: edts/elst per track, mehd
	for _, tk := range init.Moov.Traks {
		if r.Bool() {
			ed := &mp4.EdtsBox{}
			el := &mp4.ElstBox{}
			if r.Bool() {
				el.Entries = append(el.Entries, mp4.ElstEntry{SegmentDuration: 1000, MediaTime: 0, MediaRateInteger: 1})
			}
			ed.AddChild(el)
			tk.AddChild(ed)
		}
	}
	if init.Moov.Mvex != nil && r.Bool() {
		init.Moov.Mvex.AddChild(&mp4.MehdBox{FragmentDuration: 90000})
	}
	// further top-level boxes of an init segment (free, uuid, ...)
	if r.Intn(3) == 0 {
		init.AddChild(extraBox(r))
	}
	return init
}

func richSegment(r *hx.Rng) *mp4.MediaSegment {
	seg := genSegment(r, false)
	for i, f := range seg.Fragments {
		if r.Intn(3) == 0 {
			// (AddEmsg panics when the last child is an emsg and the slice is full: not a C02 matter, reported)
			e := &mp4.EmsgBox{Version: byte(r.Intn(2)), TimeScale: 1000, SchemeIDURI: "urn:z", Value: "2", MessageData: r.Bytes(r.Intn(5), nil)}
			_ = hx.Try(func() { f.AddEmsg(e) })
		}
		if r.Intn(3) == 0 {
			// prft in front of the fragment
			f2 := mp4.NewFragment()
			f2.AddChild(mp4.CreatePrftBox(byte(r.Intn(2)), 24, 1, mp4.NTP64(1<<40), 90000))
			for _, c := range f.Children {
				f2.AddChild(c)
			}
			f2.EncOptimize = f.EncOptimize
			seg.Fragments[i] = f2
		}
	}
	return seg
}

func segRoots(seg *mp4.MediaSegment) []mp4.Box {
	var roots []mp4.Box
	if seg.Styp != nil {
		roots = append(roots, seg.Styp)
	}
	for _, x := range seg.Sidxs {
		roots = append(roots, x)
	}
	for _, f := range seg.Fragments {
		roots = append(roots, f.Children...)
	}
	return roots
}

func hasLazy(roots []mp4.Box) bool {
	for _, b := range roots {
		if m, ok := b.(*mp4.MdatBox); ok && m.GetLazyDataSize() > 0 {
			return true
		}
	}
	return false
}

// buildOne makes one structure from the sub-seed; calling it twice gives two equal, independent copies.
func buildOne(sub uint64, files []string) *built {
	r := hx.NewRng(sub)
	var b *built
	switch r.Intn(5) {
	case 0:
		init := richInit(r)
		b = &built{kind: "InitSegment(set)", desc: "CreateEmptyInit+AddEmptyTrack(+edts/elst,mehd)", roots: init.Children,
			a: agg{"InitSegment(set)", init.Size, func(w io.Writer) error { return init.Encode(w) }, init.EncodeSW,
				func(w io.Writer) error { return init.Info(w, "all:1", "", "  ") }}, isSeg: true}
	case 1:
		seg := richSegment(r)
		opt := seg.EncOptimize&mp4.OptimizeTrun != 0
		b = &built{kind: "MediaSegment(set)", desc: "built segment", roots: segRoots(seg), opt: opt,
			a: agg{"MediaSegment(set)", seg.Size, func(w io.Writer) error { return seg.Encode(w) }, seg.EncodeSW,
				func(w io.Writer) error { return seg.Info(w, "all:1", "", "  ") }}, isSeg: true}
	case 2:
		init := richInit(r)
		f := mp4.NewFile()
		pos := uint64(0)
		for _, c := range init.Children {
			f.AddChild(c, pos)
			pos += c.Size()
		}
		roots := append([]mp4.Box{}, init.Children...)
		for k := r.Range(1, 2); k > 0; k-- {
			seg := richSegment(r)
			seg.EncOptimize = mp4.OptimizeNone
			for _, fr := range seg.Fragments {
				fr.EncOptimize = mp4.OptimizeNone
			}
			f.AddMediaSegment(seg)
			roots = append(roots, segRoots(seg)...)
		}
		b = &built{kind: "File(set)", desc: "NewFile+AddChild(init)+AddMediaSegment", roots: roots,
			a: fileAgg(f, "File(set)"), isSeg: true}
	default:
		if len(files) == 0 {
			return nil
		}
		p := files[r.Intn(len(files))]
		data, err := os.ReadFile(p)
		if err != nil {
			return nil
		}
		mode := mp4.EncFragFileMode(r.Intn(2))
		f, err := decodeFile(data, r.Bool(), mode)
		if err != nil || f == nil {
			return nil
		}
		name := "File(set)"
		if f.IsFragmented() && mode == mp4.EncModeSegment {
			name = "File(segment mode,set)"
		}
		b = &built{kind: name, desc: fmt.Sprintf("decoded %s mode=%d", p[strings.LastIndex(p, "/")+1:], mode), roots: f.Children,
			a: fileAgg(f, name), isSeg: true}
	}
	how := mutateWidths(r, b.roots, r.Range(1, 4))
	b.desc += "; " + strings.Join(how, "; ")
	if hasLazy(b.roots) {
		return nil // the caller writes the mdat payload separately: the output alone is not the structure
	}
	return b
}

// redecodes: the output must be a sequence of boxes the decoder accepts
func redecodes(out []byte) string {
	var err error
	p := hx.Try(func() { _, err = mp4.DecodeFile(bytes.NewReader(out)) })
	if p != "" {
		return "panic: " + p
	}
	if err != nil {
		return err.Error()
	}
	return ""
}

func doSetters(seed uint64, n int, repo string) {
	fs := smallFiles(repo)
	for i := 0; i < n; i++ {
		sub := seed*1000003 + uint64(i)*7919 + 12345
		// copy A: the aggregate, top down
		a := buildOne(sub, fs)
		if a == nil {
			continue
		}
		w := fmt.Sprintf("setters seed=%d i=%d: %s", seed, i, a.desc)
		out := historyOrder(a.a, w, a.opt, i%2 == 1)
		if out != nil && a.isSeg {
			if e := redecodes(out); e != "" {
				fail(a.kind, "output-does-not-decode", w, "the bytes written are not accepted by DecodeFile: "+e)
			}
		}
		// copy B: every node of every top-level box, each judged before anything above it has been encoded
		b := buildOne(sub, fs)
		if b == nil {
			continue
		}
		for _, root := range b.roots {
			boxCheck(root, w)
		}
	}
}
