// Harness for C14 (NAL unit framing conversions preserve the NAL unit sequence).
//
//	c14 corr   -seed S -n N -plen P -bgs a,b,c   : cases + implementation observables for the model diff
//	c14 search -seed S -n N -plen P -bgs a,b,c   : evaluates the property itself on the implementation
//	c14 call <fn> <args> <hex>                    : one call (replay)
//
// Case line: F \t id \t fn \t args \t input-hex \t result
// result = ok:<value> | err | panic.  Values: bytes = hex ("-" empty); list of byte strings = [a,b,c];
// type list = csv of ints ("-" empty); bool = 0/1; parameter sets = [..];[..];[..] (vps;sps;pps).
// Every input slice handed to the library has cap == len (hx.Exact) and is a private copy.
package main

import (
	"bufio"
	"bytes"
	"encoding/binary"
	"flag"
	"fmt"
	"math/bits"
	"os"
	"strconv"
	"strings"

	"github.com/Eyevinn/mp4ff/avc"
	"github.com/Eyevinn/mp4ff/hevc"
	"verifharness/hx"
)

var out = bufio.NewWriterSize(os.Stdout, 1<<20)

// ---------------------------------------------------------------- formatting
func fmtList(l [][]byte) string {
	ss := make([]string, len(l))
	for i, b := range l {
		ss[i] = hx.Hex(b)
	}
	return "[" + strings.Join(ss, ",") + "]"
}

func fmtBool(b bool) string {
	if b {
		return "1"
	}
	return "0"
}

func fmtAvcTypes(l []avc.NaluType) string {
	xs := make([]int, len(l))
	for i, t := range l {
		xs[i] = int(t)
	}
	return hx.Csv(xs)
}

func fmtHevcTypes(l []hevc.NaluType) string {
	xs := make([]int, len(l))
	for i, t := range l {
		xs[i] = int(t)
	}
	return hx.Csv(xs)
}

// ---------------------------------------------------------------- one observable call
// call runs library function fn on a private exact-capacity copy of in, and a second time on a private copy that is
// a sub-slice of a larger buffer (24 spare bytes behind it): the result must not depend on the spare capacity and
// the bytes behind len(in) belong to the caller - a function that writes there (an "in place, the capacity allows
// it" fast path) corrupts whatever the caller keeps behind the stream.
func call(fn, args string, in []byte) (res string) {
	res = callOn(fn, args, hx.Exact(in))
	render := lastRender
	defer func() { lastRender = render }() // the values returned by the run on the exact-capacity copy (see hygABA)
	if fn == "hzb" {
		return res
	}
	buf := make([]byte, len(in)+24)
	copy(buf, in)
	for i := len(in); i < len(buf); i++ {
		buf[i] = 0xA5
	}
	res2 := callOn(fn, args, buf[:len(in)])
	for i := len(in); i < len(buf); i++ {
		if buf[i] != 0xA5 {
			return res + "|WRITES-BEYOND-LEN(offset " + strconv.Itoa(i-len(in)) + " behind the input)"
		}
	}
	if res2 != res && !(strings.HasPrefix(res, "panic") && !strings.HasPrefix(res2, "panic")) {
		return res + "|DEPENDS-ON-CAPACITY(" + res2 + ")"
	}
	// ... and at every misalignment of the slice's base address (a stream that is buf[k:] of a read buffer or of a
	// PES payload does not start on a machine-word boundary; a fresh make() always does)
	if len(in) >= 8 {
		big := make([]byte, len(in)+16)
		for k := 1; k < 8; k++ {
			d := big[k : k+len(in) : k+len(in)]
			copy(d, in)
			if r3 := callOn(fn, args, d); r3 != res {
				return res + "|DEPENDS-ON-ALIGNMENT(base offset " + strconv.Itoa(k) + ": " + r3 + ")"
			}
		}
	}
	return res
}

// lastRender re-renders the slice-valued result of the last callOn from the values the library returned (nil for
// scalar results, errors and panics): hygABA evaluates it again after LATER calls.
var lastRender func() string

// callOn runs fn on d itself.
func callOn(fn, args string, d []byte) (res string) {
	lastRender = nil
	var a []int
	if args != "-" {
		for _, s := range strings.Split(args, ",") {
			v, _ := strconv.Atoi(s)
			a = append(a, v)
		}
	}
	p := hx.Try(func() {
		switch fn {
		case "hzb":
			if wordBytes == 4 {
				res = "ok:" + fmtBool(avc.VerifHasZeroByte(uint(binary.LittleEndian.Uint32(d))))
			} else {
				res = "ok:" + fmtBool(avc.VerifHasZeroByte(uint(binary.LittleEndian.Uint64(d))))
			}
		case "scan":
			scs, m := avc.VerifGetStartCodePositions(d)
			lastRender = func() string {
				ss := make([]string, len(scs))
				for i, s := range scs {
					ss[i] = fmt.Sprintf("%d:%d", s.StartCodeLength, s.StartPos)
				}
				return fmt.Sprintf("ok:%d;%s", m, strings.Join(ss, ","))
			}
			res = lastRender()
		case "b2s":
			o := avc.ConvertByteStreamToNaluSample(d)
			lastRender = func() string { return "ok:" + hx.Hex(o) }
			res = lastRender()
		case "s2b":
			o := avc.ConvertSampleToByteStream(d)
			lastRender = func() string { return "ok:" + hx.Hex(o) }
			res = lastRender()
		case "rt": // search only: stream -> sample -> stream
			res = "ok:" + hx.Hex(avc.ConvertSampleToByteStream(avc.ConvertByteStreamToNaluSample(d)))
		case "gnfs":
			l, err := avc.GetNalusFromSample(d)
			if err != nil {
				res = "err"
			} else {
				lastRender = func() string { return "ok:" + fmtList(l) }
				res = lastRender()
			}
		case "enb":
			l := avc.ExtractNalusFromByteStream(d)
			lastRender = func() string { return "ok:" + fmtList(l) }
			res = lastRender()
		case "avc_fnt":
			l := avc.FindNaluTypes(d)
			lastRender = func() string { return "ok:" + fmtAvcTypes(l) }
			res = lastRender()
		case "avc_fntv":
			l := avc.FindNaluTypesUpToFirstVideoNALU(d)
			lastRender = func() string { return "ok:" + fmtAvcTypes(l) }
			res = lastRender()
		case "avc_cnt":
			res = "ok:" + fmtBool(avc.ContainsNaluType(d, avc.NaluType(a[0])))
		case "avc_idr":
			res = "ok:" + fmtBool(avc.IsIDRSample(d))
		case "avc_hps":
			res = "ok:" + fmtBool(avc.HasParameterSets(d))
		case "avc_gps":
			s, p := avc.GetParameterSets(d)
			lastRender = func() string { return "ok:[];" + fmtList(s) + ";" + fmtList(p) }
			res = lastRender()
		case "avc_gpsb":
			s, p := avc.GetParameterSetsFromByteStream(d)
			lastRender = func() string { return "ok:[];" + fmtList(s) + ";" + fmtList(p) }
			res = lastRender()
		case "avc_enot":
			l := avc.ExtractNalusOfTypeFromByteStream(avc.NaluType(a[0]), d, a[1] == 1)
			lastRender = func() string { return "ok:" + fmtList(l) }
			res = lastRender()
		case "avc_gfv":
			o := avc.GetFirstAVCVideoNALUFromByteStream(d)
			lastRender = func() string { return "ok:" + hx.Hex(o) }
			res = lastRender()
		case "hevc_fnt":
			l := hevc.FindNaluTypes(d)
			lastRender = func() string { return "ok:" + fmtHevcTypes(l) }
			res = lastRender()
		case "hevc_fntv":
			l := hevc.FindNaluTypesUpToFirstVideoNalu(d)
			lastRender = func() string { return "ok:" + fmtHevcTypes(l) }
			res = lastRender()
		case "hevc_cnt":
			res = "ok:" + fmtBool(hevc.ContainsNaluType(d, hevc.NaluType(a[0])))
		case "hevc_rap":
			res = "ok:" + fmtBool(hevc.IsRAPSample(d))
		case "hevc_idr":
			res = "ok:" + fmtBool(hevc.IsIDRSample(d))
		case "hevc_hps":
			res = "ok:" + fmtBool(hevc.HasParameterSets(d))
		case "hevc_gps":
			v, s, p := hevc.GetParameterSets(d)
			lastRender = func() string { return "ok:" + fmtList(v) + ";" + fmtList(s) + ";" + fmtList(p) }
			res = lastRender()
		case "hevc_gpsb":
			v, s, p := hevc.GetParameterSetsFromByteStream(d)
			lastRender = func() string { return "ok:" + fmtList(v) + ";" + fmtList(s) + ";" + fmtList(p) }
			res = lastRender()
		case "hevc_enot":
			l := hevc.ExtractNalusOfTypeFromByteStream(hevc.NaluType(a[0]), d, a[1] == 1)
			lastRender = func() string { return "ok:" + fmtList(l) }
			res = lastRender()
		default:
			panic("unknown fn " + fn)
		}
	})
	if p != "" {
		if strings.HasPrefix(p, "unknown fn") {
			fmt.Fprintln(os.Stderr, p)
			os.Exit(2)
		}
		return "panic"
	}
	return res
}

var caseID int

// wordBytes is the size of the platform's uint, the machine word getStartCodePositions loads: 8 on amd64/arm64,
// 4 when this harness is built with GOARCH=386 (checks/c14.py builds and runs both).
const wordBytes = bits.UintSize / 8

// platformFn names the case kind: the functions that depend on the machine word (hasZeroByte, the scanner and the
// conversion built on it) get the suffix 32 on a 32-bit build, where the model driver answers them with the
// transcription for uintSize = 4.
func platformFn(fn string) string {
	if wordBytes == 4 && (fn == "hzb" || fn == "scan" || fn == "b2s") {
		return fn + "32"
	}
	return fn
}

func emit(fn, args string, in []byte) {
	caseID++
	fmt.Fprintf(out, "F\t%d\t%s\t%s\t%s\t%s\n", caseID, platformFn(fn), args, hx.Hex(in), call(fn, args, in))
}

// ---------------------------------------------------------------- generators
// every boundary of the type tests in the library: AVC video <= 5, SPS 7, PPS 8; HEVC video <= 31,
// RAP 16..23, IDR 19..20, VPS/SPS/PPS 32..34
var avcTypes = []int{7, 8, 5, 1, 6, 9, 0, 2, 12, 31, 4, 10}
var hevcTypes = []int{32, 33, 34, 19, 20, 21, 16, 23, 1, 0, 39, 35, 40, 63, 15, 17, 18, 22, 24, 31}

// header byte with the given AVC / HEVC type (the other bits random)
func hdrByte(r *hx.Rng, hevcMode bool) byte { return hdrByteP(r, hevcMode, false) }

// parameter-set heavy palettes: duplicate / absent sets, non-video units between them, sets after the video unit
var avcPsTypes = []int{7, 8, 7, 8, 6, 9, 5, 1}
var hevcPsTypes = []int{32, 33, 34, 33, 34, 32, 39, 35, 19, 1, 33, 34, 31}

func hdrByteP(r *hx.Rng, hevcMode, ps bool) byte {
	if r.Intn(8) == 0 && !ps {
		return byte(r.U64())
	}
	if hevcMode {
		t := hevcTypes[r.Intn(len(hevcTypes))]
		if ps {
			t = hevcPsTypes[r.Intn(len(hevcPsTypes))]
		}
		return byte(t<<1) | byte(r.Intn(2)) | byte(r.Intn(2))<<7
	}
	t := avcTypes[r.Intn(len(avcTypes))]
	if ps {
		t = avcPsTypes[r.Intn(len(avcPsTypes))]
	}
	return byte(t) | byte(r.Intn(8))<<5
}

// escapeUnit makes a payload emulation-free (inserts 03 after 00 00 before a byte <= 3) and
// gives it a non-zero last byte.
func escapeUnit(b []byte) []byte {
	o := make([]byte, 0, len(b)+4)
	z := 0
	for _, c := range b {
		if z == 2 && c <= 3 {
			o = append(o, 3)
			z = 0
		}
		o = append(o, c)
		if c == 0 {
			z++
		} else {
			z = 0
		}
	}
	if len(o) > 0 && o[len(o)-1] == 0 {
		if len(o) > 1 {
			o[len(o)-1] = 0x80
		} else {
			o[0] = 0x80
		}
	}
	return o
}

type unit struct {
	four bool
	data []byte
}

// genUnits: 1..maxUnits well-formed units; sizes 1..40 mostly, sometimes longer (crossing several words)
func genUnits(r *hx.Rng, hevcMode bool, maxUnits int) []unit {
	k := r.Range(1, maxUnits)
	us := make([]unit, k)
	fourMode := r.Intn(4) // 0: all four, 1: all three, else mixed
	psMode := r.Intn(3) == 0
	for i := range us {
		var n int
		switch r.Intn(10) {
		case 0:
			n = 1
		case 1:
			n = 2
		case 2:
			n = r.Range(41, 120)
		case 3:
			if r.Intn(4) == 0 {
				n = r.Range(250, 262) // second length byte becomes non-zero
			} else {
				n = r.Range(1, 40)
			}
		default:
			n = r.Range(1, 40)
		}
		var alpha []byte
		if r.Intn(3) == 0 {
			alpha = []byte{0, 0, 0, 1, 1, 2, 3, 0x80, 0xff}
		}
		b := r.Bytes(n, alpha)
		b[0] = hdrByteP(r, hevcMode, psMode)
		b = escapeUnit(b)
		four := fourMode == 0 || (fourMode >= 2 && r.Bool())
		us[i] = unit{four, b}
	}
	return us
}

func buildStream(us []unit) []byte {
	var b []byte
	for _, u := range us {
		if u.four {
			b = append(b, 0, 0, 0, 1)
		} else {
			b = append(b, 0, 0, 1)
		}
		b = append(b, u.data...)
	}
	return b
}

func buildSample(us []unit) []byte {
	var b []byte
	for _, u := range us {
		var lf [4]byte
		binary.BigEndian.PutUint32(lf[:], uint32(len(u.data)))
		b = append(b, lf[:]...)
		b = append(b, u.data...)
	}
	return b
}

func buildStream4(us []unit) []byte {
	var b []byte
	for _, u := range us {
		b = append(b, 0, 0, 0, 1)
		b = append(b, u.data...)
	}
	return b
}

// patterns over {00,01,xx} of length <= plen, in a fixed order
func patterns(plen int) [][]byte {
	res := [][]byte{{}}
	cur := [][]byte{{}}
	for l := 1; l <= plen; l++ {
		var nxt [][]byte
		for _, p := range cur {
			for _, c := range []byte{0, 1, 0xAA} {
				q := append(append([]byte{}, p...), c)
				nxt = append(nxt, q)
			}
		}
		res = append(res, nxt...)
		cur = nxt
	}
	return res
}

var fillers = []byte{0x02, 0x80, 0xff, 0x7f, 0x81, 0x03, 0x10}

func background(r *hx.Rng, n int) []byte {
	b := make([]byte, n)
	f := fillers[r.Intn(len(fillers))]
	mixed := r.Intn(3) == 0
	for i := range b {
		if mixed {
			b[i] = byte(r.Range(2, 255))
		} else {
			b[i] = f
		}
	}
	return b
}

func parseInts(s string) []int {
	var r []int
	for _, f := range strings.Split(s, ",") {
		if strings.Contains(f, "-") {
			ab := strings.SplitN(f, "-", 2)
			a, _ := strconv.Atoi(ab[0])
			b, _ := strconv.Atoi(ab[1])
			for v := a; v <= b; v++ {
				r = append(r, v)
			}
		} else if f != "" {
			v, _ := strconv.Atoi(f)
			r = append(r, v)
		}
	}
	return r
}

// forEachScanInput enumerates the arbitrary-byte inputs of the scanner:
// every pattern at every offset of every background length, two patterns at once, random strings.
func forEachScanInput(seed uint64, n, plen int, bgs []int, f func([]byte)) {
	r := hx.NewRng(seed ^ 0xC14)
	pats := patterns(plen)
	for _, L := range bgs {
		for _, p := range pats {
			for off := 0; off+len(p) <= L; off++ {
				b := background(r, L)
				copy(b[off:], p)
				f(b)
				if len(p) == 0 {
					break
				}
			}
		}
	}
	// two patterns at once + random strings over the small alphabet, all lengths 0..72
	for i := 0; i < n; i++ {
		L := r.Range(0, 72)
		var b []byte
		if r.Bool() {
			b = background(r, L)
			for k := 0; k < 2; k++ {
				p := pats[r.Intn(len(pats))]
				if len(p) <= L {
					copy(b[r.Intn(L-len(p)+1):], p)
				}
			}
		} else {
			b = r.Bytes(L, []byte{0, 0, 0, 1, 1, 0xAA, 3})
		}
		f(b)
	}
}

func forEachWord(seed uint64, n int, f func(uint64)) {
	r := hx.NewRng(seed ^ 0x2B)
	alpha := []byte{0, 1, 0x7f, 0x80, 0xff, 0x81, 2}
	for i := 0; i < n; i++ {
		var b []byte
		switch r.Intn(3) {
		case 0:
			b = r.Bytes(8, nil)
		case 1:
			b = r.Bytes(8, alpha)
		default:
			b = r.Bytes(8, nil)
			b[r.Intn(8)] = 0
			if r.Bool() {
				b[r.Intn(8)] = 1
			}
		}
		f(binary.LittleEndian.Uint64(b))
	}
	// every single-zero-byte / no-zero-byte word over {00, 01, 80}
	for m := 0; m < 6561; m++ {
		var b [8]byte
		v := m
		for k := 0; k < 8; k++ {
			b[k] = []byte{0, 1, 0x80}[v%3]
			v /= 3
		}
		f(binary.LittleEndian.Uint64(b[:]))
	}
}

// mutate makes a mostly-valid input malformed; length fields stay small so that no walker can spin.
func mutate(r *hx.Rng, b []byte) []byte {
	c := append([]byte{}, b...)
	if len(c) == 0 {
		return c
	}
	switch r.Intn(5) {
	case 0: // truncate
		c = c[:r.Intn(len(c))]
	case 1: // flip a byte to 0/1
		c[r.Intn(len(c))] = byte(r.Intn(2))
	case 2: // insert zeros
		p := r.Intn(len(c) + 1)
		z := make([]byte, r.Range(1, 3))
		c = append(c[:p], append(z, c[p:]...)...)
	case 3: // append garbage
		c = append(c, r.Bytes(r.Range(1, 5), []byte{0, 0, 1, 7})...)
	default: // drop a byte
		p := r.Intn(len(c))
		c = append(c[:p], c[p+1:]...)
	}
	return c
}

// smallLengths reports whether every 4-byte big-endian field a walker could read is harmless
// (the crash / hang behaviour of the walkers on hostile length fields is property C16's subject).
func smallLengths(b []byte) bool {
	// exact: simulate the walk with int positions
	pos := 0
	for pos+4 <= len(b) {
		n := binary.BigEndian.Uint32(b[pos : pos+4])
		if n >= 1<<16 {
			return false
		}
		pos += 4 + int(n)
	}
	return true
}

// presentTypeStream: the type of the byte behind one of the start codes of `in`, two times out of three.
func presentTypeStream(hevcMode bool, r *hx.Rng, in []byte) int {
	var ts []int
	for i := 0; i+3 < len(in); i++ {
		if in[i] == 0 && in[i+1] == 0 && in[i+2] == 1 {
			ts = append(ts, typeOf(hevcMode, in[i+3:i+4]))
		}
	}
	k, pick := r.Intn(3), r.U64()
	if len(ts) > 0 && k != 0 {
		return ts[pick%uint64(len(ts))]
	}
	if hevcMode {
		return hevcTypes[pick%uint64(len(hevcTypes))]
	}
	return avcTypes[pick%uint64(len(avcTypes))]
}

func streamFns(hevcMode bool, r *hx.Rng, in []byte) {
	emit("scan", "-", in)
	emit("b2s", "-", in)
	emit("enb", "-", in)
	if hevcMode {
		emit("hevc_gpsb", "-", in)
		emit("hevc_enot", fmt.Sprintf("%d,%d", presentTypeStream(true, r, in), r.Intn(2)), in)
	} else {
		emit("avc_gpsb", "-", in)
		emit("avc_enot", fmt.Sprintf("%d,%d", presentTypeStream(false, r, in), r.Intn(2)), in)
		emit("avc_gfv", "-", in)
	}
}

// presentType: the type of one of the units a length-field walk of `in` meets (also a truncated last one),
// two times out of three; otherwise (or when there is none) a type from the table.
func presentType(hevcMode bool, r *hx.Rng, in []byte) int {
	var ts []int
	for pos := 0; pos+4 < len(in); {
		n := binary.BigEndian.Uint32(in[pos : pos+4])
		pos += 4
		ts = append(ts, typeOf(hevcMode, in[pos:pos+1]))
		if int64(n) > int64(len(in)-pos) {
			break
		}
		pos += int(n)
	}
	k, pick := r.Intn(3), r.U64()
	if len(ts) > 0 && k != 0 {
		if k == 1 {
			return ts[len(ts)-1]
		}
		return ts[pick%uint64(len(ts))]
	}
	if hevcMode {
		return hevcTypes[pick%uint64(len(hevcTypes))]
	}
	return avcTypes[pick%uint64(len(avcTypes))]
}

func sampleFns(hevcMode bool, r *hx.Rng, in []byte) {
	emit("s2b", "-", in)
	emit("gnfs", "-", in)
	if hevcMode {
		emit("hevc_fnt", "-", in)
		emit("hevc_fntv", "-", in)
		emit("hevc_cnt", strconv.Itoa(presentType(true, r, in)), in)
		emit("hevc_rap", "-", in)
		emit("hevc_idr", "-", in)
		emit("hevc_hps", "-", in)
		emit("hevc_gps", "-", in)
	} else {
		emit("avc_fnt", "-", in)
		emit("avc_fntv", "-", in)
		emit("avc_cnt", strconv.Itoa(presentType(false, r, in)), in)
		emit("avc_idr", "-", in)
		emit("avc_hps", "-", in)
		emit("avc_gps", "-", in)
	}
}

func corr(seed uint64, n, plen int, bgs []int) {
	// 1 hasZeroByte
	forEachWord(seed, n, func(w uint64) {
		var b [8]byte
		binary.LittleEndian.PutUint64(b[:], w)
		emit("hzb", "-", b[:wordBytes])
	})
	// 2 scanner + conversion on arbitrary bytes
	k := 0
	forEachScanInput(seed, n, plen, bgs, func(b []byte) {
		emit("scan", "-", b)
		if k%4 == 0 {
			emit("b2s", "-", b)
			emit("enb", "-", b)
		}
		k++
	})
	// 3 streams / samples built from unit lists, and mutated ones
	r := hx.NewRng(seed ^ 0x5EED)
	for i := 0; i < n; i++ {
		hm := r.Bool()
		us := genUnits(r, hm, 6)
		st, sa := buildStream(us), buildSample(us)
		streamFns(hm, r, st)
		sampleFns(hm, r, sa)
		if i%3 == 0 {
			streamFns(hm, r, mutate(r, st))
			if m := mutate(r, sa); smallLengths(m) {
				sampleFns(hm, r, m)
			}
			// a wrapping / oversized length field, for GetNalusFromSample only (it returns an error or
			// panics, it cannot spin; the other walkers on hostile lengths are C16's subject)
			h := append([]byte{}, sa...)
			lf := []uint32{0xfffffffc, 0xffffffff, 0x80000000, uint32(len(sa)), uint32(len(sa)) - 4, 0x00010000}[r.Intn(6)]
			binary.BigEndian.PutUint32(h[0:4], lf)
			emit("gnfs", "-", h)
		}
	}
	// length fields with a non-zero second byte: samples only (the extracted walkers are linear in the input,
	// the extracted scanner is quadratic; 64 KiB streams are left to the search)
	kb := int(seed%29) + r.Intn(7)
	for _, d := range []string{fmt.Sprintf("%d/4,3/4", 65536+kb), fmt.Sprintf("2/4,%d/3,1/4", 65535+kb)} {
		for _, h := range []string{"0", "1"} {
			_, hm, us := genBig(fmt.Sprintf("sa:%d:%s:%s", seed, h, d))
			sampleFns(hm, r, buildSample(us))
		}
	}
	out.Flush()
}

// ---------------------------------------------------------------- search: the property itself
var evals int

func fail(site, class, witness, desc string) {
	fmt.Fprintf(out, "FAIL\t%s\t%s\t%s\t%s\n", site, class, witness, desc)
}

// naiveScan is the byte-by-byte reference: every p with b[p..p+2] = 00 00 01 and p+3 < len(b).
func naiveScan(b []byte) string {
	minLen := 4
	var ss []string
	for p := 0; p+3 < len(b); p++ {
		if b[p] == 0 && b[p+1] == 0 && b[p+2] == 1 {
			l := 3
			if p > 0 && b[p-1] == 0 {
				l = 4
			}
			if l < minLen {
				minLen = l
			}
			ss = append(ss, fmt.Sprintf("%d:%d", l, p+3))
		}
	}
	return fmt.Sprintf("ok:%d;%s", minLen, strings.Join(ss, ","))
}

func unitsData(us []unit) [][]byte {
	l := make([][]byte, len(us))
	for i, u := range us {
		l[i] = u.data
	}
	return l
}

// bigWitness, when set, names the generated input ("gen:..." form understood by `c14 call`) in place of its hex.
var bigWitness string

func short(s string) string {
	if len(s) > 160 {
		return fmt.Sprintf("%s...(%d chars)", s[:160], len(s))
	}
	return s
}

func check(site, fn, args string, in []byte, want string, what string) {
	evals++
	got := call(fn, args, in)
	hygABA(site, fn, args, in, got)
	if got != want {
		class := "wrong-result"
		if got == "panic" {
			class = "panic"
		}
		w := hx.Hex(in)
		if bigWitness != "" {
			w = bigWitness
			got, want = short(got), short(want)
		}
		fail(site, class, fmt.Sprintf("%s %s %s", fn, args, w), fmt.Sprintf("%s: got %s want %s", what, got, want))
	}
}

// genBig builds units of prescribed sizes (far beyond what fits a hex witness) from a short description
// "<sa|st>:<seed>:<hevc 0|1>:<size>/<4|3>,<size>/<4|3>,...": header byte from the type tables, then non-zero
// bytes with isolated single zeros (emulation-free, last byte non-zero).
func genBig(desc string) (form string, hm bool, us []unit) {
	f := strings.Split(desc, ":")
	form = f[0]
	seed, _ := strconv.ParseUint(f[1], 10, 64)
	hm = f[2] == "1"
	r := hx.NewRng(seed ^ 0xB16)
	for _, e := range strings.Split(f[3], ",") {
		sf := strings.Split(e, "/")
		n, _ := strconv.Atoi(sf[0])
		b := make([]byte, n)
		for i := range b {
			b[i] = byte(r.Range(1, 255))
		}
		for k := 0; k < n/64; k++ {
			if p := 2 * r.Intn(n/2+1); p > 0 && p < n-1 {
				b[p] = 0 // even positions only: never two zeros in a row
			}
		}
		b[0] = hdrByte(r, hm)
		if n == 1 && b[0] == 0 {
			b[0] = 0x80
		}
		us = append(us, unit{sf[1] == "4", b})
	}
	return
}

func bigInput(desc string) []byte {
	form, _, us := genBig(desc)
	if form == "sa" {
		return buildSample(us)
	}
	return buildStream(us)
}

// checkUnits evaluates the property on one generating unit list: conversions, round trip, unit listing, type helpers.
func checkUnits(r *hx.Rng, hm bool, us []unit) {
	ns := unitsData(us)
	st, sa, st4 := buildStream(us), buildSample(us), buildStream4(us)
	check("avc.getStartCodePositions", "scan", "-", st, naiveScan(st), "start codes differ from byte-by-byte scan")
	check("avc.ConvertByteStreamToNaluSample", "b2s", "-", st, "ok:"+hx.Hex(sa), "stream -> sample is not the length-prefixed unit list")
	check("avc.ConvertSampleToByteStream", "s2b", "-", sa, "ok:"+hx.Hex(st4), "sample -> stream is not the units behind 4-byte start codes")
	// round trip through the real functions
	evals++
	var rt []byte
	if p := hx.Try(func() { rt = avc.ConvertSampleToByteStream(avc.ConvertByteStreamToNaluSample(hx.Exact(st))) }); p != "" || !bytes.Equal(rt, st4) {
		w := hx.Hex(st)
		if bigWitness != "" {
			w = bigWitness
		}
		fail("avc.ConvertSampleToByteStream", "roundtrip", "rt - "+w, "stream -> sample -> stream differs from the units behind 4-byte start codes")
	}
	check("avc.GetNalusFromSample", "gnfs", "-", sa, "ok:"+fmtList(ns), "units of the sample")
	check("avc.ExtractNalusFromByteStream", "enb", "-", st, "ok:"+fmtList(ns), "units of the stream")
	searchHelpers(r, hm, ns, st, sa)
}

// hygABA (search only) - hidden state between calls.  cur is the call just made (stream 2); stream 1 is (a) the call made
// right before it (usually another function on other bytes) and (b) the previous call of the SAME function.  For both:
// (1) what the library returned for stream 1 - start-code positions, NAL unit lists, type lists, converted bytes - still
// reads the same after the call on stream 2 (no scratch storage shared between calls: result-changed-by-later-calls);
// (2) stream 1 asked AGAIN answers as the first time (no cursor, cache or table left behind by stream 2:
// depends-on-earlier-calls); (3) after that, what was returned for stream 2 still reads the same.
type keptCall struct {
	site, fn, args string
	in             []byte
	res            string
	render         func() string
}

var prevCall *keptCall
var prevByFn = map[string]*keptCall{}
var hygSeen = map[string]int{}

func (p *keptCall) report(class, desc string, between *keptCall) {
	hygSeen[p.site+"/"+class]++
	if hygSeen[p.site+"/"+class] <= 3 {
		fail(p.site, class, fmt.Sprintf("%s %s %s", p.fn, p.args, hx.Hex(p.in)),
			desc+fmt.Sprintf(" (the call in between: %s %s %s)", between.fn, between.args, short(hx.Hex(between.in))))
	}
}

func (p *keptCall) stillReads(between *keptCall) {
	if p.render == nil {
		return
	}
	var s string
	if pn := hx.Try(func() { s = p.render() }); pn != "" || s != p.res {
		p.report("result-changed-by-later-calls", "the value returned for this input reads "+short(s)+" after a later call, "+short(p.res)+" before", between)
	}
}

func hygABA(site, fn, args string, in []byte, res string) {
	if k := strings.Index(res, "|"); k >= 0 {
		res = res[:k] // the capacity oracle of call() has reported already
	}
	cur := &keptCall{site, fn, args, in, res, lastRender}
	for _, p := range []*keptCall{prevCall, prevByFn[fn]} {
		if p == nil {
			continue
		}
		evals++
		p.stillReads(cur)
		if again := callOn(p.fn, p.args, hx.Exact(p.in)); again != p.res {
			p.report("depends-on-earlier-calls", "asked again after another call: "+short(again)+", the first time "+short(p.res), cur)
		}
		cur.stillReads(p)
	}
	prevCall, prevByFn[fn] = cur, cur
	if len(in) > 1<<16 || strings.HasPrefix(res, "panic") {
		prevCall = nil // the 64 KiB / 16 MiB units are not kept and not asked twice
		delete(prevByFn, fn)
	}
}

// bigMax bounds the unit sizes of the "any sizes" family of the search (the second, 32-bit run of the quick tier
// stops at 128 KiB; the thorough tier runs everything on both platforms).
var bigMax = 1 << 30

func search(seed uint64, n, plen int, bgs []int) {
	// hasZeroByte = some byte is zero
	forEachWord(seed+1, n, func(w uint64) {
		var b [8]byte
		binary.LittleEndian.PutUint64(b[:], w)
		check("avc.hasZeroByte", "hzb", "-", b[:wordBytes], "ok:"+fmtBool(bytes.IndexByte(b[:wordBytes], 0) >= 0), "zero-byte test")
	})
	// scanner = naive scan on arbitrary bytes
	forEachScanInput(seed+1, n, plen, bgs, func(b []byte) {
		check("avc.getStartCodePositions", "scan", "-", b, naiveScan(b), "start codes differ from byte-by-byte scan")
	})
	r := hx.NewRng(seed ^ 0xABCD)
	for i := 0; i < n; i++ {
		hm := r.Bool()
		checkUnits(r, hm, genUnits(r, hm, 7))
	}
	// units of "any sizes": length fields with a non-zero second / first byte (64 KiB, 16 MiB), in-place and copying branch
	k := int(seed%37) + r.Intn(5)
	for _, d := range []string{
		fmt.Sprintf("%d/4", 65536+k),
		fmt.Sprintf("3/4,%d/4,2/4", 65535+k),
		fmt.Sprintf("%d/3,5/4", 70000+k),
		fmt.Sprintf("%d/4,255/3,256/3", 300+k),
		fmt.Sprintf("%d/4,4/4", 1<<24+k),
		fmt.Sprintf("2/3,%d/3,1/4", 1<<24+k),
	} {
		mx := 0
		for _, e := range strings.Split(d, ",") {
			if sz, _ := strconv.Atoi(strings.SplitN(e, "/", 2)[0]); sz > mx {
				mx = sz
			}
		}
		if mx > bigMax {
			continue
		}
		for _, h := range []string{"0", "1"} {
			desc := fmt.Sprintf("%d:%s:%s", seed, h, d)
			_, hm, us := genBig("st:" + desc)
			bigWitness = "gen:" + desc
			checkUnits(r, hm, us)
			bigWitness = ""
		}
	}
	fmt.Fprintf(out, "EVALS\t%d\n", evals)
	out.Flush()
}

func main() {
	if len(os.Args) < 2 {
		fmt.Fprintln(os.Stderr, "usage: c14 corr|search|call [flags]")
		os.Exit(2)
	}
	if os.Args[1] == "call" {
		var in []byte
		if g := os.Args[4]; strings.HasPrefix(g, "gen:") {
			form := "st:"
			switch fn := os.Args[2]; {
			case fn == "s2b", fn == "gnfs", strings.HasPrefix(fn, "avc_") && !strings.HasSuffix(fn, "b") && fn != "avc_enot" && fn != "avc_gfv",
				strings.HasPrefix(fn, "hevc_") && !strings.HasSuffix(fn, "b") && fn != "hevc_enot":
				form = "sa:"
			}
			in = bigInput(form + g[4:])
		} else {
			in = hx.UnHex(g)
		}
		fmt.Println(short(call(os.Args[2], os.Args[3], in)))
		return
	}
	fs := flag.NewFlagSet(os.Args[1], flag.ExitOnError)
	seed := fs.Uint64("seed", 0, "")
	n := fs.Int("n", 1000, "")
	plen := fs.Int("plen", 5, "")
	bgs := fs.String("bgs", "16,17,24,31,33", "")
	fs.IntVar(&bigMax, "bigmax", bigMax, "search: largest unit size of the 'any sizes' family (default: 16 MiB units included)")
	_ = fs.Parse(os.Args[2:])
	switch os.Args[1] {
	case "corr":
		corr(*seed, *n, *plen, parseInts(*bgs))
	case "search":
		search(*seed, *n, *plen, parseInts(*bgs))
		out.Flush()
	default:
		os.Exit(2)
	}
}
