package main

import (
	"fmt"

	"verifharness/hx"
)

// Oracles for the helpers, written directly over the generating unit list.

// typeOf reads the type from the unit the way the standards define it: AVC nal_unit_type = low 5 bits of the
// one-byte header; HEVC nal_unit_type = bits 14..9 of the two-byte header (a one-byte HEVC unit, which the
// generator also produces, has only the first header byte).
func typeOf(hevcMode bool, u []byte) int {
	if hevcMode {
		if len(u) >= 2 {
			return (int(u[0])<<8 | int(u[1])) >> 9 & 0x3f
		}
		return int(u[0]>>1) & 0x3f
	}
	return int(u[0]) & 0x1f
}

func isVideo(hevcMode bool, t int) bool {
	if hevcMode {
		return t <= 31
	}
	return t <= 5
}

func searchHelpers(r *hx.Rng, hm bool, ns [][]byte, st, sa []byte) {
	types := make([]int, len(ns))
	firstVideo := -1
	for i, u := range ns {
		types[i] = typeOf(hm, u)
		if firstVideo < 0 && isVideo(hm, types[i]) {
			firstVideo = i
		}
	}
	upTo := types
	before := ns
	if firstVideo >= 0 {
		upTo = types[:firstVideo+1]
		before = ns[:firstVideo]
	}
	has := func(l []int, t int) bool {
		for _, x := range l {
			if x == t {
				return true
			}
		}
		return false
	}
	ofType := func(l [][]byte, t int) [][]byte {
		var o [][]byte
		for _, u := range l {
			if typeOf(hm, u) == t {
				o = append(o, u)
			}
		}
		return o
	}
	pre := "avc."
	var want int
	if hm {
		pre = "hevc."
		want = hevcTypes[r.Intn(len(hevcTypes))]
	} else {
		want = avcTypes[r.Intn(len(avcTypes))]
	}
	if r.Intn(3) == 0 {
		want = types[r.Intn(len(types))]
	}
	stop := r.Intn(2)
	var enotWant [][]byte
	if stop == 1 {
		enotWant = ofType(before, want)
	} else {
		enotWant = ofType(ns, want)
	}
	if hm {
		check(pre+"FindNaluTypes", "hevc_fnt", "-", sa, "ok:"+hx.Csv(types), "types of the units")
		check(pre+"FindNaluTypesUpToFirstVideoNalu", "hevc_fntv", "-", sa, "ok:"+hx.Csv(upTo), "types up to the first video unit")
		check(pre+"ContainsNaluType", "hevc_cnt", fmt.Sprint(want), sa, "ok:"+fmtBool(has(types, want)), "type present")
		rap, idr := false, false
		for _, t := range types {
			rap = rap || (16 <= t && t <= 23)
			idr = idr || (19 <= t && t <= 20)
		}
		check(pre+"IsRAPSample", "hevc_rap", "-", sa, "ok:"+fmtBool(rap), "some unit has type 16..23")
		check(pre+"IsIDRSample", "hevc_idr", "-", sa, "ok:"+fmtBool(idr), "some unit has type 19..20")
		check(pre+"HasParameterSets", "hevc_hps", "-", sa, "ok:"+fmtBool(has(upTo, 32) && has(upTo, 33) && has(upTo, 34)), "VPS, SPS and PPS before video")
		ps := "ok:" + fmtList(ofType(before, 32)) + ";" + fmtList(ofType(before, 33)) + ";" + fmtList(ofType(before, 34))
		check(pre+"GetParameterSets", "hevc_gps", "-", sa, ps, "parameter sets before the first video unit")
		check(pre+"GetParameterSetsFromByteStream", "hevc_gpsb", "-", st, ps, "parameter sets before the first video unit")
		check(pre+"ExtractNalusOfTypeFromByteStream", "hevc_enot", fmt.Sprintf("%d,%d", want, stop), st, "ok:"+fmtList(enotWant), "units of the wanted type")
		return
	}
	check(pre+"FindNaluTypes", "avc_fnt", "-", sa, "ok:"+hx.Csv(types), "types of the units")
	check(pre+"FindNaluTypesUpToFirstVideoNALU", "avc_fntv", "-", sa, "ok:"+hx.Csv(upTo), "types up to the first video unit")
	check(pre+"ContainsNaluType", "avc_cnt", fmt.Sprint(want), sa, "ok:"+fmtBool(has(types, want)), "type present")
	check(pre+"IsIDRSample", "avc_idr", "-", sa, "ok:"+fmtBool(has(types, 5)), "some unit has type 5")
	check(pre+"HasParameterSets", "avc_hps", "-", sa, "ok:"+fmtBool(has(upTo, 7) && has(upTo, 8)), "SPS and PPS before video")
	ps := "ok:[];" + fmtList(ofType(before, 7)) + ";" + fmtList(ofType(before, 8))
	check(pre+"GetParameterSets", "avc_gps", "-", sa, ps, "parameter sets before the first video unit")
	check(pre+"GetParameterSetsFromByteStream", "avc_gpsb", "-", st, ps, "parameter sets before the first video unit")
	check(pre+"ExtractNalusOfTypeFromByteStream", "avc_enot", fmt.Sprintf("%d,%d", want, stop), st, "ok:"+fmtList(enotWant), "units of the wanted type")
	var fv []byte
	if firstVideo >= 0 {
		fv = ns[firstVideo]
	}
	check(pre+"GetFirstAVCVideoNALUFromByteStream", "avc_gfv", "-", st, "ok:"+hx.Hex(fv), "first video unit")
}
