// C12 harness: cross-cutting hygiene oracles (see reports/hygiene-B.md).
//
//  3. HIDDEN STATE BETWEEN CALLS. checkRedecode: the file is decoded again after (a) a truncated copy of it has been refused
//     or cut short by the decoder and (b) the PREVIOUS layout of the run has been decoded: the third decoding must show the same
//     segment partition (checkPartition) and re-encode to the same bytes as the first. UpdateSidx called twice before encoding
//     (the second call finds the index the first one wrote: "existing sidx" of the quantifier) must still give a tiling index
//     (checkSidx with twice = true).
//  4. ENCODE-TIME MUTATION. A second Encode of the same File gives the same bytes, before and after UpdateSidx
//     (sizes used for the index are computed before encoding and must equal what is later written - every time).
// Aliasing / capacity classes: DecodeFile reads through an io.Reader and owns everything it builds; nothing caller-owned
// is retained by contract (the SliceReader path is C20's subject).
package main

import (
	"bytes"
	"fmt"

	"github.com/Eyevinn/mp4ff/mp4"

	"verifharness/hx"
)

// prevLayout: the layout (and its flags) searched before the current one.
var prevLayout *layout
var prevData, prevEnc []byte

// remember: snapshot of the layout (its decode flags are changed in place by flagCombos) + its bytes + its re-encoding
func remember(l *layout, data, enc []byte) {
	cp := *l
	prevLayout, prevData, prevEnc = &cp, data, enc
}

func encodeFile(f *mp4.File) ([]byte, string) {
	var buf bytes.Buffer
	var err error
	if p := hx.Try(func() { err = f.Encode(&buf) }); p != "" || err != nil {
		return nil, fmt.Sprintf("%v %s", err, p)
	}
	return buf.Bytes(), ""
}

// checkEncodeAgain: class 4. first = what the previous Encode of f wrote.
func checkEncodeAgain(l *layout, f *mp4.File, first []byte, when string) {
	again, e := encodeFile(f)
	if e != "" || !bytes.Equal(again, first) {
		fail("File.Encode", "second-encode-differs"+when, shortWitness(l), fmt.Sprintf("encoding the same File a second time gives other bytes (%d vs %d) %s", len(again), len(first), e))
	}
}

// checkRedecode: class 3. enc = re-encoding of the first decoding of data.
var redecodeNr int

func checkRedecode(l *layout, data, enc []byte) {
	again := func(after string) bool {
		evals++
		f3, class := decodeLayout(l, data)
		if class != "ok" {
			fail("DecodeFile", "redecode-differs", shortWitness(l), "the same bytes are not decoded any more after "+after+": "+class)
			return false
		}
		if !checkPartition(l, f3) {
			return false
		}
		enc3, e := encodeFile(f3)
		if e != "" || !bytes.Equal(enc3, enc) {
			fail("DecodeFile", "redecode-differs", shortWitness(l), "decoding the same bytes again after "+after+" and re-encoding gives other bytes than the first time "+e)
			return false
		}
		return true
	}
	// (a) a truncated copy, cut at a top-level box boundary (rotating over the boxes from layout to layout; every third time
	// in the middle of the next box instead): refused, or decoded up to the cut - either way nothing may stay behind
	redecodeNr++
	cut := len(data) * 2 / 3
	if sb, ok := scanTop(data); ok && len(sb) > 1 {
		b := sb[redecodeNr%(len(sb)-1)]
		cut = int(b.pos + b.size)
		if redecodeNr%3 == 0 && cut+12 < len(data) {
			cut += 12
		}
	}
	_ = hx.Try(func() { _, _ = decodeLayout(l, data[:cut:cut]) })
	// ... neither for ANOTHER file decoded next (the previous layout of the run, whose re-encoding is known) ...
	if prevLayout != nil {
		evals++
		fp, class := decodeLayout(prevLayout, prevData)
		if class != "ok" {
			fail("DecodeFile", "redecode-differs", shortWitness(prevLayout), "a file decoded before is refused after a truncated copy of another file was decoded: "+class)
			return
		}
		if !checkPartition(prevLayout, fp) {
			return
		}
		if encp, e := encodeFile(fp); e != "" || !bytes.Equal(encp, prevEnc) {
			fail("DecodeFile", "redecode-differs", shortWitness(prevLayout), "a file decoded again after a truncated copy of another file was decoded re-encodes to other bytes than the first time "+e)
			return
		}
	}
	// (b) ... nor for the same bytes decoded again after that
	again("a truncated copy of them and another file were decoded")
}
