package main

import "fmt"

func cmdSearch(seed uint64, n int)            { fmt.Fprintln(out, "EVALS\t0") }
func cmdEmit(seed uint64, n int, dir string) {}
func cmdVerify(dir string)                    { fmt.Fprintln(out, "EVALS\t0") }
