package main

// search: evaluates property C12 itself on the implementation, against the generator's intended
// segmentation, the delimiter rules of the property, and the harness's own box scanner.

import (
	"bytes"
	"encoding/binary"
	"fmt"
	"os"
	"path/filepath"
	"sort"
	"strings"

	"github.com/Eyevinn/mp4ff/mp4"
	"verifharness/hx"
)

var evals int

func fail(site, class, witness, desc string) {
	fmt.Fprintf(out, "FAIL\t%s\t%s\t%s\t%s\n", site, class, witness, desc)
}

// expected segmentation by the delimiter rules of the property (independent of the code):
// styp boxes delimit if present; otherwise a top-level sidx; otherwise the tfra (ISM flag and mfra present);
// otherwise every fragment (start-on-moof) or one single segment.
// Returns for every fragment (moof order) its expected segment number, and the rule applied.
func expectedSegments(l *layout) (segOfFrag []int, rule string) {
	hasStyp, hasSidx, hasMfra := false, false, false
	firstMedia := -1
	for i, e := range l.els {
		switch e.kind {
		case 's':
			hasStyp = true
		case 'x':
			if firstMedia < 0 && !hasStyp {
				hasSidx = true
			}
		case 'r':
			hasMfra = e.mfro && len(e.tfras) > 0
		case 'e', 'o':
			if firstMedia < 0 {
				firstMedia = i
			}
		}
	}
	var frags []*elem
	for _, e := range l.els {
		if e.kind == 'o' {
			frags = append(frags, e)
		}
	}
	segOfFrag = make([]int, len(frags))
	switch {
	case hasStyp || hasSidx || (hasMfra && l.ism):
		// the generator made these delimiters agree with the intended segmentation
		for i, e := range frags {
			segOfFrag[i] = e.seg
		}
		rule = "delimiter"
		if hasMfra && l.ism && !hasStyp && !hasSidx {
			rule = "tfra"
		}
	case l.som:
		for i := range frags {
			segOfFrag[i] = i
		}
		rule = "start-on-moof"
	default:
		rule = "single"
	}
	return segOfFrag, rule
}

type sidxParsed struct {
	pos, size uint64
	version   byte
	refID     uint32
	timescale uint32
	ept, fo   uint64
	refs      []ref
}

// own sidx parser (ISO/IEC 14496-12 8.16.3)
func parseSidx(b []byte, pos uint64) sidxParsed {
	p := sidxParsed{pos: pos, size: uint64(len(b))}
	p.version = b[8]
	p.refID = binary.BigEndian.Uint32(b[12:])
	p.timescale = binary.BigEndian.Uint32(b[16:])
	o := 20
	if p.version == 0 {
		p.ept = uint64(binary.BigEndian.Uint32(b[o:]))
		p.fo = uint64(binary.BigEndian.Uint32(b[o+4:]))
		o += 8
	} else {
		p.ept = binary.BigEndian.Uint64(b[o:])
		p.fo = binary.BigEndian.Uint64(b[o+8:])
		o += 16
	}
	n := int(binary.BigEndian.Uint16(b[o+2:]))
	o += 4
	for i := 0; i < n; i++ {
		w := binary.BigEndian.Uint32(b[o:])
		p.refs = append(p.refs, ref{typ: uint8(w >> 31), size: w & 0x7fffffff, dur: binary.BigEndian.Uint32(b[o+4:])})
		o += 12
	}
	return p
}

func (l *layout) witness() string {
	var sb strings.Builder
	for _, e := range l.els {
		sb.WriteByte(e.kind)
	}
	return fmt.Sprintf("%s ism=%v som=%v boxes=%s file=%s", l.desc, l.ism, l.som, sb.String(), hx.Hex(l.bytes()))
}

func shortWitness(l *layout) string {
	w := l.witness()
	if len(w) > 12000 {
		w = w[:12000] + "..."
	}
	return w
}

// checkPartition: the decoded file's segments/fragments vs the expectation. Returns false when the
// later checks make no sense.
func checkPartition(l *layout, f *mp4.File) bool {
	okAll := true
	idx := make(map[mp4.Box]int)
	for i, c := range f.Children {
		idx[c] = i
	}
	if len(f.Children) != len(l.els) {
		fail("DecodeFile", "children-count", shortWitness(l), fmt.Sprintf("%d top-level boxes decoded, %d in the file", len(f.Children), len(l.els)))
		return false
	}
	segOfFrag, rule := expectedSegments(l)
	// every moof/mdat in exactly one fragment of one segment, in order
	var seen []int
	fragNo := 0
	for si, s := range f.Segments {
		for _, fr := range s.Fragments {
			nmoof, nmdat := 0, 0
			for k, c := range fr.Children {
				t := idx[c]
				switch l.els[t].kind {
				case 'o':
					nmoof++
					seen = append(seen, t)
					if k+1 >= len(fr.Children) || l.els[idx[fr.Children[k+1]]].kind != 'd' {
						fail("File.AddChild", "moof-without-mdat", shortWitness(l), "a fragment's moof is not directly followed by its mdat")
						okAll = false
					}
				case 'd':
					nmdat++
					seen = append(seen, t)
				}
			}
			if nmoof != 1 || nmdat != 1 {
				if nmoof == 0 && nmdat == 0 {
					fail("File.startSegmentIfNeeded", "fragment-without-moof/"+rule, shortWitness(l),
						fmt.Sprintf("segment %d holds a fragment with no moof/mdat (emsg only)", si))
				} else {
					fail("File.AddChild", "fragment-shape", shortWitness(l), fmt.Sprintf("fragment with %d moof and %d mdat", nmoof, nmdat))
				}
				okAll = false
				continue
			}
			if l.delim != "replay" && fragNo < len(segOfFrag) && segOfFrag[fragNo] != si {
				fail("File.startSegmentIfNeeded", "segment-of-fragment/"+rule+flagsSuffix(l), shortWitness(l),
					fmt.Sprintf("fragment %d is in segment %d, the delimiters (%s) put it in segment %d", fragNo, si, rule, segOfFrag[fragNo]))
				okAll = false
			}
			fragNo++
		}
		if len(s.Fragments) == 0 {
			fail("File.startSegmentIfNeeded", "empty-segment/"+rule+flagsSuffix(l), shortWitness(l), fmt.Sprintf("segment %d has no fragment", si))
			okAll = false
		}
	}
	var want []int
	for i, e := range l.els {
		if e.kind == 'o' || e.kind == 'd' {
			want = append(want, i)
		}
	}
	if fmt.Sprint(seen) != fmt.Sprint(want) {
		fail("File.AddChild", "partition", shortWitness(l), fmt.Sprintf("moof/mdat boxes in fragments %v, in the file %v", seen, want))
		okAll = false
	}
	// StartPos of segments and fragments vs own scanner
	for si, s := range f.Segments {
		var first mp4.Box
		switch {
		case s.Styp != nil:
			first = s.Styp
		case len(s.Fragments) > 0 && len(s.Fragments[0].Children) > 0:
			first = s.Fragments[0].Children[0]
		}
		if first != nil && l.els[idx[first]].pos != s.StartPos {
			fail("File.AddChild", "segment-startpos", shortWitness(l), fmt.Sprintf("segment %d StartPos %d, its first box is at %d", si, s.StartPos, l.els[idx[first]].pos))
			okAll = false
		}
		for fi, fr := range s.Fragments {
			if len(fr.Children) > 0 && l.els[idx[fr.Children[0]]].pos != fr.StartPos {
				fail("File.AddChild", "fragment-startpos", shortWitness(l), fmt.Sprintf("segment %d fragment %d StartPos %d, first box at %d", si, fi, fr.StartPos, l.els[idx[fr.Children[0]]].pos))
				okAll = false
			}
			if fr.Moof != nil && fr.Moof.StartPos != l.els[idx[fr.Moof]].pos {
				fail("File.AddChild", "moof-startpos", shortWitness(l), "moof.StartPos differs from the scanned position")
				okAll = false
			}
		}
	}
	if okAll && !l.big {
		okAll = checkBytesAtPositions(l, f)
	}
	return okAll
}

// checkBytesAtPositions (C12_partition_bytes on the real code): the recorded positions are byte offsets into the
// input: the box header found at MediaSegment.StartPos is that of the segment's first box; the children of a
// fragment lie back to back from Fragment.StartPos on (when nothing else sits between them in the file), each
// with its own type and Size() in the header found there; Moof.StartPos is the moof's offset, the mdat payload
// starts at PayloadAbsoluteOffset and holds exactly the bytes found there.
func checkBytesAtPositions(l *layout, f *mp4.File) bool {
	data := l.bytes()
	w := shortWitness(l)
	hdrAt := func(pos uint64) (string, uint64, bool) {
		if pos+8 > uint64(len(data)) {
			return "", 0, false
		}
		sz := uint64(binary.BigEndian.Uint32(data[pos:]))
		if sz == 1 {
			if pos+16 > uint64(len(data)) {
				return "", 0, false
			}
			sz = binary.BigEndian.Uint64(data[pos+8:])
		}
		return string(data[pos+4 : pos+8]), sz, true
	}
	same := func(b mp4.Box, pos uint64) bool {
		typ, sz, ok := hdrAt(pos)
		return ok && typ == b.Type() && sz == b.Size()
	}
	idx := make(map[mp4.Box]int)
	for i, c := range f.Children {
		idx[c] = i
	}
	for si, s := range f.Segments {
		var first mp4.Box
		switch {
		case s.Styp != nil:
			first = s.Styp
		case len(s.Fragments) > 0 && len(s.Fragments[0].Children) > 0:
			first = s.Fragments[0].Children[0]
		}
		if first != nil && !same(first, s.StartPos) {
			fail("File.AddChild", "segment-startpos-bytes", w, fmt.Sprintf("the box at byte offset StartPos=%d of segment %d is not its first box (%s, %d bytes)", s.StartPos, si, first.Type(), first.Size()))
			return false
		}
		for fi, fr := range s.Fragments {
			off := fr.StartPos
			for k, c := range fr.Children {
				if k > 0 && idx[c] != idx[fr.Children[k-1]]+1 {
					break // something else lies between the children in the file: not contiguous
				}
				if !same(c, off) {
					fail("File.AddChild", "fragment-child-bytes", w, fmt.Sprintf("segment %d fragment %d child %d (%s, %d bytes) is not the box at byte offset %d", si, fi, k, c.Type(), c.Size(), off))
					return false
				}
				if m, isMoof := c.(*mp4.MoofBox); isMoof && m.StartPos != off {
					fail("File.AddChild", "moof-startpos-bytes", w, fmt.Sprintf("moof.StartPos %d, the moof lies at byte offset %d", m.StartPos, off))
					return false
				}
				if d, isMdat := c.(*mp4.MdatBox); isMdat {
					po := d.PayloadAbsoluteOffset()
					if po != off+d.HeaderSize() || po+uint64(len(d.Data)) > uint64(len(data)) || !bytes.Equal(d.Data, data[po:po+uint64(len(d.Data))]) ||
						uint64(len(d.Data))+d.HeaderSize() != d.Size() {
						fail("File.AddChild", "mdat-payload-bytes", w, fmt.Sprintf("mdat of segment %d fragment %d: payload offset %d (box at %d, header %d), %d payload bytes do not match the input", si, fi, po, off, d.HeaderSize(), len(d.Data)))
						return false
					}
				}
				off += c.Size()
			}
		}
	}
	return true
}

func flagsSuffix(l *layout) string {
	if l.som {
		return "+som"
	}
	return ""
}

// canonical layout: ftyp moov sidx* (styp? sidx* (emsg* moof mdat)+)* mfra?  — what segment-mode encoding can reproduce
func canonical(l *layout) bool {
	st := 0
	for i, e := range l.els {
		switch st {
		case 0:
			if e.kind != 'f' {
				return false
			}
			st = 1
		case 1:
			if e.kind != 'v' || !e.stts {
				return false
			}
			st = 2
		case 2, 3:
			switch e.kind {
			case 'x':
				if st == 3 && !(l.els[i-1].kind == 's' || (l.els[i-1].kind == 'x' && l.els[i-1].seg >= 0)) {
					return false
				}
			case 's', 'e', 'o':
				st = 3
			case 'd':
				if l.els[i-1].kind != 'o' {
					return false
				}
			case 'r':
				st = 4
			default:
				return false
			}
		case 4:
			return false
		}
	}
	return st >= 3
}

func decodeLayout(l *layout, data []byte) (f *mp4.File, class string) {
	var err error
	flags := mp4.DecNoFlags
	if l.ism {
		flags |= mp4.DecISMFlag
	}
	if l.som {
		flags |= mp4.DecStartOnMoof
	}
	p := hx.Try(func() { f, err = mp4.DecodeFile(bytes.NewReader(data), mp4.WithDecodeFlags(flags)) })
	if p != "" {
		return nil, "panic"
	}
	if err != nil {
		return nil, "err"
	}
	return f, "ok"
}

// refTrack: the track UpdateSidx should index (first video, else first audio, else first)
func refTrack(l *layout) uint32 { return l.refTrack }

// checkSidx: after UpdateSidx(add, nz) + Encode, the first sidx must tile the media.
func checkSidx(l *layout, f *mp4.File, nz bool) { checkSidxN(l, f, nz, false) }

// checkSidxN: twice = UpdateSidx is called a second time before encoding (hygiene.go class 3)
func checkSidxN(l *layout, f *mp4.File, nz bool, twice bool) {
	var err error
	idx := make(map[mp4.Box]int) // before UpdateSidx inserts a box into f.Children
	for i, c := range f.Children {
		idx[c] = i
	}
	p := hx.Try(func() {
		err = f.UpdateSidx(true, nz)
		if err == nil && twice {
			err = f.UpdateSidx(true, nz)
		}
	})
	if p != "" {
		fail("File.UpdateSidx", "panic", shortWitness(l), "UpdateSidx panics: "+p)
		return
	}
	if err != nil {
		fail("File.UpdateSidx", "error", shortWitness(l), "UpdateSidx on a well-formed fragmented file: "+err.Error())
		return
	}
	var buf bytes.Buffer
	p = hx.Try(func() { err = f.Encode(&buf) })
	if p != "" || err != nil {
		fail("File.Encode", "after-UpdateSidx", shortWitness(l), fmt.Sprintf("Encode after UpdateSidx fails: %v %s", err, p))
		return
	}
	enc := buf.Bytes()
	checkEncodeAgain(l, f, enc, "/after-UpdateSidx")
	sb, ok := scanTop(enc)
	if !ok {
		fail("File.Encode", "unscannable-after-UpdateSidx", shortWitness(l), "output is not a sequence of boxes")
		return
	}
	// locate: top-level sidx boxes before the first media box, starts of the segments, end of media
	var sidxs []sidxParsed
	firstMedia := -1
	endMedia := uint64(0)
	for i, b := range sb {
		switch b.typ {
		case "sidx":
			if firstMedia < 0 {
				sidxs = append(sidxs, parseSidx(enc[b.pos:b.pos+b.size], b.pos))
			}
		case "styp", "emsg", "moof":
			if firstMedia < 0 {
				firstMedia = i
			}
		case "mdat":
			endMedia = b.pos + b.size
		}
	}
	if len(sidxs) == 0 {
		fail("File.UpdateSidx", "no-sidx", shortWitness(l), "no top-level sidx before the media in the output")
		return
	}
	// segment starts in the output: position of the first box of each decoded segment, found by its bytes
	find := func(data []byte) (uint64, bool) {
		for _, b := range sb {
			if bytes.Equal(enc[b.pos:b.pos+b.size], data) {
				return b.pos, true
			}
		}
		return 0, false
	}
	var starts []uint64
	var durs []uint64
	// earliest presentation time: that of the first sample of the reference track in the first segment, whichever
	// fragment / traf / trun holds it; a track that has trafs but no sample there: its first base time; else 0
	var firstPT int64
	havePT, haveBase := false, false
	for si, s := range f.Segments {
		var first mp4.Box
		switch {
		case s.Styp != nil:
			first = s.Styp
		case len(s.Sidxs) > 0:
			first = s.Sidxs[0]
		case len(s.Fragments) > 0 && len(s.Fragments[0].Children) > 0:
			first = s.Fragments[0].Children[0]
		}
		t, okk := idx[first]
		if !okk {
			return
		}
		// input bytes of that box (moof bytes are reproduced unchanged for the harness's fragments)
		pos, found := find(l.origData(t))
		if !found {
			fail("File.Encode", "segment-first-box-missing", shortWitness(l), fmt.Sprintf("first box of segment %d not found byte-identically in the output", si))
			return
		}
		starts = append(starts, pos)
		// ground-truth duration of the reference track in this segment
		d := uint64(0)
		for _, fr := range s.Fragments {
			if fr.Moof == nil {
				continue
			}
			e := l.els[idx[fr.Moof]]
			for _, tr := range e.trafs {
				if tr.track == refTrack(l) {
					if si == 0 && !havePT {
						ns := 0
						for _, trun := range tr.truns {
							ns += len(trun)
						}
						if ns > 0 {
							firstPT, havePT = int64(tr.base)+int64(tr.cto0), true
						} else if !haveBase {
							firstPT, haveBase = int64(tr.base), true
						}
					}
					for _, trun := range tr.truns {
						for _, x := range trun {
							d += uint64(x)
						}
					}
				}
			}
		}
		durs = append(durs, d)
	}
	sx := sidxs[0]
	w := shortWitness(l)
	multi := ""
	if len(sidxs) > 1 {
		multi = "/multi-sidx"
	}
	if len(sx.refs) != len(starts) {
		fail("File.UpdateSidx", "reference-count"+multi, w, fmt.Sprintf("%d references for %d segments", len(sx.refs), len(starts)))
		return
	}
	anchor := sx.pos + sx.size + sx.fo
	cur := anchor
	for i, r := range sx.refs {
		if cur != starts[i] {
			cls := "reference-start" + multi
			if len(sidxs) == 1 && hasSegmentSidxs(f) {
				cls = "reference-start/segment-sidxs"
			}
			fail("File.UpdateSidx", cls, w, fmt.Sprintf("reference %d starts at %d (anchor %d), segment %d starts at %d", i, cur, anchor, i, starts[i]))
			return
		}
		if l.delim != "replay" && uint64(r.dur) != durs[i] {
			fail("File.findSegmentData", "duration", w, fmt.Sprintf("reference %d duration %d, reference track %d has %d in that segment", i, r.dur, refTrack(l), durs[i]))
			return
		}
		if r.typ != 0 {
			fail("File.fillSidx", "reference-type", w, "media reference with reference_type 1")
			return
		}
		cur += uint64(r.size)
	}
	if cur != endMedia {
		cls := "end-of-media" + multi
		if len(sidxs) == 1 && hasSegmentSidxs(f) {
			cls = "end-of-media/segment-sidxs"
		}
		fail("File.UpdateSidx", cls, w, fmt.Sprintf("references end at %d, media ends at %d", cur, endMedia))
		return
	}
	if l.delim == "replay" {
		fmt.Fprintf(out, "NOTE\tsidx after UpdateSidx(true,%v): anchor %d, %d references tile %d segments up to %d (durations/ept/reference_ID need the generator's ground truth: not re-checked)\n", nz, anchor, len(sx.refs), len(starts), endMedia)
		return
	}
	wantEPT := uint64(0)
	if nz {
		wantEPT = uint64(firstPT)
	}
	if sx.ept != wantEPT {
		fail("File.fillSidx", "earliest-presentation-time", w, fmt.Sprintf("ept %d, expected %d (nonZeroEPT=%v)", sx.ept, wantEPT, nz))
	}
	if sx.refID != refTrack(l) {
		fail("File.fillSidx", "reference-id", w, fmt.Sprintf("reference_ID %d, the reference track (timescale and durations taken from it) is track %d", sx.refID, refTrack(l)))
	}
	if sx.timescale != l.refTimescale {
		fail("File.fillSidx", "timescale", w, fmt.Sprintf("timescale %d, reference track has %d", sx.timescale, l.refTimescale))
	}
}

func hasSegmentSidxs(f *mp4.File) bool {
	for _, s := range f.Segments {
		if len(s.Sidxs) > 1 {
			return true
		}
	}
	return false
}

func (l *layout) origData(i int) []byte { return l.els[i].data }

func searchOne(l *layout) {
	data := l.bytes()
	evals++
	f, class := decodeLayout(l, data)
	if class != "ok" {
		fail("DecodeFile", "rejects-wellformed/"+class, shortWitness(l), "a well-formed synthesized fragmented file is not decoded: "+class)
		return
	}
	if !checkPartition(l, f) {
		return
	}
	// segment mode re-encoding: byte-identical for canonical layouts
	var buf bytes.Buffer
	var err error
	p := hx.Try(func() { err = f.Encode(&buf) })
	evals++
	if p != "" || err != nil {
		fail("File.Encode", "segment-mode-fails", shortWitness(l), fmt.Sprintf("re-encoding fails: %v %s", err, p))
		return
	}
	if canonical(l) && !bytes.Equal(buf.Bytes(), data) {
		fail("File.Encode", "segment-mode-bytes", shortWitness(l), fmt.Sprintf("re-encoded %d bytes differ from the %d input bytes", buf.Len(), len(data)))
		return
	}
	// every fragment byte-identical and in order, in any case
	if !fragmentsInOrder(l, buf.Bytes()) {
		fail("File.Encode", "fragments-order", shortWitness(l), "the moof/mdat boxes of the output are not the input's, byte-identical and in order")
		return
	}
	checkEncodeAgain(l, f, buf.Bytes(), "")
	checkRedecode(l, data, buf.Bytes())
	for _, nz := range []bool{false, true} {
		f2, _ := decodeLayout(l, data)
		evals++
		checkSidx(l, f2, nz)
	}
	if evals%3 == 0 {
		f4, _ := decodeLayout(l, data)
		evals++
		checkSidxN(l, f4, evals%2 == 0, true)
	}
	remember(l, data, buf.Bytes())
}

func fragmentsInOrder(l *layout, enc []byte) bool {
	sb, ok := scanTop(enc)
	if !ok {
		return false
	}
	var got [][]byte
	for _, b := range sb {
		if b.typ == "moof" || b.typ == "mdat" {
			got = append(got, enc[b.pos:b.pos+b.size])
		}
	}
	var want [][]byte
	for _, e := range l.els {
		if e.kind == 'o' || e.kind == 'd' {
			want = append(want, e.data)
		}
	}
	if len(got) != len(want) {
		return false
	}
	for i := range got {
		if !bytes.Equal(got[i], want[i]) {
			return false
		}
	}
	return true
}

var searchDelims = []string{"none", "styp", "stypsidx", "styptfra", "sidx", "sidx2", "sidxh", "tfra", "tfraf", "som"}

func cmdSearch(seed uint64, n int) {
	g := &gen{r: hx.NewRng(seed ^ 0x5ea7c4)}
	// exhaustive small scopes: every delimiter kind x 1-3 segments x 1-2 fragments x emsg x all four flag combinations
	for _, d := range searchDelims {
		for nseg := 1; nseg <= 3; nseg++ {
			for nfrag := 1; nfrag <= 2; nfrag++ {
				for em := 0; em < 2; em++ {
					l := g.structured(nseg, nfrag, 1+g.r.Intn(3), d, em == 1, true, g.r.Bool())
					flagCombos(l, func(string) { searchOne(l) })
				}
			}
		}
	}
	for i := 0; i < n; i++ {
		d := searchDelims[g.r.Intn(len(searchDelims))]
		l := g.structured(1+g.r.Intn(5), 1+g.r.Intn(4), 1+g.r.Intn(3), d, g.r.Intn(3) == 0, g.r.Bool(), g.r.Bool())
		if g.r.Intn(3) == 0 {
			l.ism, l.som = g.r.Bool(), g.r.Bool()
		}
		searchOne(l)
	}
	searchMultiAll(g, n/2)
	fmt.Fprintf(out, "EVALS\t%d\n", evals)
}

// ---------------------------------------------------------------- the add-sidx binary

func cmdEmit(seed uint64, n int, dir string) {
	g := &gen{r: hx.NewRng(seed ^ 0xadd51d)}
	ds := []string{"none", "styp", "som", "stypsidx", "sidx"}
	for i := 0; i < n; i++ {
		d := ds[i%len(ds)]
		l := g.structured(1+g.r.Intn(5), 1+g.r.Intn(4), 1+g.r.Intn(3), d, g.r.Intn(4) == 0, g.r.Bool(), g.r.Bool())
		name := fmt.Sprintf("f%03d", i)
		if err := os.WriteFile(filepath.Join(dir, name+".in.mp4"), l.bytes(), 0o644); err != nil {
			panic(err)
		}
		var args []string
		if l.som {
			args = append(args, "-startSegOnMoof")
		}
		nz := g.r.Bool()
		if nz {
			args = append(args, "-nzEPT")
		}
		// ground truth for verify: reference track and per-fragment durations / first presentation time
		var sb strings.Builder
		fmt.Fprintf(&sb, "%s\t%d\t%d\t%d\t%d\t", d, b2i(l.som), b2i(nz), l.refTrack, l.refTimescale)
		first := true
		for _, e := range l.els {
			if e.kind != 'o' {
				continue
			}
			for _, tr := range e.trafs {
				if tr.track == l.refTrack {
					dsum := uint64(0)
					for _, trun := range tr.truns {
						for _, x := range trun {
							dsum += uint64(x)
						}
					}
					if !first {
						sb.WriteByte(',')
					}
					first = false
					fmt.Fprintf(&sb, "%d:%d:%d", e.seg, dsum, int64(tr.base)+int64(tr.cto0))
				}
			}
		}
		if err := os.WriteFile(filepath.Join(dir, name+".truth"), []byte(sb.String()), 0o644); err != nil {
			panic(err)
		}
		fmt.Fprintf(out, "JOB\t%s\t%s\n", name, strings.Join(args, " "))
	}
}

func cmdVerify(dir string) {
	names, _ := filepath.Glob(filepath.Join(dir, "*.truth"))
	sort.Strings(names)
	runs := 0
	for _, tn := range names {
		base := strings.TrimSuffix(tn, ".truth")
		truth, _ := os.ReadFile(tn)
		in, _ := os.ReadFile(base + ".in.mp4")
		outb, _ := os.ReadFile(base + ".out.mp4")
		rcb, _ := os.ReadFile(base + ".rc")
		runs++
		p := strings.Split(string(truth), "\t")
		w := fmt.Sprintf("add-sidx %s delim=%s som=%s nz=%s file=%s", filepath.Base(base), p[0], p[1], p[2], hx.Hex(in))
		if len(w) > 12000 {
			w = w[:12000] + "..."
		}
		if !strings.HasPrefix(string(rcb), "0\n") {
			fail("examples/add-sidx", "exit-status", w, "add-sidx fails on a well-formed file: "+strings.ReplaceAll(string(rcb), "\n", " "))
			continue
		}
		verifyAddSidx(w, p, in, outb)
	}
	fmt.Fprintf(out, "EVALS\t%d\n", runs)
}

func verifyAddSidx(w string, p []string, in, outb []byte) {
	sbIn, ok1 := scanTop(in)
	sbOut, ok2 := scanTop(outb)
	if !ok1 || !ok2 {
		fail("examples/add-sidx", "unscannable", w, "output is not a sequence of boxes")
		return
	}
	// fragments byte-identical and in order
	var a, b [][]byte
	for _, x := range sbIn {
		if x.typ == "moof" || x.typ == "mdat" {
			a = append(a, in[x.pos:x.pos+x.size])
		}
	}
	for _, x := range sbOut {
		if x.typ == "moof" || x.typ == "mdat" {
			b = append(b, outb[x.pos:x.pos+x.size])
		}
	}
	same := len(a) == len(b)
	for i := 0; same && i < len(a); i++ {
		same = bytes.Equal(a[i], b[i])
	}
	if !same {
		fail("examples/add-sidx", "fragments-order", w, "moof/mdat boxes differ between input and output")
		return
	}
	// expected segments by the rule: styp groups, existing sidx groups (= intended), every moof with -startSegOnMoof, else one
	type fr struct {
		seg int
		dur uint64
		pt  int64
	}
	var frs []fr
	for _, s := range strings.Split(p[5], ",") {
		var f fr
		fmt.Sscanf(s, "%d:%d:%d", &f.seg, &f.dur, &f.pt)
		frs = append(frs, f)
	}
	delim, som, nz := p[0], p[1] == "1", p[2] == "1"
	segOf := make([]int, len(frs))
	for i := range frs {
		switch {
		case delim == "styp" || delim == "stypsidx" || delim == "sidx":
			segOf[i] = frs[i].seg
		case som:
			segOf[i] = i
		default:
			segOf[i] = 0
		}
	}
	nseg := segOf[len(segOf)-1] + 1
	durs := make([]uint64, nseg)
	for i, f := range frs {
		durs[segOf[i]] += f.dur
	}
	// positions in the output: segment start = first styp / (emsg|moof) of the first fragment of the segment
	var sidxs []sidxParsed
	firstMedia := false
	var starts []uint64
	endMedia := uint64(0)
	fragNo := -1
	pendingStart := int64(-1)
	for _, x := range sbOut {
		switch x.typ {
		case "sidx":
			if !firstMedia {
				sidxs = append(sidxs, parseSidx(outb[x.pos:x.pos+x.size], x.pos))
			}
		case "styp", "emsg":
			firstMedia = true
			if pendingStart < 0 {
				pendingStart = int64(x.pos)
			}
		case "moof":
			firstMedia = true
			fragNo++
			if pendingStart < 0 {
				pendingStart = int64(x.pos)
			}
			if fragNo == 0 || segOf[fragNo] != segOf[fragNo-1] {
				starts = append(starts, uint64(pendingStart))
			}
			pendingStart = -1
		case "mdat":
			endMedia = x.pos + x.size
		}
	}
	if len(sidxs) == 0 {
		fail("examples/add-sidx", "no-sidx", w, "no top-level sidx in the output")
		return
	}
	sx := sidxs[0]
	if len(sx.refs) != nseg {
		fail("examples/add-sidx", "reference-count", w, fmt.Sprintf("%d references, %d segments expected", len(sx.refs), nseg))
		return
	}
	cur := sx.pos + sx.size + sx.fo
	for i, r := range sx.refs {
		if cur != starts[i] {
			cls := "reference-start"
			if delim == "stypsidx" {
				cls = "reference-start/segment-sidxs"
			}
			fail("examples/add-sidx", cls, w, fmt.Sprintf("reference %d starts at %d, segment starts at %d", i, cur, starts[i]))
			return
		}
		if uint64(r.dur) != durs[i] {
			fail("examples/add-sidx", "duration", w, fmt.Sprintf("reference %d duration %d, expected %d", i, r.dur, durs[i]))
			return
		}
		cur += uint64(r.size)
	}
	if cur != endMedia {
		cls := "end-of-media"
		if delim == "stypsidx" {
			cls = "end-of-media/segment-sidxs"
		}
		fail("examples/add-sidx", cls, w, fmt.Sprintf("references end at %d, media ends at %d", cur, endMedia))
		return
	}
	want := uint64(0)
	if nz {
		want = uint64(frs[0].pt)
	}
	if sx.ept != want {
		fail("examples/add-sidx", "earliest-presentation-time", w, fmt.Sprintf("ept %d, expected %d", sx.ept, want))
	}
}

// replay: re-evaluates what can be checked from the bytes alone (no generator ground truth) on a witness file
func cmdReplay(hexFile string, ism, som bool) {
	data := hx.UnHex(hexFile)
	sb, ok := scanTop(data)
	if !ok {
		fmt.Fprintln(out, "NOTE\twitness is not a sequence of boxes")
		return
	}
	l := &layout{ism: ism, som: som, delim: "replay", desc: "replay"}
	for _, b := range sb {
		l.els = append(l.els, &elem{kind: kindOf(b.typ), data: data[b.pos : b.pos+b.size], pos: b.pos, hdr: b.hdr, seg: -1, frag: -1})
	}
	o := observe(l, data)
	fmt.Fprintf(out, "NOTE\tdecode=%s partition=%s encode=%s\n", o.class, o.part, o.enc)
	searchOne(l)
	fmt.Fprintf(out, "EVALS\t%d\n", evals)
}
