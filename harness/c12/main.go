// Harness for C12 (fragments grouped into segments; sidx tiling).
//
//	c12 corr   -seed S -n N -exh L : case lines (input boxes + implementation observables) for the model diff
//	c12 search -seed S -n N        : evaluates the property itself on the implementation
//	c12 emit   -seed S -n N -dir D : writes synthesized files for the add-sidx binary (see checks/c12.py)
//	c12 verify -dir D              : checks the outputs of the add-sidx binary
//
// Files are synthesized with mp4ff constructors, serialized box by box, and looked at again
// with the harness's own top-level box scanner (size/type headers only).
package main

import (
	"bufio"
	"bytes"
	"encoding/binary"
	"flag"
	"fmt"
	"os"
	"strconv"
	"strings"

	"github.com/Eyevinn/mp4ff/mp4"
	"verifharness/hx"
)

var out = bufio.NewWriterSize(os.Stdout, 1<<20)

// ---------------------------------------------------------------- layout description

type ref struct {
	typ  uint8
	size uint32
	dur  uint32
}

type tfraT struct {
	track uint32
	offs  []uint64
}

type trakT struct {
	id        uint32
	handler   int // 0 vide 1 soun 2 other
	timescale uint32
	trex      bool
}

type trafT struct {
	track uint32
	base  uint64
	truns [][]uint32 // sample durations per trun
	cto0  int32
}

// elem is one top-level box of a synthesized file.
type elem struct {
	kind    byte // f ftyp, s styp, v moov, x sidx, o moof, d mdat, e emsg, r mfra, z other
	data    []byte
	hdr     int
	fo      uint64 // sidx first_offset
	refs    []ref
	version byte // sidx version
	stts    bool // moov: stts empty
	tfras   []tfraT
	mfro    bool
	trafs   []trafT
	traks   []trakT
	seg     int // intended segment (styp/sidx-in-segment/emsg/moof/mdat), -1 otherwise
	frag    int // intended fragment within the file (emsg/moof/mdat), -1 otherwise
	pos     uint64
	vsize   uint64 // >0: a virtual mdat of that total size (data holds its 16-byte header only; read through a sparse reader)
}

// size of the box in the (possibly virtual) file
func (e *elem) size() uint64 {
	if e.vsize > 0 {
		return e.vsize
	}
	return uint64(len(e.data))
}

type layout struct {
	els          []*elem
	ism          bool
	som          bool
	tracks       int
	nsegInt      int    // intended number of segments
	delim        string // which delimiter the generator made consistent: styp sidx tfra som none mixed
	desc         string
	refTrack     uint32
	refTimescale uint32
	big          bool // has virtual mdat boxes: decoded lazily through a sparse reader, never encoded as a whole
	noTrex       bool // the reference track has no trex: UpdateSidx must return an error
}

func encodeBox(b mp4.Box) []byte {
	var buf bytes.Buffer
	if err := b.Encode(&buf); err != nil {
		panic("harness: cannot encode " + b.Type() + ": " + err.Error())
	}
	return buf.Bytes()
}

// own top-level scanner
type sbox struct {
	typ  string
	pos  uint64
	size uint64
	hdr  int
}

func scanTop(data []byte) ([]sbox, bool) {
	var res []sbox
	pos := uint64(0)
	n := uint64(len(data))
	for pos < n {
		if n-pos < 8 {
			return res, false
		}
		size := uint64(binary.BigEndian.Uint32(data[pos:]))
		typ := string(data[pos+4 : pos+8])
		hdr := 8
		if size == 1 {
			if n-pos < 16 {
				return res, false
			}
			size = binary.BigEndian.Uint64(data[pos+8:])
			hdr = 16
		} else if size == 0 {
			size = n - pos
		}
		if size < uint64(hdr) || pos+size > n {
			return res, false
		}
		res = append(res, sbox{typ, pos, size, hdr})
		pos += size
	}
	return res, true
}

func kindOf(typ string) byte {
	switch typ {
	case "ftyp":
		return 'f'
	case "styp":
		return 's'
	case "moov":
		return 'v'
	case "sidx":
		return 'x'
	case "moof":
		return 'o'
	case "mdat":
		return 'd'
	case "emsg":
		return 'e'
	case "mfra":
		return 'r'
	}
	return 'z'
}

// ---------------------------------------------------------------- box builders

var kindOrders = [][]string{{"video", "audio", "audio"}, {"audio", "video", "audio"}, {"audio", "audio", "audio"}}

// refTrackOf: the track UpdateSidx is documented to index: first video, else first audio
func refTrackOf(tracks, order int) (id uint32, timescale uint32) {
	for i := 0; i < tracks; i++ {
		if kindOrders[order][i] == "video" {
			return uint32(i + 1), uint32(1000 * (i + 1))
		}
	}
	return 1, 1000
}

func traksOf(tracks, order int) []trakT {
	var ts []trakT
	for i := 0; i < tracks; i++ {
		h := 1
		if kindOrders[order][i%3] == "video" {
			h = 0
		}
		ts = append(ts, trakT{id: uint32(i + 1), handler: h, timescale: uint32(1000 * (i + 1)), trex: true})
	}
	return ts
}

func mkInit(tracks int, progressive bool, uniq uint32) (ftyp, moov []byte) {
	return mkInitOrder(tracks, progressive, uniq, 0)
}

func mkInitOrder(tracks int, progressive bool, uniq uint32, order int) (ftyp, moov []byte) {
	init := mp4.CreateEmptyInit()
	kinds := kindOrders[order]
	for i := 0; i < tracks; i++ {
		init.AddEmptyTrack(uint32(1000*(i+1)), kinds[i%3], "und")
	}
	decoyTrex(init)
	init.Moov.Mvhd.CreationTime = uint64(uniq)
	if progressive {
		stts := init.Moov.Trak.Mdia.Minf.Stbl.Stts
		stts.SampleCount = []uint32{1}
		stts.SampleTimeDelta = []uint32{1}
	}
	init.Ftyp = mp4.NewFtyp("cmfc", uniq, []string{"dash", "iso6"})
	return encodeBox(init.Ftyp), encodeBox(init.Moov)
}

// decoyTrex: every fragment the harness writes signals duration, size and flags itself (trun or tfhd), so the trex
// defaults must never be used: they carry values that are wrong for every sample.
func decoyTrex(init *mp4.InitSegment) {
	if init.Moov.Mvex == nil {
		return
	}
	for _, tx := range init.Moov.Mvex.Trexs {
		tx.DefaultSampleDuration = 7777
		tx.DefaultSampleSize = 3
		tx.DefaultSampleFlags = 0x01010000
	}
}

func mkStyp(uniq uint32) []byte {
	return encodeBox(mp4.NewStyp("cmfs", uniq, []string{"dash", "msdh"}))
}

func mkEmsg(uniq uint32) []byte {
	return encodeBox(&mp4.EmsgBox{Version: 1, TimeScale: 1000, PresentationTime: uint64(uniq), EventDuration: 10,
		ID: uniq, SchemeIDURI: "urn:x", Value: "1", MessageData: []byte{1, 2, 3}})
}

func mkFree(uniq uint32) []byte {
	return encodeBox(mp4.NewFreeBox([]byte{byte(uniq >> 8), byte(uniq), 0xee}))
}

func mkSidx(e *elem, uniq uint32) []byte {
	sx := &mp4.SidxBox{Version: e.version, ReferenceID: 1, Timescale: 1000, EarliestPresentationTime: uint64(uniq),
		FirstOffset: e.fo}
	for _, r := range e.refs {
		sx.SidxRefs = append(sx.SidxRefs, mp4.SidxRef{ReferencedSize: r.size, SubSegmentDuration: r.dur,
			ReferenceType: r.typ, StartsWithSAP: 1, SAPType: 1})
	}
	return encodeBox(sx)
}

func mkMfra(e *elem, uniq uint32) []byte {
	mfra := &mp4.MfraBox{}
	for _, t := range e.tfras {
		tf := &mp4.TfraBox{Version: 1, TrackID: t.track, Flags: 0}
		for i, o := range t.offs {
			tf.Entries = append(tf.Entries, mp4.TfraEntry{Time: uint64(i) * 1000, MoofOffset: o, TrafNumber: 1, TrunNumber: 1, SampleNumber: 1})
		}
		_ = mfra.AddChild(tf)
	}
	if e.mfro {
		_ = mfra.AddChild(&mp4.MfroBox{})
		mfra.Mfro.ParentSize = uint32(mfra.Size())
	} else {
		// a free box of the size of an mfro keeps the two variants the same length
		_ = mfra.AddChild(mp4.NewFreeBox([]byte{0, 0, 0, 0, byte(uniq >> 8), byte(uniq), 0, 0}))
	}
	return encodeBox(mfra)
}

// fragment with `tracks` tracks; per track a list of sample durations; returns moof and mdat bytes
type fragSpec struct {
	seq      uint32
	durs     [][]uint32 // per track
	base     []uint64   // per track decode time
	cto0     int32      // composition time offset of the first sample of each track
	optimize bool       // move common sample durations/sizes to tfhd defaults (traf.OptimizeTfhdTrun) before encoding
	trunk    int        // >0: split the samples of track 1 into two truns after `trunk` samples (interleaved with track 2)
}

func mkFragment(fs fragSpec) (moof, mdat []byte, trafs []trafT) {
	ntr := len(fs.durs)
	var frag *mp4.Fragment
	if ntr == 1 {
		frag, _ = mp4.CreateFragment(fs.seq, 1)
	} else {
		ids := make([]uint32, ntr)
		for i := range ids {
			ids[i] = uint32(i + 1)
		}
		frag, _ = mp4.CreateMultiTrackFragment(fs.seq, ids)
	}
	trafs = make([]trafT, ntr)
	add := func(t int, from, to int) {
		dt := fs.base[t]
		for j := 0; j < from; j++ {
			dt += uint64(fs.durs[t][j])
		}
		var trun []uint32
		for j := from; j < to; j++ {
			cto := int32(0)
			if j == 0 {
				cto = fs.cto0
			}
			s := mp4.FullSample{Sample: mp4.Sample{Flags: 0x02000000, Dur: fs.durs[t][j], Size: 4, CompositionTimeOffset: cto},
				DecodeTime: dt, Data: []byte{byte(fs.seq >> 8), byte(fs.seq), byte(t), byte(j)}}
			if err := frag.AddFullSampleToTrack(s, uint32(t+1)); err != nil {
				panic(err)
			}
			dt += uint64(fs.durs[t][j])
			trun = append(trun, fs.durs[t][j])
		}
		if len(trun) > 0 {
			trafs[t].truns = append(trafs[t].truns, trun)
		}
	}
	for t := 0; t < ntr; t++ {
		trafs[t].track = uint32(t + 1)
		trafs[t].base = fs.base[t]
		trafs[t].cto0 = fs.cto0
	}
	if ntr >= 2 && fs.trunk > 0 && fs.trunk < len(fs.durs[0]) {
		add(0, 0, fs.trunk)
		add(1, 0, len(fs.durs[1]))
		add(0, fs.trunk, len(fs.durs[0]))
		for t := 2; t < ntr; t++ {
			add(t, 0, len(fs.durs[t]))
		}
	} else {
		for t := 0; t < ntr; t++ {
			add(t, 0, len(fs.durs[t]))
		}
	}
	if fs.optimize {
		for _, traf := range frag.Moof.Trafs {
			if len(traf.Truns) > 0 && len(traf.Trun.Samples) > 0 {
				_ = traf.OptimizeTfhdTrun()
			}
		}
	}
	var buf bytes.Buffer
	if err := frag.Encode(&buf); err != nil {
		panic("harness: fragment encode: " + err.Error())
	}
	sb, ok := scanTop(buf.Bytes())
	if !ok || len(sb) != 2 || sb[0].typ != "moof" || sb[1].typ != "mdat" {
		panic("harness: unexpected fragment serialization")
	}
	b := buf.Bytes()
	return b[:sb[0].size], b[sb[0].size:], trafs
}

// ---------------------------------------------------------------- layouts -> bytes

func (l *layout) bytes() []byte {
	var buf bytes.Buffer
	for _, e := range l.els {
		buf.Write(e.data)
	}
	return buf.Bytes()
}

// place computes positions from the harness's own scan of the serialized file.
func (l *layout) place() {
	if l.big {
		pos := uint64(0)
		for _, e := range l.els {
			e.pos = pos
			e.hdr = 8
			if len(e.data) >= 16 && binary.BigEndian.Uint32(e.data) == 1 {
				e.hdr = 16
			}
			pos += e.size()
		}
		return
	}
	data := l.bytes()
	sb, ok := scanTop(data)
	if !ok || len(sb) != len(l.els) {
		panic(fmt.Sprintf("harness: scan of synthesized file failed (%d boxes vs %d elements)", len(sb), len(l.els)))
	}
	for i, e := range l.els {
		if kindOf(sb[i].typ) != e.kind {
			panic("harness: scanned type differs from element kind")
		}
		e.pos = sb[i].pos
		e.hdr = sb[i].hdr
		if uint64(len(e.data)) != sb[i].size {
			panic("harness: scanned size differs")
		}
	}
}

func hexN(v uint64) string { return hx.HexU(v) }

func (e *elem) describe(cls int) string {
	var sb strings.Builder
	fmt.Fprintf(&sb, "%c,%s,%s,%s,%d,%d,%d,%d", e.kind, hexN(e.size()), hexN(uint64(e.hdr)), hexN(e.fo),
		b2i(e.stts), b2i(e.mfro), cls, e.version)
	sb.WriteByte('|')
	for i, r := range e.refs {
		if i > 0 {
			sb.WriteByte('+')
		}
		fmt.Fprintf(&sb, "%d:%s:%s", r.typ, hexN(uint64(r.size)), hexN(uint64(r.dur)))
	}
	sb.WriteByte('|')
	for i, t := range e.tfras {
		if i > 0 {
			sb.WriteByte('+')
		}
		fmt.Fprintf(&sb, "%s:", hexN(uint64(t.track)))
		for j, o := range t.offs {
			if j > 0 {
				sb.WriteByte('.')
			}
			sb.WriteString(hexN(o))
		}
	}
	sb.WriteByte('|')
	for i, t := range e.trafs {
		if i > 0 {
			sb.WriteByte('+')
		}
		fmt.Fprintf(&sb, "%s:%s:%s:", hexN(uint64(t.track)), hexN(t.base), hx.HexI(int64(t.cto0)))
		for j, tr := range t.truns {
			if j > 0 {
				sb.WriteByte('/')
			}
			for k, d := range tr {
				if k > 0 {
					sb.WriteByte('.')
				}
				sb.WriteString(hexN(uint64(d)))
			}
		}
	}
	sb.WriteByte('|')
	for i, t := range e.traks {
		if i > 0 {
			sb.WriteByte('+')
		}
		fmt.Fprintf(&sb, "%s:%d:%s:%d", hexN(uint64(t.id)), t.handler, hexN(uint64(t.timescale)), b2i(t.trex))
	}
	return sb.String()
}

func b2i(b bool) int {
	if b {
		return 1
	}
	return 0
}

func (l *layout) describe() string {
	cls := l.classes()
	ss := make([]string, len(l.els))
	for i, e := range l.els {
		ss[i] = e.describe(cls[i])
	}
	if len(ss) == 0 {
		return "-"
	}
	return strings.Join(ss, ";")
}

// classes: index of the first element with identical bytes
func (l *layout) classes() []int {
	cls := make([]int, len(l.els))
	for i, e := range l.els {
		cls[i] = i
		for j := 0; j < i; j++ {
			if bytes.Equal(l.els[j].data, e.data) {
				cls[i] = j
				break
			}
		}
	}
	return cls
}

// ---------------------------------------------------------------- observing the implementation

type obsT struct {
	class string // ok err panic
	part  string // canonical description of the assembled file
	enc   string // segment-mode re-encoding: ok:<classes> | err | panic
	f     *mp4.File
	encB  []byte
}

func tagOf(idx map[mp4.Box]int, b mp4.Box) string {
	if t, ok := idx[b]; ok {
		return strconv.Itoa(t)
	}
	return "?"
}

func observe(l *layout, data []byte) obsT {
	var o obsT
	var f *mp4.File
	var err error
	flags := mp4.DecNoFlags
	if l.ism {
		flags |= mp4.DecISMFlag
	}
	if l.som {
		flags |= mp4.DecStartOnMoof
	}
	p := hx.Try(func() {
		f, err = mp4.DecodeFile(bytes.NewReader(data), mp4.WithDecodeFlags(flags))
	})
	if p != "" {
		o.class = "panic"
		return o
	}
	if err != nil {
		o.class = "err"
		return o
	}
	o.class = "ok"
	o.f = f
	idx := make(map[mp4.Box]int)
	for i, c := range f.Children {
		idx[c] = i
	}
	var sb strings.Builder
	fmt.Fprintf(&sb, "frag=%d;sidx=", b2i(f.IsFragmented()))
	for i, s := range f.Sidxs {
		if i > 0 {
			sb.WriteByte(',')
		}
		sb.WriteString(tagOf(idx, s))
	}
	sb.WriteString(";mfra=")
	if f.Mfra != nil {
		sb.WriteString(tagOf(idx, f.Mfra))
	}
	sb.WriteString(";mdat=")
	if f.Mdat != nil {
		sb.WriteString(tagOf(idx, f.Mdat))
	}
	sb.WriteString(";init=")
	if f.Init != nil {
		sb.WriteString("[")
		for i, c := range f.Init.Children {
			if i > 0 {
				sb.WriteByte(',')
			}
			if fb, ok := c.(*mp4.FtypBox); ok && fb == nil {
				sb.WriteString("nil")
			} else {
				sb.WriteString(tagOf(idx, c))
			}
		}
		sb.WriteString("]")
	}
	sb.WriteString(";segs=")
	for i, s := range f.Segments {
		if i > 0 {
			sb.WriteByte('|')
		}
		if s.Styp != nil {
			sb.WriteString(tagOf(idx, s.Styp))
		} else {
			sb.WriteByte('-')
		}
		fmt.Fprintf(&sb, "@%s@", hexN(s.StartPos))
		for j, sx := range s.Sidxs {
			if j > 0 {
				sb.WriteByte(',')
			}
			sb.WriteString(tagOf(idx, sx))
		}
		sb.WriteByte('@')
		for j, fr := range s.Fragments {
			if j > 0 {
				sb.WriteByte('/')
			}
			fmt.Fprintf(&sb, "%s:", hexN(fr.StartPos))
			for k, c := range fr.Children {
				if k > 0 {
					sb.WriteByte(',')
				}
				sb.WriteString(tagOf(idx, c))
			}
			sb.WriteByte(':')
			if fr.Moof != nil {
				sb.WriteString(tagOf(idx, fr.Moof))
			}
			sb.WriteByte(':')
			if fr.Mdat != nil {
				sb.WriteString(tagOf(idx, fr.Mdat))
			}
		}
	}
	o.part = sb.String()
	// re-encode (default mode: segment mode when fragmented)
	var buf bytes.Buffer
	p = hx.Try(func() { err = f.Encode(&buf) })
	switch {
	case p != "":
		o.enc = "panic"
	case err != nil:
		o.enc = "err"
	default:
		o.encB = buf.Bytes()
		o.enc = "ok:" + classify(l, buf.Bytes())
	}
	return o
}

// classify scans the re-encoded file and names each box by the class of the input box with the same bytes
func classify(l *layout, enc []byte) string {
	sb, ok := scanTop(enc)
	if !ok {
		return "unscannable"
	}
	cls := l.classes()
	res := make([]string, len(sb))
	for i, b := range sb {
		res[i] = "X"
		bb := enc[b.pos : b.pos+b.size]
		for j, e := range l.els {
			if bytes.Equal(e.data, bb) {
				res[i] = strconv.Itoa(cls[j])
				break
			}
		}
	}
	if len(res) == 0 {
		return "-"
	}
	return strings.Join(res, ",")
}

// ---------------------------------------------------------------- generators

type gen struct {
	r    *hx.Rng
	uniq uint32
	seq  uint32
}

func (g *gen) u() uint32 { g.uniq++; return g.uniq }

func (g *gen) fragment(tracks int, base []uint64, seg, frag int, randomDur bool) (*elem, *elem) {
	g.seq++
	fs := fragSpec{seq: g.seq, base: append([]uint64(nil), base...)}
	if g.r.Intn(3) == 0 { // constant durations, written as tfhd defaults
		randomDur = false
		fs.optimize = true
	}
	// zero is a legitimate duration: a track whose samples all last 0 ticks gets a tfhd that SAYS default duration 0
	// (flag present, value 0) once the common value is moved out of the trun - not the same as a tfhd without default
	zeroTrack := -1
	if fs.optimize && g.r.Intn(4) == 0 {
		zeroTrack = g.r.Intn(tracks)
	}
	for t := 0; t < tracks; t++ {
		n := 1 + g.r.Intn(3)
		if t == zeroTrack {
			n = 2 + g.r.Intn(2)
		}
		d := make([]uint32, n)
		for j := range d {
			switch {
			case t == zeroTrack:
				d[j] = 0
			case randomDur:
				d[j] = uint32(1 + g.r.Intn(50))
			default:
				d[j] = uint32(10 * (t + 1))
			}
		}
		fs.durs = append(fs.durs, d)
	}
	if g.r.Intn(3) == 0 {
		fs.cto0 = int32(g.r.Pick(0, 5, 20, -3))
	}
	if tracks >= 2 && g.r.Intn(3) == 0 {
		fs.trunk = 1
	}
	moof, mdat, trafs := mkFragment(fs)
	for t := 0; t < tracks; t++ {
		for _, d := range fs.durs[t] {
			base[t] += uint64(d)
		}
	}
	return &elem{kind: 'o', data: moof, trafs: trafs, seg: seg, frag: frag},
		&elem{kind: 'd', data: mdat, seg: seg, frag: frag}
}

// structured generator: a well-formed fragmented file whose delimiters agree with the intended segmentation
func (g *gen) structured(nseg, nfrag, tracks int, delim string, emsg, sameFragCount bool, nz bool) *layout {
	l := &layout{tracks: tracks, nsegInt: nseg, delim: delim}
	order := g.r.Intn(3)
	l.refTrack, l.refTimescale = refTrackOf(tracks, order)
	ft, mv := mkInitOrder(tracks, false, g.u(), order)
	l.els = append(l.els, &elem{kind: 'f', data: ft, seg: -1, frag: -1}, &elem{kind: 'v', data: mv, stts: true, traks: traksOf(tracks, order), seg: -1, frag: -1})
	base := make([]uint64, tracks)
	if nz {
		for t := range base {
			base[t] = uint64(1000 * (t + 1))
		}
	}
	var sidxEls []*elem
	switch delim {
	case "sidx":
		sidxEls = []*elem{{kind: 'x', version: byte(g.r.Intn(2)), refs: make([]ref, nseg), seg: -1, frag: -1}}
	case "sidx2": // two chained top-level sidx boxes, each with the right first_offset
		k := 1 + g.r.Intn(nseg)
		if k == nseg {
			k = nseg - 1
		}
		if k < 1 {
			sidxEls = []*elem{{kind: 'x', version: 1, refs: make([]ref, nseg), seg: -1, frag: -1}}
		} else {
			sidxEls = []*elem{{kind: 'x', version: 1, refs: make([]ref, k), seg: -1, frag: -1},
				{kind: 'x', version: 1, refs: make([]ref, nseg-k), seg: -1, frag: -1}}
		}
	case "sidxh": // hierarchical: first sidx has one type-1 reference to the second
		sidxEls = []*elem{{kind: 'x', version: 1, refs: []ref{{typ: 1}}, seg: -1, frag: -1},
			{kind: 'x', version: 1, refs: make([]ref, nseg), seg: -1, frag: -1}}
	}
	for _, e := range sidxEls {
		e.data = mkSidx(e, g.u())
		l.els = append(l.els, e)
	}
	fragNo := 0
	segFirst := make([]int, nseg) // element index of the first box of each segment
	segMoof := make([]int, nseg)
	var moofIdx []int
	for s := 0; s < nseg; s++ {
		segFirst[s] = len(l.els)
		if delim == "styp" || delim == "stypsidx" || delim == "styptfra" {
			l.els = append(l.els, &elem{kind: 's', data: mkStyp(g.u()), seg: s, frag: -1})
			if delim == "stypsidx" {
				ns := 1 + g.r.Intn(2)
				for i := 0; i < ns; i++ {
					e := &elem{kind: 'x', version: 1, refs: []ref{{size: 100, dur: 10}}, seg: s, frag: -1}
					e.data = mkSidx(e, g.u())
					l.els = append(l.els, e)
				}
			}
		}
		nf := nfrag
		if !sameFragCount {
			nf = 1 + g.r.Intn(nfrag)
		}
		if delim == "som" {
			nf = 1
		}
		for f := 0; f < nf; f++ {
			if emsg && g.r.Intn(2) == 0 {
				ne := 1 + g.r.Intn(2)
				for i := 0; i < ne; i++ {
					l.els = append(l.els, &elem{kind: 'e', data: mkEmsg(g.u()), seg: s, frag: fragNo})
				}
			}
			mo, md := g.fragment(tracks, base, s, fragNo, true)
			if f == 0 {
				segMoof[s] = len(l.els)
			}
			moofIdx = append(moofIdx, len(l.els))
			l.els = append(l.els, mo, md)
			fragNo++
		}
	}
	var mfraEl *elem
	switch delim {
	case "tfra", "styptfra":
		mfraEl = &elem{kind: 'r', mfro: true, seg: -1, frag: -1}
		for t := 0; t < tracks; t++ {
			mfraEl.tfras = append(mfraEl.tfras, tfraT{track: uint32(t + 1), offs: make([]uint64, nseg)})
		}
	case "tfraf": // one entry per fragment (as ISM files have); every fragment is a segment
		mfraEl = &elem{kind: 'r', mfro: true, seg: -1, frag: -1}
		mfraEl.tfras = append(mfraEl.tfras, tfraT{track: 1, offs: make([]uint64, len(moofIdx))})
	}
	if mfraEl != nil {
		mfraEl.data = mkMfra(mfraEl, g.u())
		l.els = append(l.els, mfraEl)
	}
	l.place()
	// fill sidx / tfra from the positions
	end := uint64(0)
	for _, e := range l.els {
		if e.kind == 'd' {
			end = e.pos + uint64(len(e.data))
		}
	}
	segStart := func(s int) uint64 {
		if s >= nseg {
			return end
		}
		return l.els[segFirst[s]].pos
	}
	if len(sidxEls) > 0 {
		s := 0
		for i, e := range sidxEls {
			if delim == "sidxh" && i == 0 {
				e.refs[0].size = uint32(len(sidxEls[1].data))
				e.fo = 0
			} else {
				anchorBase := e.pos + uint64(len(e.data))
				e.fo = segStart(s) - anchorBase
				for k := range e.refs {
					e.refs[k] = ref{typ: 0, size: uint32(segStart(s+1) - segStart(s)), dur: 100}
					s++
				}
			}
			e.data = mkSidx(e, g.u())
		}
	}
	if mfraEl != nil {
		if delim == "tfra" || delim == "styptfra" {
			for t := range mfraEl.tfras {
				for s := 0; s < nseg; s++ {
					mfraEl.tfras[t].offs[s] = l.els[segMoof[s]].pos
				}
			}
		} else {
			for i, mi := range moofIdx {
				mfraEl.tfras[0].offs[i] = l.els[mi].pos
			}
			// intended: every fragment its own segment
			for i, mi := range moofIdx {
				l.els[mi].seg = i
				l.els[mi+1].seg = i
				for j := mi - 1; j >= 0 && l.els[j].kind == 'e'; j-- {
					l.els[j].seg = i
				}
			}
			l.nsegInt = len(moofIdx)
		}
		mfraEl.data = mkMfra(mfraEl, g.u())
	}
	l.place()
	switch delim {
	case "tfra", "tfraf", "styptfra":
		l.ism = true
	case "som":
		l.som = true
	}
	l.desc = fmt.Sprintf("structured delim=%s nseg=%d nfrag=%d tracks=%d emsg=%v", delim, nseg, nfrag, tracks, emsg)
	return l
}

// a small fixed alphabet of boxes for the exhaustive stream
type alpha struct {
	moof, mdat []byte
	trafs      []trafT
}

func (g *gen) alphabet() *alpha {
	a := &alpha{}
	a.moof, a.mdat, a.trafs = mkFragment(fragSpec{seq: 1, durs: [][]uint32{{10, 10}}, base: []uint64{0}})
	return a
}

// element for a letter of the exhaustive/random alphabet
func (g *gen) letter(a *alpha, c byte, sizes []int) *elem {
	switch c {
	case 'f':
		ft, _ := mkInit(1, false, g.u())
		return &elem{kind: 'f', data: ft, seg: -1, frag: -1}
	case 'v':
		_, mv := mkInit(1, false, g.u())
		return &elem{kind: 'v', data: mv, stts: true, traks: traksOf(1, 0), seg: -1, frag: -1}
	case 'p': // progressive moov
		_, mv := mkInit(1, true, g.u())
		return &elem{kind: 'v', data: mv, stts: false, traks: traksOf(1, 0), seg: -1, frag: -1}
	case 's':
		return &elem{kind: 's', data: mkStyp(g.u()), seg: -1, frag: -1}
	case 'e':
		return &elem{kind: 'e', data: mkEmsg(g.u()), seg: -1, frag: -1}
	case 'o':
		return &elem{kind: 'o', data: a.moof, trafs: a.trafs, seg: -1, frag: -1}
	case 'd':
		return &elem{kind: 'd', data: a.mdat, seg: -1, frag: -1}
	case 'D': // empty mdat
		return &elem{kind: 'd', data: []byte{0, 0, 0, 8, 'm', 'd', 'a', 't'}, seg: -1, frag: -1}
	case 'z':
		return &elem{kind: 'z', data: mkFree(g.u()), seg: -1, frag: -1}
	case 'x': // sidx: two references of one fragment each, first_offset 0
		fs := uint32(len(a.moof) + len(a.mdat))
		e := &elem{kind: 'x', version: 1, refs: []ref{{size: fs, dur: 20}, {size: fs, dur: 20}}, seg: -1, frag: -1}
		e.data = mkSidx(e, g.u())
		return e
	case 'y': // sidx starting with a type-1 reference
		fs := uint32(len(a.moof) + len(a.mdat))
		e := &elem{kind: 'x', version: 0, refs: []ref{{typ: 1, size: 52}, {size: fs, dur: 20}}, seg: -1, frag: -1}
		e.data = mkSidx(e, g.u())
		return e
	case 'r', 'R': // mfra filled later (offsets) by the caller
		e := &elem{kind: 'r', mfro: c == 'r', seg: -1, frag: -1}
		e.tfras = []tfraT{{track: 1, offs: make([]uint64, sizes[0])}}
		e.data = mkMfra(e, g.u())
		return e
	}
	panic("bad letter")
}

func (g *gen) fromLetters(a *alpha, s string, ism, som bool, tfraMode int) *layout {
	l := &layout{ism: ism, som: som, tracks: 1, delim: "mixed", desc: "letters " + s}
	nmoof := strings.Count(s, "o")
	for i := 0; i < len(s); i++ {
		ne := nmoof
		if tfraMode == 1 && ne > 0 {
			ne--
		}
		if tfraMode == 2 {
			ne++
		}
		l.els = append(l.els, g.letter(a, s[i], []int{ne}))
	}
	l.place()
	// tfra offsets: the moof positions (tfraMode 1: one fewer, 2: one more, 3: shifted by one byte)
	var moofPos []uint64
	for _, e := range l.els {
		if e.kind == 'o' {
			moofPos = append(moofPos, e.pos)
		}
	}
	for _, e := range l.els {
		if e.kind == 'r' {
			for i := range e.tfras[0].offs {
				if i < len(moofPos) {
					e.tfras[0].offs[i] = moofPos[i]
					if tfraMode == 3 && i > 0 {
						e.tfras[0].offs[i]++
					}
				} else {
					e.tfras[0].offs[i] = 1 << 40
				}
			}
			e.data = mkMfra(e, g.u())
		}
	}
	l.place()
	return l
}

// random odd layouts: random letters, random sidx contents, random tfra contents
func (g *gen) random(a *alpha) *layout {
	r := g.r
	n := 1 + r.Intn(10)
	units := []string{"od", "od", "od", "od", "eod", "eod", "eeod", "s", "s", "x", "x", "y", "z", "e",
		"o", "d", "D", "p", "f", "v", "odz", "sx", "sxx"}
	var sb strings.Builder
	// bias towards plausible files: optional ftyp/moov first
	if r.Intn(4) != 0 {
		sb.WriteString("fv")
		if r.Intn(3) == 0 {
			sb.WriteString("x")
		}
	}
	for i := 0; i < n; i++ {
		sb.WriteString(units[r.Intn(len(units))])
	}
	if r.Intn(3) == 0 {
		sb.WriteByte("rR"[r.Intn(4)/3])
	}
	l := g.fromLetters(a, sb.String(), r.Intn(2) == 0, r.Intn(3) == 0, r.Intn(4))
	// perturb sidx boxes
	var sizes []uint32
	for _, e := range l.els {
		sizes = append(sizes, uint32(len(e.data)))
	}
	changed := false
	for i, e := range l.els {
		if e.kind != 'x' || r.Intn(3) == 0 {
			continue
		}
		nr := r.Intn(5)
		e.refs = nil
		for k := 0; k < nr; k++ {
			var sz uint32
			switch r.Intn(4) {
			case 0:
				sz = sizes[r.Intn(len(sizes))]
			case 1:
				sz = uint32(len(a.moof) + len(a.mdat))
			case 2:
				sz = uint32(r.Intn(300))
			default:
				sz = uint32(len(a.moof)+len(a.mdat)) * uint32(1+r.Intn(3))
			}
			t := uint8(0)
			if r.Intn(6) == 0 {
				t = 1
			}
			e.refs = append(e.refs, ref{typ: t, size: sz, dur: uint32(r.Intn(100))})
		}
		switch r.Intn(5) {
		case 0:
			e.fo = 0
		case 1:
			if i+1 < len(l.els) {
				e.fo = uint64(len(l.els[i+1].data))
			}
		case 2:
			e.fo = uint64(r.Intn(200))
		case 3:
			e.fo = ^uint64(0) - uint64(r.Intn(100)) // wraps the anchor
			e.version = 1
		}
		if e.fo > 0xffffffff {
			e.version = 1
		}
		e.data = mkSidx(e, g.u())
		changed = true
	}
	if changed {
		// sizes of sidx boxes may have changed: recompute the tfra offsets too
		l.place()
		var moofPos []uint64
		for _, e := range l.els {
			if e.kind == 'o' {
				moofPos = append(moofPos, e.pos)
			}
		}
		for _, e := range l.els {
			if e.kind == 'r' {
				for i := range e.tfras[0].offs {
					if i < len(moofPos) && r.Intn(8) != 0 {
						e.tfras[0].offs[i] = moofPos[i]
					}
				}
				if r.Intn(4) == 0 { // a second tfra: same offsets / different
					t2 := tfraT{track: uint32(1 + r.Intn(2)), offs: append([]uint64(nil), e.tfras[0].offs...)}
					if r.Intn(3) == 0 && len(t2.offs) > 0 {
						t2.offs[0]++
					}
					if r.Intn(4) == 0 {
						t2.offs = append(t2.offs, 7)
					}
					e.tfras = append(e.tfras, t2)
				}
				if r.Intn(10) == 0 {
					e.tfras = nil
				}
				e.data = mkMfra(e, g.u())
			}
		}
		l.place()
	}
	l.desc = "random " + sb.String()
	return l
}

// ---------------------------------------------------------------- corr

var uCounter int

func emitCase(id string, l *layout) {
	data := l.bytes()
	o := observe(l, data)
	desc := l.describe()
	fmt.Fprintf(out, "A\t%s\t%d%d\t%s\t%s\t%s\t%s\n", id, b2i(l.ism), b2i(l.som), desc, o.class, orDash(o.part), orDash(o.enc))
	if o.class != "ok" {
		return
	}
	// UpdateSidx + encode on a fresh decode; the (add, nonZeroEPT) pair rotates
	uCounter++
	add, nz := uCounter%4 != 3, uCounter%2 == 0
	fmt.Fprintf(out, "U\t%s\t%d%d\t%s\t%d%d\t%s\n", id, b2i(l.ism), b2i(l.som), desc, b2i(add), b2i(nz), observeUpdate(l, data, add, nz))
}

func observeUpdate(l *layout, data []byte, add, nz bool) string {
	f, class := decodeLayout(l, data)
	if class != "ok" {
		return "decode-" + class
	}
	orig := make(map[mp4.Box]int)
	for i, c := range f.Children {
		orig[c] = i
	}
	var err error
	p := hx.Try(func() { err = f.UpdateSidx(add, nz) })
	if p != "" {
		return "panic"
	}
	if err != nil {
		return "err"
	}
	var sb strings.Builder
	sb.WriteString("ok;")
	if f.Sidx == nil {
		sb.WriteString("nosidx;")
	} else {
		sx := f.Sidx
		fmt.Fprintf(&sb, "%d,%s,%s,%s,%s,", sx.Version, hexN(uint64(sx.ReferenceID)), hexN(uint64(sx.Timescale)), hexN(sx.EarliestPresentationTime), hexN(sx.FirstOffset))
		for i, r := range sx.SidxRefs {
			if i > 0 {
				sb.WriteByte('+')
			}
			fmt.Fprintf(&sb, "%d:%s:%s", r.ReferenceType, hexN(uint64(r.ReferencedSize)), hexN(uint64(r.SubSegmentDuration)))
		}
		sb.WriteByte(';')
	}
	// children: original indices, N for a box that was not there before
	for i, c := range f.Children {
		if i > 0 {
			sb.WriteByte(',')
		}
		if t, ok := orig[c]; ok {
			sb.WriteString(strconv.Itoa(t))
		} else {
			sb.WriteByte('N')
		}
	}
	sb.WriteByte(';')
	var buf bytes.Buffer
	p = hx.Try(func() { err = f.Encode(&buf) })
	switch {
	case p != "":
		sb.WriteString("panic")
	case err != nil:
		sb.WriteString("err")
	default:
		scanned, ok := scanTop(buf.Bytes())
		if !ok {
			sb.WriteString("unscannable")
			break
		}
		sb.WriteString("ok:")
		for i, b := range scanned {
			if i > 0 {
				sb.WriteByte(',')
			}
			fmt.Fprintf(&sb, "%c%s", kindOf(b.typ), hexN(b.size))
		}
	}
	return sb.String()
}

func orDash(s string) string {
	if s == "" {
		return "-"
	}
	return s
}

var delims = []string{"none", "styp", "stypsidx", "styptfra", "sidx", "sidx2", "sidxh", "tfra", "tfraf", "som"}

func flagCombos(l *layout, f func(tag string)) {
	ism0, som0 := l.ism, l.som
	for c := 0; c < 4; c++ {
		l.ism, l.som = c&1 != 0, c&2 != 0
		f(fmt.Sprintf("f%d", c))
	}
	l.ism, l.som = ism0, som0
}

func exhaustive(g *gen, a *alpha, maxLen int, f func(id string, l *layout)) {
	letters := "svxeodz"
	var rec func(prefix string)
	rec = func(prefix string) {
		if len(prefix) > 0 {
			l := g.fromLetters(a, prefix, false, false, 0)
			flagCombos(l, func(tag string) { f("x-"+prefix+"-"+tag, l) })
		}
		if len(prefix) == maxLen {
			return
		}
		for i := 0; i < len(letters); i++ {
			rec(prefix + string(letters[i]))
		}
	}
	rec("")
	// the same with an mfra (tfra per moof / one short) at the end under the ISM flag
	var rec2 func(prefix string)
	rec2 = func(prefix string) {
		if len(prefix) > 0 && strings.Contains(prefix, "o") {
			for mode := 0; mode < 2; mode++ {
				l := g.fromLetters(a, prefix+"r", true, false, mode)
				f(fmt.Sprintf("xr-%s-m%d", prefix, mode), l)
			}
		}
		if len(prefix) == maxLen-1 {
			return
		}
		for _, c := range "seod" {
			rec2(prefix + string(c))
		}
	}
	rec2("")
}

func cmdCorr(seed uint64, n, exh int) {
	g := &gen{r: hx.NewRng(seed)}
	a := g.alphabet()
	exhaustive(g, a, exh, emitCase)
	// structured: small scopes exhaustively, each flag combination
	for _, d := range delims {
		for nseg := 1; nseg <= 3; nseg++ {
			for nfrag := 1; nfrag <= 2; nfrag++ {
				for em := 0; em < 2; em++ {
					l := g.structured(nseg, nfrag, 1+g.r.Intn(3), d, em == 1, true, g.r.Bool())
					flagCombos(l, func(tag string) {
						emitCase(fmt.Sprintf("s-%s-%d-%d-%d-%s", d, nseg, nfrag, em, tag), l)
					})
				}
			}
		}
	}
	for i := 0; i < n; i++ {
		if i%2 == 0 {
			d := delims[g.r.Intn(len(delims))]
			l := g.structured(1+g.r.Intn(5), 1+g.r.Intn(4), 1+g.r.Intn(3), d, g.r.Bool(), g.r.Bool(), g.r.Bool())
			if g.r.Intn(3) == 0 {
				l.ism, l.som = g.r.Bool(), g.r.Bool()
			}
			emitCase(fmt.Sprintf("r-%d", i), l)
		} else {
			emitCase(fmt.Sprintf("m-%d", i), g.random(a))
		}
	}
	// k tracks with arbitrary ids / traf order / missing tracks / empty truns, huge durations, virtual huge mdat boxes
	corrMulti(g, n/3)
	// byte level of decode + Encode: data offsets of single-trun fragments
	corrReencode(g, n/6)
}

func main() {
	if len(os.Args) < 2 {
		fmt.Fprintln(os.Stderr, "usage: c12 corr|search|emit|verify ...")
		os.Exit(2)
	}
	fs := flag.NewFlagSet(os.Args[1], flag.ExitOnError)
	seed := fs.Uint64("seed", 0, "seed")
	n := fs.Int("n", 1000, "random cases")
	exh := fs.Int("exh", 4, "exhaustive length")
	dir := fs.String("dir", "", "directory")
	hexFile := fs.String("file", "", "replay: the witness file in hex")
	ism := fs.Bool("ism", false, "replay: DecISMFlag")
	som := fs.Bool("som", false, "replay: DecStartOnMoof")
	_ = fs.Parse(os.Args[2:])
	defer out.Flush()
	switch os.Args[1] {
	case "corr":
		cmdCorr(*seed, *n, *exh)
	case "search":
		cmdSearch(*seed, *n)
	case "emit":
		cmdEmit(*seed, *n, *dir)
	case "verify":
		cmdVerify(*dir)
	case "replay":
		cmdReplay(*hexFile, *ism, *som)
	default:
		fmt.Fprintln(os.Stderr, "unknown sub-command")
		os.Exit(2)
	}
}
