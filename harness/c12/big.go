package main

// Multi-track fragments built box by box (k tracks with arbitrary ids, trafs in arbitrary order, fragments
// lacking the reference track, trafs without trun, truns without samples, durations up to 2^32-1) and files
// with VIRTUAL mdat boxes (a 16-byte large-size header announcing up to 8 GiB of payload that is never
// allocated: the file is read through a sparse io.ReadSeeker and decoded with DecModeLazyMdat).
// Used by corr (kind M/B lines), by search (searchMulti) and for the re-encoding observations (data offsets).

import (
	"bytes"
	"encoding/binary"
	"fmt"
	"io"
	"strings"

	"github.com/Eyevinn/mp4ff/mp4"
	"verifharness/hx"
)

// ---------------------------------------------------------------- sparse reader

type sparse struct {
	offs  []uint64
	datas [][]byte
	size  uint64
	pos   int64
}

func (l *layout) reader() io.ReadSeeker {
	if !l.big {
		return bytes.NewReader(l.bytes())
	}
	s := &sparse{}
	for _, e := range l.els {
		s.offs = append(s.offs, e.pos)
		s.datas = append(s.datas, e.data)
	}
	if n := len(l.els); n > 0 {
		s.size = l.els[n-1].pos + l.els[n-1].size()
	}
	return s
}

func (s *sparse) Read(p []byte) (int, error) {
	if s.pos < 0 || uint64(s.pos) >= s.size {
		return 0, io.EOF
	}
	n := uint64(len(p))
	if rem := s.size - uint64(s.pos); n > rem {
		n = rem
	}
	for i := uint64(0); i < n; i++ {
		p[i] = 0
	}
	lo, hi := uint64(s.pos), uint64(s.pos)+n
	for i, o := range s.offs {
		d := s.datas[i]
		a, b := o, o+uint64(len(d))
		if a < lo {
			a = lo
		}
		if b > hi {
			b = hi
		}
		if a < b {
			copy(p[a-lo:b-lo], d[a-o:b-o])
		}
	}
	s.pos += int64(n)
	return int(n), nil
}

func (s *sparse) Seek(off int64, whence int) (int64, error) {
	var np int64
	switch whence {
	case io.SeekStart:
		np = off
	case io.SeekCurrent:
		np = s.pos + off
	case io.SeekEnd:
		np = int64(s.size) + off
	}
	if np < 0 {
		return 0, fmt.Errorf("negative position")
	}
	s.pos = np
	return np, nil
}

func (l *layout) decode() (f *mp4.File, class string) {
	var err error
	flags := mp4.DecNoFlags
	if l.ism {
		flags |= mp4.DecISMFlag
	}
	if l.som {
		flags |= mp4.DecStartOnMoof
	}
	opts := []mp4.Option{mp4.WithDecodeFlags(flags)}
	if l.big {
		opts = append(opts, mp4.WithDecodeMode(mp4.DecModeLazyMdat))
	}
	p := hx.Try(func() { f, err = mp4.DecodeFile(l.reader(), opts...) })
	if p != "" {
		return nil, "panic"
	}
	if err != nil {
		return nil, "err"
	}
	return f, "ok"
}

// ---------------------------------------------------------------- fragments box by box

type trafX struct {
	track uint32
	base  uint64
	truns [][]uint32
	cto0  int32 // composition time offset of the first sample of the traf (in whichever trun it sits)
}

// mkMoofX: a moof with the given trafs in the given order. Sample data is 4 bytes per sample, laid out in
// trun order behind an mdat header of mdatHdr bytes; doffSkew is added to every data offset (non-zero: the
// samples do not start at the first payload byte, which a single-trun re-encoding rewrites).
func mkMoofX(seq uint32, trafs []trafX, mdatHdr int, doffSkew int32) (moofBytes []byte, nsamples int, desc []trafT) {
	moof := &mp4.MoofBox{}
	_ = moof.AddChild(mp4.CreateMfhd(seq))
	var truns []*mp4.TrunBox
	for _, t := range trafs {
		traf := &mp4.TrafBox{}
		_ = traf.AddChild(mp4.CreateTfhd(t.track))
		_ = traf.AddChild(mp4.CreateTfdt(t.base))
		d := trafT{track: t.track, base: t.base}
		firstSample := true // the first sample of the traf: it may sit behind empty truns
		for i, durs := range t.truns {
			tr := mp4.CreateTrun(0)
			if t.cto0 < 0 {
				tr.Version = 1 // signed composition time offsets
			}
			for j, du := range durs {
				cto := int32(0)
				switch {
				case firstSample:
					cto = t.cto0
					d.cto0 = t.cto0
					firstSample = false
				case t.cto0 != 0:
					cto = int32(11 + 3*j + i) // the other samples have offsets of their own
				}
				tr.AddSample(mp4.Sample{Flags: 0x02000000, Dur: du, Size: 4, CompositionTimeOffset: cto})
				nsamples++
			}
			_ = traf.AddChild(tr)
			truns = append(truns, tr)
			d.truns = append(d.truns, append([]uint32(nil), durs...))
		}
		_ = moof.AddChild(traf)
		desc = append(desc, d)
	}
	off := int64(moof.Size()) + int64(mdatHdr) + int64(doffSkew)
	for _, tr := range truns {
		tr.DataOffset = int32(off)
		if tr.DataOffset == 0 {
			tr.DataOffset = 1
		}
		off += 4 * int64(len(tr.Samples))
	}
	return encodeBox(moof), nsamples, desc
}

func mkMdatX(seq uint32, payload int, large bool) []byte {
	h := 8
	if large {
		h = 16
	}
	b := make([]byte, h+payload)
	if large {
		binary.BigEndian.PutUint32(b, 1)
		binary.BigEndian.PutUint64(b[8:], uint64(h+payload))
	} else {
		binary.BigEndian.PutUint32(b, uint32(h+payload))
	}
	copy(b[4:], "mdat")
	for i := h; i < len(b); i++ {
		b[i] = byte(seq + uint32(i))
	}
	return b
}

func mkMdatVirtualHeader(total uint64) []byte {
	h := make([]byte, 16)
	binary.BigEndian.PutUint32(h, 1)
	copy(h[4:], "mdat")
	binary.BigEndian.PutUint64(h[8:], total)
	return h
}

// ---------------------------------------------------------------- generator

var xKinds = []string{"video", "audio", "subtitle"}

func handlerOf(kind string) int {
	switch kind {
	case "video":
		return 0
	case "audio":
		return 1
	}
	return 2
}

// independent statement of "the reference track": first video track in moov order, else first audio, else first
func refOfTraks(ts []trakT) trakT {
	for _, t := range ts {
		if t.handler == 0 {
			return t
		}
	}
	for _, t := range ts {
		if t.handler == 1 {
			return t
		}
	}
	return ts[0]
}

type multiOpts struct {
	big      bool // virtual mdat boxes: segment sizes around 2^31 / 2^32
	bigDur   bool // sample durations up to 2^32-1
	dupTrafs bool // two trafs of one track in a moof, the second with a base time of its own
	skew     bool // data offsets that do not point at the first payload byte (re-encoding observations only)
}

// multi: ftyp moov (styp? (emsg? moof mdat)+)+ with k tracks of arbitrary ids and kinds.
func (g *gen) multi(o multiOpts) *layout {
	r := g.r
	k := 1 + r.Intn(4)
	pool := []uint32{1, 2, 3, 4, 5, 7, 9, 0x10000, 0xfffffffe}
	for i := len(pool) - 1; i > 0; i-- {
		j := r.Intn(i + 1)
		pool[i], pool[j] = pool[j], pool[i]
	}
	l := &layout{tracks: k, big: o.big}
	init := mp4.CreateEmptyInit()
	var traks []trakT
	for i := 0; i < k; i++ {
		kind := xKinds[r.Intn(3)]
		if r.Intn(3) == 0 {
			kind = "audio"
		}
		ts := uint32(r.Pick(1000, 48000, 90000, 10000000))
		t := trakT{id: pool[i], handler: handlerOf(kind), timescale: ts, trex: r.Intn(14) != 0}
		init.Moov.AddChild(mp4.CreateEmptyTrak(t.id, ts, kind, "und"))
		if t.trex {
			init.Moov.Mvex.AddChild(mp4.CreateTrex(t.id))
		}
		traks = append(traks, t)
	}
	decoyTrex(init)
	init.Moov.Mvhd.CreationTime = uint64(g.u())
	init.Ftyp = mp4.NewFtyp("cmfc", g.u(), []string{"dash", "iso6"})
	rt := refOfTraks(traks)
	l.refTrack, l.refTimescale, l.noTrex = rt.id, rt.timescale, !rt.trex
	l.els = append(l.els, &elem{kind: 'f', data: encodeBox(init.Ftyp), seg: -1, frag: -1},
		&elem{kind: 'v', data: encodeBox(init.Moov), stts: true, traks: traks, seg: -1, frag: -1})
	l.delim = []string{"styp", "styp", "none", "som", "sidx"}[r.Intn(5)]
	nseg := 1 + r.Intn(4)
	if l.delim == "none" {
		nseg = 1
	}
	// one top-level sidx box (no styp) indexes the whole file. With virtual mdat boxes every segment gets one and
	// stays below 2 GiB (31-bit referenced_size), and there are 3 to 7 of them: the segments start up to ~12 GiB
	// behind the anchor point, the running sum of the referenced sizes crosses 2^32 (and 2^33) between two references.
	var sidxEl *elem
	if l.delim == "sidx" {
		if o.big {
			nseg = 3 + r.Intn(5)
		}
		sidxEl = &elem{kind: 'x', version: byte(r.Intn(2)), refs: make([]ref, nseg), seg: -1, frag: -1}
		sidxEl.data = mkSidx(sidxEl, g.u())
		l.els = append(l.els, sidxEl)
	}
	l.nsegInt = nseg
	l.som = l.delim == "som"
	base := make(map[uint32]uint64)
	for _, t := range traks {
		if r.Intn(3) == 0 {
			base[t.id] = uint64(r.Pick(1000, 90000, 1<<33, 1<<40))
		}
	}
	fragNo := 0
	for s := 0; s < nseg; s++ {
		segFirst := len(l.els)
		if l.delim == "styp" {
			l.els = append(l.els, &elem{kind: 's', data: mkStyp(g.u()), seg: s, frag: -1})
		}
		nf := 1 + r.Intn(3)
		if l.delim == "som" {
			nf = 1
		}
		var lastMdat *elem
		for f := 0; f < nf; f++ {
			if r.Intn(5) == 0 {
				l.els = append(l.els, &elem{kind: 'e', data: mkEmsg(g.u()), seg: s, frag: fragNo})
			}
			// trafs: a random subset of the tracks in random order
			order := make([]int, k)
			for i := range order {
				order[i] = i
			}
			for i := k - 1; i > 0; i-- {
				j := r.Intn(i + 1)
				order[i], order[j] = order[j], order[i]
			}
			var trafs []trafX
			for _, ti := range order {
				if r.Intn(4) == 0 {
					continue // this fragment lacks the track
				}
				t := traks[ti]
				tx := trafX{track: t.id, base: base[t.id]}
				nt := r.Pick(1, 1, 1, 2, 0)
				for u := 0; u < nt; u++ {
					ns := r.Pick(0, 1, 2, 3, 2)
					durs := make([]uint32, ns)
					for j := range durs {
						switch {
						case o.bigDur && r.Intn(3) == 0:
							durs[j] = uint32(r.Pick(0x7fffffff, 0x80000000, 0xffffffff, 3000000000, 0xfffffff0))
						case o.bigDur && r.Intn(4) == 0:
							durs[j] = 0
						default:
							durs[j] = uint32(1 + r.Intn(3000))
						}
						base[t.id] += uint64(durs[j])
					}
					tx.truns = append(tx.truns, durs)
				}
				if r.Intn(3) == 0 {
					tx.cto0 = int32(r.Pick(5, 20, -3, 1000))
				}
				trafs = append(trafs, tx)
				if o.dupTrafs && r.Intn(6) == 0 {
					trafs = append(trafs, trafX{track: t.id, base: base[t.id] + 7, truns: [][]uint32{{uint32(1 + r.Intn(50))}}})
				}
			}
			g.seq++
			hdr := 8
			virtual := o.big && (f == nf-1) && (r.Intn(2) == 0 || (sidxEl != nil && r.Intn(8) != 0))
			largeHdr := !virtual && r.Intn(5) == 0 // a small mdat written with a 16-byte large-size header
			if virtual || largeHdr {
				hdr = 16
			}
			skew := int32(0)
			if o.skew && r.Intn(2) == 0 {
				skew = int32(r.Pick(4, 8, -8))
			}
			moof, nsamp, desc := mkMoofX(g.seq, trafs, hdr, skew)
			mo := &elem{kind: 'o', data: moof, trafs: desc, seg: s, frag: fragNo}
			var md *elem
			if virtual {
				md = &elem{kind: 'd', data: mkMdatVirtualHeader(16), vsize: 16, seg: s, frag: fragNo}
			} else {
				pay := 4 * nsamp
				if skew > 0 {
					pay += int(skew)
				}
				md = &elem{kind: 'd', data: mkMdatX(g.seq, pay, largeHdr), seg: s, frag: fragNo}
			}
			l.els = append(l.els, mo, md)
			lastMdat = md
			fragNo++
		}
		if lastMdat.vsize > 0 {
			// make the segment exactly `target` bytes
			rest := uint64(0)
			for _, e := range l.els[segFirst:] {
				if e != lastMdat {
					rest += e.size()
				}
			}
			targets := []uint64{1<<31 - 1, 1 << 31, 1<<31 + 100, 1<<32 - 1, 1 << 32, 1<<32 + 216, 1<<33 + 5, 1 << 20, 1<<31 - 2}
			target := targets[r.Intn(len(targets))]
			if sidxEl != nil {
				// indexable segments only; mostly ~1.5 GiB
				target = uint64(r.Pick(3<<29, 3<<29, 3<<29+8, 1<<31-1, 1<<31-2, 1<<30, 1<<20))
			}
			lastMdat.vsize = target - rest
			lastMdat.data = mkMdatVirtualHeader(lastMdat.vsize)
		}
	}
	l.place()
	if sidxEl != nil {
		// the references from the positions: segment s spans from its first box to the first box of the next one
		// (the end of the file for the last); first_offset 0: the media follows the sidx box directly
		sizes, _ := l.truth()
		for s := range sidxEl.refs {
			if sizes[s] > 0x7fffffff {
				panic("harness: sidx-delimited segment of 2 GiB or more")
			}
			sidxEl.refs[s] = ref{typ: 0, size: uint32(sizes[s]), dur: 100}
		}
		sidxEl.data = mkSidx(sidxEl, g.u())
		l.place()
	}
	l.desc = fmt.Sprintf("multi delim=%s nseg=%d tracks=%d ref=%d big=%v bigdur=%v%s", l.delim, nseg, k, l.refTrack, o.big, o.bigDur, l.sizesNote())
	return l
}

// sizesNote: the sizes of virtual boxes (a witness of a big layout holds their headers only)
func (l *layout) sizesNote() string {
	if !l.big {
		return ""
	}
	var sb strings.Builder
	sb.WriteString(" virtual-mdat-sizes=")
	for i, e := range l.els {
		if e.vsize > 0 {
			fmt.Fprintf(&sb, "%d:%d,", i, e.vsize)
		}
	}
	return sb.String()
}

// ---------------------------------------------------------------- ground truth

// per intended segment: total size and summed sample durations of the reference track (unbounded arithmetic)
func (l *layout) truth() (sizes, durs []uint64) {
	n := 0
	for _, e := range l.els {
		if e.seg+1 > n {
			n = e.seg + 1
		}
	}
	sizes, durs = make([]uint64, n), make([]uint64, n)
	for _, e := range l.els {
		if e.seg < 0 {
			continue
		}
		sizes[e.seg] += e.size()
		for _, t := range e.trafs {
			if t.track == l.refTrack {
				for _, tr := range t.truns {
					for _, d := range tr {
						durs[e.seg] += uint64(d)
					}
				}
			}
		}
	}
	return
}

// ---------------------------------------------------------------- corr: B lines

// observeBig: decode (lazily), UpdateSidx, the sidx fields in memory and the references as a reader of the
// encoded sidx box gets them (own parser).
func observeBig(l *layout, add, nz bool) string {
	f, class := l.decode()
	if class != "ok" {
		return "decode-" + class
	}
	var err error
	p := hx.Try(func() { err = f.UpdateSidx(add, nz) })
	if p != "" {
		return "panic"
	}
	if err != nil {
		return "err"
	}
	if f.Sidx == nil {
		return "ok;nosidx"
	}
	var sb strings.Builder
	sx := f.Sidx
	fmt.Fprintf(&sb, "ok;%d,%s,%s,%s,%s,", sx.Version, hexN(uint64(sx.ReferenceID)), hexN(uint64(sx.Timescale)), hexN(sx.EarliestPresentationTime), hexN(sx.FirstOffset))
	for i, r := range sx.SidxRefs {
		if i > 0 {
			sb.WriteByte('+')
		}
		fmt.Fprintf(&sb, "%d:%s:%s", r.ReferenceType, hexN(uint64(r.ReferencedSize)), hexN(uint64(r.SubSegmentDuration)))
	}
	sb.WriteString(";wire=")
	var buf bytes.Buffer
	p = hx.Try(func() { err = sx.Encode(&buf) })
	if p != "" || err != nil {
		sb.WriteString("err")
		return sb.String()
	}
	ps := parseSidx(buf.Bytes(), 0)
	for i, r := range ps.refs {
		if i > 0 {
			sb.WriteByte('+')
		}
		fmt.Fprintf(&sb, "%d:%s:%s", r.typ, hexN(uint64(r.size)), hexN(uint64(r.dur)))
	}
	return sb.String()
}

func emitBig(id string, l *layout) {
	uCounter++
	add, nz := uCounter%4 != 3, uCounter%2 == 0
	fmt.Fprintf(out, "B\t%s\t%d%d\t%s\t%d%d\t%s\n", id, b2i(l.ism), b2i(l.som), l.describe(), b2i(add), b2i(nz), observeBig(l, add, nz))
}

func corrMulti(g *gen, n int) {
	for i := 0; i < n; i++ {
		switch i % 4 {
		case 0:
			emitCase(fmt.Sprintf("k-%d", i), g.multi(multiOpts{dupTrafs: true}))
		case 1:
			emitCase(fmt.Sprintf("kd-%d", i), g.multi(multiOpts{bigDur: true, dupTrafs: true}))
		case 2:
			emitBig(fmt.Sprintf("kb-%d", i), g.multi(multiOpts{big: true}))
		default:
			emitBig(fmt.Sprintf("kbd-%d", i), g.multi(multiOpts{big: true, bigDur: true, dupTrafs: true}))
		}
	}
}

// ---------------------------------------------------------------- search

// searchMulti: the property on multi-track / huge files. A segment of 2 GiB or more, or a reference-track
// duration of 2^32 or more, cannot be indexed (31-bit referenced_size, 32-bit subsegment_duration):
// UpdateSidx must refuse; in every other case the references written must be exactly the segments' sizes
// and the reference track's summed durations.
func searchMulti(l *layout) {
	evals++
	f, class := l.decode()
	if class != "ok" {
		fail("DecodeFile", "rejects-wellformed/"+class, shortWitness(l), "a well-formed synthesized multi-track file is not decoded: "+class)
		return
	}
	if !checkPartition(l, f) {
		return
	}
	sizes, durs := l.truth()
	tooBig, tooLong := false, false
	for i := range sizes {
		if sizes[i] > 0x7fffffff {
			tooBig = true
		}
		if durs[i] > 0xffffffff {
			tooLong = true
		}
	}
	if !l.big && !tooLong && !l.noTrex {
		// everything the single-track search checks: byte-identical re-encoding, tiling, durations, ept, ids
		var buf bytes.Buffer
		var err error
		p := hx.Try(func() { err = f.Encode(&buf) })
		evals++
		if p != "" || err != nil {
			fail("File.Encode", "segment-mode-fails", shortWitness(l), fmt.Sprintf("re-encoding fails: %v %s", err, p))
			return
		}
		if !bytes.Equal(buf.Bytes(), l.bytes()) {
			fail("File.Encode", "segment-mode-bytes", shortWitness(l), fmt.Sprintf("re-encoded %d bytes differ from the %d input bytes", buf.Len(), len(l.bytes())))
			return
		}
		for _, nz := range []bool{false, true} {
			f2, _ := l.decode()
			evals++
			checkSidx(l, f2, nz)
		}
		return
	}
	evals++
	var err error
	p := hx.Try(func() { err = f.UpdateSidx(true, false) })
	w := shortWitness(l)
	if p != "" {
		fail("File.UpdateSidx", "panic", w, "UpdateSidx panics: "+p)
		return
	}
	if err != nil {
		if !tooBig && !tooLong && !l.noTrex {
			fail("File.UpdateSidx", "error", w, "UpdateSidx on a well-formed fragmented file: "+err.Error())
		}
		return
	}
	if l.noTrex {
		return // the reference track has no trex and UpdateSidx went on: not this property's business
	}
	var buf bytes.Buffer
	p = hx.Try(func() { err = f.Sidx.Encode(&buf) })
	if p != "" || err != nil {
		fail("SidxBox.Encode", "after-UpdateSidx", w, fmt.Sprintf("the filled sidx does not encode: %v %s", err, p))
		return
	}
	ps := parseSidx(buf.Bytes(), 0)
	if len(ps.refs) != len(sizes) {
		fail("File.UpdateSidx", "reference-count", w, fmt.Sprintf("%d references for %d segments", len(ps.refs), len(sizes)))
		return
	}
	for i, r := range ps.refs {
		if r.typ != 0 || uint64(r.size) != sizes[i] {
			fail("File.findSegmentData", "referenced-size-overflow", w,
				fmt.Sprintf("segment %d has %d bytes; the written reference reads reference_type %d, referenced_size %d, and UpdateSidx reported no error", i, sizes[i], r.typ, r.size))
			return
		}
		if uint64(r.dur) != durs[i] {
			cls := "duration"
			if durs[i] > 0xffffffff {
				cls = "duration-overflow"
			}
			fail("File.findSegmentData", cls, w,
				fmt.Sprintf("reference %d duration %d, reference track %d has %d in that segment, and UpdateSidx reported no error", i, r.dur, l.refTrack, durs[i]))
			return
		}
	}
	if ps.refID != l.refTrack || ps.timescale != l.refTimescale {
		fail("File.fillSidx", "reference-id", w, fmt.Sprintf("reference_ID %d timescale %d, the reference track is %d with timescale %d", ps.refID, ps.timescale, l.refTrack, l.refTimescale))
	}
}

func searchMultiAll(g *gen, n int) {
	for i := 0; i < n; i++ {
		switch i % 4 {
		case 0:
			searchMulti(g.multi(multiOpts{}))
		case 1:
			// two trafs of the reference track in one moof (the second with a base time of its own): durations add up, the
			// presentation time is that of the first of them that holds a sample
			searchMulti(g.multi(multiOpts{dupTrafs: true}))
		case 2:
			searchMulti(g.multi(multiOpts{bigDur: true}))
		default:
			searchMulti(g.multi(multiOpts{big: true, bigDur: i%8 == 7}))
		}
		if i%10 == 0 {
			searchSkew(g.multi(multiOpts{skew: true}))
		}
	}
}

// ---------------------------------------------------------------- corr: R lines (re-encoding, byte level)

// singleTrunDoff: own walk of a moof: if it holds exactly one trun in all its trafs and that trun has the
// data-offset-present flag, the byte offset of the data_offset field within the moof.
func singleTrunDoff(moof []byte) (int, bool) {
	ntrun, pos, flagged := 0, 0, false
	for p := 8; p+8 <= len(moof); {
		sz := int(binary.BigEndian.Uint32(moof[p:]))
		if sz < 8 || p+sz > len(moof) {
			return 0, false
		}
		if string(moof[p+4:p+8]) == "traf" {
			for q := p + 8; q+8 <= p+sz; {
				cs := int(binary.BigEndian.Uint32(moof[q:]))
				if cs < 8 || q+cs > p+sz {
					return 0, false
				}
				if string(moof[q+4:q+8]) == "trun" {
					ntrun++
					pos = q + 16
					flagged = moof[q+11]&1 != 0
				}
				q += cs
			}
		}
		p += sz
	}
	if ntrun == 1 && flagged {
		return pos, true
	}
	return 0, false
}

// emitReencode: R <id> <flags> <boxes> <per box: - | doffpos-or-minus:hex of the box> <obs>
// obs: err | panic | ok:<per written box: class of the identical input box | X:hex>
func emitReencode(id string, l *layout) {
	data := l.bytes()
	var mi []string
	for _, e := range l.els {
		if e.kind != 'o' {
			// every other box with its bytes too (the model re-encodes it through C01's box model); virtual or
			// large boxes stay opaque
			if e.vsize > 0 || len(e.data) > 4096 {
				mi = append(mi, "-")
			} else {
				mi = append(mi, "-:"+hx.Hex(e.data))
			}
			continue
		}
		p := "-"
		if pos, ok := singleTrunDoff(e.data); ok {
			p = hexN(uint64(pos))
		}
		mi = append(mi, p+":"+hx.Hex(e.data))
	}
	obs := ""
	f, class := decodeLayout(l, data)
	if class != "ok" {
		obs = "decode-" + class
	} else {
		var buf bytes.Buffer
		var err error
		p := hx.Try(func() { err = f.Encode(&buf) })
		switch {
		case p != "":
			obs = "panic"
		case err != nil:
			obs = "err"
		default:
			enc := buf.Bytes()
			sb, ok := scanTop(enc)
			if !ok {
				obs = "ok:unscannable"
				break
			}
			cls := l.classes()
			res := make([]string, len(sb))
			for i, b := range sb {
				bb := enc[b.pos : b.pos+b.size]
				res[i] = "X:" + hx.Hex(bb)
				for j, e := range l.els {
					if bytes.Equal(e.data, bb) {
						res[i] = fmt.Sprint(cls[j])
						break
					}
				}
			}
			obs = "ok:" + strings.Join(res, ",")
		}
	}
	mis := strings.Join(mi, ";")
	if len(mi) == 0 {
		mis = "-"
	}
	fmt.Fprintf(out, "R\t%s\t%d%d\t%s\t%s\t%s\n", id, b2i(l.ism), b2i(l.som), l.describe(), mis, obs)
}

func corrReencode(g *gen, n int) {
	for i := 0; i < n; i++ {
		switch i % 3 {
		case 0:
			emitReencode(fmt.Sprintf("rs-%d", i), g.multi(multiOpts{skew: true}))
		case 1:
			emitReencode(fmt.Sprintf("rk-%d", i), g.multi(multiOpts{}))
		default:
			d := delims[g.r.Intn(len(delims))]
			emitReencode(fmt.Sprintf("rr-%d", i), g.structured(1+g.r.Intn(3), 1+g.r.Intn(3), 1+g.r.Intn(3), d, g.r.Bool(), g.r.Bool(), g.r.Bool()))
		}
	}
}

// searchSkew: byte identity of decode + Encode on files whose single-trun fragments carry a data offset that
// does not point at the first payload byte (legal: unreferenced bytes at the start of the mdat).
// The property asks for byte identity. A difference confined to the data_offset field of single-trun moofs is
// reported under its own signature (Fragment.SetTrunDataOffsets rewrites that field); anything else as
// segment-mode-bytes.
func searchSkew(l *layout) {
	evals++
	data := l.bytes()
	f, class := l.decode()
	if class != "ok" {
		fail("DecodeFile", "rejects-wellformed/"+class, shortWitness(l), "a well-formed synthesized multi-track file is not decoded: "+class)
		return
	}
	var buf bytes.Buffer
	var err error
	p := hx.Try(func() { err = f.Encode(&buf) })
	if p != "" || err != nil {
		fail("File.Encode", "segment-mode-fails", shortWitness(l), fmt.Sprintf("re-encoding fails: %v %s", err, p))
		return
	}
	enc := buf.Bytes()
	if bytes.Equal(enc, data) {
		return
	}
	if len(enc) == len(data) {
		// mask the data_offset fields of single-trun moofs in both
		a, b := append([]byte(nil), data...), append([]byte(nil), enc...)
		first := ""
		for _, e := range l.els {
			if e.kind != 'o' {
				continue
			}
			if pos, ok := singleTrunDoff(e.data); ok {
				o := int(e.pos) + pos
				if first == "" && !bytes.Equal(a[o:o+4], b[o:o+4]) {
					first = fmt.Sprintf("moof at %d (%d bytes): data_offset %d in the input, %d in the output",
						e.pos, len(e.data), int32(binary.BigEndian.Uint32(a[o:])), int32(binary.BigEndian.Uint32(b[o:])))
				}
				copy(a[o:o+4], []byte{0, 0, 0, 0})
				copy(b[o:o+4], []byte{0, 0, 0, 0})
			}
		}
		if bytes.Equal(a, b) {
			fail("Fragment.SetTrunDataOffsets", "single-trun-data-offset-rewritten", shortWitness(l),
				"decode + Encode is not byte-identical: the data offset of a fragment's only trun is overwritten with moof size + mdat header size; "+first)
			return
		}
	}
	fail("File.Encode", "segment-mode-bytes", shortWitness(l), fmt.Sprintf("re-encoded %d bytes differ from the %d input bytes", len(enc), len(data)))
}
