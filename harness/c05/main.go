// Harness for C05 (samples written into fragments are read back exactly).
//
//	c05 corr   -seed S -n N        : cases + implementation observables for the model diff
//	                                 O = OptimizeTfhdTrun / trun+tfhd codec / AddSampleDefaultValues on arbitrary trun+tfhd
//	                                 H = op history on the real fragment API, encode, decode, GetFullSamples
//	c05 search -seed S -n N        : evaluates the property itself: added list == recovered list per track
//	c05 replay -w <witness json>   : re-runs one witness of search
package main

import (
	"bufio"
	"bytes"
	"encoding/binary"
	"encoding/json"
	"flag"
	"fmt"
	"os"
	"sort"
	"strconv"
	"strings"

	"github.com/Eyevinn/mp4ff/bits"
	"github.com/Eyevinn/mp4ff/mp4"
	"verifharness/hx"
)

var out = bufio.NewWriterSize(os.Stdout, 1<<20)

// ------------------------------------------------------------------ specs (JSON = witness format)

type Smp struct {
	F, D, S uint32
	C       int32
}

type Op struct {
	K string // F AddFullSample, T AddFullSampleToTrack, M AddSampleToTrack, A AddSample, S AddSamples, I AddSampleInterval,
	// E AddEmsg (Tr = payload length), C f.AddChild(box with code Tr), N Fragment.Encode without optimisation into a scratch buffer
	Tr   uint32
	Ss   []Smp
	Dts  uint64
	Data string // hex of the data of all samples of the op (written separately by the caller for M, A, S)
}

type Frag struct {
	Multi   bool
	Seq     uint32
	Tracks  []uint32
	Ops     []Op
	Pre0    []int   // boxes placed in front of the moof directly (f.Children = append(box, f.Children...)), first one first
	Emsg    int     // emsg boxes added with AddEmsg (after Pre0 / Prft, before Post and Ops)
	Prft    bool    // prft box placed first in the fragment (as Pre0 = [prft])
	MoofX   []int   // extra children of moof (box codes)
	TrafX   [][]int // extra children per traf (box codes)
	Post    []int   // boxes after mdat inside the fragment (f.AddChild)
	Between []int   // boxes written by the caller after this fragment
}

// SidxSpec: a sidx box placed after the styp box (or first): FirstOffset and (ReferenceType, ReferencedSize) pairs
type SidxSpec struct {
	First uint64
	Refs  [][2]uint32
}

type Seg struct {
	Sidx    []SidxSpec
	NTracks int
	Trex    [][3]uint32 // per init track: default duration, size, flags
	Styp    bool
	Frags   []Frag
	Opt     bool
	SW      bool
	UseSeg  bool // encode through MediaSegment (only without lazy data and Between boxes)
	Dec     int  // 0 DecodeFile(init+seg) 1 DecodeFileSR(init+seg) 2 DecodeFile(seg) 3 DecodeFileSR(seg)
	NoDec   bool // probe: stop after the data-offset oracle (payload too big to materialise)
	Bad     bool // some Sample.Size differs from its data length (the decode stage is then not compared)
	noCross bool // internal: do not run the encoder/decoder cross-check again
}

// mixSeed spreads seeds over the 64-bit space (hx.NewRng streams of nearby seeds are shifted copies of each other)
func mixSeed(seed, salt uint64) uint64 {
	z := seed*0x9E3779B97F4A7C15 + salt
	z = (z ^ (z >> 30)) * 0xBF58476D1CE4E5B9
	z = (z ^ (z >> 27)) * 0x94D049BB133111EB
	return z ^ (z >> 31)
}

func pickU(r *hx.Rng, xs ...uint32) uint32 { return xs[r.Intn(len(xs))] }

func toSample(s Smp) mp4.Sample {
	return mp4.Sample{Flags: s.F, Dur: s.D, Size: s.S, CompositionTimeOffset: s.C}
}

// box code = kind*100000 + payload length; kinds: 0 free 1 uuid(unknown) 2 unknown 'zzzz' 3 prft 4 emsg 5 skip
func mkBox(code int) mp4.Box {
	kind, n := code/100000, code%100000
	pl := make([]byte, n)
	for i := range pl {
		pl[i] = byte(0xa0 + i)
	}
	switch kind {
	case 0:
		return mp4.NewFreeBox(pl)
	case 1:
		u := &mp4.UUIDBox{UnknownPayload: pl}
		_ = u.SetUUID("0123456789abcdef0123456789abcdef")
		return u
	case 2:
		return mp4.CreateUnknownBox("zzzz", uint64(8+n), pl)
	case 3:
		return mp4.CreatePrftBox(byte(n&1), 0, 1, mp4.NTP64(0x1234567890), 77)
	case 4:
		return &mp4.EmsgBox{Version: byte(n & 1), TimeScale: 1000, SchemeIDURI: "urn:x", Value: "v", MessageData: pl}
	default:
		fb := mp4.NewFreeBox(pl)
		fb.Name = "skip"
		return fb
	}
}

func mkSidx(sp SidxSpec) *mp4.SidxBox {
	sx := &mp4.SidxBox{ReferenceID: 1, Timescale: 1000, FirstOffset: sp.First}
	for _, rf := range sp.Refs {
		sx.SidxRefs = append(sx.SidxRefs, mp4.SidxRef{ReferenceType: uint8(rf[0] & 1), ReferencedSize: rf[1] & 0x7fffffff, SubSegmentDuration: 100})
	}
	return sx
}

func sumSizes(codes []int) uint64 {
	var t uint64
	for _, c := range codes {
		t += mkBox(c).Size()
	}
	return t
}

// ------------------------------------------------------------------ running a fragment spec on the real API

type fragRun struct {
	f       *mp4.Fragment
	classes []byte // per executed op: o ok, e error, p panic
	lazy    []byte // data the caller writes after the encoded fragment
	expect  map[uint32][]mp4.FullSample
	modes   map[byte]bool // data modes used: f full, l lazy, p parts
	pre     uint64        // size of the boxes before moof (measured on f.Children after the history)
	post    uint64        // size of the boxes after mdat (measured)
	all     []Op          // the ops that were run: those of the spec's Emsg / Post fields, then spec.Ops
	nobs    []string      // after every Encode in the middle of the history (ops N / O): tfhd flags + defaults, tfdt version, trun flags + data offsets
}

// genOptMid: the generator also puts Encode calls WITH OptimizeTrun (op O) in the middle of the histories. Correspondence only:
// the model's encode_state / run_hops must reproduce what the real code then does (finding C05-F10 included).
var genOptMid bool

// pre0 is the list of boxes the spec puts in front of the moof directly
func (fs *Frag) pre0() []int {
	var cs []int
	if fs.Prft {
		cs = append(cs, 300000)
	}
	return append(cs, fs.Pre0...)
}

// allOps: the spec's Emsg and Post fields are AddEmsg / AddChild calls made before the ops
func (fs *Frag) allOps() []Op {
	var ops []Op
	for i := 0; i < fs.Emsg; i++ {
		ops = append(ops, Op{K: "E", Tr: uint32(i)})
	}
	for _, c := range fs.Post {
		ops = append(ops, Op{K: "C", Tr: uint32(c)})
	}
	return append(ops, fs.Ops...)
}

// layoutOf: the children of a fragment as the model prints them: M moof, D mdat, e<size> emsg, o<size> any other box
func layoutOf(f *mp4.Fragment) string {
	var sb strings.Builder
	for i, c := range f.Children {
		if i > 0 {
			sb.WriteString(",")
		}
		if c == nil {
			sb.WriteString("nil")
			continue
		}
		switch c.Type() {
		case "moof":
			sb.WriteString("M")
		case "mdat":
			sb.WriteString("D")
		case "emsg":
			sb.WriteString("e" + hx.HexU(c.Size()))
		default:
			sb.WriteString("o" + hx.HexU(c.Size()))
		}
	}
	if sb.Len() == 0 {
		return "-"
	}
	return sb.String()
}

// measure sets pre / post from the real children
func (r *fragRun) measure() {
	r.pre, r.post = 0, 0
	seenMoof, seenMdat := false, false
	for _, c := range r.f.Children {
		if c == nil {
			continue
		}
		switch c.Type() {
		case "moof":
			seenMoof = true
		case "mdat":
			seenMdat = true
		default:
			if !seenMoof {
				r.pre += c.Size()
			} else if seenMdat {
				r.post += c.Size()
			}
		}
	}
}

func cls(p string, err error) byte {
	if p != "" {
		return 'p'
	}
	if err != nil {
		return 'e'
	}
	return 'o'
}

func splitSamples(op *Op) []mp4.FullSample {
	data := hx.UnHex(op.Data)
	dts := op.Dts
	pos := 0
	res := make([]mp4.FullSample, 0, len(op.Ss))
	for _, s := range op.Ss {
		end := pos + int(s.S)
		if end > len(data) {
			end = len(data)
		}
		if pos > len(data) {
			pos = len(data)
		}
		res = append(res, mp4.FullSample{Sample: toSample(s), DecodeTime: dts, Data: data[pos:end]})
		pos = end
		dts += uint64(s.D)
	}
	return res
}

func buildFrag(fs *Frag) *fragRun {
	r := &fragRun{expect: map[uint32][]mp4.FullSample{}, modes: map[byte]bool{}}
	var f *mp4.Fragment
	if fs.Multi {
		f, _ = mp4.CreateMultiTrackFragment(fs.Seq, fs.Tracks)
	} else {
		f, _ = mp4.CreateFragment(fs.Seq, fs.Tracks[0])
	}
	r.f = f
	for _, c := range fs.MoofX {
		_ = f.Moof.AddChild(mkBox(c))
	}
	for i, cs := range fs.TrafX {
		if i < len(f.Moof.Trafs) {
			for _, c := range cs {
				_ = f.Moof.Trafs[i].AddChild(mkBox(c))
			}
		}
	}
	pre0 := fs.pre0()
	for i := len(pre0) - 1; i >= 0; i-- {
		b := mkBox(pre0[i])
		if p, ok := b.(*mp4.PrftBox); ok {
			f.Prft = p
		}
		if e, ok := b.(*mp4.EmsgBox); ok {
			f.Emsgs = append([]*mp4.EmsgBox{e}, f.Emsgs...)
		}
		f.Children = append([]mp4.Box{b}, f.Children...)
	}
	r.all = fs.allOps()
	defer r.measure()
	for i := range r.all {
		op := &r.all[i]
		data := hx.UnHex(op.Data)
		var err error
		var track uint32
		if len(f.Moof.Trafs) > 0 {
			track = f.Moof.Trafs[0].Tfhd.TrackID
		}
		p := hx.Try(func() {
			switch op.K {
			case "F":
				f.AddFullSample(mp4.FullSample{Sample: toSample(op.Ss[0]), DecodeTime: op.Dts, Data: data})
				r.modes['f'] = true
			case "T":
				track = op.Tr
				err = f.AddFullSampleToTrack(mp4.FullSample{Sample: toSample(op.Ss[0]), DecodeTime: op.Dts, Data: data}, op.Tr)
				r.modes['f'] = true
			case "M":
				track = op.Tr
				err = f.AddSampleToTrack(toSample(op.Ss[0]), op.Tr, op.Dts)
				r.modes['l'] = true
			case "A":
				f.AddSample(toSample(op.Ss[0]), op.Dts)
				r.modes['l'] = true
			case "S":
				ss := make([]mp4.Sample, len(op.Ss))
				for j := range op.Ss {
					ss[j] = toSample(op.Ss[j])
				}
				f.AddSamples(ss, op.Dts)
				scribble(ss) // the caller re-uses its batch buffer: the fragment must not depend on it any more
				r.modes['l'] = true
			case "I":
				ss := make([]mp4.Sample, len(op.Ss))
				for j := range op.Ss {
					ss[j] = toSample(op.Ss[j])
				}
				err = f.AddSampleInterval(mp4.SampleInterval{FirstDecodeTime: op.Dts, Samples: ss, Data: data})
				scribble(ss)
				r.modes['p'] = true
			case "E":
				e := mkBox(400000 + int(op.Tr)%100000).(*mp4.EmsgBox)
				f.AddEmsg(e)
				f.Emsgs = append(f.Emsgs, e)
			case "C":
				f.AddChild(mkBox(int(op.Tr)))
			case "N":
				f.EncOptimize = mp4.OptimizeNone
				var scratch bytes.Buffer
				err = f.Encode(&scratch)
			case "O":
				f.EncOptimize = mp4.OptimizeTrun
				var scratch bytes.Buffer
				err = f.Encode(&scratch)
			}
		})
		c := cls(p, err)
		r.classes = append(r.classes, c)
		if c == 'p' {
			break
		}
		if op.K == "N" || op.K == "O" {
			r.nobs = append(r.nobs, trafEnc(f)) // Encode is a state transformer: what the additions that follow will see
		}
		if c == 'o' && op.K != "E" && op.K != "C" && op.K != "N" && op.K != "O" {
			if op.K == "M" || op.K == "A" || op.K == "S" {
				r.lazy = append(r.lazy, data...)
			}
			r.expect[track] = append(r.expect[track], splitSamples(op)...)
		}
	}
	return r
}

func (r *fragRun) panicked() bool {
	return len(r.classes) > 0 && r.classes[len(r.classes)-1] == 'p'
}

// encodeFrag encodes one fragment with the chosen encoder; returns bytes, class.
func encodeFrag(f *mp4.Fragment, opt, sw bool) (b []byte, class byte) {
	if opt {
		f.EncOptimize = mp4.OptimizeTrun
	} else {
		f.EncOptimize = mp4.OptimizeNone
	}
	var err error
	p := hx.Try(func() {
		if sw {
			w := bits.NewFixedSliceWriter(int(f.Size()-f.Mdat.GetLazyDataSize()) + int(f.Mdat.DataLength()) + len(f.Mdat.Data) + 64)
			err = f.EncodeSW(w)
			b = append([]byte{}, w.Bytes()...)
		} else {
			var buf bytes.Buffer
			err = f.Encode(&buf)
			b = buf.Bytes()
		}
	})
	return b, cls(p, err)
}

func encodeBoxes(codes []int) []byte {
	var buf bytes.Buffer
	for _, c := range codes {
		_ = mkBox(c).Encode(&buf)
	}
	return buf.Bytes()
}

func buildInit(sg *Seg) []byte {
	init := mp4.CreateEmptyInit()
	for i := 0; i < sg.NTracks; i++ {
		mt := "video"
		if i%2 == 1 {
			mt = "audio"
		}
		init.AddEmptyTrack(1000, mt, "und")
		tx := init.Moov.Mvex.Trexs[i]
		tx.DefaultSampleDuration, tx.DefaultSampleSize, tx.DefaultSampleFlags = sg.Trex[i][0], sg.Trex[i][1], sg.Trex[i][2]
	}
	var buf bytes.Buffer
	_ = init.Encode(&buf)
	return buf.Bytes()
}

func decodeAll(data []byte, sr bool) (f *mp4.File, class byte) {
	var err error
	p := hx.Try(func() {
		if sr {
			f, err = mp4.DecodeFileSR(bits.NewFixedSliceReader(data))
		} else {
			f, err = mp4.DecodeFile(bytes.NewReader(data))
		}
	})
	return f, cls(p, err)
}

// ------------------------------------------------------------------ formatting

func hs(s mp4.Sample) string {
	return hx.HexU(uint64(s.Flags)) + "." + hx.HexU(uint64(s.Dur)) + "." + hx.HexU(uint64(s.Size)) + "." + hx.HexI(int64(s.CompositionTimeOffset))
}

func hsl(ss []mp4.Sample) string {
	if len(ss) == 0 {
		return "-"
	}
	p := make([]string, len(ss))
	for i, s := range ss {
		p[i] = hs(s)
	}
	return strings.Join(p, ",")
}

func hfl(ss []mp4.FullSample) string {
	if len(ss) == 0 {
		return "-"
	}
	p := make([]string, len(ss))
	for i, s := range ss {
		p[i] = hs(s.Sample) + "." + hx.HexU(s.DecodeTime) + "." + hx.Hex(s.Data)
	}
	return strings.Join(p, ",")
}

func smps(ss []Smp) []mp4.Sample {
	r := make([]mp4.Sample, len(ss))
	for i, s := range ss {
		r[i] = toSample(s)
	}
	return r
}

func opString(o *Op) string {
	switch o.K {
	case "E":
		return "E:" + xboxOfCode(400000+int(o.Tr)%100000)
	case "C":
		return "C:" + xboxOfCode(int(o.Tr))
	case "N":
		return "N"
	case "O":
		return "O"
	case "F", "A":
		return o.K + ":" + hs(toSample(o.Ss[0])) + ":" + hx.HexU(o.Dts) + ":" + o.Data
	case "T", "M":
		return o.K + ":" + hx.HexU(uint64(o.Tr)) + ":" + hs(toSample(o.Ss[0])) + ":" + hx.HexU(o.Dts) + ":" + o.Data
	default:
		return o.K + ":" + hx.HexU(o.Dts) + ":" + hsl(smps(o.Ss)) + ":" + o.Data
	}
}

func hexCsv(xs []uint64) string {
	if len(xs) == 0 {
		return "-"
	}
	p := make([]string, len(xs))
	for i, x := range xs {
		p[i] = hx.HexU(x)
	}
	return strings.Join(p, ",")
}

// ------------------------------------------------------------------ generators

var flagPool = []uint32{0x1010000, 0x2000000, 0, 0x1010000}
var durPool = []uint32{10, 20, 0, 0xffffffff, 10}
var sizePool = []uint32{2, 3, 0, 1, 5, 2}
var ctoPool = []int32{0, 0, 5, -3, 0x7fffffff, -0x80000000}
var dtsPool = []uint64{0, 1000, 0xfffffff0, 0x100000007, 1 << 40}

// fieldGen draws one field of the samples of a track: mode 0 all equal, 1 first differs, 2 free draw
type fieldGen struct {
	mode  int
	a, b  int
	count int
}

func newFieldGen(r *hx.Rng, n int) *fieldGen {
	g := &fieldGen{mode: r.Pick(0, 0, 1, 2, 2), a: r.Intn(n), b: r.Intn(n)}
	return g
}

func (g *fieldGen) next(r *hx.Rng, n int) int {
	g.count++
	switch g.mode {
	case 0:
		return g.a
	case 1:
		if g.count == 1 {
			return g.b
		}
		return g.a
	}
	return r.Intn(n)
}

type trackGen struct {
	fl, du, sz, ct *fieldGen
	dts            uint64
}

func newTrackGen(r *hx.Rng) *trackGen {
	t := &trackGen{fl: newFieldGen(r, len(flagPool)), du: newFieldGen(r, len(durPool)),
		sz: newFieldGen(r, len(sizePool)), ct: newFieldGen(r, len(ctoPool))}
	if r.Intn(3) == 0 {
		t.ct.mode, t.ct.a = 0, 0 // all zero cto
	}
	t.dts = dtsPool[r.Intn(len(dtsPool))]
	return t
}

func (t *trackGen) sample(r *hx.Rng) Smp {
	return Smp{F: flagPool[t.fl.next(r, len(flagPool))], D: durPool[t.du.next(r, len(durPool))],
		S: sizePool[t.sz.next(r, len(sizePool))], C: ctoPool[t.ct.next(r, len(ctoPool))]}
}

func (t *trackGen) newFragment(r *hx.Rng) {
	// the "first differs" pattern restarts in every fragment
	t.fl.count, t.du.count, t.sz.count, t.ct.count = 0, 0, 0, 0
}

var dataCtr byte

func genData(n int) []byte {
	b := make([]byte, n)
	for i := range b {
		dataCtr++
		b[i] = dataCtr
	}
	return b
}

func genBoxCodes(r *hx.Rng, max int, kinds []int) []int {
	n := 0
	if r.Intn(3) == 0 {
		n = r.Range(1, max)
	}
	cs := make([]int, n)
	for i := range cs {
		cs[i] = kinds[r.Intn(len(kinds))]*100000 + r.Intn(6)
	}
	return cs
}

// genSeg draws a segment spec. wild = true also draws histories outside the documented use of the API
// (single-track calls on multi-track fragments, mixed data modes, unknown track ids, inconsistent sizes
// and decode times): those are for the model correspondence only.
func genSeg(r *hx.Rng, wild bool) *Seg {
	sg := &Seg{NTracks: r.Range(1, 4), Styp: r.Intn(3) != 0, Opt: r.Bool(), SW: r.Bool(), Dec: r.Pick(0, 0, 1, 1, 2, 3)}
	for i := 0; i < sg.NTracks; i++ {
		tx := [3]uint32{}
		if r.Bool() { // adversarial defaults: values that differ from every pool value or collide with them
			tx = [3]uint32{pickU(r, 7, 10, 0xffffffff), pickU(r, 9, 2, 1), pickU(r, 0x10000, 0x2000000, 0x1010000)}
		}
		sg.Trex = append(sg.Trex, tx)
	}
	tg := make([]*trackGen, sg.NTracks+1)
	for i := range tg {
		tg[i] = newTrackGen(r)
	}
	nfr := r.Pick(1, 1, 1, 2, 2, 3, 3, 4, 5, 6)
	anyLazy, anyBetween := false, false
	for k := 0; k < nfr; k++ {
		fr := Frag{Seq: uint32(k + 1)}
		fr.Multi = sg.NTracks > 1 || r.Intn(3) == 0
		if fr.Multi {
			// a subset of the init's tracks in any order, at least one
			perm := []uint32{}
			for i := 1; i <= sg.NTracks; i++ {
				perm = append(perm, uint32(i))
			}
			for i := len(perm) - 1; i > 0; i-- {
				j := r.Intn(i + 1)
				perm[i], perm[j] = perm[j], perm[i]
			}
			fr.Tracks = perm[:r.Range(1, len(perm))]
		} else {
			fr.Tracks = []uint32{uint32(r.Range(1, sg.NTracks))}
		}
		for _, t := range tg {
			t.newFragment(r)
		}
		// data mode of the fragment
		mode := r.Pick('f', 'f', 'l', 'p')
		if fr.Multi && mode == 'p' {
			mode = 'f'
		}
		nops := r.Pick(0, 1, 2, 2, 3, 3, 4, 5, 6, 8, 12, 20, 40)
		nops = r.Range(nops/2, nops)
		layOps := r.Intn(3) == 0
		// runs: consecutive additions to one track
		cur := fr.Tracks[r.Intn(len(fr.Tracks))]
		for i := 0; i < nops; i++ {
			if r.Intn(3) == 0 {
				cur = fr.Tracks[r.Intn(len(fr.Tracks))]
			}
			op := Op{Tr: cur}
			m := mode
			if wild && r.Intn(12) == 0 {
				m = r.Pick('f', 'l', 'p')
			}
			single := !fr.Multi
			if wild && r.Intn(15) == 0 {
				single = !single
			}
			if (wild && r.Intn(25) == 0) || (!wild && fr.Multi && r.Intn(40) == 0) {
				op.Tr = uint32(r.Pick(0, 9, int(cur))) // unknown track id: must be refused with an error
			}
			switch m {
			case 'f':
				op.K = "T"
				if single && r.Bool() {
					op.K = "F"
				}
			case 'l':
				op.K = "M"
				if single {
					op.K = []string{"M", "A", "S"}[r.Intn(3)]
				}
			default:
				op.K = "I"
			}
			if !fr.Multi && (op.K == "F" || op.K == "A" || op.K == "S" || op.K == "I") {
				op.Tr = fr.Tracks[0]
			}
			g := tg[0]
			if int(op.Tr) < len(tg) {
				g = tg[op.Tr]
			}
			ns := 1
			if op.K == "S" || op.K == "I" {
				ns = r.Pick(0, 1, 2, 3, 5)
			}
			op.Dts = g.dts
			var data []byte
			for j := 0; j < ns; j++ {
				s := g.sample(r)
				d := genData(int(s.S))
				if wild && r.Intn(40) == 0 {
					s.S = sizePool[r.Intn(len(sizePool))] // size field not matching the data
					sg.Bad = true
				}
				if wild && r.Intn(60) == 0 && (op.K == "M" || op.K == "A" || op.K == "S") {
					s.S = pickU(r, 0x80000000, 0xfffffff0, 0x7ffffff0) // metadata-only sample of a huge payload
					sg.Bad = true
				}
				op.Ss = append(op.Ss, s)
				data = append(data, d...)
				g.dts += uint64(s.D)
			}
			if wild && r.Intn(30) == 0 {
				op.Dts += 3 // decode time inconsistent with the durations
			}
			op.Data = hx.Hex(data)
			if (op.K == "F" || op.K == "A") && fr.Multi && !wild {
				continue
			}
			// AddEmsg / AddChild / a plain Encode interleaved with the sample additions
			if layOps {
				switch r.Intn(8) {
				case 0:
					fr.Ops = append(fr.Ops, Op{K: "E", Tr: uint32(r.Intn(6))})
				case 1:
					if mode != 'l' {
						fr.Ops = append(fr.Ops, Op{K: "C", Tr: uint32(r.Pick(0, 1, 2, 3, 4, 4, 5)*100000 + r.Intn(6))})
					}
				case 2:
					if !wild {
						fr.Ops = append(fr.Ops, Op{K: "N"})
					}
				case 3:
					if !wild && genOptMid {
						fr.Ops = append(fr.Ops, Op{K: "O"})
					}
				}
			}
			fr.Ops = append(fr.Ops, op)
		}
		if layOps {
			for k := r.Pick(0, 0, 1, 2); k > 0; k-- {
				fr.Ops = append(fr.Ops, Op{K: "E", Tr: uint32(r.Intn(6))})
			}
		}
		if mode == 'l' {
			anyLazy = true
		}
		// extra boxes
		fr.Emsg = r.Pick(0, 0, 0, 1, 2)
		fr.Prft = r.Intn(4) == 0
		if r.Intn(4) == 0 { // boxes put in front of the moof directly: prft / emsg / free in any order
			for k := r.Range(1, 3); k > 0; k-- {
				fr.Pre0 = append(fr.Pre0, r.Pick(0, 3, 4, 4)*100000+r.Intn(6))
			}
		}
		fr.MoofX = genBoxCodes(r, 2, []int{0, 1, 2})
		for range fr.Tracks {
			fr.TrafX = append(fr.TrafX, genBoxCodes(r, 2, []int{0, 1, 2}))
		}
		if mode != 'l' {
			fr.Post = genBoxCodes(r, 2, []int{0, 1, 2, 5})
		}
		fr.Between = genBoxCodes(r, 3, []int{0, 1, 2, 3, 4, 5})
		if len(fr.Between) > 0 {
			anyBetween = true
		}
		sg.Frags = append(sg.Frags, fr)
	}
	sg.UseSeg = !anyLazy && !anyBetween && r.Bool()
	genSidx(r, sg, wild)
	return sg
}

// genSidx adds sidx boxes to a segment spec: "truthful" ones (one reference per fragment with its byte length, measured
// by running the spec once without sidx; optionally preceded by a second sidx whose FirstOffset skips the first),
// and for wild specs also sidx boxes with arbitrary offsets and references (including reference type 1).
// Without a styp box the File collects them and startSegmentIfNeeded splits the stream into segments by position.
func genSidx(r *hx.Rng, sg *Seg, wild bool) {
	switch r.Intn(6) {
	case 0:
		sr := runSeg(sg)
		if len(sr.encCls) != len(sg.Frags) || len(sr.fragPos) != len(sg.Frags) {
			return
		}
		for _, c := range sr.encCls {
			if c != 'o' {
				return
			}
		}
		end := uint64(sr.initLen + len(sr.segBytes))
		var refs [][2]uint32
		for i := range sg.Frags {
			nx := end
			if i+1 < len(sg.Frags) {
				nx = sr.fragPos[i+1]
			}
			refs = append(refs, [2]uint32{0, uint32(nx - sr.fragPos[i])})
		}
		if r.Bool() {
			sg.Sidx = []SidxSpec{{First: 0, Refs: refs}}
		} else {
			sg.Sidx = []SidxSpec{{First: uint64(32 + 12*len(refs)), Refs: [][2]uint32{{1, 77}}}, {First: 0, Refs: refs}}
		}
	case 1:
		if !wild {
			return
		}
		for k := r.Range(1, 2); k > 0; k-- {
			sp := SidxSpec{First: uint64(r.Pick(0, 0, 8, 100))}
			for j := r.Intn(4); j > 0; j-- {
				sp.Refs = append(sp.Refs, [2]uint32{uint32(r.Pick(0, 0, 0, 1)), uint32(r.Pick(0, 8, 16, 100, 124, 132, 200))})
			}
			sg.Sidx = append(sg.Sidx, sp)
		}
	}
}

// ------------------------------------------------------------------ running a whole segment

type segRun struct {
	runs     []*fragRun
	encCls   []byte
	fragPos  []uint64 // absolute start of each fragment in the decoded byte string
	fragLen  []int
	bytes    []byte // what is decoded (init + segment, or segment)
	initLen  int
	decCls   byte
	file     *mp4.File
	trexs    []*mp4.TrexBox // index = track id (0 unused)
	segBytes []byte
	fragB    [][]byte // per fragment bytes (individual encoding only)
}

func runSeg(sg *Seg) *segRun {
	sr := &segRun{}
	initB := buildInit(sg)
	var body bytes.Buffer
	if sg.Styp {
		_ = mp4.CreateStyp().Encode(&body)
	}
	for _, sp := range sg.Sidx {
		_ = mkSidx(sp).Encode(&body)
	}
	for i := range sg.Frags {
		sr.runs = append(sr.runs, buildFrag(&sg.Frags[i]))
	}
	base := 0
	if sg.Dec < 2 {
		base = len(initB)
	}
	sr.initLen = base
	for _, r := range sr.runs {
		if r.panicked() {
			return sr
		}
	}
	useSeg := sg.UseSeg
	for _, r := range sr.runs {
		if len(r.modes) > 1 || r.modes['l'] { // mixed or lazy data modes: Size() is not the number of bytes written
			useSeg = false
		}
	}
	if useSeg {
		var ms *mp4.MediaSegment
		if sg.Styp {
			ms = mp4.NewMediaSegment()
		} else {
			ms = mp4.NewMediaSegmentWithoutStyp()
		}
		pos := uint64(base + body.Len())
		for _, sp := range sg.Sidx {
			ms.AddSidx(mkSidx(sp))
		}
		for _, r := range sr.runs {
			ms.AddFragment(r.f)
			sr.fragPos = append(sr.fragPos, pos)
		}
		if sg.Opt {
			ms.EncOptimize = mp4.OptimizeTrun
		}
		var b []byte
		var err error
		p := hx.Try(func() {
			if sg.SW {
				w := bits.NewFixedSliceWriter(int(ms.Size()) + 64)
				err = ms.EncodeSW(w)
				b = append([]byte{}, w.Bytes()...)
			} else {
				var buf bytes.Buffer
				err = ms.Encode(&buf)
				b = buf.Bytes()
			}
		})
		c := cls(p, err)
		for range sr.runs {
			sr.encCls = append(sr.encCls, c)
		}
		if c != 'o' {
			return sr
		}
		// positions of the fragments: sizes after encoding
		pos = uint64(base + body.Len())
		for i, r := range sr.runs {
			sr.fragPos[i] = pos
			sr.fragLen = append(sr.fragLen, int(r.f.Size()))
			pos += r.f.Size()
		}
		body.Reset()
		body.Write(b)
	} else {
		for i, r := range sr.runs {
			sr.fragPos = append(sr.fragPos, uint64(base+body.Len()))
			b, c := encodeFrag(r.f, sg.Opt, sg.SW)
			sr.encCls = append(sr.encCls, c)
			if c != 'o' {
				return sr
			}
			sr.fragLen = append(sr.fragLen, len(b))
			sr.fragB = append(sr.fragB, b)
			body.Write(b)
			body.Write(r.lazy)
			body.Write(encodeBoxes(sg.Frags[i].Between))
		}
	}
	sr.segBytes = body.Bytes()
	if sg.Dec < 2 {
		sr.bytes = append(append([]byte{}, initB...), sr.segBytes...)
	} else {
		sr.bytes = sr.segBytes
	}
	if sg.NoDec {
		return sr
	}
	sr.file, sr.decCls = decodeAll(sr.bytes, sg.Dec%2 == 1)
	// trex boxes as the decode side sees them (through the encoded init)
	fi, c := decodeAll(initB, false)
	sr.trexs = make([]*mp4.TrexBox, sg.NTracks+1)
	if c == 'o' && fi.Init != nil {
		for _, tx := range fi.Init.Moov.Mvex.Trexs {
			if int(tx.TrackID) <= sg.NTracks {
				sr.trexs[tx.TrackID] = tx
			}
		}
	}
	return sr
}

func (sr *segRun) decodedFrags() []*mp4.Fragment {
	var fs []*mp4.Fragment
	if sr.file == nil {
		return nil
	}
	for _, s := range sr.file.Segments {
		fs = append(fs, s.Fragments...)
	}
	return fs
}

func getFull(f *mp4.Fragment, trex *mp4.TrexBox) (ss []mp4.FullSample, class byte) {
	var err error
	p := hx.Try(func() { ss, err = f.GetFullSamples(trex) })
	return ss, cls(p, err)
}

// ------------------------------------------------------------------ search: the property itself

type failure struct{ site, class, desc string }

func sameFull(a, b mp4.FullSample) string {
	switch {
	case a.Flags != b.Flags:
		return "flags"
	case a.Dur != b.Dur:
		return "duration"
	case a.Size != b.Size:
		return "size"
	case a.CompositionTimeOffset != b.CompositionTimeOffset:
		return "cto"
	case a.DecodeTime != b.DecodeTime:
		return "decode-time"
	case !bytes.Equal(a.Data, b.Data):
		return "data"
	}
	return ""
}

// checkOffsets: naive oracle for SetTrunDataOffsets on the encoded bytes b of one fragment: every trun's data offset
// (relative to the moof start) is moof size + length of the mdat header actually written + sizes of the runs written before it.
func checkOffsets(r *fragRun, b []byte) *failure {
	pre := int(r.pre)
	if len(b) < pre+8 {
		return &failure{"Fragment.Encode", "short-output", "fewer bytes than the boxes before moof"}
	}
	moofSize := uint64(binary.BigEndian.Uint32(b[pre : pre+4]))
	mp := pre + int(moofSize)
	if len(b) < mp+8 || string(b[mp+4:mp+8]) != "mdat" {
		return &failure{"Fragment.Encode", "layout", "no mdat right after moof"}
	}
	hdr := uint64(8)
	if binary.BigEndian.Uint32(b[mp:mp+4]) == 1 {
		hdr = 16
	}
	var truns []*mp4.TrunBox
	for _, t := range r.f.Moof.Trafs {
		truns = append(truns, t.Truns...)
	}
	sort.SliceStable(truns, func(i, j int) bool { return mp4.VerifC05WriteOrderNr(truns[i]) < mp4.VerifC05WriteOrderNr(truns[j]) })
	acc := moofSize + hdr
	for k, tr := range truns {
		if int64(tr.DataOffset) != int64(acc) {
			class := "data-offset"
			if acc >= 1<<31 {
				class = "data-offset-int32"
			}
			return &failure{"Fragment.SetTrunDataOffsets", class, fmt.Sprintf("run %d in write order: data offset %d, its data starts %d bytes after the moof start", k, tr.DataOffset, acc)}
		}
		for _, s := range tr.Samples {
			acc += uint64(s.Size)
		}
	}
	return nil
}

// checkSeg evaluates the property on one segment spec (nil = holds or the library refused with an error
// for an empty fragment under optimisation).
func checkSeg(sg *Seg) *failure {
	sr := runSeg(sg)
	for i, r := range sr.runs {
		for j, c := range r.classes {
			if c == 'p' {
				return &failure{"Fragment." + opName(r.all[j].K), "panic", fmt.Sprintf("panic in op %d (%s) of fragment %d (counting the spec's Emsg and Post calls)", j, r.all[j].K, i)}
			}
			op := &r.all[j]
			known := op.K != "T" && op.K != "M"
			for _, t := range sg.Frags[i].Tracks {
				if t == op.Tr {
					known = true
				}
			}
			if c == 'e' && known {
				return &failure{"Fragment." + opName(op.K), "error", fmt.Sprintf("error in op %d of fragment %d", j, i)}
			}
			if c == 'o' && !known {
				return &failure{"Fragment.AddSampleToTrack", "wrong-track", fmt.Sprintf("op %d of fragment %d adds to track id %d which the fragment does not have: no error", j, i, op.Tr)}
			}
		}
	}
	for i, c := range sr.encCls {
		if c == 'p' {
			return &failure{"Fragment.Encode", "panic", fmt.Sprintf("panic when encoding fragment %d", i)}
		}
		if c == 'e' {
			// accepted refusal: optimisation of a first traf whose trun is empty
			// (through MediaSegment the refusal of one fragment ends the whole encode)
			for k, rr := range sr.runs {
				fr := rr.f
				if sg.Opt && (k == i || sg.UseSeg) && fr.Moof.Traf.Trun != nil && len(fr.Moof.Traf.Trun.Samples) == 0 {
					return nil
				}
			}
			return &failure{"Fragment.Encode", "error", fmt.Sprintf("error when encoding fragment %d", i)}
		}
	}
	for i, b := range sr.fragB {
		if f := checkOffsets(sr.runs[i], b); f != nil {
			return f
		}
	}
	if sg.NoDec {
		return nil
	}
	if sr.decCls != 'o' {
		return &failure{"DecodeFile", map[byte]string{'p': "panic", 'e': "error"}[sr.decCls], "decoding the encoded segment fails"}
	}
	dfs := sr.decodedFrags()
	if len(dfs) != len(sg.Frags) {
		return &failure{"DecodeFile", "fragment-count", fmt.Sprintf("%d fragments written, %d decoded", len(sg.Frags), len(dfs))}
	}
	// DecodeFile regroups the stream into the fragments that were written: every moof is found at the position where
	// the harness wrote it (the position its data offsets are relative to), every mdat right behind it
	for i, df := range dfs {
		want := sr.fragPos[i] + sr.runs[i].pre
		if df.Moof == nil || df.Mdat == nil {
			return &failure{"DecodeFile", "fragment-incomplete", fmt.Sprintf("decoded fragment %d has no moof or no mdat", i)}
		}
		if df.Moof.StartPos != want {
			return &failure{"DecodeFile", "moof-position", fmt.Sprintf("fragment %d: moof written at %d, Moof.StartPos %d", i, want, df.Moof.StartPos)}
		}
		if got := df.Mdat.PayloadAbsoluteOffset(); got != want+df.Moof.Size()+df.Mdat.HeaderSize() {
			return &failure{"DecodeFile", "mdat-position", fmt.Sprintf("fragment %d: mdat payload at %d, moof at %d with size %d", i, got, want, df.Moof.Size())}
		}
	}
	// the other encoder writes the same bytes, the other decoder recovers the same fragments (every 4th spec)
	if !sg.noCross && len(sr.segBytes)%4 == 0 {
		c := cloneSeg(sg)
		c.SW = !sg.SW
		c.noCross = true
		sr2 := runSeg(c)
		if !bytes.Equal(sr2.segBytes, sr.segBytes) {
			return &failure{"MediaSegment.Encode", "encoder-difference", fmt.Sprintf("Encode and EncodeSW write different bytes (%d vs %d)", len(sr.segBytes), len(sr2.segBytes))}
		}
		f2, c2 := decodeAll(sr.bytes, sg.Dec%2 == 0)
		if c2 != 'o' {
			return &failure{"DecodeFile", "decoder-difference", "the other decoder fails on the same bytes"}
		}
		var dfs2 []*mp4.Fragment
		for _, s := range f2.Segments {
			dfs2 = append(dfs2, s.Fragments...)
		}
		if len(dfs2) != len(dfs) {
			return &failure{"DecodeFile", "decoder-difference", fmt.Sprintf("%d vs %d fragments", len(dfs), len(dfs2))}
		}
		for i := range dfs {
			g1, c1 := getFull(dfs[i], nil)
			g2, c2 := getFull(dfs2[i], nil)
			if c1 != c2 || hfl(g1) != hfl(g2) || dfs2[i].Moof.StartPos != dfs[i].Moof.StartPos {
				return &failure{"DecodeFile", "decoder-difference", fmt.Sprintf("fragment %d differs between DecodeFile and DecodeFileSR", i)}
			}
		}
	}
	for t := 1; t <= sg.NTracks; t++ {
		var want, got []mp4.FullSample
		for i, df := range dfs {
			want = append(want, sr.runs[i].expect[uint32(t)]...)
			g, c := getFull(df, sr.trexs[t])
			if c != 'o' {
				return &failure{"Fragment.GetFullSamples", map[byte]string{'p': "panic", 'e': "error"}[c], fmt.Sprintf("track %d fragment %d", t, i)}
			}
			got = append(got, g...)
		}
		if len(want) != len(got) {
			return &failure{"roundtrip", "sample-count", fmt.Sprintf("track %d: %d samples added, %d read back", t, len(want), len(got))}
		}
		for k := range want {
			if d := sameFull(want[k], got[k]); d != "" {
				return &failure{"roundtrip", d, fmt.Sprintf("track %d sample %d: added %s read back %s", t, k, hfl(want[k:k+1]), hfl(got[k:k+1]))}
			}
		}
	}
	// trex == nil selects the first traf
	for i, df := range dfs {
		first := sr.runs[i].f.Moof.Trafs[0].Tfhd.TrackID
		g, c := getFull(df, nil)
		if c != 'o' {
			return &failure{"Fragment.GetFullSamples", map[byte]string{'p': "panic", 'e': "error"}[c], fmt.Sprintf("nil trex fragment %d", i)}
		}
		want := sr.runs[i].expect[first]
		if len(want) != len(g) {
			return &failure{"roundtrip", "sample-count", fmt.Sprintf("nil trex: %d samples added, %d read back", len(want), len(g))}
		}
		for k := range want {
			// with no trex the defaults are only those of tfhd: compare what cannot depend on trex
			if d := sameFull(want[k], g[k]); d != "" {
				return &failure{"roundtrip", d + "-niltrex", fmt.Sprintf("fragment %d sample %d: added %s read back %s", i, k, hfl(want[k:k+1]), hfl(g[k:k+1]))}
			}
		}
	}
	// the other read path: Fragment.GetSampleInterval over all samples of a one-track one-trun fragment returns the same
	// samples, first decode time and bytes (its data offsets are relative to the moof start as well)
	for i, df := range dfs {
		if len(df.Moof.Trafs) != 1 || len(df.Moof.Traf.Truns) != 1 {
			continue
		}
		track := df.Moof.Traf.Tfhd.TrackID
		want := sr.runs[i].expect[track]
		if len(want) == 0 || int(track) >= len(sr.trexs) || sr.trexs[track] == nil {
			continue
		}
		var si mp4.SampleInterval
		var err error
		p := hx.Try(func() { si, err = df.GetSampleInterval(sr.trexs[track], 1, uint32(len(want))) })
		if c := cls(p, err); c != 'o' {
			return &failure{"Fragment.GetSampleInterval", map[byte]string{'p': "panic", 'e': "error"}[c], fmt.Sprintf("fragment %d samples 1..%d", i, len(want))}
		}
		var data []byte
		for _, w := range want {
			data = append(data, w.Data...)
		}
		if len(si.Samples) != len(want) || si.FirstDecodeTime != want[0].DecodeTime || !bytes.Equal(si.Data, data) {
			return &failure{"Fragment.GetSampleInterval", "interval", fmt.Sprintf("fragment %d: interval 1..%d has %d samples, first decode time %d (added %d), data %s (added %s)",
				i, len(want), len(si.Samples), si.FirstDecodeTime, want[0].DecodeTime, hx.Hex(si.Data), hx.Hex(data))}
		}
		for k := range want {
			if si.Samples[k] != want[k].Sample {
				return &failure{"Fragment.GetSampleInterval", "interval-sample", fmt.Sprintf("fragment %d sample %d: added %s, interval has %s", i, k, hs(want[k].Sample), hs(si.Samples[k]))}
			}
		}
	}
	return nil
}

func opName(k string) string {
	return map[string]string{"F": "AddFullSample", "T": "AddFullSampleToTrack", "M": "AddSampleToTrack", "A": "AddSample", "S": "AddSamples", "I": "AddSampleInterval", "E": "AddEmsg", "C": "AddChild", "N": "Encode", "O": "Encode(OptimizeTrun)"}[k]
}

func cloneSeg(sg *Seg) *Seg {
	b, _ := json.Marshal(sg)
	var c Seg
	_ = json.Unmarshal(b, &c)
	return &c
}

// shrink: greedy removal of fragments, ops and extra boxes while the same (site, class) still fails
func shrink(sg *Seg, f *failure) *Seg {
	same := func(c *Seg) bool {
		g := checkSeg(c)
		return g != nil && g.site == f.site && g.class == f.class
	}
	cur := sg
	for changed := true; changed; {
		changed = false
		if len(cur.Sidx) > 0 {
			c := cloneSeg(cur)
			c.Sidx = nil
			if same(c) {
				cur, changed = c, true
			}
		}
		for i := 0; i < len(cur.Frags) && len(cur.Frags) > 1; i++ {
			c := cloneSeg(cur)
			c.Frags = append(c.Frags[:i], c.Frags[i+1:]...)
			if same(c) {
				cur, changed = c, true
				i--
			}
		}
		for i := range cur.Frags {
			for j := 0; j < len(cur.Frags[i].Ops); j++ {
				c := cloneSeg(cur)
				c.Frags[i].Ops = append(c.Frags[i].Ops[:j], c.Frags[i].Ops[j+1:]...)
				if same(c) {
					cur, changed = c, true
					j--
				}
			}
			c := cloneSeg(cur)
			fr := &c.Frags[i]
			if fr.Emsg > 0 || fr.Prft || len(fr.Pre0)+len(fr.MoofX)+len(fr.Post)+len(fr.Between) > 0 {
				fr.Emsg, fr.Prft, fr.Pre0, fr.MoofX, fr.Post, fr.Between = 0, false, nil, nil, nil, nil
				for k := range fr.TrafX {
					fr.TrafX[k] = nil
				}
				if same(c) {
					cur, changed = c, true
				}
			}
		}
	}
	return cur
}

// probeReencode: a fragment whose traf has two truns (the second relying on the tfhd default duration) is
// encoded, decoded, re-encoded with OptimizeTrun and decoded again; the samples must be unchanged.
func probeReencode() *failure {
	f, _ := mp4.CreateFragment(1, 1)
	traf := f.Moof.Traf
	traf.Tfhd.Flags |= 0x8
	traf.Tfhd.DefaultSampleDuration = 10
	for i := 0; i < 2; i++ {
		f.AddFullSample(mp4.FullSample{Sample: mp4.Sample{Flags: 0x1010000, Dur: 20, Size: 1}, DecodeTime: uint64(20 * i), Data: []byte{byte(i)}})
	}
	tr2 := mp4.CreateTrun(1)
	tr2.Flags = 0xe01 // no per-sample duration: the tfhd default applies
	tr2.AddSamples([]mp4.Sample{{Flags: 0x1010000, Size: 1}, {Flags: 0x1010000, Size: 1}})
	_ = traf.AddChild(tr2)
	f.Mdat.AddSampleData([]byte{7, 8})
	b0, c := encodeFrag(f, false, false)
	if c != 'o' {
		return &failure{"probe", "setup", "cannot encode the two-trun fragment"}
	}
	f1, c1 := decodeAll(b0, false)
	f2, c2 := decodeAll(b0, false)
	if c1 != 'o' || c2 != 'o' {
		return &failure{"probe", "setup", "cannot decode the two-trun fragment"}
	}
	want, cw := getFull(f1.Segments[0].Fragments[0], nil)
	b1, c := encodeFrag(f2.Segments[0].Fragments[0], true, false)
	if cw != 'o' || c != 'o' {
		return &failure{"probe", "setup", "cannot re-encode"}
	}
	f3, c3 := decodeAll(b1, false)
	if c3 != 'o' {
		return &failure{"TrafBox.OptimizeTfhdTrun", "reencode-decoded-multi-trun", "re-encoded fragment does not decode"}
	}
	got, cg := getFull(f3.Segments[0].Fragments[0], nil)
	if cg != 'o' || len(got) != len(want) {
		return &failure{"TrafBox.OptimizeTfhdTrun", "reencode-decoded-multi-trun",
			fmt.Sprintf("after re-encoding the decoded fragment with OptimizeTrun GetFullSamples gives class %c, %d of %d samples (moof shrank, data offsets kept; tfhd default duration %d)",
				cg, len(got), len(want), f3.Segments[0].Fragments[0].Moof.Traf.Tfhd.DefaultSampleDuration)}
	}
	for k := range want {
		if d := sameFull(want[k], got[k]); d != "" {
			return &failure{"TrafBox.OptimizeTfhdTrun", "reencode-decoded-multi-trun", "sample " + strconv.Itoa(k) + " differs in " + d}
		}
	}
	return nil
}

// genExh enumerates every history of 0..L AddFullSampleToTrack calls on CreateMultiTrackFragment(1,[1,2]) with 2-valued
// track/flags/duration/cto (size 1), with and without optimisation: all patterns of "which values are equal".
func genExh(L int, emit func(sg *Seg)) {
	flags := []uint32{0x1010000, 0x2000000}
	durs := []uint32{10, 20}
	ctos := []int32{0, 5}
	var rec func(ops []Op, dts [3]uint64)
	count := 0
	rec = func(ops []Op, dts [3]uint64) {
		for _, opt := range []bool{false, true} {
			sg := &Seg{NTracks: 2, Trex: [][3]uint32{{7, 9, 0x10000}, {20, 1, 0x2000000}}, Styp: count%2 == 0, Opt: opt, SW: count%3 == 0, Dec: count % 4}
			fr := Frag{Seq: 1, Multi: true, Tracks: []uint32{1, 2}, TrafX: [][]int{nil, nil}}
			fr.Ops = append([]Op{}, ops...)
			sg.Frags = []Frag{fr}
			count++
			emit(sg)
		}
		if len(ops) == L {
			return
		}
		for tr := uint32(1); tr <= 2; tr++ {
			for _, f := range flags {
				for _, d := range durs {
					for _, c := range ctos {
						op := Op{K: "T", Tr: tr, Ss: []Smp{{F: f, D: d, S: 1, C: c}}, Dts: dts[tr], Data: hx.Hex([]byte{byte(len(ops) + 1)})}
						nd := dts
						nd[tr] += uint64(d)
						rec(append(ops, op), nd)
					}
				}
			}
		}
	}
	rec(nil, [3]uint64{0, 1000, 5000})
}

// probeStaleFsf: first-sample-flags set by hand on a trun that also has per-sample flags must not survive optimisation
// (fixed defect C05-F1)
func probeStaleFsf() *failure {
	f, _ := mp4.CreateFragment(1, 1)
	var want []mp4.FullSample
	for i := 0; i < 3; i++ {
		fs := mp4.FullSample{Sample: mp4.Sample{Flags: 0x1010000, Dur: 10, Size: 2}, DecodeTime: uint64(10 * i), Data: []byte{byte(i), 9}}
		f.AddFullSample(fs)
		want = append(want, fs)
	}
	f.Moof.Traf.Trun.SetFirstSampleFlags(0x2000000)
	b, c := encodeFrag(f, true, false)
	if c != 'o' {
		return &failure{"Fragment.Encode", "error", "cannot encode"}
	}
	fl, c := decodeAll(b, false)
	if c != 'o' {
		return &failure{"DecodeFile", "error", "cannot decode"}
	}
	got, cg := getFull(fl.Segments[0].Fragments[0], nil)
	if cg != 'o' || len(got) != len(want) {
		return &failure{"roundtrip", "sample-count", "stale first-sample-flags probe"}
	}
	for k := range want {
		if d := sameFull(want[k], got[k]); d != "" {
			return &failure{"TrafBox.OptimizeTfhdTrun", d, fmt.Sprintf("SetFirstSampleFlags(0x2000000) on a trun with equal per-sample flags 0x1010000, then OptimizeTrun: sample %d read back with %s changed", k, d)}
		}
	}
	return nil
}

// probeBigUniform: more than 1024 samples of equal duration, size and flags and zero composition offsets, with trun
// optimisation: the round trip must hold (finding C05-F7: DecodeTrun refuses the optimised trun)
func probeBigUniform() *failure {
	f, _ := mp4.CreateFragment(1, 1)
	for i := 0; i < 1025; i++ {
		f.AddFullSample(mp4.FullSample{Sample: mp4.Sample{Flags: 0x1010000, Dur: 10, Size: 1}, DecodeTime: uint64(10 * i), Data: []byte{byte(i)}})
	}
	b, c := encodeFrag(f, true, false)
	if c != 'o' {
		return &failure{"Fragment.Encode", "error", "1025 equal samples do not encode"}
	}
	df, dc := decodeAll(b, false)
	if dc != 'o' {
		return &failure{"TrafBox.OptimizeTfhdTrun", "optimized-trun-undecodable", "CreateFragment(1,1); 1025 x AddFullSample(flags 0x1010000, dur 10, size 1, cto 0); OptimizeTrun; Encode -> trun flags 0x1 (no per-sample field); DecodeFile fails: trun: sampleCount 1025 is big but no sample data present"}
	}
	g, gc := getFull(df.Segments[0].Fragments[0], nil)
	if gc != 'o' || len(g) != 1025 {
		return &failure{"roundtrip", "sample-count", "1025 equal samples are not read back"}
	}
	return nil
}

// oneSampleFragment: CreateFragment(seq,1) with one 1-byte full sample
func oneSampleFragment(seq uint32, b byte) *mp4.Fragment {
	f, _ := mp4.CreateFragment(seq, 1)
	f.AddFullSample(mp4.FullSample{Sample: mp4.Sample{Flags: 0x1010000, Dur: 10, Size: 1}, DecodeTime: uint64(seq) * 10, Data: []byte{b}})
	return f
}

// probeEmsg: AddEmsg on fragments whose children are not "emsg* moof mdat" (finding C05-F9): an emsg appended behind the mdat
// with AddChild, a fragment decoded from a stream with an emsg behind its mdat, a fragment without children, a decoded
// fragment made of an emsg only. AddEmsg must not panic, must put the box in front of the moof, and the fragments must
// still round-trip.
func probeEmsg() *failure {
	em := func(id uint32) *mp4.EmsgBox {
		return &mp4.EmsgBox{ID: id, TimeScale: 1000, SchemeIDURI: "urn:x", Value: "v"}
	}
	type scen struct {
		name string
		mk   func() *mp4.Fragment
	}
	decoded := func(tokens string, pick int) func() *mp4.Fragment {
		return func() *mp4.Fragment {
			var buf bytes.Buffer
			seq := uint32(1)
			for _, t := range tokens {
				switch t {
				case 'e':
					_ = em(100 + seq).Encode(&buf)
				case 'F':
					_ = oneSampleFragment(seq, byte(seq)).Encode(&buf)
					seq++
				}
			}
			fl, c := decodeAll(buf.Bytes(), false)
			if c != 'o' {
				return nil
			}
			var fs []*mp4.Fragment
			for _, sgm := range fl.Segments {
				fs = append(fs, sgm.Fragments...)
			}
			if pick >= len(fs) {
				return nil
			}
			return fs[pick]
		}
	}
	scens := []scen{
		{"CreateFragment(1,1); AddFullSample; AddChild(emsg)", func() *mp4.Fragment { f := oneSampleFragment(1, 1); f.AddChild(em(1)); return f }},
		{"NewFragment()", func() *mp4.Fragment { return mp4.NewFragment() }},
		{"first fragment of DecodeFile(moof mdat emsg moof mdat)", decoded("FeF", 0)},
		{"first fragment of DecodeFile(emsg moof mdat emsg emsg moof mdat)", decoded("eFeeF", 0)},
		{"the fragment of DecodeFile(emsg)", decoded("e", 0)},
	}
	for _, sc := range scens {
		f := sc.mk()
		if f == nil {
			return &failure{"Fragment.AddEmsg", "setup", sc.name + ": cannot be built"}
		}
		for k := 1; k <= 3; k++ {
			if p := hx.Try(func() { f.AddEmsg(em(uint32(k))) }); p != "" {
				return &failure{"Fragment.AddEmsg", "panic", fmt.Sprintf("%s; AddEmsg x %d -> panic: %s", sc.name, k, p)}
			}
			// the new box lies in front of the moof, behind the emsg boxes that were there
			if f.Moof != nil {
				seen := false
				for _, c := range f.Children {
					if c.Type() == "moof" {
						break
					}
					if e, ok := c.(*mp4.EmsgBox); ok && e.ID == uint32(k) {
						seen = true
					}
				}
				if !seen {
					return &failure{"Fragment.AddEmsg", "behind-moof", fmt.Sprintf("%s; AddEmsg x %d: the emsg is not in front of the moof (children %s)", sc.name, k, layoutOf(f))}
				}
			}
		}
		if f.Moof == nil || f.Mdat == nil {
			continue
		}
		want, wc := getFull(f, nil)
		b, c := encodeFrag(f, true, false)
		if c != 'o' {
			return &failure{"Fragment.Encode", "error", sc.name + "; AddEmsg x 3; Encode fails"}
		}
		df, dc := decodeAll(b, false)
		if dc != 'o' || len(df.Segments) == 0 || len(df.Segments[0].Fragments) == 0 {
			return &failure{"DecodeFile", "error", sc.name + "; AddEmsg x 3; Encode; DecodeFile fails"}
		}
		got, gc := getFull(df.Segments[0].Fragments[0], nil)
		if wc != 'o' || gc != 'o' || len(got) != len(want) {
			return &failure{"roundtrip", "sample-count", sc.name + "; AddEmsg x 3; Encode; DecodeFile: samples differ"}
		}
		for i := range want {
			if d := sameFull(want[i], got[i]); d != "" {
				return &failure{"roundtrip", d, sc.name + "; AddEmsg x 3; Encode; DecodeFile: sample " + strconv.Itoa(i) + " differs"}
			}
		}
	}
	return nil
}

// probeEncodeTwice: an optimised Encode in the middle of a history rewrites the trun flags in place; samples added afterwards
// must still read back with their own values (finding C05-F10; outside the property's quantifier: one encode at the end)
func probeEncodeTwice() *failure {
	f, _ := mp4.CreateFragment(1, 1)
	add := func(dur uint32, dts uint64, b byte) mp4.FullSample {
		s := mp4.FullSample{Sample: mp4.Sample{Flags: 0x1010000, Dur: dur, Size: 1}, DecodeTime: dts, Data: []byte{b}}
		f.AddFullSample(s)
		return s
	}
	want := []mp4.FullSample{add(10, 0, 1), add(10, 10, 2)}
	if _, c := encodeFrag(f, true, false); c != 'o' {
		return &failure{"Fragment.Encode", "error", "two equal samples do not encode"}
	}
	want = append(want, add(20, 20, 3))
	b, c := encodeFrag(f, true, false)
	if c != 'o' {
		return &failure{"Fragment.Encode", "error", "second Encode fails"}
	}
	df, dc := decodeAll(b, false)
	if dc != 'o' {
		return &failure{"DecodeFile", "error", "the fragment encoded twice does not decode"}
	}
	got, gc := getFull(df.Segments[0].Fragments[0], nil)
	if gc != 'o' || len(got) != len(want) {
		return &failure{"roundtrip", "sample-count", "the fragment encoded twice reads back another number of samples"}
	}
	for i := range want {
		if d := sameFull(want[i], got[i]); d != "" {
			return &failure{"Fragment.Encode", "additions-after-optimised-encode", fmt.Sprintf("CreateFragment(1,1); AddFullSample(dur 10) x 2; OptimizeTrun; Encode; AddFullSample(dur 20); Encode; DecodeFile -> sample %d differs in %s (duration read back %d)", i, d, got[i].Dur)}
		}
	}
	return nil
}

// probeBareAfterOpt: the witness of C05_encodes_opt_bare_refuted on the real code (same class as finding C05-F10: additions
// after an Encode with OptimizeTrun): 2 equal samples, Encode with OptimizeTrun (the trun keeps no per-sample field),
// 1023 more equal samples, Encode: every value is the tfhd default, but the trun now has 1025 samples and no per-sample
// field, which DecodeTrun refuses.  A plain history of 1025 equal samples (ONE Encode) must round-trip (fix 6c7a902).
func probeBareAfterOpt() *failure {
	f, _ := mp4.CreateFragment(1, 1)
	var want []mp4.FullSample
	add := func(n int) {
		for i := 0; i < n; i++ {
			s := mp4.FullSample{Sample: mp4.Sample{Flags: 0x1010000, Dur: 10, Size: 1}, DecodeTime: uint64(10 * len(want)), Data: []byte{byte(len(want))}}
			f.AddFullSample(s)
			want = append(want, s)
		}
	}
	add(2)
	if _, c := encodeFrag(f, true, false); c != 'o' {
		return &failure{"Fragment.Encode", "error", "two equal samples do not encode"}
	}
	add(1023)
	b, c := encodeFrag(f, true, false)
	if c != 'o' {
		return &failure{"Fragment.Encode", "error", "second Encode fails"}
	}
	df, dc := decodeAll(b, false)
	if dc != 'o' {
		return &failure{"Fragment.Encode", "additions-after-optimised-encode", fmt.Sprintf("CreateFragment(1,1); AddFullSample x 2 (equal); OptimizeTrun; Encode; AddFullSample x 1023 (equal); Encode writes a trun with flags %#x and %d samples: DecodeFile refuses it (sampleCount is big but no sample data present)", f.Moof.Traf.Trun.Flags, f.Moof.Traf.Trun.SampleCount())}
	}
	got, gc := getFull(df.Segments[0].Fragments[0], nil)
	if gc != 'o' || len(got) != len(want) {
		return &failure{"roundtrip", "sample-count", "the fragment encoded twice reads back another number of samples"}
	}
	for i := range want {
		if d := sameFull(want[i], got[i]); d != "" {
			return &failure{"roundtrip", d, fmt.Sprintf("sample %d differs after two optimised Encodes of equal samples", i)}
		}
	}
	return nil
}

// probeMixed: metadata-only and full samples mixed in one fragment (finding C05-F8): the mdat header announces the lazy
// size only while the full samples' data is written before the caller's data
func probeMixed() *failure {
	f, _ := mp4.CreateFragment(1, 1)
	f.AddSample(mp4.Sample{Flags: 0x1010000, Dur: 10, Size: 2}, 0)
	f.AddFullSample(mp4.FullSample{Sample: mp4.Sample{Flags: 0x1010000, Dur: 10, Size: 3}, DecodeTime: 10, Data: []byte{7, 8, 9}})
	b, c := encodeFrag(f, false, false)
	if c != 'o' {
		return &failure{"Fragment.Encode", "error", "mixed fragment does not encode"}
	}
	b = append(b, 1, 2) // the caller writes the data of the metadata-only sample
	desc := "CreateFragment(1,1); AddSample(size 2) (data 0102 written by the caller after Encode); AddFullSample(size 3, data 070809); Encode writes an mdat header announcing 2 payload bytes followed by 070809; "
	df, dc := decodeAll(b, false)
	if dc != 'o' {
		return &failure{"Fragment.AddFullSample", "mixed-data-modes", desc + "DecodeFile fails on the bytes that follow the announced payload"}
	}
	g, gc := getFull(df.Segments[0].Fragments[0], nil)
	if gc != 'o' || len(g) != 2 || !bytes.Equal(g[0].Data, []byte{1, 2}) || !bytes.Equal(g[1].Data, []byte{7, 8, 9}) {
		return &failure{"Fragment.AddFullSample", "mixed-data-modes", desc + fmt.Sprintf("GetFullSamples class %c, samples %s", gc, hfl(g))}
	}
	return nil
}

func cmdSearch(seed uint64, n int, exh int) {
	r := hx.NewRng(mixSeed(seed, 0x5ea7c4))
	evals := 0
	seen := map[string]bool{}
	report := func(sg *Seg, f *failure) {
		key := f.site + "/" + f.class
		if seen[key] {
			return
		}
		seen[key] = true
		small := shrink(sg, f)
		f2 := checkSeg(small)
		if f2 == nil {
			f2, small = f, sg
		}
		w, _ := json.Marshal(small)
		fmt.Fprintf(out, "FAIL\t%s\t%s\t%s\t%s\n", f2.site, f2.class, string(w), f2.desc)
	}
	evals++
	if f := probeStaleFsf(); f != nil {
		fmt.Fprintf(out, "FAIL\t%s\t%s\t%s\t%s\n", f.site, f.class, "probe:stalefsf (harness/c05/main.go probeStaleFsf)", f.desc)
	}
	evals++
	if f := probeReencode(); f != nil {
		fmt.Fprintf(out, "FAIL\t%s\t%s\t%s\t%s\n", f.site, f.class, "probe:reencode (harness/c05/main.go probeReencode)", f.desc)
	}
	evals++
	if f := probeBigUniform(); f != nil {
		fmt.Fprintf(out, "FAIL\t%s\t%s\t%s\t%s\n", f.site, f.class, "probe:biguniform (harness/c05/main.go probeBigUniform)", f.desc)
	}
	evals++
	if f := probeMixed(); f != nil {
		fmt.Fprintf(out, "FAIL\t%s\t%s\t%s\t%s\n", f.site, f.class, "probe:mixed (harness/c05/main.go probeMixed)", f.desc)
	}
	evals++
	if f := probeEncodeTwice(); f != nil {
		fmt.Fprintf(out, "FAIL\t%s\t%s\t%s\t%s\n", f.site, f.class, "probe:encodetwice (harness/c05/main.go probeEncodeTwice)", f.desc)
	}
	evals++
	if f := probeEmsg(); f != nil {
		fmt.Fprintf(out, "FAIL\t%s\t%s\t%s\t%s\n", f.site, f.class, "probe:emsg (harness/c05/main.go probeEmsg)", f.desc)
	}
	evals++
	if f := probeBareAfterOpt(); f != nil {
		fmt.Fprintf(out, "FAIL\t%s\t%s\t%s\t%s\n", f.site, f.class, "probe:bareafteropt (harness/c05/main.go probeBareAfterOpt)", f.desc)
	}
	// probes with metadata-only samples of huge payloads: only the data-offset oracle can be evaluated
	big := []uint32{0xfffffff0, 0x80000000, 0x7ffffff0, 0x40000000}
	for i := 0; i < n/20+8; i++ {
		sg := &Seg{NTracks: 2, Trex: [][3]uint32{{}, {}}, NoDec: true, Opt: r.Bool(), SW: r.Bool()}
		fr := Frag{Seq: 1, Multi: i%2 == 1, Tracks: []uint32{1}}
		if fr.Multi {
			fr.Tracks = []uint32{1, 2}
		}
		fr.TrafX = make([][]int, len(fr.Tracks))
		nops := r.Range(1, 5)
		for k := 0; k < nops; k++ {
			s := Smp{F: 0, D: 10, S: 0}
			if k == i%nops || r.Intn(3) == 0 {
				s.S = big[r.Intn(len(big))]
			}
			op := Op{K: "M", Tr: fr.Tracks[r.Intn(len(fr.Tracks))], Ss: []Smp{s}, Dts: uint64(10 * k), Data: "-"}
			if !fr.Multi && r.Bool() {
				op.K = "A"
			}
			fr.Ops = append(fr.Ops, op)
		}
		sg.Frags = []Frag{fr}
		evals++
		if f := checkSeg(sg); f != nil {
			report(sg, f)
		}
	}
	genExh(exh, func(sg *Seg) {
		evals++
		if f := checkSeg(sg); f != nil {
			report(sg, f)
		}
	})
	for i := 0; i < n; i++ {
		sg := genSeg(r, false)
		evals++
		if f := checkSeg(sg); f != nil {
			report(sg, f)
		}
	}
	fmt.Fprintf(out, "EVALS\t%d\n", evals)
}

func cmdReplay(w string) {
	if strings.HasPrefix(w, "probe:stalefsf") {
		if f := probeStaleFsf(); f != nil {
			fmt.Fprintf(out, "FAIL\t%s\t%s\t%s\t%s\n", f.site, f.class, w, f.desc)
		} else {
			fmt.Fprintln(out, "HOLDS")
		}
		return
	}
	if strings.HasPrefix(w, "probe:biguniform") || strings.HasPrefix(w, "probe:mixed") {
		f := probeBigUniform()
		if strings.HasPrefix(w, "probe:mixed") {
			f = probeMixed()
		}
		if f != nil {
			fmt.Fprintf(out, "FAIL\t%s\t%s\t%s\t%s\n", f.site, f.class, w, f.desc)
		} else {
			fmt.Fprintln(out, "HOLDS")
		}
		return
	}
	if strings.HasPrefix(w, "probe:bareafteropt") {
		if f := probeBareAfterOpt(); f != nil {
			fmt.Fprintf(out, "FAIL\t%s\t%s\t%s\t%s\n", f.site, f.class, w, f.desc)
		} else {
			fmt.Fprintln(out, "HOLDS")
		}
		return
	}
	if strings.HasPrefix(w, "probe:encodetwice") {
		if f := probeEncodeTwice(); f != nil {
			fmt.Fprintf(out, "FAIL\t%s\t%s\t%s\t%s\n", f.site, f.class, w, f.desc)
		} else {
			fmt.Fprintln(out, "HOLDS")
		}
		return
	}
	if strings.HasPrefix(w, "probe:emsg") {
		if f := probeEmsg(); f != nil {
			fmt.Fprintf(out, "FAIL\t%s\t%s\t%s\t%s\n", f.site, f.class, w, f.desc)
		} else {
			fmt.Fprintln(out, "HOLDS")
		}
		return
	}
	if strings.HasPrefix(w, "probe:reencode") {
		if f := probeReencode(); f != nil {
			fmt.Fprintf(out, "FAIL\t%s\t%s\t%s\t%s\n", f.site, f.class, w, f.desc)
		} else {
			fmt.Fprintln(out, "HOLDS")
		}
		return
	}
	var sg Seg
	if err := json.Unmarshal([]byte(w), &sg); err != nil {
		fmt.Fprintln(out, "bad witness:", err)
		return
	}
	f := checkSeg(&sg)
	if f == nil {
		fmt.Fprintln(out, "HOLDS")
	} else {
		fmt.Fprintf(out, "FAIL\t%s\t%s\t%s\t%s\n", f.site, f.class, w, f.desc)
	}
}

// ------------------------------------------------------------------ corr: O cases

func cmdCorrO(r *hx.Rng, n int, stats map[string]int) {
	for i := 0; i < n; i++ {
		tf := mp4.CreateTfhd(uint32(r.Range(1, 3)))
		if r.Intn(3) == 0 {
			tf.Flags = uint32(r.Intn(64))&0x3a | uint32(r.Pick(0, 0x20000, 0x10000))
		}
		tf.DefaultSampleDuration = pickU(r, 0, 7, 10)
		tf.DefaultSampleSize = pickU(r, 0, 9, 2)
		tf.DefaultSampleFlags = pickU(r, 0, 0x10000, 0x2000000)
		tr := mp4.CreateTrun(0)
		tr.Version = byte(r.Intn(2))
		fsf := pickU(r, 0, 0x2000000, 0x1010000, 0x40000)
		tr.SetFirstSampleFlags(fsf)
		switch r.Intn(4) {
		case 0:
			tr.Flags = uint32(r.Intn(16))<<8 | uint32(r.Pick(0, 1, 4, 5))
		case 1:
			tr.Flags = 0xf05
		default:
			tr.Flags = 0xf01
		}
		tg := newTrackGen(r)
		ns := r.Pick(0, 1, 2, 2, 3, 3, 4, 6)
		if i%150 == 7 {
			// around the count above which DecodeTrun wants a per-sample field (C05-F7): mostly uniform samples
			ns = r.Pick(1023, 1024, 1025, 1026, 1100)
			for _, g := range []*fieldGen{tg.fl, tg.du, tg.sz, tg.ct} {
				if r.Intn(5) != 0 {
					g.mode = 0
				}
			}
			if r.Intn(3) != 0 {
				tg.ct.mode, tg.ct.a = 0, 0
			}
			stats["O.big"]++
		}
		ss := make([]mp4.Sample, ns)
		for j := range ss {
			ss[j] = toSample(tg.sample(r))
		}
		tr.AddSamples(ss)
		if ns >= 2 && tr.Flags&0xf00 == 0xf00 {
			stats["O.n>=2"]++
			eq := func(f func(s mp4.Sample) int64, from int) bool {
				for _, s := range ss[from:] {
					if f(s) != f(ss[from]) {
						return false
					}
				}
				return true
			}
			if eq(func(s mp4.Sample) int64 { return int64(s.Dur) }, 0) {
				stats["O.dur-all-equal"]++
			}
			if eq(func(s mp4.Sample) int64 { return int64(s.Size) }, 0) {
				stats["O.size-all-equal"]++
			}
			if eq(func(s mp4.Sample) int64 { return int64(s.Flags) }, 1) {
				if ss[0].Flags == ss[1].Flags {
					stats["O.flags-all-equal"]++
				} else {
					stats["O.flags-first-differs"]++
				}
			}
			allz := true
			for _, s := range ss {
				if s.CompositionTimeOffset != 0 {
					allz = false
				}
			}
			if allz {
				stats["O.cto-all-zero"]++
			}
		}
		var trex *mp4.TrexBox
		txs := "-"
		if r.Intn(3) != 0 {
			trex = &mp4.TrexBox{TrackID: tf.TrackID, DefaultSampleDuration: pickU(r, 0, 7, 10, 0xffffffff),
				DefaultSampleSize: pickU(r, 0, 9, 2), DefaultSampleFlags: pickU(r, 0, 0x10000, 0x1010000)}
			txs = hx.HexU(uint64(trex.DefaultSampleDuration)) + "." + hx.HexU(uint64(trex.DefaultSampleSize)) + "." + hx.HexU(uint64(trex.DefaultSampleFlags))
		}
		tfs := func(t *mp4.TfhdBox) string {
			return hx.HexU(uint64(t.Flags)) + "." + hx.HexU(uint64(t.DefaultSampleDuration)) + "." + hx.HexU(uint64(t.DefaultSampleSize)) + "." + hx.HexU(uint64(t.DefaultSampleFlags))
		}
		trs := func(t *mp4.TrunBox) string {
			f, _ := t.FirstSampleFlags()
			return hx.HexU(uint64(t.Version)) + "." + hx.HexU(uint64(t.Flags)) + "." + hx.HexU(uint64(f))
		}
		in := fmt.Sprintf("%s.%s\t%s\t%s\t%s", tfs(tf), hx.HexU(uint64(tf.TrackID)), trs(tr), hsl(tr.Samples), txs)
		traf := &mp4.TrafBox{}
		_ = traf.AddChild(tf)
		_ = traf.AddChild(tr)
		doOpt := r.Intn(5) != 0
		var err error
		var obs string
		p := hx.Try(func() {
			if doOpt {
				err = traf.OptimizeTfhdTrun()
			}
			c := cls("", err)
			if c != 'o' {
				obs = string(c)
				return
			}
			obs = "o|" + tfs(tf) + "|" + trs(tr)
			// through the real box codecs
			tr.DataOffset = 100
			var buf bytes.Buffer
			if e := tf.Encode(&buf); e != nil {
				panic(e)
			}
			ntf := buf.Len()
			if e := tr.Encode(&buf); e != nil {
				panic(e)
			}
			b := buf.Bytes()
			obs += "|" + hx.Hex(b[:ntf]) + "|" + hx.Hex(b[ntf:])
			var b1, b2 mp4.Box
			var e error
			if r.Bool() {
				b1, e = mp4.DecodeBox(0, bytes.NewReader(b[:ntf]))
				if e != nil {
					panic(e)
				}
				b2, e = mp4.DecodeBox(uint64(ntf), bytes.NewReader(b[ntf:]))
			} else {
				sr := bits.NewFixedSliceReader(b)
				b1, e = mp4.DecodeBoxSR(0, sr)
				if e != nil {
					panic(e)
				}
				b2, e = mp4.DecodeBoxSR(uint64(ntf), sr)
			}
			if e != nil {
				panic(e)
			}
			tf2, tr2 := b1.(*mp4.TfhdBox), b2.(*mp4.TrunBox)
			obs += "|" + trs(tr2) + "|" + hsl(tr2.Samples)
			td := tr2.AddSampleDefaultValues(tf2, trex)
			obs += "|" + hsl(tr2.GetSamples()) + "|" + hx.HexU(td)
			// in memory, without the codec
			td2 := tr.AddSampleDefaultValues(tf, trex)
			obs += "|" + hsl(tr.GetSamples()) + "|" + hx.HexU(td2)
		})
		if p != "" {
			obs = "p"
		}
		optc := "1"
		if !doOpt {
			optc = "0"
		}
		fmt.Fprintf(out, "O\to%d\t%s\t%s\t%s\n", i, optc, in, obs)
	}
}

// ------------------------------------------------------------------ corr: H cases (one per fragment)

func trafState(f *mp4.Fragment) string {
	var sb strings.Builder
	for _, t := range f.Moof.Trafs {
		sb.WriteString(" T" + hx.HexU(uint64(t.Tfhd.TrackID)) + ":" + hx.HexU(t.Tfdt.BaseMediaDecodeTime()) + ":")
		if len(t.Truns) == 0 {
			sb.WriteString("-")
		}
		for i, tr := range t.Truns {
			if i > 0 {
				sb.WriteString(",")
			}
			sb.WriteString(hx.HexU(uint64(mp4.VerifC05WriteOrderNr(tr))) + "." + hx.HexU(uint64(len(tr.Samples))))
		}
	}
	return sb.String()
}

// staleSize: the first trun lost its size field in an Encode with OptimizeTrun in the middle of the history (op O) and a
// sample added afterwards has another size (finding C05-F10): the sizes read back no longer match the data, and beyond
// the mdat payload the real GetFullSamples slices mdat.Data up to its capacity where the model says panic.
func staleSize(f *mp4.Fragment) bool {
	if f == nil || f.Moof == nil || f.Moof.Traf == nil || f.Moof.Traf.Trun == nil {
		return false
	}
	tr, h := f.Moof.Traf.Trun, f.Moof.Traf.Tfhd
	if tr.HasSampleSize() {
		return false
	}
	for _, s := range tr.Samples {
		if s.Size != h.DefaultSampleSize {
			return true
		}
	}
	return false
}

func trafEnc(f *mp4.Fragment) string {
	var sb strings.Builder
	for _, t := range f.Moof.Trafs {
		h := t.Tfhd
		sb.WriteString(" T" + hx.HexU(uint64(h.TrackID)) + ":" + hx.HexU(uint64(h.Flags)) + "." + hx.HexU(uint64(h.DefaultSampleDuration)) + "." +
			hx.HexU(uint64(h.DefaultSampleSize)) + "." + hx.HexU(uint64(h.DefaultSampleFlags)) + ":" + hx.HexU(uint64(t.Tfdt.Version)) + ":")
		if len(t.Truns) == 0 {
			sb.WriteString("-")
		}
		for i, tr := range t.Truns {
			if i > 0 {
				sb.WriteString(",")
			}
			fsf, _ := tr.FirstSampleFlags()
			sb.WriteString(hx.HexU(uint64(tr.Flags)) + "." + hx.HexU(uint64(fsf)) + "." + hx.HexI(int64(tr.DataOffset)))
		}
	}
	return sb.String()
}

func emitH(id string, sg *Seg, sr *segRun, i int, stats map[string]int) {
	fs := &sg.Frags[i]
	r := sr.runs[i]
	f := r.f
	clean := len(r.modes) <= 1
	for _, c := range r.classes {
		if c == 'p' {
			clean = false
		}
	}
	encStage := !r.panicked() && i < len(sr.encCls) && !(sg.UseSeg && sr.encCls[i] != 'o')
	// decode stage is compared only when every fragment of the segment got encoded and the file decoded
	dec := clean && encStage && !sg.Bad && len(sr.encCls) == len(sr.runs) && sr.encCls[i] == 'o' && sr.file != nil && sr.decCls == 'o' &&
		len(sr.decodedFrags()) == len(sg.Frags)
	for _, rr := range sr.runs {
		if len(rr.modes) > 1 || staleSize(rr.f) {
			dec = false
		}
		if rr.modes['l'] && rr.f.Mdat.GetLazyDataSize() != uint64(len(rr.lazy)) {
			dec = false
		}
	}
	tracks := make([]uint64, len(fs.Tracks))
	for k, t := range fs.Tracks {
		tracks[k] = uint64(t)
	}
	trafx := make([]uint64, len(fs.TrafX))
	for k, cs := range fs.TrafX {
		trafx[k] = sumSizes(cs)
	}
	var pos uint64
	if i < len(sr.fragPos) {
		pos = sr.fragPos[i]
	}
	trexs := make([]string, 0, sg.NTracks)
	for t := 1; t <= sg.NTracks; t++ {
		trexs = append(trexs, hx.HexU(uint64(sg.Trex[t-1][0]))+"."+hx.HexU(uint64(sg.Trex[t-1][1]))+"."+hx.HexU(uint64(sg.Trex[t-1][2])))
	}
	b2s := func(b bool) string {
		if b {
			return "1"
		}
		return "0"
	}
	plain := sumSizes(fs.MoofX) == 0
	for _, x := range trafx {
		if x != 0 {
			plain = false
		}
	}
	// the boxes around moof and mdat: only the ones put there directly are told to the model (lp); AddEmsg / AddChild are ops
	cfg := fmt.Sprintf("seq=%s;plain=%s;m=%s;t=%s;o=%s;p0=%s;lp=%s;mx=%s;tx=%s;trex=%s;enc=%s;dec=%s", hx.HexU(uint64(fs.Seq)), b2s(plain), b2s(fs.Multi), hexCsv(tracks), b2s(sg.Opt),
		hx.HexU(pos), codesList(fs.pre0()), hx.HexU(sumSizes(fs.MoofX)), hexCsv(trafx), strings.Join(trexs, ","), b2s(encStage), b2s(dec))
	ops := make([]string, len(r.all))
	for k := range r.all {
		ops[k] = opString(&r.all[k])
		if r.all[k].K == "E" || r.all[k].K == "C" || r.all[k].K == "N" || r.all[k].K == "O" {
			stats["H.op-"+r.all[k].K]++
		}
	}
	opss := "-"
	if len(ops) > 0 {
		opss = strings.Join(ops, ";")
	}
	var sb strings.Builder
	sb.WriteString("ops=" + string(r.classes))
	if len(r.nobs) > 0 {
		sb.WriteString("|n=" + strings.Join(r.nobs, "/"))
	}
	if !r.panicked() {
		m := f.Mdat
		sb.WriteString("|lay=" + layoutOf(f))
		sb.WriteString("|st=" + hx.HexU(uint64(mp4.VerifC05NextTrunNr(f))) + "/" + hx.HexU(uint64(len(m.Data))) + "/" + hx.HexU(m.GetLazyDataSize()) + "/" + hx.HexU(uint64(len(m.DataParts))))
		sb.WriteString(trafState(f))
		if encStage {
			c := sr.encCls[i]
			sb.WriteString("|enc=" + string(c))
			if c == 'o' {
				sb.WriteString("/" + hx.HexU(f.Moof.Size()) + "/" + hx.HexU(m.HeaderSize()) + "/" + hx.HexU(uint64(sr.fragLen[i])))
				sb.WriteString(trafEnc(f))
				if plain {
					// the moof bytes (re-encoded here: the fragment is in its encoded state)
					var mb bytes.Buffer
					if p := hx.Try(func() { _ = f.Moof.Encode(&mb) }); p == "" {
						sb.WriteString("|moof=" + hx.Hex(mb.Bytes()))
						stats["H.moof-bytes"]++
						emitM(id, mb.Bytes(), stats)
					} else {
						sb.WriteString("|moof=panic")
					}
				}
			}
		}
		if dec {
			df := sr.decodedFrags()[i]
			sb.WriteString("|dec=")
			for t := 0; t <= sg.NTracks; t++ {
				var tx *mp4.TrexBox
				name := "n"
				if t > 0 {
					tx = sr.trexs[t]
					name = hx.HexU(uint64(t))
				}
				g, c := getFull(df, tx)
				sb.WriteString(" R" + name + "=" + string(c))
				if c == 'o' {
					sb.WriteString(":" + hfl(g))
				}
			}
			// measured distribution of the first trun of the first traf
			if tr := f.Moof.Traf.Trun; tr != nil && len(tr.Samples) >= 2 && sg.Opt {
				stats["H.opt-first-trun-n>=2"]++
				if tr.Flags&0x100 == 0 {
					stats["H.dur-all-equal"]++
				}
				if tr.Flags&0x200 == 0 {
					stats["H.size-all-equal"]++
				}
				if tr.Flags&0x400 == 0 {
					if tr.Flags&0x4 != 0 {
						stats["H.flags-first-differs"]++
					} else {
						stats["H.flags-all-equal"]++
					}
				}
				if tr.Flags&0x800 == 0 {
					stats["H.cto-all-zero"]++
				}
			}
		}
	}
	stats["H.fragments"]++
	stats["H.tracks="+strconv.Itoa(len(fs.Tracks))]++
	if dec {
		stats["H.decoded"]++
	}
	nt := 0
	for _, t := range f.Moof.Trafs {
		nt += len(t.Truns)
	}
	if nt > 1 {
		stats["H.multi-trun"]++
	}
	fmt.Fprintf(out, "H\t%s\t%s\t%s\t%s\n", id, cfg, opss, sb.String())
}

// ------------------------------------------------------------------ corr: M cases (moof bytes, partly mutated, through DecodeBoxSR)

var mCtr uint64

// emitM: the bytes of an encoded moof (every second one truncated or with one byte changed: sizes, versions,
// flags, counts, values) through DecodeBoxSR; observables: outcome class, sequence number, per traf tfhd / tfdt / truns.
func emitM(id string, moof []byte, stats map[string]int) {
	mCtr++
	r := hx.NewRng(mixSeed(mCtr, 0x3005))
	b := append([]byte{}, moof...)
	kind := "p"
	switch r.Intn(4) {
	case 0:
		b = b[:r.Intn(len(b))]
		kind = "t"
		stats["M.truncated"]++
	case 1:
		// never a byte of a box type (all lowercase letters): another type means another body decoder, not modelled
		i := r.Intn(len(b))
		if b[i] < 'a' || b[i] > 'z' {
			b[i] ^= byte(1 << uint(r.Intn(8)))
			kind = "f"
			stats["M.byte-changed"]++
		}
	}
	var box mp4.Box
	var err error
	p := hx.Try(func() { box, err = mp4.DecodeBoxSR(0, bits.NewFixedSliceReader(b)) })
	c := cls(p, err)
	var sb strings.Builder
	sb.WriteString(string(c))
	if m, ok := box.(*mp4.MoofBox); ok && c == 'o' {
		if m.Mfhd != nil {
			sb.WriteString("|" + hx.HexU(uint64(m.Mfhd.SequenceNumber)))
		} else {
			sb.WriteString("|-")
		}
		for _, t := range m.Trafs {
			sb.WriteString("|T")
			if t.Tfhd != nil {
				sb.WriteString(tfhdObs(t.Tfhd))
			} else {
				sb.WriteString("-")
			}
			if t.Tfdt != nil {
				sb.WriteString(";" + hx.HexU(uint64(t.Tfdt.Version)) + "." + hx.HexU(t.Tfdt.BaseMediaDecodeTime()))
			} else {
				sb.WriteString(";-")
			}
			for _, tr := range t.Truns {
				sb.WriteString(";" + trunObs(tr))
			}
		}
		stats["M.decoded"]++
	} else if c == 'o' {
		sb.WriteString("|other")
	}
	stats["M.cases"]++
	// kind f (one byte changed): the model's framing is stricter than the SliceReader decoders, which advance by the size
	// they compute and ignore a child's declared size; there the model may answer error where the code accepts
	fmt.Fprintf(out, "M\tm%s\t%s\t%s\t%s\n", id, kind, hx.Hex(b), sb.String())
}

// ------------------------------------------------------------------ corr: G cases (one per segment: the box stream)

func xboxOfCode(c int) string {
	k := "o"
	if c/100000 == 4 {
		k = "e"
	}
	return k + "." + hx.HexU(mkBox(c).Size()) + ".0.-"
}

func xboxList(xs []string) string {
	if len(xs) == 0 {
		return "-"
	}
	return strings.Join(xs, ",")
}

func codesList(cs []int) string {
	xs := make([]string, len(cs))
	for i, c := range cs {
		xs[i] = xboxOfCode(c)
	}
	return xboxList(xs)
}

// emitG: the whole segment as a stream of top-level boxes (kinds and sizes; moof and mdat are rebuilt by the model from
// the op histories) and what DecodeFile / DecodeFileSR makes of the real bytes: segments, fragments per segment, the
// start position of every moof and the payload position of every mdat, and per trex the concatenation of
// GetFullSamples over the fragments in order.
func emitG(id string, sg *Seg, sr *segRun, stats map[string]int) {
	if sg.NoDec || len(sr.encCls) != len(sr.runs) || len(sr.fragPos) != len(sr.runs) || len(sr.fragLen) != len(sr.runs) {
		return
	}
	for i, r := range sr.runs {
		if r.panicked() || sr.encCls[i] != 'o' {
			return
		}
	}
	b2s := func(b bool) string {
		if b {
			return "1"
		}
		return "0"
	}
	var head []string
	if sg.Styp {
		head = append(head, "s."+hx.HexU(mp4.CreateStyp().Size())+".0.-")
	}
	for _, sp := range sg.Sidx {
		refs := make([]string, len(sp.Refs))
		for k, rf := range sp.Refs {
			refs[k] = hx.HexU(uint64(rf[0]&1)) + ":" + hx.HexU(uint64(rf[1]&0x7fffffff))
		}
		rs := "-"
		if len(refs) > 0 {
			rs = strings.Join(refs, "/")
		}
		head = append(head, "x."+hx.HexU(mkSidx(sp).Size())+"."+hx.HexU(sp.First)+"."+rs)
	}
	trexs := make([]string, 0, sg.NTracks)
	for t := 1; t <= sg.NTracks; t++ {
		trexs = append(trexs, hx.HexU(uint64(sg.Trex[t-1][0]))+"."+hx.HexU(uint64(sg.Trex[t-1][1]))+"."+hx.HexU(uint64(sg.Trex[t-1][2])))
	}
	// reading samples back is compared only for segments inside the domain where the model's GetFullSamples is faithful:
	// one data mode per fragment, sizes consistent with the data (beyond the mdat payload the real code slices
	// mdat.Data up to its capacity, which the model does not know: it says panic)
	rd := !sg.Bad
	for _, rr := range sr.runs {
		if len(rr.modes) > 1 || (rr.modes['l'] && rr.f.Mdat.GetLazyDataSize() != uint64(len(rr.lazy))) || staleSize(rr.f) {
			rd = false
		}
	}
	cfg := fmt.Sprintf("o=%s;f0=%s;p0=%s;rd=%s;head=%s;trex=%s", b2s(sg.Opt), b2s(sg.Dec < 2), hx.HexU(uint64(sr.initLen)), b2s(rd), xboxList(head), strings.Join(trexs, ","))
	frs := make([]string, len(sg.Frags))
	framed := make([]byte, len(sg.Frags))
	allFramed := true
	for i := range sg.Frags {
		fs := &sg.Frags[i]
		r := sr.runs[i]
		tracks := make([]uint64, len(fs.Tracks))
		for k, t := range fs.Tracks {
			tracks[k] = uint64(t)
		}
		trafx := make([]uint64, len(fs.TrafX))
		for k, cs := range fs.TrafX {
			trafx[k] = sumSizes(cs)
		}
		ops := make([]string, len(r.all))
		for k := range r.all {
			ops[k] = opString(&r.all[k])
		}
		opss := "-"
		if len(ops) > 0 {
			opss = strings.Join(ops, ";")
		}
		fcfg := fmt.Sprintf("m=%s;t=%s;mx=%s;tx=%s", b2s(fs.Multi), hexCsv(tracks), hx.HexU(sumSizes(fs.MoofX)), hexCsv(trafx))
		frs[i] = fcfg + "@" + opss + "@" + codesList(fs.pre0()) + "@-@" + codesList(fs.Between)
		// framing, measured on the real bytes: declared mdat payload length vs the bytes that follow the mdat header
		// up to the first box after the fragment (boxes after the mdat inside the fragment, then the caller's data)
		framed[i] = '0'
		fb := sr.bytes[sr.fragPos[i] : sr.fragPos[i]+uint64(sr.fragLen[i])]
		pr := int(r.pre)
		if len(fb) >= pr+8 {
			moofSize := int(binary.BigEndian.Uint32(fb[pr : pr+4]))
			mp := pr + moofSize
			if len(fb) >= mp+8 {
				hdr := 8
				declared := uint64(binary.BigEndian.Uint32(fb[mp : mp+4]))
				if declared == 1 && len(fb) >= mp+16 {
					hdr = 16
					declared = binary.BigEndian.Uint64(fb[mp+8 : mp+16])
				}
				post := int(r.post)
				actual := uint64(len(fb)-mp-hdr-post) + uint64(len(r.lazy))
				if declared == uint64(hdr)+actual && (len(r.lazy) == 0 || post == 0) {
					framed[i] = '1'
				}
			}
		}
		if framed[i] != '1' {
			allFramed = false
		}
	}
	var sb strings.Builder
	sb.WriteString("fr=" + string(framed))
	stats["G.segments"]++
	stats["G.frags="+strconv.Itoa(len(sg.Frags))]++
	if len(sg.Sidx) > 0 {
		if sg.Styp {
			stats["G.sidx-in-segment"]++
		} else {
			stats["G.sidx-top-level"]++
		}
	}
	if allFramed {
		stats["G.framed"]++
		sb.WriteString("|dec=" + string(sr.decCls))
		if sr.decCls == 'o' && sr.file != nil {
			sb.WriteString("|segs=")
			for k, s := range sr.file.Segments {
				if k > 0 {
					sb.WriteString(",")
				}
				sb.WriteString(b2s(s.Styp != nil) + "." + hx.HexU(uint64(len(s.Fragments))))
			}
			if len(sr.file.Segments) > 1 {
				stats["G.several-segments"]++
			}
			dfs := sr.decodedFrags()
			sb.WriteString("|frags=")
			for k, df := range dfs {
				if k > 0 {
					sb.WriteString(",")
				}
				ms, md := "-", "-"
				if df.Moof != nil {
					ms = hx.HexU(df.Moof.StartPos)
				}
				if df.Mdat != nil {
					md = hx.HexU(df.Mdat.PayloadAbsoluteOffset())
				}
				sb.WriteString(ms + "." + md)
			}
			if rd {
				sb.WriteString("|rd=")
				stats["G.read-back"]++
			}
			for t := 0; rd && t <= sg.NTracks; t++ {
				var tx *mp4.TrexBox
				name := "n"
				if t > 0 {
					tx = sr.trexs[t]
					name = hx.HexU(uint64(t))
				}
				var all []mp4.FullSample
				c := byte('o')
				for _, df := range dfs {
					var g []mp4.FullSample
					g, c = getFull(df, tx)
					if c != 'o' {
						break
					}
					all = append(all, g...)
				}
				sb.WriteString(" R" + name + "=" + string(c))
				if c == 'o' {
					sb.WriteString(":" + hfl(all))
				}
			}
		}
	}
	fmt.Fprintf(out, "G\t%s\t%s\t%s\t%s\n", id, cfg, strings.Join(frs, "#"), sb.String())
}

// ------------------------------------------------------------------ corr: L cases (Fragment.Children under AddEmsg / AddChild)

// cmdCorrL: AddEmsg / AddChild / Encode histories on fragments of every origin: CreateFragment, CreateMultiTrackFragment,
// NewFragment (no children), fragments decoded from streams with emsg boxes in unusual places (behind the mdat, alone,
// several in a row), with boxes put in front directly. Observables: outcome class of every call and the children
// (kind, size) afterwards; the model folds add_emsg / add_child over the children it is told the history starts from.
func cmdCorrL(r *hx.Rng, n int, stats map[string]int) {
	for i := 0; i < n; i++ {
		var f *mp4.Fragment
		origin := r.Pick(0, 0, 1, 2, 3, 3, 3)
		switch origin {
		case 0:
			f = oneSampleFragment(1, 1)
		case 1:
			f, _ = mp4.CreateMultiTrackFragment(1, []uint32{1, 2})
		case 2:
			f = mp4.NewFragment()
		default:
			var buf bytes.Buffer
			seq := uint32(1)
			for k := r.Range(1, 6); k > 0; k-- {
				switch r.Pick(0, 0, 1, 2) {
				case 0:
					_ = mkBox(400000 + r.Intn(6)).Encode(&buf)
				case 1:
					_ = mkBox(r.Pick(0, 3)*100000 + r.Intn(4)).Encode(&buf)
				default:
					_ = oneSampleFragment(seq, byte(seq)).Encode(&buf)
					seq++
				}
			}
			fl, c := decodeAll(buf.Bytes(), r.Bool())
			var fs []*mp4.Fragment
			if c == 'o' {
				for _, sgm := range fl.Segments {
					fs = append(fs, sgm.Fragments...)
				}
			}
			if len(fs) == 0 {
				f = mp4.NewFragment()
				origin = 2
			} else {
				f = fs[r.Intn(len(fs))]
			}
		}
		if origin != 3 && r.Intn(3) == 0 {
			for k := r.Range(1, 3); k > 0; k-- {
				f.Children = append([]mp4.Box{mkBox(r.Pick(0, 3, 4, 4)*100000 + r.Intn(6))}, f.Children...)
			}
		}
		stats["L.origin="+strconv.Itoa(origin)]++
		init := layoutOf(f)
		var ops []string
		var classes []byte
		for k := r.Range(1, 7); k > 0; k-- {
			var p string
			switch r.Pick(0, 0, 0, 1, 2) {
			case 0:
				code := 400000 + r.Intn(6)
				ops = append(ops, "E:"+xboxOfCode(code))
				p = hx.Try(func() { f.AddEmsg(mkBox(code).(*mp4.EmsgBox)) })
			case 1:
				code := r.Pick(0, 1, 2, 3, 4, 4, 5)*100000 + r.Intn(6)
				ops = append(ops, "C:"+xboxOfCode(code))
				p = hx.Try(func() { f.AddChild(mkBox(code)) })
			default:
				if f.Moof == nil || f.Mdat == nil || f.Moof.Traf == nil {
					continue
				}
				ops = append(ops, "N")
				var scratch bytes.Buffer
				p = hx.Try(func() { _ = f.Encode(&scratch) })
			}
			classes = append(classes, cls(p, nil))
			if p != "" {
				stats["L.panic"]++
				break
			}
		}
		if len(ops) == 0 {
			continue
		}
		fmt.Fprintf(out, "L\tl%d\t%s\t%s\tops=%s|lay=%s\n", i, init, strings.Join(ops, ";"), string(classes), layoutOf(f))
		stats["L.cases"]++
	}
}

// ------------------------------------------------------------------ corr: B cases (malformed box sequences)

// cmdCorrB: arbitrary sequences of top-level boxes (styp, sidx, emsg, free, a fixed moof, mdat) that are mostly NOT of the
// shape of a segment: mdat without moof, a box between moof and mdat, two moofs, emsg only, styp in the middle.
// Observables: outcome class of DecodeFile / DecodeFileSR, segments, fragments, positions, and the outcome class of
// GetFullSamples on every fragment.
func cmdCorrB(r *hx.Rng, n int, stats map[string]int) {
	op := Op{K: "F", Tr: 1, Ss: []Smp{{F: 0x1010000, D: 10, S: 2, C: 0}}, Dts: 5, Data: "a1a2"}
	fr := Frag{Seq: 1, Tracks: []uint32{1}, Ops: []Op{op}, TrafX: [][]int{nil}}
	run := buildFrag(&fr)
	fb, c := encodeFrag(run.f, false, false)
	if c != 'o' {
		return
	}
	moofLen := int(run.f.Moof.Size())
	moofB := fb[:moofLen]
	initB := buildInit(&Seg{NTracks: 1, Trex: [][3]uint32{{}}})
	for i := 0; i < n; i++ {
		withInit := r.Bool()
		sr := r.Bool()
		var body bytes.Buffer
		var toks []string
		for k := r.Range(1, 7); k > 0; k-- {
			switch r.Pick(0, 0, 0, 1, 1, 1, 2, 3, 4, 5) {
			case 0:
				body.Write(moofB)
				toks = append(toks, "m")
			case 1:
				pl := r.Pick(2, 2, 5, 3) // never shorter than the sample: beyond len(mdat.Data) the real code slices up to the capacity (model: panic)
				m := &mp4.MdatBox{Data: genData(pl)}
				_ = m.Encode(&body)
				toks = append(toks, "d"+hx.HexU(uint64(pl)))
			case 2:
				_ = mp4.CreateStyp().Encode(&body)
				toks = append(toks, "s."+hx.HexU(mp4.CreateStyp().Size())+".0.-")
			case 3:
				sp := SidxSpec{First: uint64(r.Pick(0, 8)), Refs: [][2]uint32{{0, uint32(r.Pick(moofLen+10, moofLen+13, 8))}, {uint32(r.Intn(2)), 8}}}
				_ = mkSidx(sp).Encode(&body)
				toks = append(toks, fmt.Sprintf("x.%s.%s.%s:%s/%s:8", hx.HexU(mkSidx(sp).Size()), hx.HexU(sp.First), hx.HexU(uint64(sp.Refs[0][0])), hx.HexU(uint64(sp.Refs[0][1])), hx.HexU(uint64(sp.Refs[1][0]))))
			case 4:
				body.Write(encodeBoxes([]int{400003}))
				toks = append(toks, xboxOfCode(400003))
			default:
				body.Write(encodeBoxes([]int{4}))
				toks = append(toks, xboxOfCode(4))
			}
		}
		data := body.Bytes()
		p0 := 0
		if withInit {
			data = append(append([]byte{}, initB...), data...)
			p0 = len(initB)
		}
		f, dc := decodeAll(data, sr)
		var sb strings.Builder
		sb.WriteString("dec=" + string(dc))
		if dc == 'o' && f != nil {
			sb.WriteString("|segs=")
			var dfs []*mp4.Fragment
			for k, s := range f.Segments {
				if k > 0 {
					sb.WriteString(",")
				}
				sb.WriteString(fmt.Sprintf("%d.%s", map[bool]int{false: 0, true: 1}[s.Styp != nil], hx.HexU(uint64(len(s.Fragments)))))
				dfs = append(dfs, s.Fragments...)
			}
			sb.WriteString("|frags=")
			for k, df := range dfs {
				if k > 0 {
					sb.WriteString(",")
				}
				ms, md := "-", "-"
				if df.Moof != nil {
					ms = hx.HexU(df.Moof.StartPos)
				}
				if df.Mdat != nil {
					md = hx.HexU(df.Mdat.PayloadAbsoluteOffset())
				}
				_, c1 := getFull(df, nil)
				_, c2 := getFull(df, &mp4.TrexBox{TrackID: 1})
				_, c3 := getFull(df, &mp4.TrexBox{TrackID: 2})
				sb.WriteString(ms + "." + md + "." + string(c1) + string(c2) + string(c3))
			}
			stats["B.decoded"]++
			if len(f.Segments) > 1 {
				stats["B.several-segments"]++
			}
		}
		stats["B.cases"]++
		fmt.Fprintf(out, "B\tb%d\tf0=%d;p0=%s\t%s\t%s\t%s\n", i, map[bool]int{false: 0, true: 1}[withInit], hx.HexU(uint64(p0)), opString(&op), strings.Join(toks, ","), sb.String())
	}
}

// ------------------------------------------------------------------ corr: D cases (box decoders on mutated boxes)

func trunObs(t *mp4.TrunBox) string {
	f, _ := t.FirstSampleFlags()
	return hx.HexU(uint64(t.Version)) + "." + hx.HexU(uint64(t.Flags)) + "." + hx.HexU(uint64(f)) + "." + hx.HexI(int64(t.DataOffset)) + "|" + hsl(t.Samples)
}

func tfhdObs(t *mp4.TfhdBox) string {
	return hx.HexU(uint64(t.Flags)) + "." + hx.HexU(uint64(t.TrackID)) + "." + hx.HexU(t.BaseDataOffset) + "." + hx.HexU(uint64(t.SampleDescriptionIndex)) + "." +
		hx.HexU(uint64(t.DefaultSampleDuration)) + "." + hx.HexU(uint64(t.DefaultSampleSize)) + "." + hx.HexU(uint64(t.DefaultSampleFlags))
}

func cmdCorrD(r *hx.Rng, n int, stats map[string]int) {
	for i := 0; i < n; i++ {
		var b []byte
		kind := "trun"
		if r.Intn(4) == 0 {
			kind = "tfhd"
			tf := mp4.CreateTfhd(uint32(r.Range(1, 3)))
			tf.Flags = uint32(r.Intn(64)) | uint32(r.Pick(0, 0x20000, 0x10000))
			tf.BaseDataOffset = uint64(r.Pick(0, 77, 1<<40))
			tf.SampleDescriptionIndex = pickU(r, 1, 2)
			tf.DefaultSampleDuration = pickU(r, 0, 7, 0xffffffff)
			tf.DefaultSampleSize = pickU(r, 0, 9)
			tf.DefaultSampleFlags = pickU(r, 0, 0x2000000)
			var buf bytes.Buffer
			_ = tf.Encode(&buf)
			b = buf.Bytes()
		} else {
			tr := mp4.CreateTrun(0)
			tr.Version = byte(r.Intn(2))
			tr.SetFirstSampleFlags(pickU(r, 0, 0x2000000, 0x40000))
			tr.Flags = uint32(r.Intn(16))<<8 | uint32(r.Pick(0, 1, 4, 5))
			tr.DataOffset = int32(r.Pick(100, -5, 0x7fffffff, -0x80000000))
			tg := newTrackGen(r)
			ns := r.Pick(0, 1, 2, 3, 5)
			for j := 0; j < ns; j++ {
				tr.AddSample(toSample(tg.sample(r)))
			}
			var buf bytes.Buffer
			_ = tr.Encode(&buf)
			b = buf.Bytes()
		}
		// mutations (the box stays complete: header size == number of bytes)
		switch r.Intn(6) {
		case 0: // flags bytes
			b[8+1+r.Intn(3)] ^= byte(1 << uint(r.Intn(8)))
		case 1: // version byte
			b[8] = byte(r.Intn(3))
		case 2: // sample count / track id
			if len(b) >= 16 {
				b[15] = byte(r.Pick(0, 1, 2, 3, 255))
				if r.Intn(8) == 0 {
					b[13] = 1
				}
			}
		case 3: // drop or add 4 bytes at the end
			if r.Bool() && len(b) >= 20 {
				b = b[:len(b)-4]
			} else {
				b = append(b, 1, 2, 3, 4)
			}
			binary.BigEndian.PutUint32(b[0:4], uint32(len(b)))
		case 4: // cut to a short body
			cut := 8 + r.Intn(9)
			if cut < len(b) {
				b = b[:cut]
				binary.BigEndian.PutUint32(b[0:4], uint32(len(b)))
			}
		}
		var box mp4.Box
		var err error
		p := hx.Try(func() {
			if r.Bool() {
				box, err = mp4.DecodeBox(0, bytes.NewReader(b))
			} else {
				box, err = mp4.DecodeBoxSR(0, bits.NewFixedSliceReader(b))
			}
		})
		obs := string(cls(p, err))
		if obs == "o" {
			switch t := box.(type) {
			case *mp4.TrunBox:
				obs += "|" + trunObs(t)
			case *mp4.TfhdBox:
				obs += "|" + tfhdObs(t)
			}
		}
		stats["D."+kind+"."+obs[:1]]++
		fmt.Fprintf(out, "D\td%d\t%s\t%s\t%s\n", i, kind, hx.Hex(b), obs)
	}
}

func cmdCorr(seed uint64, n int, exh int) {
	stats := map[string]int{}
	cmdCorrO(hx.NewRng(mixSeed(seed, 0xc05)), n, stats)
	cmdCorrD(hx.NewRng(mixSeed(seed, 0xd05)), n, stats)
	cmdCorrB(hx.NewRng(mixSeed(seed, 0xb05)), n, stats)
	cmdCorrL(hx.NewRng(mixSeed(seed, 0xe05)), n, stats)
	r := hx.NewRng(mixSeed(seed, 0xc05c05))
	genOptMid = true
	for i := 0; i < n; i++ {
		sg := genSeg(r, i%3 == 0)
		sr := runSeg(sg)
		for k := range sg.Frags {
			emitH(fmt.Sprintf("h%d.%d", i, k), sg, sr, k, stats)
		}
		emitG(fmt.Sprintf("g%d", i), sg, sr, stats)
	}
	// the witness of C05_sidx_guard_refuted on the real code: no styp, a sidx whose first reference starts at the emsg in
	// front of the moof and whose second reference starts at the moof: DecodeFile leaves a fragment without moof
	{
		emsgSize := uint32(mkBox(400000).Size())
		for dec := 0; dec < 4; dec++ {
			sg := &Seg{NTracks: 1, Trex: [][3]uint32{{0, 0, 0}}, Dec: dec,
				Sidx:  []SidxSpec{{First: 0, Refs: [][2]uint32{{0, emsgSize}, {0, 500}}}},
				Frags: []Frag{{Seq: 1, Tracks: []uint32{1}, Emsg: 1, Ops: []Op{{K: "F", Tr: 1, Ss: []Smp{{F: 0x1010000, D: 10, S: 1}}, Data: "07"}}}}}
			sr := runSeg(sg)
			if fs := sr.decodedFrags(); len(fs) == 2 && fs[0].Moof == nil {
				stats["G.sidx-moofless-witness"]++
			}
			emitG(fmt.Sprintf("gsx%d", dec), sg, sr, stats)
		}
	}
	ne := 0
	genExh(exh, func(sg *Seg) {
		sr := runSeg(sg)
		emitH(fmt.Sprintf("x%d", ne), sg, sr, 0, stats)
		ne++
	})
	stats["H.exhaustive"] = ne
	keys := make([]string, 0, len(stats))
	for k := range stats {
		keys = append(keys, k)
	}
	sort.Strings(keys)
	for _, k := range keys {
		fmt.Fprintf(out, "STAT\t%s\t%d\n", k, stats[k])
	}
}

func main() {
	defer out.Flush()
	if len(os.Args) < 2 {
		fmt.Fprintln(os.Stderr, "usage: c05 corr|search|replay")
		os.Exit(2)
	}
	fs := flag.NewFlagSet(os.Args[1], flag.ExitOnError)
	seed := fs.Uint64("seed", 0, "seed")
	n := fs.Int("n", 1000, "cases")
	w := fs.String("w", "", "witness (json)")
	exh := fs.Int("exh", 2, "exhaustive history length")
	_ = fs.Parse(os.Args[2:])
	switch os.Args[1] {
	case "corr":
		cmdCorr(*seed, *n, *exh)
	case "search":
		cmdSearch(*seed, *n, *exh)
	case "replay":
		cmdReplay(*w)
	default:
		fmt.Fprintln(os.Stderr, "unknown sub-command")
		os.Exit(2)
	}
}

// scribble overwrites a sample-metadata batch after it has been handed to the library (callers re-use batch buffers
// across fragments): what was added must not change with it.
func scribble(ss []mp4.Sample) {
	for i := range ss {
		ss[i] = mp4.Sample{Flags: 0xdeadbeef, Dur: 0x7fffffff, Size: 0x7ffffff, CompositionTimeOffset: -12345}
	}
}
