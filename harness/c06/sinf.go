package main

// Kinds W and X of the correspondence: the bytes of the sample entry before protection, after InitProtect + Encode
// and after DecodeFile + DecryptInit + Encode (found by walking the bytes), and the sinf / schm / schi / tenc / frma
// decoders on sinf boxes written from the box syntax (all field variants, damaged ones).

import (
	"bytes"
	"fmt"
	"strings"

	"github.com/Eyevinn/mp4ff/mp4"
	"verifharness/hx"
)

// findEntry: the first child of moov/trak/mdia/minf/stbl/stsd, by walking bytes
func findEntry(raw []byte) []byte {
	from, to := 0, len(raw)
	for _, step := range []string{"moov", "trak", "mdia", "minf", "stbl", "stsd"} {
		found := false
		for _, b := range walkBoxes(raw, from, to) {
			if b.typ == step {
				from, to = b.start+8, b.end
				found = true
				break
			}
		}
		if !found {
			return nil
		}
	}
	bs := walkBoxes(raw, from+8, to)
	if len(bs) == 0 {
		return nil
	}
	return raw[bs[0].start:bs[0].end]
}

func sinfFields(s *mp4.SinfBox) string {
	frma, schm, tenc := "-", "-", "-"
	if s.Frma != nil {
		frma = hx.Hex([]byte(s.Frma.DataFormat))
	}
	if s.Schm != nil {
		schm = hx.Hex([]byte(s.Schm.SchemeType))
	}
	if s.Schi != nil {
		tenc = "none"
		if t := s.Schi.Tenc; t != nil {
			tenc = fmt.Sprintf("%d/%d/%d/%d/%d/%s/%s", t.Version, t.DefaultCryptByteBlock, t.DefaultSkipByteBlock,
				t.DefaultIsProtected, t.DefaultPerSampleIVSize, hx.Hex(t.DefaultKID), hx.Hex(t.DefaultConstantIV))
		}
	}
	return frma + ":" + schm + ":" + tenc
}

// entryByteCases (kind W)
func (e *env) entryByteCases(r *hx.Rng, n int, next func() string) {
	for i := 0; i < n; i++ {
		codec := byte(r.Pick('a', 'h', 'u'))
		scheme := []string{"cenc", "cbcs"}[r.Intn(2)]
		iv := genIV(r, r.Pick(8, 16))
		kidB := r.Bytes(16, nil)
		w := genWide(r, false)
		if r.Intn(6) == 0 {
			w.init |= 1 << 13
		}
		clearF, err := mp4.DecodeFile(bytes.NewReader(e.initFor(codec)))
		must(err)
		applyWideInit(clearF.Init, w)
		var cb bytes.Buffer
		must(clearF.Init.Encode(&cb))
		kind := "v"
		if codec == 'u' {
			kind = "a"
		}
		f, err := mp4.DecodeFile(bytes.NewReader(cb.Bytes()))
		must(err)
		obs := ""
		var ipdErr error
		p := hx.Try(func() { _, ipdErr = mp4.InitProtect(f.Init, r.Bytes(16, nil), iv, scheme, mp4.UUID(kidB), nil) })
		if p != "" || ipdErr != nil {
			obs = classOf(p, ipdErr)
		} else {
			var eb bytes.Buffer
			must(f.Init.Encode(&eb))
			obs = "ok|" + hx.Hex(findEntry(eb.Bytes()))
			g, err := mp4.DecodeFile(bytes.NewReader(eb.Bytes()))
			must(err)
			var di mp4.DecryptInfo
			if p := hx.Try(func() { di, err = mp4.DecryptInit(g.Init) }); p != "" || err != nil {
				obs += "|" + classOf(p, err)
			} else {
				var db bytes.Buffer
				must(g.Init.Encode(&db))
				obs += "|ok|" + hx.Hex(findEntry(db.Bytes())) + "|" + sinfFields(di.TrackInfos[0].Sinf)
			}
		}
		emit("W", next(), kind, hx.Hex(findEntry(cb.Bytes())), scheme, hx.Hex(iv), hx.Hex(kidB), obs)
	}
}

// sinfDecodeCases (kind X): sinf boxes written from the syntax
func sinfDecodeCases(r *hx.Rng, n int, next func() string) {
	for i := 0; i < n; i++ {
		version := byte(r.Pick(0, 0, 1, 1, 2))
		cbv, sbv := byte(r.Pick(0, 1, 5, 15)), byte(r.Pick(0, 9, 15))
		isprot := byte(r.Pick(1, 1, 1, 0, 2))
		ivsize := byte(r.Pick(0, 0, 8, 16))
		civ := r.Bytes(r.Pick(0, 8, 16, 16), nil)
		tp := cat(u32(uint32(version)<<24|uint32(r.Pick(0, 0, 0, 5))), []byte{0, cbv<<4 | sbv, isprot, ivsize}, r.Bytes(16, nil))
		if version == 0 && r.Intn(3) != 0 {
			tp[5] = 0
		}
		if isprot == 1 && ivsize == 0 {
			tp = append(tp, byte(len(civ)))
			tp = append(tp, civ...)
		}
		dmg := r.Intn(12)
		if dmg == 0 && len(tp) > 0 { // short tenc (sizes of schi / sinf follow)
			tp = tp[:r.Intn(len(tp))]
		}
		tenc := boxBytes("tenc", tp)
		var schiKids [][]byte
		if dmg != 1 {
			schiKids = append(schiKids, tenc)
		}
		if r.Intn(5) == 0 {
			schiKids = append(schiKids, boxBytes("abcd", []byte{1, 2}))
		}
		if dmg == 2 { // two tenc boxes: the last one counts
			schiKids = append(schiKids, boxBytes("tenc", cat(u32(0), []byte{0, 0, 1, 8}, r.Bytes(16, nil))))
		}
		schi := boxBytes("schi", schiKids...)
		frma := boxBytes("frma", []byte([]string{"avc1", "hvc1", "mp4a", "zzzz"}[r.Intn(4)]))
		if dmg == 3 {
			frma = boxBytes("frma", []byte("avc"))
		}
		if dmg == 4 {
			frma = boxBytes("frma", []byte("avc1x"))
		}
		sflags := uint32(0)
		sp := cat([]byte([]string{"cenc", "cbcs", "cbc1", "piff"}[r.Intn(4)]), u32(0x10000))
		if r.Intn(5) == 0 {
			sflags = 1
			sp = cat(sp, []byte("urn:x"), []byte{0})
		}
		if dmg == 5 {
			sflags = 1 // URI flag without a terminated string
			sp = cat(sp, []byte("ab"))
		}
		if dmg == 6 {
			sp = sp[:r.Intn(len(sp))]
		}
		schm := fullBoxBytes("schm", 0, sflags, sp)
		var kids [][]byte
		order := r.Intn(3)
		parts := [][]byte{frma, schm, schi}
		for k := 0; k < 3; k++ {
			idx := (k + order) % 3
			if dmg == 7+idx && dmg < 10 {
				continue // one of the three is missing
			}
			kids = append(kids, parts[idx])
		}
		if r.Intn(6) == 0 {
			kids = append(kids, boxBytes("free", []byte{0}))
		}
		if dmg == 10 {
			kids = append(kids, boxBytes("frma", []byte("last")))
		}
		sinf := boxBytes("sinf", kids...)
		if dmg == 11 { // a child size field below the header size (a child LARGER than its parent is read to EOF by the io.Reader path: C01)
			bad := append([]byte{}, sinf...)
			copy(bad[8:], u32(uint32(r.Pick(2, 7, 3))))
			sinf = bad
		}
		var box mp4.Box
		var err error
		p := hx.Try(func() { box, err = mp4.DecodeBox(0, bytes.NewReader(sinf)) })
		obs := ""
		switch {
		case p != "":
			obs = "panic"
		case err != nil:
			obs = "err"
		default:
			if s, ok := box.(*mp4.SinfBox); ok {
				obs = "ok:" + sinfFields(s)
			} else {
				obs = "other"
			}
		}
		emit("X", next(), hx.Hex(sinf), strings.TrimSpace(obs))
	}
}
