package main

// Kinds U and V of the correspondence: sample duration / size / flags / composition offset / decode time as
// Fragment.GetFullSamples resolves them (trun, tfhd, trex, nil trex), the trun bytes that are written after
// AddSampleDefaultValues has filled the defaults into trun.Samples (what EncryptFragment / DecryptFragment do to
// the fragment before it is encoded), and the trun decoder on well-formed and damaged bodies.

import (
	"bytes"
	"fmt"
	"strconv"
	"strings"

	"github.com/Eyevinn/mp4ff/mp4"
	"verifharness/hx"
)

func b01(b bool) string {
	if b {
		return "1"
	}
	return "0"
}

func trunFlagBits(t *mp4.TrunBox) string {
	return b01(t.HasSampleDuration()) + b01(t.HasSampleSize()) + b01(t.HasSampleFlags()) + b01(t.HasSampleCompositionTimeOffset()) +
		b01(t.HasFirstSampleFlags()) + b01(t.HasDataOffset())
}

func samplesString(ss []mp4.Sample) string {
	if len(ss) == 0 {
		return "-"
	}
	p := make([]string, len(ss))
	for i, s := range ss {
		p[i] = fmt.Sprintf("%d/%d/%d/%d", s.Flags, s.Dur, s.Size, uint32(s.CompositionTimeOffset))
	}
	return strings.Join(p, ";")
}

func metaString(fss []mp4.FullSample) string {
	if len(fss) == 0 {
		return "-"
	}
	p := make([]string, len(fss))
	for i, s := range fss {
		p[i] = fmt.Sprintf("%d/%d/%d/%d@%d", s.Flags, s.Dur, s.Size, uint32(s.CompositionTimeOffset), s.DecodeTime)
	}
	return strings.Join(p, ";")
}

func optU32(present bool, v uint32) string {
	if !present {
		return "-"
	}
	return strconv.FormatUint(uint64(v), 10)
}

func trunBody(t *mp4.TrunBox) string {
	var buf bytes.Buffer
	var err error
	if p := hx.Try(func() { err = t.Encode(&buf) }); p != "" || err != nil {
		return classOf(p, err)
	}
	return "ok:" + hx.Hex(buf.Bytes()[12:])
}

// timingCases (kind U): clear files as an external packager writes them (per-sample values in trun, defaults in
// tfhd, or only in trex, first-sample-flags), decoded.
func (e *env) timingCases(r *hx.Rng, n int, next func() string) {
	for i := 0; i < n; i++ {
		codec := byte(r.Pick('a', 'h', 'u'))
		scheme := []string{"cenc", "cbcs"}[r.Intn(2)]
		fo := fileOpts{nfrags: r.Pick(1, 2, 3), styp: r.Bool(), sig: r.Intn(5) != 0, optTrun: r.Intn(4) == 0}
		raw, _ := e.buildClearFile(codec, scheme, fo, r)
		nf := fo.nfrags
		for k := 0; k < nf; k++ {
			decode := func() (*mp4.File, *mp4.Fragment) {
				f, err := mp4.DecodeFile(bytes.NewReader(raw))
				must(err)
				return f, f.Segments[0].Fragments[k]
			}
			f, fr := decode()
			traf := fr.Moof.Traf
			tfhd, trun, trex := traf.Tfhd, traf.Trun, f.Init.Moov.Mvex.Trex
			ff, _ := trun.FirstSampleFlags()
			in := []string{optU32(tfhd.HasDefaultSampleDuration(), tfhd.DefaultSampleDuration) + "|" +
				optU32(tfhd.HasDefaultSampleSize(), tfhd.DefaultSampleSize) + "|" + optU32(tfhd.HasDefaultSampleFlags(), tfhd.DefaultSampleFlags),
				trunFlagBits(trun), strconv.FormatUint(uint64(uint32(trun.DataOffset)), 10), strconv.FormatUint(uint64(ff), 10),
				samplesString(trun.Samples), strconv.FormatUint(traf.Tfdt.BaseMediaDecodeTime(), 10),
				fmt.Sprintf("%d/%d/%d", trex.DefaultSampleDuration, trex.DefaultSampleSize, trex.DefaultSampleFlags)}
			var obs []string
			for _, useTrex := range []bool{true, false} {
				f2, fr2 := decode()
				var tx *mp4.TrexBox
				if useTrex {
					tx = f2.Init.Moov.Mvex.Trex
				}
				var fss []mp4.FullSample
				var err error
				if p := hx.Try(func() { fss, err = fr2.GetFullSamples(tx) }); p != "" || err != nil {
					obs = append(obs, classOf(p, err), "-", "-")
					continue
				}
				// the trun now holds the defaults; what does Encode write, and what does a decoder make of it?
				body := trunBody(fr2.Moof.Traf.Trun)
				re := "-"
				if strings.HasPrefix(body, "ok:") {
					var tb bytes.Buffer
					_ = fr2.Moof.Traf.Trun.Encode(&tb)
					box, err := mp4.DecodeBox(0, bytes.NewReader(tb.Bytes()))
					if err != nil {
						re = "err"
					} else {
						t2 := box.(*mp4.TrunBox)
						ff2, _ := t2.FirstSampleFlags()
						re = fmt.Sprintf("ok:%d/%d/%s", uint32(t2.DataOffset), ff2, samplesString(t2.Samples))
					}
				}
				obs = append(obs, "ok:"+metaString(fss), body, re)
			}
			emit(append(append([]string{"U", next()}, in...), strings.Join(obs, "|"))...)
		}
	}
}

// trunMalformed (kind V): trun bodies (from sample_count on) of every flag combination, then damaged: wrong count,
// truncated / extended, huge counts.
func trunMalformed(r *hx.Rng, n int, next func() string) {
	for i := 0; i < n; i++ {
		bitsv := r.Intn(64)
		has := func(k uint) bool { return bitsv&(1<<k) != 0 } // 0 dur 1 size 2 flags 3 cto 4 first 5 doff
		flags := uint32(0)
		if has(0) {
			flags |= 0x100
		}
		if has(1) {
			flags |= 0x200
		}
		if has(2) {
			flags |= 0x400
		}
		if has(3) {
			flags |= 0x800
		}
		if has(4) {
			flags |= 0x004
		}
		if has(5) {
			flags |= 0x001
		}
		count := r.Pick(0, 1, 1, 2, 3, 5)
		var body []byte
		body = append(body, u32(uint32(count))...)
		if has(5) {
			body = append(body, r.Bytes(4, []byte{0, 0, 0, 1, 200, 255})...)
		}
		if has(4) {
			body = append(body, r.Bytes(4, []byte{0, 1, 2, 255})...)
		}
		per := 0
		for k := uint(0); k < 4; k++ {
			if has(k) {
				per += 4
			}
		}
		body = append(body, r.Bytes(count*per, []byte{0, 0, 0, 1, 7, 128, 255})...)
		switch r.Intn(10) {
		case 0:
			copy(body[0:], u32(uint32(count+r.Pick(-1, 1, 2))))
		case 1:
			copy(body[0:], u32(uint32(r.Pick(1025, 65536, 0x7fffffff, 0xffffffff))))
		case 2:
			if len(body) > 4 {
				body = body[:4+r.Intn(len(body)-4)]
			}
		case 3:
			body = append(body, r.Bytes(r.Pick(1, 4, 8), nil)...)
		case 4:
			body = body[:r.Intn(4)]
		}
		box := cat(u32(uint32(12+len(body))), []byte("trun"), u32(flags), body)
		obs := ""
		var b mp4.Box
		var err error
		p := hx.Try(func() { b, err = mp4.DecodeBox(0, bytes.NewReader(box)) })
		switch {
		case p != "":
			obs = "panic"
		case err != nil:
			obs = "err"
		default:
			t := b.(*mp4.TrunBox)
			ff, _ := t.FirstSampleFlags()
			obs = fmt.Sprintf("ok:%d/%d/%s", uint32(t.DataOffset), ff, samplesString(t.Samples))
		}
		emit("V", next(), b01(has(0))+b01(has(1))+b01(has(2))+b01(has(3))+b01(has(4))+b01(has(5)), hx.Hex(body), obs)
	}
}

// trafTimingCases (kind N): a traf with SEVERAL truns written the way an external packager may (every trun its own
// choice of per-sample fields, tfhd / trex defaults, first-sample-flags, empty truns, decode times near 2^64):
// what Fragment.GetFullSamples reports with the file's trex and with nil.
func (e *env) trafTimingCases(r *hx.Rng, n int, next func() string) {
	for i := 0; i < n; i++ {
		initF, err := mp4.DecodeFile(bytes.NewReader(e.aacInit))
		must(err)
		trex := initF.Init.Moov.Mvex.Trex
		trex.DefaultSampleDuration = uint32(r.Pick(0, 1024, 0xffffffff))
		trex.DefaultSampleSize = uint32(r.Pick(0, 7, 17))
		trex.DefaultSampleFlags = uint32(r.Pick(0, 0x01010000))
		tfhd := mp4.CreateTfhd(trex.TrackID)
		if r.Bool() {
			tfhd.Flags |= 0x08
			tfhd.DefaultSampleDuration = uint32(r.Pick(1001, 1, 0xfffffff0))
		}
		if r.Bool() {
			tfhd.Flags |= 0x10
			tfhd.DefaultSampleSize = uint32(r.Pick(5, 9, 0))
		}
		if r.Bool() {
			tfhd.Flags |= 0x20
			tfhd.DefaultSampleFlags = 0x02000000
		}
		base := []uint64{0, 90000, 1 << 40, ^uint64(0) - 3000, ^uint64(0)}[r.Intn(5)]
		traf := &mp4.TrafBox{}
		_ = traf.AddChild(tfhd)
		_ = traf.AddChild(mp4.CreateTfdt(base))
		m := r.Pick(1, 2, 2, 3, 4)
		at := uint64(0)
		for j := 0; j < m; j++ {
			tr := mp4.CreateTrun(0)
			tr.Flags = 0x01
			for _, fl := range []uint32{0x100, 0x200, 0x400, 0x800} {
				if r.Bool() {
					tr.Flags |= fl
				}
			}
			if tr.Flags&0x400 == 0 && r.Bool() {
				tr.SetFirstSampleFlags(uint32(r.Pick(0x02000000, 0, 0x01010000)))
			}
			ns := r.Pick(0, 1, 2, 3, 5)
			for k := 0; k < ns; k++ {
				tr.AddSample(mp4.Sample{Flags: uint32(r.Pick(0x01010000, 0x02000000, 0, 0xffffffff)), Dur: uint32(r.Pick(1024, 1, 0, 0xffffffff, r.Intn(100000))),
					Size: uint32(r.Intn(21)), CompositionTimeOffset: int32(r.Pick(0, 500, -1000, 0x7fffffff))})
			}
			_ = traf.AddChild(tr)
		}
		moof := &mp4.MoofBox{}
		_ = moof.AddChild(mp4.CreateMfhd(3))
		_ = moof.AddChild(traf)
		for _, tr := range traf.Truns {
			tr.DataOffset = int32(moof.Size() + 8 + at)
			for _, s := range tr.Samples {
				sz := uint64(s.Size)
				if !tr.HasSampleSize() {
					sz = uint64(trex.DefaultSampleSize)
					if tfhd.HasDefaultSampleSize() {
						sz = uint64(tfhd.DefaultSampleSize)
					}
				}
				at += sz
			}
		}
		mdat := &mp4.MdatBox{}
		mdat.AddSampleData(make([]byte, at+64))
		var buf bytes.Buffer
		must(initF.Init.Encode(&buf))
		must(moof.Encode(&buf))
		must(mdat.Encode(&buf))
		decode := func() (*mp4.File, *mp4.Fragment) {
			f, err := mp4.DecodeFile(bytes.NewReader(buf.Bytes()))
			must(err)
			return f, f.Segments[0].Fragments[0]
		}
		_, fr := decode()
		dt := fr.Moof.Traf
		var ts []string
		for _, tr := range dt.Truns {
			ff, _ := tr.FirstSampleFlags()
			ts = append(ts, trunFlagBits(tr)+":"+strconv.FormatUint(uint64(uint32(tr.DataOffset)), 10)+":"+strconv.FormatUint(uint64(ff), 10)+":"+samplesString(tr.Samples))
		}
		var obs []string
		for _, useTrex := range []bool{true, false} {
			f2, fr2 := decode()
			var tx *mp4.TrexBox
			if useTrex {
				tx = f2.Init.Moov.Mvex.Trex
			}
			var fss []mp4.FullSample
			var err error
			if p := hx.Try(func() { fss, err = fr2.GetFullSamples(tx) }); p != "" || err != nil {
				obs = append(obs, classOf(p, err))
				continue
			}
			obs = append(obs, "ok:"+metaStringHex(fss))
		}
		emit("N", next(), optU32(dt.Tfhd.HasDefaultSampleDuration(), dt.Tfhd.DefaultSampleDuration)+"|"+
			optU32(dt.Tfhd.HasDefaultSampleSize(), dt.Tfhd.DefaultSampleSize)+"|"+optU32(dt.Tfhd.HasDefaultSampleFlags(), dt.Tfhd.DefaultSampleFlags),
			fmt.Sprintf("%d/%d/%d", trex.DefaultSampleDuration, trex.DefaultSampleSize, trex.DefaultSampleFlags),
			strconv.FormatUint(dt.Tfdt.BaseMediaDecodeTime(), 16), strings.Join(ts, "#"), strings.Join(obs, "|"))
	}
}

func metaStringHex(fss []mp4.FullSample) string {
	if len(fss) == 0 {
		return "-"
	}
	p := make([]string, len(fss))
	for i, s := range fss {
		p[i] = fmt.Sprintf("%d/%d/%d/%d@%x", s.Flags, s.Dur, s.Size, uint32(s.CompositionTimeOffset), s.DecodeTime)
	}
	return strings.Join(p, ";")
}
