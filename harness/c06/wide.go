package main

// Second extension of the C06 harness: clear inputs that carry every kind of non-protection box the decoder
// knows in every container the crypto code touches (moof, traf, moov, trak, stsd entries), written from the box
// syntax of ISO/IEC 14496-12 as bytes (independent of the library's constructors) and handed to the library
// through its own decoder; and an oracle that compares the full child lists (type + bytes) of those containers
// in the clear file and in decrypt(encrypt(clear)), found by walking the bytes.

import (
	"bytes"
	"encoding/binary"
	"fmt"
	"strings"

	"github.com/Eyevinn/mp4ff/mp4"
	"verifharness/hx"
)

func u16(v int) []byte { return []byte{byte(v >> 8), byte(v)} }
func u32(v uint32) []byte {
	b := make([]byte, 4)
	binary.BigEndian.PutUint32(b, v)
	return b
}
func cat(parts ...[]byte) []byte {
	var b []byte
	for _, p := range parts {
		b = append(b, p...)
	}
	return b
}

// boxBytes: compact header + payload
func boxBytes(typ string, payload ...[]byte) []byte {
	p := cat(payload...)
	return cat(u32(uint32(8+len(p))), []byte(typ), p)
}

func fullBoxBytes(typ string, version byte, flags uint32, payload ...[]byte) []byte {
	return boxBytes(typ, append([][]byte{u32(uint32(version)<<24 | flags&0xffffff)}, payload...)...)
}

// asBox hands bytes to the library's decoder; the box must decode and encode back to the same bytes, otherwise
// the generator (not the crypto code) is at fault.
func asBox(b []byte) mp4.Box {
	box, err := mp4.DecodeBox(0, bytes.NewReader(b))
	must(err)
	var buf bytes.Buffer
	must(box.Encode(&buf))
	if !bytes.Equal(buf.Bytes(), b) {
		must(fmt.Errorf("generator: %s box does not re-encode to its bytes", string(b[4:8])))
	}
	return box
}

// sbgp (version 0) mapping all n samples to group description index idx
func sbgpBytes(gt string, n int, idx uint32) []byte {
	return fullBoxBytes("sbgp", 0, 0, []byte(gt), u32(1), u32(uint32(n)), u32(idx))
}

// sgpd (version 1, default_length = len(entry)) with one entry
func sgpdBytes(gt string, entry []byte) []byte {
	return fullBoxBytes("sgpd", 1, 0, []byte(gt), u32(uint32(len(entry))), u32(1), entry)
}

var groupKinds = []string{"roll", "rap ", "sync", "alst"}

func groupEntry(gt string, v int) []byte {
	switch gt {
	case "roll":
		return u16(0x10000 - 1 - v%3) // roll_distance -1..-3
	case "rap ":
		return []byte{byte(0x80 | v%5)}
	case "sync":
		return []byte{byte(v % 32)}
	case "alst":
		return cat(u16(1), u16(v%4), u32(uint32(7+v)))
	case "seig": // crypt:skip 0:0, isProtected 1, perSampleIVSize, KID
		return cat([]byte{0, 0, 1, byte(v)}, bytes.Repeat([]byte{0x5a}, 16))
	}
	return []byte{1}
}

func subsBytes(n int) []byte {
	// one entry per sample: sample_delta 1, one sub-sample
	p := u32(uint32(n))
	for i := 0; i < n; i++ {
		p = cat(p, u32(1), u16(1), u16(10+i), []byte{1, 0}, u32(uint32(i)))
	}
	return fullBoxBytes("subs", 0, 0, p)
}

func unknownUUIDBytes(k int) []byte {
	id := bytes.Repeat([]byte{0xa0 + byte(k%16)}, 16)
	return boxBytes("uuid", id, []byte{1, 2, 3, byte(k)})
}

// wide options: bit masks selecting the extra boxes; everything is a function of the masks (the clear reference
// file and the file that gets encrypted are built twice from the same options)
type wideOpts struct {
	traf uint32 // bits 0-3 sbgp/sgpd pair of groupKinds[i]; 4 subs; 5 tfxd; 6 tfrf; 7 unknown; 8 free; 9 unknown uuid; 10 sgpd without sbgp; 11 seig pair (perSampleIVSize 16); 12 seig pair (perSampleIVSize 8)
	moof uint32 // 0 unknown uuid; 1 free; 2 unknown; 3 skip; 4: first of them BEFORE the traf; 5: one before mfhd
	init uint32 // 0 btrt; 1 pasp; 2 unknown in entry; 3 sinf-like unknown in entry; 4 free in entry; 5 udta in moov; 6 meta in moov; 7 udta in trak; 8 meta in trak; 9 unknown in moov; 10 unknown in trak; 12 unknown uuid in moov; 13 a sinf of its own in the clear entry
}

func (w wideOpts) String() string { return fmt.Sprintf("traf=%#x,moof=%#x,init=%#x", w.traf, w.moof, w.init) }

func genWide(r *hx.Rng, seig bool) wideOpts {
	w := wideOpts{}
	pick := func(nbits int, density int) uint32 {
		var m uint32
		for i := 0; i < nbits; i++ {
			if r.Intn(density) == 0 {
				m |= 1 << uint(i)
			}
		}
		return m
	}
	switch r.Intn(4) {
	case 0: // nothing extra
	case 1: // one kind at a time
		w.traf = 1 << uint(r.Intn(11))
		w.moof = 1<<uint(r.Intn(4)) | uint32(r.Intn(4))<<4
		w.init = 1 << uint(r.Intn(13))
	default:
		w.traf = pick(11, 3)
		w.moof = pick(6, 3)
		w.init = pick(13, 3)
	}
	if seig {
		w.traf |= 1 << 11
	}
	return w
}

func trafExtras(w wideOpts, nsamples int) []mp4.Box {
	var bs []mp4.Box
	for i, gt := range groupKinds {
		if w.traf&(1<<uint(i)) != 0 {
			bs = append(bs, asBox(sbgpBytes(gt, nsamples, 0x10001)), asBox(sgpdBytes(gt, groupEntry(gt, i+nsamples))))
		}
	}
	if w.traf&(1<<4) != 0 {
		bs = append(bs, asBox(subsBytes(nsamples)))
	}
	if w.traf&(1<<5) != 0 {
		bs = append(bs, mp4.NewTfxdBox(12345678, 2000))
	}
	if w.traf&(1<<6) != 0 {
		bs = append(bs, mp4.NewTfrfBox(1, []uint64{77}, []uint64{88}))
	}
	if w.traf&(1<<7) != 0 {
		bs = append(bs, asBox(boxBytes("abcd", []byte{1, 2, 3, 4, 5})))
	}
	if w.traf&(1<<8) != 0 {
		bs = append(bs, asBox(boxBytes("free", []byte{9, 9, 9})))
	}
	if w.traf&(1<<9) != 0 {
		bs = append(bs, asBox(unknownUUIDBytes(3)))
	}
	if w.traf&(1<<10) != 0 {
		bs = append(bs, asBox(sgpdBytes("roll", u16(0xfffe))))
	}
	if w.traf&(1<<11) != 0 {
		bs = append(bs, asBox(sbgpBytes("seig", nsamples, 0x10001)), asBox(sgpdBytes("seig", groupEntry("seig", 16))))
	}
	if w.traf&(1<<12) != 0 {
		bs = append(bs, asBox(sbgpBytes("seig", nsamples, 0x10001)), asBox(sgpdBytes("seig", groupEntry("seig", 8))))
	}
	return bs
}

func moofExtras(w wideOpts) []mp4.Box {
	var bs []mp4.Box
	if w.moof&1 != 0 {
		bs = append(bs, asBox(unknownUUIDBytes(1)))
	}
	if w.moof&2 != 0 {
		bs = append(bs, asBox(boxBytes("free", []byte{7, 7, 7, 7, 7, 7})))
	}
	if w.moof&4 != 0 {
		bs = append(bs, asBox(boxBytes("wxyz", []byte{1, 2, 3})))
	}
	if w.moof&8 != 0 {
		bs = append(bs, asBox(boxBytes("skip", []byte{5})))
	}
	return bs
}

// applyWideFragment adds the extra boxes to a freshly built clear fragment
func applyWideFragment(frag *mp4.Fragment, w wideOpts, nsamples int) {
	traf := frag.Moof.Traf
	for _, b := range trafExtras(w, nsamples) {
		_ = traf.AddChild(b)
	}
	ex := moofExtras(w)
	for i, b := range ex {
		before := ""
		if i == 0 && w.moof&(1<<4) != 0 {
			before = "traf"
		}
		if i == len(ex)-1 && w.moof&(1<<5) != 0 {
			before = "mfhd"
		}
		if before == "" {
			_ = frag.Moof.AddChild(b)
			continue
		}
		ch := frag.Moof.Children
		nc := make([]mp4.Box, 0, len(ch)+1)
		done := false
		for _, c := range ch {
			if c.Type() == before && !done {
				nc = append(nc, b)
				done = true
			}
			nc = append(nc, c)
		}
		frag.Moof.Children = nc
	}
}

func metaBytes() []byte {
	hdlr := fullBoxBytes("hdlr", 0, 0, u32(0), []byte("mdir"), make([]byte, 12), []byte{0})
	return fullBoxBytes("meta", 0, 0, hdlr, boxBytes("abcd", []byte{4, 4}))
}

func udtaBytes(k byte) []byte {
	return boxBytes("udta", boxBytes("name", []byte{'x', k}), boxBytes("free", []byte{k}))
}

// applyWideInit decorates a decoded clear init segment (before InitProtect / before writing the clear reference)
func applyWideInit(init *mp4.InitSegment, w wideOpts) {
	moov := init.Moov
	trak := moov.Trak
	stsd := trak.Mdia.Minf.Stbl.Stsd
	add := func(b mp4.Box) {
		switch se := stsd.Children[0].(type) {
		case *mp4.VisualSampleEntryBox:
			se.AddChild(b)
		case *mp4.AudioSampleEntryBox:
			se.AddChild(b)
		}
	}
	if w.init&(1<<0) != 0 {
		add(asBox(boxBytes("btrt", u32(1000), u32(200000), u32(100000))))
	}
	if w.init&(1<<1) != 0 {
		if _, ok := stsd.Children[0].(*mp4.VisualSampleEntryBox); ok {
			add(asBox(boxBytes("pasp", u32(4), u32(3))))
		}
	}
	if w.init&(1<<2) != 0 {
		add(asBox(boxBytes("abcd", []byte{1, 2, 3})))
	}
	if w.init&(1<<3) != 0 {
		// looks like protection signalling to a careless reader, but is not: an unknown box named like a sinf
		add(asBox(boxBytes("sinx", boxBytes("frma", []byte("zzzz")))))
	}
	if w.init&(1<<4) != 0 {
		add(asBox(boxBytes("free", []byte{0, 1})))
	}
	if w.init&(1<<5) != 0 {
		moov.AddChild(asBox(udtaBytes('m')))
	}
	if w.init&(1<<6) != 0 {
		moov.AddChild(asBox(metaBytes()))
	}
	if w.init&(1<<7) != 0 {
		trak.AddChild(asBox(udtaBytes('t')))
	}
	if w.init&(1<<8) != 0 {
		trak.AddChild(asBox(metaBytes()))
	}
	if w.init&(1<<9) != 0 {
		moov.AddChild(asBox(boxBytes("mvxx", []byte{1})))
	}
	if w.init&(1<<10) != 0 {
		trak.AddChild(asBox(boxBytes("tkxx", []byte{2, 2})))
	}
	if w.init&(1<<12) != 0 {
		moov.AddChild(asBox(unknownUUIDBytes(9)))
	}
	if w.init&(1<<13) != 0 {
		// the entry already owns a sinf (e.g. left by another protection system's tooling): frma + schm
		add(asBox(boxBytes("sinf", boxBytes("frma", []byte("zzzz")), fullBoxBytes("schm", 0, 0, []byte("abcd"), u32(0x10000)))))
	}
}

// ---------------------------------------------------------------- oracle: child lists by walking the bytes

type childList struct {
	path     string
	children []string // type + "=" + hex of the whole child box
}

// containerSkip: bytes between a container's box header and its first child
func containerSkip(typ string, path string) (int, bool) {
	switch typ {
	case "moov", "trak", "mdia", "minf", "stbl", "moof", "traf", "mvex", "udta", "edts", "dinf":
		return 0, true
	case "stsd":
		return 8, true
	case "avc1", "avc3", "hvc1", "hev1", "encv":
		if strings.HasSuffix(path, "/stsd") {
			return 78, true
		}
	case "mp4a", "enca", "ac-3", "ec-3":
		if strings.HasSuffix(path, "/stsd") {
			return 28, true
		}
	}
	return 0, false
}

func collectLists(data []byte, from, to int, path string, acc *[]childList) {
	cl := childList{path: path}
	for _, b := range walkBoxes(data, from, to) {
		cl.children = append(cl.children, b.typ+"="+hx.Hex(data[b.start:b.end]))
		if skip, ok := containerSkip(b.typ, path); ok && b.start+8+skip <= b.end {
			collectLists(data, b.start+8+skip, b.end, path+"/"+b.typ, acc)
		}
	}
	*acc = append(*acc, cl)
}

func typesOf(children []string) string {
	ss := make([]string, len(children))
	for i, c := range children {
		ss[i] = c[:4]
		if (ss[i] == "sbgp" || ss[i] == "sgpd") && len(c) >= 5+2*16 {
			ss[i] += "(" + string(hx.UnHex(c[5+24:5+32])) + ")"
		}
	}
	return strings.Join(ss, " ")
}

// compareChildLists: for every container the crypto code touches (moov, trak, ..., stsd, sample entries, moof,
// traf) the children of the clear file and of decrypt(encrypt(clear)) must agree in number, order, type and
// bytes.  Returns the classes (container kinds) that differ, with a description of the first difference of each.
func compareChildLists(clearRaw, decRaw []byte) map[string]string {
	return compareChildListsMod(clearRaw, decRaw, false)
}

func isSeigGroup(c string) bool {
	return (strings.HasPrefix(c, "sbgp=") || strings.HasPrefix(c, "sgpd=")) && len(c) >= 5+32 && c[5+24:5+32] == "73656967"
}

// moduloSeig: seig sample group boxes ARE protection signalling: decrypt may keep or drop them.  They are left out
// of both lists, and a trun that differs is not reported (its data offset legitimately moves with the bytes
// dropped; the sample fields are compared through GetFullSamples).
func compareChildListsMod(clearRaw, decRaw []byte, moduloSeig bool) map[string]string {
	var a, b []childList
	collectLists(clearRaw, 0, len(clearRaw), "", &a)
	collectLists(decRaw, 0, len(decRaw), "", &b)
	if moduloSeig {
		for _, l := range [][]childList{a, b} {
			for i := range l {
				var kept []string
				for _, c := range l[i].children {
					if !isSeigGroup(c) {
						kept = append(kept, c)
					}
				}
				l[i].children = kept
			}
		}
	}
	res := map[string]string{}
	note := func(path, d string) {
		k := "top"
		if i := strings.LastIndex(path, "/"); i >= 0 {
			k = path[i+1:]
		}
		if strings.HasSuffix(path, "/stsd/"+k) {
			k = "sample-entry"
		}
		if _, ok := res[k]; !ok {
			res[k] = d
		}
	}
	if len(a) != len(b) {
		note("", fmt.Sprintf("%d containers in the clear file, %d after decrypt", len(a), len(b)))
	}
	for i := 0; i < len(a) && i < len(b); i++ {
		if a[i].path != b[i].path {
			note(a[i].path, "container "+a[i].path+" became "+b[i].path)
			continue
		}
		ta, tb := typesOf(a[i].children), typesOf(b[i].children)
		if ta != tb {
			note(a[i].path, "children of "+a[i].path+": "+tb+" instead of "+ta)
			continue
		}
		for j := range a[i].children {
			if a[i].children[j] != b[i].children[j] {
				// a container child differs because something inside differs: reported at the innermost level
				if _, ok := containerSkip(a[i].children[j][:4], a[i].path); ok {
					continue
				}
				if moduloSeig && (a[i].children[j][:4] == "trun" || a[i].path == "") {
					continue
				}
				note(a[i].path, fmt.Sprintf("child %d (%s) of %s changed: %s instead of %s", j, a[i].children[j][:4], a[i].path,
					trunc(b[i].children[j][5:], 120), trunc(a[i].children[j][5:], 120)))
				break
			}
		}
	}
	return res
}

func trunc(s string, n int) string {
	if len(s) > n {
		return s[:n] + "..."
	}
	return s
}

// ---------------------------------------------------------------- sample entries holding more than one sinf

// searchSinf: (1) a clear entry that already owns a sinf goes through InitProtect -> encode -> decode -> DecryptInit
// -> encode: the init must be byte-identical to the clear one (the entry's own sinf is not the signalling that
// InitProtect added).  (2) an encv/enca entry holding two sinf boxes (InitProtect's and a second one, as content
// protected under two schemes carries them): DecryptInit must remove the sinf it returns (the one whose frma it
// restores and whose tenc DecryptFragment will use), not another one.
func searchSinf(e *env, r *hx.Rng, n int) {
	for i := 0; i < n; i++ {
		codec := byte(r.Pick('a', 'h', 'u'))
		scheme := []string{"cenc", "cbcs"}[r.Intn(2)]
		key := r.Bytes(16, nil)
		iv := genIV(r, r.Pick(8, 16))
		w := genWide(r, false)
		w.init |= 1 << 13
		evals++
		wit := fmt.Sprintf("init codec=%c scheme=%s iv=%s wide=%s", codec, scheme, hx.Hex(iv), w)
		clearF, err := mp4.DecodeFile(bytes.NewReader(e.initFor(codec)))
		must(err)
		applyWideInit(clearF.Init, w)
		var cb bytes.Buffer
		must(clearF.Init.Encode(&cb))
		f, err := mp4.DecodeFile(bytes.NewReader(cb.Bytes()))
		must(err)
		kid, _ := mp4.NewUUIDFromString(kidHex)
		if p := hx.Try(func() { _, err = mp4.InitProtect(f.Init, key, iv, scheme, kid, nil) }); p != "" || err != nil {
			fail("mp4.InitProtect", "own-sinf-protect-"+classOf(p, err), wit, "InitProtect fails on a sample entry that owns a sinf")
			continue
		}
		second := i%2 == 1
		if second {
			// a second sinf after InitProtect's: other original format, other scheme
			extra := asBox(boxBytes("sinf", boxBytes("frma", []byte("yyyy")), fullBoxBytes("schm", 0, 0, []byte("cenc"), u32(0x10000))))
			switch se := f.Init.Moov.Trak.Mdia.Minf.Stbl.Stsd.Children[0].(type) {
			case *mp4.VisualSampleEntryBox:
				se.AddChild(extra)
			case *mp4.AudioSampleEntryBox:
				se.AddChild(extra)
			}
		}
		var eb bytes.Buffer
		must(f.Init.Encode(&eb))
		g, err := mp4.DecodeFile(bytes.NewReader(eb.Bytes()))
		must(err)
		var di mp4.DecryptInfo
		if p := hx.Try(func() { di, err = mp4.DecryptInit(g.Init) }); p != "" || err != nil {
			if second {
				continue
			}
			fail("mp4.DecryptInit", "own-sinf-decrypt-"+classOf(p, err), wit, "DecryptInit fails")
			continue
		}
		var db bytes.Buffer
		must(g.Init.Encode(&db))
		if !second {
			if !bytes.Equal(db.Bytes(), cb.Bytes()) {
				d := "init differs"
				lists := compareChildLists(cb.Bytes(), db.Bytes())
				for _, k := range sortedKeys(lists) {
					d = lists[k]
				}
				fail("mp4.SampleEntry.RemoveEncryption", "own-sinf-init-differs", wit, "clear entry with a sinf of its own: DecryptInit(InitProtect(init)) != init: "+d)
			}
			continue
		}
		// two sinfs: the returned sinf must be gone, and it is the one whose frma names the entry now
		entry := g.Init.Moov.Trak.Mdia.Minf.Stbl.Stsd.Children[0]
		var children []mp4.Box
		switch se := entry.(type) {
		case *mp4.VisualSampleEntryBox:
			children = se.Children
		case *mp4.AudioSampleEntryBox:
			children = se.Children
		}
		if len(di.TrackInfos) == 0 || di.TrackInfos[0].Sinf == nil {
			fail("mp4.DecryptInit", "two-sinf-no-info", wit, "no sinf returned")
			continue
		}
		ret := di.TrackInfos[0].Sinf
		for _, c := range children {
			if c == mp4.Box(ret) {
				fail("mp4.SampleEntry.RemoveEncryption", "two-sinf-returned-sinf-kept", wit,
					fmt.Sprintf("entry with two sinf boxes: the sinf DecryptInit returns (frma %s, restored as the entry type %s) is still a child of the entry; another sinf was removed instead", ret.Frma.DataFormat, entry.Type()))
			}
		}
	}
}
