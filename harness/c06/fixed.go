package main

// Third extension round, part (c): the sample entry with its TYPED fixed fields, third-party style.  The entry is
// written from the syntax as bytes: any bytes in the reserved / pre_defined positions, any depth, any compressor name,
// a fractional sample rate, children before AND after the sinf, several sinf boxes, a sinf without frma, an entry
// that is not called encv / enca, a compressor name length above 31.  Observed: DecodeBox + RemoveEncryption +
// Encode of the entry (bytes) and the sinf that RemoveEncryption returns (kind Y).

import (
	"bytes"

	"github.com/Eyevinn/mp4ff/bits"
	"github.com/Eyevinn/mp4ff/mp4"
	"verifharness/hx"
)

func sinfBytes(frma, schm string, withTenc bool, r *hx.Rng) []byte {
	s := &mp4.SinfBox{}
	if frma != "" {
		s.AddChild(&mp4.FrmaBox{DataFormat: frma})
	}
	if schm != "" {
		s.AddChild(&mp4.SchmBox{SchemeType: schm, SchemeVersion: 65536})
	}
	schi := &mp4.SchiBox{}
	if withTenc {
		t := &mp4.TencBox{Version: 1, DefaultCryptByteBlock: 1, DefaultSkipByteBlock: 9, DefaultIsProtected: 1,
			DefaultPerSampleIVSize: 0, DefaultKID: mp4.UUID(r.Bytes(16, nil)), DefaultConstantIV: r.Bytes(16, nil)}
		if schm == "cenc" {
			t = &mp4.TencBox{Version: 0, DefaultIsProtected: 1, DefaultPerSampleIVSize: byte(r.Pick(8, 16)), DefaultKID: mp4.UUID(r.Bytes(16, nil))}
		}
		schi.AddChild(t)
	}
	s.AddChild(schi)
	var b bytes.Buffer
	must(s.Encode(&b))
	return b.Bytes()
}

func entryChildBytes(r *hx.Rng, k int) []byte {
	switch k % 5 {
	case 0:
		return boxBytes("abcd", r.Bytes(r.Intn(9), nil))
	case 1:
		return boxBytes("free", r.Bytes(r.Intn(5), nil))
	case 2:
		return boxBytes("btrt", u32(uint32(r.Intn(100000))), u32(uint32(r.Intn(100000))), u32(uint32(r.Intn(100000))))
	case 3:
		return boxBytes("pasp", u32(uint32(1+r.Intn(20))), u32(uint32(1+r.Intn(20))))
	}
	return largeBoxBytes("LRGE", r.Bytes(r.Intn(7), nil)) // an unknown child with a 16-byte header
}

type entryParts struct {
	kind, typ, orig string
	fixed           []byte
	children        [][]byte
}

func (p entryParts) bytes() []byte { return boxBytes(p.typ, append([][]byte{p.fixed}, p.children...)...) }

// genEntryBytes: a protected sample entry from the syntax; returns kind ("v" / "a") and the bytes
func genEntryBytes(r *hx.Rng) (string, []byte) {
	p := genEntryParts(r)
	return p.kind, p.bytes()
}

func genEntryParts(r *hx.Rng) entryParts {
	visual := r.Bool()
	kind, typ, nfixed := "a", "enca", 28
	orig := []string{"mp4a", "ac-3", "ec-3", "Opus"}[r.Intn(4)]
	if visual {
		kind, typ, nfixed = "v", "encv", 78
		orig = []string{"avc1", "avc3", "hvc1", "hev1", "vp09"}[r.Intn(5)]
	}
	if r.Intn(12) == 0 {
		typ = orig // not called encv / enca: RemoveEncryption refuses
	}
	fixed := make([]byte, nfixed)
	switch r.Intn(3) {
	case 0: // canonical, as the library writes it
		if visual {
			e := mp4.CreateVisualSampleEntryBox("avc1", uint16(r.Intn(65536)), uint16(r.Intn(65536)), nil)
			var b bytes.Buffer
			must(e.Encode(&b))
			copy(fixed, b.Bytes()[8:])
		} else {
			e := mp4.CreateAudioSampleEntryBox("mp4a", uint16(r.Intn(9)), 16, uint16(r.Intn(65536)), nil)
			var b bytes.Buffer
			must(e.Encode(&b))
			copy(fixed, b.Bytes()[8:])
		}
	case 1: // every byte arbitrary
		copy(fixed, r.Bytes(nfixed, nil))
	default: // sparse: mostly zero, a few arbitrary bytes (reserved fields included)
		for j := 0; j < 6; j++ {
			fixed[r.Intn(nfixed)] = byte(r.Intn(256))
		}
	}
	if visual {
		fixed[42] = byte(r.Pick(0, 1, 5, 20, 31, 31, 32, 200, int(fixed[42])%32))
	}
	var children [][]byte
	nb, na := r.Pick(0, 0, 1, 2, 3), r.Pick(0, 0, 1, 2)
	for j := 0; j < nb; j++ {
		if r.Intn(8) == 0 {
			children = append(children, sinfBytes("zzzz", "abcd", false, r)) // a sinf of the entry's own, in front
		} else {
			children = append(children, entryChildBytes(r, r.Intn(5)))
		}
	}
	switch r.Intn(10) {
	case 0: // no sinf at all
	case 1: // no frma
		children = append(children, sinfBytes("", []string{"cenc", "cbcs"}[r.Intn(2)], true, r))
	default:
		children = append(children, sinfBytes(orig, []string{"cenc", "cbcs"}[r.Intn(2)], r.Intn(8) != 0, r))
	}
	for j := 0; j < na; j++ {
		if r.Intn(10) == 0 {
			children = append(children, sinfBytes("yyyy", "cenc", true, r)) // a later sinf: this one is read and removed
		} else {
			children = append(children, entryChildBytes(r, r.Intn(5)))
		}
	}
	return entryParts{kind: kind, typ: typ, orig: orig, fixed: fixed, children: children}
}

// searchEntry: the property on sample entries written from the syntax: RemoveEncryption + Encode must give the
// entry that plain decode + encode gives for the same bytes with the 4cc restored (from the frma of the LAST sinf)
// and that sinf cut out - every other byte (typed fixed fields, children before and after the sinf, 16-byte-header
// children) identical.  The reference is computed on bytes by the harness, not through RemoveEncryption.
func searchEntry(r *hx.Rng, n int) {
	for i := 0; i < n; i++ {
		p := genEntryParts(r)
		last := -1
		for j, c := range p.children {
			if string(c[4:8]) == "sinf" {
				last = j
			}
		}
		if last < 0 || (p.typ != "encv" && p.typ != "enca") {
			continue
		}
		// frma of that sinf, read from its bytes
		sinf := p.children[last]
		frma := ""
		for _, b := range walkBoxes(sinf, 8, len(sinf)) {
			if b.typ == "frma" && b.end-b.start == 12 {
				frma = string(sinf[b.start+8 : b.end])
			}
		}
		if frma == "" || (p.kind == "v" && p.fixed[42] > 31) {
			continue
		}
		evals++
		wit := p.kind + " " + hx.Hex(p.bytes())
		// the reference is decoded under the entry's encv / enca name (any frma 4cc then decodes as a sample entry of the
		// same kind) and renamed on the bytes
		ref := entryParts{kind: p.kind, typ: p.typ, fixed: p.fixed}
		for j, c := range p.children {
			if j != last {
				ref.children = append(ref.children, c)
			}
		}
		reencode := func(raw []byte, remove bool) (out []byte, class string) {
			var err error
			var buf bytes.Buffer
			pp := hx.Try(func() {
				var box mp4.Box
				box, err = mp4.DecodeBox(0, bytes.NewReader(raw))
				if err != nil {
					return
				}
				if remove {
					switch x := box.(type) {
					case *mp4.VisualSampleEntryBox:
						_, err = x.RemoveEncryption()
					case *mp4.AudioSampleEntryBox:
						_, err = x.RemoveEncryption()
					}
					if err != nil {
						return
					}
				}
				err = box.Encode(&buf)
			})
			return buf.Bytes(), classOf(pp, err)
		}
		want, c1 := reencode(ref.bytes(), false)
		got, c2 := reencode(p.bytes(), true)
		if c1 == "ok" && len(want) >= 8 {
			copy(want[4:8], frma)
		}
		if c1 != "ok" {
			continue // the clear entry itself does not decode + encode: not a protection matter
		}
		if c2 != "ok" {
			fail("mp4.SampleEntry.RemoveEncryption", "entry-"+c2, wit, "a protected sample entry whose clear form decodes is not unprotected")
			continue
		}
		if !bytes.Equal(got, want) {
			fail("mp4.SampleEntry.RemoveEncryption", "entry-bytes-differ", wit, "after RemoveEncryption the entry differs from the clear entry in more than 4cc / size / sinf: got "+trunc(hx.Hex(got), 400)+" want "+trunc(hx.Hex(want), 400))
		}
	}
}

func (e *env) entryFixedCases(r *hx.Rng, n int, next func() string) {
	for i := 0; i < n; i++ {
		kind, raw := genEntryBytes(r)
		if r.Intn(15) == 0 && len(raw) > 20 { // malformed: cut short / a child size field damaged
			if r.Bool() {
				raw = raw[:len(raw)-1-r.Intn(12)]
				copy(raw[0:4], u32(uint32(len(raw))))
			} else {
				raw[len(raw)-r.Range(1, 12)] ^= byte(1 << uint(r.Intn(8)))
			}
		}
		// the io.Reader container decoder is laxer than the SliceReader one (a container child that claims more bytes
		// than its parent has is read to EOF without an error): the model is the strict one; inputs on which the two
		// decoders of the library disagree are left out (reports/C06.md, partial)
		var e1, e2 error
		p1 := hx.Try(func() { _, e1 = mp4.DecodeBox(0, bytes.NewReader(raw)) })
		p2 := hx.Try(func() { _, e2 = mp4.DecodeBoxSR(0, bits.NewFixedSliceReader(raw)) })
		if classOf(p1, e1) != classOf(p2, e2) {
			continue
		}
		obs := ""
		var box mp4.Box
		var err error
		var sinf *mp4.SinfBox
		var out bytes.Buffer
		p := hx.Try(func() {
			box, err = mp4.DecodeBox(0, bytes.NewReader(raw))
			if err != nil {
				return
			}
			switch x := box.(type) {
			case *mp4.VisualSampleEntryBox:
				sinf, err = x.RemoveEncryption()
			case *mp4.AudioSampleEntryBox:
				sinf, err = x.RemoveEncryption()
			default:
				err = bytes.ErrTooLarge
			}
			if err != nil {
				return
			}
			err = box.Encode(&out)
		})
		switch {
		case p != "":
			obs = "panic"
		case err != nil:
			obs = "err"
		default:
			obs = "ok:" + hx.Hex(out.Bytes()) + "|" + sinfFields(sinf)
		}
		emit("Y", next(), kind, hx.Hex(raw), obs)
	}
}

// boxSizeCases (kind Z): Size() and the encoded length of unknown boxes read with an 8- / 16-byte header
func boxSizeCases(r *hx.Rng, n int, next func() string) {
	for i := 0; i < n; i++ {
		large := r.Bool()
		payload := r.Bytes(r.Pick(0, 1, 7, 8, 9, 100, r.Intn(300)), nil)
		raw := boxBytes("zqzq", payload)
		if large {
			raw = largeBoxBytes("zqzq", payload)
		}
		obs := "err"
		if box, err := mp4.DecodeBox(0, bytes.NewReader(raw)); err == nil {
			var b bytes.Buffer
			if box.Encode(&b) == nil && bytes.Equal(b.Bytes(), raw) {
				obs = "ok:" + hx.Csv([]int{int(box.Size()), b.Len()})
			}
		}
		l := "0"
		if large {
			l = "1"
		}
		emit("Z", next(), l, hx.Csv([]int{len(payload)}), obs)
	}
}
