package main

import (
	"bytes"
	"flag"
	"fmt"
	"os"
	"os/exec"
	"path/filepath"
	"sort"
	"strconv"
	"strings"

	"github.com/Eyevinn/mp4ff/mp4"
	"verifharness/hx"
)

// ---------------------------------------------------------------- structure observables

func tkindOf(b mp4.Box) string {
	switch x := b.(type) {
	case *mp4.SaizBox:
		return "saiz"
	case *mp4.SaioBox:
		return "saio"
	case *mp4.SencBox:
		return "senc"
	case *mp4.TrunBox:
		return "trun"
	case *mp4.SbgpBox:
		return "sbgp~" + hx.Hex([]byte((x.GroupingType + "    ")[:4]))
	case *mp4.SgpdBox:
		return "sgpd~" + hx.Hex([]byte((x.GroupingType + "    ")[:4]))
	case *mp4.UUIDBox:
		if x.SubType() == "senc" {
			return "usenc"
		}
		return "uuid"
	}
	return "other"
}

// ids: position-independent identity of a box = index in a table of the box pointers seen so far
type idTable struct{ m map[mp4.Box]int }

func (t *idTable) id(b mp4.Box) int {
	if v, ok := t.m[b]; ok {
		return v
	}
	v := len(t.m) + 1
	t.m[b] = v
	return v
}

func tboxesString(t *idTable, ch []mp4.Box) string {
	if len(ch) == 0 {
		return "-"
	}
	ss := make([]string, len(ch))
	for i, c := range ch {
		ss[i] = fmt.Sprintf("%s:%d:%d", tkindOf(c), c.Size(), t.id(c))
	}
	return strings.Join(ss, ",")
}

func moofString(t *idTable, m *mp4.MoofBox) string {
	if len(m.Children) == 0 {
		return "-"
	}
	ss := make([]string, len(m.Children))
	for i, c := range m.Children {
		switch x := c.(type) {
		case *mp4.TrafBox:
			ss[i] = "T[" + tboxesString(t, x.Children) + "]"
		case *mp4.PsshBox:
			ss[i] = fmt.Sprintf("P:%d:%d", c.Size(), t.id(c))
		default:
			ss[i] = fmt.Sprintf("O:%d:%d", c.Size(), t.id(c))
		}
	}
	return strings.Join(ss, "+")
}


// ---------------------------------------------------------------- init segment cases

func tencString(t *mp4.TencBox) string {
	if t == nil {
		return "-"
	}
	return fmt.Sprintf("%d/%d/%d/%d/%d/%s", t.Version, t.DefaultCryptByteBlock, t.DefaultSkipByteBlock,
		t.DefaultIsProtected, t.DefaultPerSampleIVSize, hx.Hex(t.DefaultConstantIV))
}

func seChildrenString(t *idTable, ch []mp4.Box) string {
	if len(ch) == 0 {
		return "-"
	}
	ss := make([]string, len(ch))
	for i, c := range ch {
		if sinf, ok := c.(*mp4.SinfBox); ok {
			frma, schm, tenc := "????", "-", "-"
			if sinf.Frma != nil {
				frma = sinf.Frma.DataFormat
			}
			if sinf.Schm != nil {
				schm = sinf.Schm.SchemeType
			}
			if sinf.Schi != nil {
				tenc = tencString(sinf.Schi.Tenc)
			}
			ss[i] = "s:" + frma + ":" + schm + ":" + tenc
		} else {
			ss[i] = "o" + strconv.Itoa(t.id(c))
		}
	}
	return strings.Join(ss, ",")
}

func entryString(t *idTable, b mp4.Box) string {
	switch x := b.(type) {
	case *mp4.VisualSampleEntryBox:
		return "v/" + x.Type() + "/" + seChildrenString(t, x.Children)
	case *mp4.AudioSampleEntryBox:
		return "a/" + x.Type() + "/" + seChildrenString(t, x.Children)
	}
	return "o/" + b.Type() + "/-"
}

func moovString(t *idTable, m *mp4.MoovBox) string {
	ss := make([]string, len(m.Children))
	for i, c := range m.Children {
		switch x := c.(type) {
		case *mp4.TrakBox:
			var es []string
			for _, e := range x.Mdia.Minf.Stbl.Stsd.Children {
				es = append(es, entryString(t, e))
			}
			ss[i] = "T[" + strings.Join(es, ";") + "]"
		case *mp4.PsshBox:
			ss[i] = "p" + strconv.Itoa(t.id(c))
		default:
			ss[i] = "o" + strconv.Itoa(t.id(c))
		}
	}
	return strings.Join(ss, "+")
}

func (e *env) initCases(r *hx.Rng, n int, next func() string) {
	for i := 0; i < n; i++ {
		codec := byte(r.Pick('a', 'h', 'u'))
		f, err := mp4.DecodeFile(bytes.NewReader(e.initFor(codec)))
		must(err)
		moov := f.Init.Moov
		stsd := moov.Trak.Mdia.Minf.Stbl.Stsd
		kind := "v"
		var ty string
		switch se := stsd.Children[0].(type) {
		case *mp4.VisualSampleEntryBox:
			if codec == 'a' {
				ty = []string{"avc1", "avc1", "avc3", "vp09", "encv"}[r.Intn(5)]
			} else {
				ty = []string{"hvc1", "hvc1", "hev1", "av01"}[r.Intn(4)]
			}
			se.SetType(ty)
			if r.Intn(3) == 0 {
				se.AddChild(&mp4.BtrtBox{})
			}
			if r.Intn(12) == 0 { // a sinf of its own
				sinf := &mp4.SinfBox{}
				sinf.AddChild(&mp4.FrmaBox{DataFormat: "abcd"})
				if r.Bool() {
					sinf.AddChild(&mp4.SchmBox{SchemeType: "cenc", SchemeVersion: 65536})
				}
				se.AddChild(sinf)
			}
			if r.Intn(3) == 0 {
				se.AddChild(&mp4.PaspBox{HSpacing: 1, VSpacing: 1})
			}
		case *mp4.AudioSampleEntryBox:
			kind = "a"
			ty = []string{"mp4a", "mp4a", "ac-3", "enca"}[r.Intn(4)]
			se.SetType(ty)
			if r.Intn(3) == 0 {
				se.AddChild(&mp4.BtrtBox{})
			}
		}
		if r.Intn(15) == 0 {
			kind, ty = "o", "abcd"
			stsd.Children[0] = mp4.CreateUnknownBox("abcd", 8+4, []byte{0, 0, 0, 0})
		}
		if r.Intn(4) == 0 {
			moov.AddChild(mp4.NewFreeBox([]byte{1, 2, 3}))
		}
		if r.Intn(10) == 0 {
			ps, err := mp4.NewPsshBox("edef8ba979d64acea3c827dcd51d21ed", nil, []byte{9})
			must(err)
			moov.AddChild(ps)
		}
		if r.Intn(12) == 0 {
			g, err := mp4.DecodeFile(bytes.NewReader(e.aacInit))
			must(err)
			moov.AddChild(g.Init.Moov.Trak)
		}
		scheme := []string{"cenc", "cbcs", "cenc", "cbcs", "cens"}[r.Intn(5)]
		iv := genIV(r, r.Pick(8, 16))
		npssh := r.Pick(0, 0, 1, 2)
		var psshs []*mp4.PsshBox
		t := &idTable{m: map[mp4.Box]int{}}
		// describe the input; the main trak is the first one
		var mdesc []string
		seenTrak := false
		for _, c := range moov.Children {
			switch c.(type) {
			case *mp4.TrakBox:
				if !seenTrak {
					mdesc = append(mdesc, "T")
					seenTrak = true
				} else {
					mdesc = append(mdesc, "U")
				}
			case *mp4.PsshBox:
				mdesc = append(mdesc, "p"+strconv.Itoa(t.id(c)))
			default:
				mdesc = append(mdesc, "o"+strconv.Itoa(t.id(c)))
			}
		}
		sech := "-"
		switch se := stsd.Children[0].(type) {
		case *mp4.VisualSampleEntryBox:
			sech = seChildrenString(t, se.Children)
		case *mp4.AudioSampleEntryBox:
			sech = seChildrenString(t, se.Children)
		}
		for k := 0; k < npssh; k++ {
			ps, err := mp4.NewPsshBox("edef8ba979d64acea3c827dcd51d21ed", nil, []byte{byte(k)})
			must(err)
			t.m[ps] = 1000 + k
			psshs = append(psshs, ps)
		}
		kid, _ := mp4.NewUUIDFromString(kidHex)
		var ipd *mp4.InitProtectData
		obs := ""
		p := hx.Try(func() { ipd, err = mp4.InitProtect(f.Init, r.Bytes(16, nil), iv, scheme, kid, psshs) })
		switch {
		case p != "":
			obs = "panic"
		case err != nil:
			obs = "err"
		default:
			obs = "ok|" + moovString(t, moov) + "|" + tencString(ipd.Tenc)
			var di mp4.DecryptInfo
			p2 := hx.Try(func() { di, err = mp4.DecryptInit(f.Init) })
			switch {
			case p2 != "":
				obs += "#panic"
			case err != nil:
				obs += "#err"
			default:
				var infos []string
				for _, ti := range di.TrackInfos {
					if ti.Sinf == nil {
						infos = append(infos, "clear")
					} else {
						tn := "-"
						if ti.Sinf.Schi != nil {
							tn = tencString(ti.Sinf.Schi.Tenc)
						}
						infos = append(infos, ti.Sinf.Schm.SchemeType+"="+tn)
					}
				}
				is := "-"
				if len(infos) > 0 {
					is = strings.Join(infos, ",")
				}
				obs += "#ok|" + moovString(t, moov) + "|" + is
			}
		}
		emit("P", next(), kind, ty, sech, strings.Join(mdesc, "+"), scheme, hx.Hex(iv), strconv.Itoa(npssh), "1", obs)
	}
}

// ---------------------------------------------------------------- corr

func ssString(l [][]mp4.SubSamplePattern) string {
	if len(l) == 0 {
		return "none"
	}
	ss := make([]string, len(l))
	for i, s := range l {
		ss[i] = rangesString(s)
	}
	return strings.Join(ss, ";")
}

func listField(l [][]byte) string {
	if len(l) == 0 {
		return "none"
	}
	return samplesField(l)
}

func corr(e *env, seed uint64, n int) {
	r := hx.NewRng(seed ^ 0xc06)
	id := 0
	next := func() string { id++; return strconv.Itoa(id) }
	// --- P: InitProtect + DecryptInit on init segments (AVC/HEVC/AAC entries, retyped entries, extra children,
	//        own sinf, pre-existing pssh, second trak, bad scheme)
	e.initCases(r, n/2, next)
	// --- D: decryptSamplesInPlace on senc contents of every shape (8/16-byte IVs, constant IV, no IVs,
	//        with/without sub-sample lists, IV count != sample count, short sub-sample lists)
	for i := 0; i < n; i++ {
		scheme := []string{"cenc", "cbcs", "cenc", "cbcs", "xxxx"}[r.Intn(5)]
		ns := r.Pick(1, 2, 3, 4)
		var samples [][]byte
		for j := 0; j < ns; j++ {
			samples = append(samples, r.Bytes(r.Pick(1, 15, 16, 17, 40, 160, 176, 177, r.Range(1, 400)), nil))
		}
		key := r.Bytes(16, nil)
		if r.Intn(40) == 0 {
			key = key[:r.Pick(0, 15)]
		}
		cb, sb := 1, 9
		if r.Intn(4) == 0 {
			cb, sb = 0, 0
		}
		var constIV []byte
		if scheme == "cbcs" || r.Intn(6) == 0 {
			constIV = genIV(r, r.Pick(16, 16, 8))
		}
		senc := &mp4.SencBox{}
		nIVs := ns
		switch r.Intn(8) {
		case 0:
			nIVs = 0
		case 1:
			nIVs = ns - 1
		}
		if scheme == "cbcs" && r.Intn(3) != 0 {
			nIVs = 0
		}
		ivLen := r.Pick(8, 16, 16)
		for j := 0; j < nIVs; j++ {
			senc.IVs = append(senc.IVs, genIV(r, ivLen))
		}
		nSubs := ns
		switch r.Intn(6) {
		case 0:
			nSubs = 0
		case 1:
			nSubs = ns - 1
		}
		for j := 0; j < nSubs; j++ {
			tot := len(samples[j%ns])
			if r.Intn(12) == 0 {
				tot += 20
			}
			senc.SubSamples = append(senc.SubSamples, parseRanges(r, tot))
		}
		tenc := &mp4.TencBox{DefaultCryptByteBlock: byte(cb), DefaultSkipByteBlock: byte(sb), DefaultConstantIV: constIV}
		fss := make([]mp4.FullSample, ns)
		for j := range samples {
			fss[j].Data = hx.Exact(samples[j])
		}
		var err error
		p := hx.Try(func() { err = mp4.VerifC06DecryptSamplesInPlace(scheme, fss, key, tenc, senc) })
		obs := ""
		switch {
		case p != "":
			obs = "panic"
		case err != nil:
			obs = "err"
		default:
			outs := make([][]byte, ns)
			for j := range fss {
				outs[j] = fss[j].Data
			}
			obs = "ok:" + hexList(outs)
		}
		ivs := make([][]byte, len(senc.IVs))
		for j := range senc.IVs {
			ivs[j] = senc.IVs[j]
		}
		emit("D", next(), scheme, hx.Hex(key), hx.Hex(constIV), strconv.Itoa(cb), strconv.Itoa(sb),
			listField(ivs), ssString(senc.SubSamples), samplesField(samples), obs)
	}
	// --- S: TrafBox.RemoveEncryptionBoxes on trafs with every mix of box kinds
	for i := 0; i < n; i++ {
		traf := &mp4.TrafBox{}
		nb := r.Range(0, 7)
		for j := 0; j < nb; j++ {
			switch r.Intn(13) {
			case 9, 10: // a sample group box of any grouping type, seig included
				gt := []string{"roll", "rap ", "sync", "alst", "seig", "seig", "tele"}[r.Intn(7)]
				if r.Bool() {
					_ = traf.AddChild(asBox(sbgpBytes(gt, 1+j, 0x10001)))
				} else {
					_ = traf.AddChild(asBox(sgpdBytes(gt, groupEntry(gt, 16))))
				}
			case 11:
				_ = traf.AddChild(asBox(subsBytes(1 + j)))
			case 12:
				_ = traf.AddChild(asBox(unknownUUIDBytes(j)))
			case 0:
				sz := mp4.NewSaizBox(1)
				sz.AddSampleInfo(make([]byte, 16), nil)
				_ = traf.AddChild(sz)
			case 1:
				_ = traf.AddChild(mp4.NewSaioBox())
			case 2:
				sn := mp4.NewSencBox(1, 1)
				_ = sn.AddSample(mp4.SencSample{IV: make([]byte, 8)})
				_ = traf.AddChild(sn)
			case 3:
				_ = traf.AddChild(mp4.NewTfxdBox(uint64(r.Intn(1000)), 2000))
			case 4:
				_ = traf.AddChild(mp4.NewTfrfBox(1, []uint64{77}, []uint64{88}))
			case 5:
				_ = traf.AddChild(mp4.CreateUnknownBox("abcd", 8+uint64(j), make([]byte, j)))
			case 6:
				_ = traf.AddChild(mp4.NewFreeBox(make([]byte, j)))
			case 7:
				_ = traf.AddChild(mp4.CreateTrun(0))
			default:
				_ = traf.AddChild(&mp4.TfdtBox{})
			}
		}
		t := &idTable{m: map[mp4.Box]int{}}
		before := tboxesString(t, traf.Children)
		var removed uint64
		p := hx.Try(func() { removed = traf.RemoveEncryptionBoxes() })
		obs := "panic"
		if p == "" {
			obs = fmt.Sprintf("%s|%d", tboxesString(t, traf.Children), removed)
		}
		emit("S", next(), before, obs)
	}
	// --- G: DecryptFragment on encrypted fragments after an encode/decode cycle: structure and offsets
	for i := 0; i < n/2; i++ {
		codec := byte(r.Pick('a', 'h', 'u'))
		scheme := []string{"cenc", "cbcs"}[r.Intn(2)]
		ns := r.Pick(1, 2, 3)
		var samples [][]byte
		for j := 0; j < ns; j++ {
			switch {
			case codec == 'u':
				samples = append(samples, genAudioSample(r, 0))
			case scheme == "cbcs":
				samples = append(samples, frame(genVideoSampleCbcs(e, r, codec, 0)))
			default:
				samples = append(samples, frame(genVideoSampleCenc(r, codec, 0)))
			}
		}
		samples = withEmptySamples(r, codec, samples)
		key := r.Bytes(16, nil)
		iv := genIV(r, r.Pick(8, 16))
		o := fragOpts{extraMoof: r.Pick(0, 1, 2, 3), extraTraf: r.Pick(0, 1, 2, 3), moofBefore: r.Bool(), wide: genWide(r, false)}
		if scheme == "cenc" && r.Intn(8) == 0 {
			o.wide.traf |= 1 << 11 // a seig group that agrees with the tenc InitProtect writes
		}
		fr := e.runFragment(codec, scheme, key, iv, samples, o, r)
		if fr.class != "ok" {
			continue
		}
		rt := roundTrip(fr, key, r.Intn(3) == 0, func(df *mp4.Fragment) (string, string, string, string) {
			t := &idTable{m: map[mp4.Box]int{}}
			return strconv.FormatUint(df.Moof.StartPos, 10), moofString(t, df.Moof),
				strconv.Itoa(int(df.Moof.Traf.Trun.DataOffset)), strconv.FormatUint(df.Mdat.StartPos, 10)
		})
		if rt.pre[0] == "" {
			continue
		}
		obs := rt.class
		if rt.class == "ok" {
			t2 := rt.t
			obs = fmt.Sprintf("ok:%s|%d|%d", moofString(t2, rt.dfrag.Moof), rt.dfrag.Moof.Traf.Trun.DataOffset, rt.dfrag.Mdat.StartPos)
		}
		emit("G", next(), rt.pre[0], rt.pre[1], rt.pre[2], rt.pre[3], obs)
	}
	// --- E / M: senc, saiz, saio byte for byte; malformed senc boxes
	e.sencCases(r, n/4, next)
	sencMalformed(r, n, next)
	// --- T: sample sizes from trun / tfhd / trex (and with a nil trex)
	e.trexCases(r, n/8, next)
	// --- Q: DecryptInit on moovs with several protected entries / tracks
	e.entryCases(r, n/2, next)
	// --- U / V: durations, flags, composition offsets, decode times; the trun codec
	e.timingCases(r, n/8, next)
	trunMalformed(r, n/2, next)
	// --- W / X: the sample entry and its sinf as bytes; the sinf / frma / schm / schi / tenc decoders
	e.entryByteCases(r, n/4, next)
	sinfDecodeCases(r, n/2, next)
	thirdPartyStruct(e, next)
	// --- H: DecryptFragment on multi-track / multi-trun fragments assembled third-party style (multi.go)
	e.multiCases(r, n/2, next)
	// --- Y: sample entries from the syntax (typed fixed fields, sinf anywhere among the children): decode + RemoveEncryption + Encode
	e.entryFixedCases(r, n/2, next)
	boxSizeCases(r, 40, next)
	// --- N: GetFullSamples metadata of a traf with several truns
	e.trafTimingCases(r, n/4, next)
	out.Flush()
}


// thirdPartyStruct: DecryptFragment's box surgery on the repository's encrypted files (PIFF uuid-senc, pssh in
// moof, several fragments): structure before / after for the model.
func thirdPartyStruct(e *env, next func() string) {
	for _, c := range thirdPartyCases {
		f, err := mp4.DecodeFile(bytes.NewReader(readFile(repoDir, c.file)))
		if err != nil {
			continue
		}
		init := f.Init
		if init == nil && c.init != "" {
			fi, err := mp4.DecodeFile(bytes.NewReader(readFile(repoDir, c.init)))
			must(err)
			init = fi.Init
		}
		key, _ := mp4.UnpackKey(c.key)
		di, err := mp4.DecryptInit(init)
		if err != nil {
			continue
		}
		nf := 0
		for _, sg := range f.Segments {
			for _, fr := range sg.Fragments {
				if nf >= 6 || len(fr.Moof.Trafs) != 1 || fr.Moof.Traf.Trun == nil {
					continue
				}
				nf++
				t := &idTable{m: map[mp4.Box]int{}}
				pre := [4]string{strconv.FormatUint(fr.Moof.StartPos, 10), moofString(t, fr.Moof),
					strconv.Itoa(int(fr.Moof.Traf.Trun.DataOffset)), strconv.FormatUint(fr.Mdat.StartPos, 10)}
				var err error
				p := hx.Try(func() { err = mp4.DecryptFragment(fr, di, key) })
				obs := classOf(p, err)
				if obs == "ok" {
					obs = fmt.Sprintf("ok:%s|%d|%d", moofString(t, fr.Moof), fr.Moof.Traf.Trun.DataOffset, fr.Mdat.StartPos)
				}
				emit("G", next(), pre[0], pre[1], pre[2], pre[3], obs)
			}
		}
	}
}

var thirdPartyCases = []struct{ init, file, key string }{
	{"", "mp4/testdata/prog_8s_enc_dashinit.mp4", "63cb5f7184dd4b689a5c5ff11ee6a328"},
	{"", "mp4/testdata/cbcs.mp4", "22bdb0063805260307ee5045c0f3835a"},
	{"", "mp4/testdata/cbcs_audio.mp4", "5ffd93861fa776e96cccd934898fc1c8"},
	{"cmd/mp4ff-decrypt/testdata/PIFF/audio/init.mp4", "cmd/mp4ff-decrypt/testdata/PIFF/audio/segment-1.0001.m4s", "602a9289bfb9b1995b75ac63f123fc86"},
	{"", "cmd/mp4ff-decrypt/testdata/PIFF/video/complseg-1.0001.mp4", "602a9289bfb9b1995b75ac63f123fc86"},
}

type rtResult struct {
	class  string
	pre    [4]string
	t      *idTable
	dfrag  *mp4.Fragment
	decF   *mp4.File
	encRaw []byte
}

// roundTrip encodes protected init + encrypted fragment (optionally with a pssh in the moof), decodes, runs
// DecryptInit + DecryptFragment. snap is called on the decoded encrypted fragment before decryption.
func roundTrip(fr fragResult, key []byte, withPssh bool, snap func(df *mp4.Fragment) (string, string, string, string)) rtResult {
	res := rtResult{}
	if withPssh {
		pssh, err := mp4.NewPsshBox("edef8ba979d64acea3c827dcd51d21ed", nil, []byte{1, 2, 3, 4})
		must(err)
		_ = fr.frag.Moof.AddChild(pssh)
	}
	seg := mp4.NewMediaSegmentWithoutStyp()
	seg.AddFragment(fr.frag)
	var buf bytes.Buffer
	var err error
	if p := hx.Try(func() { err = fr.init.Init.Encode(&buf) }); p != "" || err != nil {
		res.class = "encode-init"
		return res
	}
	if p := hx.Try(func() { err = seg.Encode(&buf) }); p != "" || err != nil {
		res.class = "encode-seg"
		return res
	}
	res.encRaw = buf.Bytes()
	dec, err := mp4.DecodeFile(bytes.NewReader(res.encRaw))
	if err != nil || dec.Init == nil || len(dec.Segments) != 1 || len(dec.Segments[0].Fragments) != 1 {
		res.class = "decode"
		return res
	}
	res.decF = dec
	df := dec.Segments[0].Fragments[0]
	res.dfrag = df
	a, b, c, d := snap(df)
	res.pre = [4]string{a, b, c, d}
	// identity table shared between the before and after views
	res.t = &idTable{m: map[mp4.Box]int{}}
	_ = moofString(res.t, df.Moof)
	var di mp4.DecryptInfo
	if p := hx.Try(func() { di, err = mp4.DecryptInit(dec.Init) }); p != "" || err != nil {
		res.class = classOf(p, err)
		return res
	}
	failedDecryptFirst(res.encRaw) // hygiene.go class 3: a refused key on another decoding of the same bytes, first
	if p, err := decryptGuarded(df, di, key); p != "" || err != nil {
		res.class = classOf(p, err)
		return res
	}
	decryptAgain(res.encRaw, key, fragBytes(df))
	res.class = "ok"
	return res
}

func classOf(p string, err error) string {
	if p != "" {
		return "panic"
	}
	if err != nil {
		return "err"
	}
	return "ok"
}

// ---------------------------------------------------------------- search

var evals int

func fail(site, class, witness, desc string) {
	if len(witness) > 1500 {
		witness = witness[:1500] + "..."
	}
	fmt.Fprintf(out, "FAIL\t%s\t%s\t%s\t%s\n", site, class, witness, desc)
}

// clearBytes: the clear init + fragment encoded exactly like the encrypted one
func (e *env) clearFile(codec byte, trackID uint32, samples [][]byte, o fragOpts, r *hx.Rng) ([]byte, *mp4.File) {
	initF, err := mp4.DecodeFile(bytes.NewReader(e.initFor(codec)))
	must(err)
	applyWideInit(initF.Init, o.wide)
	frag := buildFragment(trackID, samples, o, r)
	seg := mp4.NewMediaSegmentWithoutStyp()
	seg.AddFragment(frag)
	var buf bytes.Buffer
	must(initF.Init.Encode(&buf))
	must(seg.Encode(&buf))
	f, err := mp4.DecodeFile(bytes.NewReader(buf.Bytes()))
	must(err)
	return buf.Bytes(), f
}

func sortedKeys(m map[string]string) []string {
	ks := make([]string, 0, len(m))
	for k := range m {
		ks = append(ks, k)
	}
	sort.Strings(ks)
	return ks
}

func boxTypes(ch []mp4.Box) string {
	ss := make([]string, len(ch))
	for i, c := range ch {
		ss[i] = fmt.Sprintf("%s/%d", c.Type(), c.Size())
	}
	return strings.Join(ss, ",")
}

func search(e *env, seed uint64, n int, bins string) {
	r := hx.NewRng(seed ^ 0x5ea7c06)
	for i := 0; i < n; i++ {
		codec := byte(r.Pick('a', 'a', 'h', 'u'))
		scheme := []string{"cenc", "cbcs"}[r.Intn(2)]
		ns := r.Pick(1, 2, 3, 5, 8)
		b := 0
		if i%6 == 0 {
			b = 1
		}
		var samples [][]byte
		for j := 0; j < ns; j++ {
			switch {
			case codec == 'u':
				samples = append(samples, genAudioSample(r, b))
			case scheme == "cbcs":
				samples = append(samples, frame(genVideoSampleCbcs(e, r, codec, b)))
			default:
				samples = append(samples, frame(genVideoSampleCenc(r, codec, b)))
			}
		}
		samples = withEmptySamples(r, codec, samples)
		// a video fragment mixing a sample without any protection range (a single empty NAL unit) with normal ones
		mixed := false
		if codec != 'u' && ns >= 2 && i%40 == 7 {
			samples[r.Intn(ns)] = []byte{0, 0, 0, 0}
			mixed = true
		}
		ivIn := genIV(r, r.Pick(8, 16))
		key := r.Bytes(16, nil)
		// every tenth cenc fragment: the clear traf already carries a seig sample group that agrees with the tenc
		// InitProtect writes (per-sample IV size 16).  seig groups are protection signalling: decrypt may keep or drop
		// them, everything else must come back (a seig group that CONTRADICTS the tenc is outside the property's
		// "clear track": ParseReadSenc rightly lets it override the tenc IV size and the written senc is misread)
		seig := scheme == "cenc" && i%10 == 3
		o := fragOpts{extraMoof: r.Pick(0, 0, 1, 2, 3), extraTraf: r.Pick(0, 1, 2, 3), moofBefore: r.Bool(), wide: genWide(r, seig)}
		wit := fmt.Sprintf("codec=%c scheme=%s key=%s iv=%s opts=%+v samples=%s", codec, scheme, hx.Hex(key), hx.Hex(ivIn), o, samplesField(samples))
		// the encrypt side gets key and IV in buffers the caller re-uses from fragment to fragment (refilled in place),
		// the decrypt side gets the key in a slice of its own: nothing may depend on the identity of the argument slices
		fr := e.runFragment(codec, scheme, reuse(&sharedKeyBuf, key), reuse(&sharedIVBuf, ivIn), samples, o, r)
		evals++
		if fr.class == "panic" && mixed {
			fail("mp4.EncryptFragment", "encrypt-panic-mixed-subsamples", wit, "EncryptFragment panics (SencBox.calcSize indexes SubSamples out of range) on a video fragment in which one sample has no protection range and another has")
			continue
		}
		if fr.class == "err" && e.refusedSample(codec, scheme, samples) {
			continue // an empty video sample: the protection-range function refuses it, nothing was encrypted
		}
		if fr.class != "ok" {
			fail("mp4.EncryptFragment", "encrypt-"+fr.class, wit, "EncryptFragment does not succeed on a well-formed clear fragment")
			continue
		}
		rt := roundTrip(fr, key, r.Intn(4) == 0, func(df *mp4.Fragment) (string, string, string, string) { return "x", "", "", "" })
		flushHyg(wit)
		if rt.class != "ok" {
			fail("mp4.DecryptFragment", "roundtrip-"+rt.class, wit, "encrypt -> encode -> decode -> decrypt does not succeed")
			continue
		}
		// re-encode the decrypted file and compare with the clear file encoded the same way
		var dbuf bytes.Buffer
		var err error
		if p := hx.Try(func() { err = rt.decF.Encode(&dbuf) }); p != "" || err != nil {
			fail("mp4.File.Encode", "encode-decrypted-"+classOf(p, err), wit, "decrypted file does not encode")
			continue
		}
		clearRaw, clearF := e.clearFile(codec, fr.trackID, samples, o, r)
		compareWithClearMod(wit, "api", clearRaw, clearF, dbuf.Bytes(), samples, seig)
	}
	searchFiles(e, r, n/2)
	searchSinf(e, r, n/10+3)
	searchMulti(e, r, n/2)
	searchEntry(r, n/2)
	searchBaseOffset(e, r, n/4+6)
	if bins != "" {
		searchBins(e, r, n/10+1, bins)
	}
	thirdParty(e)
	fmt.Fprintf(out, "EVALS\t%d\n", evals)
	out.Flush()
}

// compareWithClear: byte-identical files, and if not, which clause of the property is broken.
func compareWithClear(wit, via string, clearRaw []byte, clearF *mp4.File, decRaw []byte, samples [][]byte) {
	compareWithClearMod(wit, via, clearRaw, clearF, decRaw, samples, false)
}

func compareWithClearMod(wit, via string, clearRaw []byte, clearF *mp4.File, decRaw []byte, samples [][]byte, moduloSeig bool) {
	if bytes.Equal(clearRaw, decRaw) {
		return
	}
	decF, err := mp4.DecodeFile(bytes.NewReader(decRaw))
	if err != nil || decF.Init == nil || len(decF.Segments) != 1 || len(decF.Segments[0].Fragments) != 1 {
		fail("mp4.DecryptFragment", via+"-decrypted-file-undecodable", wit, "decrypted output does not decode")
		return
	}
	cf := clearF.Segments[0].Fragments[0]
	df := decF.Segments[0].Fragments[0]
	// every box that is not protection signalling present and unchanged: full child lists (type + bytes) of
	// moov / trak / ... / stsd / sample entries / moof / traf, found by walking the bytes of both files
	lists := compareChildListsMod(clearRaw, decRaw, moduloSeig)
	for _, k := range sortedKeys(lists) {
		switch k {
		case "traf", "moof", "top":
		default:
			fail("mp4.DecryptInit", via+"-"+k+"-children", wit, lists[k])
		}
	}
	// sample entry type and init
	var ib1, ib2 bytes.Buffer
	_ = clearF.Init.Encode(&ib1)
	_ = decF.Init.Encode(&ib2)
	if !bytes.Equal(ib1.Bytes(), ib2.Bytes()) {
		t1 := clearF.Init.Moov.Trak.Mdia.Minf.Stbl.Stsd.Children[0].Type()
		t2 := decF.Init.Moov.Trak.Mdia.Minf.Stbl.Stsd.Children[0].Type()
		fail("mp4.DecryptInit", via+"-init-differs", wit, fmt.Sprintf("init segment differs after decrypt (sample entry %s vs %s)", t1, t2))
	}
	if a, b := boxTypes(cf.Moof.Children), boxTypes(df.Moof.Children); a != b && !moduloSeig {
		fail("mp4.DecryptFragment", via+"-moof-children", wit, "moof children "+b+" expected "+a)
	} else if d, ok := lists["moof"]; ok {
		fail("mp4.DecryptFragment", via+"-moof-children", wit, d)
	}
	if a, b := boxTypes(cf.Moof.Traf.Children), boxTypes(df.Moof.Traf.Children); a != b && !moduloSeig {
		fail("mp4.TrafBox.RemoveEncryptionBoxes", via+"-traf-children", wit, "traf children "+b+" expected "+a+"; "+lists["traf"])
	} else if d, ok := lists["traf"]; ok {
		fail("mp4.TrafBox.RemoveEncryptionBoxes", via+"-traf-children", wit, d)
	}
	cs, err1 := cf.GetFullSamples(nil)
	ds, err2 := df.GetFullSamples(nil)
	if err1 != nil || err2 != nil || len(cs) != len(ds) {
		fail("mp4.DecryptFragment", via+"-sample-list", wit, "sample list differs")
		return
	}
	for i := range cs {
		if !bytes.Equal(cs[i].Data, ds[i].Data) {
			fail("mp4.DecryptFragment", via+"-sample-bytes", wit, fmt.Sprintf("sample %d not restored", i))
			return
		}
		if cs[i].Sample != ds[i].Sample || cs[i].DecodeTime != ds[i].DecodeTime {
			fail("mp4.DecryptFragment", via+"-sample-metadata", wit, fmt.Sprintf("sample %d size/dur/flags/cto/time changed", i))
			return
		}
	}
	if moduloSeig {
		return // offsets move with the seig boxes when decrypt drops them; the sample bytes were compared above
	}
	if cf.Moof.Traf.Trun.DataOffset != df.Moof.Traf.Trun.DataOffset {
		fail("mp4.DecryptFragment", via+"-data-offset", wit, fmt.Sprintf("trun data offset %d expected %d", df.Moof.Traf.Trun.DataOffset, cf.Moof.Traf.Trun.DataOffset))
		return
	}
	fail("mp4.DecryptFragment", via+"-bytes-differ", wit, "decrypted file is not byte-identical to the clear file")
}


// ---------------------------------------------------------------- whole files, the way mp4ff-encrypt / mp4ff-decrypt work

type fileOpts struct {
	nfrags  int
	styp    bool
	npssh   int // pssh boxes handed to InitProtect (moov)
	sidx    bool // a sidx box between styp and the first moof (one reference covering the fragments)
	optTrun bool // the clear fragments were written with OptimizeTrun (sample defaults in tfhd)
	baseVar int // 0: default-base-is-moof + trun data offset; 1: tfhd base_data_offset = moof start; 2: tfhd base_data_offset = mdat payload, trun without data offset
	sig     bool // sample size / duration / flags signalled per fragment in trun, in tfhd defaults or ONLY in the trex defaults (+ first-sample-flags)
	wide    wideOpts // init part: extra boxes in the stsd entry / moov / trak; fragments draw their own traf / moof extras
	wideOn  bool
}

// buildClearFile: init + one segment with nfrags fragments. Returns the bytes.
func (e *env) buildClearFile(codec byte, scheme string, fo fileOpts, r *hx.Rng) ([]byte, [][][]byte) {
	initF, err := mp4.DecodeFile(bytes.NewReader(e.initFor(codec)))
	must(err)
	trackID := initF.Init.Moov.Trak.Tkhd.TrackID
	applyWideInit(initF.Init, fo.wide)
	// a trex with non-trivial defaults, as an external packager writes it; the template sample is the one every
	// fragment that signals its sizes through trex.default_sample_size is made of
	var template []byte
	switch {
	case codec == 'u':
		template = genAudioSample(r, 0)
	case scheme == "cbcs":
		template = frame(genVideoSampleCbcs(e, r, codec, 0))
	default:
		template = frame(genVideoSampleCenc(r, codec, 0))
	}
	if fo.sig {
		trex := initF.Init.Moov.Mvex.Trex
		trex.DefaultSampleSize = uint32(len(template))
		trex.DefaultSampleDuration = 1024
		trex.DefaultSampleFlags = 0x01010000
	}
	var buf bytes.Buffer
	must(initF.Init.Encode(&buf))
	if fo.styp && !fo.sidx {
		styp := mp4.NewStyp("msdh", 0, []string{"msdh", "msix"})
		must(styp.Encode(&buf))
	}
	var all [][][]byte
	head := &buf
	var fragBuf bytes.Buffer
	if fo.sidx {
		// fragments go to a side buffer first: the sidx needs their total size
		buf = bytes.Buffer{}
		head = &bytes.Buffer{}
		must(initF.Init.Encode(head))
		styp := mp4.NewStyp("msdh", 0, []string{"msdh", "msix"})
		must(styp.Encode(head))
	}
	_ = fragBuf
	for k := 0; k < fo.nfrags; k++ {
		ns := r.Pick(1, 2, 3, 5)
		var samples [][]byte
		for j := 0; j < ns; j++ {
			switch {
			case codec == 'u':
				samples = append(samples, genAudioSample(r, 0))
			case scheme == "cbcs":
				samples = append(samples, frame(genVideoSampleCbcs(e, r, codec, 0)))
			default:
				samples = append(samples, frame(genVideoSampleCenc(r, codec, 0)))
			}
		}
		samples = withEmptySamples(r, codec, samples)
		sg := sigOpts{}
		if fo.sig {
			sg = sigOpts{size: r.Intn(3), dur: r.Intn(3), flags: r.Intn(3)}
			switch sg.size {
			case 1: // constant size, in tfhd
				for j := range samples {
					if codec == 'u' {
						samples[j] = r.Bytes(len(samples[0]), nil)
					} else {
						samples[j] = append([]byte{}, samples[0]...)
					}
				}
			case 2: // constant size, only in trex
				for j := range samples {
					if codec == 'u' {
						samples[j] = r.Bytes(len(template), nil)
					} else {
						samples[j] = append([]byte{}, template...)
					}
				}
			}
		}
		all = append(all, samples)
		o := fragOpts{extraMoof: r.Pick(0, 0, 1, 2), extraTraf: r.Pick(0, 1, 2), moofBefore: r.Bool()}
		if fo.wideOn {
			o.wide = genWide(r, false)
		}
		frag := buildFragment(trackID, samples, o, r)
		frag.Moof.Mfhd.SequenceNumber = uint32(k + 1)
		applySignalling(frag, sg)
		pos := uint64(buf.Len())
		tfhd := frag.Moof.Traf.Tfhd
		switch fo.baseVar {
		case 1:
			tfhd.Flags = (tfhd.Flags &^ 0x020000) | 0x01
			tfhd.BaseDataOffset = pos
		case 2:
			tfhd.Flags = (tfhd.Flags &^ 0x020000) | 0x01
			frag.Moof.Traf.Trun.Flags &^= mp4.TrunDataOffsetPresentFlag
			tfhd.BaseDataOffset = pos + frag.Moof.Size() + 8
		}
		if fo.optTrun {
			frag.EncOptimize = mp4.OptimizeTrun
		}
		must(frag.Encode(&buf))
	}
	if fo.sidx {
		sidx := &mp4.SidxBox{ReferenceID: trackID, Timescale: 90000, EarliestPresentationTime: 90000,
			SidxRefs: []mp4.SidxRef{{ReferencedSize: uint32(buf.Len()), SubSegmentDuration: 5000, StartsWithSAP: 1, SAPType: 1}}}
		must(sidx.Encode(head))
		head.Write(buf.Bytes())
		return head.Bytes(), all
	}
	return buf.Bytes(), all
}

// fileRoundTrip mirrors cmd/mp4ff-encrypt (DecodeFile, InitProtect, EncryptFragment per fragment, Encode) and
// cmd/mp4ff-decrypt (DecodeFile, DecryptInit, Init.Encode, DecryptSegment + Encode per segment).
var lastErr string

func fileRoundTrip(clearRaw []byte, scheme string, key, iv []byte, npssh int) (dec []byte, stage string) {
	dec, stage, _ = fileRoundTripEnc(clearRaw, scheme, key, iv, npssh)
	return dec, stage
}

// fileRoundTripEnc also returns the intermediate encrypted file
func fileRoundTripEnc(clearRaw []byte, scheme string, keyOwn, ivOwn []byte, npssh int) (dec []byte, stage string, enc []byte) {
	// encrypt side: re-used caller buffers; decrypt side (further down): the key in its own slice
	key, iv := reuse(&sharedKeyBuf, keyOwn), reuse(&sharedIVBuf, ivOwn)
	inF, err := mp4.DecodeFile(bytes.NewReader(clearRaw))
	if err != nil {
		return nil, "decode-clear", nil
	}
	kid, _ := mp4.NewUUIDFromString(kidHex)
	var psshs []*mp4.PsshBox
	for k := 0; k < npssh; k++ {
		ps, err := mp4.NewPsshBox("edef8ba979d64acea3c827dcd51d21ed", nil, []byte{byte(k), 7})
		must(err)
		psshs = append(psshs, ps)
	}
	var ipd *mp4.InitProtectData
	if p := hx.Try(func() { ipd, err = mp4.InitProtect(inF.Init, key, iv, scheme, kid, psshs) }); p != "" || err != nil {
		return nil, "init-protect-" + classOf(p, err), nil
	}
	for _, s := range inF.Segments {
		for _, f := range s.Fragments {
			if p := hx.Try(func() { err = mp4.EncryptFragment(f, key, iv, ipd) }); p != "" || err != nil {
				return nil, "encrypt-" + classOf(p, err), nil
			}
		}
	}
	// hygiene.go class 1: the caller's key / IV buffers are overwritten BEFORE the encrypted file is written
	scribbleBytes(key)
	scribbleBytes(iv)
	var eb bytes.Buffer
	if p := hx.Try(func() { err = inF.Encode(&eb) }); p != "" || err != nil {
		return nil, "encode-encrypted-" + classOf(p, err), nil
	}
	// class 3: another decoding of the encrypted file is first decrypted with a key the cipher refuses
	if bad, err := mp4.DecodeFile(bytes.NewReader(eb.Bytes())); err == nil && bad.Init != nil {
		_ = hx.Try(func() {
			if di, err := mp4.DecryptInit(bad.Init); err == nil {
				for _, sg := range bad.Segments {
					_ = mp4.DecryptSegment(sg, di, []byte{1, 2, 3})
				}
			}
		})
	}
	encF, err := mp4.DecodeFile(bytes.NewReader(eb.Bytes()))
	if err != nil {
		return nil, "decode-encrypted", eb.Bytes()
	}
	var di mp4.DecryptInfo
	if p := hx.Try(func() { di, err = mp4.DecryptInit(encF.Init) }); p != "" || err != nil {
		return nil, "decrypt-init-" + classOf(p, err), eb.Bytes()
	}
	var db bytes.Buffer
	if p := hx.Try(func() { err = encF.Init.Encode(&db) }); p != "" || err != nil {
		return nil, "encode-decrypted-init-" + classOf(p, err), eb.Bytes()
	}
	for _, sg := range encF.Segments {
		keyD := owned(keyOwn)
		p := hx.Try(func() { err = mp4.DecryptSegment(sg, di, keyD) })
		if !ownedIntact(keyD, keyOwn) {
			hygFail("mp4.DecryptSegment", "writes-into-argument", "DecryptSegment changed its key argument (or the bytes behind it)")
		}
		scribbleBytes(keyD) // before the decrypted segment is written
		if p != "" || err != nil {
			lastErr = fmt.Sprint(p, err)
			return nil, "decrypt-segment-" + classOf(p, err), eb.Bytes()
		}
		if p := hx.Try(func() { err = sg.Encode(&db) }); p != "" || err != nil {
			return nil, "encode-decrypted-" + classOf(p, err), eb.Bytes()
		}
	}
	return db.Bytes(), "ok", eb.Bytes()
}

func searchFiles(e *env, r *hx.Rng, n int) {
	for i := 0; i < n; i++ {
		codec := byte(r.Pick('a', 'h', 'u'))
		scheme := []string{"cenc", "cbcs"}[r.Intn(2)]
		fo := fileOpts{nfrags: r.Pick(1, 2, 3, 4), styp: r.Bool(), npssh: r.Pick(0, 0, 1, 2)}
		if i%5 == 4 {
			fo.baseVar = r.Pick(1, 2)
		} else if i%7 == 3 {
			fo.sidx = true
		}
		fo.optTrun = i%3 == 1 && fo.baseVar == 0
		fo.sig = i%2 == 0
		if i%3 != 0 {
			fo.wideOn = true
			fo.wide = genWide(r, false)
		}
		clearRaw, samples := e.buildClearFile(codec, scheme, fo, r)
		iv := genIV(r, r.Pick(8, 16))
		key := r.Bytes(16, nil)
		evals++
		wit := fmt.Sprintf("file codec=%c scheme=%s key=%s iv=%s opts=%+v clear=%s", codec, scheme, hx.Hex(key), hx.Hex(iv), fo, hx.Hex(clearRaw))
		// sanity: the clear file decodes and its samples are the generated ones (otherwise the generator is wrong)
		cf, err := mp4.DecodeFile(bytes.NewReader(clearRaw))
		if err != nil || len(cf.Segments) != 1 || len(cf.Segments[0].Fragments) != fo.nfrags {
			must(fmt.Errorf("generated clear file does not decode: %v", err))
		}
		for k, fr := range cf.Segments[0].Fragments {
			fss, err := fr.GetFullSamples(cf.Init.Moov.Mvex.Trex)
			if err != nil || len(fss) != len(samples[k]) {
				must(fmt.Errorf("generated clear file: fragment %d samples unreadable (%v)", k, err))
			}
			for j := range fss {
				if !bytes.Equal(fss[j].Data, samples[k][j]) {
					must(fmt.Errorf("generated clear file: fragment %d sample %d misplaced (baseVar %d)", k, j, fo.baseVar))
				}
			}
		}
		decRaw, stage, encRaw := fileRoundTripEnc(clearRaw, scheme, key, iv, fo.npssh)
		flushHyg(wit)
		if encRaw != nil && fo.baseVar == 0 {
			if d := e.checkEncrypted(encRaw, samples, codec, scheme, key); d != "" {
				fail("mp4.EncryptFragment", "file-not-encrypted-as-specified", wit, d)
			}
			// sizes, durations, flags, composition offsets and decode times of the ENCRYPTED file are the clear ones
			// (the defaults EncryptFragment's GetFullSamples wrote into trun.Samples must not reach the file)
			if d := metaDiff(clearRaw, encRaw); d != "" {
				fail("mp4.EncryptFragment", "file-encrypted-sample-metadata", wit, d)
			}
		}
		cls := "file"
		if fo.baseVar != 0 {
			cls = "file-tfhd-base-data-offset"
		}
		if fo.sidx {
			cls = "file-sidx"
		}
		if stage == "encrypt-err" {
			refused := false
			for _, fs := range samples {
				refused = refused || e.refusedSample(codec, scheme, fs)
			}
			if refused {
				continue // a fragment with an empty video sample: refused by the protection-range function
			}
		}
		if stage != "ok" {
			if fo.baseVar != 0 {
				fail("mp4.EncryptFragment+DecryptSegment", cls, wit, "clear file with an absolute tfhd base_data_offset: encrypt -> encode -> decode -> decrypt stops at "+stage+" ("+lastErr+")")
			} else {
				fail("mp4.EncryptFragment+DecryptSegment", cls+"-"+stage, wit, "clear file -> encrypt -> encode -> decode -> decrypt does not succeed: "+lastErr)
			}
			continue
		}
		if !bytes.Equal(decRaw, clearRaw) {
			// which clause?
			df, err := mp4.DecodeFile(bytes.NewReader(decRaw))
			desc := "decrypted file is not byte-identical to the clear file"
			if err != nil {
				desc = "decrypted file does not decode"
			} else if len(df.Segments) == 1 && len(df.Segments[0].Fragments) == fo.nfrags {
				for k, fr := range df.Segments[0].Fragments {
					fss, err := fr.GetFullSamples(df.Init.Moov.Mvex.Trex)
					if err != nil || len(fss) != len(samples[k]) {
						desc = fmt.Sprintf("fragment %d: samples unreadable after decrypt", k)
						break
					}
					bad := false
					for j := range fss {
						if !bytes.Equal(fss[j].Data, samples[k][j]) {
							desc = fmt.Sprintf("fragment %d sample %d not restored", k, j)
							bad = true
							break
						}
					}
					if bad {
						break
					}
				}
			}
			// which boxes? full child lists of every container; a difference below the top level is reported under
			// its own class (so that it is not taken for the known sidx finding)
			onlyTop := true
			if fo.baseVar == 0 {
				lists := compareChildLists(clearRaw, decRaw)
				for _, k := range sortedKeys(lists) {
					if k != "top" {
						onlyTop = false
						fail("mp4.EncryptFragment+DecryptSegment", "file-"+k+"-children", wit, lists[k])
					}
				}
				if d, ok := lists["top"]; ok {
					desc += "; " + d
				}
			}
			if fo.baseVar != 0 {
				fail("mp4.EncryptFragment+DecryptSegment", cls, wit, desc)
			} else if onlyTop {
				fail("mp4.EncryptFragment+DecryptSegment", cls+"-differs", wit, desc)
			}
		}
	}
}

// metaDiff: Sample fields and decode times of every fragment of two files (each read with its own trex)
func metaDiff(aRaw, bRaw []byte) string {
	a, err1 := mp4.DecodeFile(bytes.NewReader(aRaw))
	b, err2 := mp4.DecodeFile(bytes.NewReader(bRaw))
	if err1 != nil || err2 != nil || len(a.Segments) != 1 || len(b.Segments) != 1 || len(a.Segments[0].Fragments) != len(b.Segments[0].Fragments) {
		return "" // reported elsewhere
	}
	for k := range a.Segments[0].Fragments {
		x, e1 := a.Segments[0].Fragments[k].GetFullSamples(a.Init.Moov.Mvex.Trex)
		y, e2 := b.Segments[0].Fragments[k].GetFullSamples(b.Init.Moov.Mvex.Trex)
		if e1 != nil || e2 != nil {
			return ""
		}
		if metaString(x) != metaString(y) {
			return fmt.Sprintf("fragment %d: sample flags/dur/size/cto@time %s, clear file %s", k, trunc(metaString(y), 300), trunc(metaString(x), 300))
		}
	}
	return ""
}

// searchBins: the same round trip through the built mp4ff-encrypt / mp4ff-decrypt binaries.
func searchBins(e *env, r *hx.Rng, n int, bins string) {
	tmp, err := os.MkdirTemp("", "c06-bins-")
	must(err)
	defer os.RemoveAll(tmp)
	for i := 0; i < n; i++ {
		codec := byte(r.Pick('a', 'h', 'u'))
		scheme := []string{"cenc", "cbcs"}[r.Intn(2)]
		ns := r.Pick(1, 3, 5)
		var samples [][]byte
		for j := 0; j < ns; j++ {
			switch {
			case codec == 'u':
				samples = append(samples, genAudioSample(r, 1))
			case scheme == "cbcs":
				samples = append(samples, frame(genVideoSampleCbcs(e, r, codec, 1)))
			default:
				samples = append(samples, frame(genVideoSampleCenc(r, codec, 1)))
			}
		}
		samples = withEmptySamples(r, codec, samples)
		iv := genIV(r, r.Pick(8, 16))
		key := r.Bytes(16, nil)
		o := fragOpts{extraMoof: r.Pick(0, 1, 2), extraTraf: r.Pick(0, 1, 2, 3), moofBefore: r.Bool(), wide: genWide(r, false)}
		wit := fmt.Sprintf("binaries codec=%c scheme=%s key=%s iv=%s opts=%+v samples=%s", codec, scheme, hx.Hex(key), hx.Hex(iv), o, samplesField(samples))
		initF, err := mp4.DecodeFile(bytes.NewReader(e.initFor(codec)))
		must(err)
		clearRaw, clearF := e.clearFile(codec, initF.Init.Moov.Trak.Tkhd.TrackID, samples, o, r)
		in := filepath.Join(tmp, "clear.mp4")
		enc := filepath.Join(tmp, "enc.mp4")
		dec := filepath.Join(tmp, "dec.mp4")
		must(os.WriteFile(in, clearRaw, 0o600))
		evals++
		c1 := exec.Command(filepath.Join(bins, "mp4ff-encrypt"), "-kid", kidHex, "-key", hx.Hex(key), "-iv", hx.Hex(iv), "-scheme", scheme, in, enc)
		if ob, err := c1.CombinedOutput(); err != nil {
			if e.refusedSample(codec, scheme, samples) {
				continue // an empty video sample: refused by the protection-range function
			}
			fail("cmd/mp4ff-encrypt", "binary-encrypt-fails", wit, strings.TrimSpace(string(ob)))
			continue
		}
		c2 := exec.Command(filepath.Join(bins, "mp4ff-decrypt"), "-key", hx.Hex(key), enc, dec)
		if ob, err := c2.CombinedOutput(); err != nil {
			fail("cmd/mp4ff-decrypt", "binary-decrypt-fails", wit, strings.TrimSpace(string(ob)))
			continue
		}
		decRaw, err := os.ReadFile(dec)
		must(err)
		encRaw, _ := os.ReadFile(enc)
		if bytes.Equal(encRaw, clearRaw) {
			fail("cmd/mp4ff-encrypt", "binary-no-encryption", wit, "encrypted file equals the clear file")
		}
		compareWithClear(wit, "bin", clearRaw, clearF, decRaw, samples)
	}
}

// thirdParty: encrypted files of the repository: decryption keeps sample count, sizes and timing, and the
// decrypted file decodes with all samples in place.
func thirdParty(e *env) {
	cases := thirdPartyCases
	for _, c := range cases {
		evals++
		wit := c.file
		raw := readFile(repoDir, c.file)
		f, err := mp4.DecodeFile(bytes.NewReader(raw))
		if err != nil {
			fail("mp4.DecodeFile", "third-party-decode", wit, err.Error())
			continue
		}
		init := f.Init
		if init == nil && c.init != "" {
			fi, err := mp4.DecodeFile(bytes.NewReader(readFile(repoDir, c.init)))
			must(err)
			init = fi.Init
		}
		type meta struct {
			s  mp4.Sample
			dt uint64
		}
		collect := func(fl *mp4.File) ([]meta, bool) {
			var ms []meta
			for _, s := range fl.Segments {
				for _, fr := range s.Fragments {
					for _, traf := range fr.Moof.Trafs {
						var trex *mp4.TrexBox
						if init != nil && init.Moov.Mvex != nil {
							for _, tx := range init.Moov.Mvex.Trexs {
								if tx.TrackID == traf.Tfhd.TrackID {
									trex = tx
								}
							}
						}
						var fss []mp4.FullSample
						var err error
						if p := hx.Try(func() { fss, err = fr.GetFullSamples(trex) }); p != "" || err != nil {
							return nil, false // data offsets that point outside the mdat make GetFullSamples panic
						}
						for _, fs := range fss {
							ms = append(ms, meta{fs.Sample, fs.DecodeTime})
						}
					}
				}
			}
			return ms, true
		}
		before, ok := collect(f)
		if !ok {
			fail("mp4.Fragment.GetFullSamples", "third-party-samples", wit, "encrypted samples not readable")
			continue
		}
		key, _ := mp4.UnpackKey(c.key)
		var di mp4.DecryptInfo
		if p := hx.Try(func() { di, err = mp4.DecryptInit(init) }); p != "" || err != nil {
			fail("mp4.DecryptInit", "third-party-"+classOf(p, err), wit, "DecryptInit fails")
			continue
		}
		bad := false
		for _, s := range f.Segments {
			if p := hx.Try(func() { err = mp4.DecryptSegment(s, di, key) }); p != "" || err != nil {
				fail("mp4.DecryptSegment", "third-party-"+classOf(p, err), wit, "DecryptSegment fails")
				bad = true
				break
			}
		}
		if bad {
			continue
		}
		var ob bytes.Buffer
		if f.Init != nil {
			must(f.Init.Encode(&ob))
		}
		for _, s := range f.Segments {
			if err := s.Encode(&ob); err != nil {
				fail("mp4.MediaSegment.Encode", "third-party-encode", wit, err.Error())
				bad = true
			}
		}
		if bad {
			continue
		}
		g, err := mp4.DecodeFile(bytes.NewReader(ob.Bytes()))
		if err != nil {
			fail("mp4.DecodeFile", "third-party-redecode", wit, err.Error())
			continue
		}
		after, ok := collect(g)
		if !ok || len(after) != len(before) {
			fail("mp4.DecryptSegment", "third-party-sample-count", wit, fmt.Sprintf("%d samples before, %d after", len(before), len(after)))
			continue
		}
		for i := range before {
			if before[i] != after[i] {
				fail("mp4.DecryptSegment", "third-party-sample-metadata", wit, fmt.Sprintf("sample %d: %+v -> %+v", i, before[i], after[i]))
				break
			}
		}
	}
}

var repoDir = "/repo"

func main() {
	if len(os.Args) < 2 {
		fmt.Fprintln(os.Stderr, "usage: c06 corr|search [flags]")
		os.Exit(2)
	}
	fs := flag.NewFlagSet(os.Args[1], flag.ExitOnError)
	seed := fs.Uint64("seed", 0, "")
	n := fs.Int("n", 500, "")
	repo := fs.String("repo", "/repo", "")
	bins := fs.String("bins", "", "directory with the built mp4ff-encrypt and mp4ff-decrypt")
	_ = fs.Parse(os.Args[2:])
	repoDir = *repo
	e := loadEnv(*repo)
	switch os.Args[1] {
	case "corr":
		corr(e, *seed, *n)
	case "search":
		search(e, *seed, *n, *bins)
	default:
		os.Exit(2)
	}
}

// buffers a caller would re-use across calls; reuse copies v into the buffer in place and returns that slice
var sharedKeyBuf, sharedIVBuf []byte

func reuse(buf *[]byte, v []byte) []byte {
	if cap(*buf) < 64 {
		*buf = make([]byte, 64)
	}
	b := (*buf)[:len(v):len(v)]
	copy(b, v)
	return b
}
