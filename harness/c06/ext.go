package main

// Extension of the C06 harness: byte-level senc / saiz / saio correspondence (kinds E and M).

import (
	"bytes"
	"crypto/aes"
	"crypto/cipher"
	"encoding/binary"
	"fmt"
	"strconv"
	"strings"

	"github.com/Eyevinn/mp4ff/bits"
	"github.com/Eyevinn/mp4ff/mp4"
	"verifharness/hx"
)

// rawBox: a box found by walking bytes (independent of the mp4 decoder)
type rawBox struct {
	typ        string
	start, end int
}

// walkBoxes lists the boxes laid out in data[from:to] (compact headers only).
func walkBoxes(data []byte, from, to int) []rawBox {
	var res []rawBox
	pos := from
	for pos+8 <= to {
		sz := int(binary.BigEndian.Uint32(data[pos:]))
		if sz < 8 || pos+sz > to {
			break
		}
		res = append(res, rawBox{string(data[pos+4 : pos+8]), pos, pos + sz})
		pos += sz
	}
	return res
}

// sencState: what decryptSamplesInPlace will see
func sencState(s *mp4.SencBox) string {
	subs := 0
	if s.Flags&mp4.UseSubSampleEncryption != 0 {
		subs = 1
	}
	ivs := make([][]byte, len(s.IVs))
	for i := range s.IVs {
		ivs[i] = s.IVs[i]
	}
	return fmt.Sprintf("%d/%d/%d/%s/%s", s.GetPerSampleIVSize(), subs, s.SampleCount, listField(ivs), ssString(s.SubSamples))
}

// parseAs decodes a senc box from its bytes (both decoder paths) and brings it to the state DecryptFragment uses:
// parsed at once when SampleCount == 0 or there is no payload, ParseReadBox(p) otherwise.
func parseAs(data []byte, p byte) string {
	one := func(sr bool) string {
		var box mp4.Box
		var err error
		pn := hx.Try(func() {
			if sr {
				box, err = mp4.DecodeBoxSR(0, bits.NewFixedSliceReader(data))
			} else {
				box, err = mp4.DecodeBox(0, bytes.NewReader(data))
			}
		})
		if pn != "" {
			return "panic"
		}
		if err != nil {
			return "err"
		}
		s, ok := box.(*mp4.SencBox)
		if !ok {
			return "err"
		}
		if s.ReadButNotParsed() {
			pn = hx.Try(func() { err = s.ParseReadBox(p, nil) })
			if pn != "" {
				return "panic"
			}
			if err != nil {
				return "err"
			}
		}
		return "ok:" + sencState(s)
	}
	a, b := one(false), one(true)
	if a != b {
		return a + "!=SR:" + b
	}
	return a
}

// sencCases (kind E): the senc / saiz / saio boxes that EncryptFragment + Fragment.Encode really write, byte for
// byte, their positions, and what TrafBox.ParseReadSenc makes of them after decoding the file.
func (e *env) sencCases(r *hx.Rng, n int, next func() string) {
	for i := 0; i < n; i++ {
		codec := byte(r.Pick('a', 'h', 'u'))
		scheme := []string{"cenc", "cbcs"}[r.Intn(2)]
		ns := r.Pick(1, 2, 3, 4)
		var samples [][]byte
		for j := 0; j < ns; j++ {
			switch {
			case codec == 'u':
				samples = append(samples, genAudioSample(r, 0))
			case scheme == "cbcs":
				samples = append(samples, frame(genVideoSampleCbcs(e, r, codec, 0)))
			default:
				samples = append(samples, frame(genVideoSampleCenc(r, codec, 0)))
			}
		}
		samples = withEmptySamples(r, codec, samples)
		if codec != 'u' && ns >= 2 && r.Intn(25) == 0 { // one sample without any protection range
			samples[r.Intn(ns)] = []byte{0, 0, 0, 0}
		}
		key := r.Bytes(16, nil)
		iv := genIV(r, r.Pick(8, 16))
		o := fragOpts{extraMoof: r.Pick(0, 1, 2), extraTraf: r.Pick(0, 1, 2, 3), moofBefore: r.Bool(), wide: genWide(r, false)}
		// now and then the clear traf already carries a seig sample group (per-sample IV size 16 or 8): ParseReadSenc
		// lets it override the tenc IV size
		seig := "-"
		switch r.Intn(8) {
		case 0:
			o.wide.traf |= 1 << 11
			seig = "16"
		case 1:
			o.wide.traf |= 1 << 12
			seig = "8"
		}
		// the model's input: sample lengths and the protection ranges, computed independently of the fragment
		desc := make([]string, ns)
		okIn := true
		for j, s := range samples {
			rs := "-"
			if codec != 'u' {
				ssps, class := e.protectRanges(codec, s, scheme)
				if class != "ok" {
					okIn = false
				}
				rs = rangesString(ssps)
			}
			desc[j] = strconv.Itoa(len(s)) + ":" + rs
		}
		if !okIn {
			continue
		}
		fr := e.runFragment(codec, scheme, key, iv, samples, o, r)
		if fr.class != "ok" {
			emit("E", next(), scheme, hx.Hex(iv), strings.Join(desc, ";"), "-", "-", "0", "16", seig, fr.class)
			continue
		}
		seg := mp4.NewMediaSegmentWithoutStyp()
		seg.AddFragment(fr.frag)
		var buf bytes.Buffer
		must(fr.init.Init.Encode(&buf))
		var err error
		if p := hx.Try(func() { err = seg.Encode(&buf) }); p != "" || err != nil {
			emit("E", next(), scheme, hx.Hex(iv), strings.Join(desc, ";"), "-", "-", "0", "16", seig, "encode-"+classOf(p, err))
			continue
		}
		raw := buf.Bytes()
		// find the moof and its boxes by walking the bytes
		var moof rawBox
		for _, b := range walkBoxes(raw, 0, len(raw)) {
			if b.typ == "moof" {
				moof = b
			}
		}
		var before []int
		var trafc []string
		var sencB, saizB, saioB rawBox
		seenTraf := false
		for _, b := range walkBoxes(raw, moof.start+8, moof.end) {
			if b.typ != "traf" {
				if !seenTraf {
					before = append(before, b.end-b.start)
				}
				continue
			}
			seenTraf = true
			for _, c := range walkBoxes(raw, b.start+8, b.end) {
				switch c.typ {
				case "senc":
					sencB = c
					trafc = append(trafc, "s")
				case "saiz":
					saizB = c
					trafc = append(trafc, "z")
				case "saio":
					saioB = c
					trafc = append(trafc, "i")
				default:
					trafc = append(trafc, "o:"+strconv.Itoa(c.end-c.start))
				}
			}
		}
		tencIV := byte(fr.ipd.Tenc.DefaultPerSampleIVSize)
		obs := []string{"ok", hx.Hex(raw[sencB.start:sencB.end]), hx.Hex(raw[saizB.start:saizB.end]), hx.Hex(raw[saioB.start:saioB.end]),
			strconv.Itoa(sencB.start)}
		// the senc as DecryptFragment finds it after DecodeFile (which has run ParseReadSenc with the tenc IV size
		// of the moov), then ParseReadSenc on the moof decoded alone, with the tenc IV size and with 0 / 8 / 16
		dec, err := mp4.DecodeFile(bytes.NewReader(raw))
		if err != nil || len(dec.Segments) != 1 || len(dec.Segments[0].Fragments) != 1 {
			obs = append(obs, "err")
		} else {
			traf := dec.Segments[0].Fragments[0].Moof.Traf
			if has, parsed := traf.ContainsSencBox(); has && parsed {
				obs = append(obs, "ok:"+sencState(traf.Senc))
			} else {
				obs = append(obs, "unparsed")
			}
		}
		for _, p := range []byte{tencIV, 0, 8, 16} {
			var box mp4.Box
			pn := hx.Try(func() { box, err = mp4.DecodeBox(uint64(moof.start), bytes.NewReader(raw[moof.start:moof.end])) })
			mf, isMoof := box.(*mp4.MoofBox)
			if pn != "" || err != nil || !isMoof {
				obs = append(obs, "decode-err")
				continue
			}
			traf := mf.Traf
			st := "ok"
			if has, parsed := traf.ContainsSencBox(); has && !parsed {
				pn := hx.Try(func() { err = traf.ParseReadSenc(p, mf.StartPos) })
				st = classOf(pn, err)
			}
			if st == "ok" {
				st = "ok:" + sencState(traf.Senc)
			}
			obs = append(obs, st)
		}
		emit("E", next(), scheme, hx.Hex(iv), strings.Join(desc, ";"), hx.Csv(before), strings.Join(trafc, ","),
			strconv.Itoa(moof.start), strconv.Itoa(int(tencIV)), seig, strings.Join(obs, "|"))
	}
}

// encodeSencBytes writes a senc box from scratch (independent of SencBox.Encode)
func encodeSencBytes(version byte, flags uint32, count uint32, body []byte) []byte {
	b := make([]byte, 16, 16+len(body))
	binary.BigEndian.PutUint32(b[0:], uint32(16+len(body)))
	copy(b[4:], "senc")
	binary.BigEndian.PutUint32(b[8:], uint32(version)<<24|flags&0xffffff)
	binary.BigEndian.PutUint32(b[12:], count)
	return append(b, body...)
}

// sencMalformed (kind M): senc boxes of every shape (0/8/16-byte IVs, with and without sub-sample tables), then
// damaged: wrong flags, wrong counts, truncated / extended payload, size field beyond the data, version 1,
// random payload.  Parsed with perSampleIVSize 0 (infer), 8, 16 and 5.
func sencMalformed(r *hx.Rng, n int, next func() string) {
	for i := 0; i < n; i++ {
		ivsz := r.Pick(0, 8, 16)
		subs := r.Bool()
		count := r.Pick(0, 1, 1, 2, 3, 4)
		var body []byte
		for j := 0; j < count; j++ {
			if ivsz > 0 {
				iv := r.Bytes(ivsz, nil)
				if r.Intn(3) == 0 { // IVs that look like small sub-sample counts
					iv[0], iv[1] = 0, byte(r.Intn(4))
				}
				body = append(body, iv...)
			}
			if subs {
				k := r.Pick(0, 1, 1, 2, 3)
				body = append(body, byte(k>>8), byte(k))
				for l := 0; l < k; l++ {
					e := r.Bytes(6, nil)
					if r.Bool() {
						e[0], e[2], e[3] = 0, 0, 0
					}
					body = append(body, e...)
				}
			}
		}
		flags := uint32(0)
		if subs {
			flags = 2
		}
		version := byte(0)
		cnt := uint32(count)
		sizeDelta := 0
		switch r.Intn(12) {
		case 0:
			flags ^= 2
		case 1:
			flags |= uint32(r.Pick(1, 4, 0x100, 0x800000))
		case 2:
			cnt = uint32(int(cnt) + r.Pick(-1, 1, 2, 7))
		case 3:
			cnt = uint32(r.Pick(0, 255, 65536, 0x7fffffff, 0xffffffff))
		case 4:
			if len(body) > 0 {
				body = body[:r.Intn(len(body))]
			}
		case 5:
			body = append(body, r.Bytes(r.Pick(1, 2, 6, 8, 16), nil)...)
		case 6:
			sizeDelta = r.Pick(1, 8, 100) // size field beyond the data
		case 7:
			version = byte(r.Pick(1, 255))
		case 8:
			body = r.Bytes(r.Pick(0, 1, 2, 8, 16, 18, 24, 26, 48), []byte{0, 0, 0, 1, 2, 8, 255})
		case 9:
			body = nil
		}
		data := encodeSencBytes(version, flags, cnt, body)
		if sizeDelta != 0 {
			binary.BigEndian.PutUint32(data[0:], uint32(len(data)+sizeDelta))
		}
		if r.Intn(40) == 0 { // a box shorter than the 16 bytes DecodeSenc needs
			data = data[:r.Pick(8, 12, 15)]
			binary.BigEndian.PutUint32(data[0:], uint32(len(data)))
		}
		var obs []string
		for _, p := range []byte{0, 8, 16, 5} {
			obs = append(obs, parseAs(data, p))
		}
		emit("M", next(), hx.Hex(data), strings.Join(obs, "|"))
	}
}

// ---------------------------------------------------------------- how sample fields are signalled

// sigOpts: where a fragment carries sample size / duration / flags: 0 per sample in trun, 1 tfhd default,
// 2 nowhere in the fragment (trex default of the init segment); flags modes 1/2 use first-sample-flags.
type sigOpts struct{ size, dur, flags int }

// applySignalling rewrites the tfhd / trun flags of an API-built fragment (all fields per sample in trun) to the
// minimal signalling an external packager would use against the file's trex (default duration 1024, default
// flags 0x01010000, default size = the samples' common size).
func applySignalling(frag *mp4.Fragment, sg sigOpts) {
	traf := frag.Moof.Traf
	tfhd, trun := traf.Tfhd, traf.Trun
	n := len(trun.Samples)
	if n == 0 {
		return
	}
	switch sg.size {
	case 1:
		tfhd.Flags |= 0x10
		tfhd.DefaultSampleSize = trun.Samples[0].Size
		trun.Flags &^= mp4.TrunSampleSizePresentFlag
	case 2:
		trun.Flags &^= mp4.TrunSampleSizePresentFlag
	}
	switch sg.dur {
	case 1:
		for i := range trun.Samples {
			trun.Samples[i].Dur = 1001
		}
		tfhd.Flags |= 0x08
		tfhd.DefaultSampleDuration = 1001
		trun.Flags &^= mp4.TrunSampleDurationPresentFlag
	case 2:
		for i := range trun.Samples {
			trun.Samples[i].Dur = 1024
		}
		trun.Flags &^= mp4.TrunSampleDurationPresentFlag
	}
	if sg.flags != 0 {
		for i := range trun.Samples {
			trun.Samples[i].Flags = 0x01010000
		}
		trun.Samples[0].Flags = 0x02000000
		trun.Flags &^= mp4.TrunSampleFlagsPresentFlag
		trun.SetFirstSampleFlags(0x02000000)
		if sg.flags == 1 {
			tfhd.Flags |= 0x20
			tfhd.DefaultSampleFlags = 0x01010000
		}
	}
}

// ---------------------------------------------------------------- is the encrypted file encrypted as specified?

// refEncrypt: Common Encryption of one sample written from ISO/IEC 23001-7 with crypto/aes and crypto/cipher only.
// cenc: AES-CTR, one key stream over the concatenated protected ranges; cbcs: AES-CBC per protected range,
// restarted from the constant IV, blocks i with i mod (crypt+skip) < crypt (every full block when 0:0).
func refEncrypt(scheme string, key, iv []byte, subs []mp4.SubSamplePattern, cb, sb int, clear []byte) []byte {
	out := append([]byte{}, clear...)
	block, err := aes.NewCipher(key)
	must(err)
	iv16 := make([]byte, 16)
	copy(iv16, iv)
	type rng struct{ lo, hi int }
	var prot []rng
	if len(subs) == 0 {
		prot = []rng{{0, len(out)}}
	} else {
		pos := 0
		for _, s := range subs {
			pos += int(s.BytesOfClearData)
			hi := pos + int(s.BytesOfProtectedData)
			if hi > len(out) {
				hi = len(out)
			}
			if pos > len(out) {
				pos = len(out)
			}
			prot = append(prot, rng{pos, hi})
			pos = hi
		}
	}
	switch scheme {
	case "cenc":
		ctr := cipher.NewCTR(block, iv16)
		for _, p := range prot {
			ctr.XORKeyStream(out[p.lo:p.hi], out[p.lo:p.hi])
		}
	case "cbcs":
		for _, p := range prot {
			prev := append([]byte{}, iv16...)
			d := out[p.lo:p.hi]
			for i := 0; (i+1)*16 <= len(d); i++ {
				if (cb == 0 && sb == 0) || (cb+sb > 0 && i%(cb+sb) < cb) {
					b := d[i*16 : (i+1)*16]
					for k := range b {
						b[k] ^= prev[k]
					}
					block.Encrypt(b, b)
					copy(prev, b)
				}
			}
		}
	}
	return out
}

// checkEncrypted: in the file written by the encrypt side every sample of every fragment (located with the trex
// of the encrypted init, sizes as the fragment signals them) is the reference encryption of the clear sample
// under the IV / sub-sample map its senc entry carries, and that map is the one Get(AVC|HEVC)ProtectRanges
// gives for the clear sample (whole sample for audio).  "" when fine.
func (e *env) checkEncrypted(encRaw []byte, samples [][][]byte, codec byte, scheme string, key []byte) string {
	f, err := mp4.DecodeFile(bytes.NewReader(encRaw))
	if err != nil || f.Init == nil || len(f.Segments) != 1 || len(f.Segments[0].Fragments) != len(samples) {
		return "" // reported by the round trip
	}
	trak := f.Init.Moov.Trak
	sinf := f.Init.Moov.GetSinf(trak.Tkhd.TrackID)
	if sinf == nil || sinf.Schi == nil || sinf.Schi.Tenc == nil {
		return "encrypted init has no sinf/schi/tenc"
	}
	tenc := sinf.Schi.Tenc
	for k, fr := range f.Segments[0].Fragments {
		fss, err := fr.GetFullSamples(f.Init.Moov.Mvex.Trex)
		if err != nil || len(fss) != len(samples[k]) {
			return fmt.Sprintf("fragment %d of the encrypted file: %d samples readable, %d expected", k, len(fss), len(samples[k]))
		}
		senc := fr.Moof.Traf.Senc
		if senc == nil || senc.ReadButNotParsed() {
			return fmt.Sprintf("fragment %d of the encrypted file: no parsed senc", k)
		}
		if int(senc.SampleCount) != len(fss) {
			return fmt.Sprintf("fragment %d: senc describes %d samples, the trun %d", k, senc.SampleCount, len(fss))
		}
		// saiz: one entry per sample of the trun whenever the samples carry auxiliary information at all (cenc: always
		// a per-sample IV; cbcs: when every sample has a sub-sample map), empty samples included
		if saiz := fr.Moof.Traf.Saiz; saiz != nil && len(fss) > 0 {
			allSubs := len(senc.SubSamples) == len(fss)
			for _, ss := range senc.SubSamples {
				allSubs = allSubs && len(ss) > 0
			}
			if (scheme == "cenc" || allSubs) && int(saiz.SampleCount) != len(fss) {
				return fmt.Sprintf("fragment %d: saiz describes %d samples, the trun %d", k, saiz.SampleCount, len(fss))
			}
		}
		for j, fs := range fss {
			clear := samples[k][j]
			if len(fs.Data) != len(clear) {
				return fmt.Sprintf("fragment %d sample %d: %d bytes in the encrypted file, %d clear", k, j, len(fs.Data), len(clear))
			}
			iv := tenc.DefaultConstantIV
			if len(senc.IVs) == len(fss) {
				iv = senc.IVs[j]
			}
			var subs []mp4.SubSamplePattern
			if len(senc.SubSamples) > j {
				subs = senc.SubSamples[j]
			}
			if codec != 'u' {
				want, class := e.protectRanges(codec, clear, scheme)
				if class == "ok" && rangesString(want) != rangesString(subs) {
					return fmt.Sprintf("fragment %d sample %d: senc sub-sample map %s, protection ranges of the clear sample %s", k, j, rangesString(subs), rangesString(want))
				}
			} else if len(subs) != 0 {
				return fmt.Sprintf("fragment %d sample %d: audio sample with a sub-sample map", k, j)
			}
			ref := refEncrypt(scheme, key, iv, subs, int(tenc.DefaultCryptByteBlock), int(tenc.DefaultSkipByteBlock), clear)
			if !bytes.Equal(ref, fs.Data) {
				what := "differs from the reference encryption"
				if bytes.Equal(fs.Data, clear) {
					what = "is still the clear sample"
				}
				return fmt.Sprintf("fragment %d sample %d (%d bytes, map %s): the payload in the encrypted file %s", k, j, len(clear), rangesString(subs), what)
			}
		}
	}
	return ""
}

// ---------------------------------------------------------------- kind T: where the sample sizes come from

// trexCases: clear files written like an external packager would (sizes in trun, tfhd or only trex), decoded; for
// every fragment the sizes Fragment.GetFullSamples resolves with the file's trex and with a nil trex.
func (e *env) trexCases(r *hx.Rng, n int, next func() string) {
	for i := 0; i < n; i++ {
		codec := byte(r.Pick('a', 'h', 'u'))
		scheme := []string{"cenc", "cbcs"}[r.Intn(2)]
		fo := fileOpts{nfrags: r.Pick(1, 2, 3), styp: r.Bool(), sig: true, optTrun: r.Intn(4) == 0}
		raw, _ := e.buildClearFile(codec, scheme, fo, r)
		sizesWith := func(useTrex bool, k int) string {
			f, err := mp4.DecodeFile(bytes.NewReader(raw))
			if err != nil {
				return "decode-err"
			}
			fr := f.Segments[0].Fragments[k]
			var trex *mp4.TrexBox
			if useTrex {
				trex = f.Init.Moov.Mvex.Trex
			}
			var fss []mp4.FullSample
			p := hx.Try(func() { fss, err = fr.GetFullSamples(trex) })
			if p != "" {
				return "panic"
			}
			if err != nil {
				return "err"
			}
			var sz []int
			tot := 0
			for _, fs := range fss {
				sz = append(sz, len(fs.Data))
				tot += len(fs.Data)
			}
			return fmt.Sprintf("ok:%s/%d", hx.Csv(sz), len(fr.Mdat.Data)-tot)
		}
		f, err := mp4.DecodeFile(bytes.NewReader(raw))
		must(err)
		for k, fr := range f.Segments[0].Fragments {
			traf := fr.Moof.Traf
			trunS, tfhdS := "-", "-"
			if traf.Trun.HasSampleSize() {
				var sz []int
				for _, sm := range traf.Trun.Samples {
					sz = append(sz, int(sm.Size))
				}
				trunS = hx.Csv(sz)
				if len(sz) == 0 {
					trunS = "empty"
				}
			}
			if traf.Tfhd.HasDefaultSampleSize() {
				tfhdS = strconv.Itoa(int(traf.Tfhd.DefaultSampleSize))
			}
			emit("T", next(), strconv.Itoa(int(traf.Trun.SampleCount())), trunS, tfhdS,
				strconv.Itoa(int(f.Init.Moov.Mvex.Trex.DefaultSampleSize)), strconv.Itoa(len(fr.Mdat.Data)),
				sizesWith(true, k)+"|"+sizesWith(false, k))
		}
	}
}

// ---------------------------------------------------------------- kind Q: DecryptInit on several entries / tracks

// protectedEntry decodes one of the test inits, optionally retypes / decorates its sample entry (btrt, pasp, an
// unknown box, a sinf of its own), protects it with InitProtect and returns the file (moov, trak, stsd entry).
func (e *env) protectedInit(r *hx.Rng, codec byte, scheme string, protect bool) *mp4.File {
	f, err := mp4.DecodeFile(bytes.NewReader(e.initFor(codec)))
	must(err)
	stsd := f.Init.Moov.Trak.Mdia.Minf.Stbl.Stsd
	add := func(b mp4.Box) {
		switch se := stsd.Children[0].(type) {
		case *mp4.VisualSampleEntryBox:
			se.AddChild(b)
		case *mp4.AudioSampleEntryBox:
			se.AddChild(b)
		}
	}
	if r.Intn(3) == 0 {
		add(&mp4.BtrtBox{})
	}
	if r.Intn(3) == 0 {
		add(mp4.CreateUnknownBox("abcd", 8+3, []byte{1, 2, 3}))
	}
	if r.Intn(10) == 0 {
		sinf := &mp4.SinfBox{}
		sinf.AddChild(&mp4.FrmaBox{DataFormat: "zzzz"})
		sinf.AddChild(&mp4.SchmBox{SchemeType: "cenc", SchemeVersion: 65536})
		add(sinf)
	}
	if se, ok := stsd.Children[0].(*mp4.VisualSampleEntryBox); ok && r.Intn(3) == 0 {
		if codec == 'a' {
			se.SetType("avc3")
		} else {
			se.SetType("hev1")
		}
	}
	if protect {
		kid, _ := mp4.NewUUIDFromString(kidHex)
		_, err = mp4.InitProtect(f.Init, r.Bytes(16, nil), genIV(r, r.Pick(8, 16)), scheme, kid, nil)
		must(err)
	}
	return f
}

// entryCases: a moov assembled from entries / traks that InitProtect protected one by one (1-3 entries per stsd,
// 1-3 traks, clear entries and clear traks in between, pssh boxes, an own sinf now and then): DecryptInit.
func (e *env) entryCases(r *hx.Rng, n int, next func() string) {
	for i := 0; i < n; i++ {
		scheme := []string{"cenc", "cbcs"}[r.Intn(2)]
		base := e.protectedInit(r, byte(r.Pick('a', 'h', 'u')), scheme, r.Intn(6) != 0)
		moov := base.Init.Moov
		stsd := moov.Trak.Mdia.Minf.Stbl.Stsd
		for k := r.Pick(0, 0, 1, 2); k > 0; k-- { // more entries in the first trak
			sch := scheme
			if r.Intn(8) == 0 {
				sch = []string{"cenc", "cbcs"}[r.Intn(2)]
			}
			g := e.protectedInit(r, byte(r.Pick('a', 'h', 'u')), sch, r.Intn(4) != 0)
			stsd.AddChild(g.Init.Moov.Trak.Mdia.Minf.Stbl.Stsd.Children[0])
		}
		for k := r.Pick(0, 0, 1, 2); k > 0; k-- { // more traks
			g := e.protectedInit(r, byte(r.Pick('a', 'h', 'u')), []string{"cenc", "cbcs"}[r.Intn(2)], r.Intn(4) != 0)
			moov.AddChild(g.Init.Moov.Trak)
		}
		for k := r.Pick(0, 0, 1, 2); k > 0; k-- {
			ps, err := mp4.NewPsshBox("edef8ba979d64acea3c827dcd51d21ed", nil, []byte{byte(k)})
			must(err)
			moov.AddChild(ps)
		}
		t := &idTable{m: map[mp4.Box]int{}}
		before := moovString(t, moov)
		var di mp4.DecryptInfo
		var err error
		p := hx.Try(func() { di, err = mp4.DecryptInit(base.Init) })
		obs := classOf(p, err)
		if obs == "ok" {
			var infos []string
			for _, ti := range di.TrackInfos {
				if ti.Sinf == nil {
					infos = append(infos, "clear")
				} else {
					tn := "-"
					if ti.Sinf.Schi != nil {
						tn = tencString(ti.Sinf.Schi.Tenc)
					}
					infos = append(infos, ti.Sinf.Schm.SchemeType+"="+tn)
				}
			}
			is := "-"
			if len(infos) > 0 {
				is = strings.Join(infos, ",")
			}
			obs = "ok|" + moovString(t, moov) + "|" + is
		}
		emit("Q", next(), before, obs)
	}
}
