// C06 harness: cross-cutting hygiene oracles (see reports/hygiene-B.md; same helpers as harness/c07/hygiene.go).
//
//  1. ALIASING OF ARGUMENTS (extends `reuse`, which refills the caller's buffers only at the NEXT call): key / iv / kid are
//     overwritten as soon as InitProtect / EncryptFragment / DecryptFragment / DecryptSegment have returned - before anything is
//     encoded - so what was protected / decrypted must not depend on the caller's memory any more.
//  2. WRITES BEYOND len: key / iv carry guard bytes and must come back unchanged; the mdat payload stands between guard bytes
//     while EncryptFragment / DecryptFragment crypt the samples in place (documented in-place on the sample bytes only).
//  3. HIDDEN STATE BETWEEN CALLS: every encrypted fragment is decoded a second time and that copy is decrypted FIRST with a
//     key the cipher refuses (error) and then with the right key, around the decryption that is checked (checkDecryptTwice):
//     a failed call must not influence the next one, and the same input decrypted twice gives the same bytes.
package main

import (
	"bytes"

	"github.com/Eyevinn/mp4ff/mp4"

	"verifharness/hx"
)

const hygGuard = 32
const hygByte = 0x5a

func owned(b []byte) []byte {
	if b == nil {
		return nil
	}
	buf := make([]byte, len(b)+hygGuard)
	copy(buf, b)
	for i := len(b); i < len(buf); i++ {
		buf[i] = hygByte
	}
	return buf[:len(b)]
}

// ownedShared: like owned, but always in the SAME buffer per slot (a caller's key / IV buffer refilled in place for every call)
var sharedSlots [4][]byte

func ownedShared(slot int, b []byte) []byte {
	if b == nil {
		return nil
	}
	if len(b) > 64 {
		return owned(b)
	}
	if sharedSlots[slot] == nil {
		sharedSlots[slot] = make([]byte, 64+hygGuard)
	}
	buf := sharedSlots[slot][:len(b)+hygGuard]
	copy(buf, b)
	for i := len(b); i < len(buf); i++ {
		buf[i] = hygByte
	}
	return buf[:len(b):len(buf)]
}

func ownedIntact(own, orig []byte) bool {
	if !bytes.Equal(own, orig) {
		return false
	}
	for _, g := range own[len(own):cap(own)] {
		if g != hygByte {
			return false
		}
	}
	return true
}

func scribbleBytes(own []byte) {
	full := own[:cap(own)]
	for i := range full {
		full[i] = 0xc3 ^ byte(i*7)
	}
}

type hygNote struct{ site, class, desc string }

var hygNotes []hygNote

func hygFail(site, class, desc string) { hygNotes = append(hygNotes, hygNote{site, class, desc}) }

// flushHyg turns the hygiene failures noted since the last flush into FAIL lines (search only; corr drops them).
func flushHyg(wit string) {
	for _, n := range hygNotes {
		fail(n.site, n.class, wit, n.desc)
	}
	hygNotes = nil
}

// guardMdat: the fragment's payload becomes a sub-slice with guard bytes in front of and behind it.
func guardMdat(frag *mp4.Fragment) (whole []byte, n int) {
	if frag.Mdat == nil || frag.Mdat.IsLazy() {
		return nil, 0
	}
	data := frag.Mdat.Data
	n = len(data)
	whole = make([]byte, hygGuard+n+hygGuard)
	for i := range whole {
		whole[i] = hygByte
	}
	copy(whole[hygGuard:], data)
	frag.Mdat.SetData(whole[hygGuard : hygGuard+n])
	return whole, n
}

func guardsAround(whole []byte, n int) bool {
	if whole == nil {
		return true
	}
	for _, g := range whole[:hygGuard] {
		if g != hygByte {
			return false
		}
	}
	for _, g := range whole[hygGuard+n:] {
		if g != hygByte {
			return false
		}
	}
	return true
}

// decryptGuarded: DecryptFragment with the key as a scribbled private copy and the payload between guards.
func decryptGuarded(df *mp4.Fragment, di mp4.DecryptInfo, key []byte) (p string, err error) {
	whole, n := guardMdat(df)
	k := owned(key)
	p = hx.Try(func() { err = mp4.DecryptFragment(df, di, k) })
	if !ownedIntact(k, key) {
		hygFail("mp4.DecryptFragment", "writes-into-argument", "DecryptFragment changed its key argument (or the bytes behind it)")
	}
	if !guardsAround(whole, n) {
		hygFail("mp4.DecryptFragment", "writes-beyond-sample", "DecryptFragment changed bytes in front of or behind the media data (the mdat payload was a sub-slice of a larger buffer)")
	}
	scribbleBytes(k)
	return p, err
}

// checkDecryptTwice: class 3. encRaw = encoded init + one encrypted fragment. A second decoding of it is decrypted with a
// refused key (before) and with the right key (after the decryption under test, whose re-encoded fragment is want).
func failedDecryptFirst(encRaw []byte) {
	dec, err := mp4.DecodeFile(bytes.NewReader(encRaw))
	if err != nil || len(dec.Segments) != 1 || len(dec.Segments[0].Fragments) != 1 {
		return
	}
	var di mp4.DecryptInfo
	if p := hx.Try(func() { di, err = mp4.DecryptInit(dec.Init) }); p != "" || err != nil {
		return
	}
	bad := []byte{1, 2, 3, 4, 5} // not an AES key size: every crypt call fails
	_ = hx.Try(func() { _ = mp4.DecryptFragment(dec.Segments[0].Fragments[0], di, bad) })
}

func fragBytes(f *mp4.Fragment) []byte {
	var b bytes.Buffer
	if p := hx.Try(func() { _ = f.Encode(&b) }); p != "" {
		return nil
	}
	return b.Bytes()
}

func decryptAgain(encRaw []byte, key []byte, want []byte) {
	dec, err := mp4.DecodeFile(bytes.NewReader(encRaw))
	if err != nil || len(dec.Segments) != 1 || len(dec.Segments[0].Fragments) != 1 {
		return
	}
	var di mp4.DecryptInfo
	if p := hx.Try(func() { di, err = mp4.DecryptInit(dec.Init) }); p != "" || err != nil {
		hygFail("mp4.DecryptInit", "second-decrypt-differs", "DecryptInit fails on a second decoding of the same encrypted init")
		return
	}
	df := dec.Segments[0].Fragments[0]
	if p := hx.Try(func() { err = mp4.DecryptFragment(df, di, append([]byte{}, key...)) }); p != "" || err != nil {
		hygFail("mp4.DecryptFragment", "second-decrypt-differs", "DecryptFragment fails on a second decoding of an encrypted fragment it has just decrypted")
		return
	}
	if got := fragBytes(df); !bytes.Equal(got, want) {
		hygFail("mp4.DecryptFragment", "second-decrypt-differs", "decrypting a second decoding of the same encrypted fragment gives other bytes than the first time")
	}
}
