package main

// Third extension round: fragments with several trafs (multi-track) and several truns per traf, pssh boxes in the
// moof, clear tracks beside protected ones, boxes with 16-byte headers among the extras, a large-size mdat header.
// EncryptFragment handles single-traf single-trun fragments only, so the inputs are built "third-party style": every
// track is protected with the library (InitProtect + EncryptFragment on a single-trun fragment of its own), then the
// harness takes the track's tfhd / tfdt / samples / saiz / saio / senc and the encrypted bytes and assembles ONE moof
// + mdat by hand: trafs in any order, each trun split in m truns, protection boxes at any position, truns written to
// the mdat in any (interleaved) order, data offsets and saio offsets computed from the box sizes.  The same assembly
// without the protection boxes, on the clear bytes, is the reference the decrypted fragment is compared with.

import (
	"bytes"
	"encoding/binary"
	"fmt"
	"strconv"
	"strings"

	"github.com/Eyevinn/mp4ff/mp4"
	"verifharness/hx"
)

// largeBoxBytes: a box with a 16-byte header (size field 1 + 64-bit largesize)
func largeBoxBytes(typ string, payload []byte) []byte {
	b := make([]byte, 16, 16+len(payload))
	binary.BigEndian.PutUint32(b[0:4], 1)
	copy(b[4:8], typ)
	binary.BigEndian.PutUint64(b[8:16], uint64(16+len(payload)))
	return append(b, payload...)
}

type mTrack struct {
	codec     byte
	scheme    string // "" = clear track
	trackID   uint32
	iv        []byte
	samples   [][]byte // clear
	split     []int    // samples per trun
	extras    []int    // kinds of extra boxes in the traf (index into mExtraTraf), placed by `place`
	protPlace []int    // positions (among the children after tfhd/tfdt) where saiz, saio, senc go
	trunPlace []int
	noTrex    bool
	fragID    uint32 // != 0: the traf carries this track id, unknown to the init segment
	sameAs    int    // > 0: a further traf of track tracks[sameAs-1] (ISO 14496-12: zero or more trafs per track)
}

type mSpec struct {
	tracks    []mTrack
	order     []int // traf order in the moof (indices into tracks)
	npssh     int
	psshPlace []int
	moofExtra []int // kinds of extra boxes in the moof
	moofPlace []int
	writeOrd  []int // permutation of all truns (global index in moof order): order of their data in the mdat
	largeMdat bool
	start     int // bytes (a free box) between init and moof: 0 or some
	key       []byte
}

func (s mSpec) String() string {
	var ts []string
	for _, t := range s.tracks {
		ts = append(ts, fmt.Sprintf("{%c %q id=%d iv=%s n=%d split=%v extras=%v prot=%v trun=%v}", t.codec, t.scheme, t.trackID,
			hx.Hex(t.iv), len(t.samples), t.split, t.extras, t.protPlace, t.trunPlace))
	}
	return fmt.Sprintf("tracks=%s order=%v npssh=%d@%v moofExtra=%v@%v write=%v largeMdat=%v start=%d key=%s",
		strings.Join(ts, ""), s.order, s.npssh, s.psshPlace, s.moofExtra, s.moofPlace, s.writeOrd, s.largeMdat, s.start, hx.Hex(s.key))
}

// largeBoxesOK: an unknown box with a 16-byte header must decode, answer Size() = its length and encode to its bytes;
// the multi-track generators put such boxes into traf and moof (asBox would abort the harness otherwise)
func largeBoxesOK() bool {
	raw := largeBoxBytes("lbig", []byte{1, 2, 3})
	ok := false
	hx.Try(func() {
		box, err := mp4.DecodeBox(0, bytes.NewReader(raw))
		if err != nil || box.Size() != uint64(len(raw)) {
			return
		}
		var b bytes.Buffer
		ok = box.Encode(&b) == nil && bytes.Equal(b.Bytes(), raw)
	})
	return ok
}

// extra boxes: index -> bytes (built fresh every time: boxes are owned by one tree)
func mExtraTrafBox(kind, nsamples int) mp4.Box {
	switch kind {
	case 0:
		return asBox(largeBoxBytes("lbig", bytes.Repeat([]byte{0xab}, 21))) // unknown box, 16-byte header
	case 1:
		return asBox(boxBytes("abcd", []byte{1, 2, 3, 4, 5}))
	case 2:
		return mp4.NewTfxdBox(12345678, 2000)
	case 3:
		return asBox(subsBytes(nsamples))
	case 4:
		return asBox(sbgpBytes("roll", nsamples, 0x10001))
	case 5:
		return asBox(sgpdBytes("roll", groupEntry("roll", 3)))
	case 6:
		return asBox(unknownUUIDBytes(3))
	case 7:
		return asBox(largeBoxBytes("lzer", nil)) // 16-byte header, empty payload
	case 9: // sample auxiliary information of another kind (aux_info_type "test") in a CLEAR track: not protection signalling
		return asBox(fullBoxBytes("saiz", 0, 1, []byte("test"), u32(0), []byte{3}, u32(uint32(nsamples))))
	case 10:
		return asBox(fullBoxBytes("saio", 0, 1, []byte("test"), u32(0), u32(1), u32(77)))
	}
	return asBox(boxBytes("free", []byte{9, 9, 9}))
}

func mExtraMoofBox(kind int) mp4.Box {
	switch kind {
	case 0:
		return asBox(largeBoxBytes("LBIG", bytes.Repeat([]byte{0xcd}, 33)))
	case 1:
		return asBox(boxBytes("wxyz", []byte{1, 2, 3}))
	case 2:
		return asBox(unknownUUIDBytes(1))
	case 3:
		return asBox(boxBytes("skip", []byte{5}))
	}
	return asBox(boxBytes("free", []byte{7, 7, 7, 7, 7, 7}))
}

func genMulti(e *env, r *hx.Rng) mSpec {
	s := mSpec{key: r.Bytes(16, nil)}
	k := r.Pick(1, 2, 2, 3)
	ids := []uint32{1, 2, 3, 7, 0x10203}
	for i := len(ids) - 1; i > 0; i-- {
		j := r.Intn(i + 1)
		ids[i], ids[j] = ids[j], ids[i]
	}
	anyProt := false
	ntruns := 0
	for i := 0; i < k; i++ {
		t := mTrack{codec: byte(r.Pick('a', 'h', 'u')), trackID: ids[i]}
		t.scheme = []string{"cenc", "cbcs", "cenc", "cbcs", ""}[r.Intn(5)]
		if i == k-1 && !anyProt {
			t.scheme = []string{"cenc", "cbcs"}[r.Intn(2)]
		}
		if t.scheme != "" {
			anyProt = true
		}
		t.iv = genIV(r, r.Pick(8, 16))
		ns := r.Pick(1, 2, 3, 4, 5)
		for j := 0; j < ns; j++ {
			switch {
			case t.codec == 'u':
				t.samples = append(t.samples, genAudioSample(r, 0))
			case t.scheme == "cbcs":
				t.samples = append(t.samples, frame(genVideoSampleCbcs(e, r, t.codec, 0)))
			default:
				t.samples = append(t.samples, frame(genVideoSampleCenc(r, t.codec, 0)))
			}
		}
		t.samples = withEmptySamples(r, t.codec, t.samples)
		m := r.Pick(1, 1, 2, 3)
		if m > ns {
			m = ns
		}
		// split ns samples into m non-empty truns
		left := ns
		for j := 0; j < m; j++ {
			c := 1
			if j == m-1 {
				c = left
			} else if left-(m-1-j) > 1 {
				c = 1 + r.Intn(left-(m-1-j))
			}
			t.split = append(t.split, c)
			left -= c
		}
		ne := r.Pick(0, 0, 1, 2, 3)
		for j := 0; j < ne; j++ {
			t.extras = append(t.extras, r.Intn(9))
		}
		if t.scheme == "" && r.Bool() {
			t.extras = append(t.extras, 9, 10) // a clear track may carry saiz / saio of its own: DecryptFragment must leave them
		}
		for j := 0; j < 3; j++ {
			t.protPlace = append(t.protPlace, r.Intn(8))
		}
		for j := 0; j < m; j++ {
			t.trunPlace = append(t.trunPlace, r.Intn(8))
		}
		ntruns += m
		if r.Intn(25) == 0 {
			t.fragID = 99 // malformed: a traf of a track the init segment does not know (treated as clear: left alone)
		}
		s.tracks = append(s.tracks, t)
	}
	if r.Intn(4) == 0 {
		// a further traf of the first track (same trak / trex / tenc): ISO 14496-12 allows several trafs per track in a moof
		t := s.tracks[0]
		t.sameAs = 1
		t.samples = nil
		ns := r.Pick(1, 2, 3)
		for j := 0; j < ns; j++ {
			switch {
			case t.codec == 'u':
				t.samples = append(t.samples, genAudioSample(r, 0))
			case t.scheme == "cbcs":
				t.samples = append(t.samples, frame(genVideoSampleCbcs(e, r, t.codec, 0)))
			default:
				t.samples = append(t.samples, frame(genVideoSampleCenc(r, t.codec, 0)))
			}
		}
		t.samples = withEmptySamples(r, t.codec, t.samples)
		t.split = []int{ns}
		t.trunPlace = t.trunPlace[:1]
		if t.scheme == "cenc" {
			t.iv = genIV(r, 16)
		}
		ntruns++
		k++
		s.tracks = append(s.tracks, t)
	}
	s.order = rperm(r, k)
	s.npssh = r.Pick(0, 1, 1, 2)
	for j := 0; j < s.npssh; j++ {
		s.psshPlace = append(s.psshPlace, r.Intn(8))
	}
	ne := r.Pick(0, 0, 1, 2, 3)
	for j := 0; j < ne; j++ {
		s.moofExtra = append(s.moofExtra, r.Intn(5))
		s.moofPlace = append(s.moofPlace, r.Intn(8))
	}
	s.writeOrd = rperm(r, ntruns)
	s.largeMdat = r.Intn(4) == 0
	s.start = r.Pick(0, 0, 8, 24)
	return s
}

func rperm(r *hx.Rng, n int) []int {
	p := make([]int, n)
	for i := range p {
		p[i] = i
	}
	for i := n - 1; i > 0; i-- {
		j := r.Intn(i + 1)
		p[i], p[j] = p[j], p[i]
	}
	return p
}

// insertAt puts b at position p (clamped, never before index lo) of the list
func insertAt(l []mp4.Box, lo, p int, b mp4.Box) []mp4.Box {
	p = lo + p%(len(l)-lo+1)
	l = append(l, nil)
	copy(l[p+1:], l[p:])
	l[p] = b
	return l
}

type mBuilt struct {
	class    string // ok | skip:<why>
	encRaw   []byte // init + [free] + moof + mdat, protected
	clearRaw []byte // [free] + moof + mdat of the clear reference (no init)
	initLen  int
	clearOff [][]int32 // expected trun data offsets per traf (moof order) after decryption
}

// trackPieces protects one track with the library and returns its boxes
type mPieces struct {
	trak             *mp4.TrakBox
	trex             *mp4.TrexBox
	tfhd             *mp4.TfhdBox
	tfdt             *mp4.TfdtBox
	samples          []mp4.Sample
	trunFlags        uint32
	enc              [][]byte
	saiz, saio, senc mp4.Box
}

func (e *env) multiPieces(t mTrack, key []byte, protect bool) (mPieces, string) {
	p := mPieces{}
	initF, err := mp4.DecodeFile(bytes.NewReader(e.initFor(t.codec)))
	must(err)
	init := initF.Init
	init.Moov.Trak.Tkhd.TrackID = t.trackID
	init.Moov.Mvex.Trex.TrackID = t.trackID
	frag := buildFragment(t.trackID, t.samples, fragOpts{}, nil)
	if protect && t.scheme != "" {
		kid, _ := mp4.NewUUIDFromString(kidHex)
		ipd, err := mp4.InitProtect(init, append([]byte{}, key...), append([]byte{}, t.iv...), t.scheme, kid, nil)
		if err != nil {
			return p, "initprotect"
		}
		var eerr error
		if pp := hx.Try(func() { eerr = mp4.EncryptFragment(frag, append([]byte{}, key...), append([]byte{}, t.iv...), ipd) }); pp != "" || eerr != nil {
			return p, "encryptfragment"
		}
		p.saiz, p.saio, p.senc = frag.Moof.Traf.Saiz, frag.Moof.Traf.Saio, frag.Moof.Traf.Senc
	}
	p.trak, p.trex = init.Moov.Trak, init.Moov.Mvex.Trex
	p.tfhd, p.tfdt = frag.Moof.Traf.Tfhd, frag.Moof.Traf.Tfdt
	if t.fragID != 0 {
		p.tfhd.TrackID = t.fragID
	}
	p.samples = frag.Moof.Traf.Trun.Samples
	p.trunFlags = frag.Moof.Traf.Trun.Flags
	fss, err := frag.GetFullSamples(p.trex)
	must(err)
	for _, fs := range fss {
		p.enc = append(p.enc, append([]byte{}, fs.Data...))
	}
	return p, ""
}

// assemble builds moof + mdat bytes; protect=false gives the clear reference
func (e *env) assemble(s mSpec, protect bool) (frag []byte, init *mp4.InitSegment, offs [][]int32, why string) {
	moof := &mp4.MoofBox{}
	_ = moof.AddChild(mp4.CreateMfhd(7))
	init = mp4.CreateEmptyInit()
	type trunRef struct {
		trun *mp4.TrunBox
		data []byte
	}
	var truns []trunRef
	var trafs []*mp4.TrafBox
	var saios []*mp4.SaioBox
	for _, ti := range s.order {
		t := s.tracks[ti]
		p, w := e.multiPieces(t, s.key, protect)
		if w != "" {
			return nil, nil, nil, w
		}
		if t.sameAs == 0 {
			init.Moov.AddChild(p.trak)
			if !t.noTrex {
				init.Moov.Mvex.AddChild(p.trex)
			}
		}
		ch := []mp4.Box{p.tfhd, p.tfdt}
		// truns first (in order), then extras and protection boxes inserted at their places
		var my []*mp4.TrunBox
		at := 0
		for _, c := range t.split {
			tr := mp4.CreateTrun(0)
			tr.Flags = p.trunFlags
			var data []byte
			for j := at; j < at+c; j++ {
				tr.AddSample(p.samples[j])
				data = append(data, p.enc[j]...)
			}
			at += c
			my = append(my, tr)
			truns = append(truns, trunRef{tr, data})
			ch = append(ch, tr)
		}
		for i, k := range t.extras {
			ch = insertAt(ch, 2, t.trunPlace[i%len(t.trunPlace)]+i, mExtraTrafBox(k, len(t.samples)))
		}
		if protect && t.scheme != "" {
			ch = insertAt(ch, 2, t.protPlace[0], p.saiz)
			ch = insertAt(ch, 2, t.protPlace[1], p.saio)
			ch = insertAt(ch, 2, t.protPlace[2], p.senc)
			saios = append(saios, p.saio.(*mp4.SaioBox))
		} else {
			saios = append(saios, nil)
		}
		traf := &mp4.TrafBox{}
		for _, c := range ch {
			_ = traf.AddChild(c)
		}
		trafs = append(trafs, traf)
		_ = moof.AddChild(traf)
	}
	mch := moof.Children
	for i, k := range s.moofExtra {
		mch = insertAt(mch, 0, s.moofPlace[i], mExtraMoofBox(k))
	}
	if protect {
		for i := 0; i < s.npssh; i++ {
			pssh, err := mp4.NewPsshBox("edef8ba979d64acea3c827dcd51d21ed", nil, bytes.Repeat([]byte{byte(i + 1)}, 4+3*i))
			must(err)
			mch = insertAt(mch, 0, s.psshPlace[i], pssh)
		}
	}
	moof2 := &mp4.MoofBox{}
	for _, c := range mch {
		_ = moof2.AddChild(c)
	}
	moof = moof2
	// saio offsets: position of the senc data relative to the moof start
	pos := uint64(8)
	for _, c := range moof.Children {
		if traf, ok := c.(*mp4.TrafBox); ok {
			q := pos + 8
			for _, tc := range traf.Children {
				if tc.Type() == "senc" {
					for i, tt := range trafs {
						if tt == traf && saios[i] != nil {
							saios[i].Offset[0] = int64(q + 16)
						}
					}
				}
				q += tc.Size()
			}
		}
		pos += c.Size()
	}
	// mdat: the truns' data in write order
	mdat := &mp4.MdatBox{}
	if s.largeMdat {
		mdat.LargeSize = true
	}
	hdr := uint64(8)
	if s.largeMdat {
		hdr = 16
	}
	at := uint64(0)
	for _, gi := range s.writeOrd {
		tr := truns[gi]
		tr.trun.DataOffset = int32(moof.Size() + hdr + at)
		mdat.AddSampleData(tr.data)
		at += uint64(len(tr.data))
	}
	for _, traf := range trafs {
		var o []int32
		for _, tr := range traf.Truns {
			o = append(o, tr.DataOffset)
		}
		offs = append(offs, o)
	}
	var buf bytes.Buffer
	if s.start > 0 {
		must(asBox(boxBytes("free", make([]byte, s.start-8))).Encode(&buf))
	}
	must(moof.Encode(&buf))
	must(mdat.Encode(&buf))
	return buf.Bytes(), init, offs, ""
}

func (e *env) buildMulti(s mSpec) mBuilt {
	res := mBuilt{}
	var encFrag, clearFrag []byte
	var init *mp4.InitSegment
	var why string
	if p := hx.Try(func() {
		encFrag, init, _, why = e.assemble(s, true)
		if why == "" {
			clearFrag, _, res.clearOff, why = e.assemble(s, false)
		}
	}); p != "" {
		res.class = "skip:generator-panic " + p
		return res
	}
	if why != "" {
		res.class = "skip:" + why
		return res
	}
	var buf bytes.Buffer
	must(init.Encode(&buf))
	res.initLen = buf.Len()
	buf.Write(encFrag)
	res.encRaw = buf.Bytes()
	res.clearRaw = clearFrag
	res.class = "ok"
	return res
}

// ---------------------------------------------------------------- observables for the model (H lines)

func offsString(traf *mp4.TrafBox) string {
	if len(traf.Truns) == 0 {
		return "-"
	}
	ss := make([]string, len(traf.Truns))
	for i, tr := range traf.Truns {
		ss[i] = strconv.Itoa(int(tr.DataOffset))
	}
	return strings.Join(ss, ",")
}

func trexOf(init *mp4.InitSegment, id uint32) *mp4.TrexBox {
	if init.Moov.Mvex == nil {
		return nil
	}
	for _, tx := range init.Moov.Mvex.Trexs {
		if tx.TrackID == id {
			return tx
		}
	}
	return nil
}

// xmoofString: T!track!tboxes!offsets!ivs!subs!data | P:size:id | O:size:id joined by '+'
func xmoofString(t *idTable, f *mp4.Fragment, init *mp4.InitSegment, withSenc bool) string {
	m := f.Moof
	ss := make([]string, len(m.Children))
	for i, c := range m.Children {
		switch x := c.(type) {
		case *mp4.TrafBox:
			ivs, subs := "-", "-"
			if withSenc {
				var senc *mp4.SencBox
				if x.Senc != nil {
					senc = x.Senc
				} else if x.UUIDSenc != nil {
					senc = x.UUIDSenc.Senc
				}
				if senc != nil {
					l := make([][]byte, len(senc.IVs))
					for j := range senc.IVs {
						l[j] = senc.IVs[j]
					}
					ivs, subs = listField(l), ssString(senc.SubSamples)
				}
			}
			// the samples of THIS traf, read from the mdat at the trun data offsets with the sizes the truns carry
			data := "panic"
			if hx.Try(func() {
				var l [][]byte
				for _, tr := range x.Truns {
					from := int64(m.StartPos) + int64(tr.DataOffset) - int64(f.Mdat.PayloadAbsoluteOffset())
					for _, smp := range tr.Samples {
						l = append(l, f.Mdat.Data[from:from+int64(smp.Size)])
						from += int64(smp.Size)
					}
				}
				data = samplesField(l)
			}) != "" {
				data = "panic"
			}
			ss[i] = strings.Join([]string{"T", strconv.Itoa(int(x.Tfhd.TrackID)), tboxesString(t, x.Children), offsString(x), ivs, subs, data}, "!")
		case *mp4.PsshBox:
			ss[i] = fmt.Sprintf("P:%d:%d", c.Size(), t.id(c))
		default:
			ss[i] = fmt.Sprintf("O:%d:%d", c.Size(), t.id(c))
		}
	}
	return strings.Join(ss, "+")
}

func diString(di mp4.DecryptInfo) string {
	var ss []string
	for _, ti := range di.TrackInfos {
		if ti.Sinf == nil {
			ss = append(ss, fmt.Sprintf("%d=-", ti.TrackID))
			continue
		}
		tenc := ti.Sinf.Schi.Tenc
		ss = append(ss, fmt.Sprintf("%d=%s/%s/%d/%d", ti.TrackID, ti.Sinf.Schm.SchemeType, hx.Hex(tenc.DefaultConstantIV),
			tenc.DefaultCryptByteBlock, tenc.DefaultSkipByteBlock))
	}
	if len(ss) == 0 {
		return "-"
	}
	return strings.Join(ss, ",")
}

type mRun struct {
	class  string
	dec    *mp4.File
	frag   *mp4.Fragment
	di     mp4.DecryptInfo
	before string
	after  string
	mstart uint64
	dstart uint64
}

// runMulti decodes the protected bytes, snapshots the fragment, runs DecryptInit + DecryptFragment
func runMulti(b mBuilt, key []byte, parseSenc bool) mRun {
	res := mRun{}
	dec, err := mp4.DecodeFile(bytes.NewReader(b.encRaw))
	if err != nil || dec.Init == nil || len(dec.Segments) != 1 || len(dec.Segments[0].Fragments) != 1 {
		res.class = "decode"
		return res
	}
	res.dec = dec
	f := dec.Segments[0].Fragments[0]
	res.frag = f
	var di mp4.DecryptInfo
	if p := hx.Try(func() { di, err = mp4.DecryptInit(dec.Init) }); p != "" || err != nil {
		res.class = "decryptinit-" + classOf(p, err)
		return res
	}
	res.di = di
	if parseSenc {
		for _, traf := range f.Moof.Trafs {
			if has, parsed := traf.ContainsSencBox(); has && !parsed {
				for _, ti := range di.TrackInfos {
					if ti.TrackID == traf.Tfhd.TrackID && ti.Sinf != nil {
						if perr := traf.ParseReadSenc(ti.Sinf.Schi.Tenc.DefaultPerSampleIVSize, f.Moof.StartPos); perr != nil {
							res.class = "parse-senc" // the senc parser has its own cases (E / M lines)
							return res
						}
					}
				}
			}
		}
	}
	t := &idTable{m: map[mp4.Box]int{}}
	res.before = xmoofString(t, f, dec.Init, true)
	res.mstart, res.dstart = f.Moof.StartPos, f.Mdat.StartPos
	p := hx.Try(func() { err = mp4.DecryptFragment(f, di, key) })
	res.class = classOf(p, err)
	if res.class == "ok" {
		res.after = xmoofString(t, f, dec.Init, false)
	}
	return res
}

// multiCases: H lines
func (e *env) multiCases(r *hx.Rng, n int, next func() string) {
	if !largeBoxesOK() {
		return // kind Z reports it
	}
	for i := 0; i < n; i++ {
		s := genMulti(e, r)
		key := s.key
		b := e.buildMulti(s)
		if b.class != "ok" {
			continue
		}
		// malformed stream: a fragment whose protection boxes are incomplete / a refused scheme / an unknown track
		mal := r.Intn(5)
		if mal == 0 {
			b.encRaw = damageMulti(r, b.encRaw, b.initLen)
		}
		rn := runMulti(b, key, true)
		if rn.before == "" {
			continue
		}
		obs := rn.class
		if rn.class == "ok" {
			obs = fmt.Sprintf("ok:%s|%d", rn.after, rn.frag.Mdat.StartPos)
		}
		emit("H", next(), strconv.FormatUint(rn.mstart, 10), rn.before, strconv.FormatUint(rn.dstart, 10),
			diString(rn.di), hx.Hex(key), obs)
	}
}

// damageMulti renames one box inside the fragment part (senc -> free-like unknown, schm scheme in the init, saiz):
// the file still decodes, DecryptFragment has to refuse or to cope
func damageMulti(r *hx.Rng, raw []byte, initLen int) []byte {
	out := append([]byte{}, raw...)
	var pat, rep string
	switch r.Intn(6) {
	case 0, 4, 5:
		pat, rep = "senc", "sen0"
	case 1:
		pat, rep = "saiz", "sai0"
	case 2:
		pat, rep = "pssh", "pss0"
	default:
		pat, rep = "saio", "sai1"
	}
	idx := bytes.Index(out[initLen:], []byte(pat))
	if idx >= 0 {
		copy(out[initLen+idx:], rep)
	}
	return out
}

// ---------------------------------------------------------------- search: the property on multi-track fragments

// searchMulti: protected multi-track / multi-trun fragment -> decode -> DecryptInit + DecryptFragment -> encode
// (Fragment.Encode, as MediaSegment.Encode does) must give the clear reference fragment byte for byte; every trun of
// every traf must address the clear bytes of its own samples; every non-protection box stays.
func searchMulti(e *env, r *hx.Rng, n int) {
	if !largeBoxesOK() {
		evals++
		fail("mp4.UnknownBox", "large-header-box-size", hx.Hex(largeBoxBytes("lbig", []byte{1, 2, 3})), "an unknown box with a 16-byte header does not come back with Size() = its length and the same bytes: the removed-byte count and every data offset behind it are off")
		return
	}
	for i := 0; i < n; i++ {
		s := genMulti(e, r)
		for ti := range s.tracks {
			s.tracks[ti].fragID = 0
		}
		b := e.buildMulti(s)
		if b.class != "ok" {
			continue
		}
		evals++
		wit := s.String()
		rn := runMulti(b, s.key, false)
		if rn.class != "ok" {
			fail("mp4.DecryptFragment", "multi-"+rn.class, wit, "a protected fragment with several trafs / truns (each track protected by InitProtect + EncryptFragment, assembled into one moof) is not decrypted")
			continue
		}
		f := rn.frag
		// 1. the data offsets right after DecryptFragment (a fragment with several truns keeps them on Encode)
		bad := ""
		for ti, traf := range f.Moof.Trafs {
			var want []int32
			if ti < len(b.clearOff) {
				want = b.clearOff[ti]
			}
			for j, tr := range traf.Truns {
				if j >= len(want) || tr.DataOffset != want[j] {
					bad = fmt.Sprintf("track %d trun %d: data offset %d, clear layout %v", traf.Tfhd.TrackID, j, tr.DataOffset, want)
				}
			}
		}
		if bad != "" {
			fail("mp4.DecryptFragment", "multi-data-offset", wit, "after DecryptFragment a trun does not address its samples any more: "+bad)
			continue
		}
		// 2. sample bytes of every traf: through the library (first traf of each track) and straight from the mdat at the
		//    trun data offsets (every traf; a track may have several trafs in one moof)
		for oi, ti := range s.order {
			t := s.tracks[ti]
			var clear []byte
			for _, smp := range t.samples {
				clear = append(clear, smp...)
			}
			if oi < len(f.Moof.Trafs) {
				var got []byte
				okRead := hx.Try(func() {
					for _, tr := range f.Moof.Trafs[oi].Truns {
						from := int64(f.Moof.StartPos) + int64(tr.DataOffset) - int64(f.Mdat.PayloadAbsoluteOffset())
						got = append(got, f.Mdat.Data[from:from+int64(tr.SizeOfData())]...)
					}
				}) == ""
				if !okRead || !bytes.Equal(got, clear) {
					bad = fmt.Sprintf("traf %d (track %d)", oi, t.trackID)
				}
			}
			if t.sameAs != 0 {
				continue
			}
			first := true
			for _, tj := range s.order {
				if tj == ti {
					break
				}
				if s.tracks[tj].trackID == t.trackID {
					first = false
				}
			}
			if !first {
				continue
			}
			var fss []mp4.FullSample
			var err error
			if p := hx.Try(func() { fss, err = f.GetFullSamples(trexOf(rn.dec.Init, t.trackID)) }); p != "" {
				err = fmt.Errorf("panic")
			}
			ok := err == nil && len(fss) == len(t.samples)
			for j := 0; ok && j < len(fss); j++ {
				ok = bytes.Equal(fss[j].Data, t.samples[j])
			}
			if !ok {
				bad = fmt.Sprintf("track %d", t.trackID)
			}
		}
		if bad != "" {
			fail("mp4.DecryptFragment", "multi-sample-bytes", wit, "decrypted samples differ from the clear ones: "+bad)
			continue
		}
		// 3. the encoded fragment = the clear reference
		var buf bytes.Buffer
		var err error
		if p := hx.Try(func() { err = f.Encode(&buf) }); p != "" || err != nil {
			fail("mp4.Fragment.Encode", "multi-encode-"+classOf(p, err), wit, "the decrypted fragment does not encode")
			continue
		}
		got := buf.Bytes()
		want := b.clearRaw[s.start:]
		if len(got) >= len(want) {
			got = got[len(got)-len(want):]
		}
		if !bytes.Equal(got, want) {
			lists := compareChildLists(b.clearRaw, buf.Bytes())
			class, desc := "multi-bytes-differ", "decrypted fragment differs from the clear fragment assembled the same way"
			for _, k := range sortedKeys(lists) {
				class, desc = "multi-"+k+"-children", "child boxes differ: "+lists[k]
				break
			}
			fail("mp4.DecryptFragment", class, wit, desc+fmt.Sprintf(" (clear %s, decrypted %s)", trunc(hx.Hex(want), 300), trunc(hx.Hex(buf.Bytes()), 300)))
		}
	}
}
