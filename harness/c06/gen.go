// Harness for C06 (decrypting what was encrypted restores the content).
//
//	c06 corr   -seed S -n N            : cases + implementation observables for the model diff
//	c06 search -seed S -n N [-bins D]  : clear -> encrypt -> encode -> decode -> decrypt round trips (API and,
//	                                     with -bins, the built mp4ff-encrypt / mp4ff-decrypt), third-party files
// The generators and the fragment builder are the same as in harness/c07 (copied: one package per property).
package main

import (
	"bufio"
	"bytes"
	"encoding/binary"
	"fmt"
	"os"
	"path/filepath"
	"strconv"
	"strings"

	"github.com/Eyevinn/mp4ff/avc"
	"github.com/Eyevinn/mp4ff/bits"
	"github.com/Eyevinn/mp4ff/hevc"
	"github.com/Eyevinn/mp4ff/mp4"
	"verifharness/hx"
)

var out = bufio.NewWriterSize(os.Stdout, 1<<20)

// ---------------------------------------------------------------- environment (repo test assets)

type env struct {
	avcInit, hevcInit, aacInit []byte
	avcSps                     map[uint32]*avc.SPS
	avcPps                     map[uint32]*avc.PPS
	hevcSps                    map[uint32]*hevc.SPS
	hevcPps                    map[uint32]*hevc.PPS
	avcSlices, hevcSlices      [][]byte // real video NALUs with parseable slice headers
	avcSliceHdr, hevcSliceHdr  []int    // their slice header sizes
}

func must(err error) {
	if err != nil {
		fmt.Fprintln(os.Stderr, "harness setup:", err)
		os.Exit(3)
	}
}

func readFile(repo, rel string) []byte {
	b, err := os.ReadFile(filepath.Join(repo, rel))
	must(err)
	return b
}

func splitNalus(sample []byte) [][]byte {
	var res [][]byte
	pos := 0
	for pos+4 <= len(sample) {
		l := int(binary.BigEndian.Uint32(sample[pos:]))
		pos += 4
		if l < 0 || pos+l > len(sample) {
			break
		}
		res = append(res, sample[pos:pos+l])
		pos += l
	}
	return res
}

func loadEnv(repo string) *env {
	e := &env{}
	e.avcInit = readFile(repo, "mp4/testdata/init.mp4")
	e.hevcInit = readFile(repo, "mp4/testdata/hvc1_init.mp4")
	e.aacInit = readFile(repo, "mp4/testdata/aac_init.mp4")
	// AVC parameter sets
	f, err := mp4.DecodeFile(bytes.NewReader(e.avcInit))
	must(err)
	avcC := f.Init.Moov.Trak.Mdia.Minf.Stbl.Stsd.AvcX.AvcC
	e.avcSps = map[uint32]*avc.SPS{}
	e.avcPps = map[uint32]*avc.PPS{}
	for _, n := range avcC.SPSnalus {
		s, err := avc.ParseSPSNALUnit(n, false)
		must(err)
		e.avcSps[s.ParameterID] = s
	}
	for _, n := range avcC.PPSnalus {
		p, err := avc.ParsePPSNALUnit(n, e.avcSps)
		must(err)
		e.avcPps[p.PicParameterSetID] = p
	}
	seg, err := mp4.DecodeFile(bytes.NewReader(readFile(repo, "mp4/testdata/1.m4s")))
	must(err)
	for _, s := range seg.Segments {
		for _, fr := range s.Fragments {
			fss, err := fr.GetFullSamples(nil)
			must(err)
			for _, fs := range fss {
				for _, n := range splitNalus(fs.Data) {
					if len(n) > 0 && avc.IsVideoNaluType(avc.GetNaluType(n[0])) {
						sh, err := avc.ParseSliceHeader(n, e.avcSps, e.avcPps)
						if err == nil && len(e.avcSlices) < 40 {
							e.avcSlices = append(e.avcSlices, n)
							e.avcSliceHdr = append(e.avcSliceHdr, int(sh.Size))
						}
					}
				}
			}
		}
	}
	// HEVC
	f, err = mp4.DecodeFile(bytes.NewReader(e.hevcInit))
	must(err)
	hvcC := f.Init.Moov.Trak.Mdia.Minf.Stbl.Stsd.HvcX.HvcC
	e.hevcSps = map[uint32]*hevc.SPS{}
	e.hevcPps = map[uint32]*hevc.PPS{}
	for _, na := range hvcC.NaluArrays {
		if na.NaluType() == hevc.NALU_SPS {
			for _, n := range na.Nalus {
				s, err := hevc.ParseSPSNALUnit(n)
				must(err)
				e.hevcSps[uint32(s.SpsID)] = s
			}
		}
	}
	for _, na := range hvcC.NaluArrays {
		if na.NaluType() == hevc.NALU_PPS {
			for _, n := range na.Nalus {
				p, err := hevc.ParsePPSNALUnit(n, e.hevcSps)
				must(err)
				e.hevcPps[p.PicParameterSetID] = p
			}
		}
	}
	seg, err = mp4.DecodeFile(bytes.NewReader(readFile(repo, "mp4/testdata/hvc1_seg_1.m4s")))
	must(err)
	for _, s := range seg.Segments {
		for _, fr := range s.Fragments {
			fss, err := fr.GetFullSamples(nil)
			must(err)
			for _, fs := range fss {
				for _, n := range splitNalus(fs.Data) {
					if len(n) > 1 && hevc.IsVideoNaluType(hevc.GetNaluType(n[0])) {
						sh, err := hevc.ParseSliceHeader(n, e.hevcSps, e.hevcPps)
						if err == nil && len(e.hevcSlices) < 40 {
							e.hevcSlices = append(e.hevcSlices, n)
							e.hevcSliceHdr = append(e.hevcSliceHdr, int(sh.Size))
						}
					}
				}
			}
		}
	}
	if len(e.avcSlices) == 0 || len(e.hevcSlices) == 0 {
		must(fmt.Errorf("no parseable slices in the test assets"))
	}
	return e
}

// ---------------------------------------------------------------- formatting

func rangesString(ssps []mp4.SubSamplePattern) string {
	if len(ssps) == 0 {
		return "-"
	}
	ss := make([]string, len(ssps))
	for i, s := range ssps {
		ss[i] = fmt.Sprintf("%d/%d", s.BytesOfClearData, s.BytesOfProtectedData)
	}
	return strings.Join(ss, ",")
}

func hexList(l [][]byte) string {
	if len(l) == 0 {
		return "-"
	}
	ss := make([]string, len(l))
	for i, b := range l {
		ss[i] = hx.Hex(b)
	}
	return strings.Join(ss, ";")
}

func samplesField(l [][]byte) string {
	ss := make([]string, len(l))
	for i, b := range l {
		ss[i] = hx.Hex(b)
	}
	return strings.Join(ss, ";")
}

func emit(fields ...string) {
	out.WriteString(strings.Join(fields, "\t"))
	out.WriteByte('\n')
}

// ---------------------------------------------------------------- generators

var thresholdSizes = []int{1, 2, 3, 5, 11, 12, 15, 16, 17, 31, 32, 33, 91, 92, 93, 95, 96, 97, 103, 104, 107, 108, 109,
	110, 111, 112, 113, 122, 123, 124, 125, 127, 128, 129, 139, 140, 141, 255, 256, 257, 300, 1000}

func naluSize(r *hx.Rng, big int) int {
	switch r.Intn(10) {
	case 0, 1, 2, 3, 4:
		return thresholdSizes[r.Intn(len(thresholdSizes))]
	case 5, 6:
		return r.Range(1, 400)
	case 7:
		return r.Range(100, 2000)
	case 8:
		if big > 0 {
			return r.Pick(65535-4, 65535, 65536, 65537, 65535+107, 65535+108, 65536+112, 131070, 131071, 131069,
				65535-4-4, 65531, 65532) + r.Pick(0, 0, 0, -1, 1, 96, 100)
		}
		return r.Range(1, 200)
	default:
		return r.Range(1, 64)
	}
}

func avcHeader(r *hx.Rng, video bool) byte {
	ref := byte(r.Intn(4)) << 5
	if video {
		return ref | byte(r.Pick(1, 5, 1, 5, 2, 3, 4, 0))
	}
	return ref | byte(r.Pick(6, 7, 8, 9, 10, 12, 14, 20, 31))
}

func hevcHeader(r *hx.Rng, video bool) byte {
	if video {
		return byte(r.Pick(0, 1, 8, 9, 16, 19, 20, 21, 31)) << 1
	}
	return byte(r.Pick(32, 33, 34, 35, 39, 40, 63)) << 1
}

func frame(nalus [][]byte) []byte {
	var b []byte
	for _, n := range nalus {
		var l [4]byte
		binary.BigEndian.PutUint32(l[:], uint32(len(n)))
		b = append(b, l[:]...)
		b = append(b, n...)
	}
	return b
}

// genVideoSampleCenc: arbitrary payloads, any size mix (slice headers are not parsed for cenc).
func genVideoSampleCenc(r *hx.Rng, codec byte, big int) [][]byte {
	n := r.Pick(1, 1, 2, 3, 4, 6)
	if r.Intn(12) == 0 {
		// pictures coded as many slices: the per-sample auxiliary information (IV + 2 + 6 per sub-sample) crosses the
		// 255 bytes a saiz entry can announce at 40 (16-byte IV), 41 (8-byte IV) and 43 (no IV) protected NAL units
		n = r.Pick(39, 40, 41, 42, 43, 44, 64)
	}
	nalus := make([][]byte, 0, n)
	bigUsed := false
	for i := 0; i < n; i++ {
		sz := naluSize(r, big)
		if sz > 60000 {
			if bigUsed {
				sz = r.Range(1, 300)
			}
			bigUsed = true
		}
		video := r.Intn(3) != 0
		b := r.Bytes(sz, nil)
		if codec == 'a' {
			b[0] = avcHeader(r, video)
		} else {
			b[0] = hevcHeader(r, video)
			if sz > 1 {
				b[1] = 1
			}
		}
		nalus = append(nalus, b)
	}
	return nalus
}

// genVideoSampleCbcs: video NALUs are real slices (parseable headers) cut or extended after the header.
func genVideoSampleCbcs(e *env, r *hx.Rng, codec byte, big int) [][]byte {
	n := r.Pick(1, 1, 2, 3, 4)
	if r.Intn(12) == 0 {
		n = r.Pick(39, 40, 41, 42, 43, 44, 64)
	}
	nalus := make([][]byte, 0, n)
	bigUsed := false
	for i := 0; i < n; i++ {
		if r.Intn(3) == 0 {
			sz := r.Pick(1, 2, 5, 16, 30, 200)
			b := r.Bytes(sz, nil)
			if codec == 'a' {
				b[0] = avcHeader(r, false)
			} else {
				b[0] = hevcHeader(r, false)
			}
			nalus = append(nalus, b)
			continue
		}
		var src []byte
		var h int
		if codec == 'a' {
			k := r.Intn(len(e.avcSlices))
			src, h = e.avcSlices[k], e.avcSliceHdr[k]
		} else {
			k := r.Intn(len(e.hevcSlices))
			src, h = e.hevcSlices[k], e.hevcSliceHdr[k]
		}
		// payload length after the header: around the 16/160 block pattern boundaries
		pay := r.Pick(0, 1, 15, 16, 17, 31, 32, 143, 144, 159, 160, 161, 175, 176, 177, 319, 320, 336, 337, 1000, r.Range(0, 700))
		if big > 0 && !bigUsed && r.Intn(12) == 0 {
			pay = r.Pick(65535, 65536, 70000)
			bigUsed = true
		}
		if h > len(src) {
			h = len(src)
		}
		b := append([]byte{}, src[:h]...)
		b = append(b, r.Bytes(pay, nil)...)
		nalus = append(nalus, b)
	}
	return nalus
}

func genAudioSample(r *hx.Rng, big int) []byte {
	sz := r.Pick(1, 2, 15, 16, 17, 31, 32, 33, 100, 159, 160, 161, 371, r.Range(1, 600))
	if big > 0 && r.Intn(20) == 0 {
		sz = r.Pick(4096, 65535, 65536)
	}
	return r.Bytes(sz, nil)
}

// withEmptySamples: ZERO-SIZE samples are valid ISOBMFF (sample_size 0: gap fillers, empty audio frames, empty text
// samples). Every clear-fragment generator passes its samples through here: now and then the first, the middle, the
// last, the first and the last, a random subset or ALL samples of the fragment become empty. An empty sample is a
// sample like any other: it has its own entry in trun, senc and saiz, consumes an IV (cenc) and must come back empty
// with all its neighbours intact. Video: the unmodified protection-range functions refuse a sample without NAL units
// (see refusedSample), so empties are drawn less often there; if an encryptor lets them through, the round trip
// has to hold for them too.
func withEmptySamples(r *hx.Rng, codec byte, samples [][]byte) [][]byte {
	den := 3
	if codec != 'u' {
		den = 8
	}
	n := len(samples)
	if n == 0 || r.Intn(den) != 0 {
		return samples
	}
	switch r.Intn(6) {
	case 0:
		samples[0] = []byte{}
	case 1:
		samples[n/2] = []byte{}
	case 2:
		samples[n-1] = []byte{}
	case 3:
		samples[0], samples[n-1] = []byte{}, []byte{}
	case 4:
		for i := range samples {
			samples[i] = []byte{}
		}
	default:
		for i := range samples {
			if r.Bool() {
				samples[i] = []byte{}
			}
		}
	}
	return samples
}

// refusedSample: the clear fragment holds a video sample for which the library's protection-range function
// (GetAVCProtectRanges / GetHEVCProtectRanges) returns an error, e.g. an empty sample ("No NALUs"): EncryptFragment
// refuses such a fragment, there is nothing to decrypt and the property does not speak about it.
func (e *env) refusedSample(codec byte, scheme string, samples [][]byte) bool {
	if codec == 'u' {
		return false
	}
	for _, s := range samples {
		if len(s) != 0 {
			continue // only samples of the widened class: everything else has to be accepted as before
		}
		if _, class := e.protectRanges(codec, s, scheme); class == "err" {
			return true
		}
	}
	return false
}

func genIV(r *hx.Rng, n int) []byte {
	iv := r.Bytes(n, nil)
	switch r.Intn(6) {
	case 0: // carries
		for i := n - 1 - r.Intn(n); i < n; i++ {
			iv[i] = 0xff
		}
	case 1:
		for i := range iv {
			iv[i] = 0xff
		}
		if r.Bool() {
			iv[n-1] = byte(0xff - r.Intn(4))
		}
	case 2:
		for i := range iv {
			iv[i] = 0
		}
	case 3: // low 8 bytes about to carry into the high half
		if n == 16 {
			for i := 8; i < 16; i++ {
				iv[i] = 0xff
			}
			iv[15] = byte(0xff - r.Intn(3))
		}
	}
	return iv
}

// ---------------------------------------------------------------- implementation observables

func (e *env) hdrSize(codec byte, nalu []byte) string {
	if codec == 'a' {
		sh, err := avc.ParseSliceHeader(nalu, e.avcSps, e.avcPps)
		if err != nil {
			return "E"
		}
		return strconv.Itoa(int(sh.Size))
	}
	sh, err := hevc.ParseSliceHeader(nalu, e.hevcSps, e.hevcPps)
	if err != nil {
		return "E"
	}
	return strconv.Itoa(int(sh.Size))
}

func isVideo(codec byte, b byte) bool {
	if codec == 'a' {
		return avc.IsVideoNaluType(avc.GetNaluType(b))
	}
	return hevc.IsVideoNaluType(hevc.GetNaluType(b))
}

// hdrOracle lists, in order, the slice-header size (or E) of every video NALU of a WELL-FORMED sample.
func (e *env) hdrOracle(codec byte, nalus [][]byte) string {
	var hs []string
	for _, n := range nalus {
		if len(n) > 0 && isVideo(codec, n[0]) {
			hs = append(hs, e.hdrSize(codec, n))
		}
	}
	if len(hs) == 0 {
		return "-"
	}
	return strings.Join(hs, ",")
}

func (e *env) protectRanges(codec byte, sample []byte, scheme string) (ssps []mp4.SubSamplePattern, class string) {
	var err error
	p := hx.Try(func() {
		if codec == 'a' {
			ssps, err = mp4.GetAVCProtectRanges(e.avcSps, e.avcPps, sample, scheme)
		} else {
			ssps, err = mp4.GetHEVCProtectRanges(e.hevcSps, e.hevcPps, sample, scheme)
		}
	})
	if p != "" {
		return nil, "panic"
	}
	if err != nil {
		return nil, "err"
	}
	return ssps, "ok"
}

func obsRanges(ssps []mp4.SubSamplePattern, class string) string {
	if class != "ok" {
		return class
	}
	return "ok:" + rangesString(ssps)
}

func cryptCenc(sample, key, iv []byte, ssps []mp4.SubSamplePattern) string {
	buf := hx.Exact(sample)
	var err error
	p := hx.Try(func() { err = mp4.CryptSampleCenc(buf, key, iv, ssps) })
	if p != "" {
		return "panic"
	}
	if err != nil {
		return "err"
	}
	return "ok:" + hx.Hex(buf)
}

func cryptCbcs(dec bool, sample, key, iv []byte, ssps []mp4.SubSamplePattern, cb, sb int) string {
	buf := hx.Exact(sample)
	tenc := &mp4.TencBox{DefaultCryptByteBlock: byte(cb), DefaultSkipByteBlock: byte(sb)}
	var err error
	p := hx.Try(func() {
		if dec {
			err = mp4.DecryptSampleCbcs(buf, key, iv, ssps, tenc)
		} else {
			err = mp4.EncryptSampleCbcs(buf, key, iv, ssps, tenc)
		}
	})
	if p != "" {
		return "panic"
	}
	if err != nil {
		return "err"
	}
	return "ok:" + hx.Hex(buf)
}

type fragOpts struct {
	extraMoof  int  // boxes added to moof before EncryptFragment (after traf): free / pssh-less unknown
	extraTraf  int  // boxes added to traf before EncryptFragment
	moofBefore bool // put an extra box BEFORE the traf
	wide       wideOpts // second extension: every kind of non-protection box (wide.go)
}

type fragResult struct {
	class    string
	frag     *mp4.Fragment
	init     *mp4.File
	ipd      *mp4.InitProtectData
	enc      [][]byte // encrypted sample data
	before   string
	trafc    string
	obs      string
	cb, sb   int
	trackID  uint32
	timescal uint32
}

func (e *env) initFor(codec byte) []byte {
	switch codec {
	case 'a':
		return e.avcInit
	case 'h':
		return e.hevcInit
	}
	return e.aacInit
}

var kidHex = "11112222333344445555666677778888"

// buildFragment creates a clear single-traf single-trun fragment holding the given samples.
func buildFragment(trackID uint32, samples [][]byte, o fragOpts, r *hx.Rng) *mp4.Fragment {
	frag, err := mp4.CreateFragment(7, trackID)
	must(err)
	dt := uint64(90000)
	for i, s := range samples {
		fl := uint32(0x01010000)
		if i == 0 {
			fl = 0x02000000
		}
		frag.AddFullSample(mp4.FullSample{
			Sample:     mp4.Sample{Flags: fl, Dur: 1000 + uint32(i%3), Size: uint32(len(s)), CompositionTimeOffset: int32((i % 4) * 500)},
			DecodeTime: dt,
			Data:       append([]byte{}, s...),
		})
		dt += uint64(1000 + i%3)
	}
	traf := frag.Moof.Traf
	for i := 0; i < o.extraTraf; i++ {
		switch (i + int(trackID)) % 3 {
		case 0:
			_ = traf.AddChild(mp4.NewTfxdBox(12345678, 2000))
		case 1:
			_ = traf.AddChild(mp4.CreateUnknownBox("abcd", 8+5, []byte{1, 2, 3, 4, 5}))
		default:
			_ = traf.AddChild(mp4.NewFreeBox([]byte{9, 9, 9}))
		}
	}
	for i := 0; i < o.extraMoof; i++ {
		var b mp4.Box
		if i%2 == 0 {
			b = mp4.NewFreeBox([]byte{7, 7, 7, 7, 7, 7})
		} else {
			b = mp4.CreateUnknownBox("wxyz", 8+3, []byte{1, 2, 3})
		}
		if o.moofBefore && i == 0 {
			// insert before the traf
			ch := frag.Moof.Children
			nc := make([]mp4.Box, 0, len(ch)+1)
			for _, c := range ch {
				if c.Type() == "traf" {
					nc = append(nc, b)
				}
				nc = append(nc, c)
			}
			frag.Moof.Children = nc
		} else {
			_ = frag.Moof.AddChild(b)
		}
	}
	applyWideFragment(frag, o.wide, len(samples))
	return frag
}

// runFragment: InitProtect + EncryptFragment on a freshly built fragment; collects the observables.
func (e *env) runFragment(codec byte, scheme string, key, iv []byte, samples [][]byte, o fragOpts, r *hx.Rng) fragResult {
	res := fragResult{}
	initF, err := mp4.DecodeFile(bytes.NewReader(e.initFor(codec)))
	must(err)
	applyWideInit(initF.Init, o.wide)
	res.init = initF
	kid, _ := mp4.NewUUIDFromString(kidHex)
	// hygiene.go classes 1 and 2: key / iv / kid reach the library in the caller's re-used buffers (refilled in place for
	// every call, guard bytes behind them), are checked and overwritten right after the call
	keyIn, ivIn := key, iv
	kidA := owned(kid)
	key, iv = ownedShared(0, keyIn), ownedShared(1, ivIn)
	ipd, err := mp4.InitProtect(initF.Init, key, iv, scheme, mp4.UUID(kidA), nil)
	if !ownedIntact(key, keyIn) || !ownedIntact(iv, ivIn) || !ownedIntact(kidA, kid) {
		hygFail("mp4.InitProtect", "writes-into-argument", "InitProtect changed its key, iv or kid argument (or the bytes behind it)")
	}
	scribbleBytes(kidA)
	scribbleBytes(key)
	scribbleBytes(iv)
	if err != nil {
		res.class = "err"
		res.obs = "err"
		return res
	}
	res.ipd = ipd
	res.cb, res.sb = int(ipd.Tenc.DefaultCryptByteBlock), int(ipd.Tenc.DefaultSkipByteBlock)
	res.trackID = initF.Init.Moov.Trak.Tkhd.TrackID
	frag := buildFragment(res.trackID, samples, o, r)
	res.frag = frag
	key, iv = ownedShared(0, keyIn), ownedShared(1, ivIn) // refilled in place for the next call
	mdatWhole, mdatLen := guardMdat(frag)
	p := hx.Try(func() { err = mp4.EncryptFragment(frag, key, iv, ipd) })
	if !ownedIntact(key, keyIn) || !ownedIntact(iv, ivIn) {
		hygFail("mp4.EncryptFragment", "writes-into-argument", "EncryptFragment changed its key or iv argument (or the bytes behind it)")
	}
	if !guardsAround(mdatWhole, mdatLen) {
		hygFail("mp4.EncryptFragment", "writes-beyond-sample", "EncryptFragment changed bytes in front of or behind the media data (the mdat payload was a sub-slice of a larger buffer)")
	}
	scribbleBytes(key)
	scribbleBytes(iv)
	if p != "" {
		res.class, res.obs = "panic", "panic"
		return res
	}
	if err != nil {
		res.class, res.obs = "err", "err"
		return res
	}
	res.class = "ok"
	traf := frag.Moof.Traf
	senc, saiz, saio := traf.Senc, traf.Saiz, traf.Saio
	// encrypted data
	fss, err := frag.GetFullSamples(ipd.Trex)
	must(err)
	for _, fs := range fss {
		res.enc = append(res.enc, fs.Data)
	}
	ivs := make([][]byte, len(senc.IVs))
	for i := range senc.IVs {
		ivs[i] = senc.IVs[i]
	}
	sss := "-"
	if len(senc.SubSamples) > 0 {
		parts := make([]string, len(senc.SubSamples))
		for i, s := range senc.SubSamples {
			parts[i] = rangesString(s)
		}
		sss = strings.Join(parts, ";")
	}
	subs := 0
	if senc.Flags&mp4.UseSubSampleEncryption != 0 {
		subs = 1
	}
	sencState := fmt.Sprintf("%d/%d/%d", senc.SampleCount, senc.GetPerSampleIVSize(), subs)
	saizS := fmt.Sprintf("ok:%s/%d/%d", hx.Hex(saiz.SampleInfo), saiz.DefaultSampleInfoSize, saiz.SampleCount)
	// senc entries as encoded
	sencS := ""
	pp := hx.Try(func() {
		sw := bits.NewFixedSliceWriter(int(senc.Size()))
		if err := senc.EncodeSW(sw); err != nil {
			sencS = "err"
			return
		}
		b := sw.Bytes()
		sencS = fmt.Sprintf("ok:%d/%s", senc.Size(), hx.Hex(b[16:]))
	})
	if pp != "" {
		sencS = "panic"
	}
	var before []int
	var trafc []string
	seenTraf := false
	for _, c := range frag.Moof.Children {
		if c.Type() == "traf" {
			seenTraf = true
			for _, tc := range c.(*mp4.TrafBox).Children {
				sz := uint64(0)
				if tc.Type() == "senc" {
					if hx.Try(func() { sz = tc.Size() }) != "" {
						sz = 0
					}
					trafc = append(trafc, fmt.Sprintf("s:%d", sz))
				} else {
					trafc = append(trafc, fmt.Sprintf("o:%d", tc.Size()))
				}
			}
			continue
		}
		if !seenTraf {
			before = append(before, int(c.Size()))
		}
	}
	res.before = hx.Csv(before)
	res.trafc = strings.Join(trafc, ",")
	res.obs = strings.Join([]string{"ok", sencState, hexList(ivs), sss, saizS, sencS,
		strconv.FormatInt(saio.Offset[0], 10), hexList(res.enc)}, "|")
	return res
}


func parseRanges(r *hx.Rng, total int) []mp4.SubSamplePattern {
	// random patterns covering at most total bytes (used for CryptSampleCenc / cbcs on arbitrary maps)
	var ssps []mp4.SubSamplePattern
	left := total
	n := r.Intn(5)
	for i := 0; i < n && left > 0; i++ {
		c := r.Intn(left + 1)
		if c > 65535 {
			c = 65535
		}
		if r.Intn(3) == 0 {
			c = 0
		}
		left -= c
		p := 0
		if left > 0 {
			p = r.Pick(0, 1, 15, 16, 17, 32, 160, 176, r.Intn(left+1))
			if p > left {
				p = left
			}
		}
		left -= p
		ssps = append(ssps, mp4.SubSamplePattern{BytesOfClearData: uint16(c), BytesOfProtectedData: uint32(p)})
	}
	return ssps
}

