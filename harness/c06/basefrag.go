package main

import (
	"bytes"
	"fmt"

	"github.com/Eyevinn/mp4ff/mp4"
	"verifharness/hx"
)

// searchBaseOffset: a media segment kept in a file of its own (no init in front of it) whose tfhd carries an explicit
// base_data_offset = the position of its moof (flag 0x000001, default-base-is-moof cleared). Encrypting grows the moof
// but does not move its start, so the explicit base stays valid (unlike the one-file layouts of known finding C06-F2,
// where InitProtect moves everything): encrypt -> encode -> decode -> decrypt must give a fragment whose samples, read
// in memory through GetFullSamples, are the clear samples.
func searchBaseOffset(e *env, r *hx.Rng, n int) {
	kid, _ := mp4.NewUUIDFromString(kidHex)
	for i := 0; i < n; i++ {
		scheme := []string{"cenc", "cbcs"}[i%2]
		ns := r.Pick(1, 2, 3, 5)
		var samples [][]byte
		for j := 0; j < ns; j++ {
			samples = append(samples, genAudioSample(r, 0))
		}
		key := r.Bytes(16, nil)
		iv := genIV(r, r.Pick(8, 16))
		styp := i%3 == 0
		wit := fmt.Sprintf("base-data-offset=moof scheme=%s styp=%v key=%s iv=%s samples=%s", scheme, styp, hx.Hex(key), hx.Hex(iv), samplesField(samples))
		evals++
		res := func() (res string) {
			defer func() {
				if rec := recover(); rec != nil {
					res = fmt.Sprintf("panic: %v", rec)
				}
			}()
			initF, err := mp4.DecodeFile(bytes.NewReader(e.initFor('u')))
			must(err)
			trackID := initF.Init.Moov.Trak.Tkhd.TrackID
			frag := buildFragment(trackID, samples, fragOpts{}, r)
			var seg bytes.Buffer
			if styp {
				must(mp4.NewStyp("cmfs", 0, []string{"cmfs"}).Encode(&seg))
			}
			must(frag.Encode(&seg))
			// the clear segment, decoded, gets the explicit base and is written again
			cf, err := mp4.DecodeFile(bytes.NewReader(seg.Bytes()))
			must(err)
			cfr := cf.Segments[0].Fragments[0]
			tfhd := cfr.Moof.Traf.Tfhd
			tfhd.Flags = (tfhd.Flags &^ 0x020000) | 0x01
			tfhd.BaseDataOffset = cfr.Moof.StartPos
			var clearSeg bytes.Buffer
			must(cf.Encode(&clearSeg))
			cf2, err := mp4.DecodeFile(bytes.NewReader(clearSeg.Bytes()))
			must(err)
			cs, err := cf2.Segments[0].Fragments[0].GetFullSamples(initF.Init.Moov.Mvex.Trex)
			if err != nil || len(cs) != len(samples) {
				return "" // the clear layout itself is not readable: outside the property's quantifier
			}
			for k := range cs {
				if !bytes.Equal(cs[k].Data, samples[k]) {
					return ""
				}
			}
			ipd, err := mp4.InitProtect(initF.Init, key, iv, scheme, kid, nil)
			if err != nil {
				return "InitProtect: " + err.Error()
			}
			efr := cf2.Segments[0].Fragments[0]
			if err := mp4.EncryptFragment(efr, key, iv, ipd); err != nil {
				return "EncryptFragment: " + err.Error()
			}
			var encSeg bytes.Buffer
			must(cf2.Encode(&encSeg))
			var encInit bytes.Buffer
			must(initF.Init.Encode(&encInit))
			di0, err := mp4.DecodeFile(bytes.NewReader(encInit.Bytes()))
			must(err)
			di, err := mp4.DecryptInit(di0.Init)
			if err != nil {
				return "DecryptInit: " + err.Error()
			}
			ef, err := mp4.DecodeFile(bytes.NewReader(encSeg.Bytes()))
			if err != nil {
				return "encrypted segment does not decode: " + err.Error()
			}
			dfr := ef.Segments[0].Fragments[0]
			if err := mp4.DecryptFragment(dfr, di, key); err != nil {
				return "DecryptFragment: " + err.Error()
			}
			ds, err := dfr.GetFullSamples(di0.Init.Moov.Mvex.Trex)
			if err != nil {
				return "GetFullSamples on the decrypted fragment: " + err.Error()
			}
			if len(ds) != len(samples) {
				return fmt.Sprintf("%d samples read from the decrypted fragment, %d written", len(ds), len(samples))
			}
			for k := range ds {
				if !bytes.Equal(ds[k].Data, samples[k]) {
					return fmt.Sprintf("sample %d read from the decrypted fragment differs from the clear sample", k)
				}
			}
			return ""
		}()
		if res != "" {
			fail("mp4.DecryptFragment(segment file, explicit base_data_offset)", "in-memory-samples-differ", wit, res)
		}
	}
}
