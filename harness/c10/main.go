// Harness for C10 (cropping a progressive file yields exactly a prefix of every track).
//   c10 gen    -seed S -n N -o cases          : table-level cases for the verif-tagged test driver in cmd/mp4ff-crop
//   c10 join   -cases F -res R                : case lines + results of the real routines, for the model driver
//   c10 search -cases F -res R                : the prefix property on the results (own expansion), FAIL/EVALS lines
//   c10 files  -seed S -n N -bin B -tmp D     : synthesized progressive files through the built mp4ff-crop binary
package main

import (
	"bufio"
	"flag"
	"fmt"
	"os"
	"strconv"
	"strings"

	"verifharness/c09/tbl"
	"verifharness/hx"
)

var out = bufio.NewWriterSize(os.Stdout, 1<<20)

// ---------------------------------------------------------------- gen

// interleave lays the chunks of several tracks out in one file area: per-track order is kept, tracks are
// interleaved randomly, optional gaps between chunks. Offsets are written into the Raws.
func interleave(rng *hx.Rng, rs []*tbl.Raw, base uint64, gaps bool) {
	type ck struct{ t, c int }
	xs := make([]*tbl.Ref, len(rs))
	next := make([]int, len(rs))
	left := 0
	for i, r := range rs {
		r.Offs = make([]uint64, len(r.Offs))
		xs[i] = tbl.Expand(r)
		left += xs[i].NChunks
	}
	pos := base
	for left > 0 {
		t := rng.Intn(len(rs))
		for next[t] >= xs[t].NChunks {
			t = (t + 1) % len(rs)
		}
		c := next[t]
		next[t]++
		left--
		if gaps && rng.Intn(4) == 0 {
			pos += uint64(rng.Range(1, 9))
		}
		rs[t].Offs[c] = pos
		for n := xs[t].ChunkFirst[c]; n < xs[t].ChunkFirst[c]+xs[t].ChunkCount[c]; n++ {
			pos += uint64(xs[t].Size[n-1])
		}
	}
}

var genOpt = tbl.GenOpt{MaxEntries: 4, MaxChunks: 3, MaxSpc: 4, ZeroDeltaPct: 0, VaryIDPct: 35, BigPct: 0, Contiguous: true}

func gen(seed uint64, n int, path string) {
	rng := hx.NewRng(seed ^ 0xc10)
	fh, err := os.Create(path)
	if err != nil {
		panic(err)
	}
	w := bufio.NewWriterSize(fh, 1<<20)
	id := 0
	emit := func(op, arg string, rs ...*tbl.Raw) {
		fs := make([]string, len(rs))
		for i, r := range rs {
			fs[i] = r.Encode()
		}
		fmt.Fprintf(w, "c%d\t%s\t%s\t%s\n", id, op, arg, strings.Join(fs, "\t"))
		id++
	}
	for i := 0; i < n; i++ {
		r := tbl.Gen(rng, genOpt)
		x := tbl.Expand(r)
		// every k, plus k = 0 and k = N+1 (outside the contract: model vs code only)
		for k := 0; k <= x.N+1; k++ {
			emit("crop", strconv.Itoa(k), r)
		}
		// findTrakEnds: same and different timescales, times on a grid around every sample start
		ts := uint32(rng.Pick(1000, 600, 24, 90000, 48000))
		ets := uint32(rng.Pick(int(ts), 1000, 30, 12800))
		for j := 0; j < 6; j++ {
			var t uint64
			if x.Total > 0 {
				t = rng.U64() % (x.Total*uint64(ets)/uint64(ts) + 3)
			}
			emit("ends", fmt.Sprintf("%d:%d:%d", ts, t, ets), r)
		}
		for j := 0; j < x.N && j < 6; j++ {
			s := x.Start[rng.Intn(x.N)]
			emit("ends", fmt.Sprintf("%d:%d:%d", ts, s, ts), r)
			emit("ends", fmt.Sprintf("%d:%d:%d", ts, s+1, ts), r)
		}
		// findEndTime: milliseconds on a grid from 1 to beyond the end
		durMs := x.Total * 1000 / uint64(ts)
		for j := 0; j < 8; j++ {
			ms := uint64(1)
			switch j {
			case 0:
				ms = 1
			case 1:
				ms = durMs + 1 + uint64(rng.Intn(50))
			case 2:
				ms = durMs
			default:
				ms = 1 + rng.U64()%(durMs+2)
			}
			emit("endtime", fmt.Sprintf("%d:%d:%s", ts, ms, []string{"vide", "soun"}[rng.Intn(2)]), r)
		}
		// fill: 1-3 tracks interleaved in one mdat
		nt := rng.Range(1, 3)
		rs := []*tbl.Raw{r.Clone()}
		for len(rs) < nt {
			rs = append(rs, tbl.Gen(rng, genOpt))
		}
		interleave(rng, rs, uint64(rng.Range(1, 5000)), rng.Bool())
		for j := 0; j < 4; j++ {
			ks := make([]string, len(rs))
			for t, rr := range rs {
				ks[t] = strconv.Itoa(rng.Range(1, int(rr.Number)))
			}
			emit("fill", strings.Join(ks, ":"), rs...)
		}
	}
	w.Flush()
	fh.Close()
}

// ---------------------------------------------------------------- join

func readLines(path string) []string {
	data, err := os.ReadFile(path)
	if err != nil {
		panic(err)
	}
	return strings.Split(strings.TrimRight(string(data), "\n"), "\n")
}

func resultsByID(path string) map[string]string {
	m := map[string]string{}
	for _, l := range readLines(path) {
		p := strings.SplitN(l, "\t", 2)
		if len(p) == 2 {
			m[p[0]] = p[1]
		}
	}
	return m
}

func join(cases, res string) {
	rm := resultsByID(res)
	for _, l := range readLines(cases) {
		id := strings.SplitN(l, "\t", 2)[0]
		r, ok := rm[id]
		if !ok {
			r = "missing"
		}
		fmt.Fprintf(out, "K\t%s\t%s\n", l, r)
	}
	out.Flush()
}

func main() {
	if len(os.Args) < 2 {
		fmt.Fprintln(os.Stderr, "usage: c10 gen|join|search|files ...")
		os.Exit(2)
	}
	fs := flag.NewFlagSet(os.Args[1], flag.ExitOnError)
	seed := fs.Uint64("seed", 0, "seed")
	n := fs.Int("n", 50, "number of tables / files")
	o := fs.String("o", "", "output case file")
	cases := fs.String("cases", "", "case file")
	res := fs.String("res", "", "result file of the test driver")
	bin := fs.String("bin", "", "mp4ff-crop binary")
	tmp := fs.String("tmp", "", "scratch directory")
	_ = fs.Parse(os.Args[2:])
	switch os.Args[1] {
	case "gen":
		gen(*seed, *n, *o)
	case "join":
		join(*cases, *res)
	case "search":
		search(*cases, *res)
	case "files":
		files(*seed, *n, *bin, *tmp)
	default:
		os.Exit(2)
	}
}
